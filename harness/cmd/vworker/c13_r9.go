package main

// C13, phase "shadows" (and its bounded race-build version): the SAME names bound at different
// levels of a chain of child scopes (depth 2..50), shadowed and unshadowed by writers while
// readers look them up from the innermost scope and from middle levels.
//
// A lookup started in an inner scope takes one scope after the other, so with writers at several
// levels it is not one atomic step and the statement does not order it against them. What the
// statement does fix (every operation on ONE scope is atomic, each goroutine's own order is kept):
//   - every NAME has ONE writing goroutine, which binds, re-binds and deletes it at the root and at
//     inner levels; while that goroutine itself looks the name up (from any level) nobody changes
//     any binding of it, so the answer is the nearest binding of its own model, exactly;
//   - what any other goroutine reads of a name is a value its writer stored for THAT name in a
//     scope the lookup can reach (the level is part of the value);
//   - QUIESCENT: after all goroutines have ended, every name looked up from every level answers
//     the nearest binding of the chain-of-dictionaries model built from the writers' last writes.
// Nothing is decided from the clock: the writers do a fixed number of rounds, the readers work
// until the writers are done.

import (
	"fmt"
	"reflect"
	"runtime"
	"strconv"
	"sync"
	"sync/atomic"
	"time"

	"github.com/mattn/anko/env"

	"verifharness/internal/fw"
	"verifharness/internal/wk"
)

const c13r9Rule = " phase shadows (plain build, GOMAXPROCS 4/8/16; shadows-race: bounded, race build): a chain root <- s1 <- ... <- leaf of 2..50 scopes (case k: depth from 2, 3, 5, 9, 17, 33, 49, 50 and PRNG); 1-3 writer goroutines, each the ONLY writer of its 1-2 names, run 30000 rounds (thorough 250000, race 6000) of {bind the name at an inner level (Define / DefineValue of an addressable cell: a name new to that scope), look it up from the innermost scope and from PRNG levels (Get, GetValue, Addr), Set it from the innermost scope (lands in the nearest binding), delete the inner binding (Delete there / DeleteGlobal from the innermost scope), look it up again; now and then re-bind or delete the root's binding}; every lookup by the writer itself must answer the nearest binding of its own model (an error when none); 3-6 readers Get / GetValue / Addr all names from the innermost scope and from middle levels until the writers are done: an answer must be a value written for that name at a level the lookup can reach. After all goroutines ended, every name is looked up from EVERY level by Get, GetValue and Addr and compared with the chain-of-dictionaries model of the writers' last writes (signature shadows:quiescent:<op>:...)."

const c13r9Assumption = "phase shadows: a lookup that walks a chain is judged exactly only for the goroutine that is the sole writer of the name at every level (nobody changes a binding of it during that goroutine's own lookup) and after all goroutines have ended; Addr of a bound name may answer a pointer to the value or an error, of an unbound name only an error"

func c13r9Phases(tier string) []fw.Phase {
	n, nr := 8, 2
	if tier == "thorough" {
		n, nr = 80, 16
	}
	return []fw.Phase{
		{Name: "shadows", Cases: n, Chunk: 1, TimeoutS: 900, Jobs: 4, MemMB: 4096},
		{Name: "shadows-race", Race: true, Cases: nr, Chunk: 1, TimeoutS: 900, Jobs: 4},
	}
}

func c13r9Run(c *wk.Case) bool {
	switch c.Phase {
	case "shadows":
		c13r9Shadows(c, false)
	case "shadows-race":
		c13r9Shadows(c, true)
	default:
		return false
	}
	return true
}

var c13r9IntType = reflect.TypeOf(int(0))

// a value names the level it was stored at, the name and a counter
func c13r9Val(level, name, n int) int { return (level*16+name)<<32 | n&0xffffffff }
func c13r9Level(v int) int            { return (v >> 32) / 16 }
func c13r9Name(v int) int             { return (v >> 32) % 16 }

func c13r9Shadows(c *wk.Case, race bool) {
	rng := c.Rng
	procs := []int{16, 8, 4}[c.Index%3]
	old := runtime.GOMAXPROCS(procs)
	defer runtime.GOMAXPROCS(old)
	depths := []int{49, 2, 3, 17, 5, 33, 9, 50}
	depth := depths[c.Index%len(depths)]
	if c.Index >= len(depths) {
		depth = 2 + rng.Intn(49)
	}
	nW := 1 + c.Index%3
	perW := 1 + rng.Intn(2)
	nR := 3 + rng.Intn(4)
	rounds := 30000
	if c.Tier == "thorough" {
		rounds = 250000
	}
	if race {
		rounds = 6000
	}
	chain := make([]*env.Env, depth)
	chain[0] = env.NewEnv()
	for i := 1; i < depth; i++ {
		chain[i] = chain[i-1].NewEnv()
	}
	leaf := chain[depth-1]
	nNames := nW * perW
	names := make([]string, nNames)
	for i := range names {
		names[i] = "n" + strconv.Itoa(i)
	}
	// model[name][level] = value bound there (absent = not bound); written by the name's writer only
	model := make([]map[int]int, nNames)
	for i := range model {
		model[i] = map[int]int{0: c13r9Val(0, i, 0)}
		chain[0].Define(names[i], c13r9Val(0, i, 0))
	}
	nearest := func(ni, from int) (int, bool) {
		for l := from; l >= 0; l-- {
			if v, ok := model[ni][l]; ok {
				return v, true
			}
		}
		return 0, false
	}
	seeds := make([]int64, nW+nR)
	for i := range seeds {
		seeds[i] = rng.Int63()
	}
	input := map[string]interface{}{"phase": c.Phase, "depth": depth, "writers": nW, "names_per_writer": perW, "readers": nR, "rounds": rounds, "gomaxprocs": procs}
	c.Begin(input)
	rep := &c13r5Reporter{viol: map[string]string{}, counts: map[string]int{}}
	var failed, writersLeft int32 = 0, int32(nW)
	var wg sync.WaitGroup
	start := make(chan struct{})

	// look compares one lookup with what it must answer; exact = the caller is the name's writer
	look := func(who string, op string, ni, from int, want int, bound bool) {
		sc := chain[from]
		fail := func(got interface{}, err error) {
			w := "an error (bound nowhere on the way out)"
			if bound {
				w = fmt.Sprintf("%d (stored at level %d)", want&0xffffffff, c13r9Level(want))
			}
			gs := fmt.Sprint(got)
			if n, ok := got.(int); ok {
				gs = fmt.Sprintf("%d (stored at level %d)", n&0xffffffff, c13r9Level(n))
			}
			rep.report("shadows:"+who+":"+op+":not-the-nearest-binding", fmt.Sprintf("chain of %d scopes: %s(%s) started at level %d must answer %s - the nearest binding left by the name's only writer - and answers %s, error %v", depth, op, names[ni], from, w, gs, err))
			atomic.StoreInt32(&failed, 1)
		}
		switch op {
		case "Get":
			v, err := sc.Get(names[ni])
			if bound != (err == nil) || bound && v != want {
				fail(v, err)
			}
		case "GetValue":
			rv, err := sc.GetValue(names[ni])
			if bound != (err == nil) || bound && (rv.Kind() != reflect.Int || int(rv.Int()) != want) {
				var got interface{}
				if err == nil && rv.IsValid() && rv.CanInterface() {
					got = rv.Interface()
				}
				fail(got, err)
			}
		default:
			p, err := sc.Addr(names[ni])
			if err == nil && (!bound || p.Kind() != reflect.Ptr || p.Elem().Kind() != reflect.Int || int(p.Elem().Int()) != want) {
				var got interface{}
				if p.Kind() == reflect.Ptr && !p.IsNil() && p.Elem().CanInterface() {
					got = p.Elem().Interface()
				}
				fail(got, fmt.Errorf("no error"))
			}
		}
	}
	ops := []string{"Get", "GetValue", "Addr", "Get"}

	for w := 0; w < nW; w++ {
		wg.Add(1)
		go func(w int) {
			defer wg.Done()
			defer atomic.AddInt32(&writersLeft, -1)
			defer func() {
				if r := recover(); r != nil {
					rep.recovered(r)
				}
			}()
			next := c13r8Xorshift(seeds[w])
			local := map[string]int{}
			n := 0
			check := func(ni int) {
				from := depth - 1
				if next(3) == 0 {
					from = next(depth)
				}
				want, bound := nearest(ni, from)
				op := ops[next(len(ops))]
				look("writer", op, ni, from, want, bound)
				local["writer-lookup:"+op]++
			}
			<-start
			for r := 0; r < rounds && atomic.LoadInt32(&failed) == 0; r++ {
				ni := w*perW + next(perW)
				name := names[ni]
				lv := 1 + next(depth-1) // depth >= 2
				if depth > 4 && next(2) == 0 {
					lv = depth - 2 - next(2) // mostly near the innermost scope: the rest of a lookup is long
				}
				// shadow
				n++
				v := c13r9Val(lv, ni, n)
				if next(2) == 0 {
					cell := reflect.New(c13r9IntType).Elem()
					cell.SetInt(int64(v))
					chain[lv].DefineValue(name, cell)
					local["DefineValue(cell)"]++
				} else {
					chain[lv].Define(name, v)
					local["Define"]++
				}
				model[ni][lv] = v
				check(ni)
				check(ni)
				if next(4) == 0 {
					// Set from the innermost scope lands in the nearest binding
					n++
					tl := lv
					for l := depth - 1; l > lv; l-- {
						if _, ok := model[ni][l]; ok {
							tl = l
							break
						}
					}
					v = c13r9Val(tl, ni, n)
					if err := leaf.Set(name, v); err != nil {
						rep.report("shadows:writer:Set:fails", fmt.Sprintf("Set(%s) from the innermost scope fails though its only writer bound it at level %d: %v", name, tl, err))
						atomic.StoreInt32(&failed, 1)
					}
					model[ni][tl] = v
					local["Set"]++
					check(ni)
				}
				// unshadow (some shadows are left for later rounds to pile up, and removed then)
				if next(8) != 0 {
					if next(3) == 0 && len(model[ni]) > 0 {
						// DeleteGlobal from the innermost scope deletes the nearest binding
						tl := -1
						for l := depth - 1; l >= 0; l-- {
							if _, ok := model[ni][l]; ok {
								tl = l
								break
							}
						}
						leaf.DeleteGlobal(name)
						delete(model[ni], tl)
						local["DeleteGlobal"]++
					} else {
						chain[lv].Delete(name)
						delete(model[ni], lv)
						local["Delete"]++
					}
					check(ni)
					check(ni)
				}
				switch next(16) {
				case 0:
					chain[0].Delete(name)
					delete(model[ni], 0)
					local["Delete(root)"]++
					check(ni)
				case 1, 2:
					n++
					v = c13r9Val(0, ni, n)
					chain[0].Define(name, v)
					model[ni][0] = v
					local["Define(root)"]++
					check(ni)
				case 3:
					for l := range model[ni] {
						if l != 0 {
							chain[l].Delete(name)
							delete(model[ni], l)
						}
					}
					check(ni)
				}
			}
			rep.merge(local)
		}(w)
	}
	for r := 0; r < nR; r++ {
		wg.Add(1)
		go func(r int) {
			defer wg.Done()
			defer func() {
				if r := recover(); r != nil {
					rep.recovered(r)
				}
			}()
			next := c13r8Xorshift(seeds[nW+r])
			local := map[string]int{}
			<-start
			for i := 0; atomic.LoadInt32(&failed) == 0 && (atomic.LoadInt32(&writersLeft) > 0 || i < 64); i++ {
				ni := next(nNames)
				from := depth - 1
				if r%2 == 1 && next(2) == 0 {
					from = next(depth)
				}
				var got interface{}
				var err error
				op := ops[next(3)]
				switch op {
				case "Get":
					got, err = chain[from].Get(names[ni])
				case "GetValue":
					var rv reflect.Value
					rv, err = chain[from].GetValue(names[ni])
					if err == nil {
						got = rv.Interface()
					}
				default:
					var p reflect.Value
					p, err = chain[from].Addr(names[ni])
					if err != nil {
						local["reader:Addr:error"]++
						continue
					}
					if p.Kind() == reflect.Ptr && !p.IsNil() {
						got = p.Elem().Interface()
					}
				}
				local["reader:"+op]++
				if err != nil {
					continue // the name may be bound nowhere at some moments
				}
				v, ok := got.(int)
				if !ok || c13r9Name(v) != ni || c13r9Level(v) > from {
					rep.report("shadows:reader:"+op+":value-never-written-there", fmt.Sprintf("%s(%s) started at level %d of %d answers %v; its only writer stores values naming this name and the level, and the lookup reaches levels %d..0 only", op, names[ni], from, depth, got, from))
					atomic.StoreInt32(&failed, 1)
				}
				if i%64 == 0 {
					runtime.Gosched()
				}
			}
			rep.merge(local)
		}(r)
	}
	close(start)
	c13r5Wait(c, &wg, 200*time.Second, c.Phase+"-watchdog", input)

	// QUIESCENT: nothing runs any more; no operation is made before these lookups
	if len(rep.panics) == 0 {
		nq := 0
		for ni := range names {
			for from := depth - 1; from >= 0; from-- {
				want, bound := nearest(ni, from)
				for _, op := range ops[:3] {
					look("quiescent", op, ni, from, want, bound)
					nq++
				}
			}
		}
		rep.counts["quiescent-lookups"] = nq
	}
	c13r8Marks(c, c.Phase+":chain-depth", depth, []int{2, 3, 5, 9, 17, 33, 49, 50})
	c.Tag(fmt.Sprintf("%s:writers:%d", c.Phase, nW), fmt.Sprintf("%s:gomaxprocs:%d", c.Phase, procs))
	rep.flush(c, c.Phase+"_ops:", input)
	c.Eval(fmt.Sprintf("%s depth=%d w=%d x%d r=%d rounds=%d procs=%d seed0=%d", c.Phase, depth, nW, perW, nR, rounds, procs, seeds[0]), true)
	if c.WantSample() {
		c.Sample(map[string]interface{}{"phase": c.Phase, "depth": depth, "writers": nW, "names_per_writer": perW, "readers": nR, "rounds": rounds, "gomaxprocs": procs, "operation_counts": rep.counts})
	}
}
