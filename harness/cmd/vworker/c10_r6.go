package main

// C10, round 6: what a typed slot holds after a store, for every slot kind, every way of
// storing and the values at the ends of every kind's range.
//
// "Typed containers made with make or typed literals, and the fields of struct values made
// with make, only ever hold values of their declared type: a store converts the value as Go
// would or fails with an error leaving the old content."
//
// (1) Numbers. Go's conversion T(v) of a non-constant number is specified for every integer
// source (it wraps to the width of T) and for a float source whenever T can represent the
// truncated value: uint64(1e19) is 10000000000000000000, uint64(-0.5) is 0, int64(-2^63) is
// MinInt64. The model computes that value without leaning on one conversion routine
// (c10FloatToInt). Beyond the range (2^64 into uint64, 300.5 into a byte, NaN) Go's result
// is implementation-defined: not generated. An INTEGER the slot type cannot represent is
// wrapped by Go when it is not a constant and rejected when it is: the wrapped value or an
// error that changes nothing are both accepted - nothing else.
//
// (2) Strings stored into a byte (uint8) or rune (int32) slot. Go has no such conversion,
// so "fails with an error leaving the old content" is always accepted. The script also
// reads a string of one character as that character (a documented convenience of the
// library); the statement is silent about it, so the only success accepted is the lossless
// one: a one-byte string becomes exactly that byte (s[i:i+1] of any string copies byte i), a
// string that is one well-formed character becomes that character if the slot can hold it,
// the empty string becomes zero. A character above U+00FF offered to a byte slot and a
// string of several characters can only fail. Not generated: a one-byte string >= 0x80 into
// a rune slot (the byte's value and U+FFFD are both defensible).
//
// Every way of storing is driven with every such value in phase "conv": index store (plain,
// through a call, through a slice expression, below an untyped list, through the shared
// statements of c10_r5.go), store at index len with and without spare capacity, every append
// form, map value / member / key stores, struct fields and slices in struct fields, and
// typed slice / map literals. The random histories get unsigned and byte-keyed containers
// and a struct with a field of every numeric kind (profiles 12-13).
//
// (3) Also here: `p[i] = p[i]` ("in-range operations read or store exactly the addressed
// element": reading element i and storing it at i changes nothing), `+` / `+=` with a MAP as
// the left operand ("append ... on script slices, maps and strings ... an ill-typed operand
// yields an error and leaves the container unchanged": Go has no append on maps), and `in`
// between a negative needle and 64-bit unsigned elements.

import (
	"fmt"
	"math"
	"reflect"
	"strings"
	"unicode/utf8"

	"github.com/mattn/anko/env"

	"verifharness/internal/wk"
)

// Defects of the unchanged tree reported in /tmp/strengthen/C10-r6-genuine.md; the input class
// is kept out of the generator until /repo is repaired, then flip to false.
const (
	// `-1 in a` is true for a = []uint64{18446744073709551615} (equalNums compares two
	// integers through toInt64, which wraps a uint64 above MaxInt64 onto a negative number)
	c10PendingFix_InUnsignedWraps = false
	// s = "é"; s[0] = s[0] makes s three bytes long: the read yields string(rune(byte)),
	// the store splices the UTF-8 encoding of that character in place of ONE byte
	c10PendingFix_StringHighByteRoundTrip = false
	// {} + {} is 0 and `m += {}` binds m to 0 (both operands go through toInt64) instead
	// of failing like m + [1] does
	c10PendingFix_MapPlusMap = false
	// a store at index len whose appended value lands, through shared spare capacity, on the
	// very list element the target is reached through (`a[1].E[1] = v` with a[1].E = a[0:1]):
	// the write-back `a[1].E = grown` is resolved AFTER the append replaced a[1] by v, so it
	// goes into v (a map gains a key "E") instead of the container read before
	c10PendingFix_AppendOntoOwnElement = false
)

// c10SpareIsOwnElement: cont (the slice in field p.sf of the struct held by root[p.i]) has
// spare capacity whose first slot is root[p.i] itself.
func c10SpareIsOwnElement(root reflect.Value, p c10Place, cont reflect.Value) bool {
	if p.sel != 'i' || !root.IsValid() || root.Kind() != reflect.Slice || p.i >= root.Len() ||
		cont.Kind() != reflect.Slice || cont.Len() >= cont.Cap() || cont.Type().Elem() != root.Type().Elem() {
		return false
	}
	spare := cont.Slice3(0, cont.Len()+1, cont.Cap()).Index(cont.Len())
	return spare.Addr().Pointer() == root.Index(p.i).Addr().Pointer()
}

// c10WhyLossy: the class of an accepted error on a store whose value the slot type can hold
// only wrapped (integer) or read as a character (string into byte / rune).
const c10WhyLossy = "wrapping-or-character-conversion"

// c10StrToChar: string s offered to a byte / rune slot (see (2) above).
func c10StrToChar(s string, t reflect.Type) (reflect.Value, int, bool) {
	out := reflect.New(t).Elem()
	isByte := t.Kind() == reflect.Uint8
	set := func(r rune) (reflect.Value, int, bool) {
		if isByte {
			out.SetUint(uint64(r))
		} else {
			out.SetInt(int64(r))
		}
		return out, c10CvEither, false
	}
	switch {
	case len(s) == 0:
		return set(0)
	case len(s) == 1 && s[0] < 0x80:
		return set(rune(s[0]))
	case len(s) == 1 && isByte:
		return set(rune(s[0]))
	case len(s) == 1:
		return reflect.Value{}, c10CvExcl, false // "\xc3" into a rune slot: 0xC3 or U+FFFD
	}
	r, size := utf8.DecodeRuneInString(s)
	if size == len(s) && r != utf8.RuneError {
		// one well-formed character of several bytes
		if isByte && r > 0xFF {
			return reflect.Value{}, c10CvErr, false
		}
		return set(r)
	}
	return reflect.Value{}, c10CvErr, false
}

// ---- slot types and their script names ----

type c10Slot struct {
	name string // script type name
	t    reflect.Type
	host bool // the host defines the type name (env.DefineType)
}

var c10Slots = []c10Slot{
	{"uint64", reflect.TypeOf(uint64(0)), false},
	{"uint", reflect.TypeOf(uint(0)), false},
	{"uint32", reflect.TypeOf(uint32(0)), false},
	{"uint16", reflect.TypeOf(uint16(0)), true},
	{"byte", reflect.TypeOf(uint8(0)), false},
	{"int64", reflect.TypeOf(int64(0)), false},
	{"int", reflect.TypeOf(int(0)), false},
	{"rune", reflect.TypeOf(int32(0)), false},
	{"int16", reflect.TypeOf(int16(0)), true},
	{"int8", reflect.TypeOf(int8(0)), true},
	{"float64", reflect.TypeOf(float64(0)), false},
	{"float32", reflect.TypeOf(float32(0)), false},
	{"string", reflect.TypeOf(""), false},
	{"bool", reflect.TypeOf(false), false},
}

// host-typed numbers bound in every environment: values no script literal spells (an
// unsigned number above MaxInt64, MinInt64) and numbers of the narrow kinds
var c10HostVals = []c10Val{
	{"c10hU", uint64(1<<63 + 5), "host-uint64"},
	{"c10hM", uint64(math.MaxUint64), "host-uint64"},
	{"c10hN", int64(math.MinInt64), "host-int64"},
	{"c10hI8", int8(-3), "host-int8"},
	{"c10hU16", uint16(65535), "host-uint16"},
	{"c10hU32", uint32(4000000000), "host-uint32"},
	{"c10hB", byte(200), "host-byte"},
	{"c10hI", int(-7), "host-int"},
	{"c10hF32", float32(2.5), "host-float32"},
	{"c10hG32", float32(-1e10), "host-float32"},
}

// c10R6Bind: the host side of every history's environment.
func c10R6Bind(e *env.Env) {
	for _, s := range c10Slots {
		if s.host {
			_ = e.DefineType(s.name, s.t)
		}
	}
	for _, v := range c10HostVals {
		_ = e.Define(v.src, v.v)
	}
}

// ---- the values ----

var c10EdgeFloats = []float64{
	1 << 63, 1<<63 + 2048, 1e19, 1.5e19, 1<<64 - 2048, 1 << 64, 1<<63 - 1024, -(1 << 63), -(1 << 63) - 2048, 1 << 62, 1<<53 + 2,
	4294967295.5, 4294967296, 4294967297.25, 2147483647.9, 2147483648, -2147483648.9, -2147483649,
	65535.9, 65536, 32767.5, 32768, -32768.5, -32769, 255.9, 256, 127.5, 128, -128.9, -129,
	-0.5, -0.999, -1, 0.99, 0, 1e300, -1e300, 3.5e38, 16777217, 0.1, 2.5, 1e10,
}

var c10EdgeInts = []int64{
	0, 1, -1, 127, 128, -128, -129, 255, 256, 32767, 32768, -32768, -32769, 65535, 65536,
	2147483647, 2147483648, -2147483648, -2147483649, 4294967295, 4294967296, 4294967301,
	math.MaxInt64, -math.MaxInt64, 1<<53 + 1, 16777217, 1 << 40, 300,
}

// c10EdgeStrs: ASCII, empty, several characters, one character of two and three bytes
// (U+00E9, U+00FF fit a byte; U+0100, U+20AC do not), and the single bytes >= 0x80 that
// slicing a string bytewise yields (`"é"[0:1]`: the lexer has no \x escape)
var c10EdgeStrs = []c10Val{
	c10Str("x"), c10Str("A"), c10Str("~"), c10Str(""), c10Str("ab"), c10Str("xé"), c10Str("é"), c10Str("ÿ"), c10Str("Ā"), c10Str("€"),
	{`"é"[0:1]`, "\xc3", "string"}, {`"é"[1:2]`, "\xa9", "string"}, {`"€"[0:1]`, "\xe2", "string"}, {`"€"[2:3]`, "\xac", "string"},
	{`"ÿ"[1:2]`, "\xbf", "string"}, {`"héllo"[1:3]`, "é", "string"}, {`"€"[0:2]`, "\xe2\x82", "string"}, c10Str("1"), c10Str("65"),
}

// c10EdgeVals: the values of group g (0 ints, 1 floats, 2 strings, 3 host-typed numbers,
// 4 values of other kinds).
func c10EdgeVals(g int) []c10Val {
	var out []c10Val
	switch g {
	case 0:
		for _, n := range c10EdgeInts {
			out = append(out, c10Int(n))
		}
	case 1:
		for _, f := range c10EdgeFloats {
			out = append(out, c10Float(f))
		}
	case 2:
		out = c10EdgeStrs
	case 3:
		out = c10HostVals
	default:
		out = []c10Val{c10Bool(true), c10Bool(false), c10Nil(), c10USlice(c10Int(1)), c10USlice(), c10UMap(c10Str("k"), c10Int(1)), c10I64Lit(1)}
	}
	return out
}

const c10EdgeGroups = 5

// r6Val draws a value for a slot of numeric type t from the ends of the ranges (and, for
// byte / rune slots, from the strings); ok is false when the caller should draw as before.
func (g *c10Gen) r6Val(t reflect.Type) (c10Val, bool) {
	if !c10IsNumKind(t.Kind()) {
		return c10Val{}, false
	}
	old := t == c10I64T || t == c10F64T || t == c10I32T || t == c10U8T || t == c10F32T
	if old && g.rn(100) >= 30 {
		return c10Val{}, false
	}
	if !old && g.rn(100) < 25 {
		return c10Int([]int64{0, 1, 2, 3, 7, 42, 100, 255}[g.rn(8)]), true
	}
	r := g.rn(100)
	if (t.Kind() == reflect.Uint8 || t.Kind() == reflect.Int32) && r < 35 {
		return c10EdgeStrs[g.rn(len(c10EdgeStrs))], true
	}
	switch {
	case r < 45:
		return c10Float(c10EdgeFloats[g.rn(len(c10EdgeFloats))]), true
	case r < 80:
		return c10Int(c10EdgeInts[g.rn(len(c10EdgeInts))]), true
	case r < 93:
		return c10HostVals[g.rn(len(c10HostVals))], true
	}
	return c10EdgeStrs[g.rn(len(c10EdgeStrs))], true
}

// ---- names, profiles, initial values of the random histories ----

var (
	c10U64T    = reflect.TypeOf(uint64(0))
	c10U64SlT  = reflect.TypeOf([]uint64{})
	c10UintSlT = reflect.TypeOf([]uint{})
	c10U32SlT  = reflect.TypeOf([]uint32{})
	c10MapSUT  = reflect.TypeOf(map[string]uint64{})
	c10MapBST  = reflect.TypeOf(map[uint8]string{})
	c10MapUIT  = reflect.TypeOf(map[uint64]int64{})
	// a field of every numeric kind the script can name, a slice and a map of unsigned / byte type
	c10StructNT = reflect.StructOf([]reflect.StructField{
		{Name: "U", Type: c10U64T}, {Name: "V", Type: reflect.TypeOf(uint(0))}, {Name: "W", Type: reflect.TypeOf(uint32(0))},
		{Name: "Y", Type: c10U8T}, {Name: "R", Type: c10I32T}, {Name: "I", Type: reflect.TypeOf(int(0))}, {Name: "K", Type: c10I64T},
		{Name: "H", Type: c10F32T}, {Name: "X", Type: c10F64T}, {Name: "C", Type: c10U64SlT}, {Name: "D", Type: c10MapBST}})
)

func init() {
	for n, t := range map[string]reflect.Type{"tu": c10U64SlT, "tv": c10UintSlT, "tw": c10U32SlT, "mu": c10MapSUT, "mb": c10MapBST, "mq": c10MapUIT, "sn": c10StructNT} {
		c10NameType[n] = t
	}
	c10ShapeOf["sn"] = c10Shape{"make(struct{U uint64, V uint, W uint32, Y byte, R rune, I int, K int64, H float32, X float64, C []uint64, D map[byte]string})", c10StructNT, false}
	c10Profiles = append(c10Profiles,
		// unsigned and byte-typed slots of every container kind; a struct with a field of every numeric kind
		[]string{"tu", "tv", "tb", "sn", "mu", "mb", "a"},
		[]string{"tu", "tw", "ti", "tg", "mq", "sn", "ts", "s"})
	c10Fixed = append(c10Fixed, c10FixedSelfStore, c10FixedUnsignedIn, c10FixedAppendOwnSlot)
}

func (g *c10Gen) r6InitVal(name string) c10Val {
	r := g.rn(6)
	switch name {
	case "tu":
		if r%3 == 0 {
			return c10Val{"make([]uint64, 2, 4)", make([]uint64, 2, 4), "make"}
		}
		return c10Val{"[]uint64{1, 2, 1e19, 300}", []uint64{1, 2, 10000000000000000000, 300}, "tslice-lit"}
	case "tv":
		n := 1 + g.rn(3)
		return c10Val{fmt.Sprintf("make([]uint, %d, %d)", n, n+r%3), make([]uint, n, n+r%3), "make"}
	case "tw":
		if r%2 == 0 {
			return c10Val{"make([]uint32, 3)", make([]uint32, 3), "make"}
		}
		return c10Val{"[]uint32{1, 4294967295, 7}", []uint32{1, 4294967295, 7}, "tslice-lit"}
	case "mu":
		if r%2 == 0 {
			return c10Val{"make(map[string]uint64)", map[string]uint64{}, "make"}
		}
		return c10Val{`map[string]uint64{"k1": 1, "k2": 1.5e19}`, map[string]uint64{"k1": 1, "k2": 15000000000000000000}, "tmap-lit"}
	case "mb":
		if r%2 == 0 {
			return c10Val{"make(map[byte]string)", map[uint8]string{}, "make"}
		}
		return c10Val{`map[byte]string{1: "a", 200: "b"}`, map[uint8]string{1: "a", 200: "b"}, "tmap-lit"}
	case "mq":
		if r%2 == 0 {
			return c10Val{"make(map[uint64]int64)", map[uint64]int64{}, "make"}
		}
		return c10Val{`map[uint64]int64{1: 1, 1e19: 2}`, map[uint64]int64{1: 1, 10000000000000000000: 2}, "tmap-lit"}
	}
	return c10Val{}
}

// r6Key: a key for a map with a byte / unsigned key type.
func (g *c10Gen) r6Key(cont reflect.Value) (c10Val, bool) {
	kt := cont.Type().Key()
	if !c10IsNumKind(kt.Kind()) || kt == c10I64T || g.rn(100) < 40 {
		return c10Val{}, false
	}
	return g.r6Val(kt)
}

// ---- operations ----

// opSelfStore: `p[ix] = p[ix]` on a slice or string: the element read is the element
// stored, so an in-range index changes nothing (and yields no error); any other index
// fails in the read.
func (h *c10Hist) opSelfStore(p c10Place, ix c10Idx) *c10Op {
	if ix.numStr || p.sf != "" {
		return nil
	}
	e := p.src() + "[" + ix.src + "]"
	op, cont := h.newOp("self-store", p, e+" = "+e)
	if !cont.IsValid() || (cont.Kind() != reflect.Slice && cont.Kind() != reflect.String) {
		return nil
	}
	op.itag = ix.tag
	switch {
	case !ix.isInt:
		op.wantErr, op.why = true, "nonnumeric-index"
	case ix.n < 0 || ix.n >= int64(cont.Len()):
		op.wantErr, op.why = true, "out-of-range"
	default:
		if cont.Kind() == reflect.String && cont.String()[ix.n] >= 0x80 && c10PendingFix_StringHighByteRoundTrip {
			return nil
		}
		op.mut = true // a store ran; the model has nothing to change
	}
	return op
}

// opMapPlus: `m + rhs`, `m += rhs`, `m = m + rhs`, `dst = m + rhs` with a map as the left
// operand and anything as the right one (a list, a map, a number, a string, a boolean, nil):
// Go has no append on maps - an ill-typed operand, an error that changes nothing (no name is
// rebound). What `x + m` with a map on the RIGHT of a scalar yields is the arithmetic tower's
// business (C05) and not generated.
func (h *c10Hist) opMapPlus(form, dst string, p c10Place, rhs c10Val) *c10Op {
	var src string
	switch form {
	case "+=":
		src = p.src() + " += " + rhs.src
	case "=+":
		src = p.src() + " = " + p.src() + " + " + rhs.src
	case "d=":
		if dst == "" {
			return nil
		}
		src = dst + " = " + p.src() + " + " + rhs.src
	default:
		src = p.src() + " + " + rhs.src
	}
	op, cont := h.newOp("append", p, src)
	if !cont.IsValid() || cont.Kind() != reflect.Map || p.sf != "" {
		return nil
	}
	if rhs.v != nil && reflect.TypeOf(rhs.v).Kind() == reflect.Map && c10PendingFix_MapPlusMap {
		return nil
	}
	if rhs.v != nil && reflect.TypeOf(rhs.v).Kind() == reflect.Struct {
		return nil
	}
	op.wantErr, op.why = true, "append-on-map"
	return op
}

// opTypedLit: `dst = []T{v, ...}`: Go's composite literal over converted values (len ==
// cap); one unconvertible element fails the whole literal and binds nothing.
func (h *c10Hist) opTypedLit(dst string, sl c10Slot, vals []c10Val) *c10Op {
	var srcs []string
	st := reflect.SliceOf(sl.t)
	res := reflect.MakeSlice(st, len(vals), len(vals))
	op := &c10Op{opk: "typed-literal", ck: "typed-slice", pk: "var"}
	for i, v := range vals {
		srcs = append(srcs, v.src)
		cv, cs, fresh := c10Conv(v.v, sl.t)
		switch {
		case cs == c10CvExcl || (cs == c10CvEither && fresh):
			return nil
		case cs == c10CvErr:
			op.wantErr, op.why = true, "unconvertible-value"
			continue
		case cs == c10CvEither:
			op.either, op.why = true, c10WhyLossy
		}
		res.Index(i).Set(cv)
	}
	op.src = dst + " = []" + sl.name + "{" + strings.Join(srcs, ", ") + "}"
	if op.wantErr {
		op.either = false
		return op
	}
	op.mut = true
	op.commit = func(reflect.Value) { h.bind(dst, res) }
	return op
}

// opTypedMapLit: `dst = map[K]V{k: v}`.
func (h *c10Hist) opTypedMapLit(dst string, ks, vs c10Slot, k, v c10Val) *c10Op {
	mt := reflect.MapOf(ks.t, vs.t)
	op := &c10Op{src: dst + " = map[" + ks.name + "]" + vs.name + "{" + k.src + ": " + v.src + "}", opk: "typed-literal", ck: "typed-map", pk: "var"}
	kv, kst, why := c10Key(k, ks.t, false)
	cv, vst, fresh := c10Conv(v.v, vs.t)
	if kst == c10CvExcl || vst == c10CvExcl || (vst == c10CvEither && fresh) {
		return nil
	}
	if vst == c10CvErr {
		op.wantErr, op.why = true, "unconvertible-value"
	}
	if kst == c10CvErr {
		op.wantErr, op.why = true, why
	}
	if op.wantErr {
		return op
	}
	if kst == c10CvEither || vst == c10CvEither {
		op.either, op.why = true, c10WhyLossy
	}
	res := reflect.MakeMap(mt)
	res.SetMapIndex(kv, cv)
	op.mut = true
	op.commit = func(reflect.Value) { h.bind(dst, res) }
	return op
}

// opMakeStruct: `name = make(struct{...})` of an ad-hoc shape.
func (h *c10Hist) opMakeStruct(name, src string, t reflect.Type) *c10Op {
	return &c10Op{src: name + " = " + src, opk: "init", ck: "struct", pk: "var", mut: true,
		commit: func(reflect.Value) {
			sv := reflect.New(t).Elem()
			for i := 0; i < t.NumField(); i++ {
				switch ft := t.Field(i).Type; ft.Kind() {
				case reflect.Slice:
					sv.Field(i).Set(reflect.MakeSlice(ft, 0, 0))
				case reflect.Map:
					sv.Field(i).Set(reflect.MakeMap(ft))
				}
			}
			h.declare(name, sv)
		}}
}

// r6Op: the operations of this file inside a random history.
func (g *c10Gen) r6Op() *c10Op {
	h := g.h
	p := g.place()
	cont := h.mget(p)
	if !cont.IsValid() {
		return nil
	}
	switch cont.Kind() {
	case reflect.Slice, reflect.String:
		return h.opSelfStore(p, g.idx(cont.Len()))
	case reflect.Map:
		form := []string{"+=", "=+", "d=", "expr"}[g.rn(4)]
		rhs := g.containerVal()
		if g.rn(3) == 0 {
			rhs = g.scalar() // a number, a string, a boolean, nil: no append on a map either
		}
		return h.opMapPlus(form, g.dest(cont.Type()), p, rhs)
	}
	return nil
}

// ---- phase "conv": every slot kind x every value x every way of storing ----

type c10ConvPath struct {
	name string
	run  func(h *c10Hist, do func(*c10Op), sl c10Slot, v c10Val)
}

func c10MakeSl(sl c10Slot, n, cp int) c10Val {
	return c10Val{fmt.Sprintf("make([]%s, %d, %d)", sl.name, n, cp), reflect.MakeSlice(reflect.SliceOf(sl.t), n, cp).Interface(), "make"}
}

var c10I64Slot = c10Slot{"int64", c10I64T, false}
var c10StrSlot = c10Slot{"string", c10StrT, false}

var c10ConvPaths = []c10ConvPath{
	{"index", func(h *c10Hist, do func(*c10Op), sl c10Slot, v c10Val) {
		do(h.opInit("ca", c10MakeSl(sl, 2, 4)))
		do(h.opWrite(c10P("ca"), c10IdxInt(0, "in-range"), v, false))
		do(h.opRead(c10P("ca"), c10IdxInt(0, "in-range"), false))
	}},
	{"index-call", func(h *c10Hist, do func(*c10Op), sl c10Slot, v c10Val) {
		do(h.opInit("ca", c10MakeSl(sl, 2, 4)))
		do(h.opWrite(c10P("ca"), c10IdxInt(1, "in-range"), v, true))
	}},
	{"at-len", func(h *c10Hist, do func(*c10Op), sl c10Slot, v c10Val) {
		do(h.opInit("ca", c10MakeSl(sl, 2, 4)))
		do(h.opWrite(c10P("ca"), c10IdxInt(2, "len"), v, false))
	}},
	{"at-len-growing", func(h *c10Hist, do func(*c10Op), sl c10Slot, v c10Val) {
		do(h.opInit("ca", c10MakeSl(sl, 1, 1)))
		do(h.opWrite(c10P("ca"), c10IdxInt(1, "len"), v, false))
	}},
	{"append", func(h *c10Hist, do func(*c10Op), sl c10Slot, v c10Val) {
		do(h.opInit("ca", c10MakeSl(sl, 2, 4)))
		do(h.opAppend("+=", "", c10P("ca"), v))
		do(h.opAppend("=+", "", c10P("ca"), v))
	}},
	{"append-list", func(h *c10Hist, do func(*c10Op), sl c10Slot, v c10Val) {
		if v.v != nil && reflect.TypeOf(v.v).Kind() == reflect.Slice {
			return // a list of lists: the slice-to-slice question, not a scalar store
		}
		do(h.opInit("ca", c10MakeSl(sl, 2, 4)))
		do(h.opAppend("d=", "cb", c10P("ca"), c10USlice(v, v)))
		do(h.opAppend("+=", "", c10P("ca"), c10USlice(c10Int(1), v)))
	}},
	{"append-expr", func(h *c10Hist, do func(*c10Op), sl c10Slot, v c10Val) {
		do(h.opInit("ca", c10MakeSl(sl, 1, 1)))
		do(h.opAppend("expr", "", c10P("ca"), v))
		do(h.opAppend("call", "cb", c10P("ca"), v))
	}},
	{"slice-expression", func(h *c10Hist, do func(*c10Op), sl c10Slot, v c10Val) {
		do(h.opInit("ca", c10MakeSl(sl, 2, 4)))
		do(h.opWrite(c10Place{root: "ca", sel: 's', i: 0, j: 1}, c10IdxInt(0, "in-range"), v, false))
	}},
	{"nested", func(h *c10Hist, do func(*c10Op), sl c10Slot, v c10Val) {
		do(h.opInit("ca", c10MakeSl(sl, 2, 4)))
		do(h.opInit("cu", c10USlice(h.ref("ca"))))
		do(h.opWrite(c10Place{root: "cu", sel: 'i', i: 0}, c10IdxInt(1, "in-range"), v, false))
		do(h.opSharedWrite(c10SharedWriteFns[len(v.src)%len(c10SharedWriteFns)], c10Place{root: "cu", sel: 'i', i: 0}, c10IdxInt(0, "in-range"), v))
	}},
	{"map-value", func(h *c10Hist, do func(*c10Op), sl c10Slot, v c10Val) {
		mt := reflect.MapOf(c10StrT, sl.t)
		do(h.opInit("cm", c10Val{"make(map[string]" + sl.name + ")", reflect.MakeMap(mt).Interface(), "make"}))
		do(h.opMapWrite(c10P("cm"), c10Str("k"), v, false, false))
		do(h.opMapWrite(c10P("cm"), c10Str("k2"), v, true, false))
		do(h.opMapWrite(c10P("cm"), c10Str("k3"), v, false, true))
		do(h.opMapRead(c10P("cm"), c10Str("k"), false, false))
	}},
	{"map-key", func(h *c10Hist, do func(*c10Op), sl c10Slot, v c10Val) {
		if sl.t.Kind() == reflect.Float32 || sl.t.Kind() == reflect.Float64 {
			return // float keys: NaN and rounding questions of their own
		}
		mt := reflect.MapOf(sl.t, c10I64T)
		do(h.opInit("ck", c10Val{"make(map[" + sl.name + "]int64)", reflect.MakeMap(mt).Interface(), "make"}))
		do(h.opMapWrite(c10P("ck"), v, c10Int(1), false, false))
		do(h.opMapWrite(c10P("ck"), v, c10Int(2), false, true))
		do(h.opLen(c10P("ck")))
	}},
	{"field", func(h *c10Hist, do func(*c10Op), sl c10Slot, v c10Val) {
		t := reflect.StructOf([]reflect.StructField{{Name: "F", Type: sl.t}, {Name: "G", Type: c10I64T}, {Name: "L", Type: reflect.SliceOf(sl.t)}})
		do(h.opMakeStruct("cs", "make(struct{F "+sl.name+", G int64, L []"+sl.name+"})", t))
		do(h.opFieldWrite("cs", "F", v))
		do(h.opFieldRead("cs", "F"))
		do(h.opInit("ca", c10MakeSl(sl, 2, 4)))
		do(h.opFieldWrite("cs", "L", h.ref("ca")))
		do(h.opWrite(c10Place{root: "cs", sel: 'f', f: "L"}, c10IdxInt(1, "in-range"), v, false))
		do(h.opWrite(c10Place{root: "cs", sel: 'f', f: "L"}, c10IdxInt(2, "len"), v, false))
	}},
	{"literal", func(h *c10Hist, do func(*c10Op), sl c10Slot, v c10Val) {
		do(h.opTypedLit("cb", sl, []c10Val{v}))
		do(h.opTypedLit("cb", sl, []c10Val{c10Int(1), v, v}))
		do(h.opTypedMapLit("cn", c10StrSlot, sl, c10Str("k"), v))
		if k := sl.t.Kind(); k != reflect.Float32 && k != reflect.Float64 {
			do(h.opTypedMapLit("cn", sl, c10I64Slot, v, c10Int(1)))
		}
	}},
}

func c10ConvCases() int { return len(c10Slots) * c10EdgeGroups }

// c10RunConv: case = (slot kind, value group); every way of storing gets a history of its
// own that stores every value of the group into fresh containers. The container kind of the
// signature names the slot kind and the kind of the value.
func c10RunConv(c *wk.Case) {
	sl := c10Slots[c.Index/c10EdgeGroups]
	vals := c10EdgeVals(c.Index % c10EdgeGroups)
	c.Tag("conv:slot:" + sl.name)
	for _, path := range c10ConvPaths {
		h := newC10Hist(c)
		if h.dead {
			return
		}
		nviol := 0
		for _, v := range vals {
			if h.dead {
				// a violation ends a history; the next value starts a new one (a few per way of
				// storing: one refuted value must not hide the other classes of values)
				if nviol++; nviol >= 4 {
					break
				}
				h.finish()
				if h = newC10Hist(c); h.dead {
					return
				}
			}
			v := v
			path.run(h, func(op *c10Op) {
				if op == nil {
					c.Tag("conv:outside-domain")
					return
				}
				if op.opk != "init" {
					op.sigck = sl.t.Kind().String() + "<-" + v.tag
					c.Tag("conv:"+path.name, "conv:"+sl.t.Kind().String()+"<-"+strings.SplitN(v.tag, "-", 2)[0])
				}
				h.exec(op)
			}, sl, v)
		}
		h.finish()
	}
}

// ---- fixed histories ----

// c10FixedSelfStore: p[i] = p[i] on every container kind; `+` with a map on the left.
func c10FixedSelfStore(h *c10Hist, do func(*c10Op)) {
	fx := func(n int64) c10Idx { return c10IdxInt(n, "fixed") }
	do(h.opInit("a", c10USlice(c10Int(1), c10Str("b"), c10USlice(c10Int(2)), c10Nil(), c10Str("héllo"))))
	do(h.opInit("ts", c10I64Lit(1, 2, 3)))
	do(h.opInit("tb", c10NumLit("byte", c10U8SlT, 1, 200)))
	do(h.opInit("s", c10Str("abc")))
	do(h.opInit("t", c10Str("héllo")))
	do(h.opInit("m", c10Val{`{"k1": 1}`, map[interface{}]interface{}{"k1": int64(1)}, "umap-lit"}))
	do(h.opInit("tm", c10Val{`map[string]int64{"k1": 1}`, map[string]int64{"k1": 1}, "tmap-lit"}))
	for i := int64(0); i < 5; i++ {
		do(h.opSelfStore(c10P("a"), fx(i)))
	}
	do(h.opSelfStore(c10P("a"), fx(5)))
	do(h.opSelfStore(c10P("ts"), fx(2)))
	do(h.opSelfStore(c10P("ts"), fx(-1)))
	do(h.opSelfStore(c10P("tb"), fx(1)))
	do(h.opSelfStore(c10Place{root: "ts", sel: 's', i: 1, j: 3}, fx(1)))
	do(h.opSelfStore(c10Place{root: "a", sel: 'i', i: 2}, fx(0)))
	for i := int64(0); i < 4; i++ {
		do(h.opSelfStore(c10P("s"), fx(i)))
	}
	do(h.opSelfStore(c10P("t"), fx(0)))
	do(h.opSelfStore(c10P("t"), fx(3)))
	if !c10PendingFix_StringHighByteRoundTrip {
		do(h.opSelfStore(c10P("t"), fx(1)))
		do(h.opSelfStore(c10P("t"), fx(2)))
		do(h.opSelfStore(c10Place{root: "a", sel: 'i', i: 4}, fx(1)))
	}
	do(h.opSelfStore(c10P("s"), c10IdxBad(c10Str("x"), "nonnumeric-string")))
	for _, form := range []string{"expr", "+=", "=+", "d="} {
		do(h.opMapPlus(form, "n", c10P("m"), c10USlice(c10Int(1))))
		do(h.opMapPlus(form, "tn", c10P("tm"), h.ref("ts")))
		if !c10PendingFix_MapPlusMap {
			do(h.opMapPlus(form, "n", c10P("m"), c10UMap(c10Str("k"), c10Int(1))))
			do(h.opMapPlus(form, "tn", c10P("tm"), h.ref("tm")))
			do(h.opMapPlus(form, "n", c10P("m"), c10Val{"{}", map[interface{}]interface{}{}, "umap-lit"}))
		}
	}
	do(h.opLen(c10P("m")))
}

// c10FixedUnsignedIn: membership on 64-bit unsigned elements: the numbers themselves,
// spelled as floats, and the negative numbers a conversion would wrap onto them.
func c10FixedUnsignedIn(h *c10Hist, do func(*c10Op)) {
	do(h.opInit("tu", c10Val{"[]uint64{1, 1e19, 300}", []uint64{1, 10000000000000000000, 300}, "tslice-lit"}))
	do(h.opWrite(c10P("tu"), c10IdxInt(3, "fixed"), c10HostVals[1], false)) // MaxUint64
	do(h.opWrite(c10P("tu"), c10IdxInt(4, "fixed"), c10HostVals[0], false)) // 2^63 + 5
	do(h.opInit("ts", c10I64Lit(-1, 5)))
	for _, v := range []c10Val{c10Int(1), c10Int(2), c10Float(1e19), c10Float(1.5e19), c10Int(300), c10Int(-300), c10HostVals[0], c10HostVals[1], c10HostVals[2],
		c10Int(-1), c10Int(-8446744073709551616), c10Int(-9223372036854775803), c10Float(-1), c10Nil()} {
		do(h.opIn(v, c10P("tu")))
	}
	do(h.opIn(c10HostVals[1], c10P("ts"))) // MaxUint64 in []int64{-1, 5}
	do(h.opIn(c10Int(-1), c10P("ts")))
}

// c10NeedleWrap: for an unsigned 64-bit element above MaxInt64, the negative number that
// wraps onto it.
func c10NeedleWrap(cont reflect.Value, pick int) (c10Val, bool) {
	if cont.Len() == 0 || !c10IsUintKind(cont.Type().Elem().Kind()) {
		return c10Val{}, false
	}
	e := cont.Index(pick % cont.Len())
	if e.Uint() <= math.MaxInt64 {
		return c10Val{}, false
	}
	return c10Int(int64(e.Uint())), true
}

// c10FixedAppendOwnSlot: a store at index len whose appended value lands on the list element
// the target is reached through. Go evaluates the operands of the target first: in
// `a[1].E[1] = v` with a[1] = m = {"E": a[0:1]} the map m receives the grown slice, the
// append overwrites a[1] with v, and v itself is not touched.
func c10FixedAppendOwnSlot(h *c10Hist, do func(*c10Op)) {
	do(h.opInit("a", c10Val{"make([]interface, 1, 4)", make([]interface{}, 1, 4), "make"}))
	do(h.opInit("m", c10UMap(c10Str("E"), h.ref("a"))))
	do(h.opAppend("+=", "", c10P("a"), h.ref("m")))
	do(h.opLen(c10Place{root: "m", sel: 'k', k: c10Str("E")}))
	if c10PendingFix_AppendOntoOwnElement {
		return
	}
	v := c10UMap(c10Str("Z"), c10Int(1))
	do(&c10Op{src: "v = " + v.src + "\na[1].E[1] = v", opk: "append-at-len-onto-own-element", ck: "untyped-slice", pk: "nested2", mut: true,
		commit: func(reflect.Value) {
			h.bind("v", reflect.ValueOf(v.v))
			m := h.mget(c10P("m"))
			e := c10Unwrap(m.MapIndex(reflect.ValueOf("E")))
			grown := c10AppendModel(e, []reflect.Value{reflect.ValueOf(v.v)}, reflect.Value{}) // in capacity: writes a[1]
			m.SetMapIndex(reflect.ValueOf("E"), grown)
		}})
	do(h.opLen(c10P("v")))
	do(h.opLen(c10Place{root: "m", sel: 'k', k: c10Str("E")}))
	// the same through the field of a struct value (the field cannot be assigned: an error
	// that changes nothing, or the append alone)
	do(h.opInit("b", c10Val{"make([]interface, 1, 4)", make([]interface{}, 1, 4), "make"}))
	do(h.opPutStruct("b", c10IdxInt(1, "len"), c10Val{}, c10I64Lit(1), h.ref("b")))
	do(h.opWrite(c10Place{root: "b", sel: 'i', i: 1, sf: "E"}, c10IdxInt(1, "len"), c10UMap(c10Str("Z"), c10Int(1)), false))
}
