package main

// C14, round 8 ("volume and history"). The older phases cut the workload into chunks of
// 40..150 small cases per short-lived worker process, run every tree 3..8 times and keep few
// environments alive. The statement quantifies over "any number of" runs of one tree, over
// all histories of a process ("every run yields the result it would yield alone", "share no
// hidden mutable state") and over all environments alive at once. The phases of this file
// keep C14's oracles (the result a program yields ALONE - here computed by the harness in Go
// from the program's own text, or taken in a fresh child process -, run k == run 1, the
// reflection dump of the tree, bindings never seen by another environment, canaries) and
// move the workload:
//
//	churn   one case = one process that parses, runs and DROPS thousands of pairwise
//	        different small programs which read and write struct fields, methods, map
//	        keys, module members, imported members, script and host functions and
//	        top-level names over a small set of SHARED host types (same struct types,
//	        same make(struct{...}) spellings, the same shapes - so the same tree positions
//	        - with different member names and values), runtime.GC() every few cycles so
//	        that node, environment and value addresses are reused; every run is compared
//	        with the value the harness computes in Go from the program text. A reference
//	        set (programs of that kind, C14's feature programs with their observation
//	        alone in a fresh child process, PRNG-generated programs) is asked again after
//	        exactly N-1, N, N+1 other programs for N in 256, 1000, 1024, 4096.
//	rerun   ONE parsed tree run 1100 (thorough 4200) times: alone; among other programs
//	        that are parsed, run and dropped between two runs; on receivers and callees
//	        whose Go type changes between runs after a long prefix of one type; from 8
//	        goroutines at once while the main goroutine churns other programs; the same
//	        source freshly parsed at run numbers 1, 2, 256, 1000, 1024, 4096. Oracle at
//	        EVERY run; the tree dump at checkpoints next to 1, 2, 256, 1000, 1024, 4096.
//	envs    257..4097 (thorough 65537) environments alive at once, each with its own
//	        bindings, module, type and imported-package copy which it mutates; afterwards
//	        every environment must see its own bindings only; half are dropped, garbage
//	        collected, replaced by new ones that must be empty; packages of 255..4097
//	        symbols imported by many environments that each change one member; copies of
//	        an environment of 255..4097 names.
//	sizes   programs whose literals, argument lists, statement lists and strings sit on
//	        and next to 256/1024/4096/65536 elements or bytes, written read-then-mutate
//	        (a run that saw what an earlier run stored differs from run 1), one tree run
//	        several times, the dump compared.
//
// No phase knows a table size, counter or threshold of the code under test.

import (
	"context"
	"fmt"
	"math/rand"
	"reflect"
	"runtime"
	"strings"
	"time"

	"github.com/mattn/anko/ast"
	"github.com/mattn/anko/env"

	"verifharness/internal/ank"
	"verifharness/internal/astx"
	"verifharness/internal/fw"
	"verifharness/internal/wk"
)

const c14R8Rule = " Round 8 (volume and history; c14_r8.go; the oracle is what the program yields ALONE - computed by the harness in Go from the program text, or observed in a fresh child process -, applied to every run; ONE phase, r8, whose cases have a worker process each and are of four kinds selected by the case index): " +
	"kind churn: one case is one process history of 4400 (thorough 30000) pairwise different small programs, each parsed, run 1..3 times in fresh environments over equal host data and dropped, with runtime.GC() every 2..21 cycles (the pace redrawn every 500 programs) and every 16th environment leaked; a program is a fixed preamble (script map, module with members and functions, import of strings, three script functions, two make(struct{...}) spellings shared by all programs) and 4..9 operations drawn from 24 kinds (read/write of a field of a host struct through a pointer and by value, of a second host type with the same field names at other positions, value- and pointer-receiver methods, a field behind an embedded pointer, fields of the script-made structs, script map and host map members by .name and [\"name\"], module members and module functions, imported members called and rebound, script and host function calls, top-level names probed with ?? and defined, += / ++ on members, loops over a member) laid out after one of 12 shapes per case so that the same tree positions carry different member names; the expected value is computed in Go by a model of exactly those operations; a reference set (24 such programs, the feature programs of the older phases that run in under 30 ms with their observation alone in a fresh child process, every 8th streamed program a PRNG-generated one asked again 256 programs later) is asked again after exactly 255, 256, 257, 999, 1000, 1001, 1023, 1024, 1025, 4095, 4096, 4097 other programs; canaries at the end. " +
	"kind rerun: ONE parsed tree is run 1100 (thorough 4200) times, every run judged: (alone) a feature program against run 1 and its fresh-child observation; (among) a member program against its Go-computed value while 1..3 other programs of the same shape are parsed, run and dropped between two runs, GC forced, and the same source freshly parsed at run numbers 1, 2, 256, 1000, 1024, 4096; (poly) a tree of member reads, method calls, calls of bound functions and of functions the tree makes in every run (named ones of 1 and 6 parameters, a variadic one and a literal, all reading the data of their run) and a constant list literal that is read and then changed, whose receiver is a *struct, struct, second struct type, map[string]interface{}, map[string]int64 or module and whose callees are Go functions of three signatures or script functions, one kind for a prefix of 1, 2, 255..257, 999..1001, 1023..1025 runs and PRNG-drawn kinds and data afterwards; (conc) 8 goroutines run the one tree on separate environments with data of their own while the main goroutine churns other programs; the reflection dump of the tree is compared at run 1, 2, 255..257, 999..1001, 1023..1025, 4095..4097 and at the end. " +
	"kind envs: (live) 257, 1025, 4097 (thorough 16385, 65537) environments alive at once, each runs one shared tree that binds its id to a name, to one of 7 rotating names, to a module member, a type name and a member of its imported copy of strings; then every environment is read by a second shared tree and must see its own values and none of the other names; half of them are dropped, GC forced, new ones made (which must be empty) and the survivors read again; (bigpkg) host packages of 255..257, 1023..1025, 4095..4097 symbols registered in env.Packages, imported by 40 environments that each overwrite one member on or next to a block boundary and read ALL members back, the package table compared afterwards; (copies) an environment of 255..4097 names copied 64 times by Env.DeepCopy / Env.Copy, one name changed per copy, all names of all others read back. " +
	"kind sizes: programs whose list / map / typed-slice literals, make() results, strings, argument lists and statement lists have 255..257, 1023..1025, 4095..4097 (thorough 65535..65537) elements, written read-then-mutate, one tree run 4 times in fresh environments: every run equal to run 1 and to the Go-computed value, dump unchanged."

var c14R8Assumptions = []string{
	"round 8: the number of programs a process has parsed, run and dropped, the number of times a tree has run, the number of environments alive and the addresses the allocator hands out are not inputs of a run: the expected value of a late run is computed by the same Go model as for a first run",
	"round 8: the member programs bind only names of their own environment and read host data bound per run; host data are rebuilt for every run, so nothing a run may legitimately observe depends on another run",
	"round 8: PRNG-generated programs and feature programs are compared only with the same source run in an equal fresh environment (earlier in the process or alone in a fresh child process); a run cut by a watchdog or a child that delivers nothing is inconclusive"}

// All round-8 cases are cases of ONE phase, r8 (the phases of a check run one after the other, the
// cases of a phase side by side): the case index selects the kind - churn, rerun, envs, sizes, in
// that order, the long histories first - and the index within the kind. Every case has a worker
// process of its own (chunk size 1).
func c14R8Layout(tier string) (nChurn, nRerun, nEnvs, nSizes int) {
	if tier == "thorough" {
		return 12, 96, 24, 3 * len(c14R8SizeBuilders)
	}
	return 2, 6, 7, len(c14R8SizeBuilders)
}

func c14R8Phases(tier string) []fw.Phase {
	a, b, c, d := c14R8Layout(tier)
	return []fw.Phase{{Name: "r8", Cases: a + b + c + d, Chunk: 1, TimeoutS: 1800, MemMB: 8192}}
}

// c14R8Sub is the index of the running case within its kind (one case runs at a time in a worker).
var c14R8Sub int

// c14R8Run runs a case of phase r8; false when the phase is another one.
func c14R8Run(c *wk.Case) bool {
	if c.Phase != "r8" {
		return false
	}
	nChurn, nRerun, nEnvs, _ := c14R8Layout(c.Tier)
	switch i := c.Index; {
	case i < nChurn:
		c14R8Sub = i
		c14R8Churn(c)
	case i < nChurn+nRerun:
		c14R8Sub = i - nChurn
		c14R8Rerun(c)
	case i < nChurn+nRerun+nEnvs:
		c14R8Sub = i - nChurn - nRerun
		c14R8Envs(c)
	default:
		c14R8Sub = i - nChurn - nRerun - nEnvs
		c14R8Sizes(c)
	}
	return true
}

// c14R8Rep reports violations, at most two per signature and case.
type c14R8Rep struct {
	c    *wk.Case
	kind string
	seen map[string]int
}

func newC14R8Rep(c *wk.Case, kind string) *c14R8Rep {
	return &c14R8Rep{c: c, kind: kind, seen: map[string]int{}}
}

func (r *c14R8Rep) viol(sig, detail string, input interface{}) {
	r.seen[sig]++
	if r.seen[sig] > 2 {
		return
	}
	r.c.Violation(sig, detail, input)
}

func (r *c14R8Rep) failed() bool { return len(r.seen) > 0 }

var c14R8Checkpoints = map[int]bool{1: true, 2: true, 255: true, 256: true, 257: true, 999: true, 1000: true, 1001: true, 1023: true, 1024: true, 1025: true, 4095: true, 4096: true, 4097: true}

var c14R8Distances = []int{255, 256, 257, 999, 1000, 1001, 1023, 1024, 1025, 4095, 4096, 4097}

// ---------------------------------------------------------------------------
// host types shared by all programs of a process

type c14R8Inner struct {
	X, Y int64
	Z    string
}

type c14R8Rec struct {
	A, B, C, D int64
	S, T       string
	In         *c14R8Inner
}

func (r c14R8Rec) GetA() int64   { return r.A }
func (r c14R8Rec) GetB() int64   { return r.B }
func (r c14R8Rec) GetC() int64   { return r.C }
func (r c14R8Rec) GetD() int64   { return r.D }
func (r c14R8Rec) Name() string  { return r.S + "/" + r.T }
func (r *c14R8Rec) SetA(v int64) { r.A = v }
func (r *c14R8Rec) SetB(v int64) { r.B = v }
func (r *c14R8Rec) SetC(v int64) { r.C = v }
func (r *c14R8Rec) SetD(v int64) { r.D = v }

// the same member names at other positions, methods with another meaning
type c14R8Pair struct {
	T, S       string
	D, C, B, A int64
}

const c14R8PairBias = 1000000

func (p c14R8Pair) GetA() int64  { return p.A + c14R8PairBias }
func (p c14R8Pair) GetB() int64  { return p.B + c14R8PairBias }
func (p c14R8Pair) GetC() int64  { return p.C + c14R8PairBias }
func (p c14R8Pair) GetD() int64  { return p.D + c14R8PairBias }
func (p c14R8Pair) Name() string { return p.T + "\\" + p.S }

var c14R8IntFields = []string{"A", "B", "C", "D"}
var c14R8StrFields = []string{"S", "T"}
var c14R8Keys = []string{"a", "b", "c", "d"}
var c14R8ZNames = []string{"z1", "z2", "z3", "z4", "z5", "z6"}
var c14R8ImpFuncs = []string{"ToUpper", "ToLower", "TrimSpace"}

// the two script-made struct spellings every program uses
var c14R8StructSpellings = []string{"struct{A int64, B int64, C string}", "struct{B int64, A int64, C string, D int64}"}
var c14R8StructInts = [][]string{{"A", "B"}, {"A", "B", "D"}}

func c14R8ImpApply(fn, s string) string {
	switch fn {
	case "ToUpper":
		return strings.ToUpper(s)
	case "ToLower":
		return strings.ToLower(s)
	}
	return strings.TrimSpace(s)
}

// ---------------------------------------------------------------------------
// member programs and their model

const c14R8OpKinds = 24

var c14R8OpNames = []string{"field-read-ptr", "field-read-value", "field-write", "method-value-recv", "method-second-type", "method-ptr-recv", "method-name",
	"nested-read", "nested-write", "made-struct-write-read", "map-dot-read", "map-index-read", "map-write", "hostmap-read", "hostmap-write",
	"module-read", "module-func", "module-write", "import-call", "import-rebind", "script-call", "host-call", "name-probe", "member-opassign-loop"}

type c14R8Prog struct {
	idx   int
	src   string
	want  string   // rendered expected value
	kinds []string // operation kind of every element of the value
	elems []string // every element rendered
	// host data every run starts from
	rec  c14R8Rec
	in   c14R8Inner
	pair c14R8Pair
	hm   map[string]int64
}

// bind prepares a fresh environment with host data equal for every run of p.
func (p *c14R8Prog) bind(e *env.Env) *env.Env {
	rec, in := p.rec, p.in
	rec.In = &in
	hm := make(map[string]int64, len(p.hm))
	for k, v := range p.hm {
		hm[k] = v
	}
	e.Define("r", &rec)
	e.Define("q", p.pair)
	e.Define("hm", hm)
	e.Define("hadd", func(a, b int64) int64 { return a + b })
	e.Define("hcat", func(a, b string) string { return a + "|" + b })
	return e
}

func c14R8Shape(rng *rand.Rand) []int {
	n := 4 + rng.Intn(6)
	s := make([]int, n)
	for i := range s {
		s[i] = rng.Intn(c14R8OpKinds)
	}
	return s
}

func c14R8Val(rng *rand.Rand, idx int) int64 {
	switch rng.Intn(4) {
	case 0:
		return int64(rng.Intn(4200))
	case 1:
		return int64(idx)*7919 + int64(rng.Intn(97))
	case 2:
		return -int64(rng.Intn(300))
	}
	return int64(idx%4096) + int64(rng.Intn(3)) - 1
}

// c14R8Gen writes the program number idx after shape and computes its value.
func c14R8Gen(rng *rand.Rand, idx int, shape []int) *c14R8Prog {
	p := &c14R8Prog{idx: idx, hm: map[string]int64{}}
	iv := func() int64 { return c14R8Val(rng, idx) }
	sv := func() string { return fmt.Sprintf("s%d.%d", idx, rng.Intn(1000)) }
	pickS := func(l []string) string { return l[rng.Intn(len(l))] }
	// host data
	p.rec = c14R8Rec{A: iv(), B: iv(), C: iv(), D: iv(), S: sv(), T: sv()}
	p.in = c14R8Inner{X: iv(), Y: iv(), Z: sv()}
	p.pair = c14R8Pair{A: iv(), B: iv(), C: iv(), D: iv(), S: sv(), T: sv()}
	rec := map[string]interface{}{"A": p.rec.A, "B": p.rec.B, "C": p.rec.C, "D": p.rec.D, "S": p.rec.S, "T": p.rec.T, "X": p.in.X, "Y": p.in.Y, "Z": p.in.Z}
	pair := map[string]interface{}{"A": p.pair.A, "B": p.pair.B, "C": p.pair.C, "D": p.pair.D, "S": p.pair.S, "T": p.pair.T}
	m, mod := map[string]int64{}, map[string]int64{}
	for _, k := range c14R8Keys {
		p.hm[k], m[k], mod[k] = iv(), iv(), iv()
	}
	hm := map[string]int64{}
	for k, v := range p.hm {
		hm[k] = v
	}
	sm := []map[string]int64{{}, {}}
	imp := map[string]string{}
	for _, f := range c14R8ImpFuncs {
		imp[f] = f
	}
	type fdef struct {
		op string
		k  int64
	}
	fns := map[string]fdef{}
	z := map[string]int64{}

	var b strings.Builder
	fmt.Fprintf(&b, "m = {\"a\": %d, \"b\": %d, \"c\": %d, \"d\": %d}\n", m["a"], m["b"], m["c"], m["d"])
	fmt.Fprintf(&b, "module M {\n a = %d\n b = %d\n c = %d\n d = %d\n func fa() { return a }\n func fb() { return b }\n func fc() { return c }\n func fd() { return d }\n}\n", mod["a"], mod["b"], mod["c"], mod["d"])
	b.WriteString("st = import(\"strings\")\n")
	for _, fn := range []string{"f", "g", "h"} {
		d := fdef{op: []string{"+", "*", "-"}[rng.Intn(3)], k: int64(rng.Intn(50)) + int64(idx%1000)}
		fns[fn] = d
		fmt.Fprintf(&b, "func %s(x) { return x %s %d }\n", fn, d.op, d.k)
	}
	fmt.Fprintf(&b, "s0 = make(%s)\ns1 = make(%s)\n", c14R8StructSpellings[0], c14R8StructSpellings[1])

	var outs []interface{}
	var names []string
	emit := func(expr string, v interface{}, kind int) {
		n := fmt.Sprintf("t%d_%d", idx, len(names))
		names = append(names, n)
		fmt.Fprintf(&b, "%s = %s\n", n, expr)
		outs = append(outs, v)
		p.kinds = append(p.kinds, c14R8OpNames[kind])
	}
	anyField := func() string {
		if rng.Intn(3) == 0 {
			return pickS(c14R8StrFields)
		}
		return pickS(c14R8IntFields)
	}
	for _, op := range shape {
		switch op {
		case 0:
			f := anyField()
			emit("r."+f, rec[f], op)
		case 1:
			f := anyField()
			emit("q."+f, pair[f], op)
		case 2:
			f := anyField()
			if _, isInt := rec[f].(int64); isInt {
				v := iv()
				fmt.Fprintf(&b, "r.%s = %d\n", f, v)
				rec[f] = v
			} else {
				v := sv()
				fmt.Fprintf(&b, "r.%s = %q\n", f, v)
				rec[f] = v
			}
			g := anyField()
			emit("r."+g, rec[g], op)
		case 3:
			f := pickS(c14R8IntFields)
			emit("r.Get"+f+"()", rec[f], op)
		case 4:
			f := pickS(c14R8IntFields)
			emit("q.Get"+f+"()", pair[f].(int64)+c14R8PairBias, op)
		case 5:
			f, v := pickS(c14R8IntFields), iv()
			fmt.Fprintf(&b, "r.Set%s(%d)\n", f, v)
			rec[f] = v
			g := pickS(c14R8IntFields)
			emit("r.Get"+g+"() + r."+g, rec[g].(int64)*2, op)
		case 6:
			if rng.Intn(2) == 0 {
				emit("r.Name()", rec["S"].(string)+"/"+rec["T"].(string), op)
			} else {
				emit("q.Name()", pair["T"].(string)+"\\"+pair["S"].(string), op)
			}
		case 7:
			f := pickS([]string{"X", "Y", "Z"})
			emit("r.In."+f, rec[f], op)
		case 8:
			f, v := pickS([]string{"X", "Y"}), iv()
			fmt.Fprintf(&b, "r.In.%s = %d\n", f, v)
			rec[f] = v
			g := pickS([]string{"X", "Y"})
			emit("r.In."+g, rec[g], op)
		case 9:
			k := rng.Intn(2)
			f, v := pickS(c14R8StructInts[k]), iv()
			fmt.Fprintf(&b, "s%d.%s = %d\n", k, f, v)
			sm[k][f] = v
			g := pickS(c14R8StructInts[k])
			emit(fmt.Sprintf("s%d.%s", k, g), sm[k][g], op)
		case 10:
			k := pickS(c14R8Keys)
			emit("m."+k, m[k], op)
		case 11:
			k := pickS(c14R8Keys)
			emit("m[\""+k+"\"]", m[k], op)
		case 12:
			k, v := pickS(c14R8Keys), iv()
			if rng.Intn(2) == 0 {
				fmt.Fprintf(&b, "m.%s = %d\n", k, v)
			} else {
				fmt.Fprintf(&b, "m[%q] = %d\n", k, v)
			}
			m[k] = v
			g := pickS(c14R8Keys)
			emit("m."+g, m[g], op)
		case 13:
			k := pickS(c14R8Keys)
			emit("hm."+k, hm[k], op)
		case 14:
			k, v := pickS(c14R8Keys), iv()
			fmt.Fprintf(&b, "hm.%s = %d\n", k, v)
			hm[k] = v
			g := pickS(c14R8Keys)
			emit("hm[\""+g+"\"]", hm[g], op)
		case 15:
			k := pickS(c14R8Keys)
			emit("M."+k, mod[k], op)
		case 16:
			k := pickS(c14R8Keys)
			emit("M.f"+k+"()", mod[k], op)
		case 17:
			k, v := pickS(c14R8Keys), iv()
			fmt.Fprintf(&b, "M.%s = %d\n", k, v)
			mod[k] = v
			g := pickS(c14R8Keys)
			emit("M.f"+g+"() - M."+g, int64(0)+mod[g]-mod[g], op)
			emit("M."+g, mod[g], op)
		case 18:
			f, arg := pickS(c14R8ImpFuncs), fmt.Sprintf(" aB%d xY ", idx)
			emit(fmt.Sprintf("st.%s(%q)", f, arg), c14R8ImpApply(imp[f], arg), op)
		case 19:
			f, g := pickS(c14R8ImpFuncs), pickS(c14R8ImpFuncs)
			fmt.Fprintf(&b, "st.%s = st.%s\n", f, g)
			imp[f] = imp[g]
			h, arg := pickS(c14R8ImpFuncs), fmt.Sprintf(" Qr%d sT ", idx)
			emit(fmt.Sprintf("st.%s(%q)", h, arg), c14R8ImpApply(imp[h], arg), op)
		case 20:
			fn, a := pickS([]string{"f", "g", "h"}), int64(rng.Intn(2000))
			d := fns[fn]
			var v int64
			switch d.op {
			case "+":
				v = a + d.k
			case "*":
				v = a * d.k
			default:
				v = a - d.k
			}
			emit(fmt.Sprintf("%s(%d)", fn, a), v, op)
		case 21:
			if rng.Intn(2) == 0 {
				a, f := iv(), pickS(c14R8IntFields)
				emit(fmt.Sprintf("hadd(%d, r.%s)", a, f), a+rec[f].(int64), op)
			} else {
				f := pickS(c14R8StrFields)
				emit(fmt.Sprintf("hcat(q.%s, %q)", f, "k"), pair[f].(string)+"|k", op)
			}
		case 22:
			n := pickS(c14R8ZNames)
			if v, ok := z[n]; ok {
				emit(n+" ?? \"undef\"", v, op)
			} else {
				emit(n+" ?? \"undef\"", "undef", op)
			}
			if rng.Intn(2) == 0 {
				n2, v := pickS(c14R8ZNames), iv()
				fmt.Fprintf(&b, "%s = %d\n", n2, v)
				z[n2] = v
			}
		case 23:
			f, k, v := pickS(c14R8IntFields), pickS(c14R8Keys), int64(rng.Intn(9)+1)
			switch rng.Intn(3) {
			case 0:
				fmt.Fprintf(&b, "r.%s += %d\n", f, v)
				rec[f] = rec[f].(int64) + v
			case 1:
				fmt.Fprintf(&b, "m.%s++\n", k)
				m[k]++
			default:
				fmt.Fprintf(&b, "m.%s += %d\n", k, v)
				m[k] += v
			}
			n := fmt.Sprintf("t%d_%d", idx, len(names))
			fmt.Fprintf(&b, "%s = 0\nfor i = 0; i < 3; i++ { %s += r.%s + m.%s }\n", n, n, f, k)
			names = append(names, n)
			outs = append(outs, 3*(rec[f].(int64)+m[k]))
			p.kinds = append(p.kinds, c14R8OpNames[op])
		}
	}
	b.WriteString("[" + strings.Join(names, ", ") + "]\n")
	p.src = b.String()
	p.want = ank.Render(outs)
	for _, v := range outs {
		p.elems = append(p.elems, ank.Render(v))
	}
	return p
}

// c14R8FirstDiff names the operation kind of the first element in which got differs from the expected list.
func c14R8FirstDiff(p *c14R8Prog, got string) string {
	const pre = "[]interface {}["
	if !strings.HasPrefix(got, pre) {
		return "value"
	}
	rest := got[len(pre):]
	for i, el := range p.elems {
		if !strings.HasPrefix(rest, el) || len(rest) == len(el) || (rest[len(el)] != ' ' && rest[len(el)] != ']') {
			return p.kinds[i]
		}
		rest = rest[len(el)+1:]
	}
	return "value"
}

// run runs tree (parsed from p.src) once in a fresh environment and judges the outcome.
func (p *c14R8Prog) run(rep *c14R8Rep, tree ast.Stmt, ctx context.Context, when string, keep *[]*env.Env) bool {
	e := p.bind(ank.NewCoreEnv())
	o := ank.RunCtx(ctx, e, tree)
	if keep != nil {
		*keep = append(*keep, e)
	}
	rep.c.Events(1)
	switch {
	case o.Panicked:
		rep.viol("r8:"+rep.kind+":panic-out-of-run", fmt.Sprintf("%s: a panic left vm.RunContext: %s", when, o.PanicSig), map[string]interface{}{"source": p.src, "when": when})
	case ctx.Err() != nil:
		rep.c.Tag("inconclusive:r8-watchdog")
		return true
	case o.Err != nil:
		rep.viol("r8:"+rep.kind+":differs-from-alone:error", fmt.Sprintf("%s: the program ends with error %q; alone it yields %s", when, o.Err.Error(), clipStr(p.want, 300)), map[string]interface{}{"source": p.src, "when": when, "expected": p.want})
	default:
		got := ank.Render(o.Val)
		if got == p.want {
			return true
		}
		rep.viol("r8:"+rep.kind+":differs-from-alone:"+c14R8FirstDiff(p, got), fmt.Sprintf("%s: the program yields %s; alone it yields %s", when, clipStr(got, 400), clipStr(p.want, 400)), map[string]interface{}{"source": p.src, "when": when, "expected": p.want, "got": got})
	}
	return false
}

func c14R8Parse(rep *c14R8Rep, src string) ast.Stmt {
	tree, perr, po := ank.Parse(src)
	if po.Panicked || perr != nil || tree == nil {
		rep.viol("r8:"+rep.kind+":does-not-parse", fmt.Sprintf("a program of the fixed grammar does not parse: %v %s", perr, po.PanicSig), map[string]interface{}{"source": src})
		return nil
	}
	return tree
}

// ---------------------------------------------------------------------------
// phase churn

type c14R8Ref struct {
	prog    *c14R8Prog // member program, or
	src     string     // feature program with
	solo    *c14Obs    // its observation alone in a fresh child process
	last    int
	di      int
	askedAt []int
}

// c14R8FastFeatures: the goroutine-free feature programs that run in under 30 ms.
func c14R8FastFeatures() []string {
	var out []string
	for _, s := range c14Features {
		if strings.Contains(s, "go ") || strings.Contains(s, "meet()") || c14SpecOf(s) != "" && strings.Contains(c14SpecOf(s), "keys") {
			continue
		}
		t0 := time.Now()
		o, ok := c14RunFresh(s, 2*time.Second)
		if !ok || o.timeout || time.Since(t0) > 30*time.Millisecond {
			continue
		}
		out = append(out, s)
	}
	return out
}

func c14R8Churn(c *wk.Case) {
	rep := newC14R8Rep(c, "churn")
	// the process is this case's own (chunk size 1): forced collections are cheaper with few Ps
	defer runtime.GOMAXPROCS(runtime.GOMAXPROCS(2))
	total := 4400
	if c.Tier == "thorough" {
		total = 30000
	}
	shapes := make([][]int, 12)
	for i := range shapes {
		shapes[i] = c14R8Shape(c.Rng)
	}
	c.Begin(map[string]interface{}{"phase": "churn", "programs": total})
	// the reference set, asked first while the process is young
	var refs []*c14R8Ref
	for j := 0; j < 24; j++ {
		refs = append(refs, &c14R8Ref{prog: c14R8Gen(c.Rng, 1000000+j, shapes[j%len(shapes)]), di: j})
	}
	feats := c14R8FastFeatures()
	for lo := 0; lo < len(feats); lo += 8 {
		hi := lo + 8
		if hi > len(feats) {
			hi = len(feats)
		}
		c14SoloAll(c, feats[lo:hi])
	}
	for j, s := range feats {
		if solo := c14SoloCache[s]; solo != nil && !solo.timeout {
			refs = append(refs, &c14R8Ref{src: s, solo: solo, di: j})
		} else {
			c.Tag("inconclusive:r8-solo-child")
		}
	}
	bg := context.Background()
	var leaked []*env.Env
	asks, distSeen := 0, map[int]bool{}
	ask := func(r *c14R8Ref, n int) {
		asks++
		when := fmt.Sprintf("after %d other programs in this process (%d since it was last asked)", n, n-r.last)
		if r.prog != nil {
			if tree := c14R8Parse(rep, r.prog.src); tree != nil {
				r.prog.run(rep, tree, bg, "reference program "+when, nil)
			}
			return
		}
		o, ok := c14RunFresh(r.src, 4*time.Second)
		c.Events(1)
		if !ok || o.timeout {
			c.Tag("inconclusive:r8-watchdog")
			return
		}
		if d := r.solo.diff(o); d != "" {
			rep.viol("r8:churn:feature-differs-from-alone", fmt.Sprintf("feature program %s differs from its run alone in a fresh child process: %s", when, d), map[string]interface{}{"source": r.src, "when": when})
		}
	}
	for _, r := range refs {
		ask(r, 0)
	}
	type pending struct {
		src string
		obs c14Obs
		due int
	}
	var pend []pending
	gcPaces := []int{2, 3, 5, 8, 13, 21}
	gcEvery, distinct := gcPaces[c.Rng.Intn(len(gcPaces))], map[string]struct{}{}
	for n := 1; n <= total; n++ {
		for _, r := range refs {
			if n-r.last == c14R8Distances[r.di%len(c14R8Distances)] {
				distSeen[n-r.last] = true
				ask(r, n)
				r.last = n
				r.di++
			}
		}
		for len(pend) > 0 && pend[0].due <= n {
			q := pend[0]
			pend = pend[1:]
			if o, ok := c14RunFresh(q.src, 4*time.Second); ok && !o.timeout {
				c.Events(1)
				if d := q.obs.diff(o); d != "" {
					rep.viol("r8:churn:generated-rerun-differs", fmt.Sprintf("a generated program run again in a fresh environment 256 programs later differs from its first run: %s", d), map[string]interface{}{"source": q.src})
				}
			}
		}
		if n%8 == 0 {
			src := c14GenProgram(c)
			if o, ok := c14RunFresh(src, 4*time.Second); ok && !o.timeout {
				pend = append(pend, pending{src, o, n + 256})
				distinct[src] = struct{}{}
			}
			continue
		}
		var shape []int
		if c.Rng.Intn(10) == 0 {
			shape = c14R8Shape(c.Rng)
		} else {
			shape = shapes[c.Rng.Intn(len(shapes))]
		}
		p := c14R8Gen(c.Rng, n, shape)
		distinct[p.src] = struct{}{}
		tree := c14R8Parse(rep, p.src)
		if tree == nil {
			break
		}
		runs := 1 + c.Rng.Intn(3)
		for k := 1; k <= runs; k++ {
			ctx, cancel := bg, context.CancelFunc(nil)
			if c.Rng.Intn(4) == 0 {
				ctx, cancel = context.WithCancel(bg)
			}
			var keep *[]*env.Env
			if n%16 == 0 {
				keep = &leaked
			}
			p.run(rep, tree, ctx, fmt.Sprintf("program %d of the process, run %d of its tree", n, k), keep)
			if cancel != nil {
				cancel()
			}
		}
		if n <= 3 && c.WantSample() {
			c.Sample(map[string]interface{}{"phase": "churn", "source": p.src, "expected": p.want})
		}
		if n%gcEvery == 0 {
			runtime.GC()
		}
		if n%500 == 0 {
			gcEvery = gcPaces[c.Rng.Intn(len(gcPaces))]
		}
		if rep.seen["r8:churn:does-not-parse"] > 0 {
			break
		}
	}
	c14Canary(c, "a history of thousands of programs")
	c.Eval(fmt.Sprintf("r8-churn-%d", c.Index), true)
	c.EvalN(len(distinct))
	c.Count("r8_churn_distinct_programs_in_one_process", len(distinct))
	c.Count("r8_churn_reference_asks", asks)
	c.Count("r8_churn_leaked_environments", len(leaked))
	for d := range distSeen {
		c.Tag(fmt.Sprintf("r8:churn:reask-distance=%d", d))
	}
	c.Tag(fmt.Sprintf("reached:programs_in_one_process>=%d", len(distinct)/1000*1000), "r8:kind:churn")
	runtime.KeepAlive(leaked)
}

// ---------------------------------------------------------------------------
// phase rerun

func c14R8Runs(c *wk.Case) int {
	if c.Tier == "thorough" {
		return 4200
	}
	return 1100
}

// c14R8DumpCheck compares the tree with its dump before the first run.
func c14R8DumpCheck(rep *c14R8Rep, tree ast.Stmt, dump0, src, when string) bool {
	if d := astx.Dump(tree, c14DumpOpts); d != dump0 {
		rep.viol("r8:rerun:tree-mutated:"+firstDiffNode(dump0, d), "the parsed tree differs "+when+": "+dumpDiff(dump0, d), map[string]interface{}{"source": src, "when": when})
		return false
	}
	return true
}

func c14R8Rerun(c *wk.Case) {
	rep := newC14R8Rep(c, "rerun")
	kinds := []string{"among", "poly", "alone", "conc", "poly", "poly"}
	kind := kinds[c14R8Sub%len(kinds)]
	c.Begin(map[string]interface{}{"phase": "rerun", "kind": kind})
	switch kind {
	case "alone":
		c14R8RerunAlone(c, rep)
	case "among":
		c14R8RerunAmong(c, rep, false)
	case "conc":
		c14R8RerunAmong(c, rep, true)
	default:
		c14R8RerunPoly(c, rep)
	}
	c14Canary(c, "a tree run thousands of times")
	c.Eval(fmt.Sprintf("r8-rerun-%d", c.Index), true)
	c.Tag("r8:kind:rerun", "r8:rerun:"+kind)
}

// alone: feature programs, run 1 and the fresh child as reference
func c14R8RerunAlone(c *wk.Case, rep *c14R8Rep) {
	feats := c14R8FastFeatures()
	n := c14R8Runs(c)
	// 3 (thorough 6) features per case, each n runs
	nf := 3
	if c.Tier == "thorough" {
		nf = 6
	}
	for t := 0; t < nf; t++ {
		src := feats[c.Rng.Intn(len(feats))]
		c14SoloAll(c, []string{src})
		solo := c14SoloCache[src]
		tree := c14R8Parse(rep, src)
		if tree == nil {
			return
		}
		spec := c14SpecOf(src)
		dump0 := astx.Dump(tree, c14DumpOpts)
		var first c14Obs
		for k := 1; k <= n; k++ {
			o := c14Observe(c14RunTree(tree, spec, 4*time.Second, false, nil))
			if o.timeout {
				c.Tag("inconclusive:r8-watchdog")
				break
			}
			c.Events(1)
			if k == 1 {
				first = o
				if solo != nil && !solo.timeout {
					if d := solo.diff(o); d != "" {
						rep.viol("r8:rerun:feature-differs-from-alone", "run 1 of the tree differs from the program alone in a fresh child process: "+d, map[string]interface{}{"source": src})
					}
				}
			} else if d := first.diff(o); d != "" {
				rep.viol("r8:rerun:run-k-differs:feature", fmt.Sprintf("run %d of one tree in a fresh environment differs from run 1: %s", k, d), map[string]interface{}{"source": src, "run": k})
				break
			}
			if c14R8Checkpoints[k] || k == n {
				if !c14R8DumpCheck(rep, tree, dump0, src, fmt.Sprintf("after %d runs", k)) {
					break
				}
				c.Tag(fmt.Sprintf("r8:rerun:dump-at-run=%d", k))
			}
			if k%97 == 0 {
				runtime.GC()
			}
		}
		c.Count("r8_rerun_tree_runs", n)
	}
}

// among / conc: one member program's tree among other programs
func c14R8RerunAmong(c *wk.Case, rep *c14R8Rep, conc bool) {
	n := c14R8Runs(c)
	shape := c14R8Shape(c.Rng)
	p := c14R8Gen(c.Rng, 2000000+c14R8Sub, shape)
	tree := c14R8Parse(rep, p.src)
	if tree == nil {
		return
	}
	dump0 := astx.Dump(tree, c14DumpOpts)
	bg := context.Background()
	others := 0
	churn := func(i int) {
		q := c14R8Gen(c.Rng, i, shape)
		if t := c14R8Parse(rep, q.src); t != nil {
			q.run(rep, t, bg, fmt.Sprintf("another program between the runs of the kept tree (%d)", i), nil)
			if c.Rng.Intn(2) == 0 {
				q.run(rep, t, bg, fmt.Sprintf("another program between the runs of the kept tree (%d), second run", i), nil)
			}
		}
		others++
	}
	if conc {
		// 8 goroutines share the tree; each judges its own runs (own data: a program of the same
		// source needs equal data, so the data are p's; the environments are separate)
		type res struct{ sig, detail string }
		out := make(chan res, 64)
		done := make(chan struct{})
		per := n / 8
		for g := 0; g < 8; g++ {
			go func(g int) {
				defer func() { done <- struct{}{} }()
				for k := 0; k < per; k++ {
					e := p.bind(ank.NewCoreEnv())
					o := ank.RunCtx(bg, e, tree)
					got := ank.Render(o.Val)
					if o.Panicked || o.Err != nil || got != p.want {
						select {
						case out <- res{"r8:rerun:concurrent-run-differs", fmt.Sprintf("goroutine %d, its run %d of the shared tree: value %s error %s panic %s; alone %s", g, k+1, clipStr(got, 300), ank.ErrText(o.Err), o.PanicSig, clipStr(p.want, 300))}:
						default:
						}
						return
					}
				}
			}(g)
		}
		fin := 0
		for i := 0; fin < 8; i++ {
			select {
			case <-done:
				fin++
			default:
				churn(3000000 + c14R8Sub*100000 + i)
				if i%3 == 0 {
					runtime.GC()
				}
			}
		}
		close(out)
		for r := range out {
			rep.viol(r.sig, r.detail, map[string]interface{}{"source": p.src})
		}
		c.Events(per * 8)
		c14R8DumpCheck(rep, tree, dump0, p.src, fmt.Sprintf("after %d runs from 8 goroutines", per*8))
		c.Count("r8_rerun_concurrent_tree_runs", per*8)
		c.Count("r8_rerun_other_programs_between", others)
		return
	}
	for k := 1; k <= n; k++ {
		for j := c.Rng.Intn(4); j > 0; j-- {
			churn(3000000 + c14R8Sub*100000 + k*4 + j)
		}
		if k%(1+c.Rng.Intn(5)) == 0 {
			runtime.GC()
		}
		if !p.run(rep, tree, bg, fmt.Sprintf("run %d of the kept tree, %d other programs parsed, run and dropped in between", k, others), nil) {
			break
		}
		if c14R8Checkpoints[k] || k == n {
			if !c14R8DumpCheck(rep, tree, dump0, p.src, fmt.Sprintf("after %d runs", k)) {
				break
			}
			c.Tag(fmt.Sprintf("r8:rerun:dump-at-run=%d", k))
			// the same source, freshly parsed, at this run number
			if t := c14R8Parse(rep, p.src); t != nil {
				p.run(rep, t, bg, fmt.Sprintf("the same source freshly parsed at run number %d", k), nil)
			}
		}
	}
	c.Count("r8_rerun_tree_runs", n)
	c.Count("r8_rerun_other_programs_between", others)
}

// poly: receivers and callees change their Go type between the runs of one tree

var c14R8PolyKinds = []string{"ptr-struct", "struct", "second-struct", "ptr-second-struct", "map-interface", "map-int64", "module"}
var c14R8PolyCallees = []string{"go-int64", "go-interface", "go-variadic", "script"}

type c14R8PolyData struct {
	kind, callee string
	v            [4]int64 // A B C D
	k            int64    // what f adds
}

// c14R8PolyBind prepares a fresh environment after d; get reports whether x has methods GetA..GetD and their bias.
func c14R8PolyBind(d c14R8PolyData) (*env.Env, int64, bool) {
	e := ank.NewCoreEnv()
	bias := int64(0)
	rec := c14R8Rec{A: d.v[0], B: d.v[1], C: d.v[2], D: d.v[3], S: "s"}
	pair := c14R8Pair{A: d.v[0], B: d.v[1], C: d.v[2], D: d.v[3], S: "s"}
	switch d.kind {
	case "ptr-struct":
		e.Define("x", &rec)
	case "struct":
		e.Define("x", rec)
	case "second-struct":
		e.Define("x", pair)
		bias = c14R8PairBias
	case "ptr-second-struct":
		e.Define("x", &pair)
		bias = c14R8PairBias
	case "map-interface":
		bias = 7
		m := map[string]interface{}{"A": d.v[0], "B": d.v[1], "C": d.v[2], "D": d.v[3]}
		for i, f := range c14R8IntFields {
			v := d.v[i] + bias
			m["Get"+f] = func() int64 { return v }
		}
		e.Define("x", m)
	case "map-int64":
		e.Define("x", map[string]int64{"A": d.v[0], "B": d.v[1], "C": d.v[2], "D": d.v[3]})
		return c14R8PolyCallee(e, d), 0, false
	case "module":
		bias = 11
		m, err := e.NewModule("x")
		if err != nil {
			return nil, 0, false
		}
		for i, f := range c14R8IntFields {
			v := d.v[i] + bias
			m.Define(f, d.v[i])
			m.Define("Get"+f, func() int64 { return v })
		}
	}
	return c14R8PolyCallee(e, d), bias, true
}

func c14R8PolyCallee(e *env.Env, d c14R8PolyData) *env.Env {
	k := d.k
	e.Define("kk", k)
	switch d.callee {
	case "go-int64":
		e.Define("f", func(a int64) int64 { return a + k })
	case "go-interface":
		e.Define("f", func(a interface{}) interface{} { return a.(int64) + k })
	case "go-variadic":
		e.Define("f", func(a ...int64) int64 { return a[0] + k })
	default:
		if o := ank.Exec(e, fmt.Sprintf("func f(a) { return a + %d }", k)); o.Err != nil || o.Panicked {
			return nil
		}
	}
	return e
}

func c14R8RerunPoly(c *wk.Case, rep *c14R8Rep) {
	n := c14R8Runs(c)
	// the tree: member reads and calls, some in a loop, with methods or without
	type item struct {
		expr string
		f    func(d c14R8PolyData, bias int64) int64
	}
	fi := func() int { return c.Rng.Intn(4) }
	gxField := fi()
	var items []item
	withMethods := c.Rng.Intn(3) > 0
	for i, m := 0, 3+c.Rng.Intn(4); i < m; i++ {
		a, b := fi(), fi()
		switch r := c.Rng.Intn(7); {
		case r == 5:
			// functions the tree itself makes in every run: they read the host data of THEIR run
			lit := int64(c.Rng.Intn(5000))
			items = append(items, item{fmt.Sprintf("own(%d)", lit), func(d c14R8PolyData, _ int64) int64 { return lit + d.k }})
		case r == 6:
			items = append(items, item{"gx()", func(d c14R8PolyData, _ int64) int64 { return d.v[gxField] }})
		case r == 0:
			items = append(items, item{"x." + c14R8IntFields[a], func(d c14R8PolyData, _ int64) int64 { return d.v[a] }})
		case r == 1:
			items = append(items, item{"x." + c14R8IntFields[a] + " - x." + c14R8IntFields[b], func(d c14R8PolyData, _ int64) int64 { return d.v[a] - d.v[b] }})
		case r == 2 && withMethods:
			items = append(items, item{"x.Get" + c14R8IntFields[a] + "()", func(d c14R8PolyData, bias int64) int64 { return d.v[a] + bias }})
		case r == 3:
			items = append(items, item{"f(x." + c14R8IntFields[a] + ")", func(d c14R8PolyData, _ int64) int64 { return d.v[a] + d.k }})
		default:
			lit := int64(c.Rng.Intn(5000))
			items = append(items, item{fmt.Sprintf("f(%d)", lit), func(d c14R8PolyData, _ int64) int64 { return lit + d.k }})
		}
	}
	var exprs []string
	for _, it := range items {
		exprs = append(exprs, it.expr)
	}
	loops := 1 + c.Rng.Intn(3)
	src := fmt.Sprintf("func own(a) { return a + kk }\nfunc ownv(a...) { return a[len(a) - 1] + kk }\nfunc own6(a, b, c, d, e, g) { return a + g + kk }\ngx = func() { return x.%s }\nc0 = [1, 2, 3]\nc0[0] += kk\no = [c0[0] - kk]\nfor i = 0; i < %d; i++ { o += [%s] }\no += [%s, own(7), gx(), ownv(1, 2, 9), own6(1, 2, 3, 4, 5, 6)]\no\n", c14R8IntFields[gxField], loops, strings.Join(exprs, ", "), exprs[0])
	tree := c14R8Parse(rep, src)
	if tree == nil {
		return
	}
	dump0 := astx.Dump(tree, c14DumpOpts)
	prefixes := []int{1, 2, 255, 256, 257, 999, 1000, 1001, 1023, 1024, 1025}
	prefix := prefixes[c.Rng.Intn(len(prefixes))]
	kinds := c14R8PolyKinds
	if !withMethods {
		kinds = append([]string{}, kinds...)
	} else {
		kinds = []string{"ptr-struct", "struct", "second-struct", "ptr-second-struct", "map-interface", "module"}
	}
	first := c14R8PolyData{kind: kinds[c.Rng.Intn(len(kinds))], callee: c14R8PolyCallees[c.Rng.Intn(len(c14R8PolyCallees))]}
	sameData := c.Rng.Intn(2) == 0
	kindsSeen := map[string]bool{}
	bg := context.Background()
	for k := 1; k <= n; k++ {
		d := first
		if k > prefix && (k-prefix)%5 != 0 {
			d.kind, d.callee = kinds[c.Rng.Intn(len(kinds))], c14R8PolyCallees[c.Rng.Intn(len(c14R8PolyCallees))]
		}
		if k > prefix || !sameData {
			for i := range d.v {
				d.v[i] = c14R8Val(c.Rng, k)
			}
			d.k = int64(c.Rng.Intn(100))
		} else {
			d.v, d.k = [4]int64{3, 1000, 4095, -2}, 5
		}
		e, bias, _ := c14R8PolyBind(d)
		if e == nil {
			rep.viol("r8:rerun:poly-setup-failed", "the environment of a poly run could not be prepared", map[string]interface{}{"kind": d.kind, "callee": d.callee})
			return
		}
		kindsSeen[d.kind+"/"+d.callee] = true
		want := []interface{}{int64(1)}
		for l := 0; l < loops; l++ {
			for _, it := range items {
				want = append(want, it.f(d, bias))
			}
		}
		want = append(want, items[0].f(d, bias), 7+d.k, d.v[gxField], 9+d.k, 7+d.k)
		o := ank.RunCtx(bg, e, tree)
		c.Events(1)
		got, exp := ank.Render(o.Val), ank.Render(want)
		if o.Panicked || o.Err != nil || got != exp {
			rep.viol("r8:rerun:poly-run-differs", fmt.Sprintf("run %d of one tree (receiver %s, callee %s, the first %d runs had %s/%s): value %s error %s %s; alone it yields %s", k, d.kind, d.callee, prefix, first.kind, first.callee, clipStr(got, 300), ank.ErrText(o.Err), o.PanicSig, clipStr(exp, 300)),
				map[string]interface{}{"source": src, "run": k, "prefix": prefix, "first": first.kind + "/" + first.callee, "now": d.kind + "/" + d.callee})
			break
		}
		if c14R8Checkpoints[k] || k == n {
			if !c14R8DumpCheck(rep, tree, dump0, src, fmt.Sprintf("after %d runs", k)) {
				break
			}
		}
		if k%61 == 0 {
			runtime.GC()
		}
	}
	if c.WantSample() {
		c.Sample(map[string]interface{}{"phase": "rerun", "kind": "poly", "source": src, "runs": n, "prefix": prefix})
	}
	c.Tag(fmt.Sprintf("r8:rerun:poly-prefix=%d", prefix))
	c.Count("r8_rerun_tree_runs", n)
	c.Count("r8_rerun_poly_kind_pairs", len(kindsSeen))
}

// ---------------------------------------------------------------------------
// phase envs

func c14R8Envs(c *wk.Case) {
	rep := newC14R8Rep(c, "envs")
	live := []int{257, 1025, 4097}
	if c.Tier == "thorough" {
		live = []int{257, 1025, 4097, 16385, 65537, 4096, 1024}
	}
	var kind string
	switch {
	case c14R8Sub < len(live):
		kind = "live"
	case (c14R8Sub-len(live))%2 == 0:
		kind = "bigpkg"
	default:
		kind = "copies"
	}
	c.Begin(map[string]interface{}{"phase": "envs", "kind": kind})
	switch kind {
	case "live":
		c14R8EnvsLive(c, rep, live[c14R8Sub])
	case "bigpkg":
		c14R8EnvsBigPkg(c, rep)
	default:
		c14R8EnvsCopies(c, rep)
	}
	c14Canary(c, "thousands of live environments")
	c.Eval(fmt.Sprintf("r8-envs-%d", c.Index), true)
	c.Tag("r8:kind:envs", "r8:envs:"+kind)
}

const c14R8EnvSetup = `x = id
var own = id * 3
module K { v = id + 1
 func get() { return v }
 func set(w) { v = w } }
st = import("strings")
st.ToUpper = id
st.TrimSpace = id % 2 == 0 ? st.ToLower : st.TrimSpace
K.set(id + 2)
`

// one of these runs after the setup, chosen by id % 7 resp. id % 3 (a block would bind in its own scope)
var c14R8EnvSetupName = []string{"n0 = id", "n1 = id", "n2 = id", "n3 = id", "n4 = id", "n5 = id", "n6 = id"}
var c14R8EnvSetupType = []string{"make(type TT, \"\")", "make(type TT, 0)", "TU = 1"}

const c14R8EnvView = `tv = "none"
try { tv = make(TT) } catch e { tv = "none" }
[x ?? "u", own ?? "u", n0 ?? "u", n1 ?? "u", n2 ?? "u", n3 ?? "u", n4 ?? "u", n5 ?? "u", n6 ?? "u", K.v ?? "u", K.get() ?? "u", st.ToUpper ?? "u", st.TrimSpace(" Ab ") ?? "u", st.ToLower("Ab") ?? "u", tv, id]
`

func c14R8EnvWant(id int64, fresh bool) string {
	if fresh {
		w := []interface{}{"u", "u", "u", "u", "u", "u", "u", "u", "u", "u", "u", "u", "u", "u", "none", id}
		return ank.Render(w)
	}
	w := []interface{}{id, id * 3}
	for j := int64(0); j < 7; j++ {
		if id%7 == j {
			w = append(w, id)
		} else {
			w = append(w, "u")
		}
	}
	w = append(w, id+2, id+2, id)
	if id%2 == 0 {
		w = append(w, " ab ")
	} else {
		w = append(w, "Ab")
	}
	w = append(w, "ab")
	switch id % 3 {
	case 0:
		w = append(w, "")
	case 1:
		w = append(w, int64(0))
	default:
		w = append(w, "none")
	}
	return ank.Render(append(w, id))
}

func c14R8EnvsLive(c *wk.Case, rep *c14R8Rep, n int) {
	setup, view := c14R8Parse(rep, c14R8EnvSetup), c14R8Parse(rep, c14R8EnvView)
	if setup == nil || view == nil {
		return
	}
	dumpS, dumpV := astx.Dump(setup, c14DumpOpts), astx.Dump(view, c14DumpOpts)
	var nameTrees, typeTrees []ast.Stmt
	for _, s := range c14R8EnvSetupName {
		nameTrees = append(nameTrees, c14R8Parse(rep, s))
	}
	for _, s := range c14R8EnvSetupType {
		typeTrees = append(typeTrees, c14R8Parse(rep, s))
	}
	if rep.failed() {
		return
	}
	bg := context.Background()
	envs := make([]*env.Env, n)
	ids := make([]int64, n)
	mk := func(i int, id int64) {
		// every 5th with the core builtins, the others bare
		var e *env.Env
		if i%5 == 0 {
			e = ank.NewCoreEnv()
		} else {
			e = env.NewEnv()
		}
		e.Define("id", id)
		envs[i], ids[i] = e, id
	}
	look := func(i int, fresh bool, when string) bool {
		o := ank.RunCtx(bg, envs[i], view)
		c.Events(1)
		got, want := ank.Render(o.Val), c14R8EnvWant(ids[i], fresh)
		if o.Panicked || o.Err != nil || got != want {
			sig := "r8:envs:sees-foreign-or-lost-binding"
			if fresh {
				sig = "r8:envs:fresh-environment-not-empty"
			}
			rep.viol(sig, fmt.Sprintf("%s, environment %d of %d (id %d): the view yields %s %s %s, expected %s", when, i, n, ids[i], clipStr(got, 400), ank.ErrText(o.Err), o.PanicSig, want), map[string]interface{}{"setup": c14R8EnvSetup, "view": c14R8EnvView, "environments": n, "index": i, "id": ids[i]})
			return false
		}
		return true
	}
	for i := 0; i < n; i++ {
		mk(i, int64(i)*3+int64(c.Rng.Intn(3)))
	}
	// all made before the first runs; a fresh one sees nothing
	for i := 0; i < n; i += 1 + n/64 {
		if !look(i, true, "before any setup ran") {
			return
		}
	}
	for i := 0; i < n; i++ {
		o := ank.RunCtx(bg, envs[i], setup)
		if o.Err == nil && !o.Panicked {
			o = ank.RunCtx(bg, envs[i], nameTrees[ids[i]%7])
		}
		if o.Err == nil && !o.Panicked {
			o = ank.RunCtx(bg, envs[i], typeTrees[ids[i]%3])
		}
		if o.Err != nil || o.Panicked {
			rep.viol("r8:envs:setup-fails", fmt.Sprintf("the setup program fails in environment %d of %d: %s %s", i, n, ank.ErrText(o.Err), o.PanicSig), map[string]interface{}{"setup": c14R8EnvSetup, "index": i})
			return
		}
		// the neighbours made earlier, at once
		if i > 0 && i%1000 == 1 && !look(i-1, false, fmt.Sprintf("after %d setups", i+1)) {
			return
		}
	}
	c.Events(n)
	for i := 0; i < n; i++ {
		if !look(i, false, "after all setups ran") {
			break
		}
	}
	// drop every second one, collect, make new ones in their place
	for i := 0; i < n; i += 2 {
		envs[i] = nil
	}
	runtime.GC()
	for i := 0; i < n; i += 2 {
		mk(i, int64(n)*5+int64(i))
		if !look(i, true, "a new environment made after half of the others were dropped and collected") {
			break
		}
	}
	for i := 1; i < n; i += 2 {
		if !look(i, false, "a survivor after half of the others were dropped, collected and replaced") {
			break
		}
	}
	if astx.Dump(setup, c14DumpOpts) != dumpS || astx.Dump(view, c14DumpOpts) != dumpV {
		rep.viol("r8:envs:tree-mutated", fmt.Sprintf("a tree shared by %d environments differs after the runs", n), map[string]interface{}{"setup": c14R8EnvSetup, "view": c14R8EnvView})
	}
	c.Count("r8_envs_live_at_once", n)
	c.Tag(fmt.Sprintf("r8:envs:live=%d", n))
}

func c14R8EnvsBigPkg(c *wk.Case, rep *c14R8Rep) {
	sizes := []int{255, 256, 257, 1023, 1024, 1025, 4095, 4096, 4097}
	bg := context.Background()
	defer func() {
		for _, n := range sizes {
			delete(env.Packages, fmt.Sprintf("c14r8big%d", n))
		}
	}()
	for _, n := range sizes {
		name := fmt.Sprintf("c14r8big%d", n)
		tab := make(map[string]reflect.Value, n)
		for i := 0; i < n; i++ {
			tab[fmt.Sprintf("s%d", i)] = reflect.ValueOf(int64(i) + 10000)
		}
		env.Packages[name] = tab
		var b strings.Builder
		b.WriteString("[")
		for i := 0; i < n; i++ {
			if i > 0 {
				b.WriteString(", ")
			}
			fmt.Fprintf(&b, "b.s%d", i)
		}
		b.WriteString("]\n")
		view := c14R8Parse(rep, b.String())
		if view == nil {
			return
		}
		positions := []int{0, 1, n - 1, n - 2, n / 2, 254, 255, 256, 1023, 1024, 1025, 4095, 4096}
		nenv := 40
		envs := make([]*env.Env, nenv)
		pos := make([]int, nenv)
		for j := range envs {
			envs[j] = env.NewEnv()
			pos[j] = positions[j%len(positions)]
			if pos[j] >= n || j >= len(positions)*2 {
				pos[j] = c.Rng.Intn(n)
			}
			src := fmt.Sprintf("b = import(%q)\nb.s%d = %d\n", name, pos[j], -j-1)
			if j%3 == 0 {
				// a second import into the same environment is a copy of its own
				src += fmt.Sprintf("b2 = import(%q)\nb2.s%d = 77\n", name, (pos[j]+1)%n)
			}
			if o := ank.ExecCtx(bg, envs[j], src); o.Err != nil || o.Panicked {
				rep.viol("r8:envs:import-fails", fmt.Sprintf("import of a package of %d symbols fails: %s %s", n, ank.ErrText(o.Err), o.PanicSig), map[string]interface{}{"source": src, "symbols": n})
				return
			}
		}
		for j := range envs {
			o := ank.RunCtx(bg, envs[j], view)
			c.Events(1)
			want := make([]interface{}, n)
			for i := range want {
				want[i] = int64(i) + 10000
			}
			want[pos[j]] = int64(-j - 1)
			if got, exp := ank.Render(o.Val), ank.Render(want); o.Err != nil || o.Panicked || got != exp {
				k := 0
				for k < len(got) && k < len(exp) && got[k] == exp[k] {
					k++
				}
				rep.viol("r8:envs:import-copy-not-own", fmt.Sprintf("package of %d symbols imported by %d environments, each overwrote one member: environment %d (member s%d) reads %s %s; first difference at byte %d: …%s… vs …%s…", n, nenv, j, pos[j], ank.ErrText(o.Err), o.PanicSig, k, clipStr(got[max0(k-30):], 80), clipStr(exp[max0(k-30):], 80)), map[string]interface{}{"symbols": n, "member": pos[j], "environment": j})
				break
			}
		}
		for i := 0; i < n; i++ {
			if v, ok := env.Packages[name][fmt.Sprintf("s%d", i)]; !ok || !v.IsValid() || v.Kind() != reflect.Int64 || v.Int() != int64(i)+10000 {
				rep.viol("r8:envs:package-table-changed", fmt.Sprintf("env.Packages[%q][s%d] changed after scripts wrote to their imported copies", name, i), map[string]interface{}{"symbols": n, "member": i})
				break
			}
		}
		if len(env.Packages[name]) != n {
			rep.viol("r8:envs:package-table-changed", fmt.Sprintf("env.Packages[%q] holds %d symbols, %d registered", name, len(env.Packages[name]), n), map[string]interface{}{"symbols": n})
		}
		c.Tag(fmt.Sprintf("r8:envs:package-symbols=%d", n))
		delete(env.Packages, name)
	}
}

func max0(i int) int {
	if i < 0 {
		return 0
	}
	return i
}

func c14R8EnvsCopies(c *wk.Case, rep *c14R8Rep) {
	sizes := []int{255, 256, 257, 1023, 1024, 1025, 4095, 4096, 4097}
	for _, n := range sizes {
		t := env.NewEnv()
		for i := 0; i < n; i++ {
			t.Define(fmt.Sprintf("v%d", i), int64(i))
		}
		deep := c.Rng.Intn(2) == 0
		const ncopy = 64
		copies := make([]*env.Env, ncopy)
		pos := make([]int, ncopy)
		positions := []int{0, n - 1, 254, 255, 256, 1023, 1024, 1025, 4095, 4096}
		for j := range copies {
			if deep {
				copies[j] = t.DeepCopy()
			} else {
				copies[j] = t.Copy()
			}
			pos[j] = positions[j%len(positions)]
			if pos[j] >= n || j >= 2*len(positions) {
				pos[j] = c.Rng.Intn(n)
			}
			switch j % 3 {
			case 0:
				copies[j].Define(fmt.Sprintf("v%d", pos[j]), int64(-j-1))
			case 1:
				copies[j].Set(fmt.Sprintf("v%d", pos[j]), int64(-j-1))
			default:
				if o := ank.Exec(copies[j], fmt.Sprintf("v%d = %d", pos[j], -j-1)); o.Err != nil {
					rep.viol("r8:envs:copy-assignment-fails", ank.ErrText(o.Err), nil)
				}
			}
			copies[j].Define(fmt.Sprintf("extra%d", j), int64(j))
		}
		check := func(e *env.Env, who string, own int, ownVal int64) bool {
			for i := 0; i < n; i++ {
				want := int64(i)
				if i == own {
					want = ownVal
				}
				v, err := e.Get(fmt.Sprintf("v%d", i))
				if err != nil || ank.Render(v) != fmt.Sprintf("int64(%d)", want) {
					rep.viol("r8:envs:copy-sees-foreign-or-lost-binding", fmt.Sprintf("environment of %d names, %d copies (deep=%v) each changed one name: %s reads v%d = %s (%v), expected %d", n, ncopy, deep, who, i, ank.Render(v), err, want), map[string]interface{}{"names": n, "deep": deep, "who": who, "name": i})
					return false
				}
			}
			return true
		}
		ok := check(t, "the template", -1, 0)
		for j := 0; ok && j < ncopy; j++ {
			ok = check(copies[j], fmt.Sprintf("copy %d", j), pos[j], int64(-j-1))
			for k := 0; ok && k < ncopy; k += 7 {
				if _, err := copies[j].Get(fmt.Sprintf("extra%d", k)); (err == nil) != (k == j) {
					rep.viol("r8:envs:copy-sees-foreign-or-lost-binding", fmt.Sprintf("environment of %d names: copy %d and the name extra%d defined in copy %d only: err=%v", n, j, k, k, err), map[string]interface{}{"names": n, "deep": deep})
					ok = false
				}
			}
		}
		c.Events(ncopy + 1)
		c.Tag(fmt.Sprintf("r8:envs:copied-names=%d", n))
	}
}

// ---------------------------------------------------------------------------
// phase sizes

type c14R8SizeBuilder struct {
	name string
	// src writes a read-then-mutate program over n elements; want is its value
	src  func(n int) string
	want func(n int) interface{}
}

func c14R8Seq(n int, f func(i int) string) string {
	var b strings.Builder
	for i := 0; i < n; i++ {
		if i > 0 {
			b.WriteString(", ")
		}
		b.WriteString(f(i))
	}
	return b.String()
}

var c14R8SizeBuilders = []c14R8SizeBuilder{
	{"list-literal", func(n int) string {
		return "a = [" + c14R8Seq(n, func(i int) string { return fmt.Sprint(i) }) + "]\nf = [a[0], a[len(a) - 1], a[len(a) / 2], len(a)]\na[0] = -1\na[len(a) - 1] = -2\na[len(a) / 2] = -3\na += [9]\nf\n"
	}, func(n int) interface{} {
		return []interface{}{int64(0), int64(n - 1), int64(n / 2), int64(n)}
	}},
	{"typed-slice-literal", func(n int) string {
		return "a = []int64{" + c14R8Seq(n, func(i int) string { return fmt.Sprint(i + 5) }) + "}\nf = [a[0], a[len(a) - 1], a[len(a) / 2], len(a)]\na[0] = -1\na[len(a) - 1] = -2\na[len(a) / 2] = -3\nf\n"
	}, func(n int) interface{} {
		return []interface{}{int64(5), int64(n + 4), int64(n/2 + 5), int64(n)}
	}},
	{"map-literal", func(n int) string {
		return "a = {" + c14R8Seq(n, func(i int) string { return fmt.Sprintf("\"k%d\": %d", i, i) }) + "}\nf = [a.k0, a[\"k" + fmt.Sprint(n-1) + "\"], len(a), a.extra ?? \"u\"]\na.k0 = -1\na.extra = 1\ndelete(a, \"k" + fmt.Sprint(n-1) + "\")\nf\n"
	}, func(n int) interface{} {
		return []interface{}{int64(0), int64(n - 1), int64(n), "u"}
	}},
	{"string-literal", func(n int) string {
		// multi-byte characters at every alignment: n bytes in all
		return "a = \"" + c14R8Str(n) + "\"\nb = [a]\nf = [len(a), a[0], a[len(a) - 1]]\nb[0] += \"x\"\nf\n"
	}, func(n int) interface{} {
		r := c14R8Str(n)
		return []interface{}{int64(len(r)), r[:1], r[len(r)-1:]}
	}},
	{"make-slice", func(n int) string {
		return fmt.Sprintf("a = make([]int64, %d)\nf = [a[0], a[%d], len(a)]\na[0] = 7\na[%d] = 8\nf\n", n, n-1, n-1)
	}, func(n int) interface{} {
		return []interface{}{int64(0), int64(0), int64(n)}
	}},
	{"call-arguments", func(n int) string {
		return "func f(a...) { r = [a[0], a[len(a) - 1], len(a)]\n a[0] = -1\n a[len(a) - 1] = -2\n return r }\nx = f(" + c14R8Seq(n, func(i int) string { return fmt.Sprint(i + 1) }) + ")\ny = f(" + c14R8Seq(n, func(i int) string { return fmt.Sprint(i + 1) }) + ")\n[x, y]\n"
	}, func(n int) interface{} {
		r := []interface{}{int64(1), int64(n), int64(n)}
		return []interface{}{r, r}
	}},
	{"statement-list", func(n int) string {
		var b strings.Builder
		b.WriteString("s = 0\nc = 0\n")
		for i := 0; i < n; i++ {
			fmt.Fprintf(&b, "s += %d\n", i%7)
		}
		b.WriteString("func g() { c++\n return c }\n[s, g(), g()]\n")
		return b.String()
	}, func(n int) interface{} {
		s := int64(0)
		for i := 0; i < n; i++ {
			s += int64(i % 7)
		}
		return []interface{}{s, int64(1), int64(2)}
	}},
	{"loop-rounds", func(n int) string {
		return fmt.Sprintf("a = [0, 0]\nm = {\"k\": 0}\ns = 0\nfor i = 0; i < %d; i++ { a[i %% 2] += i\n m.k++\n s += a[0] - a[1] }\n[a, m.k, s]\n", n)
	}, func(n int) interface{} {
		a := []int64{0, 0}
		s := int64(0)
		for i := 0; i < n; i++ {
			a[i%2] += int64(i)
			s += a[0] - a[1]
		}
		return []interface{}{[]interface{}{a[0], a[1]}, int64(n), s}
	}},
}

// c14R8Str: a string of n bytes made of 1-, 2-, 3- and 4-byte characters (no quote, no backslash)
func c14R8Str(n int) string {
	chars := []string{"a", "é", "€", "😀", "z"}
	var b strings.Builder
	for i := 0; b.Len() < n; i++ {
		ch := chars[i%len(chars)]
		if b.Len()+len(ch) > n {
			ch = "q"
		}
		b.WriteString(ch)
	}
	return b.String()
}

func c14R8Sizes(c *wk.Case) {
	rep := newC14R8Rep(c, "sizes")
	bld := c14R8SizeBuilders[c14R8Sub%len(c14R8SizeBuilders)]
	sizes := []int{255, 256, 257, 1023, 1024, 1025, 4095, 4096, 4097}
	if c.Tier == "thorough" {
		sizes = append(sizes, 65535, 65536, 65537, 200000, 300+c.Rng.Intn(70000))
	}
	c.Begin(map[string]interface{}{"phase": "sizes", "builder": bld.name})
	bg := context.Background()
	for _, n := range sizes {
		if n > 5000 && bld.name == "call-arguments" {
			continue
		}
		src := bld.src(n)
		tree := c14R8Parse(rep, src)
		if tree == nil {
			return
		}
		dump0 := astx.Dump(tree, c14DumpOpts)
		want := ank.Render(bld.want(n))
		for k := 1; k <= 4; k++ {
			o := ank.RunCtx(bg, ank.NewCoreEnv(), tree)
			c.Events(1)
			if got := ank.Render(o.Val); o.Err != nil || o.Panicked || got != want {
				rep.viol("r8:sizes:run-differs-from-alone:"+bld.name, fmt.Sprintf("%s of %d elements, run %d of one tree in a fresh environment: value %s %s %s; alone it yields %s", bld.name, n, k, clipStr(got, 300), ank.ErrText(o.Err), o.PanicSig, clipStr(want, 300)), map[string]interface{}{"builder": bld.name, "size": n, "run": k, "source": clipStr(src, 2000)})
				break
			}
			if k == 2 {
				runtime.GC()
			}
		}
		if d := astx.Dump(tree, c14DumpOpts); d != dump0 {
			rep.viol("r8:sizes:tree-mutated:"+firstDiffNode(dump0, d), fmt.Sprintf("%s of %d elements: the tree differs after 4 runs: %s", bld.name, n, dumpDiff(dump0, d)), map[string]interface{}{"builder": bld.name, "size": n})
		}
		c.Tag(fmt.Sprintf("r8:sizes:%s=%d", bld.name, n))
	}
	c14Canary(c, "programs with large literals")
	c.Eval(fmt.Sprintf("r8-sizes-%d-%s", c.Index, bld.name), true)
	c.Tag("r8:kind:sizes")
}
