package main

// C06 — equality is one coherent relation.
//
// Monitor: for an ordered pair of script values (a, b) the worker evaluates, each
// in its own vm.Execute, the observations
//
//	a == b    b == a    a != b    a in [b]    switch a { case b: … }
//	a <= b    a >= b                      (only when one is an int and the other a float)
//	a in [c, b]   a in [b, c]   switch a { case c: 1; case b: 2 }   switch a { case c, b: … }
//	switch a { case f, f, b, f … }   -- b at every position among >= 4 case values (separate
//	                                    cases, one multi-value case, 6 values in 3 cases), the
//	                                    others literals of b's kind whose equality with a is observed
//
// Slice operands are also supplied as views of ONE backing array (a[i:j] vs a[k:l],
// all ordered pairs of views of a dozen arrays, taken by the script, by the host, from
// a typed host slice, nested in other containers): the reference is the structural one.
// A concurrent phase (c06_ext.go) repeats comparisons on several goroutines at once:
// the outcome for a pair must be the sequentially observed one, every time.
//
// with the operands supplied as literals, as host-bound variables, as container
// elements (and, in the random phase, through script variables, map members,
// function results and elements of typed host slices). The oracle is evaluated on
// the OBSERVED booleans:
//
//	sym     (a==b) = (b==a)
//	neg     (a!=b) = !(a==b)
//	in      (a in [b]) = (a==b)              switch likewise
//	lege    int vs float:  (a==b) = (a<=b && a>=b)     -- both sides observed
//	same    two values of one primitive type: Go's ==
//	nil     nil equals nil and nothing else
//	strnum  string vs number: equal exactly when the string is a decimal numeral
//	        [-]digits[.digits][e[+-]digits] denoting that number
//	struct  containers compare structurally
//	prov    the answer for one pair of values does not depend on how the operands
//	        were supplied (equality is a relation on values)
//
// Where the statement is silent the reference is "unspecified" and only the
// algebraic laws (sym/neg/in/switch/prov) are checked:
//   - a bool against a non-bool, non-nil value (coercions not specified);
//   - strings that Go's parsers accept but that are not decimal numerals
//     ("0x10", "inf", "+5", "1_0", ".5", "5.", "1E6", …);
//   - numerals whose exact value and whose float64-rounded value give different
//     answers ("9007199254740992.0" vs the int 2^53+1; "9007199254740993" vs the
//     float 2^53; underflowing numerals against the float 0). A numeral that
//     overflows float64 denotes a finite number and equals no float, in particular
//     neither infinity;
//   - container leaves of different primitive types that would be equal under
//     the cross-type rules ([1] vs [1.0], [1] vs ["1"]); NaN leaves (reflexivity
//     exemption).
//
// Signatures: <law>:<kind[class]>,<kind[class]>:<observed pattern>; the class of a
// number is its magnitude band (0, -0, <1e6, <2^53, >=2^53, inexact = int64 not
// representable as float64, frac, inf, nan), of a string its spelling (int,
// frac, exp, goparse, nonnum; long-frac, long-exp, long-int beyond 100 characters).
// Phases long and again: see c06_r5.go. Phases inf and typed: see c06_r6.go.
// Phases ptr and uns (pointer operands; host integers of other Go types, unsigned values up to
// 2^64-1): see c06_r7.go. Phases stream, hot, big and crowd (volume and history): see c06_r8.go.

import (
	"fmt"
	"math"
	"math/big"
	"regexp"
	"sort"
	"strconv"
	"strings"

	"github.com/mattn/anko/env"

	"verifharness/internal/ank"
	"verifharness/internal/fw"
	"verifharness/internal/wk"
)

// ---------------------------------------------------------------------------
// value model

type c06V struct {
	k    byte // 'n' nil, 'b' bool, 'i' int64, 'f' float64, 's' string, 'L' slice, 'M' map (string keys); c06_r7.go: 'u' host integer of another Go type, 'P' pointer
	b    bool
	i    int64
	f    float64
	s    string
	el   []c06V   // slice elements / map values (parallel to keys)
	keys []string // map keys
	u    uint64   // 'u': the value of an unsigned host integer (signed ones use i)
	w    byte     // 'u': index into c06HostInts (the Go type); 'P': 0 = pointer to an interface cell, 1 = pointer to a typed slot (pointee: el[0])

	keyCache string
}

func c06Nil() c06V         { return c06V{k: 'n'} }
func c06B(b bool) c06V     { return c06V{k: 'b', b: b} }
func c06I(i int64) c06V    { return c06V{k: 'i', i: i} }
func c06F(f float64) c06V  { return c06V{k: 'f', f: f} }
func c06S(s string) c06V   { return c06V{k: 's', s: s} }
func c06L(el ...c06V) c06V { return c06V{k: 'L', el: el} }
func c06M(kv ...interface{}) c06V {
	v := c06V{k: 'M'}
	for j := 0; j+1 < len(kv); j += 2 {
		v.keys = append(v.keys, kv[j].(string))
		v.el = append(v.el, kv[j+1].(c06V))
	}
	return v
}

func (v c06V) goVal() interface{} {
	switch v.k {
	case 'u', 'P':
		return c06GoValR7(v)
	case 'n':
		return nil
	case 'b':
		return v.b
	case 'i':
		return v.i
	case 'f':
		return v.f
	case 's':
		return v.s
	case 'L':
		out := make([]interface{}, len(v.el))
		for j, e := range v.el {
			out[j] = e.goVal()
		}
		return out
	}
	out := map[interface{}]interface{}{}
	for j, k := range v.keys {
		out[k] = v.el[j].goVal()
	}
	return out
}

// literal spelling; style selects the float spelling (0: exponent form, 1:
// positional form when short enough). ok=false when the value has no literal.
func (v c06V) lit(style int) (string, bool) {
	switch v.k {
	case 'u', 'P':
		return "", false // only the host hands in other integer types; a pointer is made by statements (c06_r7.go)
	case 'n':
		return "nil", true
	case 'b':
		return strconv.FormatBool(v.b), true
	case 'i':
		s := strconv.FormatInt(v.i, 10)
		if v.i < 0 {
			return "(" + s + ")", true
		}
		return s, true
	case 'f':
		if math.IsNaN(v.f) || math.IsInf(v.f, 0) {
			return "", false
		}
		s := strconv.FormatFloat(v.f, 'e', -1, 64)
		if a := math.Abs(v.f); style == 1 && (a == 0 || (a >= 1e-6 && a < 1e18)) {
			s = strconv.FormatFloat(v.f, 'f', -1, 64)
			if !strings.Contains(s, ".") {
				s += ".0"
			}
		}
		if s[0] == '-' {
			return "(" + s + ")", true
		}
		return s, true
	case 's':
		for _, r := range v.s {
			if r < 0x20 || r == 0x7f || r == '\\' {
				return "", false // keep clear of escape-sequence dialect differences
			}
		}
		return `"` + strings.ReplaceAll(v.s, `"`, `\"`) + `"`, true
	case 'L':
		parts := make([]string, len(v.el))
		for j, e := range v.el {
			s, ok := e.lit(style)
			if !ok {
				return "", false
			}
			parts[j] = s
		}
		return "[" + strings.Join(parts, ", ") + "]", true
	}
	parts := make([]string, len(v.el))
	for j, e := range v.el {
		s, ok := e.lit(style)
		if !ok {
			return "", false
		}
		parts[j] = strconv.Quote(v.keys[j]) + ": " + s
	}
	return "{" + strings.Join(parts, ", ") + "}", true
}

func (v *c06V) key() string {
	if v.keyCache == "" {
		if v.k == 'u' || v.k == 'P' {
			v.keyCache = c06KeyR7(*v)
		} else {
			v.keyCache = ank.Render(v.goVal())
		}
	}
	return v.keyCache
}

func (v c06V) kind() string {
	switch v.k {
	case 'n':
		return "nil"
	case 'b':
		return "bool"
	case 'i':
		return "int"
	case 'f':
		return "float"
	case 's':
		return "string"
	case 'L':
		return "slice"
	case 'u':
		return c06HostInts[v.w].label
	case 'P':
		return "ptr"
	}
	return "map"
}

func (v c06V) isNum() bool { return v.k == 'i' || v.k == 'f' }
func (v c06V) isInt() bool { return v.k == 'i' || v.k == 'u' }

func c06IntExact(i int64) bool {
	bi, _ := new(big.Float).SetFloat64(float64(i)).Int(nil)
	return bi.Cmp(big.NewInt(i)) == 0
}

func c06MagBand(a float64) string {
	switch {
	case a < 1e6:
		return "<1e6"
	case a < 1<<53:
		return "<2^53"
	}
	return ">=2^53"
}

// desc = kind[class]; the class keeps defects apart that depend on magnitude or spelling.
func (v c06V) desc() string {
	switch v.k {
	case 'i':
		switch {
		case v.i == 0:
			return "int[0]"
		case !c06IntExact(v.i):
			return "int[inexact]"
		}
		return "int[" + c06MagBand(math.Abs(float64(v.i))) + "]"
	case 'f':
		switch {
		case math.IsNaN(v.f):
			return "float[nan]"
		case math.IsInf(v.f, 0):
			return "float[inf]"
		case v.f == 0 && math.Signbit(v.f):
			return "float[-0]"
		case v.f == 0:
			return "float[0]"
		case v.f != math.Trunc(v.f):
			return "float[frac]"
		}
		return "float[" + c06MagBand(math.Abs(v.f)) + "]"
	case 's':
		return "string[" + c06Spelling(v.s) + "]"
	case 'u', 'P':
		return c06DescR7(v)
	}
	return v.kind()
}

// ---------------------------------------------------------------------------
// reference rules (from the statement)

type c06Tri int8

const (
	c06False  c06Tri = 0
	c06True   c06Tri = 1
	c06Unspec c06Tri = 2
)

func c06T(b bool) c06Tri {
	if b {
		return c06True
	}
	return c06False
}

func (t c06Tri) String() string { return [...]string{"false", "true", "unspecified"}[t] }

var c06LenientDecimalRe = regexp.MustCompile(`^[+-]?([0-9]+\.?[0-9]*|\.[0-9]+)([eE][+-]?[0-9]+)?$`)
var c06NumeralRe = regexp.MustCompile(`^-?[0-9]+(\.[0-9]+)?(e[+-]?[0-9]+)?$`)
var c06IntSpelledRe = regexp.MustCompile(`^-?[0-9]+$`)

// strings some Go numeric parser accepts (or rejects only for range) although
// they are not decimal numerals of the statement's grammar: unspecified.
func c06GoParses(s string) bool {
	okOrRange := func(err error) bool {
		if err == nil {
			return true
		}
		ne, isNE := err.(*strconv.NumError)
		return isNE && ne.Err == strconv.ErrRange
	}
	if _, err := strconv.ParseFloat(s, 64); okOrRange(err) {
		return true
	}
	if _, err := strconv.ParseInt(s, 0, 64); okOrRange(err) {
		return true
	}
	if _, err := strconv.ParseUint(s, 0, 64); okOrRange(err) {
		return true
	}
	t := strings.TrimPrefix(strings.TrimPrefix(s, "-"), "+")
	for _, p := range []struct {
		pre  string
		base int
	}{{"0x", 16}, {"0X", 16}, {"0b", 2}, {"0B", 2}, {"0o", 8}, {"0O", 8}} {
		if strings.HasPrefix(t, p.pre) {
			if _, err := strconv.ParseInt(t[2:], p.base, 64); okOrRange(err) {
				return true
			}
		}
	}
	return false
}

func c06Spelling(s string) string {
	if c06NumeralRe.MatchString(s) {
		long := ""
		if len(s) > 100 {
			long = "long-" // numerals of more than 100 characters (phase long): a class of their own
		}
		switch {
		case strings.Contains(s, "e"):
			return long + "exp"
		case strings.Contains(s, "."):
			return long + "frac"
		}
		return long + "int"
	}
	if c06GoParses(s) {
		return "goparse"
	}
	return "nonnum"
}

// exact rational value of a decimal numeral; ok=false when the exponent is too
// large to be worth expanding (such numerals are left unspecified). Numerals of
// up to 40000 characters and exponents up to +-20000 are expanded exactly.
func c06NumeralRat(s string) (*big.Rat, bool) {
	if j := strings.IndexByte(s, 'e'); j >= 0 {
		ex, err := strconv.Atoi(s[j+1:])
		if err != nil || ex > 20000 || ex < -20000 {
			return nil, false
		}
	}
	if len(s) > 40000 {
		return nil, false
	}
	r, ok := new(big.Rat).SetString(s)
	return r, ok
}

// c06PendingFix_float800: a float64 against a numeral whose mantissa has more than
// 800 digits before the point / exponent (leading zeros not counted), e.g.
// "1" + 1000 zeros + "e-1000" == 1.0: mattn/anko answers false although the numeral
// denotes 1 (and answers true for the int64 1): vm/vmToX.go tryToFloat64 parses with
// strconv.ParseFloat, which keeps 800 digits and does not count the integer digits
// behind them (the value comes out as 1e-201). Reported in
// /tmp/strengthen/C06-r5-genuine.md; until /repo is repaired the reference rule is not
// applied to exactly this class (the laws sym/neg/in/switch/prov still are). Flip to
// false after the repair: the reference is then the correctly rounded exact value.
const c06PendingFix_float800 = false

// more than 800 significant digits in front of the point or exponent
func c06Over800IntDigits(s string) bool {
	t := strings.TrimLeft(strings.TrimPrefix(s, "-"), "0")
	n := 0
	for n < len(t) && t[n] >= '0' && t[n] <= '9' {
		n++
	}
	return n > 800
}

// "the string is a decimal numeral denoting that number".
func c06StrNum(s string, n c06V) c06Tri {
	if !c06NumeralRe.MatchString(s) {
		if c06GoParses(s) && c06LenientDecimalRe.MatchString(s) {
			return c06Unspec // "+5", "1E6", ".5", "5.": decimal, but a spelling the statement's "decimal numeral" may or may not include
		}
		// "0x10", "0b1", "inf", "NaN", "1_0", "0x1p4": accepted by strconv but not decimal numerals — never equal to a number
		return c06False
	}
	r, ok := c06NumeralRat(s)
	if !ok {
		return c06Unspec
	}
	pf, perr := strconv.ParseFloat(s, 64)
	over800 := c06Over800IntDigits(s)
	if over800 {
		// strconv keeps 800 digits and stops counting the integer digits behind them:
		// the correctly rounded value comes from the exact rational instead
		pf, _ = r.Float64()
		perr = nil
		if math.IsInf(pf, 0) {
			perr = strconv.ErrRange
		}
	}
	if n.k == 'i' || n.k == 'u' {
		nr, nf := new(big.Rat).SetInt64(n.i), float64(n.i)
		if n.k == 'u' { // a host integer of another Go type (c06_r7.go): the same rule on its mathematical value
			bi := c06HostIntBig(n)
			nr = new(big.Rat).SetInt(bi)
			nf, _ = new(big.Float).SetInt(bi).Float64()
		}
		exactEq := r.Cmp(nr) == 0
		if c06IntSpelledRe.MatchString(s) || exactEq {
			return c06T(exactEq) // strconv.ParseInt reference: exact
		}
		if perr == nil && pf == nf && r.IsInt() {
			return c06Unspec // another integer that is equal only after rounding to float64
		}
		return c06False // a numeral with a non-zero fraction denotes no integer, however small the fraction
	}
	// float
	if over800 && c06PendingFix_float800 {
		return c06Unspec // see c06PendingFix_float800: laws only for now
	}
	switch {
	case math.IsNaN(n.f):
		return c06False // no numeral denotes NaN
	case math.IsInf(n.f, 0):
		// no decimal numeral denotes an infinity: a numeral beyond the float64 range
		// ("1e400", "2e308", a 310-digit integer, "1" + 1200 zeros + "e-600") is a
		// well-formed numeral of a finite number that float64 cannot hold, and every
		// other string is not equal to +-Inf either (phase inf, c06_r6.go)
		return c06False
	}
	exactEq := r.Cmp(new(big.Rat).SetFloat64(n.f)) == 0
	if exactEq {
		return c06True
	}
	if perr != nil || pf != n.f {
		return c06False
	}
	// equal after correct rounding only: the ordinary sense in which "0.1"
	// denotes the float 0.1 — except the borderline spellings below.
	if c06IntSpelledRe.MatchString(s) || (pf == 0 && r.Sign() != 0) {
		return c06Unspec
	}
	return c06True
}

func c06And(a, b c06Tri) c06Tri {
	switch {
	case a == c06False || b == c06False:
		return c06False
	case a == c06Unspec || b == c06Unspec:
		return c06Unspec
	}
	return c06True
}

// structural comparison; leaves of different primitive types are "unspecified"
// unless they differ under every reading.
func c06Struct(a, b c06V) c06Tri {
	if c06IsR7(a) || c06IsR7(b) {
		return c06StructR7(a, b)
	}
	ac, bc := a.k == 'L' || a.k == 'M', b.k == 'L' || b.k == 'M'
	switch {
	case a.k == 'n' || b.k == 'n':
		return c06T(a.k == b.k)
	case ac && bc:
		if a.k != b.k {
			return c06False
		}
		if a.k == 'L' {
			if len(a.el) != len(b.el) {
				return c06False
			}
			r := c06True
			for j := range a.el {
				r = c06And(r, c06Struct(a.el[j], b.el[j]))
			}
			return r
		}
		if len(a.keys) != len(b.keys) {
			return c06False
		}
		r := c06True
		for j, k := range a.keys {
			found := false
			for l, k2 := range b.keys {
				if k == k2 {
					found = true
					r = c06And(r, c06Struct(a.el[j], b.el[l]))
				}
			}
			if !found {
				return c06False
			}
		}
		return r
	case ac || bc:
		o := a
		if ac {
			o = b
		}
		if o.k == 'b' {
			return c06Unspec // bool coercions are not specified
		}
		return c06False // a container is never structurally equal to a number or string
	}
	// two primitive leaves
	if a.k == b.k {
		switch a.k {
		case 'b':
			return c06T(a.b == b.b)
		case 'i':
			return c06T(a.i == b.i)
		case 'f':
			if math.IsNaN(a.f) && math.IsNaN(b.f) {
				return c06Unspec // NaN is exempt from reflexivity; identical containers may compare equal
			}
			return c06T(a.f == b.f)
		}
		return c06T(a.s == b.s)
	}
	if a.k == 'b' || b.k == 'b' {
		return c06Unspec
	}
	if a.isNum() && b.isNum() {
		i, f := a, b
		if a.k == 'f' {
			i, f = b, a
		}
		if float64(i.i) == f.f {
			return c06Unspec // [1] vs [1.0]: excluded (DESIGN C06)
		}
		return c06False
	}
	s, n := a, b
	if b.k == 's' {
		s, n = b, a
	}
	if c06StrNum(s.s, n) == c06False {
		return c06False
	}
	return c06Unspec
}

// c06Ref: the verdict the statement prescribes for a == b, and the rule it comes from.
func c06Ref(a, b c06V) (c06Tri, string) {
	if c06IsR7(a) || c06IsR7(b) {
		return c06RefR7(a, b)
	}
	ac, bc := a.k == 'L' || a.k == 'M', b.k == 'L' || b.k == 'M'
	switch {
	case a.k == 'n' || b.k == 'n':
		return c06T(a.k == b.k), "nil"
	case ac || bc:
		return c06Struct(a, b), "struct"
	case a.k == 'b' && b.k == 'b':
		return c06T(a.b == b.b), "same"
	case a.k == 'b' || b.k == 'b':
		return c06Unspec, "bool"
	case a.k == b.k:
		switch a.k {
		case 'i':
			return c06T(a.i == b.i), "same"
		case 'f':
			return c06T(a.f == b.f), "same"
		}
		return c06T(a.s == b.s), "same"
	case a.isNum() && b.isNum():
		return c06Unspec, "lege" // decided by the observed <= and >=
	case a.k == 's':
		return c06StrNum(a.s, b), "strnum"
	}
	return c06StrNum(b.s, a), "strnum"
}

// exact mathematical equality of an int and a float (reported next to the
// observed <=/>= so that the float64-rounding class stays visible).
func c06ExactNumEq(a, b c06V) (bool, bool) {
	if !(a.isNum() || a.k == 'u') || !(b.isNum() || b.k == 'u') {
		return false, false
	}
	rat := func(v c06V) *big.Rat {
		if v.k == 'i' {
			return new(big.Rat).SetInt64(v.i)
		}
		if v.k == 'u' {
			return new(big.Rat).SetInt(c06HostIntBig(v))
		}
		if math.IsNaN(v.f) || math.IsInf(v.f, 0) {
			return nil
		}
		return new(big.Rat).SetFloat64(v.f)
	}
	ra, rb := rat(a), rat(b)
	if ra == nil || rb == nil {
		if a.k == 'f' && b.k == 'f' {
			return a.f == b.f, true
		}
		return false, true
	}
	return ra.Cmp(rb) == 0, true
}

// ---------------------------------------------------------------------------
// observation

type c06Obs struct {
	ok  bool
	v   bool
	n   int64 // integer result (multi-case switch)
	src string
	got string
}

type c06Run struct {
	c        *wk.Case
	reported map[string]bool      // per case: each signature once, the rest counted
	fcache   map[string][2][]bool // wide switches: observed subject == filler, per (prelude, subject expression, subject value)
}

func (r *c06Run) viol(sig, detail string, input interface{}) {
	if r.reported[sig] {
		r.c.Count("violations_suppressed_as_duplicates_within_case", 1)
		return
	}
	r.reported[sig] = true
	r.c.Violation(sig, detail, input)
}

// exec runs one script and returns the observed boolean (or int for wantInt).
func (r *c06Run) exec(e *env.Env, src, hkey string, wantInt bool) c06Obs {
	o := ank.Exec(e, src)
	r.c.Eval(src+"\x00"+hkey, true)
	r.c.Events(1)
	ob := c06Obs{src: src}
	switch {
	case o.Panicked:
		ob.got = "panic: " + o.PanicVal
	case o.Err != nil:
		ob.got = "error: " + o.Err.Error()
	default:
		switch g := o.Val.(type) {
		case bool:
			if !wantInt {
				ob.ok, ob.v = true, g
			}
		case int64:
			if wantInt {
				ob.ok, ob.n = true, g
			}
		}
		ob.got = ank.Render(o.Val)
	}
	return ob
}

type c06Pair struct {
	a, b   c06V
	A, B   string // operand expressions
	pre    string // statements run before the expression
	bind   func(e *env.Env)
	mode   string
	bindsS map[string]string // rendered bindings for the witness
}

func (p *c06Pair) input(obs map[string]c06Obs) map[string]interface{} {
	m := map[string]interface{}{"a": p.a.key(), "b": p.b.key(), "mode": p.mode, "A": p.A, "B": p.B}
	if p.pre != "" {
		m["prelude"] = p.pre
	}
	if len(p.bindsS) > 0 {
		m["bindings"] = p.bindsS
	}
	ob := map[string]string{}
	for k, o := range obs {
		ob[k+": "+o.src] = o.got
	}
	m["observed"] = ob
	return m
}

var c06Forms = []struct{ name, f string }{
	{"eq", "%[1]s == %[2]s"},
	{"qe", "%[2]s == %[1]s"},
	{"ne", "%[1]s != %[2]s"},
	{"in", "%[1]s in [%[2]s]"},
	{"sw", "switch %[1]s { case %[2]s: true; default: false }"},
}

// observe evaluates all forms of one pair under one way of supplying operands,
// judges the laws and the reference rules, and returns the observed a == b.
func (r *c06Run) observe(base *env.Env, p *c06Pair) map[string]c06Obs {
	c := r.c
	e := base.NewEnv()
	if p.bind != nil {
		p.bind(e)
	}
	hkey := p.mode + "\x00" + p.a.key() + "\x00" + p.b.key()
	c.Begin(map[string]interface{}{"a": p.a.key(), "b": p.b.key(), "mode": p.mode, "A": p.A, "B": p.B, "prelude": p.pre})
	obs := map[string]c06Obs{}
	for _, f := range c06Forms {
		obs[f.name] = r.exec(e, p.pre+fmt.Sprintf(f.f, p.A, p.B), hkey, false)
	}
	// an integer (int64 or a host integer of another Go type) against a float
	mixed := (p.a.k == 'f' && p.b.isInt()) || (p.a.isInt() && p.b.k == 'f')
	if mixed {
		obs["le"] = r.exec(e, p.pre+p.A+" <= "+p.B, hkey, false)
		obs["ge"] = r.exec(e, p.pre+p.A+" >= "+p.B, hkey, false)
	}
	da, db := p.a.desc(), p.b.desc()
	pairD := da + "," + db
	c.Tag("pair:" + p.a.kind() + "," + p.b.kind())
	if !strings.Contains(p.mode, "/") {
		c.Tag("mode:" + p.mode)
	}

	// every form must yield a boolean: the relation is total on the quantified values
	allOK := true
	for _, f := range []string{"eq", "qe", "ne", "in", "sw", "le", "ge"} {
		o, present := obs[f]
		if present && !o.ok {
			allOK = false
			r.viol("noresult:"+f+":"+pairD, fmt.Sprintf("%s gave %s instead of a boolean", o.src, o.got), p.input(obs))
		}
	}
	if !allOK {
		return nil
	}
	E, Q, N, I, S := obs["eq"].v, obs["qe"].v, obs["ne"].v, obs["in"].v, obs["sw"].v
	in := func() interface{} { return p.input(obs) }

	if E != Q {
		x, y, tl := da, db, da
		if !E {
			tl = db
		}
		if y < x {
			x, y = y, x
		}
		r.viol("sym:"+x+"~"+y+":true-with-lhs="+tl,
			fmt.Sprintf("== is not symmetric: (%s) = %v but (%s) = %v", obs["eq"].src, E, obs["qe"].src, Q), in())
	}
	if N != !E {
		r.viol(fmt.Sprintf("neg:%s:eq=%v,ne=%v", pairD, E, N),
			fmt.Sprintf("!= is not the negation of ==: (%s) = %v and (%s) = %v", obs["eq"].src, E, obs["ne"].src, N), in())
	}
	// `in` and switch must use the same relation. When == itself is asymmetric
	// for this pair (reported above) either operand order is accepted.
	if E == Q && I != E {
		r.viol(fmt.Sprintf("in:%s:eq=%v,in=%v", pairD, E, I),
			fmt.Sprintf("membership disagrees with ==: (%s) = %v but (%s) = %v", obs["eq"].src, E, obs["in"].src, I), in())
	}
	if E == Q && S != E {
		r.viol(fmt.Sprintf("switch:%s:eq=%v,switch=%v", pairD, E, S),
			fmt.Sprintf("switch matching disagrees with ==: (%s) = %v but (%s) = %v", obs["eq"].src, E, obs["sw"].src, S), in())
	}
	if mixed {
		lege := obs["le"].v && obs["ge"].v
		exact, _ := c06ExactNumEq(p.a, p.b)
		if lege != exact {
			c.Count("intfloat_pairs_where_observed_le_ge_differ_from_exact_math", 1)
		}
		c.Tag(fmt.Sprintf("lege:%s:%v", pairD, lege))
		if E != lege {
			r.viol(fmt.Sprintf("lege:%s:eq=%v,lege=%v", pairD, E, lege),
				fmt.Sprintf("int/float: (%s) = %v but (%s) = %v and (%s) = %v [exact mathematical equality: %v]",
					obs["eq"].src, E, obs["le"].src, obs["le"].v, obs["ge"].src, obs["ge"].v, exact), in())
		}
	}
	want, rule := c06Ref(p.a, p.b)
	c.Tag("rule:" + rule + ":" + want.String())
	if want != c06Unspec && E != (want == c06True) {
		r.viol(fmt.Sprintf("%s:%s:got=%v", rule, pairD, E),
			fmt.Sprintf("rule %q: (%s) = %v, the statement prescribes %v for %s vs %s", rule, obs["eq"].src, E, want, p.a.key(), p.b.key()), in())
	}
	if c.WantSample() {
		s := p.input(obs)
		s["reference"] = rule + ":" + want.String()
		if mixed {
			s["reference"] = "lege: a==b must equal the observed (a<=b && a>=b)"
		}
		c.Sample(s)
	}
	return obs
}

// multi: membership in a longer list and multi-case switches are the
// existential closure of the same relation. cv is a third value.
func (r *c06Run) multi(base *env.Env, a, b, cv c06V) {
	c := r.c
	e := base.NewEnv()
	e.Define("x", a.goVal())
	e.Define("y", b.goVal())
	e.Define("z", cv.goVal())
	hkey := "multi\x00" + a.key() + "\x00" + b.key() + "\x00" + cv.key()
	obs := map[string]c06Obs{}
	for _, f := range []struct {
		name, src string
		n         bool
	}{
		{"xy", "x == y", false}, {"yx", "y == x", false}, {"xz", "x == z", false}, {"zx", "z == x", false},
		{"in_zy", "x in [z, y]", false}, {"in_yz", "x in [y, z]", false}, {"in_zzy", "x in [z, z, y]", false},
		{"sw2", "switch x { case z: 1; case y: 2; default: 0 }", true},
		{"swl", "switch x { case z, y: true; default: false }", false},
		{"swd", "switch x { case z: false; default: false; case y: true }", false},
	} {
		obs[f.name] = r.exec(e, f.src, hkey, f.n)
	}
	c.Tag("mode:multi")
	inp := func() interface{} {
		ob := map[string]string{}
		for k, o := range obs {
			ob[k+": "+o.src] = o.got
		}
		return map[string]interface{}{"x": a.key(), "y": b.key(), "z": cv.key(), "observed": ob}
	}
	for k, o := range obs {
		if !o.ok {
			r.viol("noresult:multi:"+k, fmt.Sprintf("%s gave %s", o.src, o.got), inp())
			return
		}
	}
	XY, YX, XZ, ZX := obs["xy"].v, obs["yx"].v, obs["xz"].v, obs["zx"].v
	// expected under either operand order (an asymmetric == is reported elsewhere)
	any1, any2 := XZ || XY, ZX || YX
	for _, k := range []string{"in_zy", "in_yz", "in_zzy"} {
		if g := obs[k].v; g != any1 && g != any2 {
			r.viol(fmt.Sprintf("in-list:%s:x==z=%v,x==y=%v,got=%v", k, XZ, XY, g),
				fmt.Sprintf("(%s) = %v but x==z is %v and x==y is %v", obs[k].src, g, XZ, XY), inp())
		}
	}
	first := func(z, y bool) int64 {
		switch {
		case z:
			return 1
		case y:
			return 2
		}
		return 0
	}
	if g := obs["sw2"].n; g != first(XZ, XY) && g != first(ZX, YX) {
		r.viol(fmt.Sprintf("switch-cases:x==z=%v,x==y=%v,got=%d", XZ, XY, g),
			fmt.Sprintf("(%s) selected %d but x==z is %v and x==y is %v", obs["sw2"].src, g, XZ, XY), inp())
	}
	if g := obs["swl"].v; g != any1 && g != any2 {
		r.viol(fmt.Sprintf("switch-caselist:x==z=%v,x==y=%v,got=%v", XZ, XY, g),
			fmt.Sprintf("(%s) = %v but x==z is %v and x==y is %v", obs["swl"].src, g, XZ, XY), inp())
	}
	// case y after a default clause still has to be matched with the same relation
	if g := obs["swd"].v; !XZ && !ZX && g != XY && g != YX {
		r.viol(fmt.Sprintf("switch-after-default:x==y=%v,got=%v", XY, g),
			fmt.Sprintf("(%s) = %v but x==y is %v", obs["swd"].src, g, XY), inp())
	}
}

// ---------------------------------------------------------------------------
// the enumerated pool

const (
	c06P53 = int64(1) << 53
)

func c06Pool() []c06V {
	p := []c06V{c06Nil(), c06B(true), c06B(false)}
	for _, i := range []int64{0, 1, -1, 2, 7, 4095, 4096, 100000, 999999, 1000000, -1000000, 123456789, 1000000000000000,
		c06P53 - 1, c06P53, c06P53 + 1, -(c06P53 + 1), math.MaxInt64, math.MaxInt64 - 1, math.MinInt64} {
		p = append(p, c06I(i))
	}
	for _, f := range []float64{0, math.Copysign(0, -1), 1, -1, 0.5, 1.5, 2, 0.1, 4096, 100000, 999999, 1000000, -1000000, 123456789, 1e15,
		float64(c06P53), float64(c06P53 + 2), -float64(c06P53 + 2), 9.223372036854775807e18, -9.223372036854775808e18, 1e21, 1e-7,
		math.MaxFloat64, 5e-324, math.Inf(1), math.Inf(-1), math.NaN()} {
		p = append(p, c06F(f))
	}
	for _, s := range []string{
		// decimal numerals: integer, fraction and exponent spellings
		"0", "-0", "1", "-1", "2", "007", "010", "1.0", "1.5", "0.5", "0.1", "1e0", "15e-1", "4096", "100000", "1e5", "999999",
		"1000000", "1000000.0", "1e6", "1e+06", "1.0e6", "-1000000", "-1e6", "123456789", "1.23456789e8", "1000000000000000", "1e15",
		"9007199254740992", "9007199254740993", "9007199254740992.0", "9223372036854775807", "-9223372036854775808", "9223372036854775808",
		"1e21", "1000000000000000000000", "1e-7", "0.0000001", "1.7976931348623157e308", "5e-324", "1e400",
		// underflows float64: denotes no integer; against the float 0 the statement is read both ways (laws only)
		"1e-400",
		// fractions far below any fixed working precision: they denote no integer
		"1.9999999999999999999999999999999999999999999999", "2.0000000000000000000000000000000000000000000001",
		"0.99999999999999999999999999999999999999999999", "1000000.000000000000000000000000000000000000000001",
		"2.0000000000000000000000000000000000000000000000",
		// not numerals under any reading
		"", "abc", "ABC", "1x", "1 2", "--1", " 1", "1 ", "true", "false", "nil", "1e", "1.2.3",
		// accepted by strconv, not decimal numerals: unspecified, laws only
		"0x10", "0b1", "inf", "NaN", "+5", "1_0", ".5", "5.", "1E6",
	} {
		p = append(p, c06S(s))
	}
	one, two := c06I(1), c06I(2)
	p = append(p,
		c06L(), c06L(one), c06L(one, two), c06L(two, one), c06L(one, one), c06L(c06F(1)), c06L(c06S("1")), c06L(c06S("a")), c06L(c06S("A")),
		c06L(c06Nil()), c06L(c06B(true)), c06L(c06L(one)), c06L(c06L(one), c06L(two)), c06L(c06L(one, two)), c06L(c06L()), c06L(c06I(1000000)), c06L(c06F(1000000)),
		c06L(c06F(math.NaN())), c06L(c06M("a", one)),
		c06M(), c06M("a", one), c06M("a", one, "b", two), c06M("b", two, "a", one), c06M("a", two), c06M("b", one), c06M("a", c06F(1)), c06M("a", c06Nil()),
		c06M("a", c06L(one)), c06M("a", c06M("b", c06Nil())), c06M("a", c06M("b", one)), c06M("A", one),
	)
	return p
}

// known-finding witnesses, exercised first in every run (all of them are also
// members of the enumerated pool; this list keeps them explicit).
var c06Witnesses = [][2]c06V{
	{c06I(1000000), c06F(1000000)},
	{c06I(100000), c06F(100000)},
	{c06I(1000000), c06S("1000000")},
	{c06S("1000000"), c06F(1000000)},
	{c06I(c06P53 + 1), c06F(float64(c06P53))},
	{c06I(0), c06F(math.Copysign(0, -1))},
	{c06I(0), c06S("-0")},
	{c06S("1e6"), c06I(1000000)},
}

// ---------------------------------------------------------------------------
// supplying operands

func c06Lit(a, b c06V, style int) *c06Pair {
	la, ok1 := a.lit(style)
	lb, ok2 := b.lit(style)
	if !ok1 || !ok2 {
		return nil
	}
	return &c06Pair{a: a, b: b, A: la, B: lb, mode: "literal"}
}

func c06Var(a, b c06V) *c06Pair {
	return &c06Pair{a: a, b: b, A: "x", B: "y", mode: "variable",
		bind:   func(e *env.Env) { e.Define("x", a.goVal()); e.Define("y", b.goVal()) },
		bindsS: map[string]string{"x": a.key(), "y": b.key()}}
}

func c06Elem(a, b c06V) *c06Pair {
	return &c06Pair{a: a, b: b, A: "xs[0]", B: "ys[0]", mode: "element",
		bind: func(e *env.Env) {
			e.Define("xs", []interface{}{a.goVal()})
			e.Define("ys", []interface{}{b.goVal()})
		},
		bindsS: map[string]string{"xs": "[" + a.key() + "]", "ys": "[" + b.key() + "]"}}
}

func (r *c06Run) fullPair(base *env.Env, a, b, third c06V) {
	c := r.c
	type res struct {
		mode string
		o    map[string]c06Obs
	}
	var all []res
	for _, p := range []*c06Pair{c06Lit(a, b, 0), c06Var(a, b), c06Elem(a, b)} {
		if p == nil {
			c.Tag("mode:literal-unavailable")
			continue
		}
		if o := r.observe(base, p); o != nil {
			all = append(all, res{p.mode, o})
			// the same relation in switches with >= 4 case values
			switch p.mode {
			case "literal": // all case values literals, b at every position
				r.wide(base, p, o, p.B, []int{0, 1, 2, 3}, true)
			case "variable": // b's case value is not a literal
				r.wide(base, p, o, p.B, []int{len(all) % 4}, false)
			}
		}
	}
	if len(all) == 0 {
		return
	}
	// a host slice used directly as the list of `in`
	{
		e := base.NewEnv()
		e.Define("x", a.goVal())
		e.Define("ys", []interface{}{b.goVal()})
		o := r.exec(e, "x in ys", "inhost\x00"+a.key()+"\x00"+b.key(), false)
		ref := all[len(all)-1].o
		E, Q := ref["eq"].v, ref["qe"].v
		inp := map[string]interface{}{"x": a.key(), "ys": "[" + b.key() + "]"}
		if !o.ok {
			r.viol("noresult:in-host-list:"+a.desc()+","+b.desc(), "x in ys gave "+o.got, inp)
		} else if E == Q && o.v != E {
			r.viol(fmt.Sprintf("in:%s,%s:eq=%v,in=%v", a.desc(), b.desc(), E, o.v),
				fmt.Sprintf("x in ys = %v with ys a host list, but (%s) = %v", o.v, ref["eq"].src, E), inp)
		}
	}
	// one relation on values: the same pair must compare the same however supplied
	for j := 1; j < len(all); j++ {
		e0, ej := all[0].o["eq"], all[j].o["eq"]
		if ej.v != e0.v {
			r.viol(fmt.Sprintf("prov:%s,%s:%s=%v,%s=%v", a.desc(), b.desc(), all[0].mode, e0.v, all[j].mode, ej.v),
				fmt.Sprintf("the same pair compares differently depending on how the operands are supplied: (%s)=%v as %s, (%s)=%v as %s",
					e0.src, e0.v, all[0].mode, ej.src, ej.v, all[j].mode),
				map[string]interface{}{"a": a.key(), "b": b.key()})
		}
	}
	r.multi(base, a, b, third)
}

// ---------------------------------------------------------------------------
// random generation

var c06RandStrings = []string{"", "a", "b", "ab", "A", "abc", "x1", "1x", " ", "1 2", "--1", "-", ".", "e", "e5", "1e", "-e1", "true", "false", "nil", "é", "日本", "0x", "1..2", "1-1", "1,5"}

func c06RandInt(rng c06Rng) int64 {
	switch rng.Intn(8) {
	case 0:
		return int64(rng.Intn(12)) - 2
	case 1:
		return int64(rng.Intn(5200)) - 100
	case 2: // power of ten neighbourhood
		v := int64(1)
		for k := rng.Intn(19); k > 0; k-- {
			v *= 10
		}
		v += int64(rng.Intn(3)) - 1
		if rng.Intn(2) == 0 {
			v = -v
		}
		return v
	case 3: // power of two neighbourhood
		v := int64(1)<<uint(rng.Intn(63)) + int64(rng.Intn(5)) - 2
		if rng.Intn(2) == 0 {
			v = -v
		}
		return v
	case 4:
		return []int64{math.MaxInt64, math.MinInt64, math.MaxInt64 - 1, math.MinInt64 + 1, c06P53, c06P53 + 1, -c06P53 - 1, 999999, 1000000, 1000001}[rng.Intn(10)]
	case 5: // random number of decimal digits
		v := rng.Int63()
		for k := rng.Intn(19); k > 0; k-- {
			v /= 10
		}
		if rng.Intn(2) == 0 {
			v = -v
		}
		return v
	case 6:
		return int64(rng.Uint64())
	}
	return int64(rng.Intn(2000000)) - 1000000
}

func c06RandFloat(rng c06Rng) float64 {
	switch rng.Intn(9) {
	case 0, 1, 2:
		return float64(c06RandInt(rng)) // integer-valued
	case 3:
		return float64(c06RandInt(rng)) + []float64{0.5, 0.25, -0.5, 0.1}[rng.Intn(4)]
	case 4:
		return []float64{0, math.Copysign(0, -1), math.Inf(1), math.Inf(-1), math.NaN(), math.MaxFloat64, -math.MaxFloat64, 5e-324, 1e21, 1e20, 1e-7, 1e-5, 0.1, 0.3, 1e6, 1e5}[rng.Intn(16)]
	case 5:
		return math.Float64frombits(rng.Uint64())
	case 6:
		return math.Pow(10, float64(rng.Intn(40)-10))
	case 7:
		return math.Ldexp(1, rng.Intn(130)-10) + float64(rng.Intn(3)-1)
	}
	return (rng.Float64() - 0.5) * math.Pow(10, float64(rng.Intn(20)))
}

// numeral spellings of a number (all inside the statement's grammar unless noted by the oracle)
func c06Spell(rng c06Rng, n c06V) string {
	if n.k == 'i' {
		s := strconv.FormatInt(n.i, 10)
		switch rng.Intn(7) {
		case 0, 1:
			return s
		case 2:
			return s + ".0"
		case 3:
			return s + "e0"
		case 4: // leading zeros
			if n.i < 0 {
				return "-00" + s[1:]
			}
			return "0" + s
		case 5: // move trailing zeros into an exponent
			t := strings.TrimRight(s, "0")
			if t == "" || t == "-" || t == s {
				return s + ".00"
			}
			return t + "e" + strconv.Itoa(len(s)-len(t))
		}
		return strconv.FormatFloat(float64(n.i), 'e', -1, 64) // may round: the oracle decides
	}
	if math.IsNaN(n.f) || math.IsInf(n.f, 0) {
		return []string{"NaN", "inf", "+Inf", "-Inf", "Infinity", "1e999"}[rng.Intn(6)]
	}
	switch rng.Intn(5) {
	case 0:
		return strconv.FormatFloat(n.f, 'e', -1, 64)
	case 1:
		if a := math.Abs(n.f); a == 0 || (a > 1e-30 && a < 1e30) {
			return strconv.FormatFloat(n.f, 'f', -1, 64)
		}
		return strconv.FormatFloat(n.f, 'g', -1, 64)
	case 2:
		return strconv.FormatFloat(n.f, 'g', -1, 64)
	case 3:
		s := strconv.FormatFloat(n.f, 'e', -1, 64)
		return strings.Replace(strings.Replace(s, "e+0", "e", 1), "e+", "e", 1)
	}
	if a := math.Abs(n.f); a < 1e18 && n.f == math.Trunc(n.f) {
		return strconv.FormatFloat(n.f, 'f', 1, 64)
	}
	return strconv.FormatFloat(n.f, 'e', 17, 64)
}

type c06Rng interface {
	Intn(int) int
	Int63() int64
	Uint64() uint64
	Float64() float64
}

func c06RandLeaf(rng c06Rng) c06V {
	switch r := rng.Intn(20); {
	case r < 1:
		return c06Nil()
	case r < 3:
		return c06B(rng.Intn(2) == 0)
	case r < 8:
		return c06I(c06RandInt(rng))
	case r < 13:
		return c06F(c06RandFloat(rng))
	case r < 17:
		if rng.Intn(2) == 0 {
			return c06S(c06Spell(rng, c06I(c06RandInt(rng))))
		}
		return c06S(c06Spell(rng, c06F(c06RandFloat(rng))))
	}
	return c06S(c06RandStrings[rng.Intn(len(c06RandStrings))])
}

func c06SmallLeaf(rng c06Rng) c06V {
	switch rng.Intn(8) {
	case 0:
		return c06Nil()
	case 1:
		return c06B(rng.Intn(2) == 0)
	case 2, 3:
		return c06I(int64(rng.Intn(3)))
	case 4:
		return c06F(float64(rng.Intn(3)) + 0.5)
	case 5:
		return c06S([]string{"", "a", "b", "A"}[rng.Intn(4)])
	}
	return c06RandLeaf(rng)
}

func c06RandContainer(rng c06Rng, depth int) c06V {
	elem := func() c06V {
		if depth > 1 && rng.Intn(3) == 0 {
			return c06RandContainer(rng, depth-1)
		}
		return c06SmallLeaf(rng)
	}
	n := rng.Intn(4)
	if rng.Intn(2) == 0 {
		v := c06V{k: 'L', el: []c06V{}}
		for j := 0; j < n; j++ {
			v.el = append(v.el, elem())
		}
		return v
	}
	v := c06V{k: 'M'}
	ks := []string{"a", "b", "c", "A"}
	off := rng.Intn(4)
	if n > 3 {
		n = 3
	}
	for j := 0; j < n; j++ {
		v.keys = append(v.keys, ks[(off+j)%4])
		v.el = append(v.el, elem())
	}
	return v
}

func c06RandValue(rng c06Rng) c06V {
	if rng.Intn(5) == 0 {
		return c06RandContainer(rng, 1+rng.Intn(3))
	}
	return c06RandLeaf(rng)
}

func c06Copy(v c06V) c06V {
	w := v
	w.keyCache = ""
	if v.el != nil {
		w.el = make([]c06V, len(v.el))
		for j := range v.el {
			w.el[j] = c06Copy(v.el[j])
		}
	}
	if v.keys != nil {
		w.keys = append([]string{}, v.keys...)
	}
	return w
}

// a value related to v: equal, equal under another type/spelling, or a near miss
func c06Derive(rng c06Rng, v c06V) c06V {
	switch v.k {
	case 'u':
		return c06DeriveU(rng, v)
	case 'P':
		return c06Copy(v)
	case 'i':
		switch rng.Intn(7) {
		case 0:
			return c06Copy(v)
		case 1, 2:
			return c06F(float64(v.i))
		case 3, 4:
			return c06S(c06Spell(rng, v))
		case 5:
			return c06I(v.i + int64(rng.Intn(3)) - 1)
		}
		return c06F(math.Nextafter(float64(v.i), math.Inf(rng.Intn(2)*2-1)))
	case 'f':
		switch rng.Intn(7) {
		case 0:
			return c06Copy(v)
		case 1, 2:
			if v.f == math.Trunc(v.f) && math.Abs(v.f) < 9.2e18 {
				return c06I(int64(v.f))
			}
			return c06S(c06Spell(rng, v))
		case 3, 4:
			return c06S(c06Spell(rng, v))
		case 5:
			return c06F(-v.f)
		}
		return c06F(math.Nextafter(v.f, math.Inf(rng.Intn(2)*2-1)))
	case 's':
		if c06NumeralRe.MatchString(v.s) {
			switch rng.Intn(5) {
			case 0, 1:
				if c06IntSpelledRe.MatchString(v.s) {
					if i, err := strconv.ParseInt(v.s, 10, 64); err == nil {
						return c06I(i)
					}
				}
				if f, err := strconv.ParseFloat(v.s, 64); err == nil {
					return c06F(f)
				}
			case 2:
				if f, err := strconv.ParseFloat(v.s, 64); err == nil {
					if rng.Intn(2) == 0 && f == math.Trunc(f) && math.Abs(f) < 9.2e18 {
						return c06I(int64(f))
					}
					return c06F(f)
				}
			case 3:
				return c06S(v.s + []string{"0", " ", "x", ".0", "e0"}[rng.Intn(5)])
			}
		}
		switch rng.Intn(4) {
		case 0:
			return c06S(strings.ToUpper(v.s))
		case 1:
			return c06S(v.s + " ")
		case 2:
			return c06B(rng.Intn(2) == 0)
		}
		return c06Copy(v)
	case 'L', 'M':
		w := c06Copy(v)
		switch rng.Intn(6) {
		case 0, 1:
			return w
		case 2: // change one leaf somewhere
			if len(w.el) > 0 {
				j := rng.Intn(len(w.el))
				w.el[j] = c06Derive(rng, w.el[j])
			}
			return w
		case 3: // drop the last element
			if len(w.el) > 0 {
				w.el = w.el[:len(w.el)-1]
				if w.k == 'M' {
					w.keys = w.keys[:len(w.keys)-1]
				}
			}
			return w
		case 4: // add an element
			if w.k == 'L' {
				w.el = append(w.el, c06SmallLeaf(rng))
			} else {
				k := "z"
				w.keys = append(w.keys, k)
				w.el = append(w.el, c06SmallLeaf(rng))
			}
			return w
		}
		// reorder: changes a slice, not a map
		if len(w.el) > 1 {
			w.el[0], w.el[len(w.el)-1] = w.el[len(w.el)-1], w.el[0]
			if w.k == 'M' {
				w.keys[0], w.keys[len(w.keys)-1] = w.keys[len(w.keys)-1], w.keys[0]
			}
		}
		return w
	case 'b':
		switch rng.Intn(4) {
		case 0:
			return c06B(!v.b)
		case 1:
			return c06S(strconv.FormatBool(v.b))
		case 2:
			return c06I(int64(rng.Intn(2)))
		}
		return c06Copy(v)
	}
	switch rng.Intn(5) {
	case 0:
		return c06L()
	case 1:
		return c06M()
	case 2:
		return c06S("")
	case 3:
		return c06I(0)
	}
	return c06Nil()
}

// supply chooses a provenance for one operand and returns its expression.
func c06Supply(rng c06Rng, v c06V, n string, pre *strings.Builder, binds map[string]interface{}) (expr, how string) {
	style := rng.Intn(2)
	l, hasLit := v.lit(style)
	for {
		switch rng.Intn(9) {
		case 0:
			if hasLit {
				return l, "literal"
			}
		case 1:
			binds[n] = v.goVal()
			return n, "variable"
		case 2:
			if hasLit {
				pre.WriteString(n + "v = " + l + "; ")
				return n + "v", "scriptvar"
			}
		case 3:
			binds[n+"s"] = []interface{}{c06Nil().goVal(), v.goVal()}
			return n + "s[1]", "element"
		case 4:
			binds[n+"m"] = map[interface{}]interface{}{"k": v.goVal()}
			if rng.Intn(2) == 0 {
				return n + "m.k", "member"
			}
			return n + `m["k"]`, "member"
		case 5:
			binds[n] = v.goVal()
			return "func(){ return " + n + " }()", "funcresult"
		case 6:
			if hasLit {
				return "[" + l + "][0]", "scriptelement"
			}
		case 7: // element of a typed host slice (an addressable int64/float64/string/bool)
			switch v.k {
			case 'i':
				binds[n+"t"] = []int64{0, v.i}
			case 'f':
				binds[n+"t"] = []float64{0, v.f}
			case 's':
				binds[n+"t"] = []string{"", v.s}
			case 'b':
				binds[n+"t"] = []bool{false, v.b}
			default:
				continue
			}
			return n + "t[1]", "typedelement"
		case 8:
			if hasLit {
				pre.WriteString(n + "c = {\"k\": [" + l + "]}; ")
				return n + "c.k[0]", "scriptnested"
			}
		}
	}
}

func c06RenderBinds(b map[string]interface{}) map[string]string {
	m := map[string]string{}
	ks := make([]string, 0, len(b))
	for k := range b {
		ks = append(ks, k)
	}
	sort.Strings(ks)
	for _, k := range ks {
		m[k] = ank.Render(b[k])
	}
	return m
}

// ---------------------------------------------------------------------------

func init() {
	pool := c06Pool()
	n := len(pool)
	viewBases := c06ViewBases()
	nViews := len(viewBases)
	wk.Register(&wk.Engine{
		ID: "C06",
		Plan: func(tier string) fw.Plan {
			nRand, nConc, nLong, nAgain := 400, 12, 30, 56
			nInf, nTyped := 16, 32
			nPtr, nUns := 6, 8
			if tier == "thorough" {
				nRand, nConc, nLong, nAgain = 25000, 300, 1500, 3000
				nInf, nTyped = 1200, 4000
				nPtr, nUns = 1500, 2000
			}
			return fw.Plan{
				Level: "exploration",
				Rule: fmt.Sprintf("phase enum: ALL %d ordered pairs of a pool of %d values (nil, booleans, boundary int64 incl. 10^5, 10^6, 10^15, 2^53±1, ±2^63; boundary float64 incl. ±0, 1e5, 1e6, 2^53, 1e21, ±Inf, NaN; "+
					"decimal-numeral strings in integer/fraction/exponent spelling, non-numerals, strconv-only spellings; nested slices and maps), each observed as a==b, b==a, a!=b, a in [b], switch a {case b}, (a<=b, a>=b for int/float) "+
					"with operands as literals, host variables and container elements, plus list membership / multi-case switch with a third value, plus switches over >= 4 case values "+
					"(b at every position among literal case values of its kind: 4 separate cases, one 4-value case, 6 values in 3 cases; expectation from the observed a==b and a==filler); "+
					"then ALL ordered pairs of views [i:j] of each of %d backing arrays (same start/different length, different start/equal elements, empty tails) taken by the script, by the host, "+
					"from a typed host slice and nested in containers; complete enumeration every run. "+
					"phase rand: 40 PRNG pairs per case (70%% related: retyped, respelled, neighbouring, one-leaf-changed), operands supplied through a random provenance "+
					"(literal, host variable, script variable, slice element, map member, function result, typed host slice element, nested script container), judged in both operand orders. "+
					"Each rand case also takes 6 random view pairs of random arrays and one wide switch per pair. "+
					"phase conc: 4 or 8 goroutines, each with its own environment and 3 pairs (its own integer vs an exact fraction/exponent numeral of it, vs the numeral of another goroutine's integer, and a random pair), "+
					"count the outcomes of ==, both orders, !=, in, switch and a 4-value switch over 1500 iterations in one vm.Execute or 30 short ones; every count must be iterations x the outcome observed sequentially beforehand (no timing in the verdict). "+
					"phase long: first %d enumerated cases = %d integers (0, +-1, +-2, 7, 999999, +-10^6, 2^53+1, MaxInt64, MinInt64) x %d lengths L from 40 to 3000 characters x %d spellings "+
					"(exact / 10^-L above / 10^-L below the integer as a fraction, with the zeros moved into a negative exponent, shifted behind '0.000' with a positive exponent, in scientific form, "+
					"one digit changed deep in the fraction, a half, L leading zeros), as literals and host variables in both operand orders (every 11th pair with the full set of observations), "+
					"the float64 of the integer against a third of them; then PRNG cases of 12 pairs (random int64, log-uniform L in 30..8000, random spelling, random provenance). Reference: exact math/big.Rat value of the numeral as written. "+
					"phase again: 8 scenarios per case; one `in` expression, one ==/!= per element and one switch are evaluated 3..7 times from the same syntax nodes "+
					"(C-style loop body, for-in body, functions called once per round, one parsed tree run once per round with new bindings) while the operand values change per round; "+
					"the varying operand (v, vs[i], m.k, g(), (v), a parameter) sits in the list of `in` / the case list as a direct element, inside nested list literals or as the VALUE of nested map literals "+
					"(%d fixed wrappers x 4 drivers all met over the first 56 case indices, plus random wrappers; also as the KEY of a map literal, with string values), next to 0..2 constant elements, or in the subject against an all-constant list; "+
					"subjects per round are the wrapped value of this round, of the first round, of the previous round, near misses, constants. Per round: in = switch = OR(== of that round), != negates ==, == follows the statement's rule. "+
					c06R6Rule()+c06R7Rule()+c06R8Rule+c06R10Rule+
					"Every evaluation is one vm.Execute whose boolean enters an algebraic law or a reference rule of the statement (non-trivial); distinct = distinct (source, bound values).", n*n, n, nViews,
					c06LongEnumCases(), len(c06LongInts), len(c06LongLens), len(c06LongKinds), len(c06FixedWraps)),
				Assumptions: append([]string{
					"Go's ==, strconv.ParseFloat and math/big are the reference for 'same primitive type', 'denotes that number' and exact arithmetic",
					"the int/float rule is judged against anko's own observed <= and >= as the statement prescribes; exact-math disagreement is only counted",
					"bool vs non-bool, strconv-only spellings (0x10, inf, +5, 1_0, .5, 1E6), numerals equal only after float64 rounding, cross-type container leaves and NaN leaves are unspecified: laws only",
					"views of one backing array are judged as the values they hold (structural rule); with NaN or cross-type leaves only the laws are checked, so the identity shortcut for a container compared with an alias of itself is accepted",
					"equality is a relation on values, so an outcome may not depend on what other goroutines compare at the same time; the concurrent phase can only refute this when the scheduler interleaves the runs (best effort, no wall-clock verdict)",
					"a numeral with a non-zero fraction, however long, denotes no integer; an int64 equals a long numeral exactly when math/big.Rat says the numeral's value is that integer (numerals up to 40000 characters, exponents up to +-20000; beyond: laws only); for float64 the existing reading stays (exact, or equal after strconv's correct rounding)",
					"equality, membership and switch matching are relations on the values the operands have at the moment of the evaluation: evaluating the same expression again after its operands changed must answer for the new values (vm.Run of one parsed tree several times is a supported use of the API)",
					"no decimal numeral denotes an infinity: a well-formed numeral whose value lies beyond the float64 range denotes a finite number no float64 holds, so it equals neither +Inf nor -Inf nor any other float (math/big.Rat decides 'beyond the range': the exact value rounds to no finite float64)",
					"`in` is the existential closure of == over the elements of its right operand whatever Go type that list has ([]interface{}, []string, []int64, []float64, []bool; bound by the host, returned by a host function or strings.Split/Fields, made by make, written as a typed literal, a view of a longer slice, stored in a container): the elements are read back with tl[j] and x == tl[j] is observed in the same environment; typed lists only occur as the right operand of `in`, never as operands of == (typed against untyped containers: the statement is silent)",
				}, append(append(c06R7Assumptions(), c06R8Assumptions...), c06R10Assumptions...)...),
				Phases: append([]fw.Phase{
					{Name: "enum", Cases: n + 1 + nViews, Chunk: 6, Exhaust: true, TimeoutS: 600},
					{Name: "rand", Cases: nRand, Chunk: 50, TimeoutS: 900},
					{Name: "conc", Cases: nConc, Chunk: 2, Jobs: 3, TimeoutS: 900},
					{Name: "long", Cases: c06LongEnumCases() + nLong, Chunk: 6, Jobs: 4, TimeoutS: 900, MemMB: 3072},
					{Name: "again", Cases: nAgain, Chunk: 16, Jobs: 4, TimeoutS: 900, MemMB: 3072},
					{Name: "inf", Cases: c06InfEnumCases() + nInf, Chunk: 8, Jobs: 4, TimeoutS: 900, MemMB: 3072},
					{Name: "typed", Cases: c06TypedEnumCases() + nTyped, Chunk: 8, Jobs: 4, TimeoutS: 900, MemMB: 3072},
					{Name: "ptr", Cases: c06PtrEnumCases() + nPtr, Chunk: 3, Jobs: 4, TimeoutS: 900, MemMB: 3072},
					{Name: "uns", Cases: c06UnsEnumCases() + nUns, Chunk: 6, Jobs: 4, TimeoutS: 900, MemMB: 3072},
				}, append(c06R8Phases(tier), c06R10Phases(tier)...)...),
			}
		},
		Run: func(c *wk.Case) {
			if c06R8Run(c) { // phases stream, hot, big, crowd: c06_r8.go
				return
			}
			if c06R10Run(c) { // phase midfault: c06_r10.go
				return
			}
			base := ank.NewCoreEnv()
			r := &c06Run{c: c, reported: map[string]bool{}}
			if c.Phase == "conc" {
				c06Conc(c, pool)
				return
			}
			if c.Phase == "long" {
				if c.Index < c06LongEnumCases() {
					r.longEnum(base, c.Index)
				} else {
					r.longRand(base)
				}
				return
			}
			if c.Phase == "again" {
				r.againCase(base)
				return
			}
			if c.Phase == "inf" {
				r.infCase(base)
				return
			}
			if c.Phase == "typed" {
				r.typedCase(base)
				return
			}
			if c.Phase == "ptr" {
				if c.Index < c06PtrEnumCases() {
					r.ptrEnum(base, c.Index)
				} else {
					r.ptrRand(base)
				}
				return
			}
			if c.Phase == "uns" {
				if c.Index < c06UnsEnumCases() {
					r.unsEnum(base, c.Index)
				} else {
					r.unsRand(base)
				}
				return
			}
			if c.Phase == "enum" {
				if c.Index > n {
					// all ordered pairs of views of one backing array
					r.viewsOf(base, viewBases[c.Index-n-1])
					return
				}
				if c.Index == 0 {
					// explicit witnesses of the listed findings, both operand orders
					for j, w := range c06Witnesses {
						r.fullPair(base, w[0], w[1], pool[j%n])
						r.fullPair(base, w[1], w[0], pool[j%n])
					}
					c.Tag("witness-list")
					return
				}
				i := c.Index - 1
				a := pool[i]
				for j := range pool {
					r.fullPair(base, a, pool[j], pool[(i*7+j*3+1)%n])
				}
				return
			}
			// random pairs
			for k := 0; k < 40; k++ {
				a := c06RandValue(c.Rng)
				var b c06V
				if c.Rng.Intn(10) < 7 {
					b = c06Derive(c.Rng, a)
					c.Tag("rand:related")
				} else {
					b = c06RandValue(c.Rng)
					c.Tag("rand:independent")
				}
				if c.Rng.Intn(2) == 0 {
					a, b = b, a
				}
				var pre strings.Builder
				binds := map[string]interface{}{}
				A, howA := c06Supply(c.Rng, a, "p", &pre, binds)
				B, howB := c06Supply(c.Rng, b, "q", &pre, binds)
				c.Tag("supply:"+howA, "supply:"+howB)
				bind := func(e *env.Env) {
					for k, v := range binds {
						e.Define(k, v)
					}
				}
				rb := c06RenderBinds(binds)
				mode := howA + "/" + howB
				p1 := &c06Pair{a: a, b: b, A: A, B: B, pre: pre.String(), bind: bind, mode: mode, bindsS: rb}
				o1 := r.observe(base, p1)
				{
					// switch with >= 4 case values, b at position k%4, as a literal (two times of three, when it has one)
					// or as supplied; the choices are functions of k, not of the PRNG
					caseExpr := B
					if l, ok := b.lit(k % 2); ok && (k/4)%3 != 0 {
						caseExpr = l
					}
					r.wide(base, p1, o1, caseExpr, []int{k % 4}, k%2 == 0)
				}
				r.observe(base, &c06Pair{a: b, b: a, A: B, B: A, pre: pre.String(), bind: bind, mode: howB + "/" + howA, bindsS: rb})
				if k%8 == 0 {
					r.multi(base, a, b, c06RandValue(c.Rng))
				}
			}
			// views of one backing array (after the pairs, so that their PRNG draws are unchanged)
			for k := 0; k < 6; k++ {
				r.randViews(base, c.Rng)
			}
		},
	})
}
