package main

// C12, round 8: VOLUME and HISTORY.
//
// The statement says "ANY sequence of environment operations ... behaves as a
// parent-linked chain of dictionaries". A dictionary has no size at which it
// starts to forget, a chain has no depth at which a lookup gives up, a name has
// no length, no alphabet and no hash, and a scope has no age: the answer of a
// call depends on the current content of the chain and on nothing else - not on
// how many names a scope holds or ever held, how many were removed, how often
// the same lookup was asked before, how many other scopes, names and types the
// process has seen, or which scopes were dropped and collected meanwhile.
//
// The older phases audit the complete state of every scope after every call,
// which keeps them below ~1400 names, 12 scopes and 4600 calls. The phases of
// this file keep the SAME oracle - an independent chain-of-dictionaries model;
// the result of every call is compared, and the complete observable state at
// checkpoints - with a model that is cheap enough for
//
//	volume  one case = one family x one size on or next to 255..257, 1023..1025,
//	        4095..4097, 12000, 65535..65537, 200000:
//	        bigscope  that many names bound AT ONCE in one scope of a chain of four
//	                  (enclosing scopes and a lookup object bind some of the same
//	                  names), names of six shapes, removed in five orders, every
//	                  call judged, a checkpoint over every name ever used after
//	                  every fill and every drain, Copy/DeepCopy compared in full and
//	                  mutated on both sides;
//	        script    the same history spelled as `var n = v` / `delete("n")` / `n`
//	                  statements, one statement per vm.Execute and as ONE source of
//	                  that many statements (beyond 4 KiB / 64 KiB / 1 MiB);
//	        types     that many type names in one scope (redefinitions, copies);
//	        chain     that many nested child scopes: Get/Set/Addr/Type/
//	                  DefineGlobal/DeleteGlobal/DeepCopy resolve through the chain
//	                  from and to depths next to the thresholds;
//	        modules   that many modules in one scope and nested that deep,
//	                  GetEnvFromPath of every one and of paths that long;
//	        siblings  that many live child scopes of one parent binding the same
//	                  names differently.
//	hot     ONE (scope, name) call site asked thousands of times with the oracle
//	        applied to every call: the same call repeated 1, 2, 255..257, 999..1001,
//	        1023..1025, 4095..4097 times and then the nearest binding changes value,
//	        type, identity or holder (define nearer, delete nearest, set from below,
//	        set from above, lookup object); also one parsed tree `n` re-run by
//	        vm.RunContext.
//	stream  one case = one long history in ONE process: tens of thousands of
//	        pairwise distinct short-lived scopes and names (children of the
//	        reference scopes, roots, copies, modules; dropped, leaked, collected
//	        with runtime.GC()) stream through while a fixed reference chain with an
//	        absolute oracle is asked again at distances of exactly N-1, N, N+1 units
//	        for N in 256, 1000, 1024, 4096 (and in full every 20000 units).
//
// No size, count or distance in this file is taken from the code under test.

import (
	"context"
	"fmt"
	"math/rand"
	"reflect"
	"runtime"
	"sort"
	"strconv"
	"strings"

	"github.com/mattn/anko/ast"
	"github.com/mattn/anko/env"

	"verifharness/internal/ank"
	"verifharness/internal/fw"
	"verifharness/internal/wk"
)

const c12R8Rule = " Round 8 (volume and history; the same chain-of-dictionaries model, the result of EVERY call compared, the complete observable state - symbol lists of every scope, Get of every name the history ever used from the innermost scope, GetValue/Addr of every third/fifth, the line count of String, a Copy and a DeepCopy compared in full and then written on both sides - at checkpoints): " +
	"phase volume: one case = one family and one size of 255, 256, 257, 1023, 1024, 1025, 4095, 4096, 4097, 12000, 65537 (thorough: 65535, 65536, 200000 too). bigscope: that many names bound at once in the third scope of a chain of four whose outer scopes bind every 7th/11th of the same names and whose second scope carries a lookup object answering every 13th; names of six shapes (v<i>; a 60-byte common prefix; a 60-byte common suffix; non-ASCII letters; equal length, equal first and last byte and equal byte sum; a mix with names of 255..257, 1023..1025, 4095..4097 bytes differing in one byte, the empty name, blanks, NUL); then five fill/drain rounds (quick, 65537 names: the first, third and fourth) - oldest first down to the last k, newest first down to the first k, every second, shuffled down to k, everything - each Delete followed by a lookup of the removed name and of a surviving one from the innermost scope, each drain followed by Set/Define/Delete/DeleteGlobal/Addr/GetValue on survivors and removed names. " +
	"script: the same rounds spelled as one-statement scripts `var n = v`, `delete(\"n\")`, `n` run by vm.Execute on the scope (sizes to 4097), and as ONE source of N `var` statements, ONE of N uses in a list literal and ONE of the `delete` statements (all sizes; sources of 4 KiB to beyond 1 MiB). types: N type names in one scope with redefinitions, Type from the innermost scope for every name, built-in names last, Copy/DeepCopy. chain: N nested scopes with bindings at depths 0, 1, N/2, N-2, N-1 and next to 255, 1023, 4095, 9999: Get/GetValue/Addr/Set/Type/DefineGlobal/DefineGlobalType/DeleteGlobal from the innermost scope and from depths next to the thresholds, DeepCopy of the whole chain compared and written on both sides. " +
	"modules: N modules in one scope (NewModule and Define of a scope) and modules nested N deep (N <= 4097): GetEnvFromPath of every module from a child scope, of the whole nested path and of its prefixes, after removals and rebindings. siblings: N live children of one scope binding the same two names differently, read back in two orders, half of them dropped and collected. " +
	"phase hot: one receiver scope and one name asked 12000-24000 times (thorough 40000): the same Get / GetValue / Addr / Type / Set / GetEnvFromPath / parsed-tree `n` call is repeated 1, 2, 255..257, 999..1001, 1023..1025 or 4095..4097 times, then the nearest binding changes (new value of another type, Define in a nearer scope, Delete of the nearest, Set from the innermost and from the holder, DefineGlobal, DeleteGlobal, a lookup object starting and ceasing to answer, the receiver replaced by its Copy); after every run a Copy and a DeepCopy of the receiver must answer like the receiver, and the call is judged every time. " +
	"phase stream: one case = one history in one process: 70000 (thorough 300000) units, each a fresh scope (child of a reference scope, child of a child, root, Copy of a reference scope, module) that first must answer two shared names and a shared type name like its parent chain (asked one to four times in a row), then binds a shared name and a pairwise distinct name (six shapes), is read, set, emptied and read again (type definitions in every other stretch of 4000 units only); one in four is kept alive, the others dropped, runtime.GC() every 1500 units; the reference chain (3 scopes, 40 names and 6 types, a module) is asked again after exactly N-1, N, N+1 units for N in 256, 1000, 1024, 4096 and in full every 20000 units and at the end, together with the scopes kept alive."

var c12R8Assumptions = []string{
	"volume and history are not inputs of the environment API: the number of names a scope holds or ever held, the number of removals, the depth of a chain, the length, alphabet or hash of a name, how often a call was made before and what other scopes the process created, dropped or leaked do not change what a call returns - the reference of a large, deep, late or repeated call is the same dictionary chain as for a small first one (an 'undefined symbol' or any other error for a name the chain binds is a wrong lookup, not a resource limit)",
	"round-8 script spellings: a source of N statements `var n = v` run by vm.Execute on a scope is N Defines in that scope, a list literal of N names is N lookups from it, N `delete(\"n\")` statements are N Deletes (the reading of round 7, statement by statement); names used in scripts are letters, digits and '_' only",
}

var c12R8Sizes = []int{255, 256, 257, 1023, 1024, 1025, 4095, 4096, 4097, 12000, 65537}
var c12R8SizesThorough = []int{255, 256, 257, 1023, 1024, 1025, 4095, 4096, 4097, 12000, 65535, 65536, 65537, 200000}

const c12R8Shapes = 6

type c12R8Case struct {
	kind  string
	size  int
	shape int
}

// c12R8VolumeCases: the case list of phase volume (a function of the tier only).
func c12R8VolumeCases(tier string) []c12R8Case {
	sizes := c12R8Sizes
	if tier == "thorough" {
		sizes = c12R8SizesThorough
	}
	var out []c12R8Case
	quick := tier != "thorough"
	for si, n := range sizes {
		for sh := 0; sh < c12R8Shapes; sh++ {
			if quick && n < 12000 && (si+sh)%2 == 1 {
				continue // quick: every small size with three of the six shapes, 12000 with all, 65537 with two
			}
			if quick && n > 12000 && sh != 0 && sh != 4 {
				continue
			}
			out = append(out, c12R8Case{"bigscope", n, sh})
		}
	}
	for si, n := range sizes {
		if !quick || n <= 12000 {
			out = append(out, c12R8Case{"script", n, []int{0, 1, 2, 3, 4}[si%5]})
			if n <= 70000 {
				out = append(out, c12R8Case{"chain", n, 0})
			}
		}
		out = append(out, c12R8Case{"types", n, si % c12R8Shapes})
		out = append(out, c12R8Case{"modules", n, si % 3})
		out = append(out, c12R8Case{"siblings", n, 0})
	}
	if tier == "thorough" {
		for i := 0; i < 60; i++ {
			out = append(out, c12R8Case{"bigscope", -1, i % c12R8Shapes}) // PRNG sizes
		}
	}
	return out
}

func c12R8Phases(tier string) []fw.Phase {
	nHot, nStream := 24, 2
	if tier == "thorough" {
		nHot, nStream = 400, 12
	}
	return []fw.Phase{
		{Name: "volume", Cases: len(c12R8VolumeCases(tier)), Chunk: 1, TimeoutS: 900},
		{Name: "hot", Cases: nHot, Chunk: 4, TimeoutS: 900},
		{Name: "stream", Cases: nStream, Chunk: 1, TimeoutS: 1800},
	}
}

func c12R8Run(c *wk.Case) bool {
	switch c.Phase {
	case "volume":
		c12R8Volume(c)
	case "hot":
		c12R8Hot(c)
	case "stream":
		c12R8Stream(c)
	default:
		return false
	}
	return true
}

// ---------------------------------------------------------------------------
// names and values

var c12R8Han = []string{"零", "一", "二", "三", "四", "五", "六", "七", "八", "九"}

func c12R8Pad(i, w int) string {
	s := strconv.Itoa(i)
	for len(s) < w {
		s = "0" + s
	}
	return s
}

var c12R8LongPre = strings.Repeat("prefix_", 9)[:60]
var c12R8LongSuf = strings.Repeat("_suffix", 9)[:60]

// c12R8Name: the i-th name of a shape. Different i give different names.
func c12R8Name(shape, i int) string {
	switch shape {
	case 1:
		return c12R8LongPre + strconv.Itoa(i)
	case 2:
		return "n" + strconv.Itoa(i) + c12R8LongSuf
	case 3:
		var b strings.Builder
		b.WriteString("名")
		for _, d := range strconv.Itoa(i) {
			b.WriteString(c12R8Han[d-'0'])
		}
		if i%3 == 0 {
			b.WriteString("é")
		}
		return b.String()
	case 4:
		// equal length, equal first and last byte, equal sum of bytes
		d := c12R8Pad(i, 7)
		var b strings.Builder
		b.WriteString("s")
		b.WriteString(d)
		for k := 0; k < len(d); k++ {
			b.WriteByte('0' + '9' - d[k])
		}
		b.WriteString("s")
		return b.String()
	case 5:
		switch i % 16 {
		case 0:
			return c12R8Name(1+i/16%4, i)
		case 1:
			// names on the length thresholds that differ in one byte only
			ls := []int{255, 256, 257, 1023, 1024, 1025, 4095, 4096, 4097}
			l := ls[i/16%len(ls)]
			idx := "_" + strconv.Itoa(i)
			if i/16%2 == 0 {
				return strings.Repeat("L", l-len(idx)) + idx
			}
			return idx[1:] + "_" + strings.Repeat("L", l-len(idx))
		case 2:
			return strings.Repeat(" ", i/16+1) // blanks (and "" below)
		case 3:
			return "z" + strconv.Itoa(i) + "\x00" + strconv.Itoa(i%7)
		case 4:
			return "Ünï_" + strconv.Itoa(i) + "_☃"
		case 5:
			if i == 5 {
				return ""
			}
		}
		return "w" + strconv.FormatInt(int64(i)*2654435761%1000003, 36) + "_" + strconv.Itoa(i)
	}
	return "v" + strconv.Itoa(i)
}

// c12R8ScriptShape: the names of the shape are identifiers of the language.
func c12R8ScriptShape(shape int) bool { return shape != 5 }

// c12R8Val: the k-th value; the kind changes with k.
func c12R8Val(k int) interface{} {
	switch k % 7 {
	case 4:
		return "s" + strconv.Itoa(k)
	case 5:
		return float64(k) + 0.5
	case 6:
		if k%14 == 6 {
			return nil
		}
		return k%4 == 1
	}
	return int64(k)
}

// c12R8Lit: the script literal of c12R8Val(k).
func c12R8Lit(k int) string {
	switch v := c12R8Val(k).(type) {
	case nil:
		return "nil"
	case string:
		return strconv.Quote(v)
	case float64:
		return strconv.FormatFloat(v, 'f', 1, 64)
	case bool:
		return strconv.FormatBool(v)
	case int64:
		return strconv.FormatInt(v, 10)
	}
	return "nil"
}

// ---------------------------------------------------------------------------
// model

type c12R8Ext struct {
	vals  map[string]interface{}
	types map[string]reflect.Type
	calls int
}

func (x *c12R8Ext) Get(n string) (reflect.Value, error) {
	x.calls++
	if v, ok := x.vals[n]; ok {
		if v == nil {
			return env.NilValue, nil
		}
		return reflect.ValueOf(v), nil
	}
	return reflect.Value{}, errC12Ext
}

func (x *c12R8Ext) Type(n string) (reflect.Type, error) {
	x.calls++
	if t, ok := x.types[n]; ok {
		return t, nil
	}
	return nil, errC12Ext
}

type c12R8Scope struct {
	label  string
	real   *env.Env
	parent *c12R8Scope
	vals   map[string]interface{}
	types  map[string]reflect.Type
	ext    *c12R8Ext
}

func (s *c12R8Scope) lookup(n string) (interface{}, bool) {
	for ; s != nil; s = s.parent {
		if v, ok := s.vals[n]; ok {
			return v, true
		}
		if s.ext != nil {
			if v, ok := s.ext.vals[n]; ok {
				return v, true
			}
		}
	}
	return nil, false
}

func (s *c12R8Scope) lookupType(n string) (reflect.Type, bool) {
	for ; s != nil; s = s.parent {
		if t, ok := s.types[n]; ok {
			return t, true
		}
		if s.ext != nil {
			if t, ok := s.ext.types[n]; ok {
				return t, true
			}
		}
	}
	t, ok := c12Builtin[n]
	return t, ok
}

// holder: the nearest scope whose own table binds n; shadowed: a lookup object of a nearer scope answers n
func (s *c12R8Scope) holder(n string) (h *c12R8Scope, shadowed bool) {
	for ; s != nil; s = s.parent {
		if _, ok := s.vals[n]; ok {
			return s, shadowed
		}
		if s.ext != nil {
			if _, ok := s.ext.vals[n]; ok {
				shadowed = true
			}
		}
	}
	return nil, shadowed
}

func (s *c12R8Scope) depth() int {
	d := 0
	for p := s.parent; p != nil; p = p.parent {
		d++
	}
	return d
}

// ---------------------------------------------------------------------------
// history: every API call goes through one of these methods and is judged

type c12R8H struct {
	c      *wk.Case
	phase  string
	kind   string
	seen   map[string]int
	calls  int // API calls made and judged
	checks int // checkpoints
	log    []func() string
	logAt  int
	info   map[string]interface{}
	fails  int
}

func c12R8NewH(c *wk.Case, kind string) *c12R8H {
	return &c12R8H{c: c, phase: c.Phase, kind: kind, seen: map[string]int{}, log: make([]func() string, 24), info: map[string]interface{}{}}
}

func (h *c12R8H) note(call func() string) {
	h.log[h.logAt%len(h.log)] = call
	h.logAt++
}

func (h *c12R8H) recent() []string {
	var out []string
	for i := h.logAt - len(h.log); i < h.logAt; i++ {
		if i >= 0 {
			out = append(out, h.log[i%len(h.log)]())
		}
	}
	return out
}

// c12R8S: a call text that is already a string
func c12R8S(s string) func() string { return func() string { return s } }

func c12R8Clip(s string) string {
	if len(s) <= 96 {
		return s
	}
	return s[:40] + "...(" + strconv.Itoa(len(s)) + " bytes)..." + s[len(s)-40:]
}

func c12R8Q(n string) string { return c12R8Clip(strconv.Quote(n)) }

func c12R8Render(v interface{}) string {
	if e, ok := v.(*env.Env); ok {
		return fmt.Sprintf("scope(%p)", e)
	}
	return c12R8Clip(ank.Render(v))
}

// viol reports at most two violations per signature and case.
func (h *c12R8H) viol(op, class string, callf func() string, detail string) {
	call := callf()
	h.fails++
	sig := h.phase + ":" + h.kind + ":" + op + ":" + class
	h.seen[sig]++
	if h.seen[sig] > 2 {
		h.c.Tag("r8:repeats-of-a-reported-signature")
		return
	}
	in := map[string]interface{}{"phase": h.c.Phase, "case": h.c.Index, "seed": h.c.W.Seed, "kind": h.kind, "call": call,
		"calls_before": h.calls, "last_calls": h.recent(), "replay": "the case is rebuilt from (VERIF_SEED, phase, case index): ./vcheck replay re-runs the whole history"}
	for k, v := range h.info {
		in[k] = v
	}
	h.c.Violation(sig, call+": "+detail, in)
}

func (h *c12R8H) dead() bool { return h.fails >= 40 }

// protect runs one API call; a panic is a violation.
func (h *c12R8H) protect(op string, call func() string, f func()) bool {
	h.calls++
	h.note(call)
	if p := c12Protect(f); p != nil {
		h.viol(op, "panic", call, p.sig())
		return false
	}
	return true
}

func (h *c12R8H) newRoot(label string) *c12R8Scope {
	var e *env.Env
	h.protect("NewEnv", c12R8S(label+" = env.NewEnv()"), func() { e = env.NewEnv() })
	if e == nil {
		e = env.NewEnv()
	}
	return &c12R8Scope{label: label, real: e, vals: map[string]interface{}{}, types: map[string]reflect.Type{}}
}

func (h *c12R8H) child(s *c12R8Scope, label string) *c12R8Scope {
	var e *env.Env
	call := func() string { return label + " = " + s.label + ".NewEnv()" }
	h.protect("NewEnv", call, func() { e = s.real.NewEnv() })
	if e == nil || e == s.real {
		h.viol("NewEnv", "result", call, "did not return a fresh scope")
		e = s.real.NewEnv()
	}
	return &c12R8Scope{label: label, real: e, parent: s, vals: map[string]interface{}{}, types: map[string]reflect.Type{}}
}

func (h *c12R8H) module(s *c12R8Scope, n, label string) *c12R8Scope {
	var e *env.Env
	var err error
	call := func() string { return fmt.Sprintf("%s, err = %s.NewModule(%s)", label, s.label, c12R8Q(n)) }
	if !h.protect("NewModule", call, func() { e, err = s.real.NewModule(n) }) {
		return nil
	}
	if c12Dotted(n) {
		if err == nil {
			h.viol("NewModule", "no-error", call, "a name containing '.' was accepted")
		}
		return nil
	}
	if err != nil || e == nil {
		h.viol("NewModule", "unexpected-error", call, c12ErrStr(err))
		return nil
	}
	s.vals[n] = e
	return &c12R8Scope{label: label, real: e, parent: s, vals: map[string]interface{}{}, types: map[string]reflect.Type{}}
}

// form 0: Define(interface); 1: DefineValue(reflect.Value); 2: DefineValue(addressable reflect.Value)
func c12R8RV(v interface{}, form int) reflect.Value {
	if v == nil {
		return env.NilValue
	}
	if form == 2 {
		rv := reflect.New(reflect.TypeOf(v)).Elem()
		rv.Set(reflect.ValueOf(v))
		return rv
	}
	return reflect.ValueOf(v)
}

func (h *c12R8H) define(s *c12R8Scope, n string, v interface{}, form int) {
	var err error
	call := func() string { return fmt.Sprintf("%s.Define(%s, %s)", s.label, c12R8Q(n), c12R8Render(v)) }
	ok := false
	if form == 0 {
		ok = h.protect("Define", call, func() { err = s.real.Define(n, v) })
	} else {
		ok = h.protect("Define", call, func() { err = s.real.DefineValue(n, c12R8RV(v, form)) })
	}
	if !ok {
		return
	}
	if c12Dotted(n) {
		if err == nil {
			h.viol("Define", "no-error", call, "a name containing '.' was accepted")
		}
		return
	}
	if err != nil {
		h.viol("Define", "unexpected-error", call, err.Error())
		return
	}
	s.vals[n] = v
}

func (h *c12R8H) defineGlobal(s *c12R8Scope, n string, v interface{}) {
	var err error
	call := func() string { return fmt.Sprintf("%s.DefineGlobal(%s, %s)", s.label, c12R8Q(n), c12R8Render(v)) }
	if !h.protect("DefineGlobal", call, func() { err = s.real.DefineGlobal(n, v) }) {
		return
	}
	if err != nil {
		h.viol("DefineGlobal", "unexpected-error", call, err.Error())
		return
	}
	r := s
	for r.parent != nil {
		r = r.parent
	}
	r.vals[n] = v
}

// get: Get (form 0) or GetValue (form 1) of n from s, compared with the model
func (h *c12R8H) get(s *c12R8Scope, n string, form int) {
	var got interface{}
	var err error
	op := "Get"
	if form == 1 {
		op = "GetValue"
	}
	call := func() string { return fmt.Sprintf("%s.%s(%s)", s.label, op, c12R8Q(n)) }
	if !h.protect(op, call, func() {
		if form == 1 {
			var rv reflect.Value
			rv, err = s.real.GetValue(n)
			if err == nil {
				if !rv.IsValid() || !rv.CanInterface() {
					err = fmt.Errorf("GetValue returned an unusable reflect.Value without an error")
				} else {
					got = rv.Interface()
				}
			}
		} else {
			got, err = s.real.Get(n)
		}
	}) {
		return
	}
	h.judgeLookup(op, call, s, n, got, err)
}

func (h *c12R8H) judgeLookup(op string, call func() string, s *c12R8Scope, n string, got interface{}, err error) {
	want, ok := s.lookup(n)
	switch {
	case !ok && err == nil:
		h.viol(op, "no-error", call, fmt.Sprintf("returned %s for a name no enclosing scope binds", c12R8Render(got)))
	case ok && err != nil:
		hs, _ := s.holder(n)
		where := "a lookup object"
		if hs != nil {
			where = hs.label + " (" + strconv.Itoa(len(hs.vals)) + " names bound)"
		}
		h.viol(op, "unexpected-error", call, fmt.Sprintf("%q, but the name is bound to %s in %s", err.Error(), c12R8Render(want), where))
	case ok && !c12Eq(got, want):
		h.viol(op, "result", call, fmt.Sprintf("returned %s, the nearest binding is %s", c12R8Render(got), c12R8Render(want)))
	}
}

func (h *c12R8H) addr(s *c12R8Scope, n string) {
	var rv reflect.Value
	var err error
	var got interface{}
	deref := false
	call := func() string { return fmt.Sprintf("%s.Addr(%s)", s.label, c12R8Q(n)) }
	if !h.protect("Addr", call, func() {
		rv, err = s.real.Addr(n)
		if err == nil && rv.IsValid() && rv.Kind() == reflect.Ptr && !rv.IsNil() && rv.Elem().CanInterface() {
			got = rv.Elem().Interface()
			deref = true
		}
	}) {
		return
	}
	want, ok := s.lookup(n)
	// UNSPECIFIED (as in the older phases): which bindings are addressable; an error is accepted for a bound name
	switch {
	case !ok && err == nil:
		h.viol("Addr", "no-error", call, "returned an address for a name no enclosing scope binds")
	case ok && err == nil && !deref:
		h.viol("Addr", "result", call, "returned neither an error nor a readable non-nil pointer")
	case ok && err == nil && !c12Eq(got, want):
		h.viol("Addr", "result", call, fmt.Sprintf("address of %s, the nearest binding is %s", c12R8Render(got), c12R8Render(want)))
	case ok && err != nil && strings.Contains(err.Error(), "undefined"):
		h.viol("Addr", "unexpected-error", call, fmt.Sprintf("%q, but the name is bound to %s", err.Error(), c12R8Render(want)))
	}
}

// set: the nearest table binding is updated, or the call fails and nothing changes.
// Names a nearer lookup object supplies are not set (accepted both ways in the older phases).
func (h *c12R8H) set(s *c12R8Scope, n string, v interface{}) {
	hs, shadowed := s.holder(n)
	if shadowed {
		return
	}
	var err error
	call := func() string { return fmt.Sprintf("%s.Set(%s, %s)", s.label, c12R8Q(n), c12R8Render(v)) }
	if !h.protect("Set", call, func() { err = s.real.Set(n, v) }) {
		return
	}
	if hs == nil {
		if _, ok := s.lookup(n); ok {
			return // only a lookup object supplies it: unspecified
		}
		if err == nil {
			h.viol("Set", "no-error", call, "no enclosing scope binds the name, and Set reported success")
		}
		return
	}
	if err != nil {
		h.viol("Set", "unexpected-error", call, fmt.Sprintf("%q, but %s binds the name (%d names bound there)", err.Error(), hs.label, len(hs.vals)))
		return
	}
	hs.vals[n] = v
}

func (h *c12R8H) del(s *c12R8Scope, n string) {
	call := func() string { return fmt.Sprintf("%s.Delete(%s)", s.label, c12R8Q(n)) }
	if h.protect("Delete", call, func() { s.real.Delete(n) }) {
		delete(s.vals, n)
	}
}

func (h *c12R8H) delGlobal(s *c12R8Scope, n string) {
	hs, shadowed := s.holder(n)
	if shadowed {
		return
	}
	call := func() string { return fmt.Sprintf("%s.DeleteGlobal(%s)", s.label, c12R8Q(n)) }
	if h.protect("DeleteGlobal", call, func() { s.real.DeleteGlobal(n) }) && hs != nil {
		delete(hs.vals, n)
	}
}

func (h *c12R8H) defType(s *c12R8Scope, n string, t reflect.Type, form int) {
	var err error
	call := func() string { return fmt.Sprintf("%s.DefineType(%s, %s)", s.label, c12R8Q(n), c12TypeStr(t)) }
	if !h.protect("DefineType", call, func() {
		if form == 0 {
			err = s.real.DefineReflectType(n, t)
		} else {
			err = s.real.DefineType(n, t)
		}
	}) {
		return
	}
	if c12Dotted(n) {
		if err == nil {
			h.viol("DefineType", "no-error", call, "a name containing '.' was accepted")
		}
		return
	}
	if err != nil {
		h.viol("DefineType", "unexpected-error", call, err.Error())
		return
	}
	s.types[n] = t
}

func (h *c12R8H) defGlobalType(s *c12R8Scope, n string, t reflect.Type) {
	var err error
	call := func() string {
		return fmt.Sprintf("%s.DefineGlobalReflectType(%s, %s)", s.label, c12R8Q(n), c12TypeStr(t))
	}
	if !h.protect("DefineGlobalType", call, func() { err = s.real.DefineGlobalReflectType(n, t) }) {
		return
	}
	if err != nil {
		h.viol("DefineGlobalType", "unexpected-error", call, err.Error())
		return
	}
	r := s
	for r.parent != nil {
		r = r.parent
	}
	r.types[n] = t
}

func (h *c12R8H) typ(s *c12R8Scope, n string) {
	var got reflect.Type
	var err error
	call := func() string { return fmt.Sprintf("%s.Type(%s)", s.label, c12R8Q(n)) }
	if !h.protect("Type", call, func() { got, err = s.real.Type(n) }) {
		return
	}
	want, ok := s.lookupType(n)
	switch {
	case !ok && err == nil:
		h.viol("Type", "no-error", call, fmt.Sprintf("returned %s for a type name no enclosing scope defines", c12TypeStr(got)))
	case ok && err != nil:
		h.viol("Type", "unexpected-error", call, fmt.Sprintf("%q, but the nearest definition is %s", err.Error(), c12TypeStr(want)))
	case ok && got != want:
		h.viol("Type", "result", call, fmt.Sprintf("returned %s, the nearest definition is %s", c12TypeStr(got), c12TypeStr(want)))
	}
}

// path: GetEnvFromPath from s; want is the scope the model resolves the path to (nil: must fail)
func (h *c12R8H) path(s *c12R8Scope, p []string, want *env.Env) {
	var got *env.Env
	var err error
	shown := p
	if len(shown) > 4 {
		shown = append(append([]string{}, p[:2]...), fmt.Sprintf("...%d elements...", len(p)-3), p[len(p)-1])
	}
	call := func() string { return fmt.Sprintf("%s.GetEnvFromPath(%q)", s.label, shown) }
	if !h.protect("GetEnvFromPath", call, func() { got, err = s.real.GetEnvFromPath(p) }) {
		return
	}
	switch {
	case want == nil && err == nil:
		h.viol("GetEnvFromPath", "no-error", call, "returned a scope for a path the chain does not resolve")
	case want != nil && err != nil:
		h.viol("GetEnvFromPath", "unexpected-error", call, err.Error()+", but every element names a module")
	case want != nil && got != want:
		h.viol("GetEnvFromPath", "result", call, "returned another scope than the module the path names")
	}
}

// symbols: the symbol list of a scope equals the model's key set
func (h *c12R8H) symbols(s *c12R8Scope) {
	var got []string
	call := func() string { return s.label + ".GetValueSymbols()" }
	if !h.protect("GetValueSymbols", call, func() { got = s.real.GetValueSymbols() }) {
		return
	}
	if d := c12R8SetDiff(got, func(n string) bool { _, ok := s.vals[n]; return ok }, len(s.vals)); d != "" {
		h.viol("GetValueSymbols", "symbols", call, d)
	}
}

func (h *c12R8H) typeSymbols(s *c12R8Scope) {
	var got []string
	call := func() string { return s.label + ".GetTypeSymbols()" }
	if !h.protect("GetTypeSymbols", call, func() { got = s.real.GetTypeSymbols() }) {
		return
	}
	if d := c12R8SetDiff(got, func(n string) bool { _, ok := s.types[n]; return ok }, len(s.types)); d != "" {
		h.viol("GetTypeSymbols", "symbols", call, d)
	}
}

func c12R8SetDiff(got []string, has func(string) bool, want int) string {
	seen := make(map[string]bool, len(got))
	extra, dup := 0, 0
	ex := ""
	for _, n := range got {
		if seen[n] {
			dup++
			continue
		}
		seen[n] = true
		if !has(n) {
			extra++
			if ex == "" {
				ex = n
			}
		}
	}
	missing := want - (len(seen) - extra)
	if extra == 0 && dup == 0 && missing == 0 {
		return ""
	}
	return fmt.Sprintf("%d symbols listed, the scope binds %d: %d listed but not bound (e.g. %s), %d bound but not listed, %d listed twice", len(got), want, extra, c12R8Q(ex), missing, dup)
}

// stringLines: String() must not panic; with values and names free of newlines it has one line per binding
func (h *c12R8H) stringLines(s *c12R8Scope, namesHaveNoNewline bool) {
	var out string
	call := func() string { return s.label + ".String()" }
	if !h.protect("String", call, func() { out = s.real.String() }) {
		return
	}
	if namesHaveNoNewline {
		if got, want := strings.Count(out, "\n"), 1+len(s.vals)+len(s.types); got != want {
			h.viol("String", "lines", call, fmt.Sprintf("%d lines for %d values and %d types (one line each and a header expected)", got, len(s.vals), len(s.types)))
		}
	}
}

// snapshot: Copy (deep=false) or DeepCopy of s as a model scope of its own
func (h *c12R8H) snapshot(s *c12R8Scope, deep bool, label string) *c12R8Scope {
	var e *env.Env
	op := "Copy"
	if deep {
		op = "DeepCopy"
	}
	call := func() string { return fmt.Sprintf("%s = %s.%s()", label, s.label, op) }
	if !h.protect(op, call, func() {
		if deep {
			e = s.real.DeepCopy()
		} else {
			e = s.real.Copy()
		}
	}) {
		return nil
	}
	if e == nil || e == s.real {
		h.viol(op, "result", call, "did not return a fresh scope")
		return nil
	}
	var cp func(m *c12R8Scope, lab string) *c12R8Scope
	cp = func(m *c12R8Scope, lab string) *c12R8Scope {
		n := &c12R8Scope{label: lab, parent: m.parent, ext: m.ext, vals: make(map[string]interface{}, len(m.vals)), types: make(map[string]reflect.Type, len(m.types))}
		for k, v := range m.vals {
			n.vals[k] = v
		}
		for k, v := range m.types {
			n.types[k] = v
		}
		if deep && m.parent != nil {
			n.parent = cp(m.parent, lab+"^")
		}
		return n
	}
	out := cp(s, label)
	out.real = e
	return out
}

// ---------------------------------------------------------------------------
// phase volume

func c12R8Volume(c *wk.Case) {
	cases := c12R8VolumeCases(c.Tier)
	if c.Index >= len(cases) {
		return
	}
	vc := cases[c.Index]
	if vc.size < 0 {
		base := c12R8SizesThorough[c.Rng.Intn(len(c12R8SizesThorough)-1)]
		vc.size = base + c.Rng.Intn(base)
	}
	c.Begin(map[string]interface{}{"volume": c.Index, "kind": vc.kind, "size": vc.size, "shape": vc.shape})
	h := c12R8NewH(c, vc.kind)
	h.info["size"], h.info["name_shape"] = vc.size, vc.shape
	switch vc.kind {
	case "bigscope":
		c12R8BigScope(h, c.Rng, vc.size, vc.shape, 0)
	case "script":
		mode := 2
		if vc.size <= 4097 {
			mode = 1 + c.Index%2
			c12R8BigScope(h, c.Rng, vc.size, vc.shape, 3-mode)
		}
		c12R8BigScope(h, c.Rng, vc.size, vc.shape, mode)
	case "types":
		c12R8Types(h, c.Rng, vc.size, vc.shape)
	case "chain":
		c12R8Chain(h, c.Rng, vc.size)
	case "modules":
		c12R8Modules(h, c.Rng, vc.size, vc.shape)
	case "siblings":
		c12R8Siblings(h, c.Rng, vc.size)
	}
	c12R8Finish(c, h, fmt.Sprintf("volume/%s/%d/%d", vc.kind, vc.size, vc.shape))
	c.Tag("r8:volume:" + vc.kind)
	c.Tag(fmt.Sprintf("reached:%s_size=%d", vc.kind, vc.size))
}

func c12R8Finish(c *wk.Case, h *c12R8H, key string) {
	c.Eval(fmt.Sprintf("r8/%s/%d/%d", key, c.W.Seed, c.Index), h.calls >= 100)
	c.Events(h.calls)
	c.Count("api_calls_in_histories", h.calls)
	c.Count("r8_api_calls_judged", h.calls)
	c.Count("r8_checkpoints", h.checks)
	if c.WantSample() && h.fails == 0 {
		c.Sample(map[string]interface{}{"kind": c.Phase + ":" + h.kind, "calls": h.calls, "checkpoints": h.checks, "info": h.info, "last_calls": h.recent()})
	}
}

// c12R8Family: the chain root - mid - hot - leaf. root binds every 7th name of the universe,
// mid every 11th, the lookup object of mid answers every 13th.
type c12R8Family struct {
	h                    *c12R8H
	root, mid, hot, leaf *c12R8Scope
	names                []string // the universe: every name the history uses
	plain                bool     // no name contains a newline
	script               int      // 0: API calls; 1: one statement per vm.Execute; 2: one source per fill/drain
	next                 int      // value counter
}

func (f *c12R8Family) val() interface{} { f.next++; return c12R8Val(f.next) }

func c12R8NewFamily(h *c12R8H, n, shape, script int) *c12R8Family {
	f := &c12R8Family{h: h, script: script, plain: true}
	f.names = make([]string, n)
	for i := range f.names {
		f.names[i] = c12R8Name(shape, i)
		if strings.Contains(f.names[i], "\n") {
			f.plain = false
		}
	}
	f.root = h.newRoot("root")
	f.mid = h.child(f.root, "mid")
	f.hot = h.child(f.mid, "hot")
	f.leaf = h.child(f.hot, "leaf")
	ext := &c12R8Ext{vals: map[string]interface{}{}, types: map[string]reflect.Type{}}
	for i, nm := range f.names {
		if i%7 == 0 {
			h.define(f.root, nm, "root:"+strconv.Itoa(i), 0)
		}
		if i%11 == 0 {
			h.define(f.mid, nm, "mid:"+strconv.Itoa(i), i%3)
		}
		if i%13 == 0 {
			ext.vals[nm] = "ext:" + strconv.Itoa(i)
		}
	}
	f.mid.ext = ext
	h.protect("SetExternalLookup", c12R8S("mid.SetExternalLookup(x)"), func() { f.mid.real.SetExternalLookup(ext) })
	return f
}

// bind / unbind / use on the hot scope, in the spelling of the case
func (f *c12R8Family) bind(nm string) {
	if f.script == 1 {
		f.next++
		src := "var " + nm + " = " + c12R8Lit(f.next)
		f.exec(f.hot, "Stmt-var", src, func() { f.hot.vals[nm] = c12R8Val(f.next) })
		return
	}
	v := f.val()
	f.h.define(f.hot, nm, v, f.next%3)
}

func (f *c12R8Family) unbind(nm string) {
	if f.script == 1 {
		f.exec(f.hot, "Stmt-delete", "delete("+strconv.Quote(nm)+")", func() { delete(f.hot.vals, nm) })
		return
	}
	f.h.del(f.hot, nm)
}

func (f *c12R8Family) use(s *c12R8Scope, nm string) {
	if f.script == 1 {
		h := f.h
		call := func() string { return fmt.Sprintf("vm.Execute(%s, nil, %s)", s.label, c12R8Q(nm)) }
		var o ank.Out
		h.calls++
		h.note(call)
		o = ank.Exec(s.real, nm)
		if o.Panicked {
			h.viol("Stmt-use", "panic", call, o.PanicSig)
			return
		}
		h.judgeLookup("Stmt-use", call, s, nm, o.Val, o.Err)
		return
	}
	f.h.get(s, nm, f.h.calls%2)
}

// exec: a script that must run without an error; then the model is updated
func (f *c12R8Family) exec(s *c12R8Scope, op, src string, then func()) bool {
	h := f.h
	call := func() string { return fmt.Sprintf("vm.Execute(%s, nil, %s)", s.label, c12R8Q(src)) }
	h.calls++
	h.note(call)
	o := ank.Exec(s.real, src)
	if o.Panicked {
		h.viol(op, "panic", call, o.PanicSig)
		return false
	}
	if o.Err != nil {
		h.viol(op, "unexpected-error", call, o.Err.Error())
		return false
	}
	then()
	return true
}

// fill binds every name of idx that hot does not bind
func (f *c12R8Family) fill(idx []int) {
	if f.script == 2 {
		var b strings.Builder
		type kv struct {
			n string
			k int
		}
		var todo []kv
		for _, i := range idx {
			if _, ok := f.hot.vals[f.names[i]]; !ok {
				f.next++
				todo = append(todo, kv{f.names[i], f.next})
				b.WriteString("var " + f.names[i] + " = " + c12R8Lit(f.next) + "\n")
			}
		}
		if len(todo) == 0 {
			return
		}
		f.h.info["max_source_bytes"] = c12R8MaxInt(f.h.info["max_source_bytes"], b.Len())
		f.exec(f.hot, "Script-var", b.String(), func() {
			for _, t := range todo {
				f.hot.vals[t.n] = c12R8Val(t.k)
			}
		})
		f.h.calls += len(todo)
		return
	}
	for k, i := range idx {
		nm := f.names[i]
		if _, ok := f.hot.vals[nm]; ok {
			continue
		}
		f.bind(nm)
		if k%8 == 0 {
			f.use(f.leaf, nm)
		}
		if f.h.dead() {
			return
		}
	}
}

// drain removes the names of idx in that order; after each removal the removed name and one
// name of keep are looked up from the leaf
func (f *c12R8Family) drain(idx, keep []int) {
	if f.script == 2 {
		var b strings.Builder
		for _, i := range idx {
			b.WriteString("delete(" + strconv.Quote(f.names[i]) + ")\n")
		}
		f.exec(f.hot, "Script-delete", b.String(), func() {
			for _, i := range idx {
				delete(f.hot.vals, f.names[i])
			}
		})
		f.h.calls += len(idx)
		return
	}
	for k, i := range idx {
		nm := f.names[i]
		f.unbind(nm)
		f.use(f.leaf, nm)
		if len(keep) > 0 {
			f.use(f.leaf, f.names[keep[k%len(keep)]])
		}
		if f.h.dead() {
			return
		}
	}
}

func c12R8MaxInt(old interface{}, n int) int {
	if o, ok := old.(int); ok && o > n {
		return o
	}
	return n
}

// checkpoint: the complete observable state of the family against the model
func (f *c12R8Family) checkpoint(full bool) {
	h := f.h
	h.checks++
	for _, s := range []*c12R8Scope{f.hot, f.leaf, f.mid, f.root} {
		h.symbols(s)
		h.typeSymbols(s)
	}
	h.stringLines(f.hot, f.plain)
	if f.script == 2 {
		// one source using every name: a list literal in chunks (the values are compared one by one)
		f.useAll()
	}
	for i, nm := range f.names {
		if f.script == 1 && i%4 == 0 {
			f.use(f.leaf, nm)
		} else {
			h.get(f.leaf, nm, i%2)
		}
		if i%3 == 0 {
			h.get(f.hot, nm, 1)
		}
		if i%5 == 0 {
			h.addr(f.leaf, nm)
		}
		if h.dead() {
			return
		}
	}
	h.get(f.leaf, "nosuch_name", 0)
	if !full {
		return
	}
	// Copy of hot and DeepCopy of leaf: independent snapshots
	for _, deep := range []bool{false, true} {
		src, lab := f.hot, "copy"
		if deep {
			src, lab = f.leaf, "deepcopy"
		}
		cp := h.snapshot(src, deep, lab)
		if cp == nil {
			continue
		}
		// the copy of hot: for a DeepCopy of leaf it has no handle of its own and is reached through the copy of leaf
		chot := cp
		if deep {
			chot = cp.parent
		} else {
			h.symbols(cp)
		}
		for i, nm := range f.names {
			h.get(cp, nm, i%2)
			if h.dead() {
				return
			}
		}
		// writes on the copy are invisible to the original and the other way round
		var bound, unbound []string
		for _, nm := range f.names {
			if _, ok := f.hot.vals[nm]; ok {
				if len(bound) < 40 {
					bound = append(bound, nm)
				}
			} else if len(unbound) < 40 {
				unbound = append(unbound, nm)
			}
		}
		for k, nm := range bound {
			switch k % 4 {
			case 0:
				if deep {
					h.delGlobal(cp, nm)
				} else {
					h.del(chot, nm)
				}
			case 1:
				h.set(cp, nm, "copy-side")
			case 2:
				h.define(cp, nm, int64(-k), 0)
			case 3:
				h.set(f.leaf, nm, "orig-side")
			}
			h.get(cp, nm, 0)
			h.get(f.leaf, nm, 0)
		}
		for k, nm := range unbound {
			if k%2 == 0 {
				h.define(cp, nm, "copy-new", 0)
			} else {
				h.define(f.hot, nm, "orig-new", 0)
			}
			h.get(cp, nm, 0)
			h.get(f.leaf, nm, 0)
			if k%2 == 1 {
				h.del(f.hot, nm)
			}
		}
		h.symbols(cp)
		h.symbols(f.hot)
	}
}

// useAll: ONE source `[n0, n1, ...]` per 4096 names bound somewhere on the chain, run on the leaf
func (f *c12R8Family) useAll() {
	h := f.h
	var visible []string
	for _, nm := range f.names {
		if _, ok := f.leaf.lookup(nm); ok {
			visible = append(visible, nm)
		}
	}
	for lo := 0; lo < len(visible); lo += 4096 {
		part := visible[lo:c12Min(lo+4096, len(visible))]
		src := "[" + strings.Join(part, ", ") + "]"
		call := func() string { return fmt.Sprintf("vm.Execute(leaf, nil, %s)", c12R8Q(src)) }
		h.calls += len(part)
		h.note(call)
		o := ank.Exec(f.leaf.real, src)
		if o.Panicked {
			h.viol("Script-use", "panic", call, o.PanicSig)
			return
		}
		arr, isArr := o.Val.([]interface{})
		if o.Err != nil || !isArr || len(arr) != len(part) {
			h.viol("Script-use", "unexpected-error", call, fmt.Sprintf("error %s, result %s; every one of the %d names is bound on the chain", c12ErrStr(o.Err), c12R8Render(o.Val), len(part)))
			return
		}
		for i, nm := range part {
			if want, _ := f.leaf.lookup(nm); !c12Eq(arr[i], want) {
				h.viol("Script-use", "result", call, fmt.Sprintf("element %d (%s) is %s, the nearest binding is %s", i, c12R8Q(nm), c12R8Render(arr[i]), c12R8Render(want)))
				break
			}
		}
	}
}

// survivorOps: the API on surviving and on removed names after a drain
func (f *c12R8Family) survivorOps(r *rand.Rand, survivors, removed []int) {
	h := f.h
	pick := func(from []int, k int) []int {
		if len(from) <= k {
			return append([]int(nil), from...)
		}
		out := make([]int, 0, k)
		// the ends and PRNG picks
		out = append(out, from[0], from[1], from[len(from)-1], from[len(from)-2])
		for len(out) < k-8 {
			out = append(out, from[r.Intn(len(from))])
		}
		return out
	}
	// some survivors twice: the second operation meets what the first one left
	surv := pick(survivors, 48)
	surv = append(surv, surv[:c12Min(8, len(surv))]...)
	for k, i := range surv {
		nm := f.names[i]
		switch k % 6 {
		case 0:
			h.set(f.leaf, nm, f.val())
		case 1:
			h.set(f.hot, nm, f.val())
		case 2:
			h.addr(f.hot, nm)
		case 3:
			h.define(f.hot, nm, f.val(), 2) // a redefinition
		case 4:
			h.define(f.leaf, nm, f.val(), 0) // a nearer binding ...
			h.get(f.leaf, nm, 0)
			h.delGlobal(f.leaf, nm) // ... removed again by delete-nearest
		case 5:
			h.get(f.hot, nm, 1)
		}
		h.get(f.leaf, nm, 0)
		h.get(f.hot, nm, 1)
	}
	for k, i := range pick(removed, 48) {
		nm := f.names[i]
		switch k % 6 {
		case 0:
			h.set(f.leaf, nm, f.val()) // updates the enclosing binding or fails
		case 1:
			h.del(f.hot, nm) // removes nothing
		case 2:
			h.addr(f.leaf, nm)
		case 3:
			h.delGlobal(f.leaf, nm) // removes the enclosing binding, if any
		case 4:
			h.define(f.hot, nm, f.val(), 1)
			h.get(f.leaf, nm, 0)
			h.del(f.hot, nm)
		case 5:
			h.set(f.hot, nm, f.val())
		}
		h.get(f.leaf, nm, 0)
		h.get(f.hot, nm, 1)
	}
}

func c12R8Seq(lo, hi int) []int {
	out := make([]int, 0, hi-lo)
	for i := lo; i < hi; i++ {
		out = append(out, i)
	}
	return out
}

func c12R8Rev(a []int) []int {
	out := make([]int, len(a))
	for i, v := range a {
		out[len(a)-1-i] = v
	}
	return out
}

// c12R8BigScope: n names bound at once in hot, five fill/drain rounds.
func c12R8BigScope(h *c12R8H, r *rand.Rand, n, shape, script int) {
	if script != 0 && !c12R8ScriptShape(shape) {
		shape = 0
	}
	f := c12R8NewFamily(h, n, shape, script)
	h.info["spelling"] = []string{"api", "one statement per vm.Execute", "one source per fill and per drain"}[script]
	all := c12R8Seq(0, n)
	k := []int{1, 2, 7, 100, 200}[r.Intn(5)]
	if k >= n {
		k = n / 2
	}
	for round := 0; round < 5 && !h.dead(); round++ {
		if h.c.Tier != "thorough" && n > 20000 && (round == 1 || round == 4) {
			continue // quick: the biggest sizes with three of the five orders
		}
		f.fill(all)
		if len(f.hot.vals) != n {
			h.viol("fill", "model", c12R8S("fill"), fmt.Sprintf("the model holds %d names after binding %d distinct names", len(f.hot.vals), n))
			return
		}
		f.checkpoint(round == 0)
		var gone, rest []int
		switch round {
		case 0: // oldest first, all but the last k
			gone, rest = all[:n-k], all[n-k:]
		case 1: // newest first, all but the first k
			gone, rest = c12R8Rev(all[k:]), all[:k]
		case 2: // every second
			for i := 0; i < n; i++ {
				if i%2 == 0 {
					gone = append(gone, i)
				} else {
					rest = append(rest, i)
				}
			}
		case 3: // shuffled, all but k
			p := r.Perm(n)
			gone, rest = p[:n-k], p[n-k:]
		case 4: // everything
			gone = all
			if r.Intn(2) == 0 {
				gone = c12R8Rev(all)
			}
		}
		f.drain(gone, rest)
		if h.dead() {
			return
		}
		f.checkpoint(true)
		f.survivorOps(r, rest, gone)
		if round == 2 {
			// the other half goes too, then both halves come back in the next round
			f.drain(rest, nil)
			f.checkpoint(false)
		}
		h.c.Tag("r8:drain-order:" + []string{"oldest-first-but-k", "newest-first-but-k", "every-second", "shuffled-but-k", "everything"}[round])
	}
	h.c.Count("r8_bigscope_histories", 1)
}

// c12R8Types: n type names in hot.
func c12R8Types(h *c12R8H, r *rand.Rand, n, shape int) {
	f := c12R8NewFamily(h, 40, 0, 0)
	names := make([]string, n)
	for i := range names {
		names[i] = c12R8Name(shape, i)
		if i%7 == 0 {
			h.defType(f.root, names[i], c12Types[(i+1)%len(c12Types)], i%2)
		}
		if i%13 == 0 {
			f.mid.ext.types[names[i]] = c12Types[(i+2)%len(c12Types)]
		}
	}
	check := func(from *c12R8Scope) {
		h.checks++
		for _, s := range []*c12R8Scope{f.hot, f.root, f.leaf} {
			h.typeSymbols(s)
		}
		for _, nm := range names {
			h.typ(from, nm)
			if h.dead() {
				return
			}
		}
		for nm := range c12Builtin {
			h.typ(from, nm)
		}
		h.typ(from, "nosuch_type")
		h.stringLines(f.hot, shape != 5)
	}
	check(f.leaf)
	for i, nm := range names {
		h.defType(f.hot, nm, c12Types[i%len(c12Types)], i%2)
		if i%16 == 0 {
			h.typ(f.leaf, nm)
		}
		if h.dead() {
			return
		}
	}
	check(f.leaf)
	// redefinitions, built-in names shadowed in the big scope, global definitions from below
	for k := 0; k < 200 && k < n; k++ {
		i := r.Intn(n)
		h.defType(f.hot, names[i], c12Types[(i+3+k)%len(c12Types)], k%2)
		h.typ(f.leaf, names[i])
	}
	h.defType(f.hot, "int64", c12Types[1], 0)
	h.defGlobalType(f.leaf, "string", c12Types[2])
	h.defGlobalType(f.leaf, names[n-1], c12Types[4])
	check(f.leaf)
	for _, deep := range []bool{false, true} {
		src, lab := f.hot, "copy"
		if deep {
			src, lab = f.leaf, "deepcopy"
		}
		cp := h.snapshot(src, deep, lab)
		if cp == nil {
			continue
		}
		h.typeSymbols(cp)
		for _, nm := range names {
			h.typ(cp, nm)
		}
		for k := 0; k < 40 && k < n; k++ {
			nm := names[(k*37)%n]
			if k%2 == 0 {
				h.defType(cp, nm, c12Types[(k+5)%len(c12Types)], 0)
			} else {
				h.defType(f.hot, nm, c12Types[(k+6)%len(c12Types)], 0)
			}
			h.typ(cp, nm)
			h.typ(f.leaf, nm)
		}
		h.defType(cp, "only_in_copy", c12Types[0], 0)
		h.typ(f.leaf, "only_in_copy")
		h.typ(cp, "only_in_copy")
	}
	check(f.hot)
	h.c.Count("r8_type_histories", 1)
}

// c12R8Chain: n nested scopes.
func c12R8Chain(h *c12R8H, r *rand.Rand, n int) {
	scopes := make([]*c12R8Scope, n)
	scopes[0] = h.newRoot("d0")
	for d := 1; d < n; d++ {
		scopes[d] = h.child(scopes[d-1], "d"+strconv.Itoa(d))
	}
	leaf := scopes[n-1]
	// depths of interest
	var ds []int
	seenD := map[int]bool{}
	add := func(d int) {
		if d >= 0 && d < n && !seenD[d] {
			seenD[d] = true
			ds = append(ds, d)
		}
	}
	for _, d := range []int{0, 1, 2, n / 2, n - 3, n - 2, n - 1} {
		add(d)
	}
	for _, t := range []int{255, 1023, 4095, 9999, 65535} {
		for d := t - 1; d <= t+2; d++ {
			add(d)         // counted from the root
			add(n - 1 - d) // counted from the leaf
		}
	}
	sort.Ints(ds)
	h.info["depths_bound"] = len(ds)
	for _, d := range ds {
		h.define(scopes[d], "at"+strconv.Itoa(d), int64(d), d%3)
		if d%2 == 0 {
			h.define(scopes[d], "x", "x@"+strconv.Itoa(d), 0)
		}
		h.defType(scopes[d], "T"+strconv.Itoa(d), c12Types[d%len(c12Types)], 0)
	}
	h.define(scopes[0], "g", "global", 0)
	readAll := func() {
		h.checks++
		for _, d := range ds {
			nm := "at" + strconv.Itoa(d)
			h.get(leaf, nm, d%2)
			h.typ(leaf, "T"+strconv.Itoa(d))
			h.get(scopes[d], nm, 1)
			h.get(scopes[d], "x", 0)
			h.get(scopes[d], "g", 0)
			if d > 0 {
				h.get(scopes[d-1], nm, 0) // not visible from outside
			}
			if d+1 < n {
				h.get(scopes[d+1], nm, 0)
			}
			h.addr(leaf, nm)
		}
		h.get(leaf, "x", 0)
		h.get(leaf, "g", 1)
		h.get(leaf, "nosuch", 0)
		h.typ(leaf, "int64")
		h.typ(leaf, "nosuch_type")
		h.typ(scopes[n/2], "string")
	}
	readAll()
	// Set from the leaf updates the holder only
	for k, d := range ds {
		h.set(leaf, "at"+strconv.Itoa(d), c12R8Val(k+1000))
		h.set(scopes[d], "x", c12R8Val(k+2000))
	}
	h.set(leaf, "g", "global-2")
	h.set(leaf, "nosuch", 1)
	readAll()
	// global definitions from everywhere land in the root; delete-nearest peels the bindings of x off from the inside
	h.defineGlobal(leaf, "g2", int64(2))
	h.defineGlobal(scopes[n/2], "x2", "root-x2")
	h.defGlobalType(leaf, "G", c12Types[3])
	h.get(leaf, "g2", 0)
	h.get(scopes[1%n], "x2", 0)
	h.typ(leaf, "G")
	// DeepCopy of the whole chain
	cp := h.snapshot(leaf, true, "deepcopy")
	if cp != nil {
		for _, d := range ds {
			h.get(cp, "at"+strconv.Itoa(d), 0)
			h.typ(cp, "T"+strconv.Itoa(d))
		}
		h.get(cp, "x", 0)
		h.set(cp, "g", "copy-global")
		h.defineGlobal(cp, "g3", "copy-only")
		h.set(leaf, "g2", "orig-g2")
		for _, nm := range []string{"g", "g2", "g3"} {
			h.get(cp, nm, 0)
			h.get(leaf, nm, 0)
		}
		h.delGlobal(cp, "x")
		h.get(cp, "x", 0)
		h.get(leaf, "x", 0)
	}
	for i := 0; i < len(ds)+2; i++ {
		h.delGlobal(leaf, "x")
		h.get(leaf, "x", i%2)
		if i%4 == 0 {
			h.get(scopes[n/2], "x", 0)
		}
	}
	for _, d := range ds {
		h.delGlobal(leaf, "at"+strconv.Itoa(d))
		h.get(leaf, "at"+strconv.Itoa(d), 0)
	}
	readAll()
	for _, d := range ds {
		h.symbols(scopes[d])
	}
	h.c.Count("r8_chain_histories", 1)
}

// c12R8Modules: n modules in one scope, and modules nested up to 4097 deep.
func c12R8Modules(h *c12R8H, r *rand.Rand, n, shape int) {
	root := h.newRoot("root")
	hot := h.child(root, "hot")
	leaf := h.child(h.child(hot, "inner"), "leaf")
	names := make([]string, n)
	mods := make([]*c12R8Scope, n)
	for i := range names {
		names[i] = c12R8Name(shape, i)
		if i%5 == 4 {
			// a scope bound by Define is a module too
			m := h.child(hot, "m"+strconv.Itoa(i))
			h.define(hot, names[i], m.real, i%2)
			mods[i] = m
		} else {
			mods[i] = h.module(hot, names[i], "m"+strconv.Itoa(i))
		}
		if mods[i] == nil {
			return
		}
		if i%64 == 0 {
			h.define(mods[i], "k", int64(i), 0)
		}
	}
	want := func(i int) *env.Env {
		if v, ok := hot.vals[names[i]]; ok {
			if e, isEnv := v.(*env.Env); isEnv {
				return e
			}
		}
		return nil
	}
	checkAll := func() {
		h.checks++
		h.symbols(hot)
		for i := range names {
			from := leaf
			if i%3 == 0 {
				from = hot
			}
			h.path(from, []string{names[i]}, want(i))
			if i%64 == 0 {
				h.get(mods[i], "k", 0)
				h.path(from, []string{names[i], "k"}, nil)
			}
			if h.dead() {
				return
			}
		}
		h.path(leaf, []string{"nosuch_module"}, nil)
		h.path(root, []string{names[0]}, nil) // not visible from outside
	}
	checkAll()
	// removals in two orders, rebinding to another module, to a fresh module
	for i := 0; i < n; i += 2 {
		h.del(hot, names[i])
		if i%16 == 0 {
			h.path(leaf, []string{names[i]}, nil)
		}
	}
	checkAll()
	for i := n - 1; i >= 0 && i > n-400; i-- {
		switch i % 3 {
		case 0:
			h.define(hot, names[i], mods[(i+1)%n].real, 0)
		case 1:
			h.del(hot, names[i])
		case 2:
			mods[i] = h.module(hot, names[i], "m'"+strconv.Itoa(i))
		}
		h.path(leaf, []string{names[i]}, want(i))
	}
	checkAll()
	// nesting
	depth := c12Min(n, 4097)
	cur := h.child(root, "nest")
	top := cur
	var p []string
	var at []*c12R8Scope
	for d := 0; d < depth; d++ {
		nm := c12R8Name(shape, d%7)
		m := h.module(cur, nm, "n"+strconv.Itoa(d))
		if m == nil {
			return
		}
		p = append(p, nm)
		at = append(at, m)
		cur = m
	}
	h.info["nested_path_elements"] = depth
	user := h.child(top, "user")
	for _, l := range []int{1, 2, 254, 255, 256, 257, 1023, 1024, 1025, 4095, 4096, 4097, depth - 1, depth} {
		if l >= 1 && l <= depth {
			h.path(user, p[:l], at[l-1].real)
			h.path(user, append(append([]string{}, p[:l]...), "nosuch"), nil)
		}
	}
	// break the path in the middle: longer paths fail, shorter ones still resolve
	mid := depth / 2
	if mid >= 1 && mid < depth {
		h.del(at[mid-1], p[mid])
		h.path(user, p[:mid], at[mid-1].real)
		h.path(user, p[:mid+1], nil)
		h.path(user, p, nil)
		h.define(at[mid-1], p[mid], at[mid].real, 0)
		h.path(user, p, at[depth-1].real)
	}
	h.c.Count("r8_module_histories", 1)
}

// c12R8Siblings: n live children of one scope.
func c12R8Siblings(h *c12R8H, r *rand.Rand, n int) {
	root := h.newRoot("root")
	par := h.child(root, "par")
	h.define(root, "a", "root-a", 0)
	h.define(par, "b", "par-b", 0)
	h.define(par, "c", "par-c", 0)
	kids := make([]*c12R8Scope, n)
	for i := range kids {
		kids[i] = h.child(par, "kid"+strconv.Itoa(i))
		if i%3 != 0 {
			h.define(kids[i], "a", int64(i), i%3)
		}
		if i%2 == 0 {
			h.define(kids[i], "b", "b"+strconv.Itoa(i), 0)
		}
		if i%512 == 0 {
			h.get(kids[i/2], "a", 0)
		}
	}
	read := func(i int) {
		if kids[i] == nil {
			return
		}
		h.get(kids[i], "a", i%2)
		h.get(kids[i], "b", 0)
		if i%8 == 0 {
			h.get(kids[i], "c", 1)
			h.get(kids[i], "nosuch", 0)
		}
	}
	h.checks++
	for i := 0; i < n && !h.dead(); i++ {
		read(i)
	}
	// writes through the children: Set reaches the parent's binding where the child has none
	for i := 0; i < n && !h.dead(); i += 1 + n/300 {
		h.set(kids[i], "a", c12R8Val(i))
		h.set(kids[i], "c", int64(i))
		h.get(par, "c", 0)
		if i%5 == 0 {
			h.delGlobal(kids[i], "b")
			h.get(kids[i], "b", 0)
			if _, ok := par.vals["b"]; !ok {
				h.define(par, "b", "par-b2", 0)
			}
		}
	}
	// half of them dropped and collected, the rest read backwards
	for i := 0; i < n; i += 2 {
		kids[i] = nil
	}
	runtime.GC()
	h.checks++
	for i := n - 1; i >= 0 && !h.dead(); i-- {
		read(i)
	}
	h.symbols(par)
	h.symbols(root)
	h.c.Count("r8_sibling_histories", 1)
}

// ---------------------------------------------------------------------------
// phase hot

var c12R8HotCounts = []int{1, 2, 255, 256, 257, 999, 1000, 1001, 1023, 1024, 1025, 4095, 4096, 4097}

var c12R8HotAsks = []string{"Get", "GetValue", "Addr", "Set", "Type", "GetEnvFromPath", "Tree", "Get+Set"}

func c12R8Hot(c *wk.Case) {
	r := c.Rng
	ask := c12R8HotAsks[c.Index%len(c12R8HotAsks)]
	c.Begin(map[string]interface{}{"hot": c.Index, "ask": ask})
	h := c12R8NewH(c, "site-"+ask)
	budget := 12000 + r.Intn(12000)
	if c.Tier == "thorough" && c.Index%5 == 0 {
		budget = 40000
	}
	h.info["ask"], h.info["budget"] = ask, budget
	// a chain of five; the receiver is the fourth or the innermost scope
	chain := []*c12R8Scope{h.newRoot("s0")}
	for d := 1; d < 5; d++ {
		chain = append(chain, h.child(chain[d-1], "s"+strconv.Itoa(d)))
	}
	recvAt := 3 + r.Intn(2)
	recv := chain[recvAt]
	name := []string{"x", "hot_name", c12R8Name(3, 7), c12R8Name(1, 1)}[r.Intn(4)]
	ext := &c12R8Ext{vals: map[string]interface{}{}, types: map[string]reflect.Type{}}
	extAt := 1 + r.Intn(2)
	chain[extAt].ext = ext
	chain[extAt].real.SetExternalLookup(ext)
	h.define(chain[0], name, "initial", 0)
	h.defType(chain[0], name, c12Types[0], 0)
	mod := h.child(chain[0], "mod")
	var tree ast.Stmt
	if ask == "Tree" {
		var err error
		tree, err, _ = ank.Parse(name)
		if err != nil || tree == nil {
			ask = "Get"
		}
	}
	fresh := 0
	val := func() interface{} {
		fresh++
		if ask == "GetEnvFromPath" && fresh%2 == 0 {
			if fresh%4 == 0 {
				return mod.real
			}
			return h.child(chain[r.Intn(3)], "mod"+strconv.Itoa(fresh)).real
		}
		return c12R8Val(fresh)
	}
	asked := 0
	askOnce := func() {
		asked++
		switch ask {
		case "Get":
			h.get(recv, name, 0)
		case "GetValue":
			h.get(recv, name, 1)
		case "Addr":
			h.addr(recv, name)
		case "Set":
			h.set(recv, name, val())
			h.get(recv, name, 0)
		case "Get+Set":
			if asked%2 == 0 {
				h.set(recv, name, val())
			}
			h.get(recv, name, asked%2)
		case "Type":
			h.typ(recv, name)
		case "GetEnvFromPath":
			var want *env.Env
			for s := recv; s != nil && want == nil; s = s.parent {
				if v, ok := s.vals[name]; ok {
					if e, isEnv := v.(*env.Env); isEnv && e != nil {
						want = e
					}
				}
			}
			// a nearer non-module binding or a lookup object answering: the older phases accept several readings
			if hs, sh := recv.holder(name); sh || (hs != nil && want != nil && hs.vals[name] != interface{}(want)) {
				h.get(recv, name, 0)
				return
			}
			h.path(recv, []string{name}, want)
		case "Tree":
			call := func() string { return fmt.Sprintf("vm.RunContext(ctx, %s, nil, tree of %s)", recv.label, c12R8Q(name)) }
			h.calls++
			h.note(call)
			o := ank.RunCtx(context.Background(), recv.real, tree)
			if o.Panicked {
				h.viol("Tree-use", "panic", call, o.PanicSig)
				return
			}
			h.judgeLookup("Tree-use", call, recv, name, o.Val, o.Err)
		}
	}
	changes := 0
	change := func() {
		changes++
		at := chain[r.Intn(len(chain))]
		switch k := r.Intn(14); {
		case k < 2:
			h.define(at, name, val(), r.Intn(3))
		case k < 4:
			h.del(at, name)
		case k == 4:
			h.set(chain[len(chain)-1], name, val())
		case k == 5:
			if hs, _ := recv.holder(name); hs != nil {
				h.set(hs, name, val())
			}
		case k == 6:
			h.defineGlobal(at, name, val())
		case k == 7:
			h.delGlobal(chain[len(chain)-1], name)
		case k == 8:
			if _, ok := ext.vals[name]; ok {
				delete(ext.vals, name)
				delete(ext.types, name)
			} else {
				ext.vals[name] = val()
				ext.types[name] = c12Types[fresh%len(c12Types)]
			}
		case k == 9:
			h.defType(at, name, c12Types[fresh%len(c12Types)], fresh%2)
		case k == 10:
			// the receiver is replaced by its Copy (scopes below it keep the original)
			if cp := h.snapshot(recv, false, recv.label+"'"); cp != nil {
				recv = cp
				chain = append(append([]*c12R8Scope{}, chain[:recvAt]...), cp)
			}
		case k == 11:
			h.define(recv, name, val(), 2)
		case k == 12:
			h.del(recv, name)
		default:
			// make sure something binds it again
			h.define(chain[r.Intn(2)], name, val(), 0)
		}
		h.c.Tag("r8:hot:change")
	}
	reached := map[int]bool{}
	for h.calls < budget && !h.dead() {
		k := c12R8HotCounts[r.Intn(len(c12R8HotCounts))]
		if r.Intn(3) == 0 {
			k = 1 + r.Intn(6)
		}
		for i := 0; i < k && !h.dead(); i++ {
			askOnce()
		}
		reached[k] = true
		// after the run: a Copy and a DeepCopy of the receiver answer like the receiver (and are dropped)
		for _, deep := range []bool{false, true} {
			if cp := h.snapshot(recv, deep, recv.label+"*"); cp != nil {
				h.get(cp, name, 0)
				h.typ(cp, name)
				h.symbols(cp)
			}
		}
		for j := 1 + r.Intn(2); j > 0; j-- {
			change()
		}
	}
	askOnce()
	for _, s := range chain {
		h.symbols(s)
		h.typeSymbols(s)
	}
	for k := range reached {
		if k >= 255 {
			c.Tag(fmt.Sprintf("reached:identical_calls_before_change=%d", k))
		}
	}
	c.Count("r8_hot_site_calls", asked)
	c.Count("r8_hot_binding_changes", changes)
	c.Tag("r8:hot:" + ask)
	c12R8Finish(c, h, "hot/"+ask)
}

// ---------------------------------------------------------------------------
// phase stream

var c12R8Distances = []int{256, 1000, 1024, 4096}

func c12R8Stream(c *wk.Case) {
	r := c.Rng
	units := 70000
	if c.Tier == "thorough" {
		units = 300000
	} else if c.Index > 0 {
		units = 24000
	}
	c.Begin(map[string]interface{}{"stream": c.Index, "units": units})
	h := c12R8NewH(c, "history")
	h.info["units"] = units
	// the reference chain
	ref := []*c12R8Scope{h.newRoot("ref0")}
	ref = append(ref, h.child(ref[0], "ref1"))
	ref = append(ref, h.child(ref[1], "ref2"))
	refMod := h.module(ref[0], "refmod", "refmod")
	if refMod == nil {
		return
	}
	var refNames []string
	for i := 0; i < 40; i++ {
		nm := c12R8Name(i%c12R8Shapes, 1000+i)
		refNames = append(refNames, nm)
		h.define(ref[i%3], nm, c12R8Val(i), i%3)
		if i%4 == 0 {
			h.define(ref[(i+1)%3], nm, c12R8Val(i+100), 0)
		}
	}
	shared := []string{"shared", "k"}
	h.define(ref[0], "shared", "ref0-shared", 0)
	h.define(ref[1], "k", "ref1-k", 0)
	h.define(ref[2], "shared", "ref2-shared", 0)
	h.define(refMod, "k", "refmod-k", 0)
	refTypes := []string{"RT0", "RT1", "RT2", "RT3", "RT4", "ST"}
	for i, tn := range refTypes {
		h.defType(ref[i%3], tn, c12Types[i%len(c12Types)], 0)
	}
	h.defType(ref[2], "RT0", c12Types[5], 0)
	h.defType(refMod, "ST", c12Types[6], 0)
	var leaked []*c12R8Scope
	askRef := func(full bool) {
		h.checks++
		for i, nm := range refNames {
			h.get(ref[2], nm, i%2)
			h.get(ref[i%3], nm, 0)
		}
		for _, s := range append(append([]*c12R8Scope{}, ref...), refMod) {
			for _, nm := range shared {
				h.get(s, nm, 0)
			}
			h.typ(s, "ST")
			h.typ(s, "RT0")
		}
		h.path(ref[2], []string{"refmod"}, refMod.real)
		h.get(ref[2], "nosuch", 0)
		if full {
			for _, s := range ref {
				h.symbols(s)
				h.typeSymbols(s)
			}
			for _, tn := range refTypes {
				h.typ(ref[2], tn)
			}
			for i, s := range leaked {
				if i%3 == h.checks%3 {
					h.get(s, "shared", 0)
					h.get(s, "k", 0)
					h.typ(s, "ST")
					h.symbols(s)
				}
			}
		}
	}
	askRef(true)
	// re-asks: unit u asks when u - lastAsk hits the next distance of the schedule
	var sched []int
	for _, n := range c12R8Distances {
		sched = append(sched, n-1, n, n+1)
	}
	si, lastAsk := 0, 0
	distSeen := map[int]int{}
	kinds := map[string]int{}
	for u := 1; u <= units && !h.dead(); u++ {
		// one unit: a fresh scope and a pairwise distinct name
		nm := c12R8Name(u%c12R8Shapes, 2000+u)
		h.info["unit"] = u
		var s *c12R8Scope
		kind := ""
		switch k := r.Intn(12); {
		case k < 4:
			kind = "child-of-ref"
			s = h.child(ref[r.Intn(3)], "u")
		case k < 6:
			kind = "grandchild"
			s = h.child(h.child(ref[r.Intn(3)], "u^"), "u")
		case k < 8:
			kind = "root"
			s = h.newRoot("u")
		case k < 9:
			kind = "copy-of-ref"
			s = h.snapshot(ref[1+r.Intn(2)], false, "u")
		case k < 10:
			kind = "child-of-module"
			s = h.child(refMod, "u")
		case k < 11 && len(leaked) > 0:
			kind = "child-of-leaked"
			s = h.child(leaked[r.Intn(len(leaked))], "u")
		default:
			kind = "module"
			par := h.child(ref[r.Intn(3)], "u^")
			s = h.module(par, "mod", "u")
			if s != nil {
				h.path(h.child(par, "u^v"), []string{"mod"}, s.real)
			}
		}
		if s == nil {
			continue
		}
		kinds[kind]++
		// what a fresh scope answers is what its chain answers (the same question one to four times)
		for q := u % 4; q >= 0; q-- {
			h.get(s, "shared", u%2)
			h.typ(s, "ST")
		}
		h.get(s, "k", 0)
		if u%3 == 0 {
			h.get(s, nm, 0) // not bound anywhere yet
			h.set(s, nm, 1)
		}
		h.define(s, "shared", int64(u), u%3)
		h.define(s, nm, c12R8Val(u), 0)
		if u%5 == 0 && (u/4000)%2 == 0 {
			// stretches of 4000 units with type definitions alternate with stretches without any
			h.defType(s, "ST", c12Types[u%len(c12Types)], 0)
			h.typ(s, "ST")
		}
		h.get(s, "shared", 0)
		h.get(s, nm, 1)
		h.set(s, nm, c12R8Val(u+1))
		h.set(s, "k", int64(-u)) // reaches the enclosing binding, if any
		h.get(s, nm, 0)
		if u%7 == 0 {
			h.symbols(s)
		}
		if u%4 == 0 && len(leaked) < 20000 {
			leaked = append(leaked, s) // kept alive with its bindings
		} else {
			h.del(s, "shared")
			h.del(s, nm)
			h.get(s, "shared", 0)
			h.get(s, nm, 0)
		}
		if u%1500 == 0 {
			runtime.GC()
			h.c.Count("r8_forced_gcs", 1)
		}
		if u-lastAsk == sched[si%len(sched)] {
			distSeen[u-lastAsk]++
			askRef(false)
			lastAsk = u
			si++
		}
		if u%20000 == 0 {
			askRef(true)
		}
	}
	runtime.GC()
	askRef(true)
	for _, s := range leaked {
		h.get(s, "shared", 0)
		if h.dead() {
			break
		}
	}
	for d, n := range distSeen {
		c.Tag(fmt.Sprintf("reached:reask_distance=%d", d))
		c.Count("r8_reasks_at_exact_distance", n)
	}
	for k, n := range kinds {
		c.Count("r8_stream_units:"+k, n)
	}
	c.Count("r8_stream_units", units)
	c.Count("r8_stream_scopes_kept_alive", len(leaked))
	c.Tag(fmt.Sprintf("reached:distinct_scopes_and_names_in_one_process>=%d", units/10000*10000))
	c12R8Finish(c, h, "stream")
}
