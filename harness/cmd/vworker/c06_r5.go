package main

// C06 extensions (round 5):
//
//   - long numerals (phase "long"): an int64 (or the float64 of the same value)
//     against decimal numerals of 40 .. 3000 characters (random ones up to 8000) written with a fraction or
//     an exponent that denote the integer exactly, or miss it by 10^-L (above and
//     below), by one changed digit deep in the fraction, or by a half. The reference
//     is exact rational arithmetic (math/big.Rat) on the numeral as written: "the
//     string is a decimal numeral denoting that number" - a numeral that is not the
//     integer does not denote it, however far behind the point the difference sits.
//   - repeated evaluation (phase "again"): ONE `in` expression, one ==, one != and
//     one switch statement are evaluated several times from the same syntax nodes
//     (body of a C-style loop, body of a for-in loop, body of a function called once
//     per round, one parsed tree run once per round) while the values their operands
//     denote change from round to round. The varying operand sits at any depth of
//     the list literal of `in` (direct element, element of a nested list, VALUE of a
//     nested map literal, next to constant siblings) or in the subject. In every
//     round `in` and switch must agree with the == observed in that very round on the
//     very same operand expressions, != must be its negation, and == itself must be
//     what the statement prescribes for the values of that round.

import (
	"context"
	"fmt"
	"math"
	"math/big"
	"strconv"
	"strings"

	"github.com/mattn/anko/ast"
	"github.com/mattn/anko/env"

	"verifharness/internal/ank"
)

// ---------------------------------------------------------------------------
// long numerals

// integers the enumerated part is built around
var c06LongInts = []int64{0, 1, 2, -1, -2, 7, 999999, 1000000, -1000000, c06P53 + 1, math.MaxInt64, math.MinInt64}

// L = number of characters the spelling adds (digits behind the point, zeros moved
// into the exponent, leading zeros). 32 characters are 128 bits at 4 bits per
// character, 128 characters are 512 bits, 154 digits are 512 bits at log2(10) bits
// per digit: fixed working precisions of any customary size lie inside the range.
var c06LongLens = []int{40, 100, 127, 128, 129, 140, 154, 160, 200, 256, 300, 400, 512, 600, 1000, 1500, 2000, 3000}

const c06LongLenGroups = 3

var c06LongKinds = []string{"exact-frac", "above-frac", "below-frac", "exact-exp", "above-exp", "below-exp", "exact-shift", "above-shift",
	"lead-zeros", "exact-sci", "digit-changed", "int-long", "half", "above-sci"}

// c06LongSpell spells a numeral of about L extra characters related to the integer n.
// ok=false when the kind does not apply (below 0). pos selects the changed digit.
func c06LongSpell(n int64, L int, kind string, pos int) (string, bool) {
	if L < 2 {
		L = 2
	}
	abs := new(big.Int).Abs(big.NewInt(n))
	sign := ""
	if n < 0 {
		sign = "-"
	}
	d := abs.String()
	z := func(k int) string { return strings.Repeat("0", k) }
	below := func() (string, bool) {
		if abs.Sign() == 0 {
			return "", false
		}
		return new(big.Int).Sub(abs, big.NewInt(1)).String(), true
	}
	switch kind {
	case "exact-frac":
		return sign + d + "." + z(L), true
	case "above-frac":
		return sign + d + "." + z(L-1) + "1", true
	case "below-frac":
		b, ok := below()
		return sign + b + "." + strings.Repeat("9", L), ok
	case "exact-exp":
		return sign + d + z(L) + "e-" + strconv.Itoa(L), true
	case "above-exp":
		return sign + d + z(L-1) + "1e-" + strconv.Itoa(L), true
	case "below-exp":
		b, ok := below()
		return sign + b + strings.Repeat("9", L) + "e-" + strconv.Itoa(L), ok
	case "exact-shift": // 0.000d e(L+len d)
		return sign + "0." + z(L) + d + "e" + strconv.Itoa(L+len(d)), true
	case "above-shift":
		return sign + "0." + z(8) + d + z(L-1) + "1e+" + strconv.Itoa(8+len(d)), true
	case "lead-zeros":
		return sign + z(L) + d + ".0", true
	case "exact-sci":
		return sign + d[:1] + "." + d[1:] + z(L) + "e" + strconv.Itoa(len(d)-1), true
	case "above-sci":
		return sign + d[:1] + "." + d[1:] + z(L-1) + "1e" + strconv.Itoa(len(d)-1), true
	case "digit-changed":
		f := []byte(z(L))
		if pos < 0 {
			pos = -pos
		}
		f[pos%L] = byte('1' + pos%9)
		return sign + d + "." + string(f), true
	case "int-long":
		return sign + z(L) + d, true
	case "half":
		return sign + d + ".5" + z(L-1), true
	}
	return "", false
}

// longPair observes one (number, long numeral) pair in both operand orders.
func (r *c06Run) longPair(base *env.Env, n c06V, s string, kind string, full bool) {
	c := r.c
	sv := c06S(s)
	want, _ := c06Ref(n, sv)
	c.Tag("long:" + kind + ":" + n.kind() + ":" + want.String())
	if full {
		r.fullPair(base, n, sv, c06I(n.i+1))
		r.fullPair(base, sv, n, c06S(s+"0"))
		return
	}
	for _, p := range []*c06Pair{c06Var(n, sv), c06Var(sv, n), c06Lit(n, sv, 1), c06Lit(sv, n, 1)} {
		if p != nil {
			r.observe(base, p)
		}
	}
}

// number of enumerated cases of phase long
func c06LongEnumCases() int { return len(c06LongInts) * c06LongLenGroups }

func (r *c06Run) longEnum(base *env.Env, idx int) {
	n := c06LongInts[idx/c06LongLenGroups]
	cnt := 0
	for li, L := range c06LongLens {
		if li%c06LongLenGroups != idx%c06LongLenGroups {
			continue
		}
		for ki, kind := range c06LongKinds {
			s, ok := c06LongSpell(n, L, kind, L/2+ki)
			if !ok {
				continue
			}
			cnt++
			r.longPair(base, c06I(n), s, kind, (cnt+idx)%11 == 0)
			if c06IntExact(n) && (ki+li)%3 == 0 {
				// the float64 of the same value: judged by the float clause of the reference
				for _, p := range []*c06Pair{c06Var(c06F(float64(n)), c06S(s)), c06Var(c06S(s), c06F(float64(n)))} {
					r.observe(base, p)
				}
			}
		}
	}
}

func (r *c06Run) longRand(base *env.Env) {
	c := r.c
	rng := c.Rng
	for k := 0; k < 12; k++ {
		n := c06RandInt(rng)
		// log-uniform length 30 .. 8000
		L := int(math.Exp(math.Log(30) + rng.Float64()*(math.Log(8000)-math.Log(30))))
		kind := c06LongKinds[rng.Intn(len(c06LongKinds))]
		s, ok := c06LongSpell(n, L, kind, rng.Intn(1<<20))
		if !ok {
			continue
		}
		num := c06I(n)
		if rng.Intn(5) == 0 {
			num = c06F(float64(n))
		}
		sv := c06S(s)
		want, _ := c06Ref(num, sv)
		c.Tag("long:" + kind + ":" + num.kind() + ":" + want.String())
		a, b := num, sv
		if rng.Intn(2) == 0 {
			a, b = b, a
		}
		var pre strings.Builder
		binds := map[string]interface{}{}
		A, howA := c06Supply(rng, a, "p", &pre, binds)
		B, howB := c06Supply(rng, b, "q", &pre, binds)
		bind := func(e *env.Env) {
			for k, v := range binds {
				e.Define(k, v)
			}
		}
		rb := c06RenderBinds(binds)
		r.observe(base, &c06Pair{a: a, b: b, A: A, B: B, pre: pre.String(), bind: bind, mode: howA + "/" + howB, bindsS: rb})
		r.observe(base, &c06Pair{a: b, b: a, A: B, B: A, pre: pre.String(), bind: bind, mode: howB + "/" + howA, bindsS: rb})
	}
}

// ---------------------------------------------------------------------------
// repeated evaluation of the same nodes with changing operands

type c06Layer struct {
	pre, suf string
	class    string // where a value wrapped by this layer sits; "" = parentheses
	apply    func(v c06V) c06V
}

var c06Layers = []c06Layer{
	0: {"[", "]", "list-elem", func(v c06V) c06V { return c06L(v) }},
	1: {"[1, ", "]", "list-elem", func(v c06V) c06V { return c06L(c06I(1), v) }},
	2: {"[", `, "z"]`, "list-elem", func(v c06V) c06V { return c06L(v, c06S("z")) }},
	3: {`{"k": `, "}", "map-value", func(v c06V) c06V { return c06M("k", v) }},
	4: {`{"j": [2], "k": `, "}", "map-value", func(v c06V) c06V { return c06M("j", c06L(c06I(2)), "k", v) }},
	5: {`{"n": `, "}", "map-value", func(v c06V) c06V { return c06M("n", v) }},
	6: {"(", ")", "", func(v c06V) c06V { return v }},
	// the varying operand as the KEY of a map literal: innermost layer only, the varying values are strings
	// (the model has string keys; another kind of value only occurs in a subject handed in by the host)
	7: {"{", ": 1}", "map-key", func(v c06V) c06V {
		if v.k != 's' {
			return c06M("?"+v.kind(), c06I(1))
		}
		return c06M(v.s, c06I(1))
	}},
}

const c06KeyLayer = 7

var c06AgainKeys = []string{"a", "b", "k", "A", "", "1", "2"}

// wrappers, innermost layer first
var c06FixedWraps = [][]int{
	{},        // v
	{3},       // {"k": v}
	{0, 3, 5}, // {"n": {"k": [v]}}
	{0},       // [v]
	{0, 0},    // [[v]]
	{3, 1},    // [1, {"k": v}]
	{4},       // {"j": [2], "k": v}
	{3, 6},    // ({"k": v})
	{6, 3},    // {"k": (v)}
	{3, 3},    // {"k": {"k": v}}
	{0, 3},    // {"k": [v]}
	{3, 2},    // [{"k": v}, "z"]
	{7},       // {v: 1}
	{7, 0},    // [{v: 1}]
}

func c06WrapExpr(w []int, hole string) string {
	s := hole
	for _, l := range w {
		s = c06Layers[l].pre + s + c06Layers[l].suf
	}
	return s
}

// c06Norm returns a copy of v in which every map has each key once (the last
// entry wins, as in the Go map the value is handed over as): c06Derive appends
// the key "z", which a value derived from a derived value can already have.
func c06Norm(v c06V) c06V {
	w := c06V{k: v.k, b: v.b, i: v.i, f: v.f, s: v.s, u: v.u, w: v.w}
	switch v.k {
	case 'P':
		w.el = []c06V{c06Norm(v.el[0])}
	case 'L':
		w.el = make([]c06V, len(v.el))
		for j := range v.el {
			w.el[j] = c06Norm(v.el[j])
		}
	case 'M':
		for j, k := range v.keys {
			dup := false
			for _, k2 := range v.keys[j+1:] {
				dup = dup || k2 == k
			}
			if !dup {
				w.keys = append(w.keys, k)
				w.el = append(w.el, c06Norm(v.el[j]))
			}
		}
	}
	return w
}

func c06WrapVal(w []int, v c06V) c06V {
	x := c06Norm(v)
	for _, l := range w {
		x = c06Layers[l].apply(x)
	}
	return x
}

// where the varying operand sits: direct element of the list of `in` / the case
// list, element of a nested list literal, value of a nested map literal
func c06HoleClass(w []int) string {
	for _, l := range w {
		if c := c06Layers[l].class; c != "" {
			return c
		}
	}
	return "direct"
}

var c06AgainDrivers = []string{"loop", "func", "forin", "rerun"}

type c06AgainSc struct {
	driver, side, hole, holeClass string
	X                             string   // subject expression
	EL                            []string // expressions of the list of `in` = case values
	vs, xs                        []c06V   // per round: the varying value, the subject bound to x
	XV                            []c06V   // per round: value of X
	EV                            [][]c06V // per round: values of EL
}

// row layout: [in, eq0, qe0, eq1, qe1, ..., ne, sw]
func (s *c06AgainSc) forms() (exprs []string, sw string) {
	list := strings.Join(s.EL, ", ")
	exprs = append(exprs, s.X+" in ["+list+"]")
	for _, el := range s.EL {
		exprs = append(exprs, s.X+" == "+el, el+" == "+s.X)
	}
	exprs = append(exprs, s.X+" != "+s.EL[0])
	sw = "switch " + s.X + " { case " + list + ": sw = true }"
	return
}

func (s *c06AgainSc) script() string {
	exprs, sw := s.forms()
	var sb strings.Builder
	switch s.driver {
	case "loop", "forin":
		sb.WriteString("r = []\ni = 0\ng = func() { return vs[i] }\nm = {\"k\": nil}\n")
		if s.driver == "loop" {
			sb.WriteString("for i = 0; i < n; i++ {\n\tv = vs[i]\n")
		} else {
			sb.WriteString("for v in vs {\n")
		}
		sb.WriteString("\tm.k = vs[i]\n\tx = xs[i]\n\tsw = false\n\t" + sw + "\n\tr += [[" + strings.Join(exprs, ", ") + ", sw]]\n")
		if s.driver == "forin" {
			sb.WriteString("\ti++\n")
		}
		sb.WriteString("}\nr")
	case "func":
		var calls []string
		for k, ex := range exprs {
			fmt.Fprintf(&sb, "f%d = func(x, v) { return %s }\n", k, ex)
			calls = append(calls, fmt.Sprintf("f%d(xs[i], vs[i])", k))
		}
		sb.WriteString("fsw = func(x, v) { sw = false; " + sw + "; return sw }\n")
		calls = append(calls, "fsw(xs[i], vs[i])")
		sb.WriteString("r = []\nfor i = 0; i < n; i++ {\n\tr += [[" + strings.Join(calls, ", ") + "]]\n}\nr")
	case "rerun": // the tree run once per round
		sb.WriteString("sw = false\n" + sw + "\n[" + strings.Join(exprs, ", ") + ", sw]")
	}
	return sb.String()
}

func c06GoList(vs []c06V) []interface{} {
	out := make([]interface{}, len(vs))
	for j, v := range vs {
		out[j] = v.goVal()
	}
	return out
}

func c06KeyList(vs []c06V) string {
	parts := make([]string, len(vs))
	for j := range vs {
		parts[j] = vs[j].key()
	}
	return "[" + strings.Join(parts, ", ") + "]"
}

// run executes the scenario and returns one row of booleans per round.
func (r *c06Run) againRun(base *env.Env, s *c06AgainSc, src string) (rows [][]bool, errText string) {
	c := r.c
	n := len(s.vs)
	exprs, _ := s.forms()
	width := len(exprs) + 1
	hkey := "again\x00" + s.driver + "\x00" + c06KeyList(s.vs) + "\x00" + c06KeyList(s.xs)
	toRow := func(v interface{}) ([]bool, bool) {
		lst, ok := v.([]interface{})
		if !ok || len(lst) != width {
			return nil, false
		}
		row := make([]bool, width)
		for j, x := range lst {
			b, ok := x.(bool)
			if !ok {
				return nil, false
			}
			row[j] = b
		}
		return row, true
	}
	outErr := func(o ank.Out) string {
		switch {
		case o.Panicked:
			return "panic: " + o.PanicVal
		case o.Err != nil:
			return "error: " + o.Err.Error()
		}
		return "result " + ank.Render(o.Val)
	}
	c.Begin(map[string]interface{}{"script": src, "driver": s.driver, "vs": c06KeyList(s.vs), "xs": c06KeyList(s.xs)})
	if s.driver == "rerun" {
		var stmt ast.Stmt
		stmt, perr, po := ank.Parse(src)
		if perr != nil || po.Panicked {
			return nil, "parse: " + outErr(po)
		}
		for i := 0; i < n; i++ {
			e := base.NewEnv()
			e.Define("vs", c06GoList(s.vs))
			e.Define("xs", c06GoList(s.xs))
			e.Define("i", int64(i))
			e.Define("v", s.vs[i].goVal())
			e.Define("x", s.xs[i].goVal())
			e.Define("m", map[interface{}]interface{}{"k": s.vs[i].goVal()})
			o := ank.RunCtx(context.Background(), e, stmt)
			c.Eval(src+"\x00"+hkey+"\x00"+strconv.Itoa(i), true)
			c.Events(width)
			row, ok := toRow(o.Val)
			if o.Panicked || o.Err != nil || !ok {
				return nil, fmt.Sprintf("round %d: %s", i, outErr(o))
			}
			rows = append(rows, row)
		}
		return rows, ""
	}
	e := base.NewEnv()
	e.Define("vs", c06GoList(s.vs))
	e.Define("xs", c06GoList(s.xs))
	e.Define("n", int64(n))
	o := ank.Exec(e, src)
	c.Eval(src+"\x00"+hkey, true)
	c.Events(width * n)
	lst, ok := o.Val.([]interface{})
	if o.Panicked || o.Err != nil || !ok || len(lst) != n {
		return nil, outErr(o)
	}
	for _, v := range lst {
		row, ok := toRow(v)
		if !ok {
			return nil, outErr(o)
		}
		rows = append(rows, row)
	}
	return rows, ""
}

func (r *c06Run) againJudge(base *env.Env, s *c06AgainSc) {
	c := r.c
	src := s.script()
	rows, errText := r.againRun(base, s, src)
	where := s.driver + ":" + s.side + ":hole=" + s.holeClass
	c.Tag("again:" + where)
	c.Tag("again-hole-expr:" + s.hole)
	inp := func(i int, row []bool) map[string]interface{} {
		exprs, sw := s.forms()
		m := map[string]interface{}{"script": src, "driver": s.driver, "vs": c06KeyList(s.vs), "xs": c06KeyList(s.xs), "round": i}
		if row != nil {
			ob := map[string]string{}
			for j, ex := range exprs {
				ob[ex] = strconv.FormatBool(row[j])
			}
			ob[sw] = strconv.FormatBool(row[len(row)-1])
			m["observed_in_this_round"] = ob
			m["subject_value"] = s.XV[i].key()
			m["list_values"] = c06KeyList(s.EV[i])
		}
		if s.driver == "rerun" {
			m["note"] = "the script is parsed once and the tree is run once per round with x, v, i, m bound for that round"
		}
		return m
	}
	if rows == nil {
		r.viol("noresult:again:"+where, "repeated evaluation gave "+errText+" instead of one list of booleans per round", inp(0, nil))
		return
	}
	for i, row := range rows {
		round := "later"
		if i == 0 {
			round = "first"
		}
		in, ne, sw := row[0], row[len(row)-2], row[len(row)-1]
		anyE, anyQ := false, false
		for j := range s.EL {
			E, Q := row[1+2*j], row[2+2*j]
			anyE, anyQ = anyE || E, anyQ || Q
			if E != Q {
				r.viol(fmt.Sprintf("again-sym:%s:%s:eq=%v,qe=%v", where, round, E, Q),
					fmt.Sprintf("round %d: (%s == %s) = %v but the other operand order gives %v", i, s.X, s.EL[j], E, Q), inp(i, row))
			}
			want, rule := c06Ref(s.XV[i], s.EV[i][j])
			c.Tag("again-rule:" + rule + ":" + want.String())
			if want != c06Unspec && E != (want == c06True) {
				r.viol(fmt.Sprintf("again-%s:%s:%s:got=%v", rule, where, round, E),
					fmt.Sprintf("round %d: rule %q: (%s == %s) = %v, the statement prescribes %v for %s vs %s", i, rule, s.X, s.EL[j], E, want, s.XV[i].key(), s.EV[i][j].key()), inp(i, row))
			}
		}
		// `in` and switch are the existential closure of the == of this round; where == is
		// asymmetric (reported above) either operand order is accepted
		if in != anyE && in != anyQ {
			r.viol(fmt.Sprintf("again-in:%s:%s:eq=%v,in=%v", where, round, anyE, in),
				fmt.Sprintf("round %d: membership disagrees with the == of the same round on the same operands: (%s in [%s]) = %v but == with the elements gives %v",
					i, s.X, strings.Join(s.EL, ", "), in, anyE), inp(i, row))
		}
		if sw != anyE && sw != anyQ {
			r.viol(fmt.Sprintf("again-switch:%s:%s:eq=%v,switch=%v", where, round, anyE, sw),
				fmt.Sprintf("round %d: switch matching disagrees with the == of the same round on the same operands: switch %s { case %s } matched = %v but == with the case values gives %v",
					i, s.X, strings.Join(s.EL, ", "), sw, anyE), inp(i, row))
		}
		if ne == row[1] {
			r.viol(fmt.Sprintf("again-neg:%s:%s:eq=%v,ne=%v", where, round, row[1], ne),
				fmt.Sprintf("round %d: (%s != %s) = %v and (%s == %s) = %v", i, s.X, s.EL[0], ne, s.X, s.EL[0], row[1]), inp(i, row))
		}
		if anyE {
			c.Tag("again-round:" + round + ":member")
		} else {
			c.Tag("again-round:" + round + ":not-member")
		}
	}
	if c.WantSample() {
		m := inp(0, rows[0])
		m["reference"] = "per round: in = switch = OR(==), != is the negation, == follows the statement's rule for the values of the round"
		c.Sample(m)
	}
}

// a leaf that has a literal spelling
func c06LitLeaf(rng c06Rng) c06V {
	for {
		v := c06SmallLeaf(rng)
		if _, ok := v.lit(1); ok {
			return v
		}
	}
}

// againScenario builds one scenario: wrapper w, driver, side.
func c06AgainScenario(rng c06Rng, w []int, driver, side string) *c06AgainSc {
	s := &c06AgainSc{driver: driver, side: side, holeClass: c06HoleClass(w)}
	// the expression that delivers the varying value
	holes := []string{"v", "v", "vs[i]", "m.k", "g()", "(v)"}
	switch driver {
	case "func":
		holes = []string{"v", "v", "(v)"}
	case "rerun":
		holes = []string{"v", "v", "vs[i]", "m.k", "(v)"}
	}
	s.hole = holes[rng.Intn(len(holes))]
	n := 3 + rng.Intn(5)
	// the varying values: fresh, derived from the previous one, or an earlier one again
	strOnly := len(w) > 0 && w[0] == c06KeyLayer
	for i := 0; i < n; i++ {
		switch {
		case strOnly:
			s.vs = append(s.vs, c06S(c06AgainKeys[rng.Intn(len(c06AgainKeys))]))
		case i == 0:
			s.vs = append(s.vs, c06SmallLeaf(rng))
		case rng.Intn(5) < 2:
			s.vs = append(s.vs, c06Derive(rng, s.vs[i-1]))
		case rng.Intn(3) == 0:
			s.vs = append(s.vs, c06Copy(s.vs[rng.Intn(i)]))
		case rng.Intn(6) == 0:
			s.vs = append(s.vs, c06RandContainer(rng, 1))
		default:
			s.vs = append(s.vs, c06SmallLeaf(rng))
		}
	}
	for i := range s.vs {
		s.vs[i] = c06Norm(s.vs[i])
	}
	// constant further elements (literals), some of them equal to wrapped values of a round
	nExtra := rng.Intn(3)
	if side == "subject" {
		nExtra = 1 + rng.Intn(3)
	}
	var extraV []c06V
	var extraS []string
	for len(extraV) < nExtra {
		var cv c06V
		switch rng.Intn(4) {
		case 0:
			cv = c06LitLeaf(rng)
		default:
			inner := s.vs[rng.Intn(n)]
			if _, ok := inner.lit(1); !ok || rng.Intn(4) == 0 {
				inner = c06LitLeaf(rng)
			}
			cv = c06WrapVal(w, inner)
		}
		l, ok := cv.lit(rng.Intn(2))
		if !ok {
			continue
		}
		extraV, extraS = append(extraV, cv), append(extraS, l)
	}
	if side == "subject" {
		// the subject varies, the list is written with constants only
		s.X = c06WrapExpr(w, s.hole)
		s.EL = extraS
		for i := 0; i < n; i++ {
			s.xs = append(s.xs, c06Nil())
			s.XV = append(s.XV, c06WrapVal(w, s.vs[i]))
			s.EV = append(s.EV, extraV)
		}
		return s
	}
	// the list varies: the element with the hole among the constants
	s.X = "x"
	pos := rng.Intn(nExtra + 1)
	for j := 0; j <= nExtra; j++ {
		switch {
		case j == pos:
			s.EL = append(s.EL, c06WrapExpr(w, s.hole))
		case j < pos:
			s.EL = append(s.EL, extraS[j])
		default:
			s.EL = append(s.EL, extraS[j-1])
		}
	}
	for i := 0; i < n; i++ {
		// the subject of the round: the wrapped value of this round, of the first round, of the
		// previous round (what a stale list would hold), a near miss, a constant, anything
		var x c06V
		switch q := rng.Intn(20); {
		case q < 7:
			x = c06WrapVal(w, s.vs[i])
		case q < 10:
			x = c06WrapVal(w, s.vs[0])
		case q < 13 && i > 0:
			x = c06WrapVal(w, s.vs[i-1])
		case q < 16:
			x = c06WrapVal(w, c06Derive(rng, s.vs[i]))
		case q < 18 && nExtra > 0:
			x = c06Copy(extraV[rng.Intn(nExtra)])
		case q < 19:
			x = c06Norm(c06RandValue(rng))
		default:
			x = c06WrapVal(w, s.vs[rng.Intn(n)])
		}
		s.xs = append(s.xs, x)
		s.XV = append(s.XV, x)
		ev := make([]c06V, 0, nExtra+1)
		for j := 0; j <= nExtra; j++ {
			switch {
			case j == pos:
				ev = append(ev, c06WrapVal(w, s.vs[i]))
			case j < pos:
				ev = append(ev, extraV[j])
			default:
				ev = append(ev, extraV[j-1])
			}
		}
		s.EV = append(s.EV, ev)
	}
	return s
}

// one case of phase again: every fixed wrapper meets every driver over the case
// indices (index mod |wrappers| picks the wrapper, the driver rotates), further
// scenarios use random wrappers.
func (r *c06Run) againCase(base *env.Env) {
	c := r.c
	rng := c.Rng
	nw := len(c06FixedWraps)
	for k := 0; k < 8; k++ {
		var w []int
		switch {
		case k < 4:
			w = c06FixedWraps[(c.Index+k*5)%nw]
		default:
			for d := rng.Intn(4); d > 0; d-- {
				if len(w) == 0 && rng.Intn(6) == 0 {
					w = append(w, c06KeyLayer)
					continue
				}
				w = append(w, rng.Intn(c06KeyLayer))
			}
		}
		driver := c06AgainDrivers[(c.Index/nw+k)%len(c06AgainDrivers)]
		side := "list"
		if k%4 == 3 {
			side = "subject"
		}
		r.againJudge(base, c06AgainScenario(rng, w, driver, side))
	}
}
