package main

// C02, round 8 ("volume and history"). The older phases start a fresh worker for a few small
// cases, cancel every program a few probe events after it has started, run every parsed tree
// once and never leave anything behind. Five phases reach what that cannot; the oracle is C02's
// own and is applied to EVERY run: after cancel() has returned the call returns with the error
// "execution interrupted", at most a small logical budget of probe events follows the cancel, and
// a call that does not come back is classified from goroutine states and process CPU time.
//
//   - leftover: ONE process in which EARLIER runs (vm.Execute, live contexts that are never
//     cancelled, cancelled contexts) have left 1000-6000 (thorough 20000) goroutines of `go`
//     statements alive - parked in a receive, a send, a range over a channel nobody feeds, or
//     inside a host Go call - before the runs under test (every form of go statement followed by
//     a spinning or blocked core, and cores without any go statement) start and are cancelled.
//   - crowd: the cancellation arrives while 255-4097 (thorough 20000) goroutines of THIS run are
//     alive: blocked in channel operations, or woken again and again by a host feeder so that
//     every one of them has to notice the cancellation by itself.
//   - rerun: one parsed tree is run 1100 (thorough 4200) times with vm.RunContext, every run under
//     a context of its own (plain, derived, with values, with a far deadline, cancelled through
//     its parent) and every run cancelled and judged; same / child / fresh environments, garbage
//     collections in between.
//   - late: the cancel arrives after the loop has gone round / the recursion has descended / the
//     channel operation has succeeded 255..257, 1000, 1023..1025, 4095..4097, 65535..65537
//     (thorough 200000) times; cores whose condition, callee, container or argument changes kind
//     from round to round; statement lists, block nesting, containers, buffered channels, pending
//     defers and name tables of those sizes; sources with 4 KiB / 64 KiB of multi-byte text.
//   - stream: one case is one history of 12000 (thorough 61000) pairwise distinct programs, each
//     run under a context of its own construction and cancelled (or ending by itself under a
//     context that is never cancelled and then dropped), garbage collections in between, while a
//     fixed reference set is asked again after exactly N-1, N, N+1 other programs for N in 256,
//     1000, 1024, 4096.
//
// No phase knows a table, counter or threshold of the code under test.

import (
	"context"
	"fmt"
	"runtime"
	"strings"
	"sync"
	"sync/atomic"
	"time"

	"github.com/mattn/anko/ast"
	"github.com/mattn/anko/env"

	"verifharness/internal/ank"
	"verifharness/internal/fw"
	"verifharness/internal/wk"
)

const c02R8Rule = " Round 8 (volume and history; c02_r8.go; the oracle of the older phases - return, error text, probe budget, goroutine-state classification - applied to every run): " +
	"phase leftover: one case = one process in which earlier runs (vm.Execute; ExecuteContext under live contexts that are never cancelled; runs that were themselves cancelled and judged) have left 1000 / 4097 / 6000 (thorough also 255, 1024, 4096, 10000, 20000) goroutines started by go statements alive - parked in a receive, a receive with ok, a send, a range over a channel nobody feeds (uncancelled contexts) or inside a host Go call (any context) - spread over 8-40 earlier runs (each of which also started as many goroutines that ended at once) and every form of go statement (function of 0/1/4/6 parameters, variadic, literal, map member); then 16 programs (go statement of every form followed by a spinning or blocked core, goroutine spinning under a blocked parent, a loop that starts a goroutine per round, and cores without any go statement) are run under fresh contexts and cancelled, synchronously by their k-th probe or asynchronously once they announced their core; the leftovers are released at the end of the case. " +
	"phase crowd: the cancellation arrives while 255 / 1000 / 1024 / 4097 (thorough 10000, 20000) goroutines of the run under test are alive: blocked in receive / send / range / receive-with-ok on shared or own channels with the parent spinning or blocked, or each looping `for { v = <- feed; tick() }` while a host feeder keeps waking them up until well after the cancel (every goroutine has to see the cancellation itself: budget = one probe per goroutine). " +
	"phase rerun: one parsed tree (every core of the main table that does not cancel itself and the round-8 cores, bare (quick tier: every second one, alternating with the seed); every wrapper that needs no host state once, as the last statement, cores rotating with the seed; thorough: PRNG pairs too) is run 1100 (thorough 4200; quick tier: 260 for two thirds of the twelve 64-level expression recursions, rotating with the seed) times by vm.RunContext, every run under a context of its own (WithCancel, WithCancel below WithValue, WithTimeout of an hour, a child cancelled through its parent, a WithValue wrapper around a cancelled parent) in the same, a child or a fresh environment, cancelled by its k-th probe (k varies 1-5 from run to run) or once blocked, and judged; runtime.GC() every 256 runs. " +
	"phase late: the cancellation arrives LATE: every spinning core of the main table and 12 round-8 cores whose loop condition, callee, iterated container or argument changes kind from round to round (or that make a closure, a channel, a goroutine, a defer, a caught error per round, or grow a list / map) are cancelled by their N-th probe for N in 255..257, 1000, 1023..1025, 4095..4097 and, for every third case (rotating with the seed), one of 65535..65537 (thorough: all three for every case, 200000 and for three cores 1000000; recursions to 12000); blocked-late: channel loops (receive statement, receive with ok, range, send, forwarding in both halves; at top level, in a function, in a goroutine under a blocked parent) whose operation has succeeded N times on a buffered channel of that capacity before it blocks; sizes: statement lists of N probes in one loop body, N-fold nesting of if / for-in / try / function-literal blocks around the core (N to 4097, thorough 12000), for-in over lists and maps of N entries cancelled at a PRNG-chosen element, N pending deferred script functions, N names defined in the environment, a source prefix of 4 KiB / 64 KiB of 2-, 3- and 4-byte characters at four alignments. " +
	"phase stream: one case = one history in one process: 12000 (thorough 61000) pairwise distinct programs (core x 0-2 wrappers x a serial-numbered name, parsed each time) in a long-lived environment that collects their names, child environments and fresh ones, under contexts of eight constructions, three quarters cancelled and judged, one quarter ending by themselves under contexts that are never cancelled and dropped; runtime.GC() every 1500 programs; a reference set of 14 programs (every loop form, recursion through the direct and the reflect path, callee, try, receive, send, range, goroutine, `??`, callback) is asked again after exactly N-1, N, N+1 other programs for N in 256, 1000, 1024, 4096 (thorough: 8192, 16384 too; the reference set is cut into three groups, one per distance class, which rotate with the case index)."

var c02R8Assumptions = []string{
	"round 8: how often a loop has gone round, how deep a recursion is, how many goroutines (of this or of earlier runs) are alive, how many runs, contexts and programs the process has seen and how often a tree was run are not inputs of the property: the probe budget of a late, large or repeated case is the budget of the small first one (statement lists and containers of N entries count as one probe per statement / element, not N per cycle)",
	"round 8: goroutines left by EARLIER runs belong to those runs: they are not judged, only released at the end of the case (their channels are closed / their host calls return); a goroutine of the run under test that is woken after the cancel may finish the statement it is in (one probe per live goroutine), and whether goroutines that stay parked after the call has returned ever end is counted, not judged (the statement speaks of the call)",
	"round 8: waiting for a program to reach its core (entered(), N probe events) ends when the process stops making progress for 2 s; that expiry only schedules the cancel and decides nothing. A call that has not returned 4 s after the cancel is a violation only if two goroutine-state samples show the interpreter goroutine parked in vm frames, or the process has burnt 1.5 s of CPU since the cancel; otherwise inconclusive",
}

// ---------------------------------------------------------------------------
// plan and dispatch

func c02R8Phases(tier string) []fw.Phase {
	nLeft, nCrowd, nRerun, nLate, nStream := 3, 8, len(c02R8RerunCores())+len(c02R8WrapperNames), c02R8LateCases(), 1
	if tier == "thorough" {
		nLeft, nCrowd, nRerun, nLate, nStream = 16, 36, 6*(len(c02R8RerunCores())+len(c02R8WrapperNames)), 4*c02R8LateCases(), 6
	}
	return []fw.Phase{
		{Name: "leftover", Cases: nLeft, Chunk: 1, TimeoutS: 900, Jobs: 3, MemMB: 6144},
		{Name: "crowd", Cases: nCrowd, Chunk: 1, TimeoutS: 900, Jobs: 4, MemMB: 6144},
		{Name: "rerun", Cases: nRerun, Chunk: 2, TimeoutS: 900},
		{Name: "late", Cases: nLate, Chunk: 2, TimeoutS: 900, MemMB: 6144},
		{Name: "stream", Cases: nStream, Chunk: 1, TimeoutS: 1800, MemMB: 6144},
	}
}

// c02R8Run runs a case of one of the round-8 phases; false when the phase is not one of them.
func c02R8Run(c *wk.Case) bool {
	switch c.Phase {
	case "leftover":
		c02R8Leftover(c)
	case "crowd":
		c02R8Crowd(c)
	case "rerun":
		c02R8Rerun(c)
	case "late":
		c02R8Late(c)
	case "stream":
		c02R8Stream(c)
	default:
		return false
	}
	return true
}

// ---------------------------------------------------------------------------
// probe, environment, judged run

type c02R8Probe struct {
	ticks, after, ups int64
	cancelled         int32
	cancelling        int32 // set before cancel() is called (cancelled: after it has returned)
	k                 int64 // the k-th probe cancels (0: nobody inside the program does)
	reachN            int64 // reachedCh is closed by the reachN-th probe
	cancel            context.CancelFunc
	cancelledCh       chan struct{}
	enteredCh         chan struct{}
	reachedCh         chan struct{}
	cOnce, eOnce      sync.Once
	entered           int32
	cycle             int64 // state of the kind-changing host functions
}

func c02R8NewProbe(cancel context.CancelFunc, k int64) *c02R8Probe {
	return &c02R8Probe{k: k, cancel: cancel, cancelledCh: make(chan struct{}), enteredCh: make(chan struct{}), reachedCh: make(chan struct{})}
}

func (p *c02R8Probe) doCancel() {
	atomic.StoreInt32(&p.cancelling, 1)
	p.cancel()
	atomic.StoreInt32(&p.cancelled, 1)
	p.cOnce.Do(func() { close(p.cancelledCh) })
}

func (p *c02R8Probe) tick() {
	n := atomic.AddInt64(&p.ticks, 1)
	if atomic.LoadInt32(&p.cancelled) == 1 {
		atomic.AddInt64(&p.after, 1)
	}
	if p.k > 0 && n == p.k {
		p.doCancel()
	}
	if p.reachN > 0 && n == p.reachN {
		close(p.reachedCh)
	}
}

func (p *c02R8Probe) progress() int64 { return atomic.LoadInt64(&p.ticks) + atomic.LoadInt64(&p.ups) }

// c02R8Root returns an environment with the host functions that keep no state of a run.
func c02R8Root() *env.Env {
	e := ank.NewCoreEnv()
	e.Define("ident", func(a interface{}) interface{} { return a })
	e.Define("apply", func(f func()) { f() })
	e.Define("applyE", func(f func() error) error { return f() })
	e.Define("applyV", func(f func(int64) int64, n int64) int64 { return f(n) })
	return e
}

// c02R8Bind returns a child of parent in which the probe functions of one run are defined. A
// goroutine that an earlier run left behind resolves `tick` in the child of ITS run, so probes of
// different runs never mix.
func c02R8Bind(parent *env.Env, p *c02R8Probe) *env.Env {
	e := parent.NewEnv()
	e.Define("tick", func() { p.tick() })
	e.Define("tickT", func() bool { p.tick(); return true })
	e.Define("tickI", func() int64 { p.tick(); return 0 })
	e.Define("entered", func() {
		atomic.StoreInt32(&p.entered, 1)
		p.eOnce.Do(func() { close(p.enteredCh) })
	})
	e.Define("up", func() { atomic.AddInt64(&p.ups, 1) })
	e.Define("hold", &c02Holder{between: func() {}})
	e.Define("hsrc", make(chan int64, 1))
	e.Define("hdst", make(chan int64))
	e.Define("never", make(chan int64))
	e.Define("never2", make(chan int64))
	// values whose kind changes from call to call
	e.Define("truthy", func() interface{} {
		vs := []interface{}{true, int64(1), "x", 2.5, []interface{}{int64(0)}, map[string]interface{}{"a": false}, int64(-1), "false", 1e300, int32(7)}
		return vs[int(atomic.AddInt64(&p.cycle, 1))%len(vs)]
	})
	e.Define("nextc", func() interface{} {
		vs := []interface{}{[]interface{}{int64(1), "b"}, []int64{1}, map[string]interface{}{"a": int64(1)}, []string{"x", "y", "z"}, map[int64]bool{1: true}, []float64{0.5}}
		return vs[int(atomic.AddInt64(&p.cycle, 1))%len(vs)]
	})
	e.Define("nexta", func() interface{} {
		vs := []interface{}{int64(1), "s", 1.5, nil, []interface{}{}, true, map[string]interface{}{}}
		return vs[int(atomic.AddInt64(&p.cycle, 1))%len(vs)]
	})
	return e
}

type c02R8Spec struct {
	phase, form, desc string
	kind              string // spin | blocked
	src               string
	stmt              ast.Stmt // when set, vm.RunContext on this tree instead of ExecuteContext(src)
	env               *env.Env
	p                 *c02R8Probe
	ctx               context.Context
	sync              bool          // the p.k-th probe cancels; otherwise the harness does, once the program ...
	awaitReach        bool          // ... has executed p.reachN probes (otherwise: has called entered())
	delay             time.Duration // ... and this pause has passed
	budget            int64
	settle            bool // the program has goroutines of its own: give them a moment before the count is read
	history           string
	quiet             bool // no sample
}

//go:noinline
func c02R8Call(s *c02R8Spec) ank.Out {
	if s.stmt != nil {
		return ank.RunCtx(s.ctx, s.env, s.stmt)
	}
	return ank.ExecCtx(s.ctx, s.env, s.src)
}

func c02R8Clip(s string) string {
	if len(s) > 3000 {
		return s[:1500] + fmt.Sprintf("\n... (%d bytes in all; the case is rebuilt from seed, phase and index) ...\n", len(s)) + s[len(s)-1000:]
	}
	return s
}

// await waits for ch (true) or for the end of the call / a standstill of 2 s (false); the
// standstill only ends the waiting, no verdict is drawn from it.
func (p *c02R8Probe) await(done, ch <-chan struct{}) bool {
	last := p.progress()
	t := time.NewTimer(2 * time.Second)
	defer t.Stop()
	for i := 0; i < 60; i++ {
		select {
		case <-ch:
			return true
		case <-done:
			return false
		case <-t.C:
			cur := p.progress()
			if cur == last {
				return false
			}
			last = cur
			t.Reset(2 * time.Second)
		}
	}
	return false
}

// c02R8Exec runs one program, cancels it and judges the outcome. Result: "ok", "trivial" (the
// program was not running when the cancel landed), "viol", or "stuck" (the call has not returned:
// the process is poisoned, the caller must release what it holds and end the worker).
func c02R8Exec(c *wk.Case, s *c02R8Spec) string {
	p := s.p
	input := map[string]interface{}{"case": s.desc, "program": c02R8Clip(s.src)}
	if s.history != "" {
		input["history_of_the_process"] = s.history
	}
	c.Begin(input)
	var o ank.Out
	done := make(chan struct{})
	go func() {
		o = c02R8Call(s)
		close(done)
	}()
	isDone := func() bool {
		select {
		case <-done:
			return true
		default:
			return false
		}
	}
	if s.sync {
		if !p.await(done, p.cancelledCh) && atomic.LoadInt32(&p.cancelling) == 0 {
			if isDone() {
				c.Eval(s.desc, false)
				c.Tag("not-running-at-cancel", "r8:ended-early:"+s.phase+":"+ank.AbstractMsg(ank.ErrText(o.Err)))
				return "trivial"
			}
			// the program stands still before its k-th probe: cancel from outside and judge as usual
			c.Tag("r8:standstill-before-cancel:" + s.phase)
			p.doCancel()
		}
	} else {
		ch := p.enteredCh
		if s.awaitReach {
			ch = p.reachedCh
		}
		if !p.await(done, ch) && !isDone() {
			c.Tag("r8:standstill-before-cancel:" + s.phase)
		}
		if s.delay > 0 {
			time.Sleep(s.delay)
		}
		p.doCancel()
	}
	cpu0 := procCPU()
	cancelledAt := time.Now() // for the text of a report only
	returned := false
	t := time.NewTimer(4 * time.Second)
	select {
	case <-done:
		returned = true
	case <-t.C:
	}
	t.Stop()
	nontrivial := atomic.LoadInt64(&p.ticks) > 0 || atomic.LoadInt32(&p.entered) == 1 || s.kind == "blocked"
	c.Eval(s.desc, nontrivial)
	c.Events(int(atomic.LoadInt64(&p.ticks)))
	sigTail := "r8-" + s.phase + ":" + s.form
	if !returned {
		st1, st2 := "", ""
		for round := 0; round < 60 && !returned; round++ {
			s1 := c02R8Stacks()
			time.Sleep(300 * time.Millisecond)
			s2 := c02R8Stacks()
			st1, st2 = c02R8Classify(s1), c02R8Classify(s2)
			if (st1 == "parked-in-vm" && st2 == "parked-in-vm") || (st1 == "host-call" && st2 == "host-call") || procCPU()-cpu0 >= 3.0 {
				break
			}
			// neither parked nor out of CPU budget yet: keep waiting (a loaded machine)
			select {
			case <-done:
				returned = true
			case <-time.After(700 * time.Millisecond):
			}
		}
		if !returned {
			burn := procCPU() - cpu0
			detail := fmt.Sprintf("the call had not returned %.0f s after cancel() returned; interpreter goroutine state: %s / %s; process CPU since cancel: %.2f s; probe events before / after cancel: %d / %d; goroutines in the process: %d", time.Since(cancelledAt).Seconds(), st1, st2, burn, atomic.LoadInt64(&p.ticks), atomic.LoadInt64(&p.after), runtime.NumGoroutine())
			switch {
			case st1 == "host-call" && st2 == "host-call":
				c.Excluded("parked-inside-one-host-call")
			case st1 == "parked-in-vm" && st2 == "parked-in-vm":
				c.Violation("not-stopped:"+s.kind+":parked-in-vm:"+sigTail, detail, input)
			case burn >= 1.5 || atomic.LoadInt64(&p.after) > 1000:
				c.Violation("not-stopped:"+s.kind+":still-running:"+sigTail, detail, input)
			default:
				c.Inconclusive("no-return-unclassified", detail, input)
			}
			return "stuck"
		}
	}
	if s.settle {
		// goroutines of the program notice the cancellation on their own
		for i, last := 0, int64(-1); i < 20; i++ {
			time.Sleep(50 * time.Microsecond)
			a := atomic.LoadInt64(&p.after)
			if a == last && i > 0 {
				break
			}
			last = a
		}
	}
	if o.Panicked {
		c.Violation(o.PanicSig, "panic: "+o.PanicVal, input)
		return "viol"
	}
	errText := ank.ErrText(o.Err)
	if errText != "execution interrupted" {
		c.Violation("swallowed:"+s.kind+":"+sigTail, fmt.Sprintf("after the cancel (%d probe events into the run) the call returned (%s, error %q) instead of the error \"execution interrupted\"", atomic.LoadInt64(&p.ticks), c02R8Clip(ank.Render(o.Val)), errText), input)
		return "viol"
	}
	if a := atomic.LoadInt64(&p.after); a > s.budget {
		c.Violation("ran-on:"+s.kind+":"+sigTail, fmt.Sprintf("%d probe events were executed after cancel() had returned (budget %d; %d before the cancel): the script carried on", a, s.budget, atomic.LoadInt64(&p.ticks)-a), input)
		return "viol"
	}
	c.Count("post_cancel_events", int(atomic.LoadInt64(&p.after)))
	if !s.quiet && c.WantSample() {
		c.Sample(map[string]interface{}{"case": s.desc, "program": c02R8Clip(s.src), "history_of_the_process": s.history, "ticks": atomic.LoadInt64(&p.ticks), "ticks_after_cancel": atomic.LoadInt64(&p.after), "error": errText})
	}
	return "ok"
}

func c02R8Stacks() string {
	for n := 8 << 20; ; n *= 4 {
		buf := make([]byte, n)
		if m := runtime.Stack(buf, true); m < n || n >= 512<<20 {
			return string(buf[:m])
		}
	}
}

// c02R8Classify: c02Classify for the goroutine that executes c02R8Call
func c02R8Classify(dump string) string {
	i := strings.Index(dump, "main.c02R8Call")
	if i < 0 {
		return "not-found"
	}
	lo := strings.LastIndex(dump[:i], "\n\n")
	if lo < 0 {
		lo = 0
	} else {
		lo += 2
	}
	hi := strings.Index(dump[i:], "\n\n")
	if hi < 0 {
		hi = len(dump)
	} else {
		hi += i
	}
	return c02Classify(strings.Replace(dump[lo:hi], "main.c02R8Call", "main.c02Exec", 1))
}

// ---------------------------------------------------------------------------
// programs

// wrappers of the main table that need nothing but the host functions of c02R8Root / c02R8Bind
var c02R8WrapperNames = []string{"func0", "func1", "func4", "func6", "func-variadic", "func-spread-call", "anon-call", "member-call", "module-func",
	"module-body", "go-parent-blocked", "try-body", "try-body-finally", "catch-body", "finally-body", "coalesce-left", "coalesce-left-stmt", "coalesce-right",
	"ternary-arm", "call-argument", "deferred-callee", "deferred-callee-after-error", "deferred-toplevel", "switch-case", "if-then", "else-branch",
	"forin-once", "try-body-empty-catch", "try-call-empty-catch", "callback-func-type", "callback-error-result", "callback-struct-field-script-call"}

var c02R8WrapperIdx []int

func c02R8Wrappers() []int {
	if c02R8WrapperIdx == nil {
		for _, n := range c02R8WrapperNames {
			for i, w := range c02Wrappers {
				if w.name == n {
					c02R8WrapperIdx = append(c02R8WrapperIdx, i)
				}
			}
		}
	}
	return c02R8WrapperIdx
}

// cores added by round 8: something changes from round to round
var c02R8HotCores = []c02Core{
	{name: "r8-loop-condition-changing-kind", src: "for truthy() { tick() }", ticks: 1},
	{name: "r8-if-condition-changing-kind", src: "for { if truthy() { tick() } else { tick() } }", ticks: 1},
	{name: "r8-ternary-and-logic-changing-kind", src: "for { x = truthy() ? tickI() : tickI(); y = truthy() && truthy() || truthy() }", ticks: 1},
	{name: "r8-call-site-changing-callee", src: "for { cs[ci % 7](); ci++ }", ticks: 1,
		setup: "func c0() { tick() }\nc1 = func() { tick() }\ncm = {\"f\": func() { tick() }}\nmodule CM { func f() { tick() } }\nfunc mkc() { return func() { tick() } }\ncs = [c0, c1, cm.f, CM.f, tick, mkc(), mkc()]\nci = 0"},
	{name: "r8-call-site-changing-argument-kinds", src: "for { c1(nexta()); c6(nexta(), 1, nexta(), 2, nexta(), 3); cv(nexta(), nexta()) }", ticks: 3,
		setup: "func c1(a) { tick() }\nfunc c6(a, b, c, d, e, f) { tick() }\nfunc cv(a...) { tick() }"},
	{name: "r8-forin-changing-container", src: "for { for x in nextc() { tick() } }", ticks: 3},
	{name: "r8-recursion-changing-argument", src: "func rec(a) { tick(); rec(nexta()) }\nrec(1)", ticks: 1},
	{name: "r8-closure-per-round", src: "for { f = func() { tick() }; f() }", ticks: 1},
	{name: "r8-defer-per-round", src: "func dr() { defer func() { dx = 1 }(); tick() }\nfor { dr() }", ticks: 1},
	{name: "r8-goroutine-per-round", src: "for { go func() { }(); tick() }", ticks: 1},
	{name: "r8-channel-per-round", src: "for { rc = make(chan int64, 1); rc <- 1; v = <- rc; tick() }", ticks: 1},
	{name: "r8-growing-list-and-map", src: "gl = []\ngm = {}\ngi = 0\nfor { gl += [gi]; gm[gi] = gl[gi]; gi++; tick() }", ticks: 1},
}

func c02R8IsRecursion(core c02Core) bool {
	return strings.HasPrefix(core.name, "recursion-") && !strings.HasPrefix(core.name, "recursion-expr") || core.name == "r8-recursion-changing-argument"
}

// c02R8Program builds (core, wrappers, trailing) like the older phases; asynchronously cancelled
// programs announce themselves by entered() as their first statement
func c02R8Program(core c02Core, wrappers []int, trailing, announce bool) string {
	cc := c02Case{custom: &core, wrappers: wrappers, trailing: trailing}
	_, src := cc.sources()
	if announce {
		src = "entered()\n" + src
	}
	return src
}

func c02R8Budget(core c02Core, wrappers []int) int64 { return int64(2*core.ticks + 2 + len(wrappers)) }

func c02R8HasGo(src string) bool { return strings.Contains(src, "go ") }

// contexts of different construction; the returned cancel function cancels the context the run
// gets (directly or through its parent), release frees what else was made
func c02R8Context(variant int) (ctx context.Context, cancel context.CancelFunc, name string) {
	type key struct{ n int }
	switch variant % 8 {
	case 0:
		ctx, cancel = context.WithCancel(context.Background())
		return ctx, cancel, "WithCancel"
	case 1:
		ctx, cancel = context.WithCancel(context.WithValue(context.Background(), key{1}, "v"))
		return ctx, cancel, "WithCancel(WithValue)"
	case 2:
		ctx, cancel = context.WithTimeout(context.Background(), time.Hour)
		return ctx, cancel, "WithTimeout(1h)"
	case 3:
		parent, pcancel := context.WithCancel(context.Background())
		ctx, c2 := context.WithCancel(parent)
		return ctx, func() { pcancel(); c2() }, "child-cancelled-through-parent"
	case 4:
		parent, pcancel := context.WithCancel(context.Background())
		return context.WithValue(context.WithValue(parent, key{1}, 1), key{2}, 2), pcancel, "WithValue(WithValue(cancelled-parent))"
	case 5:
		ctx, cancel = context.WithDeadline(context.Background(), time.Now().Add(2*time.Hour))
		return ctx, cancel, "WithDeadline(2h)"
	case 6:
		parent, pcancel := context.WithTimeout(context.Background(), time.Hour)
		ctx, c2 := context.WithCancel(parent)
		return ctx, func() { c2(); pcancel() }, "WithCancel(WithTimeout)"
	default:
		g, gcancel := context.WithCancel(context.Background())
		p1, c1 := context.WithCancel(g)
		ctx, c2 := context.WithCancel(context.WithValue(p1, key{3}, 3))
		return ctx, func() { gcancel(); c1(); c2() }, "grandchild-cancelled-through-grandparent"
	}
}

// ---------------------------------------------------------------------------
// phase leftover

var c02R8GoForms = []struct{ name, def, start string }{
	{"literal-0", "", "go func() {\n$B\n}()"},
	{"named-0", "func lg() {\n$B\n}", "go lg()"},
	{"named-1", "func lg(a) {\n$B\n}", "go lg(li)"},
	{"named-4", "func lg(a, b, c, d) {\n$B\n}", "go lg(li, 2, 3, 4)"},
	{"named-6-reflect-path", "func lg(a, b, c, d, e, f) {\n$B\n}", "go lg(li, 2, 3, 4, 5, 6)"},
	{"variadic", "func lg(a...) {\n$B\n}", "go lg(li, 2)"},
	{"variadic-spread", "func lg(a...) {\n$B\n}", "go lg([li, 2]...)"},
	{"map-member", "lgm = {\"f\": func(a) {\n$B\n}}", "go lgm.f(li)"},
	{"literal-2", "", "go func(a, b) {\n$B\n}(li, 2)"},
}

// how a leftover goroutine parks: a script channel operation (stays only under a context that is
// never cancelled) or a host Go call (stays whatever happens to the context)
var c02R8Parks = []struct {
	name, body string
	host       bool
}{
	{"receive", "up()\n<- lblock", false},
	{"receive-ok", "up()\nlv, lok = <- lblock", false},
	{"range", "up()\nfor lv in lblock { }", false},
	{"send", "up()\nlsend <- 1", false},
	{"host-call", "up()\nhpark()", true},
}

type c02R8Held struct {
	mu      sync.Mutex
	release []func()
}

func (h *c02R8Held) add(f func()) { h.mu.Lock(); h.release = append(h.release, f); h.mu.Unlock() }
func (h *c02R8Held) releaseAll() {
	h.mu.Lock()
	defer h.mu.Unlock()
	for _, f := range h.release {
		f()
	}
	h.release = nil
}

// c02R8LeaveGoroutines runs earlier runs that together leave `want` goroutines of go statements
// alive. Returns how many are up and a description.
func c02R8LeaveGoroutines(c *wk.Case, root *env.Env, held *c02R8Held, want int, allowScriptParks bool) (int, string) {
	total, runs, incomplete := 0, 0, 0
	var kinds = map[string]int{}
	perRun := want/(8+c.Rng.Intn(33)) + 1
	for total < want {
		m := perRun
		if total+m > want {
			m = want - total
		}
		gf := c02R8GoForms[c.Rng.Intn(len(c02R8GoForms))]
		park := c02R8Parks[c.Rng.Intn(len(c02R8Parks))]
		// 0 vm.Execute, 1 live context never cancelled, 2 cancelled and judged (host parks only); most
		// of what earlier runs leave behind is alive, and the kinds alternate from the first run on
		ctxKind := []int{0, 1, 0, 1, 2}[(runs+c.Index)%5]
		if !allowScriptParks {
			ctxKind = 2
		}
		if ctxKind == 2 {
			park = c02R8Parks[4]
		}
		lblock, lsend, hblock := make(chan int64), make(chan int64), make(chan struct{})
		ctx, cancel := context.WithCancel(context.Background())
		k := int64(0)
		if ctxKind == 2 {
			k = int64(1 + c.Rng.Intn(5))
		}
		p := c02R8NewProbe(cancel, k)
		e := c02R8Bind(root, p)
		e.Define("lblock", lblock)
		e.Define("lsend", lsend)
		e.Define("hpark", func() { <-hblock })
		e.Define("lm", int64(m))
		// a host call that returns when the goroutines of this run have come up (or do not get any further)
		e.Define("hwait", func() {
			for i, last, same := 0, int64(-1), 0; i < 40000 && same < 4000; i++ {
				n := atomic.LoadInt64(&p.ups)
				if n >= int64(m) {
					return
				}
				if n == last {
					same++
				} else {
					last, same = n, 0
				}
				time.Sleep(500 * time.Microsecond)
			}
		})
		// as many goroutines of the earlier run end at once as park
		src := "for li = 0; li < lm; li++ { go func(a) { x = a }(li) }\n" + gf.def + "\nfor li = 0; li < lm; li++ {\n" + ind(gf.start) + "\n}"
		src = strings.ReplaceAll(src, "$B", ind(park.body))
		held.add(func() { close(lblock); close(hblock); cancel() })
		held.add(func() {
			// senders: take what they offer until their context is cancelled (above) and they are gone
			go func() {
				for i := 0; i < m; i++ {
					select {
					case <-lsend:
					case <-time.After(50 * time.Millisecond):
						return
					}
				}
			}()
		})
		runs++
		kinds[park.name+"/"+[]string{"vm.Execute", "live-context", "cancelled-context"}[ctxKind]+"/"+gf.name] += m
		if ctxKind == 2 {
			// the earlier run is itself a run under test: it starts its goroutines, spins and is cancelled
			s := &c02R8Spec{phase: "leftover", form: "earlier-run:" + gf.name, kind: "spin", desc: fmt.Sprintf("leftover:earlier-run<%s,%s>x%d:after-%d-goroutines:sync-k%d", gf.name, park.name, m, total, k),
				src: src + "\nhwait()\nfor { tick() }", env: e, p: p, ctx: ctx, sync: true, budget: 4, quiet: true,
				history: fmt.Sprintf("%d goroutines left by %d earlier runs", total, runs-1)}
			if r := c02R8Exec(c, s); r == "stuck" {
				return -1, ""
			}
		} else {
			done := make(chan struct{})
			go func() {
				if ctxKind == 0 {
					ank.Exec(e, src)
				} else {
					ank.ExecCtx(ctx, e, src)
				}
				close(done)
			}()
			if !p.await(done, nil) {
				select {
				case <-done:
				default:
					// an earlier run that does not end is not under a cancelled context: nothing to judge;
					// the runs under test go ahead with what there is
					c.Tag("r8:earlier-run-stands-still")
					total += int(atomic.LoadInt64(&p.ups))
					return total, c02R8Kinds(kinds, runs)
				}
			}
		}
		// its goroutines come up
		for i, last, same := 0, int64(-1), 0; i < 8000 && same < 600 && atomic.LoadInt64(&p.ups) < int64(m); i++ {
			if n := atomic.LoadInt64(&p.ups); n == last {
				same++
			} else {
				last, same = n, 0
			}
			time.Sleep(500 * time.Microsecond)
		}
		total += int(atomic.LoadInt64(&p.ups))
		if atomic.LoadInt64(&p.ups) < int64(m) {
			// goroutines that never came up are not this property's business; the history goes on
			c.Tag("r8:earlier-run-incomplete")
			if incomplete++; incomplete > 12 {
				break
			}
			want -= m - int(atomic.LoadInt64(&p.ups))
		}
	}
	return total, c02R8Kinds(kinds, runs)
}

func c02R8Kinds(kinds map[string]int, runs int) string {
	var b strings.Builder
	fmt.Fprintf(&b, "%d earlier runs:", runs)
	n := 0
	for k, v := range kinds {
		if n++; n > 12 {
			b.WriteString(" ...")
			break
		}
		fmt.Fprintf(&b, " %s x%d;", k, v)
	}
	return b.String()
}

// programs run under test after the history: go statements of every form, then a core
func c02R8GoPrograms() []struct {
	name, src, kind string
	ticks           int
	sync            bool
} {
	type prog = struct {
		name, src, kind string
		ticks           int
		sync            bool
	}
	var ps []prog
	for i, gf := range c02R8GoForms {
		start := strings.ReplaceAll(gf.start, "li", "1")
		def := gf.def
		if def != "" {
			def += "\n"
		}
		switch i % 3 {
		case 0: // goroutine ends at once, parent spins
			ps = append(ps, prog{"go-" + gf.name + "-then-spin", strings.ReplaceAll(def+start, "$B", "  x = 1") + "\nentered()\nfor { tick() }", "spin", 1, i%2 == 0})
		case 1: // goroutine spins, parent blocked
			ps = append(ps, prog{"go-" + gf.name + "-spins-parent-blocked", strings.ReplaceAll(def+start, "$B", "  for { tick() }") + "\nentered()\n<- never", "blocked", 1, false})
		default: // goroutine blocked, parent blocked in a send
			ps = append(ps, prog{"go-" + gf.name + "-blocked-parent-sends", strings.ReplaceAll(def+start, "$B", "  <- never") + "\nentered()\nnever2 <- 1", "blocked", 0, false})
		}
	}
	ps = append(ps,
		prog{"go-eight-then-spin", "for gi = 0; gi < 8; gi++ { go func(a) { <- never }(gi) }\nentered()\nfor { tick() }", "spin", 1, true},
		prog{"go-per-round", "entered()\nfor { go func() { x = 1 }(); tick() }", "spin", 1, true},
		prog{"go-in-function-in-try", "func st() { try { go func() { for { tick() } }() } catch e { tick() } }\nst()\nentered()\nfor { tick() }", "spin", 2, false},
		prog{"no-go-loop", "entered()\nfor { tick() }", "spin", 1, true},
		prog{"no-go-recursion", "func rec(a) { tick(); rec(a) }\nentered()\nrec(1)", "spin", 1, true},
		prog{"no-go-receive", "entered()\n<- never", "blocked", 0, false},
		prog{"no-go-range", "entered()\nfor v in never { tick() }", "blocked", 0, false},
	)
	return ps
}

func c02R8Leftover(c *wk.Case) {
	wants := []int{1000, 4097, 6000}
	if c.Tier == "thorough" {
		wants = []int{1000, 4097, 6000, 255, 1024, 4096, 10000, 20000, 1023, 1025, 4095, 2000, 8192, 12000, 65, 16384}
	}
	want := wants[c.Index%len(wants)]
	held := &c02R8Held{}
	defer held.releaseAll()
	root := c02R8Root()
	base := runtime.NumGoroutine()
	got, hist := c02R8LeaveGoroutines(c, root, held, want, c.Index%4 != 3)
	if got < 0 {
		held.releaseAll()
		c.Bail()
		return
	}
	history := fmt.Sprintf("%d goroutines of go statements of earlier runs alive (asked for %d; %d goroutines in the process); %s", got, want, runtime.NumGoroutine(), hist)
	c.Count("leftover_goroutines_alive_when_the_runs_under_test_start", got)
	c.Tag(fmt.Sprintf("reached:leftover_goroutines=%d", got))
	for round := 0; round < 2; round++ {
		for pi, pr := range c02R8GoPrograms() {
			ctx, cancel, cname := c02R8Context(c.Rng.Intn(8))
			k := int64(0)
			if pr.sync {
				k = int64(1 + c.Rng.Intn(40))
			}
			p := c02R8NewProbe(cancel, k)
			var e *env.Env
			if (pi+round)%2 == 0 {
				e = c02R8Bind(root, p)
			} else {
				e = c02R8Bind(c02R8Root(), p)
			}
			s := &c02R8Spec{phase: "leftover", form: pr.name, kind: pr.kind, src: pr.src, env: e, p: p, ctx: ctx, sync: pr.sync,
				desc:   fmt.Sprintf("leftover:%d:%s:%s:k%d", got, pr.name, cname, k),
				budget: int64(2*pr.ticks + 2 + 16), settle: true, history: history, delay: time.Duration(c.Rng.Intn(300)) * time.Microsecond}
			r := c02R8Exec(c, s)
			cancel()
			if r == "stuck" {
				held.releaseAll()
				c.Bail()
				return
			}
		}
		if round == 0 {
			runtime.GC()
		}
	}
	held.releaseAll()
	for i := 0; i < 2000 && runtime.NumGoroutine() > base+8; i++ {
		time.Sleep(time.Millisecond)
	}
	c.Count("goroutines_still_alive_after_release", runtime.NumGoroutine()-base)
}

// ---------------------------------------------------------------------------
// phase crowd

var c02R8CrowdForms = []struct {
	name, src, kind string
	fed             bool
}{
	{"receive-shared/parent-spins", "for gi = 0; gi < gn; gi++ { go func() { up(); <- never }() }\nentered()\nfor { tick() }", "spin", false},
	{"receive-own-channel/parent-blocked", "for gi = 0; gi < gn; gi++ { go func(ch) { up(); <- ch }(make(chan int64)) }\nentered()\n<- never", "blocked", false},
	{"send/parent-spins-in-function", "func sp() { for { tick() } }\nfor gi = 0; gi < gn; gi++ { go func(a, b, c, d, e, f) { up(); never <- a }(gi, 2, 3, 4, 5, 6) }\nentered()\nsp()", "spin", false},
	{"range/parent-ranges", "func gr(a...) { up(); for v in never { tick() } }\nfor gi = 0; gi < gn; gi++ { go gr(gi) }\nentered()\nfor v in never { tick() }", "blocked", false},
	{"receive-ok-in-try/parent-recursion", "func rec(a) { tick(); rec(a) }\nfor gi = 0; gi < gn; gi++ { go func() { try { up(); v, ok = <- never } catch e { tick() } finally { tick() } }() }\nentered()\nrec(1)", "spin", false},
	{"fed-receivers/parent-spins", "for gi = 0; gi < gn; gi++ { go func() { up(); for { v = <- feed; tick() } }() }\nentered()\nfor { tick() }", "spin", true},
	{"fed-rangers/parent-blocked", "func gw(a) { up(); for v in feed { tick() } }\nfor gi = 0; gi < gn; gi++ { go gw(gi) }\nentered()\n<- never", "blocked", true},
	{"fed-receivers-nested-go/parent-spins", "for gi = 0; gi < gn; gi++ { go func() { go func() { up(); for { v, ok = <- feed; tick() } }() }() }\nentered()\nfor { tick() }", "spin", true},
}

func c02R8Crowd(c *wk.Case) {
	ns := []int{4097, 1000, 255, 1024}
	if c.Tier == "thorough" {
		ns = []int{4097, 1000, 255, 1024, 10000, 256, 4096, 20000, 1023, 6000, 257, 4095}
	}
	f := c02R8CrowdForms[c.Index%len(c02R8CrowdForms)]
	n := ns[(c.Index/len(c02R8CrowdForms)+c.Index)%len(ns)]
	base := runtime.NumGoroutine()
	ctx, cancel, cname := c02R8Context(c.Rng.Intn(8))
	defer cancel()
	p := c02R8NewProbe(cancel, 0)
	e := c02R8Bind(c02R8Root(), p)
	e.Define("gn", int64(n))
	feed := make(chan int64)
	e.Define("feed", feed)
	stopFeed := make(chan struct{})
	var fedAfter int64
	if f.fed {
		// wakes the goroutines up again and again, also after the cancel
		for i := 0; i < 4; i++ {
			go func() {
				for {
					select {
					case feed <- 1:
						if atomic.LoadInt32(&p.cancelled) == 1 {
							atomic.AddInt64(&fedAfter, 1)
						}
					case <-stopFeed:
						return
					}
				}
			}()
		}
	}
	s := &c02R8Spec{phase: "crowd", form: f.name, kind: f.kind, src: f.src, env: e, p: p, ctx: ctx,
		desc: fmt.Sprintf("crowd:%d:%s:%s", n, f.name, cname), settle: true, delay: time.Duration(c.Rng.Intn(2000)) * time.Microsecond,
		// every goroutine may finish the statement it is in when the cancel lands
		budget: int64(n) + 4 + 16}
	if !f.fed {
		s.budget = 4 + 16
	}
	r := c02R8Exec(c, s)
	if r == "ok" && f.fed {
		// the feeders keep offering values: goroutines that did not see the cancellation go on counting
		before := atomic.LoadInt64(&p.after)
		for i := 0; i < 40; i++ {
			time.Sleep(500 * time.Microsecond)
		}
		if a := atomic.LoadInt64(&p.after); a > s.budget+int64(n) || a-before > int64(n) {
			c.Violation("ran-on:"+f.kind+":r8-crowd:"+f.name, fmt.Sprintf("%d probe events by the goroutines of the run after cancel() had returned (%d of them after the call had come back; %d goroutines; budget one each)", a, a-before, n), map[string]interface{}{"case": s.desc, "program": s.src})
		}
	}
	close(stopFeed)
	c.Count("crowd_goroutines_up_at_cancel", int(atomic.LoadInt64(&p.ups)))
	c.Tag(fmt.Sprintf("reached:own_goroutines_alive_at_cancel=%d", atomic.LoadInt64(&p.ups)))
	if r == "stuck" {
		c.Bail()
		return
	}
	for i := 0; i < 3000 && runtime.NumGoroutine() > base+2; i++ {
		time.Sleep(time.Millisecond)
	}
	c.Count("crowd_goroutines_still_parked_after_cancel(counted, not judged)", runtime.NumGoroutine()-base)
}

// ---------------------------------------------------------------------------
// phase rerun

func c02R8RerunCores() []c02Core {
	var cs []c02Core
	for _, core := range c02Cores {
		if !core.selfCancel {
			cs = append(cs, core)
		}
	}
	return append(cs, c02R8HotCores...)
}

func c02R8Rerun(c *wk.Case) {
	cores := c02R8RerunCores()
	core := cores[c.Index%len(cores)]
	runs := 1100
	if c.Tier == "thorough" {
		runs = 4200
	}
	if c.Tier != "thorough" && c.Index < len(cores) && (c.Index+int(c.W.Seed))%2 == 1 {
		// quick tier: every second bare core, alternating with the seed
		c.Tag("r8:rerun:left-to-the-next-seed")
		return
	}
	// the first len(cores) cases: every core without a wrapper; the next len(wrappers): every wrapper
	// once (cores rotating); beyond that (thorough) PRNG pairs
	var wrappers []int
	ws := c02R8Wrappers()
	trailing := c.Rng.Intn(2) == 0
	if c.Index >= len(cores) {
		wi := c.Rng.Intn(len(ws))
		if c.Index < len(cores)+len(ws) {
			wi = c.Index - len(cores)
			core = cores[(wi*7+int(c.W.Seed))%len(cores)]
			// as the last statement: what the construct lets through is the outcome of the run
			trailing = false
		}
		wrappers = []int{ws[wi]}
	}
	syncMode := !core.blocked && core.ticks > 0
	src := c02R8Program(core, wrappers, trailing, !syncMode)
	if c.Tier != "thorough" && strings.HasPrefix(core.name, "recursion-expr") && (c.Index+int(c.W.Seed))%3 != 0 {
		// quick tier: the 64-level expression recursions cost ten times the others; a third of them
		// (rotating with the seed) gets the full count
		runs = 260
	}
	stmt, perr, po := ank.Parse(src)
	if perr != nil || po.Panicked {
		c.Inconclusive("r8-program-does-not-parse", ank.ErrText(perr)+po.PanicVal, map[string]interface{}{"program": src})
		return
	}
	kind := "spin"
	if core.blocked {
		kind = "blocked"
	}
	wname := "none"
	if len(wrappers) > 0 {
		wname = c02Wrappers[wrappers[0]].name
	}
	envMode := c.Rng.Intn(3) // 0 one environment for all runs, 1 a child per run of one root, 2 fresh
	root := c02R8Root()
	var same *env.Env
	okRuns := 0
	for run := 1; run <= runs; run++ {
		ctx, cancel, cname := c02R8Context(c.Rng.Intn(8))
		k := int64(0)
		if syncMode {
			k = int64(1 + (run+c.Rng.Intn(3))%5)
		}
		p := c02R8NewProbe(cancel, k)
		var e *env.Env
		switch {
		case envMode == 0 && !c02R8HasGo(src):
			// the same environment: the probe functions are defined again for this run
			if same == nil {
				same = c02R8Bind(root, p)
			} else {
				rebound := c02R8Bind(root, p)
				for _, n := range []string{"tick", "tickT", "tickI", "entered", "up", "hold", "hsrc", "hdst", "never", "never2", "truthy", "nextc", "nexta"} {
					v, _ := rebound.Get(n)
					same.Define(n, v)
				}
			}
			e = same
		case envMode == 2:
			e = c02R8Bind(c02R8Root(), p)
		default:
			e = c02R8Bind(root, p)
		}
		s := &c02R8Spec{phase: "rerun", form: core.name + "<" + wname, kind: kind, src: src, stmt: stmt, env: e, p: p, ctx: ctx, sync: syncMode,
			desc: fmt.Sprintf("rerun:%s<%s>:run%d:%s:k%d:env%d", core.name, wname, run, cname, k, envMode), budget: c02R8Budget(core, wrappers),
			settle: c02R8HasGo(src), history: fmt.Sprintf("run number %d of one parsed tree in this process; every earlier run was cancelled", run), quiet: run != 1 && run != runs}
		r := c02R8Exec(c, s)
		cancel()
		if r == "stuck" {
			c.Bail()
			return
		}
		if r == "viol" {
			// one report per tree is enough
			break
		}
		if r == "ok" {
			okRuns++
		}
		if run%256 == 0 {
			runtime.GC()
		}
	}
	c.Count("rerun_runs_of_one_tree_cancelled_and_judged", okRuns)
	c.Tag(fmt.Sprintf("reached:runs_of_one_tree=%d", okRuns))
}

// ---------------------------------------------------------------------------
// phase late

var c02R8Marks = []int{255, 256, 257, 1000, 1023, 1024, 1025, 4095, 4096, 4097}
var c02R8BigMarks = []int{65535, 65536, 65537}

func c02R8LateCores() []c02Core {
	var cs []c02Core
	for _, core := range c02Cores {
		if !core.selfCancel && !core.blocked && core.ticks > 0 {
			cs = append(cs, core)
		}
	}
	return append(cs, c02R8HotCores...)
}

// loops whose channel operation succeeds N times before it blocks; $N = capacity
var c02R8BlockedLate = []struct{ name, setup, src string }{
	{"receive-stmt", "bch = make(chan int64, $N)\nfor bi = 0; bi < $N; bi++ { bch <- bi }", "for { v = <- bch; tick() }"},
	{"receive-ok", "bch = make(chan interface, $N)\nfor bi = 0; bi < $N; bi++ { bch <- bi }", "for { v, ok = <- bch; tick() }"},
	{"receive-expr-in-function", "bch = make(chan int64, $N)\nfor bi = 0; bi < $N; bi++ { bch <- bi }\nfunc rx(c) { return <- c }", "for { rx(bch); tick() }"},
	{"range", "bch = make(chan int64, $N)\nfor bi = 0; bi < $N; bi++ { bch <- bi }", "for v in bch { tick() }"},
	{"send", "bch = make(chan int64, $N)", "for { bch <- 1; tick() }"},
	{"send-host-channel", "", "for { hbig <- 1; tick() }"},
	{"receive-host-channel", "", "for { v = <- hfull; tick() }"},
	{"forward-blocks-in-receive-half", "bch = make(chan int64, $N)\nfor bi = 0; bi < $N; bi++ { bch <- bi }\nbout = make(chan int64, $N + 5)", "for { bout <- bch; tick() }"},
	{"forward-blocks-in-send-half", "bch = make(chan int64, $N + 5)\nfor bi = 0; bi < $N + 5; bi++ { bch <- bi }\nbout = make(chan int64, $N)", "for { bout <- bch; tick() }"},
}

var c02R8SizeForms = []string{"statement-list", "nested-if", "nested-forin", "nested-try", "nested-function-literals", "nested-mixed", "forin-list", "forin-map", "forin-typed-slice",
	"pending-defers", "names-in-environment", "multibyte-source-prefix", "list-literal-before-core", "switch-arms", "nested-else-if-chain"}

func c02R8LateCases() int {
	return len(c02R8LateCores()) + len(c02R8BlockedLate)*3 + len(c02R8SizeForms)
}

func c02R8Late(c *wk.Case) {
	cores := c02R8LateCores()
	per := c02R8LateCases()
	slot, round := c.Index%per, c.Index/per
	thorough := c.Tier == "thorough"
	marks := append([]int{}, c02R8Marks...)
	// quick tier: one of the three 64 Ki marks, for every third case (rotating with the seed)
	withBig := (slot+round+int(c.W.Seed))%3 == 0
	if withBig {
		marks = append(marks, c02R8BigMarks[(c.Index+round+int(c.W.Seed)/3)%3])
	}
	if thorough {
		marks = append(append([]int{}, c02R8Marks...), c02R8BigMarks...)
		marks = append(marks, 200000)
	}
	ws := c02R8Wrappers()
	switch {
	case slot < len(cores):
		core := cores[slot]
		if thorough && slot%17 == round%17 && !c02R8IsRecursion(core) {
			marks = append(marks, 1000000)
		}
		var wrappers []int
		if round > 0 || c.Rng.Intn(3) == 0 {
			wrappers = []int{ws[c.Rng.Intn(len(ws))]}
		}
		wname := "none"
		if len(wrappers) > 0 {
			wname = c02Wrappers[wrappers[0]].name
		}
		src := c02R8Program(core, wrappers, c.Rng.Intn(2) == 0, false)
		root := c02R8Root()
		for _, n := range marks {
			if c02R8IsRecursion(core) && n > 12000 {
				n = 12000 - n%7 // deeper recursions belong to phase deep
			}
			if core.name == "r8-growing-list-and-map" && n > 70000 {
				continue
			}
			ctx, cancel, cname := c02R8Context(c.Rng.Intn(8))
			p := c02R8NewProbe(cancel, int64(n))
			s := &c02R8Spec{phase: "late", form: core.name + "<" + wname, kind: "spin", src: src, env: c02R8Bind(root, p), p: p, ctx: ctx, sync: true,
				desc: fmt.Sprintf("late:%s<%s>:cancel-by-probe-%d:%s", core.name, wname, n, cname), budget: c02R8Budget(core, wrappers), settle: c02R8HasGo(src)}
			r := c02R8Exec(c, s)
			cancel()
			if r == "stuck" {
				c.Bail()
				return
			}
			if r == "viol" {
				break
			}
			c.Tag(fmt.Sprintf("reached:probe_events_before_cancel=%d", n))
		}
	case slot < len(cores)+3*len(c02R8BlockedLate):
		bi := slot - len(cores)
		bl := c02R8BlockedLate[bi%len(c02R8BlockedLate)]
		place := bi / len(c02R8BlockedLate) // 0 top level, 1 in a function of 6 parameters, 2 in a goroutine under a blocked parent
		for _, n := range marks {
			if n > 70000 {
				continue
			}
			body := bl.src
			switch place {
			case 1:
				body = "func bw(a, b, c, d, e, f) {\n" + ind(bl.src) + "\n}\nbw(1, 2, 3, 4, 5, 6)"
			case 2:
				body = "go func() {\n" + ind(bl.src) + "\n}()\n<- never"
			}
			src := strings.ReplaceAll(bl.setup, "$N", fmt.Sprint(n)) + "\n" + body
			ctx, cancel, cname := c02R8Context(c.Rng.Intn(8))
			p := c02R8NewProbe(cancel, 0)
			p.reachN = int64(n)
			e := c02R8Bind(c02R8Root(), p)
			hfull := make(chan int64, n)
			for i := 0; i < n; i++ {
				hfull <- int64(i)
			}
			e.Define("hfull", hfull)
			e.Define("hbig", make(chan int64, n))
			s := &c02R8Spec{phase: "late", form: "blocked-late:" + bl.name, kind: "blocked", src: src, env: e, p: p, ctx: ctx, awaitReach: true,
				desc: fmt.Sprintf("late:blocked-after-%d-operations:%s:place%d:%s", n, bl.name, place, cname), budget: 4, settle: place == 2,
				delay: time.Duration(100+c.Rng.Intn(400)) * time.Microsecond}
			r := c02R8Exec(c, s)
			cancel()
			if r == "stuck" {
				c.Bail()
				return
			}
			if r == "viol" {
				break
			}
			if atomic.LoadInt64(&p.ticks) >= int64(n) {
				c.Tag(fmt.Sprintf("reached:channel_operations_before_block=%d", n))
			}
		}
	default:
		form := c02R8SizeForms[slot-len(cores)-3*len(c02R8BlockedLate)]
		sizes := append([]int{}, c02R8Marks...)
		if thorough {
			sizes = append(sizes, 12000)
		}
		switch form {
		case "statement-list", "forin-list", "forin-map", "forin-typed-slice", "names-in-environment", "multibyte-source-prefix", "list-literal-before-core", "pending-defers":
			sizes = marks
		}
		for si, n := range sizes {
			if n > 70000 && form != "forin-list" && form != "forin-typed-slice" {
				continue
			}
			cs := cores[c.Rng.Intn(len(cores))]
			if c02R8IsRecursion(cs) || c02R8HasGo(cs.src) {
				cs = cores[0]
			}
			ctx, cancel, cname := c02R8Context(c.Rng.Intn(8))
			p := c02R8NewProbe(cancel, int64(1+c.Rng.Intn(6)))
			e := c02R8Bind(c02R8Root(), p)
			src, budget := c02R8SizeProgram(c, form, n, si, cs, e, p)
			s := &c02R8Spec{phase: "late", form: "size:" + form, kind: "spin", src: src, env: e, p: p, ctx: ctx, sync: true,
				desc: fmt.Sprintf("late:size:%s:%d:%s:%s:k%d", form, n, cs.name, cname, p.k), budget: budget}
			r := c02R8Exec(c, s)
			cancel()
			if r == "stuck" {
				c.Bail()
				return
			}
			if r == "viol" {
				break
			}
			if r == "ok" {
				c.Tag(fmt.Sprintf("reached:size:%s=%d", form, n))
			}
		}
	}
}

// c02R8SizeProgram builds a program of size n around the core cs; it may set p.k
func c02R8SizeProgram(c *wk.Case, form string, n, si int, cs c02Core, e *env.Env, p *c02R8Probe) (string, int64) {
	coreSrc := cs.src
	if cs.setup != "" {
		coreSrc = cs.setup + "\n" + cs.src
	}
	budget := int64(2*cs.ticks + 2)
	nest := func(open func(i int) string, close func(i int) string) string {
		var b strings.Builder
		for i := 0; i < n; i++ {
			b.WriteString(open(i))
		}
		b.WriteString(coreSrc + "\n")
		for i := n - 1; i >= 0; i-- {
			b.WriteString(close(i))
		}
		return b.String()
	}
	switch form {
	case "statement-list":
		// n probes, each a statement of its own, in one loop body; the cancel lands somewhere inside
		p.k = int64(1 + c.Rng.Intn(2*n))
		return "for {\n" + strings.Repeat("tick()\n", n) + "}", 4
	case "nested-if":
		return nest(func(i int) string { return "if true {\n" }, func(i int) string { return "}\n" }), budget
	case "nested-forin":
		return nest(func(i int) string { return "for nf in [1] {\n" }, func(i int) string { return "}\n" }), budget
	case "nested-try":
		return nest(func(i int) string { return "try {\n" }, func(i int) string { return "} catch ne { tick() }\n" }), budget
	case "nested-function-literals":
		return nest(func(i int) string { return "func() {\n" }, func(i int) string { return "}()\n" }), budget
	case "nested-mixed":
		opens := []string{"if true {\n", "for nf in [1] {\n", "try {\n", "func() {\n", "switch 1 {\ncase 1:\n", "if false { } else {\n", "func(a, b, c, d, e, f) {\n"}
		closes := []string{"}\n", "}\n", "} catch ne { tick() }\n", "}()\n", "}\n", "}\n", "}(1, 2, 3, 4, 5, 6)\n"}
		return nest(func(i int) string { return opens[(i+si)%len(opens)] }, func(i int) string { return closes[(i+si)%len(closes)] }), budget
	case "nested-else-if-chain":
		var b strings.Builder
		b.WriteString("if false {\n}")
		for i := 0; i < n; i++ {
			b.WriteString(" else if false {\n}")
		}
		b.WriteString(" else {\n" + coreSrc + "\n}")
		return b.String(), budget
	case "switch-arms":
		var b strings.Builder
		b.WriteString("for {\nswitch tickI() + " + fmt.Sprint(n) + " {\n")
		for i := 0; i < n; i++ {
			fmt.Fprintf(&b, "case %d:\n  x = 1\n", i)
		}
		b.WriteString("default:\n  x = 2\n}\n}")
		return b.String(), 4
	case "forin-list":
		big := make([]interface{}, n)
		for i := range big {
			big[i] = int64(i)
		}
		e.Define("big", big)
		p.k = int64(1 + c.Rng.Intn(2*n))
		return "for { for x in big { tick() } }", 4
	case "forin-typed-slice":
		e.Define("big", make([]int64, n))
		p.k = int64(1 + c.Rng.Intn(2*n))
		return "func fi(l) { for { for i, x in l { tick() } } }\nfi(big)", 4
	case "forin-map":
		big := make(map[string]interface{}, n)
		for i := 0; i < n; i++ {
			big[fmt.Sprint("k", i)] = int64(i)
		}
		e.Define("big", big)
		p.k = int64(1 + c.Rng.Intn(2*n))
		return "for { for k, v in big { tick() } }", 4
	case "pending-defers":
		// the deferred script functions are run when the invocation ends - by the interruption: none
		// of them may execute its statement
		return fmt.Sprintf("func pd() {\n  for di = 0; di < %d; di++ {\n    defer func() { tick() }()\n  }\n%s\n}\npd()", n, ind(coreSrc)), budget
	case "names-in-environment":
		for i := 0; i < n; i++ {
			e.Define(fmt.Sprintf("nm%d", i), int64(i))
		}
		return fmt.Sprintf("func nf() {\n  x = nm0 + nm%d\n%s\n}\nnf()", n-1, ind(coreSrc)), budget
	case "multibyte-source-prefix":
		// string literals and a comment of n bytes of 2-, 3- and 4-byte characters, shifted by 0-3 ASCII bytes
		chars := []string{"é", "€", "𝄞"}
		ch := chars[si%3]
		pad := strings.Repeat("a", si%4)
		lit := pad + strings.Repeat(ch, n/len(ch))
		return "s0 = \"" + lit + "\"\n# " + lit + "\ns1 = `" + lit + "`\n" + coreSrc, budget
	case "list-literal-before-core":
		var b strings.Builder
		b.WriteString("ll = [")
		for i := 0; i < n; i++ {
			fmt.Fprintf(&b, "%d, ", i)
		}
		b.WriteString("0]\nlm = {")
		for i := 0; i < n && i < 5000; i++ {
			fmt.Fprintf(&b, "\"k%d\": %d, ", i, i)
		}
		b.WriteString("\"z\": 0}\n" + coreSrc)
		return b.String(), budget
	}
	panic(form)
}

// ---------------------------------------------------------------------------
// phase stream

var c02R8RefPrograms = []struct {
	name, src, kind string
	ticks           int
}{
	{"loop-forever", "for { tick() }", "spin", 1},
	{"loop-cond", "cnd = true\nfor cnd { tick() }", "spin", 1},
	{"loop-cfor", "for i = 0; true; i++ { tick() }", "spin", 1},
	{"loop-forin-nested", "for { for x in [1, 2, 3] { tick() } }", "spin", 3},
	{"recursion-1", "func rec(a) { tick(); rec(a) }\nrec(1)", "spin", 1},
	{"recursion-6", "func rec(a, b, c, d, e, f) { tick(); rec(a, b, c, d, e, f) }\nrec(1, 2, 3, 4, 5, 6)", "spin", 1},
	{"spin-in-callee", "func body() { tick(); return 1 }\nfor { body() }", "spin", 1},
	{"spin-try-inside", "for { try { tick(); throw 1 } catch e { } }", "spin", 1},
	{"coalesce-left", "x = (func() { for { tick() } }() ?? 1)", "spin", 1},
	{"callback", "apply(func() { for { tick() } })", "spin", 1},
	{"recv", "entered()\nv = <- never", "blocked", 0},
	{"send", "entered()\nnever <- 1", "blocked", 0},
	{"range", "entered()\nfor v in never { tick() }", "blocked", 0},
	{"go-spins-parent-blocked", "go func() { for { tick() } }()\nentered()\n<- never", "blocked", 1},
}

func c02R8Stream(c *wk.Case) {
	// three groups of reference programs share one stream of other programs: each group is asked
	// again at its own distances (the groups rotate with the case index)
	groups := [][]int{{4096}, {1000, 1024}, {256}}
	if c.Tier == "thorough" {
		groups = [][]int{{4096, 16384}, {1000, 1024, 8192}, {256, 255, 257, 1000, 4096}}
	}
	// positions (in other programs streamed so far) at which a group is asked -> distance to its last ask
	asks := map[int]map[int]int{0: {0: 0, 1: 0, 2: 0}}
	total := 0
	for g, dists := range groups {
		pos := 0
		for _, n := range dists {
			for d := n - 1; d <= n+1; d++ {
				pos += d
				if asks[pos] == nil {
					asks[pos] = map[int]int{}
				}
				asks[pos][g] = d
			}
		}
		if pos > total {
			total = pos
		}
	}
	cores := c02R8RerunCores()
	ws := c02R8Wrappers()
	long := c02R8Root() // collects the names of every program that runs in it
	var leaked []*env.Env
	judged, selfEnded, refAsks := 0, 0, 0
	runOne := func(s *c02R8Spec, cancel context.CancelFunc) bool {
		r := c02R8Exec(c, s)
		cancel()
		if r == "stuck" {
			c.Bail()
		}
		if r == "ok" {
			judged++
		}
		return r != "viol"
	}
	askRefs := func(at int, due map[int]int) {
		for ri, rp := range c02R8RefPrograms {
			dist, ok := due[(ri+c.Index)%3]
			if !ok {
				continue
			}
			ctx, cancel, cname := c02R8Context(c.Rng.Intn(8))
			k := int64(0)
			if rp.kind == "spin" {
				k = int64(1 + (ri+at)%4)
			}
			p := c02R8NewProbe(cancel, k)
			parent := long
			if (ri+refAsks)%3 == 0 {
				parent = c02R8Root()
			}
			s := &c02R8Spec{phase: "stream", form: "reference:" + rp.name, kind: rp.kind, src: rp.src, env: c02R8Bind(parent, p), p: p, ctx: ctx, sync: k > 0,
				desc: fmt.Sprintf("stream:reference:%s:after-%d-other-programs:distance-%d:%s", rp.name, at, dist, cname), budget: int64(2*rp.ticks + 3), settle: c02R8HasGo(rp.src),
				history: fmt.Sprintf("%d pairwise distinct other programs were run and cancelled (or ended by themselves) in this process, %d since this program was asked last", at, dist), quiet: at != total}
			runOne(s, cancel)
		}
		refAsks++
		for _, dist := range due {
			c.Tag(fmt.Sprintf("reached:reask_distance=%d", dist))
		}
	}
	for i := 0; i <= total; i++ {
		if d, ok := asks[i]; ok {
			askRefs(i, d)
		}
		if i == total {
			break
		}
		if i%1500 == 1499 {
			leaked = leaked[:len(leaked)/2] // half of what was kept is dropped
			runtime.GC()
		}
		ctx, cancel, cname := c02R8Context(c.Rng.Intn(8))
		var parent *env.Env
		switch c.Rng.Intn(4) {
		case 0:
			parent = c02R8Root()
		case 1:
			parent = long.NewEnv()
		default:
			parent = long
		}
		if c.Rng.Intn(4) == 0 {
			// a program that ends by itself; its context is never cancelled, both are dropped
			p := c02R8NewProbe(func() {}, 0)
			e := c02R8Bind(parent, p)
			src := fmt.Sprintf("u%d = %d\nfunc uf%d(a) { tick(); return a + %d }\nfor i = 0; i < %d; i++ { uf%d(i) }\nuc%d = make(chan int64, 1)\nuc%d <- u%d\n<- uc%d", i, i, i, i, 1+i%4, i, i, i, i, i)
			c.Begin(map[string]interface{}{"program": src, "case": "stream:self-ending:" + cname})
			o := ank.ExecCtx(ctx, e, src)
			if o.Panicked || o.Err != nil {
				c.Inconclusive("r8-self-ending-program-failed", ank.ErrText(o.Err)+o.PanicVal, map[string]interface{}{"program": src})
			}
			c.EvalN(1)
			selfEnded++
			if i%7 == 0 {
				leaked = append(leaked, e)
				_ = cancel // never called: the context stays live until it is garbage
			} else if i%7 == 1 {
				cancel() // cancelled after use
			}
			continue
		}
		core := cores[c.Rng.Intn(len(cores))]
		if strings.HasPrefix(core.name, "recursion-expr") && c.Rng.Intn(8) != 0 {
			// the 64-level expression recursions cost ten times the others; one in eight stays
			core = cores[c.Rng.Intn(len(c02Cores)/2)]
		}
		var wrappers []int
		for n := c.Rng.Intn(3); n > 0; n-- {
			wrappers = append(wrappers, ws[c.Rng.Intn(len(ws))])
		}
		syncMode := !core.blocked && core.ticks > 0
		k := int64(0)
		if syncMode {
			k = int64(1 + c.Rng.Intn(6))
		}
		src := fmt.Sprintf("u%d = %d\n", i, i) + c02R8Program(core, wrappers, c.Rng.Intn(2) == 0, !syncMode)
		kind := "spin"
		if core.blocked {
			kind = "blocked"
		}
		wname := "none"
		if len(wrappers) > 0 {
			wname = c02Wrappers[wrappers[len(wrappers)-1]].name
		}
		p := c02R8NewProbe(cancel, k)
		s := &c02R8Spec{phase: "stream", form: core.name + "<" + wname, kind: kind, src: src, env: c02R8Bind(parent, p), p: p, ctx: ctx, sync: syncMode,
			desc: fmt.Sprintf("stream:%d:%s:%s:k%d", i, core.name, cname, k), budget: c02R8Budget(core, wrappers), settle: c02R8HasGo(src), quiet: true,
			history: fmt.Sprintf("program number %d of this process", i)}
		if !runOne(s, cancel) && judged < i/2 {
			break
		}
		if i%11 == 0 {
			leaked = append(leaked, s.env)
		}
	}
	runtime.KeepAlive(leaked)
	c.Count("stream_programs_cancelled_and_judged_in_one_process", judged)
	c.Count("stream_programs_that_ended_by_themselves_under_contexts_never_cancelled", selfEnded)
	c.Count("stream_reference_set_asks", refAsks)
	c.Tag(fmt.Sprintf("reached:programs_in_one_process>=%d", (judged+selfEnded)/1000*1000))
}
