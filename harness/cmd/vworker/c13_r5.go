package main

// C13, phase "scopes" (race detector): operations that reach a scope through its descendants,
// and reader-only overlaps.
//
// The statement quantifies over "all memory-access interleavings the race detector can observe
// under stress" and demands that "no combination of concurrent environment operations produces a
// data race". Two combinations the phases race/owners never produce are generated here:
//
//   - mode readers: rounds in which NOTHING but read operations (Get, GetValue, Addr, listings,
//     Copy, DeepCopy, String, Type, GetEnvFromPath) overlap on a small family of scopes whose
//     symbols include nil bindings (made in five ways), addressable cells, plain values, types and
//     a module. A read operation that stores into a table (for instance under the read lock) races
//     with nothing but other readers, so writers must be absent for the overlap to exist at all.
//     With no writer every result is fixed by the state the round was built with.
//   - mode family: writers work on shared ancestors (root <- mid <- sub) while every goroutine
//     also works through descendants of sub (private leaves, leaves of leaves, scopes made on the
//     spot, scripts whose function/if bodies run in scopes of their own). Every symbol, type and
//     module has ONE writing goroutine, so each one-at-a-time ordering consistent with the
//     goroutines' own orders fixes what the owner reads back through any descendant.

import (
	"context"
	"fmt"
	"reflect"
	"runtime"
	"sort"
	"strings"
	"sync"
	"time"

	"github.com/mattn/anko/ast"
	"github.com/mattn/anko/env"

	"verifharness/internal/ank"
	"verifharness/internal/fw"
	"verifharness/internal/wk"
)

// c13r5Phase is the plan entry of the phase.
func c13r5Phase(tier string) fw.Phase {
	n := 8
	if tier == "thorough" {
		n = 160
	}
	return fw.Phase{Name: "scopes", Race: true, Cases: n, Chunk: 2, TimeoutS: 900, Jobs: 4, MemMB: 3072}
}

const c13r5Rule = " phase scopes (race detector, GOMAXPROCS 2/4/16): even cases = 30-60 reader-only rounds, each on a freshly built family root <- mid <- shared leaf (+ a private leaf per goroutine) holding nil bindings made in five ways (Define nil, DefineValue NilValue, DefineValue zero Value, Set nil, SetValue zero Value), addressable cells, plain values, types and a module; 3-6 goroutines x 20-50 operations from {Get, GetValue, Addr, GetValueSymbols, Copy, DeepCopy, String, Type, GetTypeSymbols, GetEnvFromPath} only (a third of them Addr of a nil binding), every result compared with the state the round was built with; odd cases = 4-8 goroutines x 300-700 operations on root <- mid <- sub, each goroutine reaching them through descendants of sub (private leaf, leaf of a leaf, a scope made for the operation, pre-parsed scripts whose func/if bodies do make(T), make(module.T), reads and an increment in scopes of their own): Set/Get/Addr/Type/DeleteGlobal/DefineGlobal/DefineGlobalType/DefineGlobalReflectType/GetEnvFromPath/DeepCopy/Copy/String/listings through the descendant, Define/DefineValue/Delete/DefineType/DefineReflectType/NewModule/SetExternalLookup directly on the ancestors, members and types of a module bound on mid written while mid is printed and copied, immutable lookup objects swapped on root/mid/sub, one kind of which reads the scope it is installed on (al_<name>/AL_<name> = value/type of <name> there; an error is accepted, an answer must be the owner's last write); every symbol, type and module is written by one goroutine only and that goroutine's reads of it (through any descendant, copy or script) must show its last write, foreign reads of a growing counter never go back."

const c13r5Assumption = "phase scopes: scripts take part only as a source of environment operations started in scopes the interpreter makes itself (function and if bodies); they use nothing but make, reads, one assignment and integer addition, and each goroutine runs trees parsed for it alone"

// ---------------------------------------------------------------------------------------------
// mode readers

const (
	c13r5Nil    = iota // a nil binding
	c13r5Plain         // a value that cannot be addressed
	c13r5Cell          // an addressable cell
	c13r5Module        // a module
)

type c13r5Val struct {
	kind int
	v    interface{}   // c13r5Plain: the value; c13r5Cell: the cell's content
	cell reflect.Value // c13r5Cell
	mod  *env.Env      // c13r5Module
}

type c13r5Scope struct {
	name   string
	e      *env.Env
	parent *c13r5Scope
	vals   map[string]c13r5Val
	types  map[string]reflect.Type
}

func (s *c13r5Scope) lookup(k string) (c13r5Val, bool) {
	for ; s != nil; s = s.parent {
		if v, ok := s.vals[k]; ok {
			return v, true
		}
	}
	return c13r5Val{}, false
}

func (s *c13r5Scope) lookupType(k string) (reflect.Type, bool) {
	for ; s != nil; s = s.parent {
		if t, ok := s.types[k]; ok {
			return t, true
		}
	}
	return nil, false
}

var c13r5NilWays = []string{"Define-nil", "DefineValue-NilValue", "DefineValue-zero-Value", "Set-nil", "SetValue-zero-Value"}

// c13r5BindNil binds k to nil in e in one of five ways; every one of them is a nil binding
// for Get (the env package documents NilValue / the zero Value as "nil").
func c13r5BindNil(e *env.Env, k string, way int) error {
	switch way % len(c13r5NilWays) {
	case 0:
		return e.Define(k, nil)
	case 1:
		return e.DefineValue(k, env.NilValue)
	case 2:
		return e.DefineValue(k, reflect.Value{})
	case 3:
		if err := e.Define(k, int64(1)); err != nil {
			return err
		}
		return e.Set(k, nil)
	default:
		if err := e.Define(k, int64(1)); err != nil {
			return err
		}
		return e.SetValue(k, reflect.Value{})
	}
}

func c13r5NewScope(name string, parent *c13r5Scope) *c13r5Scope {
	s := &c13r5Scope{name: name, parent: parent, vals: map[string]c13r5Val{}, types: map[string]reflect.Type{}}
	if parent == nil {
		s.e = env.NewEnv()
	} else {
		s.e = parent.e.NewEnv()
	}
	return s
}

func (s *c13r5Scope) plain(k string, v interface{}) {
	s.e.Define(k, v)
	s.vals[k] = c13r5Val{kind: c13r5Plain, v: v}
}

func (s *c13r5Scope) nilBinding(k string, way int) {
	c13r5BindNil(s.e, k, way)
	s.vals[k] = c13r5Val{kind: c13r5Nil}
}

func (s *c13r5Scope) cell(k string, n int64) {
	cell := reflect.New(reflect.TypeOf(int64(0))).Elem()
	cell.SetInt(n)
	s.e.DefineValue(k, cell)
	s.vals[k] = c13r5Val{kind: c13r5Cell, v: n, cell: cell}
}

func (s *c13r5Scope) typ(k string, t reflect.Type) {
	s.e.DefineReflectType(k, t)
	s.types[k] = t
}

var c13r5Types = []reflect.Type{reflect.TypeOf(int64(0)), reflect.TypeOf(""), reflect.TypeOf(true), reflect.TypeOf(float64(0))}

func c13r5SameSet(got []string, want map[string]bool) bool {
	if len(got) != len(want) {
		return false
	}
	for _, k := range got {
		if !want[k] {
			return false
		}
	}
	return true
}

type c13r5Reporter struct {
	mu     sync.Mutex
	viol   map[string]string
	panics []string
	counts map[string]int
}

func (r *c13r5Reporter) report(sig, detail string) {
	r.mu.Lock()
	if _, ok := r.viol[sig]; !ok {
		r.viol[sig] = detail
	}
	r.mu.Unlock()
}

func (r *c13r5Reporter) merge(local map[string]int) {
	r.mu.Lock()
	for k, v := range local {
		r.counts[k] += v
	}
	r.mu.Unlock()
}

func (r *c13r5Reporter) recovered(v interface{}) {
	r.mu.Lock()
	r.panics = append(r.panics, fmt.Sprint(v))
	r.mu.Unlock()
}

// flush emits what was collected; prefix names the operation counters
func (r *c13r5Reporter) flush(c *wk.Case, prefix string, input interface{}) int {
	total := 0
	for k, v := range r.counts {
		c.Count(prefix+k, v)
		total += v
	}
	c.Events(total)
	if len(r.panics) > 0 {
		c.Violation("panic-in-concurrent-env-operation", r.panics[0], input)
	}
	var sigs []string
	for sig := range r.viol {
		sigs = append(sigs, sig)
	}
	sort.Strings(sigs)
	for _, sig := range sigs {
		c.Violation(sig, r.viol[sig], input)
	}
	return total
}

// c13r5Wait waits for the workers; when they do not finish the verdict comes from goroutine
// states (all of them parked on the environment's mutex in two samples), never from the clock.
func c13r5Wait(c *wk.Case, wg *sync.WaitGroup, limit time.Duration, reason string, input interface{}) {
	finished := make(chan struct{})
	go func() { wg.Wait(); close(finished) }()
	select {
	case <-finished:
	case <-time.After(limit):
		s1 := c13EnvBlocked()
		time.Sleep(500 * time.Millisecond)
		s2 := c13EnvBlocked()
		if s1.blocked > 0 && s1.blocked == s1.workers && s2.blocked == s2.workers && s1.where == s2.where {
			c.Violation("deadlock-in-env:"+s1.where, fmt.Sprintf("all %d unfinished worker goroutines are parked on the environment's mutex in two samples (%s)", s1.workers, s1.where), input)
		} else {
			c.Inconclusive(reason, fmt.Sprintf("workers=%d blocked=%d / workers=%d blocked=%d", s1.workers, s1.blocked, s2.workers, s2.blocked), input)
		}
		c.Bail()
	}
}

func c13r5Readers(c *wk.Case) {
	procs := []int{2, 16, 4}[(c.Index/2)%3]
	old := runtime.GOMAXPROCS(procs)
	defer runtime.GOMAXPROCS(old)
	rounds := 30 + c.Rng.Intn(31)
	input := map[string]interface{}{"phase": "scopes", "mode": "readers", "rounds": rounds, "gomaxprocs": procs}
	c.Begin(input)
	rep := &c13r5Reporter{viol: map[string]string{}, counts: map[string]int{}}
	nilAddrs := 0
	for round := 0; round < rounds; round++ {
		// the family of this round, built one-at-a-time
		root := c13r5NewScope("root", nil)
		root.plain("kp", "P")
		root.nilBinding("pn", c.Rng.Intn(5))
		root.typ("tp", c13r5Types[0])
		mid := c13r5NewScope("mid", root)
		var nilNames []string
		for i, n := 0, 4+c.Rng.Intn(9); i < n; i++ {
			k := fmt.Sprintf("n%d", i)
			mid.nilBinding(k, c.Rng.Intn(5))
			nilNames = append(nilNames, k)
		}
		nilNames = append(nilNames, "pn", "ln")
		for i := 0; i < 3; i++ {
			mid.cell(fmt.Sprintf("a%d", i), int64(10+i))
		}
		mid.plain("u0", int64(7))
		mid.plain("u1", "seven")
		mid.typ("t0", c13r5Types[1+c.Rng.Intn(3)])
		mid.typ("t1", c13r5Types[c.Rng.Intn(4)])
		mod, _ := mid.e.NewModule("m0")
		mod.Define("inner", int64(1))
		mid.vals["m0"] = c13r5Val{kind: c13r5Module, mod: mod}
		leaf := c13r5NewScope("leaf", mid)
		leaf.plain("l0", int64(3))
		leaf.nilBinding("ln", c.Rng.Intn(5))
		if c.Rng.Intn(2) == 0 {
			leaf.nilBinding("n0", c.Rng.Intn(5)) // shadows mid's n0
		}
		names := []string{"zz", "kp", "u0", "u1", "l0", "a0", "a1", "a2", "m0"}
		names = append(names, nilNames...)
		typeNames := []string{"tp", "t0", "t1", "tz", "int64"}

		ng := 3 + c.Rng.Intn(4)
		nops := 20 + c.Rng.Intn(31)
		seeds := make([]int64, ng)
		owns := make([]*c13r5Scope, ng)
		for g := range seeds {
			seeds[g] = c.Rng.Int63()
			if c.Rng.Intn(2) == 0 {
				owns[g] = c13r5NewScope("own-leaf-of-mid", mid)
			} else {
				owns[g] = c13r5NewScope("own-leaf-of-leaf", leaf)
			}
		}
		var wg sync.WaitGroup
		start := make(chan struct{})
		for g := 0; g < ng; g++ {
			wg.Add(1)
			go func(g int) {
				defer wg.Done()
				defer func() {
					if r := recover(); r != nil {
						rep.recovered(r)
					}
				}()
				x := uint64(seeds[g]) | 1
				next := func(n int) int {
					x ^= x << 13
					x ^= x >> 7
					x ^= x << 17
					return int(x % uint64(n))
				}
				local := map[string]int{}
				scopes := []*c13r5Scope{mid, mid, mid, leaf, leaf, owns[g], owns[g], root}
				<-start
				for i := 0; i < nops; i++ {
					s := scopes[next(len(scopes))]
					k := names[next(len(names))]
					var name string
					switch r := next(24); {
					case r < 8:
						// Addr of a nil binding (or, one time in four, of any name)
						if next(4) != 0 {
							k = nilNames[next(len(nilNames))]
						}
						name = "Addr"
						p, err := s.e.Addr(k)
						want, found := s.lookup(k)
						switch {
						case !found:
							if err == nil {
								rep.report("readers-only:Addr:undefined-symbol-answered", fmt.Sprintf("Addr(%s) through %s answers %v though no scope of the chain binds it", k, s.name, p))
							}
						case want.kind == c13r5Nil:
							// a nil binding has an address (the package hands out a pointer to a nil
							// interface cell); which cell is not fixed by anything, its content is
							local["Addr-of-nil-binding"]++
							if err != nil || p.Kind() != reflect.Ptr || p.IsNil() || p.Elem().Kind() != reflect.Interface || !p.Elem().IsNil() {
								rep.report("readers-only:Addr:nil-binding", fmt.Sprintf("Addr(%s) through %s = %v, %v; the symbol is bound to nil and nobody writes", k, s.name, p, err))
							}
						case want.kind == c13r5Cell:
							if err != nil || p.Kind() != reflect.Ptr || p.Pointer() != want.cell.Addr().Pointer() {
								rep.report("readers-only:Addr:not-the-cell-bound", fmt.Sprintf("Addr(%s) through %s = %v, %v; the symbol is bound to an addressable cell and nobody rebinds it", k, s.name, p, err))
							}
						default:
							// a value that cannot be addressed: the statement says nothing about
							// whether that is an error or a pointer to a copy; both are accepted
						}
					case r < 12:
						name = "Get"
						var v interface{}
						var err error
						if next(2) == 0 {
							v, err = s.e.Get(k)
						} else {
							var rv reflect.Value
							rv, err = s.e.GetValue(k)
							name = "GetValue"
							if err == nil && rv.IsValid() && rv.CanInterface() {
								v = rv.Interface()
							}
						}
						want, found := s.lookup(k)
						switch {
						case !found:
							if err == nil {
								rep.report("readers-only:"+name+":undefined-symbol-answered", fmt.Sprintf("%s(%s) through %s answers %v though no scope of the chain binds it", name, k, s.name, v))
							}
						case err != nil:
							rep.report("readers-only:"+name+":bound-symbol-not-found", fmt.Sprintf("%s(%s) through %s fails (%v) though the symbol is bound and nobody writes", name, k, s.name, err))
						case want.kind == c13r5Nil && v != nil:
							rep.report("readers-only:"+name+":nil-binding-not-nil", fmt.Sprintf("%s(%s) through %s = %v; the symbol is bound to nil and nobody writes", name, k, s.name, ank.Render(v)))
						case (want.kind == c13r5Plain || want.kind == c13r5Cell) && v != want.v:
							rep.report("readers-only:"+name+":wrong-value", fmt.Sprintf("%s(%s) through %s = %v, bound is %v and nobody writes", name, k, s.name, ank.Render(v), ank.Render(want.v)))
						case want.kind == c13r5Module && v != interface{}(want.mod):
							rep.report("readers-only:"+name+":wrong-value", fmt.Sprintf("%s(%s) through %s is not the module bound", name, k, s.name))
						}
					case r < 14:
						name = "GetValueSymbols"
						want := map[string]bool{}
						for k := range s.vals {
							want[k] = true
						}
						if got := s.e.GetValueSymbols(); !c13r5SameSet(got, want) {
							sort.Strings(got)
							rep.report("readers-only:GetValueSymbols:wrong-listing", fmt.Sprintf("listing of %s = %v, the scope binds %d symbols and nobody writes", s.name, got, len(want)))
						}
					case r < 17:
						var cp *env.Env
						if next(2) == 0 {
							cp, name = s.e.Copy(), "Copy"
						} else {
							cp, name = s.e.DeepCopy(), "DeepCopy"
						}
						want := map[string]bool{}
						for k := range s.vals {
							want[k] = true
						}
						if got := cp.GetValueSymbols(); !c13r5SameSet(got, want) {
							sort.Strings(got)
							rep.report("readers-only:"+name+":wrong-snapshot", fmt.Sprintf("%s of %s lists %v, the scope binds %d symbols and nobody writes", name, s.name, got, len(want)))
						}
						for k, w := range s.vals {
							v, err := cp.Get(k)
							if err != nil || (w.kind == c13r5Nil && v != nil) || ((w.kind == c13r5Plain || w.kind == c13r5Cell) && v != w.v) {
								rep.report("readers-only:"+name+":wrong-snapshot", fmt.Sprintf("%s of %s shows %s = %v (error %v) and nobody writes", name, s.name, k, ank.Render(v), err))
							}
						}
						// the chain above the copy still answers
						if v, err := cp.Get("kp"); err != nil || v != "P" {
							rep.report("readers-only:"+name+":wrong-snapshot", fmt.Sprintf("%s of %s shows kp = %v (error %v)", name, s.name, ank.Render(v), err))
						}
					case r < 19:
						name = "String"
						txt := s.e.String()
						for k := range s.vals {
							if !strings.Contains(txt, k+" = ") {
								rep.report("readers-only:String:symbol-missing", fmt.Sprintf("String of %s does not mention %s: %q", s.name, k, txt))
							}
						}
						for k := range s.types {
							if !strings.Contains(txt, k+" = ") {
								rep.report("readers-only:String:symbol-missing", fmt.Sprintf("String of %s does not mention type %s: %q", s.name, k, txt))
							}
						}
					case r < 21:
						name = "Type"
						tk := typeNames[next(len(typeNames))]
						t, err := s.e.Type(tk)
						want, found := s.lookupType(tk)
						if tk == "int64" {
							want, found = c13r5Types[0], true
						}
						if found && (err != nil || t != want) {
							rep.report("readers-only:Type:wrong-type", fmt.Sprintf("Type(%s) through %s = %v, %v; defined is %v and nobody writes", tk, s.name, t, err, want))
						} else if !found && err == nil {
							rep.report("readers-only:Type:undefined-type-answered", fmt.Sprintf("Type(%s) through %s = %v though nothing defines it", tk, s.name, t))
						}
					case r < 22:
						name = "GetTypeSymbols"
						want := map[string]bool{}
						for k := range s.types {
							want[k] = true
						}
						if got := s.e.GetTypeSymbols(); !c13r5SameSet(got, want) {
							rep.report("readers-only:GetTypeSymbols:wrong-listing", fmt.Sprintf("type listing of %s = %v, the scope defines %d and nobody writes", s.name, got, len(want)))
						}
					default:
						name = "GetEnvFromPath"
						m, err := s.e.GetEnvFromPath([]string{"m0"})
						if want, found := s.lookup("m0"); found && (err != nil || m != want.mod) {
							rep.report("readers-only:GetEnvFromPath:wrong-module", fmt.Sprintf("GetEnvFromPath(m0) through %s: %v", s.name, err))
						} else if !found && err == nil {
							rep.report("readers-only:GetEnvFromPath:undefined-module-answered", fmt.Sprintf("GetEnvFromPath(m0) through %s answers a scope", s.name))
						}
					}
					local[name]++
					if next(8) == 0 {
						runtime.Gosched()
					}
				}
				rep.merge(local)
			}(g)
		}
		close(start)
		c13r5Wait(c, &wg, 60*time.Second, "scopes-readers-watchdog", input)
	}
	nilAddrs = rep.counts["Addr-of-nil-binding"]
	delete(rep.counts, "Addr-of-nil-binding")
	c.Count("scopes_readers_addr_of_nil_binding", nilAddrs)
	rep.flush(c, "scopes_readers_ops:", input)
	c.Eval(fmt.Sprintf("scopes-readers rounds=%d procs=%d first=%d", rounds, procs, c.Rng.Int63()), true)
	c.Tag("scopes-mode:readers", fmt.Sprintf("scopes-gomaxprocs:%d", procs))
	if c.WantSample() {
		c.Sample(map[string]interface{}{"phase": "scopes", "mode": "readers", "rounds": rounds, "gomaxprocs": procs, "addr_of_nil_binding": nilAddrs, "operation_counts": rep.counts})
	}
}

// ---------------------------------------------------------------------------------------------
// mode family

// c13r5Lookup: an immutable external lookup (several instances differ in what they answer, so that
// replacing one by another is a visible change of the scope's field)
type c13r5Lookup struct{ id int }

func (l c13r5Lookup) Get(s string) (reflect.Value, error) {
	if s == "kx" {
		return reflect.ValueOf(fmt.Sprintf("X%d", l.id)), nil
	}
	return reflect.Value{}, fmt.Errorf("undefined symbol '%s'", s)
}

func (l c13r5Lookup) Type(s string) (reflect.Type, error) {
	if s == "tx" {
		return c13r5Types[l.id%len(c13r5Types)], nil
	}
	return nil, fmt.Errorf("undefined type '%s'", s)
}

var c13r5Lookups = []env.ExternalLookup{c13r5Lookup{0}, c13r5Lookup{1}, c13r5Lookup{2}, c13Lookup}

// c13r5AliasLookup: a lookup that READS the scope it is installed on: al_<name> is the value
// <name> has for that scope, AL_<name> the type. The object itself is immutable. Get and Type of
// the package call the lookup with no lock held, so a lookup of this kind is a combination of
// environment operations like any other and must neither race nor block for good.
type c13r5AliasLookup struct{ scope *env.Env }

func (l c13r5AliasLookup) Get(s string) (reflect.Value, error) {
	if strings.HasPrefix(s, "al_") {
		return l.scope.GetValue(s[3:])
	}
	return reflect.Value{}, fmt.Errorf("undefined symbol '%s'", s)
}

func (l c13r5AliasLookup) Type(s string) (reflect.Type, error) {
	if strings.HasPrefix(s, "AL_") {
		return l.scope.Type(s[3:])
	}
	return nil, fmt.Errorf("undefined type '%s'", s)
}

type c13r5Script struct {
	src  string
	stmt ast.Stmt
}

func c13r5Family(c *wk.Case) {
	procs := []int{16, 2, 4}[(c.Index/2)%3]
	old := runtime.GOMAXPROCS(procs)
	defer runtime.GOMAXPROCS(old)
	root := env.NewEnv()
	root.Define("kp", "P")
	mid := root.NewEnv()
	sub := mid.NewEnv()
	ng := 4 + c.Rng.Intn(5)
	nops := 300 + c.Rng.Intn(401)
	input := map[string]interface{}{"phase": "scopes", "mode": "family", "goroutines": ng, "ops": nops, "gomaxprocs": procs}
	c.Begin(input)
	rep := &c13r5Reporter{viol: map[string]string{}, counts: map[string]int{}}
	subLookups := []env.ExternalLookup{c13r5AliasLookup{sub}, c13r5AliasLookup{sub}, c13r5Lookup{0}, c13Lookup}

	type state struct {
		w, r, gv int64          // last values of w<g> (on mid), r<g> (on root), gv<g> (on root, DefineGlobal)
		t, s, gt reflect.Type   // last types of T<g> (mid), S<g> (sub), G<g> (root)
		mt       reflect.Type   // type MT of the module
		cell     reflect.Value  // the cell bound to c<g> on mid
		mod, in  *env.Env       // module mod<g> on mid and its module "in"
		temp     map[string]int // short-lived symbols defined now (t<g>_<j>: even j on mid, odd j on sub)
		gone     map[string]bool
		nilHome  *env.Env // where n<g> is bound to nil now
	}
	seeds := make([]int64, ng)
	states := make([]*state, ng)
	scripts := make([][]c13r5Script, ng)
	for g := 0; g < ng; g++ {
		seeds[g] = c.Rng.Int63()
		st := &state{temp: map[string]int{}, gone: map[string]bool{}}
		states[g] = st
		mid.Define(fmt.Sprintf("w%d", g), int64(0))
		root.Define(fmt.Sprintf("r%d", g), int64(0))
		root.Define(fmt.Sprintf("gv%d", g), int64(0))
		st.t, st.s, st.gt, st.mt = c13r5Types[0], c13r5Types[1], c13r5Types[2], c13r5Types[3]
		mid.DefineReflectType(fmt.Sprintf("T%d", g), st.t)
		sub.DefineReflectType(fmt.Sprintf("S%d", g), st.s)
		root.DefineReflectType(fmt.Sprintf("G%d", g), st.gt)
		st.cell = reflect.New(c13r5Types[0]).Elem()
		mid.DefineValue(fmt.Sprintf("c%d", g), st.cell)
		st.mod, _ = mid.NewModule(fmt.Sprintf("mod%d", g))
		st.mod.DefineReflectType("MT", st.mt)
		st.in, _ = st.mod.NewModule("in")
		st.nilHome = mid
		mid.Define(fmt.Sprintf("n%d", g), nil)
		// the trees are parsed here, one-at-a-time, each for one goroutine alone
		for _, src := range []string{
			fmt.Sprintf("func(){ return make(T%d) }()", g),
			fmt.Sprintf("func(){ if true { return make(S%d) } }()", g),
			fmt.Sprintf("func(){ return make(G%d) }()", g),
			fmt.Sprintf("func(){ return make(mod%d.MT) }()", g),
			fmt.Sprintf("func(){ if true { return w%d } }()", g),
			fmt.Sprintf("func(){ w%d = w%d + 1; return w%d }()", g, g, g),
		} {
			stmt, err, out := ank.Parse(src)
			if err != nil || out.Panicked {
				c.Inconclusive("scopes-script-does-not-parse", fmt.Sprintf("%s: %v %s", src, err, out.PanicVal), input)
				return
			}
			scripts[g] = append(scripts[g], c13r5Script{src, stmt})
		}
	}

	var wg sync.WaitGroup
	start := make(chan struct{})
	for g := 0; g < ng; g++ {
		wg.Add(1)
		go func(g int) {
			defer wg.Done()
			defer func() {
				if r := recover(); r != nil {
					rep.recovered(r)
				}
			}()
			st := states[g]
			x := uint64(seeds[g]) | 1
			next := func(n int) int {
				x ^= x << 13
				x ^= x >> 7
				x ^= x << 17
				return int(x % uint64(n))
			}
			wName, rName, gvName := fmt.Sprintf("w%d", g), fmt.Sprintf("r%d", g), fmt.Sprintf("gv%d", g)
			tName, sName, gtName := fmt.Sprintf("T%d", g), fmt.Sprintf("S%d", g), fmt.Sprintf("G%d", g)
			cName, nName, modName := fmt.Sprintf("c%d", g), fmt.Sprintf("n%d", g), fmt.Sprintf("mod%d", g)
			leaf := sub.NewEnv()
			leaf2 := leaf.NewEnv()
			// desc picks the descendant the operation starts in
			desc := func() (*env.Env, string) {
				switch next(4) {
				case 0:
					return leaf, "leaf"
				case 1:
					return leaf2, "leaf-of-leaf"
				case 2:
					return sub.NewEnv(), "fresh-child"
				default:
					return sub, "sub"
				}
			}
			seen := make([]int64, ng)
			local := map[string]int{}
			own := func(op, via string) string { return "family:" + op + ":own-write-not-read-back" }
			<-start
			for i := int64(1); i <= int64(nops); i++ {
				d, via := desc()
				var name string
				switch r := next(42); {
				case r < 3:
					// w<g> lives on mid: a Set started below finds it there
					var err error
					switch next(3) {
					case 0:
						err, name = d.Set(wName, i), "Set"
					case 1:
						err, name = mid.Set(wName, i), "Set"
					default:
						err, name = mid.Define(wName, i), "Define"
					}
					if err != nil {
						rep.report("family:"+name+":own-symbol-gone", fmt.Sprintf("goroutine %d: %s(%s) through %s fails: %v", g, name, wName, via, err))
					}
					st.w = i
				case r < 6:
					name = "Get"
					if v, err := d.Get(wName); err != nil || v != st.w {
						rep.report(own("Get", via), fmt.Sprintf("goroutine %d wrote %s=%d last (on mid) and nobody else writes it, Get through %s = %v (error %v)", g, wName, st.w, via, ank.Render(v), err))
					}
				case r < 8:
					var err error
					if next(2) == 0 {
						err, name = d.Set(rName, i), "Set"
						st.r = i
					} else {
						err, name = d.DefineGlobal(gvName, i), "DefineGlobal"
						st.gv = i
					}
					if err != nil {
						rep.report("family:"+name+":own-symbol-gone", fmt.Sprintf("goroutine %d: %s on a root symbol through %s fails: %v", g, name, via, err))
					}
				case r < 10:
					name = "Get"
					k, want := rName, st.r
					if next(2) == 0 {
						k, want = gvName, st.gv
					}
					if v, err := d.Get(k); err != nil || v != want {
						rep.report(own("Get", via), fmt.Sprintf("goroutine %d wrote %s=%d last (on root) and nobody else writes it, Get through %s = %v (error %v)", g, k, want, via, ank.Render(v), err))
					}
				case r < 13:
					// types: T<g> on mid, S<g> on sub, G<g> on root (through any descendant)
					t := c13r5Types[next(len(c13r5Types))]
					var err error
					switch next(6) {
					case 0:
						err, name = mid.DefineType(tName, reflect.Zero(t).Interface()), "DefineType"
						st.t = t
					case 1:
						err, name = mid.DefineReflectType(tName, t), "DefineReflectType"
						st.t = t
					case 2:
						err, name = sub.DefineReflectType(sName, t), "DefineReflectType"
						st.s = t
					case 3:
						err, name = d.DefineGlobalType(gtName, reflect.Zero(t).Interface()), "DefineGlobalType"
						st.gt = t
					case 4:
						err, name = d.DefineGlobalReflectType(gtName, t), "DefineGlobalReflectType"
						st.gt = t
					default:
						err, name = st.mod.DefineReflectType("MT", t), "DefineReflectType"
						st.mt = t
					}
					if err != nil {
						rep.report("family:"+name+":fails", fmt.Sprintf("goroutine %d: %s through %s: %v", g, name, via, err))
					}
				case r < 18:
					name = "Type"
					k, want := tName, st.t
					switch next(3) {
					case 0:
						k, want = sName, st.s
					case 1:
						k, want = gtName, st.gt
					}
					if t, err := d.Type(k); err != nil || t != want {
						rep.report(own("Type", via), fmt.Sprintf("goroutine %d defined type %s=%v last and nobody else defines it, Type through %s = %v (error %v)", g, k, want, via, t, err))
					}
				case r < 21:
					// short-lived symbols: defined on their home scope, deleted from below
					j := next(6)
					k := fmt.Sprintf("t%d_%d", g, j)
					home := mid
					if j%2 == 1 {
						home = sub
					}
					if next(2) == 0 {
						name = "Define"
						if err := home.Define(k, int(i)); err != nil {
							rep.report("family:Define:fails", fmt.Sprintf("Define(%s): %v", k, err))
						}
						st.temp[k] = int(i)
						delete(st.gone, k)
					} else {
						if next(3) == 0 {
							home.Delete(k)
							name = "Delete"
						} else {
							d.DeleteGlobal(k)
							name = "DeleteGlobal"
						}
						delete(st.temp, k)
						st.gone[k] = true
					}
				case r < 23:
					name = "Get"
					k := fmt.Sprintf("t%d_%d", g, next(6))
					v, err := d.Get(k)
					if want, ok := st.temp[k]; ok && (err != nil || v != want) {
						rep.report(own("Get", via), fmt.Sprintf("goroutine %d defined %s=%d last and nobody else writes it, Get through %s = %v (error %v)", g, k, want, via, ank.Render(v), err))
					} else if !ok && err == nil {
						rep.report("family:Get:own-deleted-symbol-visible", fmt.Sprintf("goroutine %d deleted %s last (or never defined it) and nobody else defines it, Get through %s = %v", g, k, via, ank.Render(v)))
					}
				case r < 25:
					// the cell of c<g>: rebound by g only; Addr from below answers the cell bound last
					if next(3) == 0 {
						name = "DefineValue"
						cell := reflect.New(c13r5Types[0]).Elem()
						cell.SetInt(i)
						mid.DefineValue(cName, cell)
						st.cell = cell
					} else {
						name = "Addr"
						p, err := d.Addr(cName)
						if err != nil || p.Kind() != reflect.Ptr || p.Pointer() != st.cell.Addr().Pointer() {
							rep.report("family:Addr:not-the-cell-bound-last", fmt.Sprintf("goroutine %d bound %s to a cell of its own last, Addr through %s = %v (error %v)", g, cName, via, p, err))
						}
					}
				case r < 29:
					// n<g>: bound to nil again and again (on mid or sub), its address taken from below
					switch next(4) {
					case 0:
						name = "Define-nil"
						home := mid
						if next(2) == 0 {
							home = sub
						}
						if home != st.nilHome {
							st.nilHome.Delete(nName)
						}
						c13r5BindNil(home, nName, next(5))
						st.nilHome = home
					case 1:
						name = "Get"
						if v, err := d.Get(nName); err != nil || v != nil {
							rep.report(own("Get", via), fmt.Sprintf("goroutine %d bound %s to nil last, Get through %s = %v (error %v)", g, nName, via, ank.Render(v), err))
						}
					default:
						name = "Addr"
						e := d
						if next(3) == 0 {
							e, via = st.nilHome, "home"
						}
						p, err := e.Addr(nName)
						local["Addr-of-nil-binding"]++
						if err != nil || p.Kind() != reflect.Ptr || p.IsNil() || p.Elem().Kind() != reflect.Interface || !p.Elem().IsNil() {
							rep.report("family:Addr:nil-binding", fmt.Sprintf("goroutine %d bound %s to nil last, Addr through %s = %v (error %v)", g, nName, via, p, err))
						}
					}
				case r < 31:
					// the module: replaced by g only
					switch next(5) {
					case 0:
						name = "NewModule"
						m, err := mid.NewModule(modName)
						if err != nil {
							rep.report("family:NewModule:fails", fmt.Sprintf("NewModule(%s): %v", modName, err))
						}
						// between the two calls the new module has no MT; only g asks for it, afterwards
						m.DefineReflectType("MT", st.mt)
						in, _ := m.NewModule("in")
						st.mod, st.in = m, in
					case 1:
						name = "GetEnvFromPath"
						if m, err := d.GetEnvFromPath([]string{modName, "in"}); err != nil || m != st.in {
							rep.report(own("GetEnvFromPath", via), fmt.Sprintf("goroutine %d made module %s.in last, GetEnvFromPath through %s answers another scope (error %v)", g, modName, via, err))
						}
					case 2:
						// a member of the module, written by g only, while others print and copy mid
						name = "Define"
						st.mod.Define("mv", i)
						if m, err := d.GetEnvFromPath([]string{modName}); err != nil || m != st.mod {
							rep.report(own("GetEnvFromPath", via), fmt.Sprintf("goroutine %d made module %s last, GetEnvFromPath through %s answers another scope (error %v)", g, modName, via, err))
						} else if v, err := m.Get("mv"); err != nil || v != i {
							rep.report(own("Get", via), fmt.Sprintf("goroutine %d wrote %s.mv=%d last, Get = %v (error %v)", g, modName, i, ank.Render(v), err))
						}
					default:
						name = "GetEnvFromPath"
						if m, err := d.GetEnvFromPath([]string{modName}); err != nil || m != st.mod {
							rep.report(own("GetEnvFromPath", via), fmt.Sprintf("goroutine %d made module %s last, GetEnvFromPath through %s answers another scope (error %v)", g, modName, via, err))
						}
					}
				case r < 33:
					// copies started below: every scope of a deep copy is a snapshot of its scope, and
					// g's symbols are as g left them in each
					var cp *env.Env
					if next(3) == 0 {
						cp, name, via = mid.Copy(), "Copy", "mid"
					} else {
						cp, name = d.DeepCopy(), "DeepCopy"
					}
					if v, err := cp.Get(wName); err != nil || v != st.w {
						rep.report(own(name, via), fmt.Sprintf("goroutine %d wrote %s=%d last, %s through %s shows %v (error %v)", g, wName, st.w, name, via, ank.Render(v), err))
					}
					if t, err := cp.Type(tName); err != nil || t != st.t {
						rep.report(own(name, via), fmt.Sprintf("goroutine %d defined type %s=%v last, %s through %s shows %v (error %v)", g, tName, st.t, name, via, t, err))
					}
					for k, want := range st.temp {
						if k[len(k)-1]%2 == 1 && name == "Copy" {
							continue // lives on sub, which a copy of mid does not reach
						}
						if v, err := cp.Get(k); err != nil || v != want {
							rep.report(own(name, via), fmt.Sprintf("goroutine %d defined %s=%d last, %s through %s shows %v (error %v)", g, k, want, name, via, ank.Render(v), err))
						}
					}
				case r < 35:
					// listings and String of the ancestors and of the descendant
					switch next(4) {
					case 0:
						name = "GetValueSymbols"
						listed := map[string]bool{}
						for _, k := range mid.GetValueSymbols() {
							listed[k] = true
						}
						for _, k := range []string{wName, cName, modName} {
							if !listed[k] {
								rep.report("family:GetValueSymbols:own-symbol-not-listed", fmt.Sprintf("goroutine %d: %s is bound on mid and nobody deletes it, the listing lacks it", g, k))
							}
						}
						for k := range st.gone {
							if k[len(k)-1]%2 == 0 && listed[k] {
								rep.report("family:GetValueSymbols:own-deleted-symbol-visible", fmt.Sprintf("goroutine %d deleted %s last, the listing of mid has it", g, k))
							}
						}
					case 1:
						name = "GetTypeSymbols"
						listed := map[string]bool{}
						for _, k := range mid.GetTypeSymbols() {
							listed[k] = true
						}
						if !listed[tName] {
							rep.report("family:GetTypeSymbols:own-type-not-listed", fmt.Sprintf("goroutine %d: type %s is defined on mid, the listing lacks it", g, tName))
						}
					case 2:
						name = "String"
						if txt := mid.String(); !strings.Contains(txt, wName+" = ") || !strings.Contains(txt, tName+" = ") {
							rep.report("family:String:own-symbol-missing", fmt.Sprintf("goroutine %d: String of mid lacks %s or %s", g, wName, tName))
						}
					default:
						name = "String"
						_ = d.String()
						_ = sub.String()
						_ = root.String()
					}
				case r < 36:
					// the lookup objects are immutable; what a lookup started below finds depends on
					// the interleaving, so nothing is compared
					switch next(4) {
					case 0:
						[]*env.Env{mid, root}[next(2)].SetExternalLookup(c13r5Lookups[next(len(c13r5Lookups))])
						name = "SetExternalLookup"
					case 1:
						sub.SetExternalLookup(subLookups[next(len(subLookups))])
						name = "SetExternalLookup"
					case 2:
						d.Get("kx")
						d.Addr("kx")
						name = "Get"
					default:
						d.Type("tx")
						name = "Type"
					}
				case r < 38:
					// names only the alias lookup of sub answers, when it is the one installed: an
					// error is accepted, an answer is the value / cell / type g wrote last
					switch next(3) {
					case 0:
						name = "Get"
						if v, err := d.Get("al_" + wName); err == nil && v != st.w {
							rep.report(own("Get-through-lookup", via), fmt.Sprintf("goroutine %d wrote %s=%d last, Get(al_%s) through %s = %v", g, wName, st.w, wName, via, ank.Render(v)))
						}
					case 1:
						name = "Addr"
						if p, err := d.Addr("al_" + cName); err == nil && (p.Kind() != reflect.Ptr || p.Pointer() != st.cell.Addr().Pointer()) {
							rep.report("family:Addr-through-lookup:not-the-cell-bound-last", fmt.Sprintf("goroutine %d bound %s to a cell of its own last, Addr(al_%s) through %s = %v", g, cName, cName, via, p))
						}
					default:
						name = "Type"
						if t, err := d.Type("AL_" + tName); err == nil && t != st.t {
							rep.report(own("Type-through-lookup", via), fmt.Sprintf("goroutine %d defined type %s=%v last, Type(AL_%s) through %s = %v", g, tName, st.t, tName, via, t))
						}
					}
				case r < 39:
					// another goroutine's counter, read from below: its writer writes growing numbers
					name = "Get"
					h := next(ng)
					v, err := d.Get(fmt.Sprintf("w%d", h))
					n, isInt := v.(int64)
					if err != nil || !isInt {
						rep.report("family:Get:foreign-symbol-gone", fmt.Sprintf("goroutine %d: Get(w%d) through %s = %v, %v though nobody deletes it", g, h, via, ank.Render(v), err))
					} else if n < seen[h] {
						rep.report("family:Get:foreign-read-went-back", fmt.Sprintf("goroutine %d read w%d=%d and later %d through %s; its only writer writes growing numbers", g, h, seen[h], n, via))
					} else {
						seen[h] = n
					}
				default:
					// a script run in the descendant: its func and if bodies are scopes below it
					name = "script"
					si := next(len(scripts[g]))
					sc := scripts[g][si]
					out := ank.RunCtx(context.Background(), d, sc.stmt)
					if out.Panicked {
						rep.report("family:script:"+out.PanicSig, fmt.Sprintf("%s through %s: %s", sc.src, via, out.PanicVal))
						break
					}
					var want interface{}
					switch si {
					case 0:
						want = reflect.Zero(st.t).Interface()
					case 1:
						want = reflect.Zero(st.s).Interface()
					case 2:
						want = reflect.Zero(st.gt).Interface()
					case 3:
						want = reflect.Zero(st.mt).Interface()
					case 4:
						want = st.w
					default:
						st.w++
						want = st.w
					}
					if out.Err != nil || out.Val != want {
						what := []string{"make-own-type", "make-own-type", "make-own-type", "make-own-module-type", "read-own-symbol", "increment-own-symbol"}[si]
						rep.report("family:script:"+what+":own-write-not-read-back", fmt.Sprintf("goroutine %d: %s run in %s = %s (error %v), its own last writes make it %s", g, sc.src, via, ank.Render(out.Val), out.Err, ank.Render(want)))
					}
				}
				local[name]++
				if next(16) == 0 {
					runtime.Gosched()
				}
			}
			rep.merge(local)
		}(g)
	}
	close(start)
	c13r5Wait(c, &wg, 120*time.Second, "scopes-family-watchdog", input)

	// the final state: every symbol as its owner left it
	if len(rep.panics) == 0 {
		d := sub.NewEnv()
		for g, st := range states {
			if v, err := d.Get(fmt.Sprintf("w%d", g)); err != nil || v != st.w {
				rep.report("family:final-state:own-write-missing", fmt.Sprintf("goroutine %d left w%d=%d, at the end Get = %v (error %v)", g, g, st.w, ank.Render(v), err))
			}
			if v, err := d.Get(fmt.Sprintf("r%d", g)); err != nil || v != st.r {
				rep.report("family:final-state:own-write-missing", fmt.Sprintf("goroutine %d left r%d=%d, at the end Get = %v (error %v)", g, g, st.r, ank.Render(v), err))
			}
			if t, err := d.Type(fmt.Sprintf("T%d", g)); err != nil || t != st.t {
				rep.report("family:final-state:own-type-missing", fmt.Sprintf("goroutine %d left type T%d=%v, at the end Type = %v (error %v)", g, g, st.t, t, err))
			}
			if t, err := d.Type(fmt.Sprintf("G%d", g)); err != nil || t != st.gt {
				rep.report("family:final-state:own-type-missing", fmt.Sprintf("goroutine %d left type G%d=%v, at the end Type = %v (error %v)", g, g, st.gt, t, err))
			}
			for k, want := range st.temp {
				if v, err := d.Get(k); err != nil || v != want {
					rep.report("family:final-state:own-write-missing", fmt.Sprintf("goroutine %d left %s=%d, at the end Get = %v (error %v)", g, k, want, ank.Render(v), err))
				}
			}
			for k := range st.gone {
				if v, err := d.Get(k); err == nil {
					rep.report("family:final-state:own-deleted-symbol-visible", fmt.Sprintf("goroutine %d deleted %s last, at the end Get = %v", g, k, ank.Render(v)))
				}
			}
		}
	}
	nilAddrs := rep.counts["Addr-of-nil-binding"]
	delete(rep.counts, "Addr-of-nil-binding")
	c.Count("scopes_family_addr_of_nil_binding", nilAddrs)
	rep.flush(c, "scopes_family_ops:", input)
	c.Eval(fmt.Sprintf("scopes-family g=%d ops=%d procs=%d seed0=%d", ng, nops, procs, seeds[0]), true)
	c.Tag("scopes-mode:family", fmt.Sprintf("scopes-gomaxprocs:%d", procs))
	if c.WantSample() {
		c.Sample(map[string]interface{}{"phase": "scopes", "mode": "family", "goroutines": ng, "ops_per_goroutine": nops, "gomaxprocs": procs, "operation_counts": rep.counts})
	}
}

func c13r5Scopes(c *wk.Case) {
	if c.Index%2 == 0 {
		c13r5Readers(c)
	} else {
		c13r5Family(c)
	}
}
