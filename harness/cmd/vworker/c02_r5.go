package main

// C02, round 5: further routes by which a script function becomes a Go func value and is
// invoked while the never-terminating core runs inside it. The property speaks of "script
// functions of any arity ... a callback": whatever Go func-typed slot the script function was
// converted for, and whatever arguments the Go side hands to it, it is script code of the run and
// the cancellation of the run's context has to stop it. Three families:
//
//   - Go callback types that take a context.Context (first, last, only parameter; with results;
//     stored in a struct field / a typed slice; returned by another callback): the host calls
//     them with context.Background(), a context of its own that is NOT derived from the run's
//     context, or nil. The context argument is a plain value for the script; the run's context
//     still governs.
//   - every store/append operation that converts a script function to the Go func element type
//     of a typed container: `+` and `+=` with one value on host-owned, make()-made and literal
//     slices, index store and index append, typed map index / member store, typed map literal,
//     host-owned map, store through a pointer, send on a script-made typed channel, a list
//     converted to a []func() / [][]func() parameter. The element is then invoked by the script
//     or by a host function.
//   - result positions of Go callback types: several results with a func among them (first,
//     second, middle position; func with parameters and a result), a slice or map of funcs as
//     result, a result list that arrives as one list value, factories of factories, and a host
//     that cancels between two invocations of the returned function.
//
// Plus one more place a callback can run: a goroutine started by the host function, while the
// script itself is blocked.

import (
	"context"
	"fmt"

	"github.com/mattn/anko/env"
)

// c02HolderCtx: a host struct with a func-typed field whose type takes a context
type c02HolderCtx struct {
	FC func(context.Context)
}

// RunC invokes the stored function with a context of the host's own
func (h *c02HolderCtx) RunC() { h.FC(context.Background()) }

type c02CtxKey struct{}

var _ = c02AddR5Wrappers()

func c02AddR5Wrappers() bool {
	fn := func(c string) string { return "func() {\n" + ind(c) + "\n}" }
	ws := []c02Wrapper{
		// ---- callback types with a context.Context parameter
		{name: "callback-ctx-first-background", wrap: func(c string, id int) string {
			return fmt.Sprintf("applyCtx(func(cx) {\n%s\n})", ind(c))
		}},
		{name: "callback-ctx-first-host-context-value-result", wrap: func(c string, id int) string {
			return fmt.Sprintf("x = applyCtxReq(func(cx, req) {\n%s\n  return req\n})", ind(c))
		}},
		{name: "callback-ctx-first-error-result", wrap: func(c string, id int) string {
			return fmt.Sprintf("applyCtxE(func(cx) {\n%s\n})", ind(c))
		}},
		{name: "callback-ctx-first-nil", wrap: func(c string, id int) string {
			return fmt.Sprintf("applyCtxNil(func(cx) {\n%s\n})", ind(c))
		}},
		{name: "callback-ctx-first-variadic-script-func", wrap: func(c string, id int) string {
			return fmt.Sprintf("x = applyCtxReq(func(a...) {\n%s\n  return \"\"\n})", ind(c))
		}},
		{name: "callback-ctx-last", wrap: func(c string, id int) string {
			return fmt.Sprintf("applyCtxLast(func(req, cx) {\n%s\n})", ind(c))
		}},
		{name: "callback-ctx-first-multi-result", wrap: func(c string, id int) string {
			return fmt.Sprintf("x = applyCtxVE(func(cx, a) {\n%s\n  return a, nil\n})", ind(c))
		}},
		{name: "callback-ctx-first-struct-field-host-call", wrap: func(c string, id int) string {
			return fmt.Sprintf("holdc.FC = func(cx) {\n%s\n}\nholdc.RunC()", ind(c))
		}},
		{name: "callback-ctx-first-struct-field-script-call", wrap: func(c string, id int) string {
			return fmt.Sprintf("holdc.FC = func(cx) {\n%s\n}\nholdc.FC(hostctx)", ind(c))
		}},
		{name: "callback-ctx-first-appended-to-host-slice", wrap: func(c string, id int) string {
			return fmt.Sprintf("ctxhooks += func(cx) {\n%s\n}\nfireCtxLast(ctxhooks)", ind(c))
		}},
		{name: "callback-ctx-first-returned-by-callback", wrap: func(c string, id int) string {
			return fmt.Sprintf("applyCtxMaker(func() { return func(cx) {\n%s\n} })", ind(c))
		}},
		{name: "callback-ctx-first-returned-by-ctx-callback-multi-result", wrap: func(c string, id int) string {
			return fmt.Sprintf("applyCtxMakerE(func(cx) { return func(cy) {\n%s\n}, nil })", ind(c))
		}},
		{name: "callback-ctx-first-retry-host-cancels-between", hostCancels: true, wrap: func(c string, id int) string {
			return fmt.Sprintf("ac%d = 0\nretryCtxC(func(cx) {\n  ac%d++\n  if ac%d == 1 {\n    return false\n  }\n%s\n  return true\n})", id, id, id, ind(c))
		}},
		{name: "callback-ctx-first-each-cancel-during-step", waitsForCancel: true, wrap: func(c string, id int) string {
			return fmt.Sprintf("eachCtxW([1, 2, 3], func(cx, x) {\n  if x >= 2 {\n%s\n  }\n})", ind(ind(c)))
		}},

		// ---- stores and appends into containers whose element type is a Go func type
		{name: "callback-append-pluseq-host-slice-host-call", wrap: func(c string, id int) string {
			return fmt.Sprintf("hooks += %s\nfireLast(hooks)", fn(c))
		}},
		{name: "callback-append-pluseq-host-slice-script-call", wrap: func(c string, id int) string {
			return fmt.Sprintf("hooks += %s\nhooks[len(hooks) - 1]()", fn(c))
		}},
		{name: "callback-append-plus-made-slice-script-call", wrap: func(c string, id int) string {
			return fmt.Sprintf("hs%d = make([]Hook)\nhs%d = hs%d + %s\nhs%d[0]()", id, id, id, fn(c), id)
		}},
		{name: "callback-append-plus-made-slice-host-call", wrap: func(c string, id int) string {
			return fmt.Sprintf("hs%d = make([]Hook)\nfireLast(hs%d + %s)", id, id, fn(c))
		}},
		{name: "callback-append-pluseq-typed-literal-host-call", wrap: func(c string, id int) string {
			return fmt.Sprintf("hs%d = []Hook{func() { }}\nhs%d += %s\nfireLast(hs%d)", id, id, fn(c), id)
		}},
		{name: "callback-append-pluseq-member-slice", wrap: func(c string, id int) string {
			return fmt.Sprintf("hm%d = {\"l\": make([]Hook)}\nhm%d.l += %s\nfireLast(hm%d.l)", id, id, fn(c), id)
		}},
		{name: "callback-append-plus-after-first", wrap: func(c string, id int) string {
			return fmt.Sprintf("hs%d = make([]Hook) + func() { } + %s\nfor h%d in hs%d {\n  h%d()\n}", id, fn(c), id, id, id)
		}},
		{name: "callback-index-store-typed-slice-host-call", wrap: func(c string, id int) string {
			return fmt.Sprintf("hs%d = make([]Hook, 1)\nhs%d[0] = %s\nfireLast(hs%d)", id, id, fn(c), id)
		}},
		{name: "callback-index-append-typed-slice-script-call", wrap: func(c string, id int) string {
			return fmt.Sprintf("hs%d = make([]Hook)\nhs%d[0] = %s\nhs%d[0]()", id, id, fn(c), id)
		}},
		{name: "callback-typed-map-index-store-script-call", wrap: func(c string, id int) string {
			return fmt.Sprintf("hm%d = make(map[string]Hook)\nhm%d[\"k\"] = %s\nhm%d[\"k\"]()", id, id, fn(c), id)
		}},
		{name: "callback-typed-map-member-store-host-call", wrap: func(c string, id int) string {
			return fmt.Sprintf("hm%d = make(map[string]Hook)\nhm%d.k = %s\napplyMap(hm%d)", id, id, fn(c), id)
		}},
		{name: "callback-typed-map-literal-script-call", wrap: func(c string, id int) string {
			return fmt.Sprintf("hm%d = map[string]Hook{\"k\": %s}\nhm%d.k()", id, fn(c), id)
		}},
		{name: "callback-host-map-store-host-call", wrap: func(c string, id int) string {
			return fmt.Sprintf("hookmap[\"k%d\"] = %s\ncallKey(hookmap, \"k%d\")", id, fn(c), id)
		}},
		{name: "callback-deref-store-host-call", wrap: func(c string, id int) string {
			return fmt.Sprintf("*hookptr = %s\ncallPtr(hookptr)", fn(c))
		}},
		{name: "callback-deref-store-script-call", wrap: func(c string, id int) string {
			return fmt.Sprintf("*hookptr = %s\nhp%d = *hookptr\nhp%d()", fn(c), id, id)
		}},
		{name: "callback-script-made-typed-chan", wrap: func(c string, id int) string {
			return fmt.Sprintf("fc%d = make(chan Hook, 1)\nfc%d <- %s\nfg%d = <- fc%d\nfg%d()", id, id, fn(c), id, id, id)
		}},
		{name: "callback-list-to-slice-parameter", wrap: func(c string, id int) string {
			return fmt.Sprintf("fireLast([func() { }, %s])", fn(c))
		}},
		{name: "callback-nested-list-to-slice-parameter", wrap: func(c string, id int) string {
			return fmt.Sprintf("fireNested([[func() { }], [%s]])", fn(c))
		}},

		// ---- result positions of callback types
		{name: "callback-multi-result-func-error", wrap: func(c string, id int) string {
			return fmt.Sprintf("spawn(\"w\", func(name) {\n  return %s, nil\n})", fn(c))
		}},
		{name: "callback-multi-result-func-ok-with-parameter", wrap: func(c string, id int) string {
			return fmt.Sprintf("x = dispatch(func(name) {\n  return func(n) {\n%s\n    return n\n  }, true\n})", ind(ind(c)))
		}},
		{name: "callback-multi-result-func-second", wrap: func(c string, id int) string {
			return fmt.Sprintf("spawnSecond(func() {\n  return 1, %s\n})", fn(c))
		}},
		{name: "callback-multi-result-func-middle-of-three", wrap: func(c string, id int) string {
			return fmt.Sprintf("spawnMiddle(func() {\n  return \"a\", %s, nil\n})", fn(c))
		}},
		{name: "callback-multi-result-list-value", wrap: func(c string, id int) string {
			return fmt.Sprintf("spawn(\"w\", func(name) {\n  r%d = [%s, nil]\n  return r%d\n})", id, fn(c), id)
		}},
		{name: "callback-multi-result-slice-of-funcs", wrap: func(c string, id int) string {
			return fmt.Sprintf("spawnMany(func() {\n  return [func() { }, %s], nil\n})", fn(c))
		}},
		{name: "callback-single-result-slice-of-funcs", wrap: func(c string, id int) string {
			return fmt.Sprintf("spawnMany1(func() {\n  return [func() { }, %s]\n})", fn(c))
		}},
		{name: "callback-multi-result-map-of-funcs", wrap: func(c string, id int) string {
			return fmt.Sprintf("spawnTable(func() {\n  return {\"k\": %s}, true\n})", fn(c))
		}},
		{name: "callback-single-result-func-with-error-result", wrap: func(c string, id int) string {
			return fmt.Sprintf("applyMakerE(func() { return %s })", fn(c))
		}},
		{name: "callback-multi-result-factory-of-factory", wrap: func(c string, id int) string {
			return fmt.Sprintf("spawnDeep(func() {\n  return func() {\n    return %s, nil\n  }, nil\n})", fn(c))
		}},
		{name: "callback-multi-result-func-host-cancels-between", hostCancels: true, wrap: func(c string, id int) string {
			return fmt.Sprintf("mn%d = 0\nspawnTwiceC(func(name) {\n  return func() {\n    mn%d++\n    if mn%d > 1 {\n%s\n    }\n  }, nil\n})", id, id, id, ind(ind(ind(c))))
		}},

		// ---- the host runs the callback on a goroutine of its own while the script waits
		{name: "callback-on-host-goroutine-parent-blocked", wrap: func(c string, id int) string {
			return fmt.Sprintf("dg%d = make(chan int64)\nasync(%s)\n<- dg%d", id, fn(c), id)
		}},
	}
	for i := range ws {
		ws[i].onePosition = true
	}
	c02Wrappers = append(c02Wrappers, ws...)
	return true
}

// c02DefineR5 binds the host side of the round-5 wrappers. None of the contexts the host hands
// to a callback is derived from the run's context, and none of them is ever cancelled.
func c02DefineR5(e *env.Env, runCtx context.Context, doCancel func()) {
	hostCtx := context.WithValue(context.Background(), c02CtxKey{}, "request")
	e.Define("hostctx", hostCtx)
	e.Define("applyCtx", func(f func(context.Context)) { f(context.Background()) })
	e.Define("applyCtxReq", func(f func(context.Context, string) string) string { return f(hostCtx, "GET /") })
	e.Define("applyCtxE", func(f func(context.Context) error) error { return f(hostCtx) })
	e.Define("applyCtxNil", func(f func(context.Context)) { f(nil) })
	e.Define("applyCtxLast", func(f func(string, context.Context)) { f("GET /", hostCtx) })
	e.Define("applyCtxVE", func(f func(context.Context, int64) (interface{}, error)) interface{} {
		v, _ := f(hostCtx, 1)
		return v
	})
	e.Define("holdc", &c02HolderCtx{})
	e.Define("ctxhooks", []func(context.Context){})
	e.Define("fireCtxLast", func(hs []func(context.Context)) {
		if len(hs) > 0 {
			hs[len(hs)-1](hostCtx)
		}
	})
	e.Define("applyCtxMaker", func(mk func() func(context.Context)) { mk()(hostCtx) })
	e.Define("applyCtxMakerE", func(mk func(context.Context) (func(context.Context), error)) {
		if f, err := mk(hostCtx); err == nil {
			f(context.Background())
		}
	})
	e.Define("retryCtxC", func(f func(context.Context) bool) {
		for i := 0; i < 3; i++ {
			if f(hostCtx) {
				return
			}
			if i == 0 {
				doCancel()
			}
		}
	})
	e.Define("eachCtxW", func(l []interface{}, f func(context.Context, interface{})) {
		for i, x := range l {
			if i == 1 {
				<-runCtx.Done()
			}
			f(hostCtx, x)
		}
	})

	e.DefineType("Hook", func() {})
	e.Define("hooks", []func(){})
	e.Define("fireLast", func(hs []func()) {
		if len(hs) > 0 {
			hs[len(hs)-1]()
		}
	})
	e.Define("fireNested", func(hss [][]func()) {
		if len(hss) > 0 {
			if hs := hss[len(hss)-1]; len(hs) > 0 {
				hs[len(hs)-1]()
			}
		}
	})
	e.Define("hookmap", map[string]func(){})
	e.Define("callKey", func(m map[string]func(), k string) {
		if f := m[k]; f != nil {
			f()
		}
	})
	e.Define("hookptr", new(func()))
	e.Define("callPtr", func(p *func()) {
		if p != nil && *p != nil {
			(*p)()
		}
	})

	// The adapter has no other way to report the interruption of the callback than a panic; this
	// host recovers it on the goroutine it started (what becomes of that goroutine's error is the
	// host's business and outside the property; that the callback STOPS is inside it: the probe
	// events after the cancel are counted like those of script goroutines).
	e.Define("async", func(f func()) {
		go func() {
			defer func() { _ = recover() }()
			f()
		}()
	})

	e.Define("spawn", func(name string, factory func(string) (func(), error)) error {
		worker, err := factory(name)
		if err != nil {
			return err
		}
		worker()
		return nil
	})
	e.Define("dispatch", func(find func(string) (func(int64) int64, bool)) int64 {
		if handler, ok := find("double"); ok {
			return handler(21)
		}
		return -1
	})
	e.Define("spawnSecond", func(factory func() (int64, func())) {
		_, worker := factory()
		worker()
	})
	e.Define("spawnMiddle", func(factory func() (string, func(), error)) {
		_, worker, _ := factory()
		worker()
	})
	e.Define("spawnMany", func(factory func() ([]func(), error)) {
		if ws, err := factory(); err == nil && len(ws) > 0 {
			ws[len(ws)-1]()
		}
	})
	e.Define("spawnMany1", func(factory func() []func()) {
		if ws := factory(); len(ws) > 0 {
			ws[len(ws)-1]()
		}
	})
	e.Define("spawnTable", func(factory func() (map[string]func(), bool)) {
		if t, ok := factory(); ok {
			for _, f := range t {
				f()
			}
		}
	})
	e.Define("applyMakerE", func(mk func() func() error) error { return mk()() })
	e.Define("spawnDeep", func(outer func() (func() (func(), error), error)) {
		if inner, err := outer(); err == nil {
			if worker, err := inner(); err == nil {
				worker()
			}
		}
	})
	e.Define("spawnTwiceC", func(factory func(string) (func(), error)) {
		if worker, err := factory("w"); err == nil {
			worker()
			doCancel()
			worker()
		}
	})
}
