package main

// C19 — core builtins and bundled package tables agree with their Go counterparts.
//
// Seven phases, and five round-8 phases in c19_r8.go (histories: see c19_r5.go; kept results and deferred misuse: see c19_r6.go; swallowed
// failures and sizes: see c19_r7.go):
//   tables  structural invariant on the LIVE env.Packages / env.PackageTypes tables (exhaustive):
//           every Func entry resolves (runtime.FuncForPC) to the symbol "<import path>.<key>", every
//           type entry is the named type <import path>.<key> (or a pointer to it), and what a script
//           `import` hands out is exactly the table entry.
//   range   differential against the progression computed with math/big; every call runs in a
//           CHILD process with memory/CPU budgets so that a runaway loop is a violation with the
//           triple as witness, never a hung or dead check.
//   values  keys/len/typeOf/kindOf/toX differential against native Go over a fixed value universe,
//           PRNG-built values and reflect-built random types.
//   misuse  every builtin x wrong argument count x every value kind (and clearly wrong argument
//           types) must be an error, never a panic; also when a defer statement makes the call.

import (
	"bufio"
	"bytes"
	"encoding/json"
	"errors"
	"flag"
	"fmt"
	"hash/fnv"
	"math"
	"math/big"
	"os"
	"os/exec"
	"reflect"
	"regexp"
	"runtime"
	"runtime/metrics"
	"sort"
	"strconv"
	"strings"
	"sync/atomic"
	"syscall"
	"time"
	"unicode/utf8"

	"github.com/mattn/anko/env"
	_ "github.com/mattn/anko/packages"

	"verifharness/internal/ank"
	"verifharness/internal/fw"
	"verifharness/internal/wk"
)

// ---------------------------------------------------------------------------------------------
// phase "tables"
// ---------------------------------------------------------------------------------------------

// c19Pkgs returns the sorted union of the package names of both live tables.
func c19Pkgs() []string {
	m := map[string]bool{}
	for p := range env.Packages {
		m[p] = true
	}
	for p := range env.PackageTypes {
		m[p] = true
	}
	var out []string
	for p := range m {
		out = append(out, p)
	}
	sort.Strings(out)
	return out
}

// ankoPackagesPath is the package that defines anko's own helper types offered through the
// tables (sort.SortFuncsStruct): such a type has no Go counterpart in the listed package; it is
// allow-listed by its defining package, and its name must still be the key.
const ankoPackagesPath = "github.com/mattn/anko/packages"

func c19SortedKeysV(m map[string]reflect.Value) []string {
	var ks []string
	for k := range m {
		ks = append(ks, k)
	}
	sort.Strings(ks)
	return ks
}

func c19SortedKeysT(m map[string]reflect.Type) []string {
	var ks []string
	for k := range m {
		ks = append(ks, k)
	}
	sort.Strings(ks)
	return ks
}

// c19FuncVars: table entries that are package-level VARIABLES of func type in Go. Their value has
// no symbol name of its own (it is whatever function the variable holds); being "the Go function
// it is listed under" means being the current value of that variable.
func c19FuncVar(pkg, key string) (reflect.Value, bool) {
	if pkg == "flag" && key == "Usage" {
		return reflect.ValueOf(flagUsageVar()), true
	}
	return reflect.Value{}, false
}

func flagUsageVar() func() { return flag.Usage }

func c19TablesCase(c *wk.Case, pkg string) {
	funcs := env.Packages[pkg]
	types := env.PackageTypes[pkg]

	// what a script import hands out
	e := ank.NewCoreEnv()
	src := "import(" + strconv.Quote(pkg) + ")"
	c.Begin(map[string]string{"src": src})
	o := ank.Exec(e, src)
	var mod *env.Env
	if o.Panicked {
		c.Violation("table:import:panic", "import panicked: "+o.PanicVal, map[string]string{"src": src})
	} else if o.Err != nil {
		if _, ok := env.Packages[pkg]; ok {
			c.Violation("table:import:error", "import of a listed package failed: "+o.Err.Error(), map[string]string{"src": src})
		} else {
			// a package that only has a type table cannot be imported (import looks up env.Packages);
			// the statement does not say otherwise.
			c.Excluded("types-only-package")
		}
	} else if m, ok := o.Val.(*env.Env); ok {
		mod = m
	} else {
		c.Violation("table:import:value", "import returned "+ank.Render(o.Val), map[string]string{"src": src})
	}

	nf := 0
	for _, key := range c19SortedKeysV(funcs) {
		v := funcs[key]
		in := map[string]string{"package": pkg, "key": key}
		if !v.IsValid() {
			c.Violation("table:invalid:"+pkg+"."+key, "invalid reflect.Value in table", in)
			continue
		}
		if v.Kind() != reflect.Func {
			// constants and variables: outside "every function and type"; counted only
			c.Tag("table:nonfunc")
			c.EvalN(1)
			continue
		}
		nf++
		want := pkg + "." + key
		c.Events(1)
		if v.IsNil() {
			c.Violation("table:func:"+want, "nil func in table", in)
			continue
		}
		got := "?"
		if f := runtime.FuncForPC(v.Pointer()); f != nil {
			got = f.Name()
		}
		in["resolves_to"] = got
		if varV, isVar := c19FuncVar(pkg, key); isVar {
			c.Tag("table:funcvar")
			c.Eval("func:"+want, true)
			if varV.Pointer() != v.Pointer() || varV.Type() != v.Type() {
				c.Violation("table:func:"+want, "entry is not the value of the Go variable "+want+" (resolves to "+got+")", in)
			}
		} else {
			c.Tag("table:func")
			c.Eval("func:"+want, true)
			if got != want {
				c.Violation("table:func:"+want, "entry "+want+" is bound to Go function "+got, in)
			}
		}
		if mod != nil {
			iv, err := mod.GetValue(key)
			c.Events(1)
			if err != nil || !iv.IsValid() || iv.Kind() != reflect.Func || iv.Pointer() != v.Pointer() || iv.Type() != v.Type() {
				c.Violation("table:import:func", fmt.Sprintf("import(%q).%s is not the table entry (err=%v)", pkg, key, err), in)
			}
		}
		if c.WantSample() && nf == 1 {
			c.Sample(map[string]string{"package": pkg, "key": key, "symbol": got, "type": v.Type().String()})
		}
	}
	for _, key := range c19SortedKeysT(types) {
		t := types[key]
		in := map[string]string{"package": pkg, "key": key}
		want := pkg + "." + key
		c.Events(1)
		c.Eval("type:"+want, true)
		if t == nil {
			c.Violation("table:type:"+want, "nil type in table", in)
			continue
		}
		in["type"] = t.String()
		base := t
		if base.Name() == "" && base.Kind() == reflect.Ptr {
			base = base.Elem()
			c.Tag("table:type:pointer")
		} else {
			c.Tag("table:type")
		}
		in["pkgpath"] = base.PkgPath()
		in["name"] = base.Name()
		switch {
		case base.Name() == key && base.PkgPath() == pkg:
		case base.Name() == key && base.PkgPath() == ankoPackagesPath:
			c.Tag("table:type:anko-helper")
		default:
			c.Violation("table:type:"+want, fmt.Sprintf("entry %s is the Go type %s (%s.%s)", want, t, base.PkgPath(), base.Name()), in)
		}
		if mod != nil {
			it, err := mod.Type(key)
			c.Events(1)
			if err != nil || it != t {
				c.Violation("table:import:type", fmt.Sprintf("import(%q) type %s is %v, not the table entry %v (err=%v)", pkg, key, it, t, err), in)
			}
		}
	}
	if mod != nil {
		// round 5: what a SCRIPT reaches by member access / type path on the imported module
		// (after a script has overwritten the members of other module values of the same package)
		c19TablesRebind(c, pkg, funcs)
		c19TablesScript(c, pkg, funcs, types)
	}
	if c.Phase == "tables" { // phase imports (round 8) re-runs the invariant: the table sizes are counted once
		c.Count("table-functions", nf)
		c.Count("table-types", len(types))
		c.Count("table-nonfunction-values", len(funcs)-nf)
	}
}

// ---------------------------------------------------------------------------------------------
// phase "range": child-process protocol
// ---------------------------------------------------------------------------------------------

const (
	c19MaxLen      = 10000 // the property bounds the progression length; longer ones are not generated
	c19ChildHeapMB = 24    // in-child watchdog: heap growth during ONE call beyond this is a runaway (a legal result is <= 80 kB)
	c19ChildASMB   = 6144  // RLIMIT_AS backstop
	c19ChildCPUSec = 6     // RLIMIT_CPU backstop (a whole legal batch needs well under a second)
	c19ExitRunaway = 97    // child exit status: heap watchdog fired
)

// c19Item is one range call handed to the child.
type c19Item struct {
	Idx  int     `json:"i"`
	Mode int     `json:"m"` // 0 arguments through variables, 1 literals, 2 spread call range(xs...)
	Args []int64 `json:"a"`
}

func (it c19Item) src() (string, map[string]interface{}) {
	defs := map[string]interface{}{}
	switch it.Mode {
	case 1:
		var parts []string
		for _, a := range it.Args {
			if a == math.MinInt64 {
				// no literal spelling; -9223372036854775807 - 1
				parts = append(parts, "(-9223372036854775807 - 1)")
			} else if a < 0 {
				parts = append(parts, "("+strconv.FormatInt(a, 10)+")")
			} else {
				parts = append(parts, strconv.FormatInt(a, 10))
			}
		}
		return "range(" + strings.Join(parts, ", ") + ")", defs
	case 2:
		xs := make([]interface{}, len(it.Args))
		for i, a := range it.Args {
			xs[i] = a
		}
		defs["xs"] = xs
		return "range(xs...)", defs
	}
	var parts []string
	for i, a := range it.Args {
		n := string(rune('a' + i))
		defs[n] = a
		parts = append(parts, n)
	}
	return "range(" + strings.Join(parts, ", ") + ")", defs
}

// c19Res is what the child observed for one call.
type c19Res struct {
	Idx    int     `json:"i"`
	Err    string  `json:"e,omitempty"`
	IsErr  bool    `json:"ie,omitempty"`
	Panic  string  `json:"p,omitempty"`
	PSig   string  `json:"ps,omitempty"`
	Type   string  `json:"t,omitempty"` // dynamic type of the result when it is not []int64
	N      int     `json:"n"`
	Hash   uint64  `json:"h"`
	Head   []int64 `json:"hd,omitempty"`
	Tail   []int64 `json:"tl,omitempty"`
	Render string  `json:"r,omitempty"`
}

func c19SeqHash(n int, at func(i int) int64) uint64 {
	h := fnv.New64a()
	var b [8]byte
	for i := 0; i < n; i++ {
		v := uint64(at(i))
		for k := 0; k < 8; k++ {
			b[k] = byte(v >> (8 * k))
		}
		h.Write(b[:])
	}
	return h.Sum64()
}

func c19RunItem(it c19Item) c19Res {
	r := c19Res{Idx: it.Idx}
	src, defs := it.src()
	e := ank.NewCoreEnv()
	for k, v := range defs {
		e.Define(k, v)
	}
	o := ank.Exec(e, src)
	switch {
	case o.Panicked:
		r.Panic, r.PSig = o.PanicVal, o.PanicSig
	case o.Err != nil:
		r.IsErr, r.Err = true, o.Err.Error()
	default:
		xs, ok := o.Val.([]int64)
		if !ok {
			r.Type = fmt.Sprint(reflect.TypeOf(o.Val))
			r.Render = ank.Render(o.Val)
			if len(r.Render) > 300 {
				r.Render = r.Render[:300]
			}
			break
		}
		r.N = len(xs)
		r.Hash = c19SeqHash(len(xs), func(i int) int64 { return xs[i] })
		for i := 0; i < len(xs) && i < 12; i++ {
			r.Head = append(r.Head, xs[i])
		}
		for i := len(xs) - 3; i < len(xs); i++ {
			if i >= 12 {
				r.Tail = append(r.Tail, xs[i])
			}
		}
	}
	return r
}

// c19RangeChild is `vworker -child c19range`: reads items (JSON lines) from stdin, runs them in
// order, writes "B <idx>" before and "R <json>" after each. It limits itself first.
func c19RangeChild(args []string) {
	runtime.GOMAXPROCS(2)
	as := syscall.Rlimit{Cur: c19ChildASMB << 20, Max: c19ChildASMB << 20}
	syscall.Setrlimit(syscall.RLIMIT_AS, &as)
	cpu := syscall.Rlimit{Cur: c19ChildCPUSec, Max: c19ChildCPUSec + 1}
	syscall.Setrlimit(syscall.RLIMIT_CPU, &cpu)
	var items []c19Item
	sc := bufio.NewScanner(os.Stdin)
	sc.Buffer(make([]byte, 1<<20), 1<<26)
	for sc.Scan() {
		var it c19Item
		if json.Unmarshal(sc.Bytes(), &it) == nil {
			items = append(items, it)
		}
	}
	// heap watchdog: decides on the amount of live heap, the ticker only bounds how late it notices
	go func() {
		sample := []metrics.Sample{{Name: "/memory/classes/heap/objects:bytes"}}
		for {
			time.Sleep(time.Millisecond)
			metrics.Read(sample)
			if sample[0].Value.Kind() != metrics.KindUint64 {
				continue
			}
			n := sample[0].Value.Uint64()
			if n > atomic.LoadUint64(&c19ChildPeak) {
				atomic.StoreUint64(&c19ChildPeak, n)
			}
			if base := atomic.LoadUint64(&c19ChildBase); n > base && n-base > c19ChildHeapMB<<20 {
				os.Stdout.WriteString("M " + strconv.FormatUint(n, 10) + "\n")
				os.Exit(c19ExitRunaway)
			}
		}
	}()
	base := []metrics.Sample{{Name: "/memory/classes/heap/objects:bytes"}}
	for _, it := range items {
		// the budget is per call: heap growth since this call began (garbage of earlier calls does not count)
		metrics.Read(base)
		if base[0].Value.Kind() == metrics.KindUint64 {
			atomic.StoreUint64(&c19ChildBase, base[0].Value.Uint64())
		}
		os.Stdout.WriteString("B " + strconv.Itoa(it.Idx) + "\n")
		r := c19RunItem(it)
		b, _ := json.Marshal(r)
		os.Stdout.Write(append(append([]byte("R "), b...), '\n'))
	}
	os.Stdout.WriteString("E " + strconv.FormatUint(atomic.LoadUint64(&c19ChildPeak), 10) + "\n")
}

var c19ChildPeak, c19ChildBase uint64

// c19Death describes how a child ended with an item in flight.
type c19Death struct {
	class  string // "runaway-memory", "runaway-cpu", "crash", "killed"
	detail string
}

// c19RunBatch runs the items in child processes, restarting after each death; returns the
// results by item index and the deaths by item index.
func c19RunBatch(c *wk.Case, items []c19Item) (map[int]c19Res, map[int]c19Death) {
	res := map[int]c19Res{}
	deaths := map[int]c19Death{}
	bin := os.Getenv("VERIF_WORKER_BIN")
	if bin == "" {
		bin, _ = os.Executable()
	}
	pos := map[int]int{}
	for i, it := range items {
		pos[it.Idx] = i
	}
	rest := items
	for len(rest) > 0 {
		var in bytes.Buffer
		for _, it := range rest {
			b, _ := json.Marshal(it)
			in.Write(b)
			in.WriteByte('\n')
		}
		c.Begin(map[string]interface{}{"range-batch-first": rest[0], "n": len(rest)})
		cmd := exec.Command(bin, "-child", "c19range")
		cmd.Stdin = &in
		var stdout, stderr bytes.Buffer
		cmd.Stdout, cmd.Stderr = &stdout, &stderr
		werr := cmd.Run()
		c.Count("range-child-processes", 1)
		inflight, ended, heapMark := -1, false, ""
		for _, ln := range strings.Split(stdout.String(), "\n") {
			switch {
			case strings.HasPrefix(ln, "B "):
				inflight, _ = strconv.Atoi(ln[2:])
			case strings.HasPrefix(ln, "R "):
				var r c19Res
				if json.Unmarshal([]byte(ln[2:]), &r) == nil {
					res[r.Idx] = r
					if r.Idx == inflight {
						inflight = -1
					}
				}
			case strings.HasPrefix(ln, "M "):
				heapMark = ln[2:]
			case strings.HasPrefix(ln, "E"):
				ended = true
			}
		}
		if ended && werr == nil {
			break
		}
		if inflight < 0 {
			// died outside any item (start-up failure, or after the last one)
			c.Inconclusive("range-child-failed", fmt.Sprintf("child ended without an item in flight: %v; %s", werr, c19FirstLines(stderr.String(), 3)), nil)
			break
		}
		d := c19Death{class: "crash", detail: fmt.Sprintf("%v; %s", werr, c19FirstLines(stderr.String(), 4))}
		se := stderr.String()
		var ws syscall.WaitStatus
		var cpuUsed time.Duration
		if cmd.ProcessState != nil {
			ws, _ = cmd.ProcessState.Sys().(syscall.WaitStatus)
			cpuUsed = cmd.ProcessState.UserTime() + cmd.ProcessState.SystemTime()
		}
		switch {
		case heapMark != "" || (ws.Exited() && ws.ExitStatus() == c19ExitRunaway):
			d = c19Death{"runaway-memory", "heap reached " + heapMark + " bytes during this one call (a legal result needs <= 80 kB); child stopped by the heap watchdog"}
		case strings.Contains(se, "out of memory") || strings.Contains(se, "cannot allocate memory"):
			d = c19Death{"runaway-memory", "child hit its address-space limit: " + c19FirstLines(se, 1)}
		case ws.Signaled() && ws.Signal() == syscall.SIGXCPU:
			d = c19Death{"runaway-cpu", "child killed by its CPU-time limit (SIGXCPU)"}
		case ws.Signaled() && ws.Signal() == syscall.SIGKILL && cpuUsed >= (c19ChildCPUSec-2)*time.Second:
			d = c19Death{"runaway-cpu", fmt.Sprintf("child killed after consuming %v CPU (limit %ds)", cpuUsed, c19ChildCPUSec)}
		case ws.Signaled() && ws.Signal() == syscall.SIGKILL:
			d = c19Death{"killed", "child was killed from outside"}
		}
		deaths[inflight] = d
		p, ok := pos[inflight]
		if !ok {
			break
		}
		rest = items[p+1:]
	}
	return res, deaths
}

func c19FirstLines(s string, n int) string {
	ls := strings.Split(strings.TrimSpace(s), "\n")
	if len(ls) > n {
		ls = ls[:n]
	}
	return strings.Join(ls, " | ")
}

// ---------------------------------------------------------------------------------------------
// phase "range": reference progression (math/big) and oracle
// ---------------------------------------------------------------------------------------------

type c19Want struct {
	excluded string // non-empty: outside the generated domain
	isErr    bool   // the statement demands an error
	n        int    // number of elements
	start    int64
	step     int64
	class    string // signature class, derived from the INPUT only
}

var (
	c19BigMax = big.NewInt(math.MaxInt64)
	c19BigMin = big.NewInt(math.MinInt64)
)

// c19RangeWant computes what the statement demands for range(args...):
// start, start+step, ... strictly before stop; empty when step points away from stop;
// error for zero step or 0 / more than 3 arguments. One argument = stop (start 0, step 1), two =
// start, stop (step 1) — the forms the core tests document.
func c19RangeWant(args []int64) c19Want {
	form := "range" + strconv.Itoa(len(args))
	var start, stop, step int64 = 0, 0, 1
	switch len(args) {
	case 0:
		return c19Want{isErr: true, class: "argc0"}
	case 1:
		stop = args[0]
	case 2:
		start, stop = args[0], args[1]
	case 3:
		start, stop, step = args[0], args[1], args[2]
		if step == 0 {
			return c19Want{isErr: true, class: "zerostep"}
		}
	default:
		return c19Want{isErr: true, class: "argc4+"}
	}
	w := c19Want{start: start, step: step}
	bs, be, bst := big.NewInt(start), big.NewInt(stop), big.NewInt(step)
	diff := new(big.Int).Sub(be, bs) // stop-start
	if diff.Sign() == 0 || diff.Sign() != bst.Sign() {
		w.class = form + ":empty"
		return w
	}
	// n = ceil(diff/step) for same-signed diff, step
	q, r := new(big.Int).QuoRem(diff, bst, new(big.Int))
	if r.Sign() != 0 {
		q.Add(q, big.NewInt(1))
	}
	if q.Cmp(big.NewInt(c19MaxLen)) > 0 {
		w.excluded = "progression-longer-than-10000"
		return w
	}
	w.n = int(q.Int64())
	// does the element after the last one leave int64? (where a wrapping i += step would re-enter the loop)
	next := new(big.Int).Add(bs, new(big.Int).Mul(bst, q))
	dir := "+"
	if step < 0 {
		dir = "-"
	}
	if next.Cmp(c19BigMax) > 0 || next.Cmp(c19BigMin) < 0 {
		w.class = form + ":wrap" + dir
	} else {
		w.class = form + ":plain" + dir
	}
	return w
}

func (w c19Want) at(i int) int64 { return w.start + int64(i)*w.step } // exact: all elements lie between start and stop

func (w c19Want) String() string {
	if w.isErr {
		return "error"
	}
	var parts []string
	for i := 0; i < w.n && i < 6; i++ {
		parts = append(parts, strconv.FormatInt(w.at(i), 10))
	}
	if w.n > 6 {
		parts = append(parts, "…", strconv.FormatInt(w.at(w.n-1), 10))
	}
	return fmt.Sprintf("%d elements [%s]", w.n, strings.Join(parts, " "))
}

func c19RangeJudge(c *wk.Case, it c19Item, w c19Want, r *c19Res, d *c19Death) {
	src, defs := it.src()
	input := map[string]interface{}{"src": src, "defs": renderDefs(defs), "args": fmt.Sprint(it.Args), "want": w.String()}
	c.Eval(src+fmt.Sprint(it.Args), true)
	c.Events(1)
	c.Tag("range:" + w.class)
	sig := func(outcome string) string { return "range:" + w.class + ":" + outcome }
	if d != nil {
		switch d.class {
		case "killed":
			c.Inconclusive("range-child-killed", d.detail, input)
		default:
			c.Violation(sig(d.class), "range did not return: "+d.detail+"; want "+w.String(), input)
		}
		return
	}
	if r == nil {
		c.Inconclusive("range-no-result", "the child produced no result for this call", input)
		return
	}
	if c.WantSample() && (w.n > 1 || w.isErr) {
		c.Sample(map[string]interface{}{"src": src, "defs": renderDefs(defs), "want": w.String(), "got_n": r.N, "got_head": r.Head, "got_err": r.Err})
	}
	switch {
	case r.Panic != "":
		c.Violation(sig("panic"), "panic: "+r.Panic+" ("+r.PSig+")", input)
	case w.isErr:
		if !r.IsErr {
			c.Violation(sig("noerror"), fmt.Sprintf("expected an error, got %d elements %v %s", r.N, r.Head, r.Render), input)
		}
	case r.IsErr:
		c.Violation(sig("error"), "unexpected error "+strconv.Quote(r.Err)+"; want "+w.String(), input)
	case r.Type != "":
		c.Violation(sig("type"), "result is "+r.Type+" "+r.Render+", want []int64 of "+w.String(), input)
	case r.N != w.n:
		c.Violation(sig("length"), fmt.Sprintf("got %d elements (head %v tail %v), want %s", r.N, r.Head, r.Tail, w), input)
	case r.Hash != c19SeqHash(w.n, w.at):
		c.Violation(sig("elements"), fmt.Sprintf("got head %v tail %v, want %s", r.Head, r.Tail, w), input)
	}
}

// c19RangePool is the int64 boundary pool; every triple over it is enumerated.
var c19RangePool = []int64{
	0, 1, -1, 2, -2, 3, -3, 5, 7, 10, -10, 100, 9999, 10000, 10001, -10000,
	1 << 31, -(1 << 31), 1<<32 + 1, 1 << 53, 1 << 62, -(1 << 62), 1<<62 + 1, math.MaxInt64 / 3, -(math.MaxInt64 / 2),
	math.MaxInt64, math.MaxInt64 - 1, math.MaxInt64 - 2, math.MaxInt64 - 3, math.MaxInt64 - 10000, math.MaxInt64 - 10001,
	math.MinInt64, math.MinInt64 + 1, math.MinInt64 + 2, math.MinInt64 + 3, math.MinInt64 + 10000, math.MinInt64 + 10001,
}

// fixed witnesses first (they also exercise the listed known findings deterministically)
var c19RangeWitnesses = [][]int64{
	{math.MaxInt64 - 1, math.MaxInt64, 2},
	{math.MinInt64 + 1, math.MinInt64, -2},
	{1, 3, math.MaxInt64},
	{-2, -4, -math.MaxInt64},
	{0, 10, 3}, {10, 0, -3}, {0, 10, -1}, {10, 0, 1}, {5, 5, 1}, {0, 10000, 1}, {math.MaxInt64 - 5, math.MaxInt64, 1}, {math.MinInt64 + 5, math.MinInt64, -1},
	{math.MinInt64, math.MaxInt64, math.MaxInt64}, {math.MaxInt64, math.MinInt64, math.MinInt64},
}

// the quick tier enumerates all triples over a sub-pool (every wrapping triple costs one child process)
var c19RangePoolQuick = []int64{
	0, 1, -1, 2, -3, 7, 10, -10, 10000, 10001,
	1<<32 + 1, 1 << 62,
	math.MaxInt64, math.MaxInt64 - 1, math.MaxInt64 - 10001,
	math.MinInt64, math.MinInt64 + 1, math.MinInt64 + 10000,
}

func c19EnumCases(tier string) int {
	if tier == "thorough" {
		return 256
	}
	return 64
}

func c19PoolFor(tier string) []int64 {
	if tier == "thorough" {
		return c19RangePool
	}
	return c19RangePoolQuick
}

func c19RangeItems(c *wk.Case) []c19Item {
	var items []c19Item
	add := func(mode int, args ...int64) {
		items = append(items, c19Item{Idx: len(items), Mode: mode, Args: append([]int64{}, args...)})
	}
	P := c19PoolFor(c.Tier)
	nPer := 250
	if c.Tier != "thorough" {
		nPer = 120
	}
	switch {
	case c.Index == 0:
		for _, w := range c19RangeWitnesses {
			add(0, w...)
			add(1, w...)
			add(2, w...)
		}
		// wrong argument counts and zero steps
		add(0)
		add(1)
		add(2)
		for n := 4; n <= 6; n++ {
			for _, v := range []int64{0, 1, -1, 5, math.MaxInt64, math.MinInt64} {
				args := make([]int64, n)
				for i := range args {
					args[i] = v
				}
				args[n-1] = int64(n) // a non-zero last argument as well
				add(0, args...)
				add(1, args...)
				add(2, args...)
			}
		}
		for _, a := range P {
			for _, b := range []int64{0, 1, -1, 10, math.MaxInt64, math.MinInt64, a} {
				add(int(uint64(a+b)%3), a, b, 0)
			}
		}
		// one- and two-argument forms
		for _, a := range P {
			add(int(uint64(a)%3), a)
			for _, b := range P {
				add(int(uint64(a^b)%3), a, b)
			}
		}
	case c.Index <= c19EnumCases(c.Tier):
		// all |P|^3 triples, dealt round-robin over the enumeration cases (wrapping triples, each of
		// which costs a child process on a tree with the overflow defect, cluster by start value)
		n, N := len(P), c19EnumCases(c.Tier)
		for t := c.Index - 1; t < n*n*n; t += N {
			a, b, s := P[t/(n*n)], P[(t/n)%n], P[t%n]
			add(int((uint64(a)+uint64(b)*3+uint64(s)*7)%3), a, b, s)
		}
	default:
		// PRNG triples: stop = start + step*k (+ jitter), computed in big and clipped to int64
		rng := c.Rng
		for k := 0; k < nPer; k++ {
			var start, step int64
			switch rng.Intn(6) {
			case 0:
				start = math.MaxInt64 - rng.Int63n(30000)
			case 1:
				start = math.MinInt64 + rng.Int63n(30000)
			case 2:
				start = rng.Int63n(2001) - 1000
			case 3:
				start = int64(rng.Uint64())
			case 4:
				start = int64(rng.Uint64()) >> uint(rng.Intn(63))
			default:
				start = P[rng.Intn(len(P))]
			}
			switch rng.Intn(6) {
			case 0:
				step = rng.Int63n(20) + 1
			case 1:
				step = rng.Int63n(100000) + 1
			case 2:
				step = rng.Int63()>>uint(rng.Intn(62)) + 1
			case 3:
				step = math.MaxInt64 - rng.Int63n(3)
			case 4:
				step = P[rng.Intn(len(P))]
			default:
				step = rng.Int63n(3) + 1
			}
			if step == 0 {
				step = 1
			}
			if rng.Intn(2) == 0 {
				step = -step // (MinInt64 stays MinInt64)
			}
			cnt := int64(0)
			switch rng.Intn(4) {
			case 0:
				cnt = rng.Int63n(4)
			case 1:
				cnt = rng.Int63n(50)
			case 2:
				cnt = rng.Int63n(c19MaxLen + 1)
			default:
				cnt = c19MaxLen - rng.Int63n(3)
			}
			bstop := new(big.Int).Mul(big.NewInt(step), big.NewInt(cnt))
			bstop.Add(bstop, big.NewInt(start))
			// jitter strictly inside one step keeps the count, sometimes crosses it
			if j := rng.Intn(4); j > 0 {
				jit := new(big.Int).Abs(big.NewInt(step))
				jit.Rand(rng, jit)
				if j == 1 {
					jit.Neg(jit)
				}
				bstop.Add(bstop, jit)
			}
			if rng.Intn(10) == 0 {
				bstop.Sub(big.NewInt(start), new(big.Int).Sub(bstop, big.NewInt(start))) // points away
			}
			if bstop.Cmp(c19BigMax) > 0 {
				bstop.Set(c19BigMax)
			}
			if bstop.Cmp(c19BigMin) < 0 {
				bstop.Set(c19BigMin)
			}
			stop := bstop.Int64()
			mode := rng.Intn(3)
			// Triples whose successor of the last element leaves int64 are about 30% of this
			// distribution and each may cost a child process; keep one in six (chosen by the PRNG
			// from the INPUT's class, never from what anko did).
			if w := c19RangeWant([]int64{start, stop, step}); strings.Contains(w.class, ":wrap") && rng.Intn(6) != 0 {
				c.Excluded("wrap-triple-thinned")
				continue
			}
			switch {
			case step == 1 && start == 0 && rng.Intn(2) == 0:
				add(mode, stop)
			case step == 1 && rng.Intn(3) == 0:
				add(mode, start, stop)
			default:
				add(mode, start, stop, step)
			}
		}
	}
	return items
}

func c19RangeCase(c *wk.Case) {
	items := c19RangeItems(c)
	wants := make([]c19Want, len(items))
	var send []c19Item
	for i, it := range items {
		wants[i] = c19RangeWant(it.Args)
		if wants[i].excluded != "" {
			c.Excluded(wants[i].excluded)
			continue
		}
		send = append(send, it)
	}
	res, deaths := c19RunBatch(c, send)
	for _, it := range send {
		var rp *c19Res
		var dp *c19Death
		if r, ok := res[it.Idx]; ok {
			rp = &r
		}
		if d, ok := deaths[it.Idx]; ok {
			dp = &d
		}
		c19RangeJudge(c, it, wants[it.Idx], rp, dp)
	}
}

// ---------------------------------------------------------------------------------------------
// phase "values": native references for keys / len / typeOf / kindOf / toX
// ---------------------------------------------------------------------------------------------

type c19Str string
type c19Int int64
type c19S struct {
	A int64
	B string
}
type c19Key struct {
	X int64
	Y string
}

var (
	c19IntRe   = regexp.MustCompile(`^[+-]?[0-9]+$`)
	c19FloatRe = regexp.MustCompile(`^[+-]?([0-9]+\.?[0-9]*|\.[0-9]+)([eE][+-]?[0-9]+)?$`)
	c19InfRe   = regexp.MustCompile(`(?i)^[+-]?(inf|infinity|nan)$`)
)

func c19IsInt(k reflect.Kind) bool   { return k >= reflect.Int && k <= reflect.Int64 }
func c19IsUint(k reflect.Kind) bool  { return k >= reflect.Uint && k <= reflect.Uintptr }
func c19IsFloat(k reflect.Kind) bool { return k == reflect.Float32 || k == reflect.Float64 }

// floatToInt: Go's float->int conversion is only defined when the value fits.
func c19FloatFitsInt64(f float64) bool {
	return !math.IsNaN(f) && f >= -9223372036854775808.0 && f < 9223372036854775808.0
}

// c19Class names the value class used in tags and signatures.
// c19StrClass classifies the content of a string (of the plain or of a named string type)
func c19StrClass(s string) string {
	switch {
	case c19IntRe.MatchString(s):
		return "string-int-numeral"
	case c19FloatRe.MatchString(s):
		return "string-float-numeral"
	case !strings.ContainsAny(s, "0123456789") && !c19InfRe.MatchString(s):
		return "string-nonnumeric"
	}
	return "string-ambiguous"
}

func c19Class(xv interface{}) string {
	if xv == nil {
		return "nil"
	}
	rv := reflect.ValueOf(xv)
	k := rv.Kind()
	switch {
	case k == reflect.Bool:
		return "bool"
	case k == reflect.Int64 && rv.Type().PkgPath() == "":
		return "int64"
	case c19IsInt(k):
		return "int-other"
	case c19IsUint(k):
		return "uint"
	case c19IsFloat(k):
		f := rv.Float()
		if math.IsNaN(f) || math.IsInf(f, 0) {
			return "float-nonfinite"
		}
		return "float"
	case k == reflect.Complex64 || k == reflect.Complex128:
		return "complex"
	case k == reflect.String:
		if rv.Type() != reflect.TypeOf("") {
			return "string-named"
		}
		return c19StrClass(rv.String())
	case k == reflect.Slice:
		switch xv.(type) {
		case []byte:
			return "bytes"
		case []rune:
			return "runes"
		case []interface{}:
			return "slice-iface"
		}
		return "slice-typed"
	case k == reflect.Array:
		return "array"
	case k == reflect.Map:
		return "map"
	case k == reflect.Struct:
		return "struct"
	case k == reflect.Ptr:
		return "ptr"
	case k == reflect.Chan:
		return "chan"
	case k == reflect.Func:
		return "func"
	}
	return k.String()
}

// verdict of a reference: what the statement demands for this builtin on this value
type c19Ref struct {
	judged  bool        // false: the statement is silent; only "no panic" is demanded
	wantErr bool        // misuse: must be an error
	want    interface{} // demanded value (compared with c19Same)
	orErr   bool        // an error is acceptable too (statement silent on acceptance, not on the value)
	orZero  bool        // (toRune(""))
	whySkip string
}

func c19RefToInt(xv interface{}) c19Ref {
	if xv == nil {
		return c19Ref{judged: true, want: int64(0)}
	}
	rv := reflect.ValueOf(xv)
	k := rv.Kind()
	switch {
	case c19IsInt(k):
		return c19Ref{judged: true, want: rv.Int()}
	case c19IsUint(k):
		return c19Ref{judged: true, want: int64(rv.Uint())}
	case c19IsFloat(k):
		if !c19FloatFitsInt64(rv.Float()) {
			return c19Ref{whySkip: "float outside int64: Go leaves the conversion implementation-defined"}
		}
		return c19Ref{judged: true, want: int64(rv.Float())}
	case k == reflect.String:
		// a value of a named string type is a string too: its content decides
		s := rv.String()
		switch c19StrClass(s) {
		case "string-int-numeral":
			i, err := strconv.ParseInt(s, 10, 64)
			if err != nil {
				return c19Ref{whySkip: "integer numeral outside int64"}
			}
			return c19Ref{judged: true, want: i}
		case "string-float-numeral":
			f, err := strconv.ParseFloat(s, 64)
			if err != nil || !c19FloatFitsInt64(f) {
				return c19Ref{whySkip: "numeral outside float64/int64"}
			}
			return c19Ref{judged: true, want: int64(f)}
		case "string-nonnumeric":
			return c19Ref{judged: true, want: int64(0)}
		}
		return c19Ref{whySkip: "neither a decimal numeral nor clearly non-numeric"}
	case k == reflect.Slice || k == reflect.Array || k == reflect.Map:
		return c19Ref{judged: true, want: int64(0)}
	}
	// bool is excluded by the design; struct, ptr, chan, func, complex: statement silent
	return c19Ref{whySkip: "statement silent for " + c19Class(xv)}
}

func c19RefToFloat(xv interface{}) c19Ref {
	if xv == nil {
		return c19Ref{judged: true, want: float64(0)}
	}
	rv := reflect.ValueOf(xv)
	k := rv.Kind()
	switch {
	case c19IsInt(k):
		return c19Ref{judged: true, want: float64(rv.Int())}
	case c19IsUint(k):
		return c19Ref{judged: true, want: float64(rv.Uint())}
	case c19IsFloat(k):
		return c19Ref{judged: true, want: rv.Float()}
	case k == reflect.String:
		switch c19StrClass(rv.String()) {
		case "string-int-numeral", "string-float-numeral":
			f, err := strconv.ParseFloat(rv.String(), 64)
			if err != nil {
				return c19Ref{whySkip: "numeral outside float64"}
			}
			return c19Ref{judged: true, want: f}
		case "string-nonnumeric":
			return c19Ref{judged: true, want: float64(0)}
		}
		return c19Ref{whySkip: "neither a decimal numeral nor clearly non-numeric"}
	case k == reflect.Slice || k == reflect.Array || k == reflect.Map:
		return c19Ref{judged: true, want: float64(0)}
	}
	return c19Ref{whySkip: "statement silent for " + c19Class(xv)}
}

func c19RefToString(xv interface{}) c19Ref {
	if b, ok := xv.([]byte); ok {
		return c19Ref{judged: true, want: string(b)}
	}
	// the reference IS fmt.Sprint ("Go's default formatting"); values are generator-built and acyclic
	return c19Ref{judged: true, want: fmt.Sprint(xv)}
}

func c19RefTypeOf(xv interface{}) c19Ref {
	if xv == nil {
		return c19Ref{judged: true, want: "nil"}
	}
	return c19Ref{judged: true, want: reflect.TypeOf(xv).String()}
}

func c19RefKindOf(xv interface{}) c19Ref {
	if xv == nil {
		return c19Ref{judged: true, want: "nil"}
	}
	return c19Ref{judged: true, want: reflect.TypeOf(xv).Kind().String()}
}

func c19RefLen(xv interface{}) c19Ref {
	if xv == nil {
		return c19Ref{judged: true, wantErr: true}
	}
	rv := reflect.ValueOf(xv)
	switch rv.Kind() {
	case reflect.String, reflect.Slice, reflect.Array, reflect.Map, reflect.Chan:
		return c19Ref{judged: true, want: int64(rv.Len())}
	case reflect.Ptr:
		if rv.Type().Elem().Kind() == reflect.Array {
			return c19Ref{whySkip: "Go's len accepts a pointer to an array; statement silent"}
		}
	}
	return c19Ref{judged: true, wantErr: true}
}

type c19KeySet map[interface{}]int

func c19RefKeys(xv interface{}) c19Ref {
	if xv == nil {
		return c19Ref{whySkip: "keys(nil): an error and an empty list are both defensible"}
	}
	rv := reflect.ValueOf(xv)
	if rv.Kind() != reflect.Map {
		return c19Ref{judged: true, wantErr: true}
	}
	ks := c19KeySet{}
	for _, k := range rv.MapKeys() {
		ks[k.Interface()]++
	}
	return c19Ref{judged: true, want: ks}
}

func c19RefToRune(xv interface{}) c19Ref {
	s, ok := xv.(string)
	if !ok {
		return c19WrongType(xv, "string")
	}
	if s == "" {
		// []rune("")[0] does not exist in Go; 0 or an error are both accepted
		return c19Ref{judged: true, want: int64(0), orErr: true}
	}
	return c19Ref{judged: true, want: int64([]rune(s)[0])}
}

func c19RefToChar(xv interface{}) c19Ref {
	if xv == nil {
		return c19Ref{whySkip: "nil argument"}
	}
	rv := reflect.ValueOf(xv)
	k := rv.Kind()
	switch {
	case c19IsInt(k):
		if v := rv.Int(); v >= math.MinInt32 && v <= math.MaxInt32 {
			return c19Ref{judged: true, want: string(rune(v))}
		}
		return c19Ref{whySkip: "code point outside int32: the argument conversion is not specified"}
	case c19IsUint(k):
		if v := rv.Uint(); v <= math.MaxInt32 {
			return c19Ref{judged: true, want: string(rune(v))}
		}
		return c19Ref{whySkip: "code point outside int32"}
	}
	return c19WrongType(xv, "rune")
}

func c19RefToByteSlice(xv interface{}) c19Ref {
	s, ok := xv.(string)
	if !ok {
		return c19WrongType(xv, "string")
	}
	return c19Ref{judged: true, want: []byte(s)}
}

func c19RefToRuneSlice(xv interface{}) c19Ref {
	s, ok := xv.(string)
	if !ok {
		return c19WrongType(xv, "string")
	}
	return c19Ref{judged: true, want: []rune(s)}
}

// c19WrongType: an argument that is not of the builtin's parameter type. anko's call machinery
// converts some arguments (numbers, []byte/[]rune <-> string ...): the statement does not fix which,
// so only kinds that no Go conversion relates to the parameter are demanded to be an error.
func c19WrongType(xv interface{}, param string) c19Ref {
	if xv == nil {
		return c19Ref{whySkip: "nil argument"}
	}
	k := reflect.ValueOf(xv).Kind()
	switch k {
	case reflect.Map, reflect.Func, reflect.Chan, reflect.Struct, reflect.Ptr:
		return c19Ref{judged: true, wantErr: true}
	case reflect.Slice, reflect.Array:
		switch xv.(type) {
		case []byte, []rune:
			if param == "string" {
				return c19Ref{whySkip: "convertible argument"}
			}
		}
		if param == "slice" {
			return c19Ref{whySkip: "sequence argument"}
		}
		return c19Ref{judged: true, wantErr: true}
	}
	if param == "slice" && k != reflect.String {
		return c19Ref{judged: true, wantErr: true} // a number or bool is no sequence
	}
	return c19Ref{whySkip: "possibly convertible argument of kind " + k.String()}
}

// c19ConvElem: Go's conversion of one element to the target basic kind, zero when Go has no such
// conversion. ok=false when Go leaves the result implementation-defined.
func c19ConvElem(e interface{}, target reflect.Kind) (interface{}, bool) {
	zero := map[reflect.Kind]interface{}{reflect.Bool: false, reflect.String: "", reflect.Int64: int64(0), reflect.Float64: float64(0)}[target]
	if e == nil {
		return zero, true
	}
	rv := reflect.ValueOf(e)
	k := rv.Kind()
	switch target {
	case reflect.Bool:
		if k == reflect.Bool {
			return rv.Bool(), true
		}
	case reflect.Int64:
		switch {
		case c19IsInt(k):
			return rv.Int(), true
		case c19IsUint(k):
			return int64(rv.Uint()), true
		case c19IsFloat(k):
			if !c19FloatFitsInt64(rv.Float()) {
				return nil, false
			}
			return int64(rv.Float()), true
		}
	case reflect.Float64:
		switch {
		case c19IsInt(k):
			return float64(rv.Int()), true
		case c19IsUint(k):
			return float64(rv.Uint()), true
		case c19IsFloat(k):
			return rv.Float(), true
		}
	case reflect.String:
		switch {
		case k == reflect.String:
			return rv.String(), true
		case c19IsInt(k):
			if v := rv.Int(); v >= math.MinInt32 && v <= math.MaxInt32 {
				return string(rune(v)), true
			}
			return "�", true
		case c19IsUint(k):
			if v := rv.Uint(); v <= math.MaxInt32 {
				return string(rune(v)), true
			}
			return "�", true
		}
		switch b := e.(type) {
		case []byte:
			return string(b), true
		case []rune:
			return string(b), true
		}
	}
	return zero, true
}

func c19RefToSlice(xv interface{}, target reflect.Kind) c19Ref {
	if xv == nil {
		return c19Ref{whySkip: "nil argument"}
	}
	rv := reflect.ValueOf(xv)
	if rv.Kind() != reflect.Slice && rv.Kind() != reflect.Array {
		return c19WrongType(xv, "slice")
	}
	out := make([]interface{}, rv.Len())
	for i := range out {
		v, ok := c19ConvElem(rv.Index(i).Interface(), target)
		if !ok {
			return c19Ref{whySkip: "element conversion implementation-defined in Go"}
		}
		out[i] = v
	}
	_, isIface := xv.([]interface{})
	// a typed slice/array argument may be refused by the call machinery (statement silent); when it
	// is accepted the element-wise rule applies
	return c19Ref{judged: true, want: out, orErr: !isIface}
}

// c19Same compares the builtin's result with the demanded value.
func c19Same(got interface{}, want interface{}) (bool, string) {
	gv := reflect.ValueOf(got)
	switch w := want.(type) {
	case int64:
		if gv.IsValid() && c19IsInt(gv.Kind()) {
			return gv.Int() == w, "value"
		}
		return false, "type"
	case float64:
		if gv.IsValid() && c19IsFloat(gv.Kind()) {
			g := gv.Float()
			return (math.IsNaN(g) && math.IsNaN(w)) || math.Float64bits(g) == math.Float64bits(w), "value"
		}
		return false, "type"
	case string:
		if gv.IsValid() && gv.Kind() == reflect.String {
			return gv.String() == w, "value"
		}
		return false, "type"
	case []byte:
		g, ok := got.([]byte)
		if !ok {
			return false, "type"
		}
		return bytes.Equal(g, w), "value"
	case []rune:
		g, ok := got.([]rune)
		if !ok {
			return false, "type"
		}
		if len(g) != len(w) {
			return false, "value"
		}
		for i := range g {
			if g[i] != w[i] {
				return false, "value"
			}
		}
		return true, "value"
	case c19KeySet:
		if !gv.IsValid() || gv.Kind() != reflect.Slice {
			return false, "type"
		}
		seen := c19KeySet{}
		for i := 0; i < gv.Len(); i++ {
			el := gv.Index(i).Interface()
			if el != nil && !reflect.TypeOf(el).Comparable() {
				return false, "value"
			}
			seen[el]++
		}
		if len(seen) != len(w) {
			return false, "value"
		}
		for k, n := range w {
			if seen[k] != n {
				return false, "value"
			}
		}
		return true, "value"
	case []interface{}:
		// typed-slice forms: a slice whose elements have the target's kind class
		if !gv.IsValid() || gv.Kind() != reflect.Slice {
			return false, "type"
		}
		if gv.Len() != len(w) {
			return false, "value"
		}
		for i := range w {
			if ok, why := c19Same(gv.Index(i).Interface(), w[i]); !ok {
				return false, why
			}
		}
		if len(w) == 0 {
			return true, "value"
		}
		return true, "value"
	case bool:
		if gv.IsValid() && gv.Kind() == reflect.Bool {
			return gv.Bool() == w, "value"
		}
		return false, "type"
	}
	return false, "type"
}

func c19RenderWant(w interface{}) string {
	if ks, ok := w.(c19KeySet); ok {
		var parts []string
		for k, n := range ks {
			parts = append(parts, fmt.Sprintf("%s×%d", ank.Render(k), n))
		}
		sort.Strings(parts)
		if len(parts) > 40 {
			parts = append(parts[:40], "…")
		}
		return "keys{" + strings.Join(parts, " ") + "}"
	}
	return ank.Render(w)
}

// the builtins of the statement and their references
type c19Builtin struct {
	name  string
	call  string // script text applied to variable x
	ref   func(xv interface{}) c19Ref
	arity int // 0 = syntactic len
}

var c19Builtins = []c19Builtin{
	{"typeOf", "typeOf(x)", c19RefTypeOf, 1},
	{"kindOf", "kindOf(x)", c19RefKindOf, 1},
	{"len", "len(x)", c19RefLen, 0},
	{"keys", "keys(x)", c19RefKeys, 1},
	{"toInt", "toInt(x)", c19RefToInt, 1},
	{"toFloat", "toFloat(x)", c19RefToFloat, 1},
	{"toString", "toString(x)", c19RefToString, 1},
	{"toRune", "toRune(x)", c19RefToRune, 1},
	{"toChar", "toChar(x)", c19RefToChar, 1},
	{"toByteSlice", "toByteSlice(x)", c19RefToByteSlice, 1},
	{"toRuneSlice", "toRuneSlice(x)", c19RefToRuneSlice, 1},
	{"toBoolSlice", "toBoolSlice(x)", func(x interface{}) c19Ref { return c19RefToSlice(x, reflect.Bool) }, 1},
	{"toStringSlice", "toStringSlice(x)", func(x interface{}) c19Ref { return c19RefToSlice(x, reflect.String) }, 1},
	{"toIntSlice", "toIntSlice(x)", func(x interface{}) c19Ref { return c19RefToSlice(x, reflect.Int64) }, 1},
	{"toFloatSlice", "toFloatSlice(x)", func(x interface{}) c19Ref { return c19RefToSlice(x, reflect.Float64) }, 1},
}

// c19Val is one member of the value universe: a Go value bound with Define, or a script
// expression whose value the host reads back from the environment.
type c19Val struct {
	name string
	v    interface{}
	src  string
}

// c19CheckValue applies every builtin to the value bound to x and judges it.
func c19CheckValue(c *wk.Case, val c19Val, only string) {
	e := ank.NewCoreEnv()
	var xv interface{}
	if val.src != "" {
		o := ank.Exec(e, "x = "+val.src)
		if o.Err != nil || o.Panicked {
			c.Inconclusive("value-setup-failed", val.src+": "+ank.ErrText(o.Err)+o.PanicVal, val.src)
			return
		}
		var err error
		xv, err = e.Get("x")
		if err != nil {
			c.Inconclusive("value-setup-failed", val.src+": "+err.Error(), val.src)
			return
		}
	} else {
		xv = val.v
		if err := e.Define("x", xv); err != nil {
			c.Inconclusive("value-setup-failed", err.Error(), val.name)
			return
		}
	}
	class := c19Class(xv)
	xr := ank.Render(xv)
	if len(xr) > 400 {
		xr = xr[:400] + "…"
	}
	for _, b := range c19Builtins {
		if only != "" && only != b.name {
			continue
		}
		ref := b.ref(xv)
		input := map[string]string{"src": b.call, "x": xr, "x_from": val.src, "x_type": fmt.Sprint(reflect.TypeOf(xv))}
		c.Begin(input)
		o := ank.Exec(e, b.call)
		c.Events(1)
		c.Eval(b.call+"|"+fmt.Sprint(reflect.TypeOf(xv))+"|"+xr+"|"+val.src, ref.judged)
		c.Tag("val:" + b.name + ":" + class)
		tag := b.name + ":" + class
		if c.WantSample() && ref.judged && !ref.wantErr && class != "nil" && class != "int64" {
			c.Sample(map[string]string{"src": b.call, "x": xr, "x_type": fmt.Sprint(reflect.TypeOf(xv)), "native": c19RenderWant(ref.want), "anko": ank.Render(o.Val), "err": ank.ErrText(o.Err)})
		}
		if o.Panicked {
			c.Violation(tag+":panic", "panic: "+o.PanicVal+" ("+o.PanicSig+")", input)
			continue
		}
		if !ref.judged {
			c.Tag("unjudged:" + b.name + ":" + class)
			continue
		}
		if ref.wantErr {
			if o.Err == nil {
				c.Violation(tag+":noerror", "misuse not reported as an error; got "+ank.Render(o.Val), input)
			}
			continue
		}
		if o.Err != nil {
			if !ref.orErr {
				c.Violation(tag+":error", fmt.Sprintf("unexpected error %q, want %s", o.Err.Error(), c19RenderWant(ref.want)), input)
			}
			continue
		}
		if ok, why := c19Same(o.Val, ref.want); !ok {
			got := ank.Render(o.Val)
			if len(got) > 400 {
				got = got[:400] + "…"
			}
			c.Violation(tag+":"+why, fmt.Sprintf("got %s, want %s", got, c19RenderWant(ref.want)), input)
		}
	}
}

// ---------------------------------------------------------------------------------------------
// the fixed value universe
// ---------------------------------------------------------------------------------------------

var c19NumeralStrings = []string{"0", "1", "-1", "12", "-12", "+5", "007", "-0", "9223372036854775807", "-9223372036854775808",
	"9223372036854775808", "12345678901234567890", "1.5", "-2.75", ".5", "5.", "0.1", "1e3", "1E-2", "-1.5e2", "+3.25", "123456789.987654321",
	"9007199254740993", "1e18", "1e19", "1e400", "4.9e-324", "1e-400"}

var c19OtherStrings = []string{"", "a", "A", "héllo", "日本語", "\xff\xfe", "a\x00b", "abc", "-", ".", "+", "e", "true", "yes", "x1", "1x", " 1", "1 ", "0x10", "1_000",
	"inf", "-Inf", "NaN", "Infinity", "0x1p4", "1,5", "１２", "\U0001F600 smile", "line\nbreak"}

func c19FilledChan() chan int64 {
	ch := make(chan int64, 3)
	ch <- 1
	ch <- 2
	return ch
}

func c19Universe() []c19Val {
	var u []c19Val
	g := func(name string, v interface{}) { u = append(u, c19Val{name: name, v: v}) }
	s := func(src string) { u = append(u, c19Val{name: src, src: src}) }
	g("nil", nil)
	g("true", true)
	g("false", false)
	for _, i := range []int64{0, 1, -1, 65, 4095, 4096, 0x10FFFF, 0x110000, 0xD800, 1 << 31, 1<<53 + 1, math.MaxInt64, math.MinInt64} {
		g("int64", i)
	}
	g("int", int(5))
	g("int", int(-7))
	g("int8", int8(-128))
	g("int8", int8(127))
	g("int16", int16(300))
	g("int32", int32(65))
	g("int32", int32(math.MaxInt32))
	g("int32", int32(-1))
	g("uint", uint(7))
	g("uint8", uint8(255))
	g("uint16", uint16(65535))
	g("uint32", uint32(math.MaxUint32))
	g("uint64", uint64(0))
	g("uint64", uint64(1<<63+5))
	g("uint64", uint64(math.MaxUint64))
	g("uintptr", uintptr(9))
	g("float32", float32(1.5))
	g("float32", float32(-0.25))
	g("float32", float32(3e9))
	g("float32", float32(0.1))
	for _, f := range []float64{0, math.Copysign(0, -1), 2.5, -2.5, 0.999999, -0.999999, 1e18, 1e-7, 0.1, 9007199254740993, 9.2e18, -9.223372036854775808e18, 9.223372036854775808e18, 1e19, -1e300,
		math.NaN(), math.Inf(1), math.Inf(-1), math.MaxFloat64, math.SmallestNonzeroFloat64} {
		g("float64", f)
	}
	g("complex128", complex(1, 2))
	g("complex64", complex64(complex(0, -1)))
	for _, x := range c19NumeralStrings {
		g("numeral", x)
	}
	for _, x := range c19OtherStrings {
		g("string", x)
	}
	g("duration", 1500*time.Millisecond)
	g("namedstring", c19Str("7"))
	g("namedstring", c19Str("abc"))
	g("namedstring", c19Str("-12"))
	g("namedstring", c19Str("2.5e3"))
	g("namedstring", c19Str(""))
	g("namedint", c19Int(9))
	g("bytes", []byte{})
	g("bytes", []byte("ab"))
	g("bytes", []byte{0xff, 0x41})
	g("bytes", []byte("12"))
	g("runes", []rune("héy"))
	g("slice", []interface{}{})
	g("slice", []interface{}{int64(1), "a", nil, 2.5, true})
	g("slice", []interface{}{int64(65), int32(66), uint8(67), uint64(1 << 40), int64(-1), int64(0x110000), float32(1.5), -2.9, "héllo", []byte("xy"), []rune("zw"), false, nil,
		[]interface{}{int64(1)}, map[string]interface{}{"k": int64(1)}, c19Str("named"), c19Int(70), 1500 * time.Millisecond, complex(1, 1), c19S{1, "x"}})
	g("slice", []interface{}{[]interface{}{int64(1), []interface{}{"deep"}}, map[interface{}]interface{}{"a": int64(1)}})
	g("slice", []int64{1, 2, 3})
	g("slice", []int64(nil))
	g("slice", []int32{65, 66})
	g("slice", []string{"a", "b"})
	g("slice", []float64{1.5, -2.5})
	g("slice", []float32{0.5})
	g("slice", []bool{true, false})
	g("slice", [][]int64{{1}, {2, 3}})
	g("slice", []uint64{1 << 63})
	g("slice", []c19S{{1, "x"}})
	g("slice", []map[string]int64{{"a": 1}})
	g("array", [3]int{1, 2, 3})
	g("array", [0]string{})
	g("array", [2]interface{}{int64(1), "s"})
	g("map", map[string]interface{}{})
	g("map", map[string]interface{}{"a": int64(1), "b": nil, "": "empty"})
	g("map", map[interface{}]interface{}{"a": int64(1), int64(2): "x", true: nil, 2.5: []interface{}{}, int64(1): 1, float64(1): 2, int32(1): 3, "1": 4, c19Key{1, "k"}: 5, [2]int{1, 2}: 6})
	g("map", map[string]int64{"x": 1, "y": 2})
	g("map", map[int64]string{1: "a", -1: "b", math.MaxInt64: "c"})
	g("map", map[string]int64(nil))
	g("map", map[bool][]int64{true: {1}, false: nil})
	g("map", map[[2]int]string{{1, 2}: "a", {2, 1}: "b"})
	g("map", map[c19Key]int{{1, "a"}: 1, {1, "b"}: 2})
	g("map", map[float64]bool{0.5: true, -0.0: false, math.Inf(1): true})
	g("map", map[rune]string{'a': "a"})
	g("map", map[interface{}]bool{nil: true, "nil": false})
	g("struct", c19S{1, "x"})
	g("struct", struct{}{})
	g("struct", c19Key{})
	g("ptr", &c19S{2, "y"})
	g("ptr", (*c19S)(nil))
	g("ptr", new(int64))
	g("ptr", &[]int64{1})
	g("ptr", &[2]int{1, 2})
	g("ptr", new(*int64))
	g("chan", make(chan int64))
	g("chan", c19FilledChan())
	g("chan", (chan int64)(nil))
	g("chan", make(chan interface{}, 1))
	g("chan", make(chan struct{}, 2))
	g("chan", (<-chan int64)(c19FilledChan()))
	g("chan", (chan<- string)(make(chan string, 1)))
	g("func", func() {})
	g("func", func(a int64) int64 { return a })
	g("func", fmt.Sprint)
	g("func", strings.ToUpper)
	g("func", (func())(nil))
	g("error", errors.New("boom"))
	g("time", time.Unix(0, 0).UTC())
	g("reflecttype", reflect.TypeOf(0))
	// script-created values: the host reads the value back from the environment
	for _, x := range []string{`1`, `-7`, `1.5`, `"s"`, `"12"`, `'c'`, `true`, `nil`, `[1, 2, 3]`, `[]`, `[1, "a", nil, 2.5, [1]]`, `{"a": 1, "b": [1]}`, `{}`, `{1: 2, 1.5: 3, true: 4, "k": nil}`,
		`func(){}`, `func(a, b){ return a }`, `func(a...){ return a }`, `make(chan int64, 2)`, `make(chan string)`, `make([]string, 2)`, `make([]int64, 0, 4)`, `make(map[string]int64)`,
		`[]int64{1, 2}`, `[]float64{1.5}`, `map[string]int64{"a": 1, "b": 2}`, `map[int64]bool{1: true}`, `new(int64)`, `new(string)`, `1 == 1`, `"a" + "b"`, `2 * 3.5`, `len("abc")`,
		`toByteSlice("hi")`, `toRuneSlice("hi")`, `toIntSlice([1, 2])`, `range(3)`, `keys({"a": 1})`, `typeOf(1)`, `toRune("x")`, `1 << 62`, `"héllo"[1]`, `"héllo"[0:2]`, `[1,2,3][1:]`} {
		s(x)
	}
	return u
}

// ---------------------------------------------------------------------------------------------
// PRNG-built values
// ---------------------------------------------------------------------------------------------

type c19Rng interface {
	Intn(int) int
	Int63() int64
	Uint64() uint64
	Float64() float64
	NormFloat64() float64
}

func c19RandString(r c19Rng) string {
	n := r.Intn(12)
	if r.Intn(10) == 0 {
		n = r.Intn(300)
	}
	var b []byte
	for i := 0; i < n; i++ {
		switch r.Intn(8) {
		case 0:
			b = append(b, byte(r.Intn(256))) // possibly invalid UTF-8
		case 1:
			b = utf8.AppendRune(b, rune(r.Intn(0x110000)))
		case 2:
			b = utf8.AppendRune(b, rune(0x3040+r.Intn(96)))
		case 3:
			b = append(b, byte('0'+r.Intn(10)))
		default:
			b = append(b, byte(' '+r.Intn(95)))
		}
	}
	return string(b)
}

func c19RandInt64(r c19Rng) int64 {
	switch r.Intn(5) {
	case 0:
		return int64(r.Intn(300)) - 100
	case 1:
		return int64(r.Uint64())
	case 2:
		return int64(r.Uint64()) >> uint(r.Intn(64))
	case 3:
		return []int64{math.MaxInt64, math.MinInt64, math.MaxInt32, math.MinInt32, 0x10FFFF, 0xD7FF, 0xE000, 1 << 53}[r.Intn(8)] + int64(r.Intn(3)) - 1
	}
	return int64(r.Intn(0x110000))
}

func c19RandFloat(r c19Rng) float64 {
	switch r.Intn(6) {
	case 0:
		return math.Float64frombits(r.Uint64())
	case 1:
		return float64(c19RandInt64(r))
	case 2:
		return r.NormFloat64() * 1000
	case 3:
		return float64(r.Intn(2000)-1000) / 8
	case 4:
		return math.Ldexp(r.Float64()-0.5, r.Intn(140)-10)
	}
	return r.Float64()
}

// a decimal numeral spelling of a random number
func c19RandNumeral(r c19Rng) string {
	if r.Intn(2) == 0 {
		s := strconv.FormatInt(c19RandInt64(r), 10)
		if r.Intn(6) == 0 && s[0] != '-' {
			s = "+" + s
		}
		if r.Intn(8) == 0 {
			if s[0] == '-' || s[0] == '+' {
				s = s[:1] + "00" + s[1:]
			} else {
				s = "0" + s
			}
		}
		return s
	}
	f := c19RandFloat(r)
	for math.IsNaN(f) || math.IsInf(f, 0) {
		f = c19RandFloat(r)
	}
	switch r.Intn(4) {
	case 0:
		return strconv.FormatFloat(f, 'f', r.Intn(8), 64)
	case 1:
		return strconv.FormatFloat(f, 'e', -1, 64)
	case 2:
		return strconv.FormatFloat(f, 'E', r.Intn(5), 64)
	}
	return strconv.FormatFloat(f, 'g', -1, 64)
}

func c19RandScalar(r c19Rng) interface{} {
	switch r.Intn(16) {
	case 0:
		return nil
	case 1:
		return r.Intn(2) == 0
	case 2, 3:
		return c19RandInt64(r)
	case 4:
		return int32(c19RandInt64(r))
	case 5:
		return uint8(r.Intn(256))
	case 6:
		return r.Uint64()
	case 7:
		return int(c19RandInt64(r))
	case 8, 9:
		return c19RandFloat(r)
	case 10:
		return float32(c19RandFloat(r))
	case 11, 12:
		return c19RandString(r)
	case 13:
		return c19RandNumeral(r)
	case 14:
		return uint32(r.Uint64())
	}
	return int16(r.Intn(65536) - 32768)
}

func c19RandElem(r c19Rng, depth int) interface{} {
	if depth > 0 {
		switch r.Intn(12) {
		case 0:
			return c19RandIfaceSlice(r, depth-1)
		case 1:
			m := map[string]interface{}{}
			for i := r.Intn(3); i > 0; i-- {
				m[c19RandString(r)] = c19RandScalar(r)
			}
			return m
		case 2:
			return []byte(c19RandString(r))
		case 3:
			return []rune(c19RandString(r))
		}
	}
	return c19RandScalar(r)
}

func c19RandIfaceSlice(r c19Rng, depth int) []interface{} {
	n := r.Intn(8)
	if r.Intn(12) == 0 {
		n = r.Intn(200)
	}
	xs := make([]interface{}, n)
	for i := range xs {
		xs[i] = c19RandElem(r, depth)
	}
	return xs
}

// a comparable key that is not NaN (NaN keys can never be looked up; not part of "every key exactly once")
func c19RandKey(r c19Rng, kind int) interface{} {
	switch kind {
	case 0:
		return c19RandString(r)
	case 1:
		return c19RandInt64(r)
	case 2:
		f := c19RandFloat(r)
		for math.IsNaN(f) {
			f = c19RandFloat(r)
		}
		return f
	case 3:
		return r.Intn(2) == 0
	}
	switch r.Intn(7) {
	case 0:
		return c19Key{c19RandInt64(r), c19RandString(r)}
	case 1:
		return [2]int{r.Intn(3), r.Intn(3)}
	case 2:
		return int32(r.Intn(100))
	case 3:
		return nil
	}
	return c19RandKey(r, r.Intn(4))
}

func c19RandMap(r c19Rng) interface{} {
	n := r.Intn(10)
	if r.Intn(8) == 0 {
		n = r.Intn(400)
	}
	switch r.Intn(7) {
	case 0:
		m := map[string]int64{}
		for i := 0; i < n; i++ {
			m[c19RandString(r)] = int64(i)
		}
		return m
	case 1:
		m := map[int64]string{}
		for i := 0; i < n; i++ {
			m[c19RandInt64(r)] = "v"
		}
		return m
	case 2:
		m := map[float64]bool{}
		for i := 0; i < n; i++ {
			m[c19RandKey(r, 2).(float64)] = true
		}
		return m
	case 3:
		m := map[string]interface{}{}
		for i := 0; i < n; i++ {
			m[c19RandString(r)] = c19RandScalar(r)
		}
		return m
	case 4:
		m := map[c19Key][]int64{}
		for i := 0; i < n; i++ {
			m[c19Key{int64(r.Intn(5)), c19RandString(r)}] = nil
		}
		return m
	}
	m := map[interface{}]interface{}{}
	kind := 4
	if r.Intn(2) == 0 {
		kind = r.Intn(4)
	}
	for i := 0; i < n; i++ {
		m[c19RandKey(r, kind)] = c19RandScalar(r)
	}
	return m
}

// ---- reflect-built random types (typeOf / kindOf / len / toString / toInt over "any value") ----

var c19BasicTypes = []reflect.Type{
	reflect.TypeOf(false), reflect.TypeOf(int(0)), reflect.TypeOf(int8(0)), reflect.TypeOf(int16(0)), reflect.TypeOf(int32(0)), reflect.TypeOf(int64(0)),
	reflect.TypeOf(uint(0)), reflect.TypeOf(uint8(0)), reflect.TypeOf(uint16(0)), reflect.TypeOf(uint32(0)), reflect.TypeOf(uint64(0)), reflect.TypeOf(uintptr(0)),
	reflect.TypeOf(float32(0)), reflect.TypeOf(float64(0)), reflect.TypeOf(complex128(0)), reflect.TypeOf(""),
	reflect.TypeOf((*interface{})(nil)).Elem(), reflect.TypeOf((*error)(nil)).Elem(), reflect.TypeOf(time.Duration(0)), reflect.TypeOf(c19S{}), reflect.TypeOf(c19Str("")),
}

func c19RandType(r c19Rng, depth int) reflect.Type {
	if depth <= 0 || r.Intn(3) == 0 {
		return c19BasicTypes[r.Intn(len(c19BasicTypes))]
	}
	switch r.Intn(8) {
	case 0, 1:
		return reflect.SliceOf(c19RandType(r, depth-1))
	case 2:
		return reflect.ArrayOf(r.Intn(4), c19RandType(r, depth-1))
	case 3:
		keys := []reflect.Type{reflect.TypeOf(""), reflect.TypeOf(int64(0)), reflect.TypeOf(false), reflect.TypeOf(float64(0)), reflect.TypeOf((*interface{})(nil)).Elem(),
			reflect.TypeOf([2]int{}), reflect.TypeOf(c19Key{}), reflect.TypeOf((*int)(nil)), reflect.TypeOf(uint8(0))}
		return reflect.MapOf(keys[r.Intn(len(keys))], c19RandType(r, depth-1))
	case 4:
		return reflect.PtrTo(c19RandType(r, depth-1))
	case 5:
		return reflect.ChanOf([]reflect.ChanDir{reflect.BothDir, reflect.BothDir, reflect.RecvDir, reflect.SendDir}[r.Intn(4)], c19RandType(r, depth-1))
	case 6:
		nin, nout := r.Intn(3), r.Intn(3)
		var in, out []reflect.Type
		for i := 0; i < nin; i++ {
			in = append(in, c19RandType(r, depth-1))
		}
		for i := 0; i < nout; i++ {
			out = append(out, c19RandType(r, depth-1))
		}
		variadic := false
		if nin > 0 && r.Intn(3) == 0 {
			in[nin-1] = reflect.SliceOf(in[nin-1])
			variadic = true
		}
		return reflect.FuncOf(in, out, variadic)
	}
	var fs []reflect.StructField
	for i, n := 0, r.Intn(4); i < n; i++ {
		fs = append(fs, reflect.StructField{Name: "F" + strconv.Itoa(i), Type: c19RandType(r, depth-1)})
	}
	return reflect.StructOf(fs)
}

// c19RandValueOf builds a value of type t (no NaN map keys, no cycles).
func c19RandValueOf(r c19Rng, t reflect.Type, depth int) reflect.Value {
	if depth <= 0 || r.Intn(4) == 0 {
		return reflect.Zero(t)
	}
	v := reflect.New(t).Elem()
	switch t.Kind() {
	case reflect.Bool:
		v.SetBool(r.Intn(2) == 0)
	case reflect.Int, reflect.Int8, reflect.Int16, reflect.Int32, reflect.Int64:
		v.SetInt(c19RandInt64(r))
	case reflect.Uint, reflect.Uint8, reflect.Uint16, reflect.Uint32, reflect.Uint64, reflect.Uintptr:
		v.SetUint(r.Uint64() >> uint(r.Intn(64)))
	case reflect.Float32, reflect.Float64:
		f := c19RandFloat(r)
		for math.IsNaN(f) {
			f = c19RandFloat(r)
		}
		v.SetFloat(f)
	case reflect.Complex128:
		v.SetComplex(complex(float64(r.Intn(9)), float64(r.Intn(9))))
	case reflect.String:
		v.SetString(c19RandString(r))
	case reflect.Interface:
		if t.NumMethod() == 0 {
			if x := c19RandScalar(r); x != nil {
				if f, ok := x.(float64); !ok || !math.IsNaN(f) {
					if f32, ok := x.(float32); !ok || f32 == f32 {
						v.Set(reflect.ValueOf(x))
					}
				}
			}
		} else if r.Intn(2) == 0 {
			v.Set(reflect.ValueOf(errors.New("e" + strconv.Itoa(r.Intn(9)))))
		}
	case reflect.Slice:
		n := r.Intn(5)
		v = reflect.MakeSlice(t, n, n+r.Intn(3))
		for i := 0; i < n; i++ {
			v.Index(i).Set(c19RandValueOf(r, t.Elem(), depth-1))
		}
	case reflect.Array:
		for i := 0; i < t.Len(); i++ {
			v.Index(i).Set(c19RandValueOf(r, t.Elem(), depth-1))
		}
	case reflect.Map:
		v = reflect.MakeMap(t)
		for i, n := 0, r.Intn(4); i < n; i++ {
			v.SetMapIndex(c19RandValueOf(r, t.Key(), 1), c19RandValueOf(r, t.Elem(), depth-1))
		}
	case reflect.Ptr:
		p := reflect.New(t.Elem())
		p.Elem().Set(c19RandValueOf(r, t.Elem(), depth-1))
		v = p
	case reflect.Chan:
		capn := r.Intn(4)
		ch := reflect.MakeChan(reflect.ChanOf(reflect.BothDir, t.Elem()), capn)
		for i, n := 0, r.Intn(capn+1); i < n; i++ {
			ch.Send(reflect.Zero(t.Elem()))
		}
		v = ch.Convert(t)
	case reflect.Func:
		outs := make([]reflect.Value, t.NumOut())
		for i := range outs {
			outs[i] = reflect.Zero(t.Out(i))
		}
		v = reflect.MakeFunc(t, func([]reflect.Value) []reflect.Value { return outs })
	case reflect.Struct:
		for i := 0; i < t.NumField(); i++ {
			if v.Field(i).CanSet() {
				v.Field(i).Set(c19RandValueOf(r, t.Field(i).Type, depth-1))
			}
		}
	}
	return v
}

// ---------------------------------------------------------------------------------------------
// phase "misuse"
// ---------------------------------------------------------------------------------------------

// builtins checked for wrong argument COUNTS (fixed arity 1). toBool/defined/toDuration are
// builtins too ("misuse of any builtin"); only their arity is exercised, never their semantics.
var c19MisuseNames = []string{"typeOf", "kindOf", "keys", "toInt", "toFloat", "toString", "toRune", "toChar", "toByteSlice", "toRuneSlice",
	"toBoolSlice", "toStringSlice", "toIntSlice", "toFloatSlice", "toBool", "defined", "toDuration", "len", "range"}

func c19Reps() []c19Val {
	return []c19Val{
		{name: "nil", v: nil}, {name: "bool", v: true}, {name: "int64", v: int64(3)}, {name: "int32", v: int32(65)}, {name: "uint8", v: uint8(7)}, {name: "uint64", v: uint64(1 << 63)},
		{name: "float64", v: 2.5}, {name: "float32", v: float32(1.5)}, {name: "complex", v: complex(1, 2)}, {name: "string", v: "s"}, {name: "numeral", v: "12"}, {name: "namedstring", v: c19Str("n")},
		{name: "bytes", v: []byte("ab")}, {name: "runes", v: []rune("ab")}, {name: "slice-iface", v: []interface{}{int64(1), "a"}}, {name: "slice-int64", v: []int64{1, 2}}, {name: "slice-nil", v: []string(nil)},
		{name: "array", v: [2]int{1, 2}}, {name: "map-si", v: map[string]interface{}{"a": int64(1)}}, {name: "map-ii", v: map[interface{}]interface{}{"a": int64(1)}}, {name: "map-nil", v: map[string]int64(nil)},
		{name: "struct", v: c19S{1, "x"}}, {name: "ptr", v: &c19S{1, "x"}}, {name: "ptr-nil", v: (*c19S)(nil)}, {name: "ptr-int", v: new(int64)}, {name: "chan", v: make(chan int64, 1)}, {name: "chan-nil", v: (chan int64)(nil)},
		{name: "func", v: func() {}}, {name: "func-nil", v: (func())(nil)}, {name: "func-variadic", v: fmt.Sprint}, {name: "error", v: errors.New("boom")}, {name: "duration", v: time.Second},
		{name: "script-func", src: "func(a){ return a }"}, {name: "script-map", src: `{"a": 1}`}, {name: "script-array", src: "[1, 2]"}, {name: "script-chan", src: "make(chan int64)"}, {name: "script-new", src: "new(int64)"},
	}
}

func c19MisuseCase(c *wk.Case, name string) {
	defer c19MisuseDeferred(c, name) // round 6 (c19_r6.go): the same misuses as the call of a defer statement
	reps := c19Reps()
	run := func(sig string, src string, val c19Val, defs map[string]interface{}, mustErr bool) {
		e := ank.NewCoreEnv()
		if val.src != "" {
			if o := ank.Exec(e, "x = "+val.src); o.Err != nil || o.Panicked {
				c.Inconclusive("value-setup-failed", val.src, val.src)
				return
			}
		} else {
			e.Define("x", val.v)
		}
		for k, v := range defs {
			e.Define(k, v)
		}
		xv, _ := e.Get("x")
		input := map[string]string{"src": src, "x": ank.Render(xv), "x_type": fmt.Sprint(reflect.TypeOf(xv))}
		c.Begin(input)
		o := ank.Exec(e, src)
		c.Events(1)
		c.Eval(src+"|"+val.name, true)
		if c.WantSample() && val.name == "map-si" {
			c.Sample(map[string]string{"src": src, "x": input["x"], "err": ank.ErrText(o.Err), "panicked": strconv.FormatBool(o.Panicked)})
		}
		switch {
		case o.Panicked:
			c.Violation(sig+":panic", "panic: "+o.PanicVal+" ("+o.PanicSig+")", input)
		case mustErr && o.Err == nil:
			c.Violation(sig+":noerror", "misuse not reported as an error; got "+ank.Render(o.Val), input)
		}
	}
	if name == "range" {
		// wrong argument TYPES in each position (counts are judged by the range phase): kinds that no
		// conversion relates to an integer must be an error; strings/bools/floats/nil may be converted
		// or refused by the call machinery (statement silent) and are only demanded not to panic.
		for _, val := range reps {
			xv := val.v
			if val.src == "" && xv != nil {
				// numbers may legitimately be converted to int64 and then mean a (possibly huge)
				// progression: numeric arguments are the range phase's business (run in a child)
				switch k := reflect.ValueOf(xv).Kind(); {
				case c19IsInt(k), c19IsUint(k), c19IsFloat(k), k == reflect.Complex64, k == reflect.Complex128:
					continue
				}
			}
			must := false
			if val.src != "" {
				must = true // script func/map/array/chan/pointer
			} else if xv != nil {
				switch reflect.ValueOf(xv).Kind() {
				case reflect.Map, reflect.Slice, reflect.Array, reflect.Func, reflect.Chan, reflect.Struct, reflect.Ptr:
					must = true
				}
			}
			for _, src := range []string{"range(x)", "range(x, 5)", "range(0, x)", "range(x, 5, 1)", "range(0, x, 1)", "range(0, 5, x)", "range(x, x, x)"} {
				c.Tag("misuse:range:type:" + val.name)
				run("misuse:range:type:"+c19ClassOfRep(val), src, val, nil, must)
			}
		}
		// slices of the wrong element type spread into the variadic parameter
		for _, val := range reps {
			if val.src == "" && val.v != nil && reflect.ValueOf(val.v).Kind() == reflect.Slice {
				c.Tag("misuse:range:spread:" + val.name)
				run("misuse:range:spread:"+c19ClassOfRep(val), "range(x...)", val, nil, false)
			}
		}
		return
	}
	for _, argc := range []int{0, 2, 3, 4} {
		for _, val := range reps {
			if argc == 0 && val.name != "nil" {
				continue
			}
			args := make([]string, argc)
			for i := range args {
				args[i] = "x"
			}
			sig := fmt.Sprintf("misuse:%s:argc%d", name, argc)
			c.Tag(sig)
			run(sig, name+"("+strings.Join(args, ", ")+")", val, nil, true)
			if argc >= 2 {
				args[0] = "1"
				run(sig, name+"("+strings.Join(args, ", ")+")", val, nil, true)
				args[0], args[argc-1] = "x", `"k"`
				run(sig, name+"("+strings.Join(args, ", ")+")", val, nil, true)
			}
			if name == "len" {
				continue // len is syntax: no spread form
			}
			// the same wrong count through a spread call
			xs := make([]interface{}, argc)
			for i := range xs {
				xs[i] = val.v
			}
			// Too FEW spread elements must be an error. Too MANY: anko's call machinery deliberately
			// passes the first ones and drops the rest for every fixed-arity Go function; whether a
			// spread slice longer than the parameter list is a "wrong argument count" is not something
			// the statement settles, so only "no panic" is demanded there.
			if val.src == "" {
				run(sig+":spread", name+"(xs...)", val, map[string]interface{}{"xs": xs}, argc == 0)
			}
		}
	}
}

func c19ClassOfRep(val c19Val) string {
	if val.src != "" {
		return val.name
	}
	return c19Class(val.v)
}

// ---------------------------------------------------------------------------------------------
// registration
// ---------------------------------------------------------------------------------------------

const c19UniverseChunk = 16

func init() {
	wk.RegisterChild("c19range", c19RangeChild)
	universe := c19Universe()
	nUniCases := (len(universe) + c19UniverseChunk - 1) / c19UniverseChunk
	wk.Register(&wk.Engine{
		ID: "C19",
		Plan: func(tier string) fw.Plan {
			nRandRange, nRandVals, nHist, nSwallow := 10, 160, 60, 120
			if tier == "thorough" {
				nRandRange, nRandVals, nHist, nSwallow = 400, 12000, 4000, 6000
			}
			return fw.Plan{
				Level: "exploration",
				Rule: "tables: EVERY entry of the live env.Packages/env.PackageTypes (function entries: runtime.FuncForPC name == \"<import path>.<key>\"; type entries: named type <import path>.<key> or pointer to it; what import() hands out is the table entry; what a script reads by member access on the imported module, in six syntactic positions, after another script overwrote the members of module values it had imported itself, is that Go function, and the type it names by the path m.<key> is that Go type); " +
					"range: all triples (and 1-/2-argument forms, wrong counts, zero steps) over an int64 boundary pool (18 values quick, 37 thorough) whose progression has <= 10000 elements, plus PRNG triples, each run in a limited child process and compared with the math/big progression; " +
					"values: every builtin of {typeOf kindOf len keys toInt toFloat toString toRune toChar toByteSlice toRuneSlice toBoolSlice toStringSlice toIntSlice toFloatSlice} on a fixed universe of Go- and script-created values, PRNG numbers/numerals/strings/maps/slices and reflect-built random types, against native Go; " +
					"misuse: every builtin x wrong argument count (direct and spread) x every value kind, and non-integer arguments of range; every such misuse, the wrong argument types the references demand an error for, and wrong counts / zero steps of range also as the call of a defer statement in 8 positions (top level, between other deferred calls, in a block, in a loop, in a named / anonymous / deferred / nested script function): an error of the run, never a panic out of vm.Execute; " +
					"histories: sequences of calls of the container-returning builtins (range with 1-3 small arguments in related spellings, keys, the typed-slice and byte/rune slice forms) in which the script or the host stores into, appends to or uses the spare capacity of what a call returned before the builtin is called again with the same or related arguments, in the same and in fresh environments of one process; every call is judged against the native reference of the arguments' current values (case 0: every n in 0..130 in every spelling, all positions overwritten); kept results: histories over variables (host byte slices / strings / lists with byte-slice elements / maps, a bytes.Buffer) in which conversion results (toString, toByteSlice, toRuneSlice, the typed-slice forms, keys) are kept in variables and used as map keys while the script, the host or a Go API that reuses its memory (strings.Reader.Read into the same bytes, Buffer.Reset/Truncate+Write, an append into the shared backing array) stores into their arguments, and slice results are stored into while the arguments are kept: after every step every variable not stored into must deep-equal its private host-side copy and the key map must hold exactly the converted keys (case 0: every length 1..8 x origin of the bytes x position x kind of store); " + c19R7Rule + " An evaluation is non-trivial when the statement fixes its outcome; distinct = distinct (call, argument type, argument rendering)." + c19R8Rule,
				Assumptions: []string{
					"reference = Go itself on the same toolchain: math/big, strconv, fmt.Sprint, reflect.Type.String, native conversions",
					"runtime.FuncForPC(entry).Name() identifies the Go function a table entry is bound to; flag.Usage is a func-typed variable and is compared with the variable's value; types defined in anko's own packages directory are anko helpers, not mis-bindings",
					"not judged (statement silent): toBool, bool arguments of toInt/toFloat, load/print*, float->int conversions outside int64, numerals outside int64/float64, strings that are neither decimal numerals nor digit-free, argument conversions done by the call machinery (only kinds no Go conversion relates to the parameter must be errors)",
					"histories run in-process: only progressions of <= 300 elements whose successor stays inside int64; a store into a builtin's result that the VM refuses is not judged (only the builtin calls are)",
					"kept results: a conversion result is a Go value of its own (Go's string(b), []byte(s), []rune(s) copy; the typed-slice forms and keys build new slices), so it never changes through a store into another variable; the stores themselves, make, map stores and Go method calls are not judged (the stored-into variable's reference copy is refreshed from its actual value)",
					"deferred misuse: the body of every script succeeds, so 'reported as an error' = vm.Execute returns a non-nil error; `defer len(..)` is not generated (len is syntax, not a call)",
					"a range call whose child exceeds its heap/CPU budget (legal results need <= 80 kB) did not return the demanded progression: violation with that triple, never a hang",
					c19R7Assumption1, c19R7Assumption2, c19R7Assumption3,
					c19R8Assumptions[0], c19R8Assumptions[1], c19R8Assumptions[2],
				},
				Phases: append([]fw.Phase{
					{Name: "tables", Cases: len(c19Pkgs()), Chunk: 4, Exhaust: true, TimeoutS: 300},
					{Name: "range", Cases: 1 + c19EnumCases(tier) + nRandRange, Chunk: 1, Jobs: 16, TimeoutS: 900},
					{Name: "values", Cases: nUniCases + nRandVals, Chunk: 40, TimeoutS: 900},
					{Name: "misuse", Cases: len(c19MisuseNames), Chunk: 2, TimeoutS: 600, MemMB: 3072},
					{Name: "histories", Cases: 1 + nHist, Chunk: 16, Jobs: 4, TimeoutS: 600, MemMB: 3072},
					{Name: "swallowed", Cases: len(c19SwGroups()) + nSwallow, Chunk: 4, TimeoutS: 600, MemMB: 3072},
					{Name: "sizes", Cases: len(c19Sizes(tier)) + 1, Chunk: 2, TimeoutS: 900},
				}, c19R8Phases(tier)...), // round 8 (c19_r8.go)
			}
		},
		Run: func(c *wk.Case) {
			if c19R8Run(c) { // round 8 (c19_r8.go)
				return
			}
			switch c.Phase {
			case "tables":
				pk := c19Pkgs()
				if c.Index < len(pk) {
					c19TablesCase(c, pk[c.Index])
				}
			case "range":
				c19RangeCase(c)
			case "histories":
				c19HistoriesCase(c)
			case "swallowed":
				c19SwallowedCase(c) // round 7 (c19_r7.go)
			case "sizes":
				if sz := c19Sizes(c.Tier); c.Index < len(sz) {
					c19SizesCase(c, sz[c.Index])
				} else if c.Index == len(sz) {
					c19BoundaryCase(c)
				}
			case "misuse":
				if c.Index < len(c19MisuseNames) {
					c19MisuseCase(c, c19MisuseNames[c.Index])
				}
			case "values":
				if c.Index < nUniCases {
					lo := c.Index * c19UniverseChunk
					hi := lo + c19UniverseChunk
					if hi > len(universe) {
						hi = len(universe)
					}
					// fresh universe per case: channels/pointers must not be shared with other cases
					u := c19Universe()
					for _, val := range u[lo:hi] {
						c19CheckValue(c, val, "")
					}
					return
				}
				r := c.Rng
				for k := 0; k < 4; k++ {
					c19CheckValue(c, c19Val{name: "randmap", v: c19RandMap(r)}, "")
					c19CheckValue(c, c19Val{name: "randstring", v: c19RandString(r)}, "")
					c19CheckValue(c, c19Val{name: "randnumeral", v: c19RandNumeral(r)}, "")
					c19CheckValue(c, c19Val{name: "randscalar", v: c19RandScalar(r)}, "")
					c19CheckValue(c, c19Val{name: "randint", v: c19RandInt64(r)}, "")
					c19CheckValue(c, c19Val{name: "randfloat", v: c19RandFloat(r)}, "")
					c19CheckValue(c, c19Val{name: "randslice", v: c19RandIfaceSlice(r, 2)}, "")
					t := c19RandType(r, 3)
					c19CheckValue(c, c19Val{name: "randtype", v: c19RandValueOf(r, t, 3).Interface()}, "")
				}
			}
		},
	})
}
