package main

// C19, round 7 additions.
//
//  1. phase "swallowed": what a builtin (or a function of the package tables) returns is fixed by
//     the statement as a function of ITS arguments. So a call f(a1, .., an) in which one or more
//     arguments are spelled `<failing call> ?? ai`, or `keep(ai)` where the script function keep
//     runs a failing call inside try/catch and returns its parameter, gives exactly what the native
//     reference demands for f(a1, .., an): nothing of the abandoned call (arguments it had already
//     collected, a half-made result, its error) may reach the enclosing call, the calls after it in
//     the same expression, or the calls of the statements that follow in the same run. The failing
//     call fails at its 1st, 2nd, 3rd ... argument (undefined name, unconvertible type, failing
//     sub-expression, nested failing call, spread slice with a bad element), by a wrong argument
//     count, by a callee that is no function, inside a panicking host function, inside a script
//     function, or by the error the called builtin itself reports; it is a builtin, a package
//     function, a Go method, a host function (fixed arity / variadic) or a script function (direct
//     <=4-parameter path, 5-parameter and variadic reflect.MakeFunc path).
//  2. phase "sizes": len (and keys, typeOf, kindOf, the byte/rune slice forms) on strings, slices,
//     arrays, maps and channels - host-bound and script-built - whose length is exactly at and
//     around a power of two (255..257, 4094..4098, 65535..65537), and every builtin whose RESULT is
//     an integer next to such a boundary (or next to -1/0): an interpreter may box, cache or narrow
//     the two sides differently. Every call is evaluated at statement level, where a panic of the
//     VM leaves vm.Execute, and inside a script function, where it becomes the error of the call.

import (
	"fmt"
	"math/rand"
	"reflect"
	"sort"
	"strconv"
	"strings"

	"github.com/mattn/anko/env"

	"verifharness/internal/ank"
	"verifharness/internal/wk"
)

// the Plan's description of the two phases of this file
const (
	c19R7Rule = "swallowed: calls f(a1..an) of every builtin of the values phase, of range (1-3 small arguments, zero steps and wrong counts included) and of ten functions of the package tables (strings.ToUpper/Repeat/Index/Replace/Contains, strconv.Itoa/FormatInt, fmt.Sprint/Sprintf, math.Max) in which one, several or all arguments are spelled as an expression that SWALLOWS a failing call and yields ai: `<failing> ?? ai` in 8 spellings (chained, parenthesised, with a failing right operand in between, inside a script function, inside a call argument, twice in one list) or a script function that runs the failing call under try/catch and returns its parameter in 7 spellings (anonymous, named with finally, returning from try and from catch, in a loop, nested in the catch block, variadic, 5 parameters), optionally under value-keeping wrappers (parentheses, list/map element, ternary, script and host identity function, up to 2 deep), with the enclosing call in 13 statement positions (assignment, block, for / for-in body, returned from a script function, closure, list/map element, argument of a deferred call, switch, catch and finally block, argument of a script function); the failing expression is one of 75: a builtin / package function / Go method / host function (fixed and variadic) / script function (2, 5 parameters, variadic) that fails at its 1st, 2nd, 3rd or 4th argument (undefined name, unconvertible type, failing sub-expression, nested failing call, nested swallowed failure, bad element of a spread slice), has a wrong argument count, an undefined or non-function callee, panics inside the host function, fails inside the script function, reports an error itself, or a failing non-call; also plain calls AFTER statements that swallow such a failure at statement level (??, try/catch, in a function, in a loop) in the same run. One case per builtin/function: full cross swallowing form x failing expression for its first argument tuple, every form x one expression of every failure family for the others, wrappers and positions rotating; PRNG cases: scripts of 1-5 statements over PRNG values with PRNG choices of everything above and compositions f(g(x)). Every call is judged against the native reference of the arguments the script wrote (value, or error for a misuse). " +
		"sizes: len, typeOf, kindOf (keys and len(keys(..)) for maps; toByteSlice, toRuneSlice, toString for strings) on strings (ASCII, multi-byte, named), byte/rune/interface/int64/string slices (with spare capacity, as a view into a larger array), arrays, maps with string / int64 / mixed interface / struct keys, channels (full, with spare capacity, one short, empty) and script-built containers (make of int64/string/byte/interface slices, with spare capacity, a slice of a longer list, a filled channel, filled untyped and typed maps, an appended list, a string grown by +=, range, strings.Repeat, toByteSlice) of length exactly 0, 1, 2, 255..257, 4094..4098, 65535..65537 (thorough: also around 2^10, 2^15, 2^18, 2^20), each call at statement level (a panic out of vm.Execute is a violation) and returned from a script function (len also assigned, as a list element and as the argument of a closure); boundaries (last case): toInt/toFloat/toString of numbers and numerals, toChar/toRune/toRuneSlice of the code point, toIntSlice/toFloatSlice over neighbours, keys of maps with that key, range progressions with that length or with elements crossing it (ascending, descending, stepping by 2, 4, 4096) and len of those, for every integer in {-3..2, 127, 128, 255..257, 4094..4098, 32767, 32768, 65535..65537}, each in 5 evaluation forms."
	c19R7Assumption1 = "swallowed: `x ?? y` yields y when evaluating x fails, and a script function whose try block fails runs its catch block and goes on (anko's documented operators, not part of this statement): an expression that does not fail when it stands alone is not used as failing operand (excluded, counted), and a script that fails outside a judged call is inconclusive"
	c19R7Assumption2 = "swallowed: value-keeping wrappers ((e), [e][0], {\"k\": e}[\"k\"], true ? e : nil, a script or host identity function) and assignment to a variable hand the Go value on unchanged; package functions are called with arguments of exactly their parameter types, except that an int64 is given for an int parameter (its value is passed on); a statement whose call may legitimately fail (misuse, or a case where the reference accepts an error) ends its script"
	c19R7Assumption3 = "sizes: the reference of len for a script-built container is the length the script asked for; the other references are computed from the value the host reads back"
)

// ---------------------------------------------------------------------------------------------
// swallowed failures: the environment
// ---------------------------------------------------------------------------------------------

// c19SwPrelude is run once in the base environment of a case; every script runs in a child
// environment of it (its result variables, argument variables and named catchers live there).
const c19SwPrelude = `strings = import("strings")
strconv = import("strconv")
fmt = import("fmt")
math = import("math")
func idf(a) { return a }
func sv(a, b...) { return a }
func s2(a, b) { return a }
func s5(a, b, c, d, e) { return a }
func sthrow(a, b) { throw("thrown") }
func sfail(a, b) { return nosuch + 1 }
func svthrow(a, b...) { throw("thrown") }
nofn = 5
rd = strings.NewReader("abc")
bs = toByteSlice("ab")
okv = 7
`

func c19SwBase(c *wk.Case) *env.Env {
	e := ank.NewCoreEnv()
	e.Define("hboom2", func(a, b int64) int64 { panic("boom2") })
	e.Define("hboom1", func(a string) string { panic("boom1") })
	e.Define("hboomv", func(a ...interface{}) int64 { panic("boomv") })
	e.Define("hadd3", func(a, b, c int64) int64 { return a + b + c })
	e.Define("hcat", func(a string, rest ...string) string { return a + strings.Join(rest, "") })
	e.Define("hid", func(a interface{}) interface{} { return a })
	e.Define("xs2", []interface{}{int64(2), "x"})
	e.Define("xs3", []interface{}{int64(1), int64(2), map[string]interface{}{}})
	c.Begin(map[string]string{"src": c19SwPrelude})
	if o := ank.Exec(e, c19SwPrelude); o.Err != nil || o.Panicked {
		c.Inconclusive("swallowed-prelude-failed", ank.ErrText(o.Err)+o.PanicVal, c19SwPrelude)
		return nil
	}
	return e
}

// c19Unset is the value every result variable holds before the script runs.
type c19Unset struct{}

// ---------------------------------------------------------------------------------------------
// the failing calls
// ---------------------------------------------------------------------------------------------

// c19Inner is one expression whose evaluation fails. family (part of the signature):
//
//	late    a call that fails at its 2nd or later argument, after earlier ones were accepted
//	first   a call that fails at its first argument
//	count   a call with a wrong number of arguments
//	panic   a host function that panics (the VM reports it as the error of the call)
//	script  a script function that fails inside
//	callee  the callee is undefined or no function
//	callerr the called builtin reports an error itself (zero step, keys of a non-map)
//	plain   no call at all (undefined name, index out of range)
type c19Inner struct{ src, family string }

var c19SwInners = []c19Inner{
	{`range(2, "x")`, "late"}, {`range(2, 3, "x")`, "late"}, {`range(2, missing)`, "late"}, {`range(2, 3, missing)`, "late"},
	{`range(2, [1][5])`, "late"}, {`range(2, {})`, "late"}, {`range(2, toInt(1, 2))`, "late"},
	{`range(2, strings.Index("abc", missing))`, "late"}, {`range(2, range(3, "x") ?? 5, "y")`, "late"}, {`range(xs2...)`, "late"},
	{`strings.Index("abc", missing)`, "late"}, {`strings.Index("abc", {})`, "late"}, {`strings.Index(strings.ToUpper("abc"), missing)`, "late"},
	{`strings.Repeat("ab", "x")`, "late"}, {`strings.Repeat("ab", nil.x)`, "late"},
	{`strings.Replace("a", "b", missing, 1)`, "late"}, {`strings.Replace("a", "b", "c", missing)`, "late"}, {`strings.Replace("a", "b", "c", {})`, "late"},
	{`strings.NewReplacer("a", "b", "c", missing)`, "late"}, {`rd.ReadAt(bs, missing)`, "late"},
	{`fmt.Sprint(1, 2, missing)`, "late"}, {`fmt.Sprintf("%d", missing)`, "late"},
	{`hadd3(1, missing, 3)`, "late"}, {`hadd3(1, 2, missing)`, "late"}, {`hadd3(1, 2, {})`, "late"}, {`hadd3(xs3...)`, "late"},
	{`hcat("a", "b", missing)`, "late"}, {`hcat("a", "b", {})`, "late"},
	{`sv(1, missing)`, "late"}, {`sv(1, 2, missing)`, "late"}, {`s5(1, 2, missing, 4, 5)`, "late"}, {`s5(1, 2, 3, 4, missing)`, "late"}, {`s2(1, missing)`, "late"},

	{`range("x")`, "first"}, {`range(missing)`, "first"}, {`strings.Index(missing, "a")`, "first"}, {`strings.Index({}, "a")`, "first"}, {`toInt(missing)`, "first"},
	{`toRune({})`, "first"}, {`hadd3({}, 2, 3)`, "first"}, {`sv(missing)`, "first"}, {`s2(missing, 1)`, "first"}, {`s5(missing, 2, 3, 4, 5)`, "first"}, {`fmt.Sprint(missing, 1)`, "first"},

	{`range()`, "count"}, {`range(1, 2, 3, 4)`, "count"}, {`toInt()`, "count"}, {`toInt(1, 2)`, "count"}, {`toInt(1, missing)`, "count"},
	{`strings.Index("a")`, "count"}, {`strings.Index("a", "b", "c")`, "count"}, {`hadd3(1, 2)`, "count"}, {`hadd3(1, 2, 3, 4)`, "count"},
	{`s2(1)`, "count"}, {`s2(1, 2, 3)`, "count"}, {`s5(1, 2, 3)`, "count"}, {`sv()`, "count"}, {`hcat()`, "count"},

	{`hboom2(1, 2)`, "panic"}, {`hboom1("a")`, "panic"}, {`hboomv(1, 2, 3)`, "panic"}, {`hboomv()`, "panic"},

	{`sthrow(1, 2)`, "script"}, {`sfail(1, 2)`, "script"}, {`svthrow(1, 2, 3)`, "script"},

	{`nofn(1, 2)`, "callee"}, {`undefinedfn(1, 2)`, "callee"}, {`strings.NoSuch("a", 2)`, "callee"}, {`missing.f(1, 2)`, "callee"},

	{`range(1, 2, 0)`, "callerr"}, {`keys(5)`, "callerr"},

	{`missing`, "plain"}, {`[1][5]`, "plain"}, {`nil.x`, "plain"}, {`len(5)`, "plain"},
}

var c19SwInnerFamilies = []string{"late", "first", "count", "panic", "script", "callee", "callerr", "plain"}

// c19SwLiveInners keeps the expressions that do fail in this tree when they stand alone (the
// relation under test starts from "the left operand fails"; an expression that does not fail is
// outside its domain, and a misuse that is accepted or crashes is the misuse phase's business).
func c19SwLiveInners(c *wk.Case, base *env.Env) map[string][]string {
	out := map[string][]string{}
	for _, in := range c19SwInners {
		c.Begin(map[string]string{"src": in.src, "prelude": "c19SwPrelude"})
		o := ank.Exec(base.NewEnv(), in.src)
		switch {
		case o.Panicked:
			c.Inconclusive("swallowed-inner-panicked", in.src+": "+o.PanicVal, in.src)
		case o.Err == nil:
			c.Excluded("swallowed-inner-did-not-fail")
		default:
			out[in.family] = append(out[in.family], in.src)
		}
	}
	return out
}

// ---------------------------------------------------------------------------------------------
// the forms that swallow the failure
// ---------------------------------------------------------------------------------------------

// c19SwForm builds, from one or two failing expressions a, b and the fallback expression fb, an
// expression whose value is the value of fb (and optional function definitions that precede the
// statement). family (part of the signature): coalesce = the ?? operator falls back from the
// failure, catch = a script function catches it with try/catch and returns the fallback.
type c19SwForm struct {
	name, family string
	build        func(a, b, fb, id string) (pre, expr string)
}

var c19SwForms = []c19SwForm{
	{"coalesce", "coalesce", func(a, b, fb, id string) (string, string) { return "", a + " ?? " + fb }},
	{"coalesce-lhs-paren", "coalesce", func(a, b, fb, id string) (string, string) { return "", "(" + a + ") ?? " + fb }},
	{"coalesce-chain", "coalesce", func(a, b, fb, id string) (string, string) { return "", a + " ?? " + b + " ?? " + fb }},
	{"coalesce-nil", "coalesce", func(a, b, fb, id string) (string, string) { return "", a + " ?? nil ?? " + fb }},
	{"coalesce-failing-rhs", "coalesce", func(a, b, fb, id string) (string, string) { return "", "(" + a + " ?? missing2) ?? " + fb }},
	{"coalesce-in-func", "coalesce", func(a, b, fb, id string) (string, string) {
		return "", "func(v) { return " + a + " ?? v }(" + fb + ")"
	}},
	{"coalesce-in-arg", "coalesce", func(a, b, fb, id string) (string, string) { return "", "idf(" + a + " ?? " + fb + ")" }},
	{"coalesce-twice", "coalesce", func(a, b, fb, id string) (string, string) {
		return "", "[" + a + " ?? 0, " + b + " ?? " + fb + "][1]"
	}},
	{"catch-anon", "catch", func(a, b, fb, id string) (string, string) {
		return "", "func(v) { try { " + a + " } catch e { }; return v }(" + fb + ")"
	}},
	{"catch-return", "catch", func(a, b, fb, id string) (string, string) {
		return "", "func() { try { return " + a + " } catch e { return " + fb + " } }()"
	}},
	{"catch-named-finally", "catch", func(a, b, fb, id string) (string, string) {
		return "func keep_" + id + "(v) { try { " + a + " } catch e { } finally { okv = 8 }; return v }", "keep_" + id + "(" + fb + ")"
	}},
	{"catch-loop", "catch", func(a, b, fb, id string) (string, string) {
		return "", "func(v) { for i = 0; i < 2; i++ { try { " + a + " } catch e { } }; return v }(" + fb + ")"
	}},
	{"catch-nested", "catch", func(a, b, fb, id string) (string, string) {
		return "", "func(v) { try { " + a + " } catch e { try { " + b + " } catch e2 { } }; return v }(" + fb + ")"
	}},
	{"catch-variadic", "catch", func(a, b, fb, id string) (string, string) {
		return "", "func(v...) { try { " + a + " } catch e { }; return v[0] }(" + fb + ")"
	}},
	{"catch-5params", "catch", func(a, b, fb, id string) (string, string) {
		return "", "func(p, q, s, t, v) { try { " + a + " } catch e { }; return v }(1, 2, 3, 4, " + fb + ")"
	}},
}

var c19SwFormFamilies = []string{"coalesce", "catch"}

// c19SwWrappers keep the value of the (parenthesised) expression they are applied to.
var c19SwWrappers = []struct{ name, src string }{
	{"none", ""}, // the swallowing expression is the argument as it stands
	{"paren", "%s"},
	{"array-first", "[%s][0]"},
	{"array-last", "[0, %s][1]"},
	{"map-value", "{\"k\": %s}[\"k\"]"},
	{"ternary", "true ? %s : nil"},
	{"script-identity", "idf(%s)"},
	{"host-identity", "hid(%s)"},
}

func c19SwWrap(w int, expr string) string {
	if c19SwWrappers[w].src == "" {
		return expr
	}
	return fmt.Sprintf(c19SwWrappers[w].src, "("+expr+")")
}

// c19SwPositions: where the enclosing call stands. %[1]s is the result variable (defined by the
// host before the run), %[2]s the call.
var c19SwPositions = []struct{ name, src string }{
	{"assign", "%[1]s = %[2]s"},
	{"block", "if true { %[1]s = %[2]s }"},
	{"loop", "for i = 0; i < 2; i++ { %[1]s = %[2]s }"},
	{"for-in", "for i in [1, 2, 3] { %[1]s = %[2]s }"},
	{"func-return", "func f_%[1]s() { return %[2]s }\n%[1]s = f_%[1]s()"},
	{"closure", "func() { %[1]s = %[2]s }()"},
	{"array-element", "%[1]s = [0, %[2]s, 1][1]"},
	{"map-value", "%[1]s = {\"k\": %[2]s}[\"k\"]"},
	{"defer-argument", "func() { defer func(v) { %[1]s = v }(%[2]s) }()"},
	{"switch", "switch 1 { case 1: %[1]s = %[2]s }"},
	{"catch-block", "try { throw(\"t\") } catch e { %[1]s = %[2]s }"},
	{"finally-block", "try { throw(\"t\") } catch e { } finally { %[1]s = %[2]s }"},
	{"script-argument", "%[1]s = idf(%[2]s)"},
}

// c19SwNoise: statements that swallow a failure at statement level; the calls of the statements
// after them see nothing of it. %s is the failing expression.
var c19SwNoise = []struct{ name, family, src string }{
	{"earlier-coalesce", "coalesce", "%s ?? 0"},
	{"earlier-coalesce-let", "coalesce", "okv = (%s ?? 1)"},
	{"earlier-catch", "catch", "try { %s } catch e { }"},
	{"earlier-catch-func", "catch", "func() { try { %s } catch e { } }()"},
	{"earlier-catch-loop", "catch", "for i = 0; i < 3; i++ { try { %s } catch e { } }"},
}

// ---------------------------------------------------------------------------------------------
// the enclosing calls
// ---------------------------------------------------------------------------------------------

// c19SwOuter is one call of a builtin or package function: how it is spelled over argument
// texts, the Go values of its arguments, what the statement demands for them, and which argument
// positions are replaced by swallowing expressions (one script per mask).
type c19SwOuter struct {
	name  string // the builtin / package function (tags, detail)
	kind  string // signature family: builtin (fixed-arity core builtin), range (variadic core builtin), len (syntax), package
	text  func(a []string) string
	vals  []interface{}
	ref   c19Ref
	masks [][]int
}

func c19SwCallText(fn string) func(a []string) string {
	return func(a []string) string { return fn + "(" + strings.Join(a, ", ") + ")" }
}

// c19SwMasks: every single position, and all positions together.
func c19SwMasks(n int) [][]int {
	var ms [][]int
	all := make([]int, n)
	for i := 0; i < n; i++ {
		ms = append(ms, []int{i})
		all[i] = i
	}
	if n > 1 {
		ms = append(ms, all)
	}
	return ms
}

func c19SwRangeRef(args []int64) (c19Ref, bool) { return c19RangeRefMax(args, c19HistMaxLen) }

// c19RangeRefMax: the demanded result of range(args...) as a reference, for progressions of at most
// maxN elements whose successor stays inside int64 (these run in-process).
func c19RangeRefMax(args []int64, maxN int) (c19Ref, bool) {
	w := c19RangeWant(args)
	if w.excluded != "" || w.n > maxN || strings.Contains(w.class, ":wrap") {
		return c19Ref{}, false
	}
	if w.isErr {
		return c19Ref{judged: true, wantErr: true}, true
	}
	out := make([]interface{}, w.n)
	for i := range out {
		out[i] = w.at(i)
	}
	return c19Ref{judged: true, want: out}, true
}

func c19SwRangeOuter(args []int64) (c19SwOuter, bool) {
	ref, ok := c19SwRangeRef(args)
	if !ok || len(args) == 0 {
		return c19SwOuter{}, false
	}
	vals := make([]interface{}, len(args))
	for i, a := range args {
		vals[i] = a
	}
	return c19SwOuter{name: "range", kind: "range", text: c19SwCallText("range"), vals: vals, ref: ref, masks: c19SwMasks(len(args))}, true
}

func c19SwKind(b c19Builtin) string {
	if b.arity == 0 {
		return "len"
	}
	return "builtin"
}

func c19SwBuiltinOuter(b c19Builtin, v interface{}) (c19SwOuter, bool) {
	ref := b.ref(v)
	if !ref.judged {
		return c19SwOuter{}, false
	}
	return c19SwOuter{name: b.name, kind: c19SwKind(b), text: c19SwCallText(b.name), vals: []interface{}{v}, ref: ref, masks: [][]int{{0}}}, true
}

// c19SwComposed: f(g(x)) for a g whose demanded result is a plain Go value.
func c19SwComposedOuter(f, g c19Builtin, v interface{}) (c19SwOuter, bool) {
	gr := g.ref(v)
	if !gr.judged || gr.wantErr || gr.orErr {
		return c19SwOuter{}, false
	}
	switch gr.want.(type) {
	case int64, float64, string:
	default:
		return c19SwOuter{}, false
	}
	ref := f.ref(gr.want)
	if !ref.judged {
		return c19SwOuter{}, false
	}
	text := func(a []string) string { return f.name + "(" + g.name + "(" + a[0] + "))" }
	return c19SwOuter{name: f.name + "(" + g.name + ")", kind: c19SwKind(f), text: text, vals: []interface{}{v}, ref: ref, masks: [][]int{{0}}}, true
}

// the values the one-argument builtins are applied to in the deterministic part
func c19SwValues() []interface{} {
	return []interface{}{int64(65), "42", "2.5", "héllo", 2.5, nil, int32(66), true, "", []byte("hi"), []interface{}{int64(1), "a", 2.5, nil},
		map[string]interface{}{"k": int64(1), "j": "v"}, []int64{1, 2}}
}

// c19SwPkgOuters: functions of the bundled package tables called with arguments of exactly their
// parameter types (an int64 for an int parameter: the value is passed on), against the Go function.
func c19SwPkgOuters() []c19SwOuter {
	mk := func(fn string, want interface{}, vals ...interface{}) c19SwOuter {
		return c19SwOuter{name: fn, kind: "package", text: c19SwCallText(fn), vals: vals, ref: c19Ref{judged: true, want: want}, masks: c19SwMasks(len(vals))}
	}
	return []c19SwOuter{
		mk("strings.ToUpper", strings.ToUpper("héllo"), "héllo"),
		mk("strings.Repeat", strings.Repeat("ab", 3), "ab", int64(3)),
		mk("strings.Index", int64(strings.Index("hello", "l")), "hello", "l"),
		mk("strings.Replace", strings.Replace("aaa", "a", "b", 2), "aaa", "a", "b", int64(2)),
		mk("strings.Contains", strings.Contains("hello", "ell"), "hello", "ell"),
		mk("strconv.Itoa", strconv.Itoa(42), int64(42)),
		mk("strconv.FormatInt", strconv.FormatInt(255, 16), int64(255), int64(16)),
		mk("fmt.Sprint", fmt.Sprint(int64(1), "a", 2.5), int64(1), "a", 2.5),
		mk("fmt.Sprintf", fmt.Sprintf("%v-%v", int64(1), "b"), "%v-%v", int64(1), "b"),
		mk("math.Max", float64(2.5), 1.5, 2.5),
	}
}

// c19SwGroups: the deterministic part, one group (= one case) per builtin / package function.
func c19SwGroups() [][]c19SwOuter {
	var gs [][]c19SwOuter
	for _, b := range c19Builtins {
		var g, errs []c19SwOuter
		for _, v := range c19SwValues() {
			o, ok := c19SwBuiltinOuter(b, v)
			if !ok {
				continue
			}
			// the variant that gets the full cross comes first: one whose value the statement fixes
			if o.ref.wantErr || o.ref.orErr {
				errs = append(errs, o)
			} else {
				g = append(g, o)
			}
		}
		gs = append(gs, append(g, errs...))
	}
	var rg []c19SwOuter
	for _, args := range [][]int64{{1, 4}, {3}, {0, 10, 2}, {5, 1, -2}, {4, 1}, {-2, 3}, {1, 2, 0}, {1, 2, 3, 4}} {
		if o, ok := c19SwRangeOuter(args); ok {
			rg = append(rg, o)
		}
	}
	gs = append(gs, rg)
	for _, o := range c19SwPkgOuters() {
		gs = append(gs, []c19SwOuter{o})
	}
	return gs
}

// ---------------------------------------------------------------------------------------------
// building and running scripts
// ---------------------------------------------------------------------------------------------

// c19SwStmt is one statement of a script: a judged call (rvar != "") or a statement-level
// swallowed failure.
type c19SwStmt struct {
	pre  []string
	line string
	rvar string
	ref  c19Ref
	sig  string // "swallowed:<kind of the enclosing call>:<how swallowed>:<how failed>"
	defs map[string]interface{}
	tags []string
}

type c19SwRunner struct {
	c      *wk.Case
	base   *env.Env
	inners map[string][]string
	nviol  map[string]int
	seq    int
}

func c19NewSwRunner(c *wk.Case) *c19SwRunner {
	base := c19SwBase(c)
	if base == nil {
		return nil
	}
	return &c19SwRunner{c: c, base: base, inners: c19SwLiveInners(c, base), nviol: map[string]int{}}
}

// c19SwLit spells simple values as script literals.
func c19SwLit(v interface{}) (string, bool) {
	switch x := v.(type) {
	case nil:
		return "nil", true
	case bool:
		return strconv.FormatBool(x), true
	case int64:
		if x >= 0 && x < 1000000 {
			return strconv.FormatInt(x, 10), true
		}
	case float64:
		if x >= 0 && x < 1000 && x*8 == float64(int64(x*8)) && x != float64(int64(x)) {
			return strconv.FormatFloat(x, 'f', -1, 64), true
		}
	case string:
		for i := 0; i < len(x); i++ {
			ch := x[i]
			if !(ch >= 'a' && ch <= 'z' || ch >= 'A' && ch <= 'Z' || ch >= '0' && ch <= '9' || ch == ' ' || ch == '.' || ch == '-') {
				return "", false
			}
		}
		return `"` + x + `"`, true
	}
	return "", false
}

// c19SwArg describes how one argument of the enclosing call is spelled.
type c19SwArg struct {
	form    int    // index into c19SwForms; -1 = the argument as it is
	a, b    string // failing expressions
	wraps   []int  // wrappers, innermost first
	literal bool   // the fallback is a literal, not the host-bound variable
}

// stmt builds the judged statement `<position>(rvar = outer(args))`.
func (rn *c19SwRunner) stmt(o c19SwOuter, args []c19SwArg, pos int, sig string) c19SwStmt {
	rn.seq++
	rvar := "r" + strconv.Itoa(rn.seq)
	st := c19SwStmt{rvar: rvar, ref: o.ref, sig: sig, defs: map[string]interface{}{}}
	texts := make([]string, len(o.vals))
	for i, v := range o.vals {
		name := rvar + "a" + strconv.Itoa(i)
		fb := name
		lit, isLit := c19SwLit(v)
		if i < len(args) && args[i].literal && isLit {
			fb = lit
		} else {
			st.defs[name] = v
		}
		if i >= len(args) || args[i].form < 0 {
			texts[i] = fb
			continue
		}
		f := c19SwForms[args[i].form]
		pre, expr := f.build(args[i].a, args[i].b, fb, name)
		if pre != "" {
			st.pre = append(st.pre, pre)
		}
		st.tags = append(st.tags, "sw:form:"+f.name)
		for _, w := range args[i].wraps {
			expr = c19SwWrap(w, expr)
			st.tags = append(st.tags, "sw:wrap:"+c19SwWrappers[w].name)
		}
		texts[i] = expr
	}
	st.line = fmt.Sprintf(c19SwPositions[pos].src, rvar, o.text(texts))
	st.tags = append(st.tags, "sw:pos:"+c19SwPositions[pos].name, "sw:outer:"+o.name)
	return st
}

func (rn *c19SwRunner) violation(sig, detail string, input interface{}) {
	c19CappedViolation(rn.c, rn.nviol, sig, detail, input)
}

// c19CappedViolation writes out at most three witnesses per signature and case (one defect of these
// phases refutes hundreds of scripts of a case); the others are counted.
func c19CappedViolation(c *wk.Case, seen map[string]int, sig, detail string, input interface{}) {
	seen[sig]++
	if seen[sig] > 3 {
		c.Count("r7-violations-not-written-out", 1)
		return
	}
	c.Violation(sig, detail, input)
}

// run executes the statements as ONE script in a child of the base environment and judges every
// result variable against its reference.
func (rn *c19SwRunner) run(stmts []c19SwStmt) {
	c := rn.c
	e := rn.base.NewEnv()
	defs := map[string]string{}
	var lines []string
	judged := 0
	for _, s := range stmts {
		for k, v := range s.defs {
			e.Define(k, v)
			defs[k] = c19Clip(ank.Render(v), 200)
		}
		if s.rvar != "" {
			e.Define(s.rvar, c19Unset{})
			judged++
		}
		lines = append(lines, s.pre...)
		lines = append(lines, s.line)
		c.Tag(s.tags...)
	}
	src := strings.Join(lines, "\n")
	input := map[string]interface{}{"src": src, "defs": defs, "prelude": c19SwPrelude}
	c.Begin(input)
	o := ank.Exec(e, src)
	c.Events(judged)
	dk := make([]string, 0, len(defs))
	for k, v := range defs {
		dk = append(dk, k+"="+v)
	}
	sort.Strings(dk)
	c.Eval("sw|"+src+"|"+strings.Join(dk, ","), true)

	// the first judged statement whose variable was never assigned: where the run ended
	firstUnset := -1
	vals := make([]interface{}, len(stmts))
	for i, s := range stmts {
		if s.rvar == "" {
			continue
		}
		v, err := e.Get(s.rvar)
		if _, unset := v.(c19Unset); err != nil || unset {
			firstUnset = i
			break
		}
		vals[i] = v
	}
	if c.WantSample() && len(stmts) > 1 {
		c.Sample(map[string]interface{}{"src": src, "defs": defs, "err": ank.ErrText(o.Err)})
	}
	if o.Panicked {
		sig := "swallowed:script"
		if firstUnset >= 0 {
			sig = stmts[firstUnset].sig
		}
		rn.violation(sig+":panic", "panic out of vm.Execute: "+o.PanicVal+" ("+o.PanicSig+")", input)
		return
	}
	for i, s := range stmts {
		if s.rvar == "" || (firstUnset >= 0 && i >= firstUnset) {
			continue
		}
		switch {
		case s.ref.wantErr:
			rn.violation(s.sig+":noerror", fmt.Sprintf("%s: misuse not reported as an error; got %s", s.line, c19Clip(ank.Render(vals[i]), 300)), input)
		default:
			if ok, why := c19Same(vals[i], s.ref.want); !ok {
				rn.violation(s.sig+":"+why, fmt.Sprintf("%s: got %s, want %s (what the call gives for the arguments the script wrote)", s.line, c19Clip(ank.Render(vals[i]), 300), c19RenderWant(s.ref.want)), input)
			}
		}
	}
	switch {
	case o.Err != nil && firstUnset < 0:
		// every judged call returned; the failure is in a statement-level swallow, which C19 does not judge
		c.Inconclusive("swallowed-script-failed-outside-judged-call", o.Err.Error(), input)
	case o.Err != nil:
		s := stmts[firstUnset]
		if !s.ref.wantErr && !s.ref.orErr {
			rn.violation(s.sig+":error", fmt.Sprintf("%s: unexpected error %q, want %s", s.line, o.Err.Error(), c19RenderWant(s.ref.want)), input)
		}
	case firstUnset >= 0:
		c.Inconclusive("swallowed-result-not-assigned", stmts[firstUnset].line, input)
	}
}

func (rn *c19SwRunner) sig(outer, how, failed string) string {
	return "swallowed:" + outer + ":" + how + ":" + failed
}

// ---------------------------------------------------------------------------------------------
// the deterministic part: one group per case
// ---------------------------------------------------------------------------------------------

// c19SwGrid: for the group's first variant and first mask every form x every failing expression
// (the full cross); for every other variant and mask every form x one failing expression of every
// family (rotating). Wrappers and positions rotate with strides co-prime to their counts, so all
// pairs (form, wrapper), (form, position), (failing expression, position) ... occur. Then every
// variant as a plain call after every statement-level swallow of every failing expression.
func c19SwGrid(c *wk.Case, group []c19SwOuter) {
	rn := c19NewSwRunner(c)
	if rn == nil {
		return
	}
	k := 0
	one := func(o c19SwOuter, mask []int, fi int, fam, a, b string) {
		f := c19SwForms[fi]
		args := make([]c19SwArg, len(o.vals))
		for i := range args {
			args[i].form = -1
		}
		for _, p := range mask {
			args[p] = c19SwArg{form: fi, a: a, b: b, literal: k%5 == 4}
			if w := (k * 3) % len(c19SwWrappers); w != 0 {
				args[p].wraps = []int{w}
			}
		}
		pos := (k * 5) % len(c19SwPositions)
		k++
		c.Tag("sw:inner:" + fam)
		rn.run([]c19SwStmt{rn.stmt(o, args, pos, rn.sig(o.kind, f.family, fam))})
	}
	for vi, o := range group {
		for mi, mask := range o.masks {
			for fi := range c19SwForms {
				for _, fam := range c19SwInnerFamilies {
					ins := rn.inners[fam]
					if len(ins) == 0 {
						continue
					}
					if vi == 0 && mi == 0 {
						for ii, a := range ins {
							one(o, mask, fi, fam, a, ins[(ii+1)%len(ins)])
						}
						continue
					}
					ii := (vi + mi + fi) % len(ins)
					one(o, mask, fi, fam, ins[ii], ins[(ii+1)%len(ins)])
				}
			}
		}
	}
	// plain calls after statement-level swallows (same run)
	for vi, o := range group {
		for ni, nz := range c19SwNoise {
			for _, fam := range c19SwInnerFamilies {
				ins := rn.inners[fam]
				for ii, a := range ins {
					if vi > 0 && ii != (vi+ni)%len(ins) {
						continue
					}
					noise := c19SwStmt{line: fmt.Sprintf(nz.src, a), tags: []string{"sw:noise:" + nz.name, "sw:inner:" + fam}}
					pos := (k * 5) % len(c19SwPositions)
					k++
					rn.run([]c19SwStmt{noise, rn.stmt(o, nil, pos, rn.sig(o.kind, "earlier-"+nz.family, fam))})
				}
			}
		}
	}
	c.Count("swallowed-grid-scripts", k)
}

// ---------------------------------------------------------------------------------------------
// the PRNG part
// ---------------------------------------------------------------------------------------------

func c19SwPick(r *rand.Rand, xs []string) string { return xs[r.Intn(len(xs))] }

// c19SwRandOuter draws an enclosing call.
func c19SwRandOuter(r *rand.Rand) (c19SwOuter, bool) {
	randVal := func() interface{} {
		switch r.Intn(8) {
		case 0:
			return c19RandNumeral(r)
		case 1:
			return c19RandString(r)
		case 2:
			return c19RandIfaceSlice(r, 1)
		case 3:
			return c19RandMap(r)
		case 4:
			return c19RandInt64(r)
		case 5:
			vs := c19SwValues()
			return vs[r.Intn(len(vs))]
		}
		return c19RandScalar(r)
	}
	switch k := r.Intn(20); {
	case k < 8:
		return c19SwBuiltinOuter(c19Builtins[r.Intn(len(c19Builtins))], randVal())
	case k < 13:
		args := make([]int64, 1+r.Intn(3))
		for i := range args {
			args[i] = int64(r.Intn(19) - 6)
		}
		if len(args) == 3 && r.Intn(6) != 0 {
			for args[2] == 0 {
				args[2] = int64(r.Intn(9) - 4)
			}
		}
		return c19SwRangeOuter(args)
	case k < 17:
		ps := c19SwPkgOuters()
		return ps[r.Intn(len(ps))], true
	}
	gs := []string{"toInt", "toFloat", "toString", "typeOf", "kindOf"}
	return c19SwComposedOuter(c19Builtins[r.Intn(len(c19Builtins))], c19BuiltinByName(gs[r.Intn(len(gs))]), randVal())
}

// c19SwRandom: scripts of 1..5 statements; every judged statement replaces a random non-empty set
// of the arguments of its call by swallowing expressions of ONE family around failing expressions
// of ONE family (the signature names both), under 0..2 value-keeping wrappers, in a random
// position; statement-level swallows stand between them, and plain calls follow those.
func c19SwRandom(c *wk.Case) {
	r := c.Rng
	rn := c19NewSwRunner(c)
	if rn == nil {
		return
	}
	var fams []string
	for _, f := range c19SwInnerFamilies {
		if len(rn.inners[f]) > 0 {
			fams = append(fams, f)
		}
	}
	if len(fams) == 0 {
		return
	}
	pickFam := func() string {
		if len(rn.inners["late"]) > 0 && r.Intn(5) < 2 {
			return "late"
		}
		return fams[r.Intn(len(fams))]
	}
	for script := 0; script < 60; script++ {
		n := 1 + r.Intn(5)
		var stmts []c19SwStmt
		lastNoise := -1
		lastNoiseFam := ""
		for len(stmts) < n {
			if r.Intn(4) == 0 {
				ni := r.Intn(len(c19SwNoise))
				fam := pickFam()
				stmts = append(stmts, c19SwStmt{line: fmt.Sprintf(c19SwNoise[ni].src, c19SwPick(r, rn.inners[fam])), tags: []string{"sw:noise:" + c19SwNoise[ni].name, "sw:inner:" + fam}})
				lastNoise, lastNoiseFam = ni, fam
				continue
			}
			o, ok := c19SwRandOuter(r)
			if !ok {
				continue
			}
			last := o.ref.wantErr || o.ref.orErr // a call that may fail ends the script
			pos := r.Intn(len(c19SwPositions))
			if lastNoise >= 0 && r.Intn(2) == 0 {
				stmts = append(stmts, rn.stmt(o, nil, pos, rn.sig(o.kind, "earlier-"+c19SwNoise[lastNoise].family, lastNoiseFam)))
			} else {
				ffam := c19SwFormFamilies[r.Intn(len(c19SwFormFamilies))]
				ifam := pickFam()
				args := make([]c19SwArg, len(o.vals))
				for i := range args {
					args[i] = c19SwArg{form: -1, literal: r.Intn(3) == 0}
				}
				mask := []int{r.Intn(len(o.vals))}
				for i := range o.vals {
					if i != mask[0] && r.Intn(3) == 0 {
						mask = append(mask, i)
					}
				}
				for _, p := range mask {
					fi := r.Intn(len(c19SwForms))
					for c19SwForms[fi].family != ffam {
						fi = r.Intn(len(c19SwForms))
					}
					args[p].form = fi
					args[p].a, args[p].b = c19SwPick(r, rn.inners[ifam]), c19SwPick(r, rn.inners[ifam])
					for d := r.Intn(3); d > 0; d-- {
						args[p].wraps = append(args[p].wraps, 1+r.Intn(len(c19SwWrappers)-1))
					}
				}
				c.Tag("sw:inner:" + ifam)
				stmts = append(stmts, rn.stmt(o, args, pos, rn.sig(o.kind, ffam, ifam)))
			}
			lastNoise = -1
			if last {
				break
			}
		}
		rn.run(stmts)
		c.Count("swallowed-random-scripts", 1)
	}
}

func c19SwallowedCase(c *wk.Case) {
	groups := c19SwGroups()
	if c.Index < len(groups) {
		c19SwGrid(c, groups[c.Index])
		return
	}
	c19SwRandom(c)
}

// ---------------------------------------------------------------------------------------------
// sizes: lengths at and around powers of two
// ---------------------------------------------------------------------------------------------

var c19SizesQuick = []int{0, 1, 2, 255, 256, 257, 4094, 4095, 4096, 4097, 4098, 65535, 65536, 65537}
var c19SizesThorough = append(append([]int{}, c19SizesQuick...), 1023, 1024, 1025, 32767, 32768, 32769, 262143, 262144, 262145, 1<<20-1, 1<<20, 1<<20+1)

func c19Sizes(tier string) []int {
	if tier == "thorough" {
		return c19SizesThorough
	}
	return c19SizesQuick
}

// c19SizedValues builds the containers of length n: Go values, and script expressions whose value
// the host reads back.
func c19SizedValues(n int) []c19Val {
	var u []c19Val
	g := func(name string, v interface{}) { u = append(u, c19Val{name: name, v: v}) }
	ascii := strings.Repeat("a", n)
	g("string-ascii", ascii)
	g("string-multibyte", strings.Repeat("é", n/2)+strings.Repeat("z", n%2)) // n BYTES: len counts bytes
	g("string-named", c19Str(ascii))
	g("bytes", []byte(ascii))
	rs := make([]rune, n)
	is := make([]interface{}, n)
	i64 := make([]int64, n, n+37)
	ss := make([]string, n)
	for i := 0; i < n; i++ {
		rs[i] = rune('a' + i%26)
		is[i] = int64(i)
		i64[i] = int64(i)
		ss[i] = "s"
	}
	g("runes", rs)
	g("slice-iface", is)
	g("slice-int64-spare-capacity", i64)
	g("slice-string", ss)
	g("slice-view", append(make([]int64, 0, 2*n+3), make([]int64, n+3)...)[3:n+3])
	g("array", reflect.New(reflect.ArrayOf(n, reflect.TypeOf(int64(0)))).Elem().Interface())
	msi := make(map[string]interface{}, n)
	mib := map[int64]bool{}
	mii := map[interface{}]interface{}{}
	mk := map[c19Key]int{}
	for i := 0; i < n; i++ {
		msi["k"+strconv.Itoa(i)] = int64(i)
		mib[int64(i)*7-3] = i%2 == 0
		if i%2 == 0 {
			mii[int64(i)] = i
		} else {
			mii[strconv.Itoa(i)] = i
		}
		mk[c19Key{int64(i), "k"}] = i
	}
	g("map-string-iface", msi)
	g("map-int64-bool", mib)
	g("map-iface-iface", mii)
	g("map-struct-key", mk)
	fill := func(capn, k int) chan int64 {
		ch := make(chan int64, capn)
		for i := 0; i < k; i++ {
			ch <- int64(i)
		}
		return ch
	}
	g("chan-full", fill(n, n))
	g("chan-spare-capacity", fill(n+5, n))
	if n > 0 {
		g("chan-one-short", fill(n, n-1))
		g("chan-empty", fill(n, 0))
	}
	N := strconv.Itoa(n)
	s := func(name, src string) { u = append(u, c19Val{name: name, src: src}) }
	s("script-make-slice", "make([]int64, "+N+")")
	s("script-make-strings", "make([]string, "+N+")")
	s("script-make-bytes", "make([]byte, "+N+")")
	s("script-make-list", "make([]interface, "+N+")")
	s("script-make-spare-capacity", "make([]int64, "+N+", "+strconv.Itoa(2*n+1)+")")
	s("script-slice-of-list", "make([]int64, "+strconv.Itoa(n+9)+")[4:"+strconv.Itoa(n+4)+"]")
	s("script-converted-bytes", "toByteSlice(import(\"strings\").Repeat(\"a\", "+N+"))")
	if n <= 5000 {
		s("script-grown-string", "func() { b = \"\"; for i = 0; i < "+N+"; i++ { b += \"y\" }; return b }()")
		s("script-typed-map", "func() { m = make(map[string]int64); for i = 0; i < "+N+"; i++ { m[toString(i)] = i }; return m }()")
	}
	s("script-filled-chan", "func() { ch = make(chan int64, "+N+"); for i = 0; i < "+N+"; i++ { ch <- i }; return ch }()")
	s("script-filled-map", "func() { m = {}; for i = 0; i < "+N+"; i++ { m[i] = i }; return m }()")
	s("script-appended-slice", "func() { a = []; for i = 0; i < "+N+"; i++ { a += i }; return a }()")
	if n <= c19MaxLen {
		s("script-range", "range("+N+")")
	}
	s("script-repeat", "import(\"strings\").Repeat(\"ab\", "+strconv.Itoa(n/2)+") + import(\"strings\").Repeat(\"c\", "+strconv.Itoa(n%2)+")")
	return u
}

// c19EvalForms: where a builtin call whose result sits at a boundary is evaluated. A panic of the
// VM leaves vm.Execute at statement level and comes back as the error of the call inside a script
// function; both are judged. %s is the call.
var c19EvalForms = []struct{ name, src string }{
	{"statement", "%s"},
	{"function", "func f() { return %s }\nf()"},
	{"let", "n = %s\nn"},
	{"element", "[%s][0]"},
	{"closure-argument", "func(v) { return v }(%s)"},
}

// c19JudgeForms runs the call in the first nforms evaluation forms in e and judges what comes back.
func c19JudgeForms(c *wk.Case, seen map[string]int, e *env.Env, call string, ref c19Ref, sig, hash string, in map[string]string, nforms int) {
	for fi, form := range c19EvalForms {
		if fi >= nforms {
			break
		}
		src := fmt.Sprintf(form.src, call)
		input := map[string]string{"src": src, "form": form.name}
		for k, v := range in {
			if k != "src" {
				input[k] = v
			}
		}
		c.Begin(input)
		o := ank.Exec(e, src)
		c.Events(1)
		c.Eval(hash+"|"+src, ref.judged)
		c.Tag("size:form:" + form.name)
		switch {
		case o.Panicked:
			c19CappedViolation(c, seen, sig+":panic", "panic out of vm.Execute: "+o.PanicVal+" ("+o.PanicSig+")", input)
		case !ref.judged:
		case ref.wantErr:
			if o.Err == nil {
				c19CappedViolation(c, seen, sig+":noerror", "misuse not reported as an error; got "+c19Clip(ank.Render(o.Val), 200), input)
			}
		case o.Err != nil:
			if !ref.orErr {
				c19CappedViolation(c, seen, sig+":error", fmt.Sprintf("unexpected error %q, want %s", o.Err.Error(), c19Clip(c19RenderWant(ref.want), 200)), input)
			}
		default:
			if ok, why := c19Same(o.Val, ref.want); !ok {
				c19CappedViolation(c, seen, sig+":"+why, fmt.Sprintf("got %s, want %s", c19Clip(ank.Render(o.Val), 200), c19Clip(c19RenderWant(ref.want), 200)), input)
			}
		}
	}
}

// c19SizesCase: every container kind at length n under the builtins whose result depends on the
// length alone or on every element (len, keys, typeOf, kindOf, the byte/rune slice forms and
// toString of strings), at statement level and inside a script function (len: in every evaluation
// form). The input names kind and length instead of rendering 65537 elements.
func c19SizesCase(c *wk.Case, n int) {
	seen := map[string]int{}
	for _, val := range c19SizedValues(n) {
		e := ank.NewCoreEnv()
		var xv interface{}
		in := map[string]string{"x_kind": val.name, "x_len": strconv.Itoa(n), "x_from": val.src}
		if val.src != "" {
			in["src"] = "x = " + val.src
			c.Begin(in)
			o := ank.Exec(e, "x = "+val.src)
			if o.Err != nil || o.Panicked {
				c.Inconclusive("size-value-setup-failed", val.src+": "+ank.ErrText(o.Err)+o.PanicVal, in)
				continue
			}
			var err error
			if xv, err = e.Get("x"); err != nil {
				c.Inconclusive("size-value-setup-failed", val.src+": "+err.Error(), in)
				continue
			}
		} else {
			xv = val.v
			if err := e.Define("x", xv); err != nil {
				c.Inconclusive("size-value-setup-failed", err.Error(), in)
				continue
			}
		}
		in["x_type"] = fmt.Sprint(reflect.TypeOf(xv))
		names := []string{"len", "typeOf", "kindOf"}
		xkind := reflect.ValueOf(xv).Kind().String() // signature family: string, slice, array, map, chan
		switch reflect.ValueOf(xv).Kind() {
		case reflect.Map:
			names = append(names, "keys")
		case reflect.String:
			if _, plain := xv.(string); plain {
				names = append(names, "toByteSlice", "toRuneSlice", "toString")
			}
		}
		for _, name := range names {
			b := c19BuiltinByName(name)
			ref := b.ref(xv)
			if name == "len" && val.src != "" && val.name != "script-range" {
				// a script-built container: the length the script asked for (not the length it happens to
				// have: the reference would otherwise follow a wrong make/append)
				ref = c19Ref{judged: true, want: int64(n)}
			}
			nforms := 2
			if name == "len" {
				nforms = len(c19EvalForms)
			} else if n > 5000 {
				nforms = 1 // the large element-wise results once
			}
			c.Tag("size:" + name + ":" + val.name)
			c19JudgeForms(c, seen, e, b.call, ref, "size:"+name+":"+xkind, "size|"+val.name+"|"+strconv.Itoa(n), in, nforms)
		}
		if reflect.ValueOf(xv).Kind() == reflect.Map && n <= 5000 {
			// the key list of a map of n entries has n elements
			c19JudgeForms(c, seen, e, "len(keys(x))", c19Ref{judged: true, want: int64(reflect.ValueOf(xv).Len())}, "size:len-of-keys:"+xkind, "size|lenkeys|"+val.name+"|"+strconv.Itoa(n), in, 2)
		}
	}
}

// ---------------------------------------------------------------------------------------------
// sizes: results at the boundaries
// ---------------------------------------------------------------------------------------------

// c19BoundaryInts: the integers next to -1, 0, 2^8, 2^12 and 2^16 (results that an interpreter may
// box, cache or narrow differently on the two sides).
var c19BoundaryInts = []int64{-3, -2, -1, 0, 1, 2, 127, 128, 255, 256, 257, 4094, 4095, 4096, 4097, 4098, 32767, 32768, 65535, 65536, 65537}

// c19BoundaryCase: every builtin whose RESULT is (or holds) an integer at a boundary: toInt /
// toFloat / toString of numbers and numerals, toRune / toChar of the code point, the typed-slice
// forms over neighbouring numbers, keys of a map with that key, range progressions whose length is
// the boundary or whose elements cross it (ascending, descending, with a step), and len of a
// range result; every call in every evaluation form.
func c19BoundaryCase(c *wk.Case) {
	seen := map[string]int{}
	one := func(name, class, call string, x interface{}, ref c19Ref) {
		e := ank.NewCoreEnv()
		if err := e.Define("x", x); err != nil {
			c.Inconclusive("size-value-setup-failed", err.Error(), call)
			return
		}
		in := map[string]string{"x": c19Clip(ank.Render(x), 300), "x_type": fmt.Sprint(reflect.TypeOf(x))}
		c.Tag("boundary:" + name + ":" + class)
		c19JudgeForms(c, seen, e, call, ref, "boundary:"+name+":"+class, "boundary|"+in["x"]+"|"+in["x_type"], in, len(c19EvalForms))
	}
	builtin := func(name string, x interface{}) {
		b := c19BuiltinByName(name)
		one(name, c19Class(x), b.call, x, b.ref(x))
	}
	for _, v := range c19BoundaryInts {
		dec := strconv.FormatInt(v, 10)
		for _, x := range []interface{}{v, float64(v), float64(v) + 0.5, float32(v), dec, dec + ".0", dec + ".75", c19Str(dec), int32(v), int(v)} {
			builtin("toInt", x)
			builtin("toFloat", x)
			builtin("toString", x)
		}
		if v >= 0 {
			for _, x := range []interface{}{uint16(v), uint32(v), uint64(v)} {
				builtin("toInt", x)
				builtin("toFloat", x)
			}
			builtin("toChar", v)
			builtin("toChar", int32(v))
		}
		if v > 0 && !(v >= 0xD800 && v <= 0xDFFF) {
			s := string(rune(v))
			builtin("toRune", s)
			builtin("toRune", s+"a")
			builtin("toRuneSlice", string([]rune{rune(v - 1), rune(v), rune(v + 1)}))
			builtin("len", s)
		}
		near := []interface{}{v - 1, v, v + 1, float64(v), float64(v) + 0.5, int32(v), nil, "s"}
		builtin("toIntSlice", near)
		builtin("toFloatSlice", near)
		builtin("len", near)
		builtin("keys", map[int64]bool{v: true})
		builtin("keys", map[interface{}]interface{}{v: "a", float64(v): "b", dec: "c"})
		builtin("keys", map[string]interface{}{dec: v})

		// range: the boundary as length, as first / last / inner element, ascending, descending, stepping
		var tuples [][]int64
		if v >= 0 {
			tuples = append(tuples, []int64{v}, []int64{0, v}, []int64{0, v, 1}, []int64{v, 0, -1}, []int64{1, v + 1}, []int64{-v, 0})
		}
		tuples = append(tuples, []int64{v - 2, v + 3}, []int64{v + 2, v - 3, -1}, []int64{v, v + 1}, []int64{v - 1, v}, []int64{v, v}, []int64{v - 4, v + 5, 2}, []int64{v - 4, v + 5, 4},
			[]int64{v + 4, v - 5, -4}, []int64{v, v + 3*4096, 4096}, []int64{v - 3*4096, v + 1, 4096})
		for _, args := range tuples {
			ref, ok := c19RangeRefMax(args, c19MaxLen)
			if !ok {
				continue
			}
			e := ank.NewCoreEnv()
			var parts []string
			for i, a := range args {
				nm := string(rune('a' + i))
				e.Define(nm, a)
				parts = append(parts, nm)
			}
			call := "range(" + strings.Join(parts, ", ") + ")"
			in := map[string]string{"args": fmt.Sprint(args)}
			c.Tag("boundary:range")
			c19JudgeForms(c, seen, e, call, ref, "boundary:range:"+c19RangeWant(args).class, "boundary|range|"+fmt.Sprint(args), in, len(c19EvalForms))
			if !ref.wantErr {
				n := int64(len(ref.want.([]interface{})))
				c19JudgeForms(c, seen, e, "len("+call+")", c19Ref{judged: true, want: n}, "boundary:len-of-range", "boundary|lenrange|"+fmt.Sprint(args), in, len(c19EvalForms))
			}
		}
	}
}
