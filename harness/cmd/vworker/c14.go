package main

// C14 — runs are isolated and repeatable; executing a tree never changes it.
// Monitor: a reflection dump of the parsed tree (every field, literal values,
// CallExpr.Func validity, slice lengths and capacities, positions) before and
// after every run; observation equality (value, error text, probe trace)
// between a solo run and repeated / concurrent runs of ONE shared tree on
// fresh environments; canaries on process-global interpreter state; the race
// detector in the concurrent phase. Phase hist (c14_hist.go): every program's
// observation in a process with a history equals its observation alone in a
// fresh child process. Phase iso (c14_iso.go): module copies and Env.Copy /
// Env.DeepCopy copies never observe each other's bindings. c14_env.go: programs
// whose environment the host prepares (type bindings, float32 values, a meeting
// point for concurrent runs), one tree run in environments of different kinds.
// c14_r5.go (phase shared and the tail of phase conc): parenthesised nested targets,
// types declared in nested scopes, function values shared by concurrent runs, one
// tree run on differing host data.
// c14_r6.go (phase r6): map keys whose hashability depends on the data behind an
// interface-typed field (one tree on differing data, in both orders; different programs
// over one key type), files rewritten between two runs that `load` them.

import (
	"fmt"
	"strings"
	"sync"
	"time"

	"github.com/mattn/anko/ast"
	"github.com/mattn/anko/env"
	_ "github.com/mattn/anko/packages"

	"verifharness/internal/ank"
	"verifharness/internal/astx"
	"verifharness/internal/corpus"
	"verifharness/internal/fw"
	"verifharness/internal/gen"
	"verifharness/internal/realrun"
	"verifharness/internal/wk"
)

// feature programs aimed at the per-node runtime data and process-global state
var c14BaseFeatures = []string{
	"func f(a, b) { return a + b }\nrd(\"r\", f(1, 2))\nrd(\"r\", f(3, 4))",
	"f = func(a) { return a * 2 }\nrd(\"r\", f(2))\nrd(\"r\", (func(a) { return a })(5))",
	"x = 1\nx++\nx++\nx--\nrd(\"x\", x)\ny = 4094\ny++\ny++\nrd(\"y\", y)",
	"s = 0\nfor i = 0; i < 5; i++ { s += i }\nrd(\"s\", s)",
	"a = [1, 2, 3]\na[0]++\na[1] += 10\nrd(\"a\", a)",
	"m = {\"k\": 1}\nm.k++\nm[\"j\"] = 2\nrd(\"m\", m)",
	"defer h1(1)\ndefer func() { p(2) }()\nfunc g() { defer h2(3, 4)\n return 5 }\nrd(\"g\", g())",
	"rd(\"i\", -1 + 0)\nrd(\"i\", 4095 + 0)\nrd(\"i\", 4096 - 1)\nrd(\"i\", 2047 * 2)\nrd(\"i\", 4094 + 1 + 1)",
	"rd(\"l\", [1, 2.5, \"s\", true, nil, 0x10, 0b11, 1e3])",
	"strs = import(\"strings\")\nr = strs.ToLower(\"AB\")\nstrs.ToLower = 5\nrd(\"r\", r)\nrd(\"t\", strs.ToLower)",
	"st = import(\"strconv\")\nr = st.Itoa(42)\nst.Itoa = nil\nrd(\"r\", r)",
	"import(\"strings\").ToLower = 5\nimport(\"strings\").Title = nil\nrd(\"r\", import(\"strings\").ToLower(\"AB\") ?? \"failed\")",
	"var s1 = import(\"strings\")\ns1.ToLower = s1.ToUpper\nfunc g(m) { m.TrimSpace = 1\n return 0 }\ng(import(\"strings\"))\nrd(\"r\", [import(\"strings\").ToLower(\"Ab\"), import(\"strings\").TrimSpace(\" x \")])",
	"srt = import(\"sort\")\na = [3, 1, 2]\nsrt.Slice(a, func(i, j) { return a[i] < a[j] })\nrd(\"a\", a)",
	"module M { x = 1\n func inc() { x++\n return x } }\nrd(\"a\", M.inc())\nrd(\"b\", M.inc())\nrd(\"x\", M.x)",
	"a = []int64{1, 2}\nb = map[string]int64{\"k\": 1}\na[0] = 5\nb.k = 7\nrd(\"a\", toIntSlice([a[0], a[1]]))\nrd(\"b\", b.k)",
	"make(type T, 1)\nv = make(T)\nw = make([]T, 2)\nrd(\"v\", v)\nrd(\"w\", len(w))",
	"s = make(struct{A int64, B string})\ns.A = 3\ns.B = \"x\"\nrd(\"A\", s.A)\nrd(\"B\", s.B)",
	"try { throw \"T1\" } catch e { pc(e) } finally { p(1) }\ntry { [1][5] } catch e { pc(e) }",
	"switch 2 { case 1: p(1)\ncase 2, 3: p(2)\ndefault: p(3) }",
	"c = make(chan int64, 2)\nc <- 1\nc <- 2\nrd(\"a\", <- c)\nv, ok = <- c\nrd(\"v\", v)\nrd(\"ok\", ok)\nclose(c)",
	"f = func(a...) { return len(a) }\nrd(\"n\", f(1, 2, 3))\nrd(\"n\", f([1, 2]...))\nrd(\"n\", hv(1, 2, 3))",
	"x = nil ?? 5\ny = (zz_undefined ?? 6)\nz = true ? 1 : 2\nrd(\"x\", [x, y, z])",
	"a = \"abc\"\nrd(\"s\", a[1:])\nrd(\"c\", a[0])\nb = [1, 2, 3, 4]\nrd(\"b\", b[1:3])\nrd(\"in\", 2 in b)\nrd(\"len\", len(b))",
	"p1 = new(int64)\n*p1 = 5\nrd(\"p\", *p1)\nx = 1\nq = &x\nrd(\"q\", *q)",
	"a = nil\np1 = &a\n*p1 = 5\nb = nil\nrd(\"nil\", [a, b, nil])\nq = &nil\n*q = 6\nrd(\"nil2\", [nil, vnone ?? nil])",
	"l = [1, 2, 3]\nl[0], l[2] = l[2], l[0]\nrd(\"l\", l)\nt = []string{\"ab\", \"cd\"}\nfor v in t { v[0] = \"Q\" }\nrd(\"t\", toStringSlice([t[0], t[1]]))",
	"p1 = &(2 + 3)\n*p1 = *p1 + 1\nrd(\"p\", *p1)\nrd(\"five\", 2 + 3)\nn = &len([1, 2, 3])\n*n = 1000\nrd(\"len\", len([7, 8, 9]))",
	"x = 7\nq = &(-x)\n*q = 99\nrd(\"neg\", -x)\nr = &(x * 1)\n*r = 55\nrd(\"x\", [x, x * 1, 6 + 1])\ny = 10\nz = &(y++)\n*z = 0\nrd(\"y\", [y, 10 + 1])",
	"func fib(n) { if n < 2 { return n }\n return fib(n - 1) + fib(n - 2) }\nrd(\"fib\", fib(12))",
	"func mk(s) { var c = s\n return func() { c++\n return c } }\na = mk(10)\nb = mk(20)\nrd(\"r\", [a(), b(), a(), a(), b()])",
	"s = 0\nfor i = 0; i < 300; i++ { s = s + 5000 + i * 256 }\nrd(\"s\", s)\nrd(\"m\", [70000 * 3, 1 << 40, -5000 - 1, 123456 % 100000, 5000 | 3, 4096 + 4096, ^5000, 9000 - 1])",
	"m = {\"a\": 1, \"b\": 2, \"c\": 3, \"d\": 4}\nn = 0\nfor k, v in m { m[k + \"x\"] = v\n n++ }\nrd(\"n\", n)\nrd(\"len\", len(m))",
	"m = {}\nfor i = 0; i < 12; i++ { m[toString(i)] = i }\nn = 0\nfor k in m { for j = 0; j < 4; j++ { m[k + \"-\" + toString(j)] = j }\n n++ }\nrd(\"n\", n)\nrd(\"len\", len(m))",
	"delete(\"zz\")\nm = {\"a\": 1, \"b\": 2}\ndelete(m, \"a\")\nrd(\"m\", m)\nrd(\"k\", len(keys(m)))",
}

// c14PendingFix_convertMapCollision: on the unchanged tree convertMap (vm/vmConvertToXGo112.go)
// ranges over the SOURCE map when it converts a script map to a typed Go map, so when two keys
// collide after conversion (1 and 1.5 both become int64 1) the surviving entry follows Go's
// randomised map iteration: `a = []map[int64]string{{1: "a", 1.5: "b", 1.25: "c"}}; a[0][1]`
// yields "a", "b" or "c" from run to run although the script iterates no map. That violates
// "always produces the same value" (see /tmp/strengthen/C14-genuine.md); until /repo is repaired
// the programs below stay out of the feature list. Flip to false after the repair.
const c14PendingFix_convertMapCollision = false

// typed-map conversions whose keys collide after conversion
var c14CollidingMapFeatures = []string{
	"a = []map[int64]string{{1: \"a\", 1.5: \"b\", 1.25: \"c\"}}\nrd(\"e\", a[0][1] ?? \"refused\")",
	"m = {1: \"a\", 1.5: \"b\", 1.75: \"c\", 1.125: \"d\"}\nx = []map[int64]string{m} ?? \"refused\"\nrd(\"x\", x)",
	"m = {2.5: 1, 2.25: 2, 2: 3, 3: 4}\nx = [][]map[int32]float64{{m}} ?? \"refused\"\nrd(\"x\", x)",
}

var c14Features = func() []string {
	f := append([]string(nil), c14BaseFeatures...)
	if !c14PendingFix_convertMapCollision {
		f = append(f, c14CollidingMapFeatures...)
	}
	// c14_env.go: float32 equality, call nesting, type names bound by the script
	f = append(f, c14Float32Programs...)
	f = append(f, c14ErrorThenDeepPrograms...)
	f = append(f, c14DeepRecursion(2500)[:3]...)
	f = append(f, c14ErrorExitPrograms[0], c14ErrorExitPrograms[4])
	f = append(f, c14ScriptTypePrograms()[:6]...)
	if !c14PendingFix_cancelSelectRace {
		f = append(f, c14CancelSelectPrograms...)
	}
	// c14_r5.go: parenthesised nested targets, types declared in nested scopes, one
	// function value called from several goroutines of a run
	f = append(f, c14R5Features()...)
	// c14_r9.go: the run's context cancelled while an operand of a ready channel expression is evaluated
	f = append(f, c14R9CancelOperandPrograms...)
	return f
}()

// c14ParseFaultTails are appended to valid programs: faults the parser reports only after it has read
// (and built a tree for) everything before them - through the grammar's error rules, the lexer's
// number conversion, or plain syntax errors at the end of a long valid prefix.
var c14ParseFaultTails = []string{
	"switch 1 {\ndefault:\n 1\ndefault:\n 2\n}",
	"if true { } else { } else { }",
	"zz9 = 99999999999999999999999",
	"zz9 = 7e9999",
	"zz9 = 0x8000000000000123456",
	"zz9 = 3..25",
	"= 1",
	"zz9 = (1 + ",
	"zz9 = [1, 2",
	"func zz9( {",
	"zz9 = \"unterminated",
	"for { break ",
	"zz9 = 1 2",
	"1++ = 2",
	"}",
}

type c14Obs struct {
	trace   string
	gtrace  string
	value   string
	err     string
	timeout bool
}

func c14Observe(r realrun.Real) c14Obs {
	g := append([]string(nil), r.GTrace...)
	sortStrings(g)
	return c14Obs{trace: strings.Join(realrun.Canon(r.Trace), "\n"), gtrace: strings.Join(g, "\n"), value: r.Value, err: r.ErrText, timeout: r.TimedOut || r.Overflow || r.Unsettled}
}

func sortStrings(a []string) {
	for i := 1; i < len(a); i++ {
		for j := i; j > 0 && a[j] < a[j-1]; j-- {
			a[j], a[j-1] = a[j-1], a[j]
		}
	}
}

func (o c14Obs) diff(p c14Obs) string {
	switch {
	case o.err != p.err:
		return fmt.Sprintf("error %q vs %q (value %s vs %s)", o.err, p.err, o.value, p.value)
	case o.value != p.value:
		return fmt.Sprintf("value %s vs %s", o.value, p.value)
	case o.trace != p.trace:
		return fmt.Sprintf("probe trace differs:\n%s\n--- vs ---\n%s", clipStr(o.trace, 600), clipStr(p.trace, 600))
	case o.gtrace != p.gtrace:
		return "goroutine events differ"
	}
	return ""
}

func clipStr(s string, n int) string {
	if len(s) > n {
		return s[:n] + "…"
	}
	return s
}

// c14ConcFeatures: the feature programs of phase conc. Programs whose point is what EARLIER
// runs of the process leave behind (hundreds of error exits, then a deep recursion) stay with
// the sequential phases; in the race build they cost seconds and add no schedule.
var c14ConcFeatures = func() []string {
	skip := map[string]bool{}
	for _, s := range c14ErrorThenDeepPrograms {
		skip[s] = true
	}
	for _, s := range c14ErrorExitPrograms {
		skip[s] = true
	}
	// 8 goroutines with 150 rounds of calls each, times 8 runs, is too much for the race build;
	// the lighter programs of that kind stay
	for _, s := range c14R5GoSharedFuncHeavyPrograms {
		skip[s] = true
	}
	var f []string
	for _, s := range c14Features {
		if !skip[s] {
			f = append(f, s)
		}
	}
	return f
}()

var c14DumpOpts = astx.Opts{Pos: true, Caps: true}

// c14Program picks the program of a case; kind tells where it came from.
func c14Program(c *wk.Case, allowGo bool) (src, kind string, watchdog time.Duration, ok bool) {
	cor := corpus.Scripts()
	feats := c14Features
	if c.Phase == "conc" {
		feats = c14ConcFeatures
	}
	switch r := c.Rng.Intn(10); {
	case c.Index < len(feats):
		return feats[c.Index], "feature", 4 * time.Second, true
	case r < 4:
		g := gen.New(c.Rng, gen.Profile(c.Rng.Intn(3)))
		return gen.Source(g.Program(30 + c.Rng.Intn(60))), "generated-program", 4 * time.Second, true
	case r < 6:
		g := gen.New(c.Rng, gen.ProfControl)
		prog := g.OrderProgram()
		if !allowGo && (g.Feat["stmt-go"] > 0 || g.Feat["stmt-go-panicking-host"] > 0) {
			return "", "", 0, false
		}
		return gen.Source(prog), "generated-expressions", 4 * time.Second, true
	case r < 7:
		return feats[c.Rng.Intn(len(feats))], "feature", 4 * time.Second, true
	default:
		s := cor[c.Rng.Intn(len(cor))]
		// scripts whose outcome legitimately varies or that reach outside the process are not in the domain
		for _, bad := range []string{"import", "go ", "load(", "keys(", "print", "time", "rand", "chan", "<-", "defined("} {
			if strings.Contains(s, bad) {
				return "", "", 0, false
			}
		}
		if strings.Contains(s, " in ") && (strings.Contains(s, "{\"") || strings.Contains(s, "map") || strings.Contains(s, "{'") || strings.Contains(s, "{ ")) {
			return "", "", 0, false
		}
		return s, "corpus", 300 * time.Millisecond, true
	}
}

func c14Canary(c *wk.Case, when string) {
	e := ank.NewCoreEnv()
	if o := ank.Exec(e, "x = 1; x++; x"); ank.Render(o.Val) != "int64(2)" {
		c.Violation("canary:one-literal", "after "+when+": `x = 1; x++; x` yields "+ank.Render(o.Val)+" (the shared literal behind ++ changed)", when)
	}
	probe := []int64{-1, 0, 1, 2, 3, 5, 6, 7, 11, 55, 99, 100, 1000, 4094, 4095}
	c14CanaryCount++
	if c14CanaryCount%20 == 1 {
		// the complete cache range every 20th case
		probe = probe[:0]
		for i := int64(-1); i <= 4096; i++ {
			probe = append(probe, i)
		}
	} else {
		for k := 0; k < 24; k++ {
			probe = append(probe, int64(c.Rng.Intn(4097))-1)
		}
	}
	for _, i := range probe {
		e.Define("i", i)
		if o := ank.Exec(e, "i + 0"); ank.Render(o.Val) != fmt.Sprintf("int64(%d)", i) {
			c.Violation("canary:small-int-cache", fmt.Sprintf("after %s: %d + 0 yields %s", when, i, ank.Render(o.Val)), when)
			break
		}
	}
	if o := ank.Exec(e, "zn = nil; [zn, nil, true, false]"); ank.Render(o.Val) != "[]interface {}[nil nil true false]" || env.NilValue.Interface() != nil {
		c.Violation("canary:nil-true-false", "after "+when+": `zn = nil; [zn, nil, true, false]` yields "+ank.Render(o.Val), when)
	}
	n := 0
	for _, m := range env.Packages {
		n += len(m)
	}
	if c14PackagesBaseline == 0 {
		c14PackagesBaseline = n
	} else if n != c14PackagesBaseline {
		c.Violation("canary:package-tables", fmt.Sprintf("after %s: env.Packages holds %d entries, %d at start", when, n, c14PackagesBaseline), when)
	}
	if o := ank.Exec(ank.NewCoreEnv(), "s = import(\"strings\"); [s.ToUpper(\"a\"), s.ToLower(\"B\"), s.TrimSpace(\" c \"), import(\"strconv\").Itoa(4)]"); ank.Render(o.Val) != "[]interface {}[\"A\" \"b\" \"c\" \"4\"]" {
		c.Violation("canary:import-isolation", "after "+when+": in a fresh environment [ToUpper(\"a\"), ToLower(\"B\"), TrimSpace(\" c \"), Itoa(4)] through import yields "+ank.Render(o.Val)+" "+ank.ErrText(o.Err), when)
	}
	// script functions of every arity, plain and variadic: what a function literal builds must not
	// depend on the shapes the process built before (the canary itself alternates the shapes)
	for n := 0; n <= 7; n++ {
		var ps, args, want []string
		for i := 1; i <= n; i++ {
			ps, args, want = append(ps, fmt.Sprintf("p%d", i)), append(args, fmt.Sprint(i)), append(want, fmt.Sprintf("int64(%d)", i))
		}
		src := fmt.Sprintf("(func(%s) { return [%s] })(%s)", strings.Join(ps, ", "), strings.Join(ps, ", "), strings.Join(args, ", "))
		exp := "[]interface {}[" + strings.Join(want, " ") + "]"
		if o := ank.Exec(e, src); ank.Render(o.Val) != exp || o.Err != nil {
			c.Violation("canary:func-shapes", fmt.Sprintf("after %s: in a fresh environment `%s` yields %s %s, not %s", when, src, ank.Render(o.Val), ank.ErrText(o.Err), exp), when)
			break
		}
		if n == 0 {
			continue
		}
		// the last parameter takes the rest: two arguments more than fixed parameters
		src = fmt.Sprintf("(func(%s...) { return [%s] })(%s)", strings.Join(ps, ", "), strings.Join(append(append([]string{}, ps[:n-1]...), "len("+ps[n-1]+")"), ", "), strings.Join(append(append([]string{}, args...), "0"), ", "))
		exp = "[]interface {}[" + strings.Join(append(append([]string{}, want[:n-1]...), "int64(2)"), " ") + "]"
		if o := ank.Exec(e, src); ank.Render(o.Val) != exp || o.Err != nil {
			c.Violation("canary:func-shapes", fmt.Sprintf("after %s: in a fresh environment `%s` yields %s %s, not %s", when, src, ank.Render(o.Val), ank.ErrText(o.Err), exp), when)
			break
		}
	}
	// copies of an environment are environments of their own
	{
		t := env.NewEnv()
		t.Define("k", int64(1))
		t.Define("j", int64(2))
		a, b := t.DeepCopy(), t.Copy()
		a.Delete("k")
		b.Define("j", int64(3))
		b.Define("z", int64(4))
		a.DefineType("Z", int64(0))
		get := func(x *env.Env, n string) string {
			v, err := x.Get(n)
			if err != nil {
				return "<undef>"
			}
			return ank.Render(v)
		}
		_, zerr := t.Type("Z")
		if got := strings.Join([]string{get(t, "k"), get(b, "k"), get(t, "j"), get(a, "j"), get(a, "z"), get(t, "z")}, " "); got != "int64(1) int64(1) int64(2) int64(2) <undef> <undef>" || zerr == nil {
			c.Violation("canary:env-copy-isolation", "after "+when+": t = {k: 1, j: 2}; a, b = t.DeepCopy(), t.Copy(); a.Delete(\"k\"); b.Define(\"j\", 3); b.Define(\"z\", 4); a.DefineType(\"Z\", ..): [t.k b.k t.j a.j a.z t.z] = "+got+fmt.Sprintf(", t.Type(\"Z\") error %v", zerr), when)
		}
		if o := ank.Exec(ank.NewCoreEnv(), "module m { a = 1\n func d() { delete(\"a\", true) } }\nn = m\nk = m\nm.d()\nk.a = 2\n[n.a, k.a, m.a ?? \"gone\"]"); ank.Render(o.Val) != "[]interface {}[int64(1) int64(2) \"gone\"]" {
			c.Violation("canary:module-copy-isolation", "after "+when+": module m { a = 1; func d() { delete(\"a\", true) } }; n = m; k = m; m.d(); k.a = 2; [n.a, k.a, m.a ?? \"gone\"] yields "+ank.Render(o.Val)+" "+ank.ErrText(o.Err), when)
		}
	}
	// types declared in nested scopes by earlier executions (c14_r5.go)
	c14R5Canary(c, when)
}

var c14PackagesBaseline, c14CanaryCount int

// c14ConcPrograms is the number of shared-tree cases of phase conc; the cases
// after them run one source at the same time in environments stamped from one template.
func c14ConcPrograms(tier string) int {
	if tier == "thorough" {
		return 24000
	}
	return 600
}

func init() {
	wk.Register(&wk.Engine{
		ID: "C14",
		Plan: func(tier string) fw.Plan {
			nSeq, nHist, nIso := 3100, 500, 1500
			if tier == "thorough" {
				nSeq, nHist, nIso = 308000, 25000, 150000
			}
			// conc: the shared-tree cases first, then the stamped-environment cases
			// and the round-5 cases (c14_r5.go) at the end
			nConc := c14ConcPrograms(tier) + c14ConcPrograms(tier)/6 + c14R5ConcExtra(tier)
			return fw.Plan{
				Level: "exploration",
				Rule:  "each program (hand-written feature programs aimed at per-node runtime data: named/anonymous calls, defer, ++/--, small-int and large-int arithmetic, every literal kind, maps that grow while they are ranged over, import with reassignment of imported members, modules, typed literals, make(type); PRNG-generated programs of all profiles; the repository's own goroutine-free scripts) is parsed ONCE; phase seq: the tree is dumped by reflection, run 3 times (feature programs 8 times) in fresh equal environments and dumped after each run; phase conc (race build): a solo run of a separately parsed tree is the reference, then 8 goroutines run the ONE shared tree at the same time on 8 fresh environments behind a barrier. Required: dumps byte-identical, every run's value/error text/probe trace equal to the solo run, canaries on the shared ++ literal, the small-int cache, the package tables and import isolation after each case, no race report. Non-trivial = parsed and produced at least one probe event or a non-nil value; distinct = distinct source text. Phase hist (process-history independence): complementary sets of programs that drive one interpreter facility with different shapes (plain/variadic, named/anonymous script functions of every arity 0..7 and as Go callbacks; typed slice/map literals, channels and make() over every basic element type; make(type) binding one name to different types; struct types with different field lists; modules of one name with different contents; imports of different packages in different orders; host calls with different argument shapes; the feature programs above; PRNG-generated programs) — a case draws 2..6 members (one group, mixed, or with a generated program), orders them by the PRNG, sometimes repeats the first at the end, and runs them one after the other in the worker process, whose history also holds all earlier cases of its chunk and the canaries; each member's observation must equal its SOLO observation = the program run as the first and only program of a fresh child process. Phase iso (environments never observe each other's bindings): (modcopy) a script binds a module or an imported package to further names (n = m, var n = m, n, k = m, m, through a function result, a list element, a copy of a copy), changes ONE side (member assignment, module functions that set or delete with and without the global flag, also from a nested module, top-level assignment/definition/deletion/var/type definition/function and module definition) and records the view of every side before and after: the views of all other sides must not change; (envcopy) a template environment one or two scopes deep is copied with Env.DeepCopy / Env.Copy (also a copy of a copy), 1..4 changes are applied to one of them through the env API (Define, Set, Delete, DeleteGlobal, DefineType, DefineGlobal, DefineGlobalType, NewModule) or by a script handed to vm.Execute with it, and after every change the views of all OTHER environments (env API Get/Type of every watched name, and a script reading the same names) must be unchanged; (stamp) 2..4 environments stamped from one template (all before the first run, or one by one) run the same source of reads and binding changes: equal value and error text in every run, template unchanged. Phase conc additionally runs stamp cases with 6 environments at the same time in the race build. Canaries after each case also cover: script functions of every arity 0..7 plain and variadic, Env.Copy/DeepCopy isolation, module-copy isolation. Round 4 (c14_env.go): a program may carry a first-line comment `# env: ...` after which the host prepares the otherwise standard environment (env.DefineType of the names T, U and hm.T — in a host-made module — with one of 11 Go types, host float32 values, a meet() function). (a) Feature programs: == / != / in / switch between a float32 (from []float32, [][]float32, map[string]float32 literals and host float32 values) and an ordinary script float, in loops; script functions that end with an error 100..600 times per run (throw, index error, undefined name; through 1..15 nested named, anonymous and module functions and through Go callbacks; always caught further out); recursion 2500 deep (named, closure, mutually recursive) that calls meet() at the bottom — in phase conc the first meet() of each of the 8 runs waits until all runs have called it or have ended, so the deep runs really overlap; error exits followed by a recursion 4000 deep in one program (run k vs run 1; phases seq and hist only, like the error-exit programs). (b) envmix cases (every 37th case of seq and every 60th of the shared-tree part of conc): ONE tree of a text whose struct/slice/map/chan/pointer type expressions name T, U, hm.T is run 4..6 times one after the other (seq) or by 8 goroutines at once (conc) in environments drawn from 2..4 DIFFERENT type bindings; each run must equal the same text run alone in an environment of its kind in a fresh child process. (c) hist: every case with index%10==3 takes one such text under 2..4 different type bindings (the child prepares its environment after the same first line), sometimes with a script that binds the names itself (make(type T, v), module hm { make(type T, v) }; also rebinding T between two evaluations of one type expression); every case with index%10==6 draws from the call-depth group (the error-exit programs and recursions 4000/9000 deep: named, closure, mutually recursive, module function, twice in a row), so that each worker process runs deep recursions after thousands of error exits; both groups are in the ordinary draws too. Round 5 (c14_r5.go): (a) feature programs whose nested assignment target has a PARENTHESISED container ((rows[i])[j] = v, (m.sub).n = v, (a[i])[1:2] = v, ((g[0])[0])[0] = v, (*p)[0] = v, string elements, stores at index len, op=, ++, multi-assignment; in loops and in function bodies called repeatedly) — tree dump, run k vs run 1, 8 concurrent runs; (b) the type names ST and SU are declared with make(type ..) ONLY inside function bodies and blocks (if, for, for-in, switch, try, recursion 20..60 deep so that many such scopes are alive at once, callbacks, literals of 5 parameters and variadic ones): feature programs probe the names from nested scopes first and declare afterwards (run k vs run 1), the hist group nested-scope-types (every case with index%10==8, and the ordinary draws) runs declarers and probers (also probers whose own environment binds ST/SU at the top level or in a module) in one process, each against its run alone in a fresh child process, and two canaries after every case require that blocks and calls of a FRESH environment find ST/SU undefined, resp. find the types that environment binds at its top level; (c) feature programs in which 4 (regular build also: 8) goroutines of ONE run call the same script function values (5, 6, 8 parameters, variadic, module function, recursive; 2 and 4 parameters for contrast) and add up how many results were not those of their own arguments — a value independent of the schedule, compared between runs; phase shared (regular build) and the last cases of phase conc (race build): sharedfn — 2..4 helper functions of random shape (0..8 fixed parameters or 0..3 fixed plus a variadic rest; named, literal or module function; list-, checksum- or recursive body reading nothing but its parameters) are defined ONCE in a prepared environment, 8 environments are made from it (Env.Copy, Env.DeepCopy or child scopes, each with its own id) and run one tree (40..100 rounds of calls with arguments made of id, the round and literals, also a spread list) first one after the other, then at the same time: each concurrent run must equal its run alone; datamix — ONE tree of a PRNG-drawn program over host data (nested lists, maps, typed slices, strings, id, hid()) with plain and parenthesised nested places as targets of =, op=, ++, multi-assignment, in loops, in functions called twice, slice stores, plus calls, closures, defers, switch, types made from the data and types declared in nested scopes, is run 3..5 times one after the other or 8 times at once in environments whose data DIFFER (also the first data once more at the end): each run must equal a freshly parsed tree of the same text run alone on equal data, and the tree dump must not change. Round 6 (c14_r6.go, phase r6, regular build): (a) keys whose hashability depends on the data — struct types with an interface-typed field (script-made: make(struct{F interface, N int64}), also nested one struct further in and with two interface fields; host-made Go structs) and host-made Go arrays [n]interface{} used as map keys in stores, map literals, lookups (v, ok = m[k]), deletes, op= and ++ on an element, typed maps with interface keys, keys built by one function in a loop; the field names and array lengths are drawn per case, so every case has key types of its own; the data behind `tag` is a first-line spec `# env: keys tag=<kind> harr=<n> hkey=<Name>` with 8 hashable kinds (string, empty string, int64, float64, bool, nil, Go array, Go struct) and 7 unhashable ones (list, empty list, map, typed slice, typed map, func, struct holding a slice); keymix: ONE tree is run 2..6 times one after the other (or 8 times at once) in fresh environments with 2..4 different kinds of data, hashable first or unhashable first by the PRNG; keyprogs: 2..4 DIFFERENT programs over the same key types, each freshly parsed with its own data, run one after the other (sometimes the first once more at the end); every run must equal the same text with the same data run alone in a fresh child process; (b) loadmix: a history of 2..5 steps over one file dir/lib.ank in a directory of the case: each step writes one of 2..4 versions (12 shapes: functions, top-level values, modules, type definitions, lists; failing ones: throw, syntax error, index error, stray break; one shape with another digit or different shapes; mostly padded to ONE length with a comment line) in place or by rename — time stamp pinned with os.Chtimes, put back to that of the first version, left to the clock, or advanced by an hour per step — or removes the file, then runs one of 5 loader programs (load and call, load in a function called twice, value of load, names the file may define, load through a second file that stays as it is; one tree for all steps or a fresh tree per step) in a FRESH environment: every run must equal the loader run alone in a fresh child process (vworker -child c14load) that finds equal files in a directory of its own (directory names are taken out of the observations). A panic out of vm.Run seen in a phase-r6 run or in its child is a violation of its own (signature panic-out-of-run:<site and message>)." + c14R8Rule + c14R9Rule,
				Assumptions: []string{"corpus scripts that use import, goroutines, channels, map iteration, keys(), printing or time are outside the repeatability domain and are skipped", "a run cut by the execution watchdog is inconclusive, never compared",
					"hist: the solo reference is taken in a child process of the same worker binary; a child that fails to deliver an observation makes the member inconclusive",
					"iso compares bindings only: values reachable from both sides by reference (lists, maps, nested modules — shared by Copy/DeepCopy and by module assignment like any other value) are never mutated in place; a function is a closure over the environment it was defined in, so calling a template's or module's function through a copy counts as a change of the ORIGINAL; under Env.Copy the parent scopes stay shared by contract, so only the copied scope is changed",
					"a script map converted to a typed map whose keys collide after conversion is nondeterministic on the unchanged tree (convertMap, reported in C14-genuine.md); such programs are written but held back by c14PendingFix_convertMapCollision",
					"nothing is assumed about how deep a recursion may nest or what a comparison of a float32 with a float64 yields: such a run is only compared with the same program run alone (solo run, run 1, or fresh child process)",
					"meet() only shapes the schedule of the concurrent runs (a bounded wait, released when every run has arrived or ended); no verdict depends on it",
					"a channel operation that is ready in the statement in which a host function has cancelled the run's context has a random outcome on the unchanged tree (reflect.Select, reported in C14-r4-genuine.md): such programs are written but held back by c14PendingFix_cancelSelectRace",
					"(*env.Env).Addr of a host-bound nil hands out the process-wide nil cell on the unchanged tree (reported in C14-r4-genuine.md): the env-API change api-Addr-store is written but held back by c14PendingFix_addrNilCell",
					"sharedfn: environments made from one prepared environment by Env.Copy, Env.DeepCopy or as child scopes count as separate environments; the runs bind names in their own scope only and the shared helper functions read nothing but their parameters, so nothing a run may legitimately observe depends on the other runs",
					"programs that start goroutines themselves are used only where their value does not depend on the schedule (each goroutine checks its own calls, the counts are added up); they are compared between runs like every other program, nothing is required of the order of their events",
					"datamix takes its reference in the same process from a freshly parsed tree: what is compared is the shared tree, not the process history (phase hist does that)",
					"a struct-typed binding shares its cell between an environment and its Env.Copy / Env.DeepCopy copies on the unchanged tree (reported in C14-r5-genuine.md): the binding gs and the change script-struct-field-assign of phase iso are written but held back by c14PendingFix_copySharesStructCell; module environments bound in a copied scope stay shared by Copy/DeepCopy like every other reference value (Copy's documented contract), stores into them are not in the domain",
					"phase r6: the file a run loads is part of what the run is given, like the data its environment binds: \"alone\" means alone over equal files; time stamps only shape the history (no verdict reads the clock); the key programs catch and record every map operation that the data may make fail, nothing is assumed about which data a key may hold: a run is only compared with the same text and data run alone",
					c14R8Assumptions[0], c14R8Assumptions[1], c14R8Assumptions[2], c14R9Assumptions[0], c14R9Assumptions[1]},
				Phases: append([]fw.Phase{
					{Name: "seq", Cases: nSeq, Chunk: 100, TimeoutS: 900},
					{Name: "hist", Cases: nHist, Chunk: 50, TimeoutS: 900},
					{Name: "iso", Cases: nIso, Chunk: 150, TimeoutS: 900},
					{Name: "conc", Race: true, Cases: nConc, Chunk: 40, TimeoutS: 900, Jobs: 8},
					{Name: "shared", Cases: c14R5SharedCases(tier), Chunk: 70, TimeoutS: 900, Jobs: 4, MemMB: 3072},
					{Name: "r6", Cases: c14R6Cases(tier), Chunk: 40, TimeoutS: 900, Jobs: 4, MemMB: 3072},
				}, append(c14R8Phases(tier), c14R9Phases(tier)...)...),
			}
		},
		Run: func(c *wk.Case) {
			// round 8 (c14_r8.go): volume and history
			if c14R8Run(c) || c14R9Run(c) {
				return
			}
			switch {
			case c.Phase == "hist":
				c14RunHist(c)
				return
			case c.Phase == "iso":
				c14RunIso(c)
				return
			case c.Phase == "shared":
				c14RunR5(c, c.Index)
				return
			case c.Phase == "r6":
				// round 6: keys whose hashability depends on the data, files rewritten between loads
				c14RunR6(c)
				return
			case c.Phase == "conc" && c.Index >= c14ConcPrograms(c.Tier)+c14ConcPrograms(c.Tier)/6:
				// round 5: shared function values and shared trees on differing data (race build)
				c14RunR5(c, c.Index-c14ConcPrograms(c.Tier)-c14ConcPrograms(c.Tier)/6)
				return
			case c.Phase == "conc" && c.Index >= c14ConcPrograms(c.Tier):
				// environments stamped from one template, run at the same time (race build)
				c14IsoStamp(c, true)
				return
			case c14IsEnvMix(c):
				// one tree, environments that bind type names differently (c14_env.go)
				c14RunEnvMix(c)
				return
			}
			src, kind, wd, ok := c14Program(c, c.Phase == "seq")
			if !ok {
				c.Excluded("program-outside-repeatability-domain")
				return
			}
			c.Begin(src)
			tree, perr, po := ank.Parse(src)
			if po.Panicked || perr != nil || tree == nil {
				c.Excluded("does-not-parse")
				return
			}
			input := map[string]string{"source": src, "kind": kind}
			spec := c14SpecOf(src)
			dump0 := astx.Dump(tree, c14DumpOpts)
			checkDump := func(when string) bool {
				if d := astx.Dump(tree, c14DumpOpts); d != dump0 {
					c.Violation("tree-mutated:"+firstDiffNode(dump0, d), "the parsed tree differs after "+when+": "+dumpDiff(dump0, d), input)
					return false
				}
				return true
			}
			var ref c14Obs
			nruns := 0
			if c.Phase == "seq" {
				reruns := 3
				if kind == "feature" {
					reruns = 8
				}
				for i := 0; i < reruns; i++ {
					o := c14Observe(c14RunTree(tree, spec, wd, true, nil))
					if o.timeout {
						c.Excluded("watchdog")
						return
					}
					nruns++
					if i == 0 {
						ref = o
					} else if d := ref.diff(o); d != "" {
						c.Violation("rerun-differs:"+kind, fmt.Sprintf("run %d of the same tree in a fresh environment differs from run 1: %s", i+1, d), input)
						return
					}
					if !checkDump(fmt.Sprintf("sequential run %d", i+1)) {
						return
					}
				}
				// round 10: the same SOURCE (not tree) given to the execute-a-source entry point in equal fresh
				// environments, with a fault the parser reports after the whole valid program: the outcome
				// (error status, value, trace) is the same every time, however often the text was seen before
				if spec == "" {
					tail := c14ParseFaultTails[c.Rng.Intn(len(c14ParseFaultTails))]
					bad := src + "\n" + tail
					c.Begin(bad)
					var first c14Obs
					for i := 0; i < 4; i++ {
						o := c14Observe(realrun.Run(bad))
						if o.timeout {
							break
						}
						nruns++
						if i == 0 {
							first = o
						} else if d := first.diff(o); d != "" {
							c.Violation("source-rerun-differs:parse-fault", fmt.Sprintf("run %d of the same source text in a fresh environment differs from run 1: %s", i+1, d), map[string]string{"source": bad, "fault": tail})
							return
						}
					}
				}
			} else {
				solo, _, _ := ank.Parse(src)
				ref = c14Observe(c14RunTree(solo, spec, wd, true, nil))
				if ref.timeout {
					c.Excluded("watchdog")
					return
				}
				const n = 8
				obs := make([]c14Obs, n)
				var wg sync.WaitGroup
				start := make(chan struct{})
				// programs that call meet() hold every run at that point until all runs are there (or over)
				bar := c14NewBarrier(n)
				wdc := 4 * time.Second
				if spec != "" {
					// runs that wait for each other in meet() need room for the slowest of them
					wdc = 20 * time.Second
				}
				for i := 0; i < n; i++ {
					wg.Add(1)
					go func(i int) {
						defer wg.Done()
						defer bar.arrive(i)
						<-start
						obs[i] = c14Observe(c14RunTree(tree, spec, wdc, false, bar.meetFor(i)))
					}(i)
				}
				close(start)
				wg.Wait()
				nruns = n
				for i, o := range obs {
					if o.timeout {
						c.Inconclusive("concurrent-run-watchdog", "", input)
						return
					}
					if d := ref.diff(o); d != "" {
						c.Violation("concurrent-run-differs:"+kind, fmt.Sprintf("concurrent run %d of the shared tree differs from the solo run: %s", i, d), input)
						return
					}
				}
				if !checkDump("8 concurrent runs") {
					return
				}
			}
			c14Canary(c, kind+" program")
			c.Eval(src, ref.trace != "" || (ref.value != "nil" && ref.value != ""))
			c.Events(nruns)
			c.Tag("kind:"+kind, "phase:"+c.Phase)
			if c.WantSample() {
				c.Sample(map[string]interface{}{"source": src, "kind": kind, "runs": nruns, "value": ref.value, "error": ref.err})
			}
		},
	})
}

var _ ast.Stmt

func firstDiffNode(a, b string) string {
	i := 0
	for i < len(a) && i < len(b) && a[i] == b[i] {
		i++
	}
	// back up to the enclosing node type name
	j := i
	for j > 0 && a[j-1] != '{' {
		j--
	}
	k := j - 1
	for k > 0 && (a[k-1] >= 'A' && a[k-1] <= 'Z' || a[k-1] >= 'a' && a[k-1] <= 'z') {
		k--
	}
	if k < 0 || j-1 <= k {
		return "?"
	}
	name := a[k : j-1]
	if at := strings.Index(name, "@"); at > 0 {
		name = name[:at]
	}
	return name
}

func dumpDiff(a, b string) string {
	i := 0
	for i < len(a) && i < len(b) && a[i] == b[i] {
		i++
	}
	lo := i - 120
	if lo < 0 {
		lo = 0
	}
	hiA, hiB := i+120, i+120
	if hiA > len(a) {
		hiA = len(a)
	}
	if hiB > len(b) {
		hiB = len(b)
	}
	return fmt.Sprintf("before …%s… after …%s…", a[lo:hiA], b[lo:hiB])
}
