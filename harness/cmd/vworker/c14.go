package main

// C14 — runs are isolated and repeatable; executing a tree never changes it.
// Monitor: a reflection dump of the parsed tree (every field, literal values,
// CallExpr.Func validity, slice lengths and capacities, positions) before and
// after every run; observation equality (value, error text, probe trace)
// between a solo run and repeated / concurrent runs of ONE shared tree on
// fresh environments; canaries on process-global interpreter state; the race
// detector in the concurrent phase.

import (
	"fmt"
	"strings"
	"sync"
	"time"

	"github.com/mattn/anko/ast"
	"github.com/mattn/anko/env"
	_ "github.com/mattn/anko/packages"

	"verifharness/internal/ank"
	"verifharness/internal/astx"
	"verifharness/internal/corpus"
	"verifharness/internal/fw"
	"verifharness/internal/gen"
	"verifharness/internal/realrun"
	"verifharness/internal/wk"
)

// feature programs aimed at the per-node runtime data and process-global state
var c14Features = []string{
	"func f(a, b) { return a + b }\nrd(\"r\", f(1, 2))\nrd(\"r\", f(3, 4))",
	"f = func(a) { return a * 2 }\nrd(\"r\", f(2))\nrd(\"r\", (func(a) { return a })(5))",
	"x = 1\nx++\nx++\nx--\nrd(\"x\", x)\ny = 4094\ny++\ny++\nrd(\"y\", y)",
	"s = 0\nfor i = 0; i < 5; i++ { s += i }\nrd(\"s\", s)",
	"a = [1, 2, 3]\na[0]++\na[1] += 10\nrd(\"a\", a)",
	"m = {\"k\": 1}\nm.k++\nm[\"j\"] = 2\nrd(\"m\", m)",
	"defer h1(1)\ndefer func() { p(2) }()\nfunc g() { defer h2(3, 4)\n return 5 }\nrd(\"g\", g())",
	"rd(\"i\", -1 + 0)\nrd(\"i\", 4095 + 0)\nrd(\"i\", 4096 - 1)\nrd(\"i\", 2047 * 2)\nrd(\"i\", 4094 + 1 + 1)",
	"rd(\"l\", [1, 2.5, \"s\", true, nil, 0x10, 0b11, 1e3])",
	"strs = import(\"strings\")\nr = strs.ToLower(\"AB\")\nstrs.ToLower = 5\nrd(\"r\", r)\nrd(\"t\", strs.ToLower)",
	"st = import(\"strconv\")\nr = st.Itoa(42)\nst.Itoa = nil\nrd(\"r\", r)",
	"import(\"strings\").ToLower = 5\nimport(\"strings\").Title = nil\nrd(\"r\", import(\"strings\").ToLower(\"AB\") ?? \"failed\")",
	"var s1 = import(\"strings\")\ns1.ToLower = s1.ToUpper\nfunc g(m) { m.TrimSpace = 1\n return 0 }\ng(import(\"strings\"))\nrd(\"r\", [import(\"strings\").ToLower(\"Ab\"), import(\"strings\").TrimSpace(\" x \")])",
	"srt = import(\"sort\")\na = [3, 1, 2]\nsrt.Slice(a, func(i, j) { return a[i] < a[j] })\nrd(\"a\", a)",
	"module M { x = 1\n func inc() { x++\n return x } }\nrd(\"a\", M.inc())\nrd(\"b\", M.inc())\nrd(\"x\", M.x)",
	"a = []int64{1, 2}\nb = map[string]int64{\"k\": 1}\na[0] = 5\nb.k = 7\nrd(\"a\", toIntSlice([a[0], a[1]]))\nrd(\"b\", b.k)",
	"make(type T, 1)\nv = make(T)\nw = make([]T, 2)\nrd(\"v\", v)\nrd(\"w\", len(w))",
	"s = make(struct{A int64, B string})\ns.A = 3\ns.B = \"x\"\nrd(\"A\", s.A)\nrd(\"B\", s.B)",
	"try { throw \"T1\" } catch e { pc(e) } finally { p(1) }\ntry { [1][5] } catch e { pc(e) }",
	"switch 2 { case 1: p(1)\ncase 2, 3: p(2)\ndefault: p(3) }",
	"c = make(chan int64, 2)\nc <- 1\nc <- 2\nrd(\"a\", <- c)\nv, ok = <- c\nrd(\"v\", v)\nrd(\"ok\", ok)\nclose(c)",
	"f = func(a...) { return len(a) }\nrd(\"n\", f(1, 2, 3))\nrd(\"n\", f([1, 2]...))\nrd(\"n\", hv(1, 2, 3))",
	"x = nil ?? 5\ny = (zz_undefined ?? 6)\nz = true ? 1 : 2\nrd(\"x\", [x, y, z])",
	"a = \"abc\"\nrd(\"s\", a[1:])\nrd(\"c\", a[0])\nb = [1, 2, 3, 4]\nrd(\"b\", b[1:3])\nrd(\"in\", 2 in b)\nrd(\"len\", len(b))",
	"p1 = new(int64)\n*p1 = 5\nrd(\"p\", *p1)\nx = 1\nq = &x\nrd(\"q\", *q)",
	"a = nil\np1 = &a\n*p1 = 5\nb = nil\nrd(\"nil\", [a, b, nil])\nq = &nil\n*q = 6\nrd(\"nil2\", [nil, vnone ?? nil])",
	"l = [1, 2, 3]\nl[0], l[2] = l[2], l[0]\nrd(\"l\", l)\nt = []string{\"ab\", \"cd\"}\nfor v in t { v[0] = \"Q\" }\nrd(\"t\", toStringSlice([t[0], t[1]]))",
	"p1 = &(2 + 3)\n*p1 = *p1 + 1\nrd(\"p\", *p1)\nrd(\"five\", 2 + 3)\nn = &len([1, 2, 3])\n*n = 1000\nrd(\"len\", len([7, 8, 9]))",
	"x = 7\nq = &(-x)\n*q = 99\nrd(\"neg\", -x)\nr = &(x * 1)\n*r = 55\nrd(\"x\", [x, x * 1, 6 + 1])\ny = 10\nz = &(y++)\n*z = 0\nrd(\"y\", [y, 10 + 1])",
	"func fib(n) { if n < 2 { return n }\n return fib(n - 1) + fib(n - 2) }\nrd(\"fib\", fib(12))",
	"func mk(s) { var c = s\n return func() { c++\n return c } }\na = mk(10)\nb = mk(20)\nrd(\"r\", [a(), b(), a(), a(), b()])",
	"s = 0\nfor i = 0; i < 300; i++ { s = s + 5000 + i * 256 }\nrd(\"s\", s)\nrd(\"m\", [70000 * 3, 1 << 40, -5000 - 1, 123456 % 100000, 5000 | 3, 4096 + 4096, ^5000, 9000 - 1])",
	"m = {\"a\": 1, \"b\": 2, \"c\": 3, \"d\": 4}\nn = 0\nfor k, v in m { m[k + \"x\"] = v\n n++ }\nrd(\"n\", n)\nrd(\"len\", len(m))",
	"m = {}\nfor i = 0; i < 12; i++ { m[toString(i)] = i }\nn = 0\nfor k in m { for j = 0; j < 4; j++ { m[k + \"-\" + toString(j)] = j }\n n++ }\nrd(\"n\", n)\nrd(\"len\", len(m))",
	"delete(\"zz\")\nm = {\"a\": 1, \"b\": 2}\ndelete(m, \"a\")\nrd(\"m\", m)\nrd(\"k\", len(keys(m)))",
}

type c14Obs struct {
	trace   string
	gtrace  string
	value   string
	err     string
	timeout bool
}

func c14Observe(r realrun.Real) c14Obs {
	g := append([]string(nil), r.GTrace...)
	sortStrings(g)
	return c14Obs{trace: strings.Join(realrun.Canon(r.Trace), "\n"), gtrace: strings.Join(g, "\n"), value: r.Value, err: r.ErrText, timeout: r.TimedOut || r.Overflow || r.Unsettled}
}

func sortStrings(a []string) {
	for i := 1; i < len(a); i++ {
		for j := i; j > 0 && a[j] < a[j-1]; j-- {
			a[j], a[j-1] = a[j-1], a[j]
		}
	}
}

func (o c14Obs) diff(p c14Obs) string {
	switch {
	case o.value != p.value:
		return fmt.Sprintf("value %s vs %s", o.value, p.value)
	case o.err != p.err:
		return fmt.Sprintf("error %q vs %q", o.err, p.err)
	case o.trace != p.trace:
		return fmt.Sprintf("probe trace differs:\n%s\n--- vs ---\n%s", clipStr(o.trace, 600), clipStr(p.trace, 600))
	case o.gtrace != p.gtrace:
		return "goroutine events differ"
	}
	return ""
}

func clipStr(s string, n int) string {
	if len(s) > n {
		return s[:n] + "…"
	}
	return s
}

var c14DumpOpts = astx.Opts{Pos: true, Caps: true}

// c14Program picks the program of a case; kind tells where it came from.
func c14Program(c *wk.Case, allowGo bool) (src, kind string, watchdog time.Duration, ok bool) {
	cor := corpus.Scripts()
	switch r := c.Rng.Intn(10); {
	case c.Index < len(c14Features):
		return c14Features[c.Index], "feature", 4 * time.Second, true
	case r < 4:
		g := gen.New(c.Rng, gen.Profile(c.Rng.Intn(3)))
		return gen.Source(g.Program(30 + c.Rng.Intn(60))), "generated-program", 4 * time.Second, true
	case r < 6:
		g := gen.New(c.Rng, gen.ProfControl)
		prog := g.OrderProgram()
		if !allowGo && g.Feat["stmt-go"] > 0 {
			return "", "", 0, false
		}
		return gen.Source(prog), "generated-expressions", 4 * time.Second, true
	case r < 7:
		return c14Features[c.Rng.Intn(len(c14Features))], "feature", 4 * time.Second, true
	default:
		s := cor[c.Rng.Intn(len(cor))]
		// scripts whose outcome legitimately varies or that reach outside the process are not in the domain
		for _, bad := range []string{"import", "go ", "load(", "keys(", "print", "time", "rand", "chan", "<-", "defined("} {
			if strings.Contains(s, bad) {
				return "", "", 0, false
			}
		}
		if strings.Contains(s, " in ") && (strings.Contains(s, "{\"") || strings.Contains(s, "map") || strings.Contains(s, "{'") || strings.Contains(s, "{ ")) {
			return "", "", 0, false
		}
		return s, "corpus", 300 * time.Millisecond, true
	}
}

func c14Canary(c *wk.Case, when string) {
	e := ank.NewCoreEnv()
	if o := ank.Exec(e, "x = 1; x++; x"); ank.Render(o.Val) != "int64(2)" {
		c.Violation("canary:one-literal", "after "+when+": `x = 1; x++; x` yields "+ank.Render(o.Val)+" (the shared literal behind ++ changed)", when)
	}
	probe := []int64{-1, 0, 1, 2, 3, 5, 6, 7, 11, 55, 99, 100, 1000, 4094, 4095}
	c14CanaryCount++
	if c14CanaryCount%20 == 1 {
		// the complete cache range every 20th case
		probe = probe[:0]
		for i := int64(-1); i <= 4096; i++ {
			probe = append(probe, i)
		}
	} else {
		for k := 0; k < 24; k++ {
			probe = append(probe, int64(c.Rng.Intn(4097))-1)
		}
	}
	for _, i := range probe {
		e.Define("i", i)
		if o := ank.Exec(e, "i + 0"); ank.Render(o.Val) != fmt.Sprintf("int64(%d)", i) {
			c.Violation("canary:small-int-cache", fmt.Sprintf("after %s: %d + 0 yields %s", when, i, ank.Render(o.Val)), when)
			break
		}
	}
	if o := ank.Exec(e, "zn = nil; [zn, nil, true, false]"); ank.Render(o.Val) != "[]interface {}[nil nil true false]" || env.NilValue.Interface() != nil {
		c.Violation("canary:nil-true-false", "after "+when+": `zn = nil; [zn, nil, true, false]` yields "+ank.Render(o.Val), when)
	}
	n := 0
	for _, m := range env.Packages {
		n += len(m)
	}
	if c14PackagesBaseline == 0 {
		c14PackagesBaseline = n
	} else if n != c14PackagesBaseline {
		c.Violation("canary:package-tables", fmt.Sprintf("after %s: env.Packages holds %d entries, %d at start", when, n, c14PackagesBaseline), when)
	}
	if o := ank.Exec(ank.NewCoreEnv(), "s = import(\"strings\"); [s.ToUpper(\"a\"), s.ToLower(\"B\"), s.TrimSpace(\" c \"), import(\"strconv\").Itoa(4)]"); ank.Render(o.Val) != "[]interface {}[\"A\" \"b\" \"c\" \"4\"]" {
		c.Violation("canary:import-isolation", "after "+when+": in a fresh environment [ToUpper(\"a\"), ToLower(\"B\"), TrimSpace(\" c \"), Itoa(4)] through import yields "+ank.Render(o.Val)+" "+ank.ErrText(o.Err), when)
	}
}

var c14PackagesBaseline, c14CanaryCount int

func init() {
	wk.Register(&wk.Engine{
		ID: "C14",
		Plan: func(tier string) fw.Plan {
			nSeq, nConc := 3000, 600
			if tier == "thorough" {
				nSeq, nConc = 300000, 24000
			}
			return fw.Plan{
				Level:       "exploration",
				Rule:        "each program (hand-written feature programs aimed at per-node runtime data: named/anonymous calls, defer, ++/--, small-int and large-int arithmetic, every literal kind, maps that grow while they are ranged over, import with reassignment of imported members, modules, typed literals, make(type); PRNG-generated programs of all profiles; the repository's own goroutine-free scripts) is parsed ONCE; phase seq: the tree is dumped by reflection, run 3 times (feature programs 8 times) in fresh equal environments and dumped after each run; phase conc (race build): a solo run of a separately parsed tree is the reference, then 8 goroutines run the ONE shared tree at the same time on 8 fresh environments behind a barrier. Required: dumps byte-identical, every run's value/error text/probe trace equal to the solo run, canaries on the shared ++ literal, the small-int cache, the package tables and import isolation after each case, no race report. Non-trivial = parsed and produced at least one probe event or a non-nil value; distinct = distinct source text.",
				Assumptions: []string{"corpus scripts that use import, goroutines, channels, map iteration, keys(), printing or time are outside the repeatability domain and are skipped", "a run cut by the execution watchdog is inconclusive, never compared"},
				Phases: []fw.Phase{
					{Name: "seq", Cases: nSeq, Chunk: 100, TimeoutS: 900},
					{Name: "conc", Race: true, Cases: nConc, Chunk: 40, TimeoutS: 900, Jobs: 8},
				},
			}
		},
		Run: func(c *wk.Case) {
			src, kind, wd, ok := c14Program(c, c.Phase == "seq")
			if !ok {
				c.Excluded("program-outside-repeatability-domain")
				return
			}
			c.Begin(src)
			tree, perr, po := ank.Parse(src)
			if po.Panicked || perr != nil || tree == nil {
				c.Excluded("does-not-parse")
				return
			}
			input := map[string]string{"source": src, "kind": kind}
			dump0 := astx.Dump(tree, c14DumpOpts)
			checkDump := func(when string) bool {
				if d := astx.Dump(tree, c14DumpOpts); d != dump0 {
					c.Violation("tree-mutated:"+firstDiffNode(dump0, d), "the parsed tree differs after "+when+": "+dumpDiff(dump0, d), input)
					return false
				}
				return true
			}
			var ref c14Obs
			nruns := 0
			if c.Phase == "seq" {
				reruns := 3
				if kind == "feature" {
					reruns = 8
				}
				for i := 0; i < reruns; i++ {
					o := c14Observe(realrun.RunTreeWatchdog(tree, wd, true))
					if o.timeout {
						c.Excluded("watchdog")
						return
					}
					nruns++
					if i == 0 {
						ref = o
					} else if d := ref.diff(o); d != "" {
						c.Violation("rerun-differs:"+kind, fmt.Sprintf("run %d of the same tree in a fresh environment differs from run 1: %s", i+1, d), input)
						return
					}
					if !checkDump(fmt.Sprintf("sequential run %d", i+1)) {
						return
					}
				}
			} else {
				solo, _, _ := ank.Parse(src)
				ref = c14Observe(realrun.RunTreeWatchdog(solo, wd, true))
				if ref.timeout {
					c.Excluded("watchdog")
					return
				}
				const n = 8
				obs := make([]c14Obs, n)
				var wg sync.WaitGroup
				start := make(chan struct{})
				for i := 0; i < n; i++ {
					wg.Add(1)
					go func(i int) {
						defer wg.Done()
						<-start
						obs[i] = c14Observe(realrun.RunTreeWatchdog(tree, 4*time.Second, false))
					}(i)
				}
				close(start)
				wg.Wait()
				nruns = n
				for i, o := range obs {
					if o.timeout {
						c.Inconclusive("concurrent-run-watchdog", "", input)
						return
					}
					if d := ref.diff(o); d != "" {
						c.Violation("concurrent-run-differs:"+kind, fmt.Sprintf("concurrent run %d of the shared tree differs from the solo run: %s", i, d), input)
						return
					}
				}
				if !checkDump("8 concurrent runs") {
					return
				}
			}
			c14Canary(c, kind+" program")
			c.Eval(src, ref.trace != "" || (ref.value != "nil" && ref.value != ""))
			c.Events(nruns)
			c.Tag("kind:"+kind, "phase:"+c.Phase)
			if c.WantSample() {
				c.Sample(map[string]interface{}{"source": src, "kind": kind, "runs": nruns, "value": ref.value, "error": ref.err})
			}
		},
	})
}

var _ ast.Stmt

func firstDiffNode(a, b string) string {
	i := 0
	for i < len(a) && i < len(b) && a[i] == b[i] {
		i++
	}
	// back up to the enclosing node type name
	j := i
	for j > 0 && a[j-1] != '{' {
		j--
	}
	k := j - 1
	for k > 0 && (a[k-1] >= 'A' && a[k-1] <= 'Z' || a[k-1] >= 'a' && a[k-1] <= 'z') {
		k--
	}
	if k < 0 || j-1 <= k {
		return "?"
	}
	name := a[k : j-1]
	if at := strings.Index(name, "@"); at > 0 {
		name = name[:at]
	}
	return name
}

func dumpDiff(a, b string) string {
	i := 0
	for i < len(a) && i < len(b) && a[i] == b[i] {
		i++
	}
	lo := i - 120
	if lo < 0 {
		lo = 0
	}
	hiA, hiB := i+120, i+120
	if hiA > len(a) {
		hiA = len(a)
	}
	if hiB > len(b) {
		hiB = len(b)
	}
	return fmt.Sprintf("before …%s… after …%s…", a[lo:hiA], b[lo:hiB])
}
