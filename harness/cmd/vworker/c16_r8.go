package main

// C16, round 8 ("volume and history"). The phases of the earlier rounds run small pipelines
// (2-8 goroutines, a few to 1000 messages, buffers of 0-7) in short-lived worker processes,
// every program a few times. The statement says "every value sent is received exactly once,
// in FIFO order", "a go call evaluates its arguments before it starts and then runs
// concurrently with its caller", "pipelines deliver all items whatever the scheduling" -
// nothing in it depends on how many goroutines are alive, how big a buffer is, how often one
// send / receive / go node was evaluated before, or on what earlier programs of the process
// left behind. Phase `volume` (one case = one worker process, chunk size 1) drives the SAME
// oracle (c16Judge: exactly once, per-sender order, element conversion, go-argument snapshot,
// closed-channel observations; termination decided on goroutine states only) in that regime:
//
//   history   ONE process runs thousands of pairwise distinct small programs of the older
//             generators (semantics table rows, linear / fan-in / fan-out / zip / sync pipelines
//             of 1-3 messages), each judged; twelve reference programs are asked again at
//             distances of exactly N-1, N, N+1 streamed programs for N in 256, 1000, 1024, 4096;
//             garbage collections are forced, environments dropped, and runs under other
//             contexts are left alive with their goroutines parked.
//   crowd     daisy chains, fan-ins and fan-outs of 255..257, 1023..1025, 4095..4097, 12000
//             (thorough 20000, 30000) goroutines, every one started by a go statement of ONE
//             loop (named / anonymous / variadic / six-parameter callee, so both call paths)
//             with arguments that are reassigned right after, and parked 1-3 script calls deep
//             on a channel until the main goroutine has seen all of them ready; then values are
//             injected. Every goroutine reports the arguments it got (its own), every message
//             must come out exactly once and in order. One case does so with 4097 goroutines
//             of an EARLIER run (another environment, another context) still parked.
//   buffers   channels with buffers of 0, 1, 255..257, 1023..1025, 4095..4097, 65536 filled to
//             the brim by the main goroutine with no receiver alive (a channel with less room
//             than asked for parks the only goroutine: decided on states), one more sender that
//             must park, drained (FIFO, every item), refilled, closed, drained by for-in, closed-
//             channel observations; 200000 (thorough 1000000) messages through one channel;
//             for-in over a channel that delivers 65537 items.
//   hotnode   ONE send node and ONE receive node (in a function called again and again)
//             evaluated ~16000 (thorough ~56000) times on channels whose element type - and so
//             the conversion the send owes - changes by five schedules (monomorphic, a late
//             switch after 1100, alternating, one odd in 257, blocks of 700); ONE v,ok node, ONE
//             receive-expression node, ONE for-in node, ONE close node and ONE send node inside
//             try evaluated thousands of times on fresh channels that are open, closed with
//             values queued, or closed and drained, every outcome judged; 20000 short-lived
//             goroutines started from one go site.
//
// No number here is taken from the code under test: sizes are the generic list of round 8.

import (
	"context"
	"fmt"
	"math/rand"
	"runtime"
	"strconv"
	"strings"
	"time"

	"verifharness/internal/ank"
	"verifharness/internal/fw"
	"verifharness/internal/wk"
)

const c16R8Rule = " phase volume (c16_r8.go; one case = one worker process): history - 4200 (thorough 13000) pairwise distinct small programs (semantics rows, linear / fan-in / fan-out / zip / sync pipelines of 1-3 messages, each made distinct by a leading statement) run one after another in ONE process, every run judged like in the older phases, twelve reference programs re-run at distances of exactly N-1, N, N+1 streamed programs for N in 256, 1000, 1024, 4096, runtime.GC() forced every 97 programs, environments dropped, a run under a context of its own left alive with 50 parked goroutines every 600 programs; " +
	"crowd - daisy chains (every stage forwards value+1; for-in or single receive expression), fan-ins (gate closed once all producers are ready, counting closer) and fan-outs (workers share one job channel) of 255-257 / 1023-1025 / 4095-4097 / 12000 (thorough also 20000, 30000) goroutines started by the go statement of one loop through a named / anonymous / variadic / six-parameter callee with arguments reassigned right after the statement, each parked 1-3 script calls deep (receive expression / v,ok / for-in) until all have reported ready, then the values are injected: every goroutine reports the arguments it received, every message arrives exactly once, in per-sender order, converted along the chain; one case with 4097 goroutines of an earlier run on another environment still parked; " +
	"buffers - make(chan T, n) for n in 0, 1, 255-257, 1023-1025, 4095-4097, 65536 and T in interface/int64/float64/Nanos/Duration/string/Level: n sends by the main goroutine with no receiver alive, len(c) = n, one more sender seen parked (goroutine states), len(c) still n, n+1 receives (exact sequence), refill, close, for-in drains exactly the rest, receive expression nil, v,ok leaves v untouched; 200000 (thorough 1000000) messages through one channel (capacity 0/1/7/1024, for-in / counted receive expression / v,ok loop) and a for-in over 65537 items; " +
	"hotnode - one send node and one receive node evaluated about 16000 (thorough 56000) times over eight channels of different element types and five kinds of values by the schedules monomorphic 1100 / switch / alternating / one odd in 257 / blocks of 700, every received value compared with the conversion to the element type; one v,ok node, one receive-expression node, one for-in node, one close node and one try-wrapped send node evaluated on 4900 (thorough 14700) fresh channels of changing element type that are open, closed with a value queued or closed and drained, every outcome an item of the exact expected sequence; 20000 short-lived goroutines from one go site, each sending the arguments it got. Evidence: tags reached:<what>=<size>, counters r8_*."

var c16R8Assumptions = []string{
	"phase volume: the statement puts no bound on the number of goroutines, the size of a buffer or the length of a run, so none is assumed; a refusal with an ERROR that reaches the caller (e.g. a limit on script recursion reported by the run) would be reported as main-error and looked at, a go call whose callee silently never runs is a lost message / a deadlock (decided on goroutine states: every interpreter goroutine parked in a channel operation of the vm in two identical samples); a watchdog or the sampler's give-up is inconclusive",
	"phase volume, history: the programs of a history share the process and nothing else (a fresh environment per run); goroutines left parked by earlier runs under their own contexts are excluded from the goroutine-state samples by their ids; nothing depends on whether or when memory is reused",
	"phase volume, buffers: make(chan T, n) has room for n values (Go semantics: the n-th send of a goroutine that is alone does not block, the n+1-th does); len(c) of a channel is the number of values queued",
}

type c16r8Case struct {
	kind  string // history | crowd | leaked | buffers | stream | forin | hot-xfer | hot-closed | go-site
	shape string // crowd: chain | fanin | fanout | mixed
	sizes []int
}

func c16r8Table(tier string) []c16r8Case {
	t := []c16r8Case{
		{kind: "history"},
		{kind: "leaked", sizes: []int{4097, 12000, 4097}},
		{kind: "overlap-host", sizes: []int{12, 8000}},
		{kind: "overlap-script", sizes: []int{12, 8000}},
		{kind: "overlap-host", sizes: []int{16, 5000}},
		{kind: "overlap-host", sizes: []int{4, 8000}},
		{kind: "overlap-script", sizes: []int{5, 8000}},
		{kind: "overlap-host", sizes: []int{8, 8000}},
		{kind: "crowd", shape: "chain", sizes: []int{12000}},
		{kind: "crowd", shape: "fanin", sizes: []int{12000}},
		{kind: "crowd", shape: "fanout", sizes: []int{12000}},
		{kind: "stream", sizes: []int{200000}},
		{kind: "hot-xfer"},
		{kind: "hot-closed"},
		{kind: "buffers", sizes: []int{65536}},
		{kind: "crowd", shape: "chain", sizes: []int{4095, 4096, 4097}},
		{kind: "crowd", shape: "fanin", sizes: []int{4095, 4096, 4097}},
		{kind: "crowd", shape: "fanout", sizes: []int{4095, 4096, 4097}},
		{kind: "go-site", sizes: []int{20000}},
		{kind: "buffers", sizes: []int{4095, 4096, 4097}},
		{kind: "forin", sizes: []int{65537}},
		{kind: "crowd", shape: "mixed", sizes: []int{255, 256, 257, 1023, 1024, 1025}},
		{kind: "buffers", sizes: []int{0, 1, 255, 256, 257, 1023, 1024, 1025}},
	}
	if tier == "thorough" {
		big := []c16r8Case{
			{kind: "crowd", shape: "chain", sizes: []int{30000}},
			{kind: "crowd", shape: "fanin", sizes: []int{30000}},
			{kind: "crowd", shape: "fanout", sizes: []int{30000}},
			{kind: "crowd", shape: "chain", sizes: []int{20000}},
			{kind: "crowd", shape: "fanin", sizes: []int{20000}},
			{kind: "crowd", shape: "fanout", sizes: []int{20000}},
			{kind: "leaked", sizes: []int{12000, 12000, 12000}},
			{kind: "stream", sizes: []int{1000000}},
			{kind: "stream", sizes: []int{200000, 65535, 65536, 65537}},
		}
		// the quick list three times (other PRNG choices: callee forms, depths, element types, GOMAXPROCS)
		t = append(big, append(append(append([]c16r8Case{}, t...), t...), t...)...)
	}
	return t
}

func c16R8Phases(tier string) []fw.Phase {
	return []fw.Phase{{Name: "volume", Cases: len(c16r8Table(tier)), Chunk: 1, TimeoutS: 1800, MemMB: 8192}}
}

func c16R8Run(c *wk.Case) bool {
	if c.Phase != "volume" {
		return false
	}
	defer runtime.GOMAXPROCS(runtime.GOMAXPROCS(0))
	t := c16r8Table(c.Tier)
	k := t[c.Index%len(t)]
	c.Tag("r8:" + k.kind)
	switch k.kind {
	case "history":
		c16r8History(c)
	case "leaked":
		c16r8Leak(c, k.sizes[0])
		c.Tag(fmt.Sprintf("reached:goroutines_of_an_earlier_run_alive=%d", k.sizes[0]))
		c16r8Once(c, c16r8Chain(c.Rng, k.sizes[1]), c16r8Procs(c), "")
		c16r8Once(c, c16r8FanIn(c.Rng, k.sizes[2], true), c16r8Procs(c), "")
	case "crowd":
		for i, n := range k.sizes {
			shape := k.shape
			if shape == "mixed" {
				shape = []string{"chain", "fanin", "fanout"}[(i+c.Index+int(c.Rng.Int63()%3))%3]
			}
			var p *c16Prog
			switch shape {
			case "chain":
				p = c16r8Chain(c.Rng, n)
			case "fanin":
				p = c16r8FanIn(c.Rng, n, true)
			default:
				p = c16r8FanOut(c.Rng, n)
			}
			if !c16r8Once(c, p, c16r8Procs(c), "") {
				return true
			}
		}
	case "go-site":
		c16r8Once(c, c16r8FanIn(c.Rng, k.sizes[0], false), c16r8Procs(c), "")
	case "buffers":
		for _, n := range k.sizes {
			if !c16r8Once(c, c16r8Buffer(c.Rng, n), c16r8Procs(c), "") {
				return true
			}
			runtime.GC()
		}
	case "stream":
		for _, n := range k.sizes {
			c16r8Once(c, c16r8Stream(c.Rng, n, ""), c16r8Procs(c), "")
		}
	case "forin":
		c16r8Once(c, c16r8Stream(c.Rng, k.sizes[0], "forin"), c16r8Procs(c), "")
	case "overlap-host":
		c16r9Overlap(c, "host", k.sizes[0], k.sizes[1])
	case "overlap-script":
		c16r9Overlap(c, "script", k.sizes[0], k.sizes[1])
	case "hot-xfer":
		c16r8Once(c, c16r8HotXfer(c.Rng, c.Tier), c16r8Procs(c), "")
	case "hot-closed":
		c16r8Once(c, c16r8HotClosed(c.Rng, c.Tier), c16r8Procs(c), "")
	}
	return true
}

func c16r8Procs(c *wk.Case) int { return c16Procs[c.Rng.Intn(len(c16Procs))] }

func c16r8New(kind string) *c16Prog {
	return &c16Prog{kind: kind, keys: map[string]c16Msg{}, expArgs: map[string]string{}, argForm: map[string]string{},
		recvForm: map[string]string{}, expRep: map[string][]string{}, repSig: map[string]string{}, syncCap: -1, consumer: "int64(0)", fam: 'n'}
}

// c16r8Once runs one program once and judges it with the engine's oracle. live is the number
// of goroutines the program keeps alive at once (it paces the goroutine-state sampler: a dump
// of all stacks of a crowd is expensive). Returns false when the run did not hold.
func c16r8Once(c *wk.Case, p *c16Prog, procs int, prefix string) bool {
	if runtime.GOMAXPROCS(0) != procs {
		runtime.GOMAXPROCS(procs)
	}
	for _, tg := range p.tags {
		c.Tag(tg)
	}
	limit := p.total + 3
	if strings.HasPrefix(p.kind, "sem:") {
		limit = 8
	}
	h := newC16Host(limit, c.Rng.Int63(), p.sleepPm, p.yieldPm)
	if p.r8Live > 0 || p.total > 2000 {
		h.budget = 12*p.total + 8*p.r8Live + 100000
		h.pace = 20 + p.r8Live/150 // sampler periods between two samples: 0.3 s + 0.1 s per 1000 goroutines
		h.maxPolls = 12000
	}
	r := c16Execute(c, p, procs, h)
	viols, inconc, _ := c16Judge(p, r, h)
	c.Eval(p.hash(), p.total > 0 || len(p.expRep) > 0)
	c.Events(h.events)
	c.Tag("procs:" + strconv.Itoa(procs))
	input := p.input(procs)
	seen := map[string]bool{}
	for _, x := range viols {
		if seen[x.sig] {
			continue
		}
		seen[x.sig] = true
		c.Violation(prefix+x.sig, x.detail, input)
	}
	for _, x := range inconc {
		c.Inconclusive(x.sig, x.detail, input)
	}
	if len(viols) == 0 && len(inconc) == 0 {
		c.Count("messages-delivered-and-verified", len(h.collected[p.consumer]))
		c.Count("runs-held", 1)
		c.Count("r8_runs_held", 1)
		c.Count("r8_go_argument_reports_verified", len(p.expArgs))
		for _, tg := range p.r8Reached {
			c.Tag("reached:" + tg)
		}
		if c.WantSample() && p.r8Live+p.total > 0 && len(p.src) < 6000 {
			got := h.collected[p.consumer]
			if len(got) > 6 {
				got = append(append([]string{}, got[:6]...), fmt.Sprintf("… %d items", len(h.collected[p.consumer])))
			}
			c.Sample(map[string]interface{}{"src": p.src, "gomaxprocs": procs, "collected": got, "reports": h.reports, "go_argument_reports": len(h.args), "kind": p.kind})
		}
		return true
	}
	return false
}

// ---------------------------------------------------------------------------
// crowd

var c16r8Forms = []string{"named", "anon", "variadic", "six"}
var c16r8Parks = []string{"forin", "expr", "vok"}

// callee of the go statement: header of the innermost function (depth 1) for the form, the
// wrappers around it, and the go statement. params are the named parameters (the variadic form
// reads them from rest, the six-parameter form gets two more that it ignores).
func c16r8Callee(b *strings.Builder, form string, depth int, name string, params []string, body string, argv []string) (goStmt string) {
	ps := strings.Join(params, ", ")
	av := strings.Join(argv, ", ")
	switch form {
	case "variadic":
		fmt.Fprintf(b, "func %s1(rest...) {\n", name)
		for i, p := range params {
			fmt.Fprintf(b, "\t%s = rest[%d]\n", p, i)
		}
		b.WriteString(body + "}\n")
		for d := 2; d <= depth; d++ {
			fmt.Fprintf(b, "func %s%d(rest...) { %s%d(rest...) }\n", name, d, name, d-1)
		}
		return fmt.Sprintf("go %s%d(%s)", name, depth, av)
	case "six":
		for len(params) < 6 {
			params = append(params, "pad"+strconv.Itoa(len(params)))
			argv = append(argv, strconv.Itoa(len(argv)))
		}
		ps, av = strings.Join(params, ", "), strings.Join(argv, ", ")
	}
	if form == "anon" && depth == 1 {
		return fmt.Sprintf("go func(%s) {\n%s}(%s)", ps, body, av)
	}
	fmt.Fprintf(b, "func %s1(%s) {\n%s}\n", name, ps, body)
	for d := 2; d <= depth; d++ {
		if form == "anon" && d == depth {
			return fmt.Sprintf("go func(%s) { %s%d(%s) }(%s)", ps, name, d-1, ps, av)
		}
		fmt.Fprintf(b, "func %s%d(%s) { %s%d(%s) }\n", name, d, ps, name, d-1, ps)
	}
	return fmt.Sprintf("go %s%d(%s)", name, depth, av)
}

func c16r8CrowdTags(p *c16Prog, shape string, n, depth int, form, park string) {
	p.tags = append(p.tags, "r8:crowd:"+shape, "r8:go-form:"+form, "r8:park:"+park, "r8:depth:"+strconv.Itoa(depth))
	p.r8Live = n
	p.r8Reached = append(p.r8Reached, fmt.Sprintf("live_goroutines_parked_in_script_functions=%d", n), fmt.Sprintf("script_activations_alive=%d", n*depth))
}

// daisy chain of n stages; k values go in at the right end, each comes out at the left end as value+n
func c16r8Chain(r *rand.Rand, n int) *c16Prog {
	p := c16r8New("r8:chain")
	form, depth := c16r8Forms[r.Intn(len(c16r8Forms))], 1+r.Intn(3)
	park := c16r8Parks[r.Intn(2)]
	els := [][]string{{"int64"}, {"int64", "interface"}, {"int64", "float64", "interface"}}[r.Intn(3)]
	k := 3
	var body string
	if park == "forin" {
		body = "\targs(i, t)\n\tready <- true\n\tfor v in r {\n\t\tl <- v + 1\n\t}\n\tclose(l)\n"
	} else {
		k = 1
		body = "\targs(i, t)\n\tready <- true\n\tl <- 1 + <-r\n"
	}
	var b strings.Builder
	fmt.Fprintf(&b, "ready = make(chan bool, %d)\n", n)
	goStmt := c16r8Callee(&b, form, depth, "stage", []string{"l", "r", "i", "t"}, body, []string{"left", "right", "i", "t"})
	b.WriteString("leftmost = make(chan int64)\nleft = leftmost\nright = leftmost\n")
	fmt.Fprintf(&b, "els = [%s]\n", `"`+strings.Join(els, `", "`)+`"`)
	fmt.Fprintf(&b, "for i = 0; i < %d; i++ {\n", n)
	switch len(els) {
	case 1:
		b.WriteString("\tright = make(chan int64)\n")
	case 2:
		b.WriteString("\tif i % 2 == 0 {\n\t\tright = make(chan interface)\n\t} else {\n\t\tright = make(chan int64, 1)\n\t}\n")
	default:
		b.WriteString("\tif i % 3 == 0 {\n\t\tright = make(chan float64)\n\t} else if i % 3 == 1 {\n\t\tright = make(chan interface, 1)\n\t} else {\n\t\tright = make(chan int64)\n\t}\n")
	}
	fmt.Fprintf(&b, "\tt = \"s\" + i\n\t%s\n\tt = \"x\"\n\tleft = right\n}\n", goStmt)
	fmt.Fprintf(&b, "for i = 0; i < %d; i++ {\n\t<-ready\n}\n", n)
	if park == "forin" {
		fmt.Fprintf(&b, "func feed(c) {\n\tfor j = 0; j < %d; j++ {\n\t\tc <- j * 1000000\n\t}\n\tclose(c)\n}\ngo feed(right)\nfor v in leftmost {\n\titem(0, v)\n}\n", k)
	} else {
		b.WriteString("func inject(c, v) {\n\tc <- v\n}\ninject(right, 0)\nitem(0, <-leftmost)\n")
	}
	p.src = b.String()
	for j := 0; j < k; j++ {
		key := ank.Render(int64(j*1000000 + n))
		p.keys[key] = c16Msg{group: 1, seq: j, id: j}
		p.exact = append(p.exact, key)
	}
	p.total = k
	p.final = "int64"
	p.recvForm["int64(0)"] = park
	for i := 0; i < n; i++ {
		ks := ank.Render(int64(i))
		p.expArgs[ks] = ks + " " + strconv.Quote("s"+strconv.Itoa(i))
		p.argForm[ks] = "r8:" + form
	}
	c16r8CrowdTags(p, "chain", n, depth, form, park)
	return p
}

type c16r8OutEl struct{ decl, typ string }

var c16r8OutEls = []c16r8OutEl{{"interface", "int64"}, {"int64", "int64"}, {"float64", "float64"}, {"Nanos", "main.c16Nanos"}, {"Duration", "time.Duration"}}

// fan-in of n producers; gated: all of them are parked on the gate until the main goroutine has
// seen them ready (a crowd); not gated: short-lived goroutines from one go site
func c16r8FanIn(r *rand.Rand, n int, gated bool) *c16Prog {
	p := c16r8New("r8:fanin")
	form, depth := c16r8Forms[r.Intn(len(c16r8Forms))], 1+r.Intn(3)
	park := c16r8Parks[r.Intn(3)]
	el := c16r8OutEls[r.Intn(len(c16r8OutEls))]
	m := 1 + r.Intn(2)
	cp := []int{0, 1, n}[r.Intn(3)]
	body := "\targs(i, t)\n"
	if gated {
		body += "\tready <- true\n"
		switch park {
		case "expr":
			body += "\t<-gate\n"
		case "vok":
			body += "\tg, ok = <-gate\n"
		default:
			body += "\tfor x in gate {\n\t}\n"
		}
	} else {
		p.kind = "r8:go-site"
		park = "none"
	}
	body += "\tfor j = 0; j < m; j++ {\n\t\tout <- i * 100000 + j\n\t}\n\tdone <- true\n"
	var b strings.Builder
	fmt.Fprintf(&b, "out = make(chan %s, %d)\ngate = make(chan bool)\nready = make(chan bool, %d)\ndone = make(chan bool, %d)\n", el.decl, cp, n, n)
	goStmt := c16r8Callee(&b, form, depth, "prod", []string{"i", "t", "m"}, body, []string{"i", "t", strconv.Itoa(m)})
	fmt.Fprintf(&b, "func closer() {\n\tfor i = 0; i < %d; i++ {\n\t\t<-done\n\t}\n\tclose(out)\n}\ngo closer()\n", n)
	fmt.Fprintf(&b, "for i = 0; i < %d; i++ {\n\tt = \"s\" + i\n\t%s\n\tt = \"x\"\n}\n", n, goStmt)
	if gated {
		fmt.Fprintf(&b, "for i = 0; i < %d; i++ {\n\t<-ready\n}\nclose(gate)\n", n)
	}
	b.WriteString("for v in out {\n\titem(0, v)\n}\n")
	p.src = b.String()
	id := 0
	for i := 0; i < n; i++ {
		for j := 0; j < m; j++ {
			p.keys[ank.Render(c16Val('n', i, j, el.typ))] = c16Msg{group: i, seq: j, id: id}
			id++
		}
		ks := ank.Render(int64(i))
		p.expArgs[ks] = ks + " " + strconv.Quote("s"+strconv.Itoa(i))
		p.argForm[ks] = "r8:" + form
	}
	p.total = id
	p.final = el.typ
	p.recvForm["int64(0)"] = "forin"
	if gated {
		c16r8CrowdTags(p, "fanin", n, depth, form, park)
	} else {
		p.tags = append(p.tags, "r8:go-site", "r8:go-form:"+form, "r8:depth:"+strconv.Itoa(depth))
		p.r8Live = n
		p.r8Reached = append(p.r8Reached, fmt.Sprintf("goroutines_started_from_one_go_site=%d", n))
	}
	p.tags = append(p.tags, "elem:"+el.decl, capTag(cp))
	return p
}

// fan-out: n workers parked in a for-in over ONE job channel, n+7 jobs, results collected by main
func c16r8FanOut(r *rand.Rand, n int) *c16Prog {
	p := c16r8New("r8:fanout")
	form, depth := c16r8Forms[r.Intn(len(c16r8Forms))], 1+r.Intn(3)
	cj, cr := []int{0, 1, 7}[r.Intn(3)], []int{0, 1, 7}[r.Intn(3)]
	m := n + 7
	body := "\targs(i, t)\n\tready <- true\n\tfor v in jobs {\n\t\tres <- v\n\t}\n\tdone <- true\n"
	var b strings.Builder
	fmt.Fprintf(&b, "jobs = make(chan int64, %d)\nres = make(chan interface, %d)\nready = make(chan bool, %d)\ndone = make(chan bool, %d)\n", cj, cr, n, n)
	goStmt := c16r8Callee(&b, form, depth, "work", []string{"i", "t"}, body, []string{"i", "t"})
	fmt.Fprintf(&b, "func closer() {\n\tfor i = 0; i < %d; i++ {\n\t\t<-done\n\t}\n\tclose(res)\n}\ngo closer()\n", n)
	fmt.Fprintf(&b, "for i = 0; i < %d; i++ {\n\tt = \"s\" + i\n\t%s\n\tt = \"x\"\n}\n", n, goStmt)
	fmt.Fprintf(&b, "for i = 0; i < %d; i++ {\n\t<-ready\n}\n", n)
	fmt.Fprintf(&b, "func feed() {\n\tfor j = 0; j < %d; j++ {\n\t\tjobs <- j\n\t}\n\tclose(jobs)\n}\ngo feed()\nfor v in res {\n\titem(0, v)\n}\n", m)
	p.src = b.String()
	for j := 0; j < m; j++ {
		p.keys[ank.Render(int64(j))] = c16Msg{group: j, seq: 0, id: j}
	}
	for i := 0; i < n; i++ {
		ks := ank.Render(int64(i))
		p.expArgs[ks] = ks + " " + strconv.Quote("s"+strconv.Itoa(i))
		p.argForm[ks] = "r8:" + form
	}
	p.total = m
	p.final = "int64"
	p.recvForm["int64(0)"] = "forin"
	c16r8CrowdTags(p, "fanout", n, depth, form, "forin")
	return p
}

// goroutines of an earlier run, left parked for the rest of the process: another environment,
// a context that is never cancelled
var c16r8Kept []interface{}

func c16r8Leak(c *wk.Case, n int) {
	e := ank.NewCoreEnv()
	ctx, cancel := context.WithCancel(context.Background())
	c16r8Kept = append(c16r8Kept, e, cancel)
	base := runtime.NumGoroutine()
	src := fmt.Sprintf("never = make(chan int64)\nfunc sit2(i) {\n\t<-never\n}\nfunc sit(i) {\n\tsit2(i)\n}\nfor i = 0; i < %d; i++ {\n\tgo sit(i)\n}\n", n)
	c.Begin(map[string]interface{}{"src": src, "kind": "r8:earlier-run-left-alive"})
	o := ank.ExecCtx(ctx, e, src)
	if o.Panicked || o.Err != nil {
		c.Inconclusive("r8:earlier-run-failed", ank.ErrText(o.Err)+o.PanicVal, src)
		return
	}
	for i := 0; i < 20000 && runtime.NumGoroutine() < base+n; i++ {
		time.Sleep(200 * time.Microsecond)
	}
	s := c16TakeSample(nil)
	c16IgnoreMu.Lock()
	fresh := 0
	for _, g := range s.gs {
		if !c16Ignore[g.id] {
			fresh++
		}
		c16Ignore[g.id] = true
	}
	c16IgnoreMu.Unlock()
	c.Count("r8_goroutines_left_alive_by_earlier_runs", fresh)
}

// ---------------------------------------------------------------------------
// buffers and long streams

type c16r8El struct {
	decl, typ string // element type: spelling, dynamic type of what comes out ("" = the type sent)
	wrap, src string // what is sent: host function around the value ("" = plain), its dynamic type
	fam       byte
}

var c16r8Els = []c16r8El{
	{"interface", "", "", "int64", 'n'}, {"int64", "int64", "", "int64", 'n'}, {"float64", "float64", "", "int64", 'n'},
	{"Nanos", "main.c16Nanos", "", "int64", 'n'}, {"int64", "int64", "nanos", "main.c16Nanos", 'n'}, {"Duration", "time.Duration", "nanos", "main.c16Nanos", 'n'},
	{"interface", "", "dur", "time.Duration", 'n'}, {"string", "string", "", "string", 's'}, {"Level", "main.c16Level", "", "string", 's'},
	{"string", "string", "level", "main.c16Level", 's'}, {"interface", "", "", "string", 's'},
}

func (el c16r8El) expr(ie string) string {
	x := ie
	if el.fam == 's' {
		x = `"m0_" + ` + "(" + ie + ")"
	}
	if el.wrap != "" {
		x = el.wrap + "(" + x + ")"
	}
	return x
}

func (el c16r8El) want(i int) string {
	typ := el.typ
	if typ == "" {
		typ = el.src
	}
	return ank.Render(c16Val(el.fam, 0, i, typ))
}

func c16r8Buffer(r *rand.Rand, n int) *c16Prog {
	p := c16r8New("r8:buffer")
	el := c16r8Els[r.Intn(len(c16r8Els))]
	p.fam = el.fam
	var b strings.Builder
	fmt.Fprintf(&b, "c = make(chan %s, %d)\n", el.decl, n)
	fmt.Fprintf(&b, "for i = 0; i < %d; i++ {\n\tc <- %s\n}\nreport(\"len-full\", len(c))\n", n, el.expr("i"))
	fmt.Fprintf(&b, "func extra(ch, v) {\n\tch <- v\n\tmark(\"extra\", 0)\n}\ngo extra(c, %s)\nsendersparked(1)\nreport(\"len-extra\", len(c))\n", el.expr(strconv.Itoa(n)))
	fmt.Fprintf(&b, "for i = 0; i < %d; i++ {\n\titem(0, <-c)\n}\nreport(\"len-drained\", len(c))\n", n+1)
	fmt.Fprintf(&b, "for i = 0; i < %d; i++ {\n\tc <- %s\n}\nreport(\"len-refull\", len(c))\nclose(c)\n", n, el.expr(fmt.Sprintf("%d + i", n+1)))
	b.WriteString("for v in c {\n\titem(0, v)\n}\nreport(\"closed-recv\", <-c)\nv = \"untouched\"\nok = \"unset\"\nv, ok = <-c\nreport(\"closed-vok\", [v, ok])\n")
	p.src = b.String()
	for i := 0; i < 2*n+1; i++ {
		key := el.want(i)
		p.keys[key] = c16Msg{group: 1, seq: i, id: i}
		p.exact = append(p.exact, key)
	}
	p.total = 2*n + 1
	p.final = el.typ
	ln := ank.Render(int64(n))
	exp := func(name, sig string, v ...string) { p.expRep[name], p.repSig[name] = v, "r8:buffer:"+sig }
	exp("len-full", "len", ln)
	exp("len-extra", "len", ln)
	exp("len-drained", "len", ank.Render(int64(0)))
	exp("len-refull", "len", ln)
	exp("closed-recv", "closed-recv", "nil")
	exp("closed-vok", "closed-vok", ank.Render([]interface{}{"untouched", false}))
	p.mustMark = map[string]string{"extra:" + ank.Render(int64(0)): "r8:buffer:extra-sender-never-finished"}
	p.recvForm["int64(0)"] = "counted"
	p.tags = append(p.tags, "r8:buffer", "elem:"+el.decl, "source:"+el.src)
	p.r8Reached = append(p.r8Reached, fmt.Sprintf("buffer_filled_to_the_brim=%d", n))
	return p
}

// n messages through one channel: producer goroutine, the main goroutine consumes
func c16r8Stream(r *rand.Rand, n int, form string) *c16Prog {
	p := c16r8New("r8:stream")
	el := c16r8Els[r.Intn(len(c16r8Els))]
	p.fam = el.fam
	if form == "" {
		form = []string{"forin", "counted", "vok"}[r.Intn(3)]
	}
	cp := []int{0, 1, 7, 1024}[r.Intn(4)]
	var b strings.Builder
	fmt.Fprintf(&b, "c = make(chan %s, %d)\nfunc prod(c, n) {\n\tfor i = 0; i < n; i++ {\n\t\tc <- %s\n\t}\n\tclose(c)\n}\ngo prod(c, %d)\n", el.decl, cp, el.expr("i"), n)
	switch form {
	case "forin":
		b.WriteString("for v in c {\n\titem(0, v)\n}\n")
	case "counted":
		fmt.Fprintf(&b, "for i = 0; i < %d; i++ {\n\titem(0, <-c)\n}\n", n)
	default:
		b.WriteString("for {\n\tv, ok = <-c\n\tif !ok {\n\t\tbreak\n\t}\n\titem(0, v)\n}\n")
	}
	b.WriteString("report(\"closed-recv\", <-c)\n")
	p.src = b.String()
	for i := 0; i < n; i++ {
		key := el.want(i)
		p.keys[key] = c16Msg{group: 1, seq: i, id: i}
		p.exact = append(p.exact, key)
	}
	p.total = n
	p.final = el.typ
	p.expRep["closed-recv"], p.repSig["closed-recv"] = []string{"nil"}, "r8:stream:closed-recv"
	p.recvForm["int64(0)"] = form
	p.tags = append(p.tags, "r8:stream:"+form, "elem:"+el.decl, "source:"+el.src, capTag(cp))
	p.r8Reached = append(p.r8Reached, fmt.Sprintf("messages_through_one_channel=%d", n), fmt.Sprintf("items_delivered_by_one_%s_loop=%d", form, n))
	return p
}

// ---------------------------------------------------------------------------
// hot nodes

type c16r8Seg struct {
	count int
	ks    []int // index lists walked by i % len
	ws    []int
}

func c16r8List(v []int) string {
	s := make([]string, len(v))
	for i, x := range v {
		s[i] = strconv.Itoa(x)
	}
	return "[" + strings.Join(s, ", ") + "]"
}

// the five schedules over combos (pairs of indices); a, b, s are PRNG-chosen combos, all = every combo
func c16r8Schedule(r *rand.Rand, all [][2]int, pick func() [2]int) []c16r8Seg {
	one := func(n int, cs ...[2]int) c16r8Seg {
		sg := c16r8Seg{count: n}
		for _, x := range cs {
			sg.ks, sg.ws = append(sg.ks, x[0]), append(sg.ws, x[1])
		}
		return sg
	}
	a, b, s := pick(), pick(), pick()
	odd := make([][2]int, 257)
	for i := range odd {
		odd[i] = a
	}
	odd[r.Intn(257)] = b
	return []c16r8Seg{one(1100, a), one(1100, b), one(4*len(all), all...), one(257*6, odd...), one(700, a), one(700, s), one(700, b), one(1100, s), one(1025, a, s)}
}

func c16r8HotXfer(r *rand.Rand, tier string) *c16Prog {
	p := c16r8New("r8:hot-xfer")
	chs := []c16r8OutEl{{"interface", ""}, {"int64", "int64"}, {"float64", "float64"}, {"Nanos", "main.c16Nanos"}, {"Duration", "time.Duration"}, {"string", "string"}, {"Level", "main.c16Level"}, {"interface", ""}}
	wsrc := []string{"int64", "main.c16Nanos", "time.Duration", "string", "main.c16Level"}
	var all [][2]int
	for k := range chs {
		for w := range wsrc {
			num := w < 3
			switch {
			case k == 2 && w != 0: // only int64 -> float64 is among the exact conversions
			case k >= 1 && k <= 4 && num, k >= 5 && k <= 6 && !num, k == 0, k == 7:
				all = append(all, [2]int{k, w})
			}
		}
	}
	rounds := 2
	if tier == "thorough" {
		rounds = 7
	}
	var b strings.Builder
	b.WriteString("chs = [")
	for i, ch := range chs {
		if i > 0 {
			b.WriteString(", ")
		}
		fmt.Fprintf(&b, "make(chan %s, 1)", ch.decl)
	}
	b.WriteString("]\n")
	b.WriteString("func wrap(w, i) {\n\tif w == 0 {\n\t\treturn i\n\t}\n\tif w == 1 {\n\t\treturn nanos(i)\n\t}\n\tif w == 2 {\n\t\treturn dur(i)\n\t}\n\tif w == 3 {\n\t\treturn \"m0_\" + i\n\t}\n\treturn level(\"m0_\" + i)\n}\n")
	b.WriteString("func xfer(c, v) {\n\tc <- v\n\treturn <-c\n}\n")
	b.WriteString("func run(lo, hi, ks, ws) {\n\tn = len(ks)\n\tfor i = lo; i < hi; i++ {\n\t\tj = i % n\n\t\titem(0, xfer(chs[ks[j]], wrap(ws[j], i)))\n\t}\n}\n")
	i := 0
	for rd := 0; rd < rounds; rd++ {
		for _, sg := range c16r8Schedule(r, all, func() [2]int { return all[r.Intn(len(all))] }) {
			fmt.Fprintf(&b, "run(%d, %d, %s, %s)\n", i, i+sg.count, c16r8List(sg.ks), c16r8List(sg.ws))
			for e := i + sg.count; i < e; i++ {
				j := i % len(sg.ks)
				typ := chs[sg.ks[j]].typ
				if typ == "" {
					typ = wsrc[sg.ws[j]]
				}
				fam := byte('n')
				if sg.ws[j] >= 3 {
					fam = 's'
				}
				key := ank.Render(c16Val(fam, 0, i, typ))
				p.keys[key] = c16Msg{group: 1, seq: i, id: i}
				p.exact = append(p.exact, key)
			}
		}
	}
	p.src = b.String()
	p.total = i
	p.fam, p.final = 'x', "changing"
	p.recvForm["int64(0)"] = "expr"
	p.tags = append(p.tags, "r8:hot-xfer")
	p.r8Reached = append(p.r8Reached, fmt.Sprintf("evaluations_of_one_send_and_one_receive_node>=%d", i/1000*1000), fmt.Sprintf("element_type_and_value_type_combinations_at_one_node=%d", len(all)))
	return p
}

func c16r8HotClosed(r *rand.Rand, tier string) *c16Prog {
	p := c16r8New("r8:hot-closed")
	typs := []string{"int64", "", "float64", "string", "main.c16Nanos"} // element types of mk(t): int64, interface, float64, string, Nanos
	var all [][2]int
	for t := range typs {
		for m := 0; m < 2; m++ {
			all = append(all, [2]int{t, m})
		}
	}
	rounds := 1
	if tier == "thorough" {
		rounds = 3
	}
	var b strings.Builder
	b.WriteString("func mk(t) {\n\tif t == 0 {\n\t\treturn make(chan int64, 2)\n\t}\n\tif t == 1 {\n\t\treturn make(chan interface, 2)\n\t}\n\tif t == 2 {\n\t\treturn make(chan float64, 2)\n\t}\n\tif t == 3 {\n\t\treturn make(chan string, 2)\n\t}\n\treturn make(chan Nanos, 2)\n}\n")
	b.WriteString("func val(t, i) {\n\tif t == 3 {\n\t\treturn \"m0_\" + i\n\t}\n\treturn i\n}\n")
	b.WriteString("func rxok(c) {\n\tv = \"untouched\"\n\tok = \"unset\"\n\tv, ok = <-c\n\treturn [v, ok]\n}\n")
	b.WriteString("func rxe(c) {\n\treturn <-c\n}\n")
	b.WriteString("func drain(c) {\n\tn = 0\n\tlast = nil\n\tfor x in c {\n\t\tn++\n\t\tlast = x\n\t}\n\treturn [n, last]\n}\n")
	b.WriteString("func cl(c) {\n\tr = \"closed\"\n\ttry {\n\t\tclose(c)\n\t} catch e {\n\t\tr = \"error\"\n\t}\n\treturn r\n}\n")
	b.WriteString("func snd(c, v) {\n\tr = \"sent\"\n\ttry {\n\t\tc <- v\n\t} catch e {\n\t\tr = \"error\"\n\t}\n\treturn r\n}\n")
	b.WriteString("func round(i, t, mode) {\n\tc = mk(t)\n\tif mode == 0 {\n" +
		"\t\titem(0, [\"a\", i, snd(c, val(t, i))])\n\t\titem(0, [\"b\", i, rxok(c)])\n\t\titem(0, [\"c\", i, cl(c)])\n\t\titem(0, [\"d\", i, cl(c)])\n\t\titem(0, [\"e\", i, snd(c, val(t, i))])\n\t\titem(0, [\"f\", i, rxe(c)])\n\t\titem(0, [\"g\", i, rxok(c)])\n\t\titem(0, [\"h\", i, drain(c)])\n" +
		"\t} else {\n" +
		"\t\titem(0, [\"a\", i, snd(c, val(t, i))])\n\t\titem(0, [\"b\", i, snd(c, val(t, i + 1))])\n\t\titem(0, [\"c\", i, cl(c)])\n\t\titem(0, [\"d\", i, rxok(c)])\n\t\titem(0, [\"e\", i, drain(c)])\n\t\titem(0, [\"f\", i, rxe(c)])\n\t\titem(0, [\"g\", i, rxok(c)])\n\t\titem(0, [\"h\", i, snd(c, val(t, i))])\n\t\titem(0, [\"k\", i, cl(c)])\n" +
		"\t}\n}\n")
	b.WriteString("func run(lo, hi, ks, ws) {\n\tn = len(ks)\n\tfor i = lo; i < hi; i++ {\n\t\tj = i % n\n\t\tround(i, ks[j], ws[j])\n\t}\n}\n")
	i, id := 0, 0
	add := func(tag string, i int, v interface{}) {
		key := ank.Render([]interface{}{tag, int64(i), v})
		p.keys[key] = c16Msg{group: 1, seq: id, id: id}
		p.exact = append(p.exact, key)
		id++
	}
	for rd := 0; rd < rounds; rd++ {
		for _, sg := range c16r8Schedule(r, all, func() [2]int { return all[r.Intn(len(all))] }) {
			cnt := sg.count * 6 / 10 // 4900 rounds of 8-9 observations
			fmt.Fprintf(&b, "run(%d, %d, %s, %s)\n", i, i+cnt, c16r8List(sg.ks), c16r8List(sg.ws))
			for e := i + cnt; i < e; i++ {
				j := i % len(sg.ks)
				t, mode := sg.ks[j], sg.ws[j]
				val := func(i int) interface{} {
					fam, typ := byte('n'), typs[t]
					if t == 3 {
						fam = 's'
					}
					if typ == "" {
						typ = "int64"
					}
					return c16Val(fam, 0, i, typ)
				}
				none := []interface{}{"untouched", false}
				if mode == 0 {
					add("a", i, "sent")
					add("b", i, []interface{}{val(i), true})
					add("c", i, "closed")
					add("d", i, "error")
					add("e", i, "error")
					add("f", i, nil)
					add("g", i, none)
					add("h", i, []interface{}{int64(0), nil})
				} else {
					add("a", i, "sent")
					add("b", i, "sent")
					add("c", i, "closed")
					add("d", i, []interface{}{val(i), true})
					add("e", i, []interface{}{int64(1), val(i + 1)})
					add("f", i, nil)
					add("g", i, none)
					add("h", i, "error")
					add("k", i, "error")
				}
			}
		}
	}
	p.src = b.String()
	p.total = id
	p.fam, p.final = 'x', "observations"
	p.recvForm["int64(0)"] = "closed-ops"
	p.tags = append(p.tags, "r8:hot-closed")
	p.r8Reached = append(p.r8Reached, fmt.Sprintf("channels_made_closed_and_dropped_in_one_run>=%d", i/1000*1000), fmt.Sprintf("evaluations_of_one_vok_forin_close_node>=%d", i/1000*1000))
	return p
}

// ---------------------------------------------------------------------------
// history

var c16r8Dist = []int{255, 256, 257, 999, 1000, 1001, 1023, 1024, 1025, 4095, 4096, 4097}

func c16r8Small(r *rand.Rand, tier string) *c16Prog {
	n := 1 + r.Intn(3)
	switch x := r.Intn(20); {
	case x < 8:
		return c16Semantic(r.Intn(c16SemCount()))
	case x < 12:
		return c16Linear(r, n, tier)
	case x < 15:
		return c16FanIn(r, n, tier)
	case x < 17:
		return c16FanOut(r, n, tier)
	case x < 19:
		return c16Zip(r, n, tier)
	}
	return c16Sync(r, tier)
}

func c16r8History(c *wk.Case) {
	total := 4200
	if c.Tier == "thorough" {
		total = 13000
	}
	var refs []*c16Prog
	for j := 0; j < 8; j++ {
		refs = append(refs, c16Semantic((j*c16SemCount()/8+3*j+int(c.Rng.Int63()%7))%c16SemCount()))
	}
	for j := 0; j < 4; j++ {
		rr := rand.New(rand.NewSource(c.Rng.Int63()))
		refs = append(refs, []func() *c16Prog{
			func() *c16Prog { return c16Linear(rr, 3, c.Tier) }, func() *c16Prog { return c16FanIn(rr, 2, c.Tier) },
			func() *c16Prog { return c16Zip(rr, 2, c.Tier) }, func() *c16Prog { return c16FanOut(rr, 3, c.Tier) }}[j]())
	}
	for _, p := range refs {
		p.sleepPm, p.yieldPm = 0, 300
	}
	last := make([]int, len(refs))
	procs := c16r8Procs(c)
	ask := func(j, s int) bool {
		p := refs[j]
		p.r8Note = fmt.Sprintf("reference program #%d of the history, asked again after %d other programs (%d programs run in this process so far)", j, s-last[j], s)
		if s > 0 {
			c.Tag(fmt.Sprintf("reached:reask_distance=%d", s-last[j]))
			c.Count("r8_reference_programs_asked_again", 1)
		}
		last[j] = s
		return c16r8Once(c, p, procs, "r8:history:reask:")
	}
	for j := range refs {
		if !ask(j, 0) {
			return
		}
	}
	distinct := map[string]bool{}
	bad := 0
	for s := 1; s <= total; s++ {
		p := c16r8Small(c.Rng, c.Tier)
		p.src = fmt.Sprintf("h8n = %d\n", s) + p.src
		p.sleepPm, p.yieldPm = 0, 300
		p.r8Note = fmt.Sprintf("program #%d of a history run in one process (the replay re-runs the whole history)", s)
		distinct[p.src] = true
		if !c16r8Once(c, p, procs, "r8:history:") {
			if bad++; bad >= 3 {
				break
			}
		}
		for j := range refs {
			if s-last[j] == c16r8Dist[j] {
				if !ask(j, s) {
					bad++
				}
			}
		}
		if s%97 == 0 {
			runtime.GC()
		}
		if s%600 == 300 {
			c16r8Leak(c, 50)
		}
		if s%1000 == 0 {
			procs = c16r8Procs(c)
		}
	}
	c.Count("r8_history_distinct_programs_in_one_process", len(distinct))
	c.Tag(fmt.Sprintf("reached:distinct_programs_in_one_process>=%d", len(distinct)/500*500))
}
