package main

// C14, phase iso — "two environments never observe each other's bindings".
//
// Three kinds of case:
//
//   modcopy  a script binds a module (or an imported package) to further names
//            (`n = m`, `var n = m`, `n, k = m, m`, through a function result or
//            a list element): every such name is an environment of its own.
//            One side is then changed (member assignment, functions of the
//            module that set or delete with and without the global flag, from a
//            nested module too, definitions, deletions and type definitions at
//            the top level) and the views of all OTHER sides, taken before and
//            after the change by the script itself, must be equal.
//   envcopy  a template environment (one or two scopes deep, prepared by a
//            script) is copied with Env.DeepCopy / Env.Copy (also a copy of a
//            copy); one environment is changed through the env API or by a
//            script handed to vm.Execute with it; the views of all other
//            environments (env API: Get / Type of every watched name, the value
//            Get returns next to "undefined symbol", and a script reading the
//            same names and the literal nil) must not change. (The change
//            api-Addr-store — a store through the pointer Env.Addr returns for a
//            nil-bound name — waits behind c14PendingFix_addrNilCell; the change
//            script-struct-field-assign — a field store into a struct-typed
//            binding, which is a value of its own in every environment — waits
//            behind c14PendingFix_copySharesStructCell, c14_r5.go.)
//   stamp    n environments are stamped from one template; the same source is
//            run in each (in phase conc: at the same time, in the race build);
//            all runs must yield the same value and error, and the template
//            must be unchanged.
//
// Only bindings are compared. What the statement does not determine is kept out
// of the domain: values reachable from both sides by reference (lists, maps,
// nested modules, which Copy/DeepCopy and module assignment share like any other
// value) are never mutated in place; functions are closures over the
// environment they were defined in, so a call of a template's or module's
// function through a copy changes the ORIGINAL — such a call counts as a change
// of the original and the copies are watched; Env.Copy shares the parent scopes
// by contract, so under Copy only the copied scope is changed.

import (
	"context"
	"fmt"
	"reflect"
	"strings"
	"sync"
	"time"

	"github.com/mattn/anko/env"

	"verifharness/internal/ank"
	"verifharness/internal/realrun"
	"verifharness/internal/wk"
)

const c14U = "\"<undef>\""

type c14Mut struct {
	kind  string // signature part
	code  string
	actor string // the side whose bindings the statement changes
}

// ---------------------------------------------------------------------------
// modcopy

const c14ModSetup = `g1 = 10
g2 = "gs"
make(type GT, 1)
module m {
	a = 1
	b = "two"
	c = [3]
	make(type T, 1.5)
	func seta(v) { a = v }
	func del(k) { delete(k, true) }
	func delhere(k) { delete(k) }
	func setg(v) { g1 = v }
	module i {
		x = 7
		func delup(k) { delete(k, true) }
		func setup(v) { a = v }
	}
}
`

// views: the copy sees the module's names and (through its own snapshot of the
// enclosing scopes) the globals; the original side is the module plus the real globals
func c14ModViewCopy(n string) string {
	parts := []string{}
	for _, nm := range []string{"a", "b", "c", "g1", "g2", "newg", "seta", "i"} {
		parts = append(parts, fmt.Sprintf("%s.%s ?? %s", n, nm, c14U))
	}
	for _, t := range []string{"T", "GT", "NT"} {
		parts = append(parts, fmt.Sprintf("make(%s.%s) ?? %s", n, t, c14U))
	}
	return "[" + strings.Join(parts, ", ") + "]"
}

func c14ModViewOrig() string {
	parts := []string{}
	for _, nm := range []string{"m.a", "m.b", "m.c", "g1", "g2", "newg", "m.g1", "m.seta"} {
		parts = append(parts, fmt.Sprintf("%s ?? %s", nm, c14U))
	}
	for _, t := range []string{"m.T", "GT", "NT", "m.GT"} {
		parts = append(parts, fmt.Sprintf("make(%s) ?? %s", t, c14U))
	}
	return "[" + strings.Join(parts, ", ") + "]"
}

var c14ModMutsOrig = []c14Mut{
	{"member-assign", "m.a = 99", "m"}, {"member-assign", "m.b = \"changed\"", "m"}, {"member-assign", "m.c = [4, 5]", "m"},
	{"closure-set", "m.seta(98)", "m"},
	{"closure-delete-flag", "m.del(\"a\")", "m"}, {"closure-delete-flag", "m.del(\"b\")", "m"}, {"closure-delete-flag", "m.del(\"c\")", "m"}, {"closure-delete-flag", "m.del(\"seta\")", "m"},
	{"closure-delete", "m.delhere(\"a\")", "m"},
	{"nested-closure-delete-flag", "m.i.delup(\"b\")", "m"}, {"nested-closure-delete-flag", "m.i.delup(\"a\")", "m"},
	{"nested-closure-set", "m.i.setup(97)", "m"},
	{"closure-delete-flag-global", "m.del(\"g1\")", "m"}, {"nested-closure-delete-flag-global", "m.i.delup(\"g2\")", "m"},
	{"closure-set-global", "m.setg(54)", "m"},
	{"global-assign", "g1 = 55", "m"}, {"global-assign", "g2 = [1]", "m"},
	{"global-delete", "delete(\"g1\")", "m"}, {"global-delete-flag", "delete(\"g2\", true)", "m"},
	{"global-define", "newg = 1", "m"}, {"global-var", "var g1 = \"v\"", "m"},
	{"global-type-define", "make(type NT, \"s\")", "m"}, {"global-type-redefine", "make(type GT, \"s\")", "m"},
	{"global-func-define", "func g2() { return 1 }", "m"}, {"global-module-define", "module g1 { q = 1 }", "m"},
	{"global-delete-module-name", "delete(\"m\")", "m"},
}

func c14ModMutsCopy(n string) []c14Mut {
	return []c14Mut{
		{"copy-member-assign", n + ".a = 5", n}, {"copy-member-assign", n + ".b = \"nb\"", n}, {"copy-member-assign", n + ".c = [0]", n},
		{"copy-member-assign", n + ".seta = 1", n},
		{"copy-member-assign-enclosing", n + ".g1 = 6", n}, {"copy-member-assign-enclosing", n + ".g2 = \"ng\"", n},
	}
}

// import variant: the package table bound to m, copied to n
const c14ImpSetup = "g1 = 10\nm = import(\"strings\")\n"

func c14ImpView(n string) string {
	return fmt.Sprintf("[%s.ToLower(\"Ab\") ?? %s, %s.ToUpper(\"Ab\") ?? %s, %s.TrimSpace(\" x \") ?? %s, %s.g1 ?? %s, import(\"strings\").ToLower(\"Ab\") ?? %s]", n, c14U, n, c14U, n, c14U, n, c14U, c14U)
}

func c14ImpMuts(n string) []c14Mut {
	return []c14Mut{
		{"import-member-assign", n + ".ToLower = " + n + ".ToUpper", n}, {"import-member-assign", n + ".ToUpper = 5", n},
		{"import-member-assign", n + ".TrimSpace = func(s) { return \"mine\" }", n}, {"import-member-assign-enclosing", n + ".g1 = 7", n},
	}
}

func c14IsoModCopy(c *wk.Case) {
	var b strings.Builder
	imp := c.Rng.Intn(5) == 0
	if imp {
		b.WriteString(c14ImpSetup)
	} else {
		b.WriteString(c14ModSetup)
	}
	// the copies
	sides := []string{"m", "n"}
	form := ""
	switch c.Rng.Intn(6) {
	case 0:
		form = "n = m\n"
	case 1:
		form = "var n = m\n"
	case 2:
		form, sides = "n, k = m, m\n", append(sides, "k")
	case 3:
		form = "func id(z) { return z }\nn = id(m)\n"
	case 4:
		form = "l = [m]\nn = l[0]\n"
	default:
		// a copy of a copy
		form, sides = "n = m\nk = n\n", append(sides, "k")
	}
	b.WriteString(form)
	view := func(s string) string {
		switch {
		case imp:
			return c14ImpView(s)
		case s == "m":
			return c14ModViewOrig()
		}
		return c14ModViewCopy(s)
	}
	emitViews := func(step int) {
		for _, s := range sides {
			fmt.Fprintf(&b, "rd(\"V%d:%s\", %s)\n", step, s, view(s))
		}
	}
	emitViews(0)
	var muts []c14Mut
	nm := 1 + c.Rng.Intn(3)
	for i := 0; i < nm; i++ {
		var pool []c14Mut
		// the original side has by far the most ways to change
		actor := "m"
		if imp || c.Rng.Intn(5) < 2 {
			actor = sides[c.Rng.Intn(len(sides))]
		}
		switch {
		case imp:
			pool = c14ImpMuts(actor)
		case actor == "m":
			pool = c14ModMutsOrig
		default:
			pool = c14ModMutsCopy(actor)
		}
		mu := pool[c.Rng.Intn(len(pool))]
		muts = append(muts, mu)
		b.WriteString(mu.code + "\n")
		emitViews(i + 1)
	}
	src := b.String()
	input := map[string]interface{}{"source": src, "kind": "modcopy"}
	c.Begin(input)
	tree, perr, po := ank.Parse(src)
	if po.Panicked || perr != nil || tree == nil {
		c.Inconclusive("iso-program-does-not-parse", ank.ErrText(perr), input)
		return
	}
	r := realrun.RunTreeWatchdog(tree, 4*time.Second, true)
	if r.TimedOut || r.Overflow || r.Unsettled {
		c.Excluded("watchdog")
		return
	}
	// the views by step and side
	views := map[string]string{}
	for _, ev := range r.Trace {
		if strings.HasPrefix(ev, "rd V") {
			if eq := strings.Index(ev, "="); eq > 0 {
				views[ev[3:eq]] = ev[eq+1:]
			}
		}
	}
	changed, cut := false, false
	for i, mu := range muts {
		if cut {
			break
		}
		for _, s := range sides {
			before, ok1 := views[fmt.Sprintf("V%d:%s", i, s)]
			after, ok2 := views[fmt.Sprintf("V%d:%s", i+1, s)]
			if !ok1 || !ok2 {
				// a change that addresses a name an earlier change removed (m.a = 99 after
				// m.del("a")) ends the run with an error: the steps before it were compared,
				// the rest did not run
				if r.ErrText == "" || i == 0 {
					c.Inconclusive("iso-program-failed", fmt.Sprintf("no view of %s after step %d: error %q panic %q", s, i+1, r.ErrText, r.PanicVal), input)
					return
				}
				c.Tag("iso:modcopy-cut-short")
				cut = true
				break
			}
			if s == mu.actor {
				changed = changed || before != after
				continue
			}
			if before != after {
				c.Violation("module-copy-leak:"+mu.kind, fmt.Sprintf("`%s` changes the bindings of %s, but the view of %s (an environment of its own since `%s`) changed with it:\nbefore %s\nafter  %s", mu.code, mu.actor, s, strings.TrimSpace(form), before, after), input)
				return
			}
		}
	}
	c14Canary(c, "modcopy program")
	c.Eval(src, changed)
	c.Events(len(views))
	c.Tag("phase:iso", "iso:modcopy")
	for _, mu := range muts {
		c.Tag("iso-mutation:" + mu.kind)
	}
	if c.WantSample() {
		c.Sample(map[string]interface{}{"phase": "iso", "kind": "modcopy", "source": src})
	}
}

// ---------------------------------------------------------------------------
// envcopy and stamp: templates and the env API

const c14RootSetup = `g1 = 10
g2 = "gs"
g3 = [1]
make(type GT, 1)
func fdel(k) { delete(k, true) }
func fset(v) { g1 = v }
func fget() { return g1 }
module gm { q = 1 }
`

const c14ChildSetup = `l1 = 1
l2 = "x"
make(type LT, 1.5)
func ldel(k) { delete(k, true) }
func lset(v) { l1 = v }
`

var (
	c14RootNames  = []string{"g1", "g2", "g3", "fset", "gm"}
	c14ChildNames = []string{"l1", "l2", "lset"}
	c14NewNames   = []string{"nw", "nm"}
	c14WatchNames = func() []string {
		w := []string{"g1", "g2", "g3", "fset", "fdel", "fget", "gm", "l1", "l2", "lset", "ldel", "nw", "nm", "s"}
		if !c14PendingFix_copySharesStructCell {
			w = append(w, "gs")
		}
		return w
	}()
	c14WatchTypes = []string{"GT", "LT", "NT"}
)

type c14Tmpl struct {
	depth    int
	copyKind string
	root, t  *env.Env
	// names whose binding lives in a scope that a copy owns
	own      []string
	ownTypes []string
}

func c14NewTemplate(depth int, copyKind string) (*c14Tmpl, bool) {
	t := &c14Tmpl{depth: depth, copyKind: copyKind}
	t.root = ank.NewCoreEnv()
	setup := c14RootSetup
	if !c14PendingFix_copySharesStructCell {
		// a binding of struct type: a value of its own in every environment (c14_r5.go)
		setup += c14R5StructSetup
	}
	if o := ank.Exec(t.root, setup); o.Err != nil || o.Panicked {
		return nil, false
	}
	t.t = t.root
	t.own, t.ownTypes = append([]string(nil), c14RootNames...), []string{"GT"}
	if depth == 2 {
		t.t = t.root.NewEnv()
		if o := ank.Exec(t.t, c14ChildSetup); o.Err != nil || o.Panicked {
			return nil, false
		}
		if copyKind == "Copy" {
			// the parent scope stays shared by contract
			t.own, t.ownTypes = nil, nil
		}
		t.own = append(t.own, c14ChildNames...)
		t.ownTypes = append(t.ownTypes, "LT")
	}
	return t, true
}

func (t *c14Tmpl) stamp(from *env.Env) *env.Env {
	if t.copyKind == "Copy" {
		return from.Copy()
	}
	return from.DeepCopy()
}

// rootIsolated: changes that reach the outermost scope stay on one side
func (t *c14Tmpl) rootIsolated() bool { return t.copyKind == "DeepCopy" || t.depth == 1 }

func c14EnvView(e *env.Env) string {
	var parts []string
	for _, n := range c14WatchNames {
		if v, err := e.Get(n); err == nil {
			parts = append(parts, n+"="+ank.Render(v))
		} else {
			parts = append(parts, n+"=<undef>")
		}
	}
	for _, n := range c14WatchTypes {
		if ty, err := e.Type(n); err == nil && ty != nil {
			parts = append(parts, "type "+n+"="+ty.String())
		} else {
			parts = append(parts, "type "+n+"=<undef>")
		}
	}
	// what Get hands back next to "undefined symbol" is the environment's nil
	if v, err := e.Get("zz_never_bound"); err != nil {
		parts = append(parts, "nil-of-undefined="+ank.Render(v))
	}
	return strings.Join(parts, " ")
}

var c14ScriptViewSrc = func() string {
	var parts []string
	for _, n := range c14WatchNames {
		parts = append(parts, n+" ?? "+c14U)
	}
	for _, n := range c14WatchTypes {
		parts = append(parts, "make("+n+") ?? "+c14U)
	}
	parts = append(parts, "nil")
	return "[" + strings.Join(parts, ", ") + "]"
}()

func c14ScriptView(e *env.Env) string {
	o := ank.Exec(e, c14ScriptViewSrc)
	if o.Panicked {
		return "panic " + o.PanicSig
	}
	return ank.Render(o.Val) + " " + ank.ErrText(o.Err)
}

type c14EnvMut struct {
	kind   string
	text   string
	code   string // the script, for changes made by a script
	onTmpl bool   // a call of a template function: changes the template's bindings wherever it is called
	apply  func(e *env.Env)
}

// c14EnvMutKinds is the number of kinds of change c14PickEnvMut draws from; the last one
// (api-Addr-store) is held back while c14PendingFix_addrNilCell is set.
var c14EnvMutKinds = func() int {
	switch {
	case c14PendingFix_addrNilCell:
		return 22
	case c14PendingFix_copySharesStructCell:
		return 23
	}
	// 23: a field of the struct-typed binding gs is stored (c14_r5.go)
	return 24
}()

func c14Values(c *wk.Case) (interface{}, string) {
	switch c.Rng.Intn(4) {
	case 0:
		n := int64(100 + c.Rng.Intn(900))
		return n, fmt.Sprint(n)
	case 1:
		s := fmt.Sprintf("v%d", c.Rng.Intn(100))
		return s, fmt.Sprintf("%q", s)
	case 2:
		return 2.5, "2.5"
	}
	return []interface{}{int64(7)}, "[7]"
}

// c14PickEnvMut draws one change of the bindings of an environment stamped from t.
func c14PickEnvMut(c *wk.Case, t *c14Tmpl, allowClosures bool) c14EnvMut {
	pick := func(l []string) string { return l[c.Rng.Intn(len(l))] }
	anyName := func() string {
		if c.Rng.Intn(3) == 0 {
			return pick(c14NewNames)
		}
		return pick(t.own)
	}
	gv, sv := c14Values(c)
	script := func(kind, code string) c14EnvMut {
		return c14EnvMut{kind: kind, text: "vm.Execute(e, `" + code + "`)", code: code, apply: func(e *env.Env) { ank.Exec(e, code) }}
	}
	for {
		switch c.Rng.Intn(c14EnvMutKinds) {
		case 23:
			// a struct is a value: storing a field changes the binding gs of THIS environment
			// (under Env.Copy with two scopes gs lives in the shared parent scope)
			if !t.rootIsolated() {
				continue
			}
			return script("script-struct-field-assign", []string{"gs.X = " + fmt.Sprint(100+c.Rng.Intn(900)), "gs.S = \"changed\"", "gs.X++", "gs.X, nw = 7, 1"}[c.Rng.Intn(4)])
		case 22:
			// the host binds a name to nil, asks the env API for the address of the binding and
			// stores through it: a change of THIS environment's binding (c14PendingFix_addrNilCell)
			n := pick(c14NewNames)
			return c14EnvMut{kind: "api-Addr-store", text: fmt.Sprintf("e.Define(%q, nil); p, err := e.Addr(%q); if err == nil { p.Elem().Set(%s) }", n, n, sv), apply: func(e *env.Env) {
				e.Define(n, nil)
				p, err := e.Addr(n)
				if err != nil || p.Kind() != reflect.Ptr || p.IsNil() || !p.Elem().CanSet() {
					return
				}
				defer func() { recover() }() // a refused store changes nothing
				p.Elem().Set(reflect.ValueOf(gv))
			}}
		case 0:
			n := anyName()
			return c14EnvMut{kind: "api-Define", text: fmt.Sprintf("e.Define(%q, %s)", n, sv), apply: func(e *env.Env) { e.Define(n, gv) }}
		case 1:
			n := pick(t.own)
			return c14EnvMut{kind: "api-Set", text: fmt.Sprintf("e.Set(%q, %s)", n, sv), apply: func(e *env.Env) { e.Set(n, gv) }}
		case 2:
			n := anyName()
			return c14EnvMut{kind: "api-Delete", text: fmt.Sprintf("e.Delete(%q)", n), apply: func(e *env.Env) { e.Delete(n) }}
		case 3:
			n := pick(t.own)
			return c14EnvMut{kind: "api-DeleteGlobal", text: fmt.Sprintf("e.DeleteGlobal(%q)", n), apply: func(e *env.Env) { e.DeleteGlobal(n) }}
		case 4:
			n := pick([]string{"NT", "LT", "GT"})
			return c14EnvMut{kind: "api-DefineType", text: fmt.Sprintf("e.DefineType(%q, %s)", n, sv), apply: func(e *env.Env) { e.DefineType(n, gv) }}
		case 5:
			if !t.rootIsolated() {
				continue
			}
			n := anyName()
			return c14EnvMut{kind: "api-DefineGlobal", text: fmt.Sprintf("e.DefineGlobal(%q, %s)", n, sv), apply: func(e *env.Env) { e.DefineGlobal(n, gv) }}
		case 6:
			if !t.rootIsolated() {
				continue
			}
			n := pick([]string{"NT", "GT"})
			return c14EnvMut{kind: "api-DefineGlobalType", text: fmt.Sprintf("e.DefineGlobalType(%q, %s)", n, sv), apply: func(e *env.Env) { e.DefineGlobalType(n, gv) }}
		case 7:
			return c14EnvMut{kind: "api-NewModule", text: "e.NewModule(\"nm\")", apply: func(e *env.Env) { e.NewModule("nm") }}
		case 8:
			return script("script-assign", pick(t.own)+" = "+sv)
		case 9:
			return script("script-define", pick(c14NewNames)+" = "+sv)
		case 10:
			return script("script-var", "var "+anyName()+" = "+sv)
		case 11:
			return script("script-delete", "delete(\""+anyName()+"\")")
		case 12:
			return script("script-delete-flag", "delete(\""+pick(t.own)+"\", true)")
		case 13:
			return script("script-type-define", "make(type "+pick([]string{"NT", "LT", "GT"})+", "+sv+")")
		case 14:
			return script("script-func-define", "func "+anyName()+"() { return 1 }")
		case 15:
			return script("script-module-define", "module "+anyName()+" { z = 1 }")
		case 16:
			return script("script-import-bind", "s = import(\"strings\")\ns.ToLower = 1")
		case 17:
			return script("script-multi-assign", pick(t.own)+", nw = "+sv+", 1")
		case 18:
			// a function of the script itself: its deletes and stores act on the environment it runs in
			return script("script-own-function-delete-flag", "func zdel(k) { delete(k, true) }\nzdel(\""+pick(t.own)+"\")\ndelete(\"zdel\")")
		case 19:
			if !allowClosures || !t.rootIsolated() {
				continue
			}
			m := script("template-closure-set", "fset("+sv+")")
			m.onTmpl = true
			return m
		case 20:
			if !allowClosures {
				continue
			}
			if t.depth == 2 {
				m := script("template-closure-delete-flag", "ldel(\""+pick(c14ChildNames)+"\")")
				m.onTmpl = true
				return m
			}
			m := script("template-closure-delete-flag", "fdel(\""+pick(c14RootNames)+"\")")
			m.onTmpl = true
			return m
		case 21:
			if !allowClosures || t.depth != 2 {
				continue
			}
			m := script("template-closure-set", "lset("+sv+")")
			m.onTmpl = true
			return m
		}
	}
}

func c14IsoEnvCopy(c *wk.Case) {
	depth := 1 + c.Rng.Intn(2)
	copyKind := []string{"DeepCopy", "DeepCopy", "Copy"}[c.Rng.Intn(3)]
	t, ok := c14NewTemplate(depth, copyKind)
	if !ok {
		c.Inconclusive("iso-template-setup-failed", "", nil)
		return
	}
	names := []string{"T", "A", "B"}
	envs := map[string]*env.Env{"T": t.t}
	hist := []string{fmt.Sprintf("T = template (%d scope(s))", depth)}
	envs["A"] = t.stamp(t.t)
	hist = append(hist, "A = T."+copyKind+"()")
	envs["B"] = t.stamp(t.t)
	hist = append(hist, "B = T."+copyKind+"()")
	if c.Rng.Intn(2) == 0 {
		// a copy of a copy
		envs["C"] = t.stamp(envs["A"])
		names = append(names, "C")
		hist = append(hist, "C = A."+copyKind+"()")
	}
	views := map[string]string{}
	sviews := map[string]string{}
	for _, n := range names {
		views[n], sviews[n] = c14EnvView(envs[n]), c14ScriptView(envs[n])
	}
	nm := 1 + c.Rng.Intn(4)
	changed := false
	var kinds []string
	for i := 0; i < nm; i++ {
		on := names[c.Rng.Intn(len(names))]
		mu := c14PickEnvMut(c, t, true)
		actor := on
		if mu.onTmpl {
			actor = "T"
		}
		hist = append(hist, fmt.Sprintf("on %s: %s", on, mu.text))
		kinds = append(kinds, mu.kind)
		input := map[string]interface{}{"history": hist, "kind": "envcopy"}
		c.Begin(input)
		mu.apply(envs[on])
		for _, n := range names {
			v, sv := c14EnvView(envs[n]), c14ScriptView(envs[n])
			if n == actor {
				changed = changed || v != views[n]
				views[n], sviews[n] = v, sv
				continue
			}
			if v != views[n] {
				c.Violation("env-copy-leak:"+copyKind+":"+mu.kind, fmt.Sprintf("%s changes the bindings of %s, but what the env API reads in %s changed with it:\nbefore %s\nafter  %s", mu.text, actor, n, views[n], v), input)
				return
			}
			if sv != sviews[n] {
				c.Violation("env-copy-leak:"+copyKind+":"+mu.kind, fmt.Sprintf("%s changes the bindings of %s, but what a script reads in %s changed with it:\nbefore %s\nafter  %s", mu.text, actor, n, sviews[n], sv), input)
				return
			}
		}
	}
	c14Canary(c, "envcopy history")
	c.Eval(strings.Join(hist, "\n"), changed)
	c.Events(nm * len(names))
	c.Tag("phase:iso", "iso:envcopy", "iso-copy:"+copyKind)
	for _, k := range kinds {
		c.Tag("iso-mutation:" + k)
	}
	if c.WantSample() {
		c.Sample(map[string]interface{}{"phase": "iso", "kind": "envcopy", "history": hist})
	}
}

// c14IsoStamp: the same source in n environments stamped from one template.
func c14IsoStamp(c *wk.Case, concurrent bool) {
	depth := 1 + c.Rng.Intn(2)
	copyKind := []string{"DeepCopy", "DeepCopy", "Copy"}[c.Rng.Intn(3)]
	t, ok := c14NewTemplate(depth, copyKind)
	if !ok {
		c.Inconclusive("iso-template-setup-failed", "", nil)
		return
	}
	// the source: reads and changes of bindings, its value is the view at the end
	var lines []string
	ns := 1 + c.Rng.Intn(5)
	for i := 0; i < ns; i++ {
		if c.Rng.Intn(4) == 0 {
			lines = append(lines, "fget()")
			continue
		}
		for {
			mu := c14PickEnvMut(c, t, false)
			if mu.code != "" {
				lines = append(lines, mu.code)
				break
			}
		}
	}
	lines = append(lines, c14ScriptViewSrc)
	src := strings.Join(lines, "\n")
	n := 2 + c.Rng.Intn(3)
	if concurrent {
		n = 6
	}
	allBefore := concurrent || c.Rng.Intn(2) == 0
	input := map[string]interface{}{"source": src, "kind": "stamp", "template-scopes": depth, "copy": copyKind, "environments": n, "all-stamped-before-first-run": allBefore, "concurrent": concurrent}
	c.Begin(input)
	tree, perr, po := ank.Parse(src)
	if po.Panicked || perr != nil || tree == nil {
		c.Inconclusive("iso-program-does-not-parse", ank.ErrText(perr), input)
		return
	}
	tv, tsv := c14EnvView(t.t), c14ScriptView(t.t)
	envs := make([]*env.Env, n)
	if allBefore {
		for i := range envs {
			envs[i] = t.stamp(t.t)
		}
	}
	obs := make([]string, n)
	run := func(i int) {
		ctx, cancel := context.WithTimeout(context.Background(), 4*time.Second)
		defer cancel()
		o := ank.RunCtx(ctx, envs[i], tree)
		switch {
		case ctx.Err() != nil:
			obs[i] = "<timeout>"
		case o.Panicked:
			obs[i] = "panic " + o.PanicSig
		default:
			obs[i] = ank.Render(o.Val) + " error=" + ank.ErrText(o.Err)
		}
	}
	if concurrent {
		var wg sync.WaitGroup
		start := make(chan struct{})
		for i := 0; i < n; i++ {
			wg.Add(1)
			go func(i int) { defer wg.Done(); <-start; run(i) }(i)
		}
		close(start)
		wg.Wait()
	} else {
		for i := 0; i < n; i++ {
			if !allBefore {
				envs[i] = t.stamp(t.t)
			}
			run(i)
		}
	}
	for i := range obs {
		if obs[i] == "<timeout>" {
			c.Excluded("watchdog")
			return
		}
	}
	how := "one after the other"
	if concurrent {
		how = "at the same time"
	}
	for i := 1; i < n; i++ {
		if obs[i] != obs[0] {
			c.Violation("stamped-env-run-differs:"+copyKind, fmt.Sprintf("the same source run %s in %d environments stamped from one template with %s: run 0 yields %s, run %d yields %s", how, n, copyKind, clipStr(obs[0], 500), i, clipStr(obs[i], 500)), input)
			return
		}
	}
	if v, sv := c14EnvView(t.t), c14ScriptView(t.t); v != tv || sv != tsv {
		c.Violation("stamped-env-run-changes-template:"+copyKind, fmt.Sprintf("runs in environments stamped with %s changed the template: before %s after %s", copyKind, tv, v), input)
		return
	}
	c14Canary(c, "stamp runs")
	c.Eval(src+"|"+copyKind+fmt.Sprint(depth), true)
	c.Events(n)
	c.Tag("phase:"+c.Phase, "iso:stamp", "iso-copy:"+copyKind)
	if c.WantSample() {
		c.Sample(input)
	}
}

func c14RunIso(c *wk.Case) {
	switch c.Index % 3 {
	case 0:
		c14IsoModCopy(c)
	case 1:
		c14IsoEnvCopy(c)
	default:
		c14IsoStamp(c, false)
	}
}
