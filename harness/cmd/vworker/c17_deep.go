package main

// C17, deep and wide programs.
//
// The quantifier of the property is "all parseable programs": a tree whose
// expressions (or blocks) are nested thousands of levels deep, or whose lists hold
// thousands of members, is a tree produced by the parser like any other, and every
// node of it has to be presented. The matrix / gen phases of c17.go never nest
// deeper than a handful of levels; the two phases of this file do:
//
//   phase deep (deterministic): every expression template of c17ExprTpls nested in
//   itself through each of its expression holes, raw (`a + a + ... + P`, `- - - P`,
//   `f(f(f(P)))`, `P.m.m.m`, `P[i][i][i]`) and with the child parenthesised
//   (`a + (a + (a + (P)))`), 500..3000 levels, in rotating statement contexts; every
//   block-holding template nested in itself through each of its block holes,
//   300..2000 levels; unparenthesised operator chains of 1000..3000 operators; wide
//   lists (statements, arguments, array/map members, else-if arms, switch cases,
//   assignment sides) of 1000..3000 members.
//
//   phase deepgen (PRNG): spines whose every level draws its (template, hole, fillers)
//   from a small random palette ("swarm", 1-11 variants per program), random depth in 500..3000 (a third of them within
//   a few levels of a power of two or a multiple of 500/1000), random fillers in the
//   holes off the spine, random payload at the bottom; and block spines likewise.
//
// The innermost expression ("payload") and a share of the fillers off the spine
// hold operator expressions of all four operator kinds, calls, lists, maps, a
// function literal, member/index/slice expressions, so that nodes of every kind sit
// at every depth. The oracle is c17Check, unchanged: reflection gives the node set,
// whatever the depth.

import (
	"fmt"
	"math/rand"
	"reflect"
	"strconv"
	"strings"
	"sync"

	"verifharness/internal/ank"
	"verifharness/internal/wk"
)

// a call is a primary expression: it can stand wherever an identifier can
const c17RichPayload = `f(p + q * r, -s, t.m[u] == v ? w : x ?? y, func(z){ return z && !z || z != nil }, [1, "s", k - 1], {"k": len(k), l % 2: !l}, <- ch, i in j, n[1:o - 1], (p | q) << 2, make([]int64, p / 2))`

var c17Payloads = []string{c17RichPayload, "p + q", c17RichPayload, "p * q", c17RichPayload, "p < q", c17RichPayload, "p && q"}

// statement contexts an expression is put into (%s); those the grammar rejects for
// a given expression fall back to the first one.
var c17DeepCtx = []string{
	"r = %s",
	"%s",
	"if %s { z }",
	"return %s",
	"f(1, %s, 2)",
	"var x = %s",
	"for x in %s { z }",
	"switch %s {\ncase 1:\nz\n}",
	"throw %s",
	"func g(x) { return %s }",
	"module M { r = %s }",
	"if a { z } else if %s { y }",
	"for ; %s; { z }",
	"switch a {\ncase %s:\nz\n}",
	"delete(m, %s)",
	"go f(%s)",
	"defer f(%s)",
	"x, y = m[%s]",
	"close(%s)",
	"c <- %s",
	"x, y = 1, %s",
	"try { throw %s } catch e { z }",
	"for { if %s { break } }",
}

var (
	c17DeepExprDepths = []int{500, 1200, 2000, 3000, 800, 1001, 1030, 2600, 1500, 2048}
	c17DeepStmtDepths = []int{300, 1100, 2000, 600, 1500}
	c17DeepChainLens  = []int{1000, 1024, 1025, 2000, 3000}
)

type c17DeepCase struct {
	kind  string // "expr", "block", "chain", "wide"
	tpl   c17Tpl
	hole  int
	paren bool
	depth int
	sub   int // chain: operator set; wide: which list
}

var (
	c17DeepOnce sync.Once
	c17DeepAll  []c17DeepCase
)

const c17WideKinds = 12

func c17DeepList() []c17DeepCase {
	c17DeepOnce.Do(func() {
		rot := 0
		for _, t := range c17ExprTpls {
			for h := 0; h < t.ne; h++ {
				for _, paren := range []bool{false, true} {
					c17DeepAll = append(c17DeepAll, c17DeepCase{kind: "expr", tpl: t, hole: h, paren: paren, depth: c17DeepExprDepths[rot%len(c17DeepExprDepths)]})
					rot++
				}
			}
		}
		rot = 0
		for _, t := range c17Cat(c17StmtTpls, c17ExprTpls) {
			for h := 0; h < t.nb; h++ {
				c17DeepAll = append(c17DeepAll, c17DeepCase{kind: "block", tpl: t, hole: h, depth: c17DeepStmtDepths[rot%len(c17DeepStmtDepths)]})
				rot++
			}
		}
		for _, n := range c17DeepChainLens {
			for si := range c17ChainOpsets {
				c17DeepAll = append(c17DeepAll, c17DeepCase{kind: "chain", depth: n, sub: si})
			}
		}
		for k := 0; k < c17WideKinds; k++ {
			c17DeepAll = append(c17DeepAll, c17DeepCase{kind: "wide", depth: []int{1000, 3000, 2000}[k%3], sub: k})
		}
	})
	return c17DeepAll
}

// c17SplitAt fills template t with hole `hole` left open: what stands before and
// after the hole.
func c17SplitAt(t c17Tpl, hole int, isBlock bool, fillE func(i int) string, fillB func(i int) string) (pre, post string) {
	es := make([]string, t.ne)
	for i := range es {
		es[i] = fillE(i)
	}
	bs := make([]string, t.nb)
	for i := range bs {
		bs[i] = fillB(i)
	}
	if isBlock {
		bs[hole] = "\x00"
	} else {
		es[hole] = "\x00"
	}
	s := c17Fill(t, es, bs)
	i := strings.IndexByte(s, 0)
	return s[:i], s[i+1:]
}

// c17Spine assembles pre[0] pre[1] ... payload ... post[1] post[0].
type c17Spine struct {
	pre  strings.Builder
	post []string
}

func (s *c17Spine) push(pre, post string) {
	s.pre.WriteString(pre)
	s.post = append(s.post, post)
}

func (s *c17Spine) close(payload string) string {
	s.pre.WriteString(payload)
	for i := len(s.post) - 1; i >= 0; i-- {
		s.pre.WriteString(s.post[i])
	}
	return s.pre.String()
}

// deterministic filler of a hole off the spine: mostly an atom, every fifth level a
// small operator expression, now and then the rich payload
func c17DeepFiller(level, hole int) string {
	switch {
	case level%97 == 13:
		return c17RichPayload
	case level%5 == 0:
		return "(" + c17Atoms[(level+hole)%len(c17Atoms)] + " - " + strconv.Itoa(level) + ")"
	case level%7 == 3:
		// (a bare number cannot stand before `.m` or `...`: `3.m`, `3...` do not lex)
		return "(" + strconv.Itoa(level) + ")"
	case level%11 == 4:
		return "\"s" + strconv.Itoa(level) + "\""
	}
	return c17Atoms[(level+hole)%len(c17Atoms)]
}

// c17ExprSpine nests t in itself `depth` times through hole `hole`. mode: 0 raw,
// 1 raw with a blank between the levels (`- - a`, not `--a`), 2 child parenthesised.
func c17ExprSpine(t c17Tpl, hole, depth, mode int, payload string) string {
	var sp c17Spine
	for l := 0; l < depth; l++ {
		pre, post := c17SplitAt(t, hole, false, func(i int) string { return c17DeepFiller(l, i) }, func(i int) string {
			if l%3 == 0 {
				return ""
			}
			return "z"
		})
		switch mode {
		case 1:
			pre, post = pre+" ", " "+post
		case 2:
			pre, post = pre+"(", ")"+post
		}
		sp.push(pre, post)
	}
	return sp.close(payload)
}

// c17BlockSpine nests t in itself through block hole `hole`; an expression template
// (a function literal) stands as an expression statement.
func c17BlockSpine(t c17Tpl, hole, depth int, inner string) string {
	var sp c17Spine
	for l := 0; l < depth; l++ {
		pre, post := c17SplitAt(t, hole, true, func(i int) string { return c17DeepFiller(l, i) }, func(i int) string {
			switch l % 4 {
			case 0:
				return ""
			case 1:
				return "y; x"
			}
			return "z"
		})
		// neighbours of the nested statement in its block, on some levels
		switch l % 6 {
		case 2:
			pre, post = pre+"\nw = "+strconv.Itoa(l)+"\n", "\n"+post
		case 4:
			pre, post = pre+"\n", "\nw++\n"+post
		default:
			pre, post = pre+"\n", "\n"+post
		}
		sp.push(pre, post)
	}
	return sp.close(inner)
}

var c17ChainOpsets = [][]string{{"+"}, {"+", "-", "|"}, {"*", "/", "%", "<<", ">>", "&"}, {"==", "!=", "<", "<=", ">", ">="}, {"&&", "||"}, {"+", "*", "==", "&&", "-", "/", "||", "<"}}

func c17Chain(n, si int) string {
	ops := c17ChainOpsets[si]
	var b strings.Builder
	b.WriteString("r = ")
	for i := 0; i <= n; i++ {
		if i > 0 {
			b.WriteString(" " + ops[(i*7+si)%len(ops)] + " ")
		}
		switch i % 5 {
		case 0:
			fmt.Fprintf(&b, "t%d", i)
		case 1:
			fmt.Fprintf(&b, "f%d(u%d)", i, i)
		case 2:
			fmt.Fprintf(&b, "%d", i)
		case 3:
			fmt.Fprintf(&b, "\"s%d\"", i)
		default:
			fmt.Fprintf(&b, "v%d[w%d]", i, i)
		}
	}
	return b.String()
}

// c17Wide: one list of n members, each member holding an operator expression.
func c17Wide(kind, n int) string {
	items := func(f string, sep string) string {
		var b strings.Builder
		for i := 0; i < n; i++ {
			if i > 0 {
				b.WriteString(sep)
			}
			b.WriteString(strings.ReplaceAll(f, "#", strconv.Itoa(i)))
		}
		return b.String()
	}
	switch kind {
	case 0:
		return items("x# = y# + #", "\n")
	case 1:
		return "r = f(" + items("a# * #", ", ") + ")"
	case 2:
		return "r = [" + items("a# - #", ", ") + "]"
	case 3:
		return "r = {" + items("\"k#\" + s: v# == #", ", ") + "}"
	case 4:
		return "if c { z }" + items(" else if c# > # { z# = -# }", "") + " else { y }"
	case 5:
		return "switch s {\n" + items("case a# + 1, #:\nz# = !b#", "\n") + "\ndefault:\ny\n}"
	case 6:
		return items("a#", ", ") + " = " + items("b# || #", ", ")
	case 7:
		return "func g() { return " + items("a# & #", ", ") + " }"
	case 8:
		return "var " + items("x#", ", ") + " = " + items("y# % 7", ", ")
	case 9:
		return "go h(" + items("a#.m(# + 1)", ", ") + ")"
	case 10:
		return "r = []int64{" + items("len(a#) + #", ", ") + "}"
	default:
		return items("if a# { x# = # } else { y#(# * 2) }", "; ")
	}
}

// a bare number cannot stand before `.m` or `...` (`3.m`, `3...` do not lex)
func c17SafeAtom(a string) string {
	if a != "" && (a[0] == '-' || a[0] >= '0' && a[0] <= '9') {
		return "(" + a + ")"
	}
	return a
}

// c17DeepTry parses and judges the first of srcs that parses.
func c17DeepTry(c *wk.Case, origin string, srcs ...string) bool {
	for i, s := range srcs {
		if c17Program(c, s, origin) {
			if i > 0 {
				c.Tag("deep:parsed-at-attempt-" + strconv.Itoa(i+1))
			}
			return true
		}
	}
	return false
}

func c17RunDeep(c *wk.Case) {
	list := c17DeepList()
	if c.Index >= len(list) {
		return
	}
	dc := list[c.Index]
	switch dc.kind {
	case "expr":
		payload := c17Payloads[c.Index%len(c17Payloads)]
		ctx := c17DeepCtx[c.Index%len(c17DeepCtx)]
		name := dc.tpl.src + "#" + strconv.Itoa(dc.hole)
		var srcs []string
		if dc.paren {
			e := c17ExprSpine(dc.tpl, dc.hole, dc.depth, 2, "("+payload+")")
			srcs = []string{fmt.Sprintf(ctx, e), "r = " + e}
			name += ":paren"
		} else {
			e0 := c17ExprSpine(dc.tpl, dc.hole, dc.depth, 0, payload)
			e1 := c17ExprSpine(dc.tpl, dc.hole, dc.depth, 1, payload)
			srcs = []string{fmt.Sprintf(ctx, e0), fmt.Sprintf(ctx, e1), "r = " + e0, "r = " + e1}
			name += ":raw"
		}
		if c17DeepTry(c, "deep-expr", srcs...) {
			c.Tag("deep-spine:" + name)
		} else {
			c.Tag("deep-spine-unparseable:" + name)
		}
	case "block":
		inner := "r = " + c17Payloads[c.Index%len(c17Payloads)] + "\nq = -r"
		name := dc.tpl.src + "@" + strconv.Itoa(dc.hole)
		s := c17BlockSpine(dc.tpl, dc.hole, dc.depth, inner)
		if c17DeepTry(c, "deep-block", s, "func g() {\n"+s+"\n}") {
			c.Tag("deep-spine:" + name)
		} else {
			c.Tag("deep-spine-unparseable:" + name)
		}
	case "chain":
		c17DeepTry(c, "deep-chain", c17Chain(dc.depth, dc.sub))
	case "wide":
		if !c17DeepTry(c, "deep-wide", c17Wide(dc.sub, dc.depth)) {
			c.Tag("deep-wide-unparseable:" + strconv.Itoa(dc.sub))
		}
	}
}

// ---------------------------------------------------------------------------
// PRNG-driven spines

type c17Hole struct {
	t c17Tpl
	h int
}

var (
	c17HolesOnce sync.Once
	c17EHoles    []c17Hole // expression holes of expression templates
	c17BHoles    []c17Hole // block holes of all templates
)

func c17Holes() {
	c17HolesOnce.Do(func() {
		for _, t := range c17ExprTpls {
			for h := 0; h < t.ne; h++ {
				c17EHoles = append(c17EHoles, c17Hole{t, h})
			}
		}
		for _, t := range c17Cat(c17StmtTpls, c17ExprTpls) {
			for h := 0; h < t.nb; h++ {
				c17BHoles = append(c17BHoles, c17Hole{t, h})
			}
		}
	})
}

func c17DeepDepth(r *rand.Rand, lo, hi int) int {
	if r.Intn(3) == 0 {
		// close to a "round" number, where a limit is most likely to sit
		round := []int{512, 1000, 1024, 1500, 2000, 2048, 2500, 3000}
		d := round[r.Intn(len(round))] + r.Intn(9) - 4
		if d >= lo && d <= hi {
			return d
		}
	}
	return lo + r.Intn(hi-lo+1)
}

type c17Level struct{ pre, post string }

// c17Palette draws up to `want` level variants with mk and keeps those that parse
// (wrapped by wrap, with payload as the child) alone, inside themselves and inside /
// around every variant kept before: whether X fits into the hole of Y depends on
// the outermost form of X and on Y only, so a spine of any depth over the kept
// variants parses (if it does not after all, the program is excluded like any
// other that does not parse). This only shapes the input; nothing here is judged.
func c17Palette(mk func() c17Level, wrap func(string) string, payload string, want int) []c17Level {
	parses := func(s string) bool {
		_, err, po := ank.Parse(wrap(s))
		return err == nil && !po.Panicked
	}
	var kept []c17Level
	for try := 0; try < 4*want && len(kept) < want; try++ {
		x := mk()
		ok := parses(x.pre+payload+x.post) && parses(x.pre+x.pre+payload+x.post+x.post)
		if ok {
			// a variant that holds its child twice (`(x += 1) += 1`, see c17UnfoldedSize below)
			// would only produce excluded programs: 16 levels of it show the doubling
			t, err, po := ank.Parse(wrap(strings.Repeat(x.pre, 16) + payload + strings.Repeat(x.post, 16)))
			ok = err == nil && !po.Panicked && c17UnfoldedSize(t, 60000) < 60000
		}
		for _, y := range kept {
			if !ok {
				break
			}
			ok = parses(x.pre+y.pre+payload+y.post+x.post) && parses(y.pre+x.pre+payload+x.post+y.post)
		}
		if ok {
			kept = append(kept, x)
		}
	}
	return kept
}

func c17RunDeepGen(c *wk.Case) {
	c17Holes()
	r := c.Rng
	g := &c17Gen{r: r, ekinds: c17EKinds, skinds: c17SKinds}
	// pools of small fillers that parse on their own (an expression in parentheses
	// fits every expression hole; a statement on its own line every block)
	var exprPool, stmtPool []string
	for try := 0; try < 40 && len(exprPool) < 8; try++ {
		g.budget = 3
		e := "(" + g.expr(2) + ")"
		if r.Intn(3) == 0 {
			e = "(" + g.atom() + []string{" + ", " * ", " == ", " && "}[r.Intn(4)] + g.atom() + ")"
		}
		if _, err, po := ank.Parse("r = f(" + e + ", 1)"); err == nil && !po.Panicked {
			exprPool = append(exprPool, e)
		}
	}
	for try := 0; try < 40 && len(stmtPool) < 6; try++ {
		g.budget = 3
		st := g.stmt(1)
		if _, err, po := ank.Parse("if a {\n" + st + "\n}"); err == nil && !po.Panicked {
			stmtPool = append(stmtPool, st)
		}
	}
	small := func() string {
		if len(exprPool) > 0 && r.Intn(4) == 0 {
			return exprPool[r.Intn(len(exprPool))]
		}
		return c17SafeAtom(g.atom())
	}
	smallBlock := func() string {
		switch r.Intn(4) {
		case 0:
			return ""
		case 1:
			if len(stmtPool) > 0 {
				return stmtPool[r.Intn(len(stmtPool))]
			}
		}
		return g.atom()
	}
	payload := c17RichPayload
	if r.Intn(2) == 0 && len(exprPool) > 0 {
		payload = "[" + strings.Join(exprPool, ", ") + "]"
	}
	// pick: the variants of the palette are drawn with unequal weights
	pick := func(pal []c17Level) c17Level {
		i := r.Intn(len(pal))
		if j := r.Intn(len(pal)); j < i {
			i = j
		}
		return pal[i]
	}
	if r.Intn(4) == 0 {
		// block spine
		pal := c17Palette(func() c17Level {
			hl := c17BHoles[r.Intn(len(c17BHoles))]
			pre, post := c17SplitAt(hl.t, hl.h, true, func(int) string { return small() }, func(int) string { return smallBlock() })
			pre, post = pre+"\n", "\n"+post
			if r.Intn(4) == 0 {
				pre += smallBlock() + "\n"
			}
			if r.Intn(4) == 0 {
				post = "\n" + smallBlock() + post
			}
			return c17Level{pre, post}
		}, func(s string) string { return s }, "r = "+payload, 1+r.Intn(6))
		if len(pal) == 0 {
			c.Excluded("deepgen-no-palette")
			return
		}
		depth := c17DeepDepth(r, 200, 1500)
		var sp c17Spine
		for l := 0; l < depth; l++ {
			lv := pick(pal)
			sp.push(lv.pre, lv.post)
		}
		s := sp.close("r = " + payload)
		c.Count("deepgen_depth_sum", depth)
		c.Count("deepgen_palette_sum", len(pal))
		c17DeepTry(c, "deepgen-block", s, "func g() {\n"+s+"\n}")
		return
	}
	want := 1 + r.Intn(3)
	if r.Intn(6) == 0 {
		want = 4 + r.Intn(8)
	}
	pParen := []int{0, 0, 30, 100}[r.Intn(4)] // percent of variants whose child is parenthesised
	pal := c17Palette(func() c17Level {
		hl := c17EHoles[r.Intn(len(c17EHoles))]
		pre, post := c17SplitAt(hl.t, hl.h, false, func(int) string { return small() }, func(int) string { return smallBlock() })
		if r.Intn(100) < pParen {
			return c17Level{pre + "(", ")" + post}
		}
		return c17Level{pre + " ", " " + post}
	}, func(s string) string { return "r = " + s }, payload, want)
	if len(pal) == 0 {
		c.Excluded("deepgen-no-palette")
		return
	}
	depth := c17DeepDepth(r, 500, 3000)
	var sp c17Spine
	for l := 0; l < depth; l++ {
		lv := pick(pal)
		sp.push(lv.pre, lv.post)
	}
	e := sp.close(payload)
	ctx := c17DeepCtx[r.Intn(len(c17DeepCtx))]
	c.Count("deepgen_depth_sum", depth)
	c.Count("deepgen_palette_sum", len(pal))
	c17DeepTry(c, "deepgen-expr", fmt.Sprintf(ctx, e), "r = "+e)
}

// ---------------------------------------------------------------------------
// trees that are no trees

// The parser builds `x += e` (and `x++`) as LetsExpr{LHSS: [x], RHSS: [x + e]} with
// the very same node x under both parents. Nested in itself through its target
// (`((x += 1) += 1) += 1 ...`) that doubles the number of paths to the innermost
// node with every level: what reflection (astx.Nodes) and any walker unfold is
// exponential in the depth, 2^4097 entries for one of the spines above. The
// statement speaks of walking a tree and says nothing about the cost of walking a
// heavily shared DAG, so such programs are kept out of the deep phases (counted as
// excluded): c17UnfoldedSize is the number of entries astx.Nodes would produce,
// computed in linear time (memo on node identity), saturating at limit.
const c17UnfoldLimit = 600000

func c17UnfoldedSize(root interface{}, limit int) int {
	memo := map[interface{}]int{}
	var size func(v reflect.Value) int
	size = func(v reflect.Value) int {
		if !v.IsValid() {
			return 0
		}
		switch v.Kind() {
		case reflect.Interface:
			if v.IsNil() {
				return 0
			}
			return size(v.Elem())
		case reflect.Ptr:
			if v.IsNil() {
				return 0
			}
			el := v.Elem()
			if el.Kind() != reflect.Struct || el.Type().PkgPath() != c17AstPkg || !v.CanInterface() {
				return 0
			}
			key := v.Interface()
			if n, ok := memo[key]; ok {
				return n
			}
			memo[key] = 0
			n := 1
			t := el.Type()
			for i := 0; i < el.NumField() && n < limit; i++ {
				f := t.Field(i)
				if f.Anonymous || f.Type.Kind() == reflect.Struct {
					continue
				}
				n += size(el.Field(i))
			}
			if n > limit {
				n = limit
			}
			memo[key] = n
			return n
		case reflect.Slice:
			n := 0
			for i := 0; i < v.Len() && n < limit; i++ {
				n += size(v.Index(i))
			}
			if n > limit {
				n = limit
			}
			return n
		}
		return 0
	}
	return size(reflect.ValueOf(&root).Elem())
}
