package main

// C11, round-7 phase.
//
//   history  the outcome of handing value v to a Go parameter (callback result,
//            field, slot) of type T is decided by v and T alone: "arrives as the
//            value Go's own conversion to T would produce ... or the call fails
//            with an error when no conversion exists". Nothing in the statement
//            lets it depend on WHICH conversions the process attempted before.
//            Whether Go's conversion exists is a matter of the two TYPES - for an
//            interface target of the source's method set - and never of the
//            source's kind, of how a type prints, or of the kind of the target.
//            So every case is ONE process that drives a long sequence of
//            conversions over a FAMILY of neighbouring types and judges every
//            step with the absolute oracle (c11RefConvert), whatever came
//            before:
//              sources  all the types of one kind side by side: the plain type
//                       (script literal and bound Go value), a named type without
//                       methods, named types with different method sets (Tag /
//                       String / Error / Tag+String; value and pointer
//                       receivers), types of the standard library
//                       (time.Duration, time.Month, os.FileMode, syscall.Errno,
//                       json.Number, net.IP, time.Time, reflect.Kind ...),
//                       pointers to them; 12 families: int64, int, string,
//                       float64, bool, the unsigned kinds, the narrow kinds,
//                       slices, maps, structs (two struct types that print alike
//                       included), pointers, funcs; plus nil and a few values of
//                       other kinds.
//              targets  non-empty interface types with different method sets
//                       (fmt.Stringer, error, Tagger, PTagger, Tag+String, the
//                       harness' Namer, two DISTINCT interface types that print
//                       alike), interface{}, the concrete types of the family and
//                       a few foreign ones - as parameter type, element type of a
//                       slice / map parameter and of a variadic tail.
//              routes   fixed / second / paired parameter, spread, variadic
//                       (plain, two values, spread, behind a fixed parameter),
//                       element-wise in a list / map literal, a typed Go slice /
//                       map of the source's own type, a Go identity function
//                       func(T) T, parameters of methods reached with member
//                       syntax, the result of a script callback (alone, first of
//                       two), a field of type T written through a pointer, a slot
//                       of a Go []T / map[string]T, and a list / map passed,
//                       changed by the script and passed again.
//            Three orders per family: a PRNG mix, blocks of refusals followed by
//            blocks of valid conversions, and the opposite. About half of the
//            steps have no conversion (the oracle demands an error and zero
//            invocations), half have one.

import (
	"encoding/json"
	"fmt"
	"math/rand"
	"net"
	"os"
	"reflect"
	"sort"
	"strconv"
	"strings"
	"syscall"
	"time"

	"github.com/mattn/anko/env"

	"verifharness/internal/ank"
	"verifharness/internal/wk"
)

// ---------------------------------------------------------------------------
// interface types with different method sets

type C11R7Tagger interface{ Tag(n int64) string }
type C11R7PTagger interface{ PTag(n int64) string }
type C11R7TagStringer interface {
	Tag(n int64) string
	String() string
}

// two DISTINCT interface types that print alike ("main.C11R7Face")
func c11r7FaceA() reflect.Type {
	type C11R7Face interface{ String() string }
	return reflect.TypeOf((*C11R7Face)(nil)).Elem()
}
func c11r7FaceB() reflect.Type {
	type C11R7Face interface{ Error() string }
	return reflect.TypeOf((*C11R7Face)(nil)).Elem()
}

// two DISTINCT struct types that print alike ("main.C11R7Twin"); the first has
// time.Duration's methods through embedding, the second has none
func c11r7TwinA() reflect.Type {
	type C11R7Twin struct{ time.Duration }
	return reflect.TypeOf(C11R7Twin{})
}
func c11r7TwinB() reflect.Type {
	type C11R7Twin struct{ Duration int64 }
	return reflect.TypeOf(C11R7Twin{})
}

// two DISTINCT named types that print alike ("main.C11R7Name") and differ in kind:
// a string converts to the second and not to the first, an int64 to both
func c11r7NameA() reflect.Type {
	type C11R7Name int64
	return reflect.TypeOf(C11R7Name(0))
}
func c11r7NameB() reflect.Type {
	type C11R7Name string
	return reflect.TypeOf(C11R7Name(""))
}

// named types with method sets the types of c11_ext.go (Tag / *PTag) do not have.
// The methods are pure: the harness never calls them, only their presence counts.
type C11R7I64 int64

func (v C11R7I64) String() string     { return "i64:" + strconv.FormatInt(int64(v), 10) }
func (v C11R7I64) Tag(n int64) string { return "i64" }

type C11R7Code int64

func (v C11R7Code) Error() string { return "code " + strconv.FormatInt(int64(v), 10) }

type C11R7IntErr int

func (v C11R7IntErr) Error() string { return "interr " + strconv.Itoa(int(v)) }

type C11R7ErrStr string

func (v C11R7ErrStr) Error() string  { return string(v) }
func (v C11R7ErrStr) String() string { return string(v) }

type C11R7F64 float64

func (v C11R7F64) String() string { return strconv.FormatFloat(float64(v), 'g', -1, 64) }

type C11R7Bool bool

func (v C11R7Bool) String() string { return strconv.FormatBool(bool(v)) }
func (v C11R7Bool) Error() string  { return "bool " + strconv.FormatBool(bool(v)) }

type C11R7U32 uint32

func (v C11R7U32) Tag(n int64) string { return "u32" }

type C11R7I32 int32

func (v C11R7I32) String() string { return string(rune(v)) }

type C11R7U8 uint8

func (v C11R7U8) Error() string { return "u8" }

type C11R7Errs []string

func (v C11R7Errs) Error() string { return strings.Join(v, "; ") }

type C11R7MapS map[string]int64

func (v C11R7MapS) String() string { return "maps" + strconv.Itoa(len(v)) }

type C11R7Rec struct {
	A int64
	B string
}

func (v C11R7Rec) Error() string { return v.B }

type C11R7Fn func(int64) int64

func (v C11R7Fn) String() string { return "fn" }

// C11R7Host: methods with interface-typed parameters, reached with member syntax
type C11R7Host struct{ N int64 }

func (h *C11R7Host) TakeS(s fmt.Stringer, xs ...fmt.Stringer) int64 {
	r := c11Enter("TakeS", h, reflect.ValueOf(&s).Elem(), reflect.ValueOf(&xs).Elem())
	return r[0].Interface().(int64)
}
func (h *C11R7Host) TakeE(n int64, e error) (int64, string) {
	r := c11Enter("TakeE", h, reflect.ValueOf(&n).Elem(), reflect.ValueOf(&e).Elem())
	return r[0].Interface().(int64), r[1].Interface().(string)
}
func (h C11R7Host) TakeT(t C11R7Tagger, p C11R7PTagger) string {
	r := c11Enter("TakeT", h, reflect.ValueOf(&t).Elem(), reflect.ValueOf(&p).Elem())
	return r[0].Interface().(string)
}

var (
	c11r7TStringer    = reflect.TypeOf((*fmt.Stringer)(nil)).Elem()
	c11r7TTagger      = reflect.TypeOf((*C11R7Tagger)(nil)).Elem()
	c11r7TPTagger     = reflect.TypeOf((*C11R7PTagger)(nil)).Elem()
	c11r7TTagStringer = reflect.TypeOf((*C11R7TagStringer)(nil)).Elem()
)

// the interface targets of every family
var c11r7Ifaces = []reflect.Type{c11r7TStringer, c11TError, c11r7TTagger, c11r7TPTagger, c11r7TTagStringer, c11r7FaceA(), c11r7FaceB(), c11TNamer, c11TIface}

// foreign concrete targets (a few; the conv matrix has the whole pool)
var c11r7Foreign = []reflect.Type{c11TInt64, c11TString, reflect.TypeOf(float64(0)), reflect.TypeOf([]int64(nil)), reflect.TypeOf(map[string]int64(nil))}

// ---------------------------------------------------------------------------
// families

type c11r7Fam struct {
	name  string
	types []reflect.Type // sources bound as Go values (two PRNG values each) and concrete targets
	lits  []string       // script literals of the family's kind
}

func c11r7T(vs ...interface{}) []reflect.Type {
	var ts []reflect.Type
	for _, v := range vs {
		if t, ok := v.(reflect.Type); ok {
			ts = append(ts, t)
		} else {
			ts = append(ts, reflect.TypeOf(v))
		}
	}
	return ts
}

var c11r7Fams = []c11r7Fam{
	{"int64", c11r7T(int64(0), C11MyInt(0), C11Cnt(0), time.Duration(0), C11R7I64(0), C11R7Code(0), c11r7NameA(), c11r7NameB()), []string{"5", "-3", "90", "9007199254740993"}},
	{"int", c11r7T(int(0), C11Num(0), time.Month(0), time.Weekday(0), C11R7IntErr(0)), nil},
	{"string", c11r7T("", C11MyStr(""), C11Color(""), json.Number(""), C11R7ErrStr(""), c11r7NameA(), c11r7NameB()), []string{`"ab"`, `""`, `"12"`}},
	{"float64", c11r7T(float64(0), C11Ratio(0), C11R7F64(0)), []string{"1.5", "-2.5", "3.0"}},
	{"bool", c11r7T(true, C11Flag(false), C11R7Bool(false)), []string{"true", "false"}},
	{"unsigned", c11r7T(uint32(0), os.FileMode(0), C11R7U32(0), uintptr(0), syscall.Errno(0), uint(0), reflect.Kind(0), uint16(0), C11Word(0), uint8(0), C11R7U8(0)), nil},
	{"narrow", c11r7T(int8(0), C11Small(0), int32(0), C11R7I32(0), float32(0), C11F32(0)), nil},
	{"slice", c11r7T([]int64(nil), C11Ints(nil), net.IP(nil), C11R7Errs(nil), []string(nil), []interface{}(nil)), []string{"[1, 2]", `["a"]`, "[]"}},
	{"map", c11r7T(map[string]int64(nil), C11Dict(nil), C11R7MapS(nil), map[string]interface{}(nil)), []string{`{"a": 1}`, "{}"}},
	{"struct", c11r7T(C11Pair{}, C11Pt{}, time.Time{}, C11R7Rec{}, c11r7TwinA(), c11r7TwinB(), C11Inner{}), nil},
	{"pointer", c11r7T((*int64)(nil), (*C11Cnt)(nil), (*C11Pt)(nil), (*c11Err)(nil), (*C11S)(nil), (*C11R7Rec)(nil), (*C11R7I64)(nil)), nil},
	{"func", c11r7T((func(int64) int64)(nil), C11R7Fn(nil)), []string{"func(a){ return a }"}},
}

const c11r7Modes = 3 // PRNG mix / refusals first / valid first

// ---------------------------------------------------------------------------
// classes for signatures: what kind of type, named or not, with methods or not

func c11r7Class(t reflect.Type) string {
	if t == nil {
		return "nil"
	}
	named := t.PkgPath() != ""
	m := ""
	if t.Kind() != reflect.Interface && t.NumMethod() > 0 {
		m = "+m"
	}
	pre := func(s string) string {
		if named {
			return "named-" + s + m
		}
		return s
	}
	switch t.Kind() {
	case reflect.Interface:
		if t.NumMethod() == 0 {
			return "any"
		}
		return "iface"
	case reflect.Slice:
		if named {
			return "named-slice" + m
		}
		return "[]" + c11r7Class(t.Elem())
	case reflect.Map:
		if named {
			return "named-map" + m
		}
		return "map[" + c11r7Class(t.Key()) + "]" + c11r7Class(t.Elem())
	case reflect.Ptr:
		return "*" + c11r7Class(t.Elem())
	case reflect.Struct:
		return pre("struct")
	case reflect.Func:
		if c11IsScriptFunc(t) {
			return "scriptfunc"
		}
		return pre("func")
	case reflect.Array, reflect.Chan:
		return pre(t.Kind().String())
	}
	return pre("basic")
}

// c11r7Classes: the classes of the varying values of one step (sorted, each once)
func c11r7Classes(vals []c11Val) string {
	seen := map[string]bool{}
	var cs []string
	for _, a := range vals {
		if c := c11r7ValClass(a.v); !seen[c] {
			seen[c] = true
			cs = append(cs, c)
		}
	}
	sort.Strings(cs)
	if len(cs) > 1 && seen["nil"] {
		// nil converts to every type: next to another value it does not tell defects apart
		var keep []string
		for _, c := range cs {
			if c != "nil" {
				keep = append(keep, c)
			}
		}
		cs = keep
	}
	return strings.Join(cs, "&")
}

// c11r7Group: the routes that share one conversion site of the boundary
func c11r7Group(form string) string {
	switch form {
	case "elem-list", "elem-map", "gotyped-slice", "gotyped-map", "repass-list", "repass-map":
		return "element"
	case "cbresult", "cbresult-two":
		return "cbresult"
	case "field":
		return "field"
	case "slot-slice", "slot-map":
		return "slot"
	case "method-arg":
		return "method-param"
	}
	return "param"
}

func c11r7ValClass(v reflect.Value) string {
	v = c11Unwrap(v)
	if !v.IsValid() {
		return "nil"
	}
	return c11r7Class(v.Type())
}

// ---------------------------------------------------------------------------
// the state of one case (= one process)

type c11r7Src struct {
	val    c11Val // text: the bound name
	inline string // literal text ("" = none)
}

type c11r7State struct {
	c    *wk.Case
	fam  *c11r7Fam
	e    *env.Env
	rec  *c11Rec
	srcs []c11r7Src
	tgts []reflect.Type
	hist []string
	// per element target type: steps refused / held so far in this process
	refused, held map[reflect.Type]int
	host          *C11R7Host
	step          int
}

func (st *c11r7State) bindGo(v reflect.Value) {
	name := "h" + strconv.Itoa(len(st.srcs))
	var gi interface{}
	if v.IsValid() {
		gi = v.Interface()
	}
	st.e.Define(name, gi)
	g, _ := st.e.Get(name)
	gv := reflect.ValueOf(g)
	st.srcs = append(st.srcs, c11r7Src{val: c11Val{text: name, v: gv, label: c11Label(gv)}})
}

func (st *c11r7State) bindLit(expr string) {
	name := "h" + strconv.Itoa(len(st.srcs))
	o := ank.Exec(st.e, name+" = "+expr)
	if o.Err != nil || o.Panicked {
		st.c.Inconclusive("source-construction-failed", expr+": "+ank.ErrText(o.Err)+o.PanicVal, expr)
		return
	}
	g, _ := st.e.Get(name)
	gv := reflect.ValueOf(g)
	st.srcs = append(st.srcs, c11r7Src{val: c11Val{text: name, v: gv, label: c11Label(gv)}, inline: expr})
}

func c11r7New(c *wk.Case, fam *c11r7Fam) *c11r7State {
	r := c.Rng
	st := &c11r7State{c: c, fam: fam, e: ank.NewCoreEnv(), rec: &c11Rec{}, refused: map[reflect.Type]int{}, held: map[reflect.Type]int{}}
	for _, t := range fam.types {
		for n := 0; n < 2; n++ {
			v := c11GenGo(r, t, 1, false)
			if t.Kind() == reflect.Ptr && n == 0 && v.IsNil() {
				v = reflect.New(t.Elem()) // at least one non-nil pointer per type
			}
			st.bindGo(v)
		}
	}
	for _, l := range fam.lits {
		st.bindLit(l)
	}
	// values of other kinds: nil, script scalars, and Go values of a type of another family
	st.bindGo(reflect.Value{})
	for _, l := range []string{"7", `"s"`, "2.5", "true", "[3]"} {
		st.bindLit(l)
	}
	for n := 0; n < 3; n++ {
		of := &c11r7Fams[r.Intn(len(c11r7Fams))]
		st.bindGo(c11GenGo(r, of.types[r.Intn(len(of.types))], 1, false))
	}
	st.tgts = append(st.tgts, c11r7Ifaces...)
	st.tgts = append(st.tgts, fam.types...)
	st.tgts = append(st.tgts, c11r7Foreign...)
	st.host = &C11R7Host{N: int64(r.Intn(1000))}
	st.e.Define("hp", st.host)
	st.e.Define("hv", *st.host)
	tg, ptg := C11Cnt(r.Intn(100)), C11Cnt(r.Intn(100))
	st.e.Define("tg", tg)
	st.e.Define("ptg", &ptg)
	return st
}

// arg: the source as an argument; literals are written inline half of the time
func (st *c11r7State) arg(s c11r7Src) c11Val {
	a := s.val
	if s.inline != "" && st.c.Rng.Intn(2) == 0 {
		a.text = s.inline
	}
	return a
}

// pickSrc: mostly a source of the family (they come first in st.srcs)
func (st *c11r7State) pickSrc() c11r7Src {
	r := st.c.Rng
	nFam := 2*len(st.fam.types) + len(st.fam.lits)
	if nFam > len(st.srcs) {
		nFam = len(st.srcs)
	}
	if r.Intn(100) < 85 {
		return st.srcs[r.Intn(nFam)]
	}
	return st.srcs[r.Intn(len(st.srcs))]
}

// pickTarget: a target type the source has (wantOK) or lacks a conversion to
func (st *c11r7State) pickTarget(v reflect.Value, wantOK bool) reflect.Type {
	r := st.c.Rng
	var ok, none []reflect.Type
	for _, t := range st.tgts {
		switch c11RefConvert(v, t).st {
		case c11OK:
			ok = append(ok, t)
		case c11None:
			none = append(none, t)
		}
	}
	switch {
	case wantOK && len(ok) > 0:
		return ok[r.Intn(len(ok))]
	case !wantOK && len(none) > 0:
		return none[r.Intn(len(none))]
	}
	return st.tgts[r.Intn(len(st.tgts))]
}

// pickSrcFor: a second source with (wantOK) or without a conversion to t
func (st *c11r7State) pickSrcFor(t reflect.Type, wantOK bool) c11r7Src {
	r := st.c.Rng
	var cands []c11r7Src
	for _, s := range st.srcs {
		cv := c11RefConvert(s.val.v, t)
		if (cv.st == c11OK && !cv.adapter) == wantOK && cv.st != c11Unspec {
			cands = append(cands, s)
		}
	}
	if len(cands) == 0 {
		return st.pickSrc()
	}
	return cands[r.Intn(len(cands))]
}

func (st *c11r7State) mkfn(name string, body func(in []reflect.Value) []reflect.Value, variadic bool, out []reflect.Type, in ...reflect.Type) reflect.Type {
	ft := reflect.FuncOf(in, out, variadic)
	if body == nil {
		st.e.Define(name, c11MakeFn(ft, st.rec).Interface())
	} else {
		rec := st.rec
		st.e.Define(name, reflect.MakeFunc(ft, func(in []reflect.Value) []reflect.Value {
			rec.calls++
			cp := make([]reflect.Value, len(in))
			copy(cp, in)
			rec.args = append(rec.args, cp)
			return body(in)
		}).Interface())
	}
	return ft
}

var c11r7Outs = [][]reflect.Type{nil, {c11TInt64}, {c11TString, c11TInt64}, {c11TIface}}

func (st *c11r7State) outs() []reflect.Type { return c11r7Outs[st.c.Rng.Intn(len(c11r7Outs))] }

// note: one line of the history of this process, and the per-target counters
func (st *c11r7State) note(form, src string, a reflect.Value, t reflect.Type, want int, observed string) {
	w := "unspecified"
	switch want {
	case c11OK:
		w = "conversion exists"
		if st.refused[t] > 0 {
			st.c.Count("history:valid-after-refusals-for-the-same-target", 1)
		}
		st.held[t]++
	case c11None:
		w = "no conversion"
		if st.held[t] > 0 {
			st.c.Count("history:refusal-after-valid-for-the-same-target", 1)
		}
		st.refused[t]++
	}
	st.hist = append(st.hist, fmt.Sprintf("#%d %s: %s   [%s -> %s: %s; %s]", st.step, form, src, c11Label(a), t, w, observed))
}

func (st *c11r7State) context(t reflect.Type) string {
	return fmt.Sprintf(" (step %d of this process; before it %d refused and %d valid conversions to %v were made here - the whole sequence is in the input)", st.step, st.refused[t], st.held[t], t)
}

func (st *c11r7State) withHistory(input map[string]interface{}, t reflect.Type) map[string]interface{} {
	input["history"] = append([]string{}, st.hist...)
	input["family"] = st.fam.name
	input["target"] = t.String()
	return input
}

func (st *c11r7State) report(form string, srcClass string, t reflect.Type, failure, detail string, input map[string]interface{}) {
	st.withHistory(input, t)
	c11Report(st.c, "history:"+c11r7Group(form)+":"+srcClass+"->"+c11r7Class(t)+":"+failure, detail+st.context(t), input)
}

func c11r7Observed(o ank.Out, calls int) string {
	switch {
	case o.Panicked:
		return "PANIC " + o.PanicVal
	case o.Err != nil:
		return fmt.Sprintf("error %q, %d invocations", o.Err.Error(), calls)
	}
	return fmt.Sprintf("no error, %d invocations", calls)
}

// call runs one c11Call and judges it with the engine's oracle; the signature
// names the route and the classes of the varying source and of the target.
func (st *c11r7State) call(form string, k *c11Call, t reflect.Type, srcs ...c11Val) c11Verdict {
	k.rec = st.rec
	if k.ft.NumOut() > 0 && st.rec.results == nil {
		st.rec.results = c11GenResults(st.c.Rng, k.ft)
	}
	vd := k.run(st.c, st.e)
	st.rec.results = nil
	cls := c11r7Classes(srcs)
	st.note(form, vd.src, srcs[0].v, t, vd.ex.kind, c11r7Observed(vd.out, st.rec.calls))
	if vd.failure == "excluded" {
		return vd
	}
	st.c.Tag("history:route:"+form, "history:family:"+st.fam.name)
	switch vd.ex.kind {
	case c11OK:
		st.c.Tag("history:expect:invoked-once")
	case c11None:
		st.c.Tag("history:expect:error")
	}
	if vd.failure != "" {
		in := k.input(vd)
		in["route"] = form
		if form == "arg-pair" {
			// two values headed for two parameter types: which pair decided is not known here
			c11Report(st.c, "history:param:pair:"+vd.failure, "route "+form+" ("+k.shape()+"): "+vd.detail+st.context(t), st.withHistory(in, t))
			return vd
		}
		st.report(form, cls, t, vd.failure, "route "+form+" ("+k.shape()+"): "+vd.detail, in)
	}
	return vd
}

func c11r7ListOf(vals ...c11Val) c11Val { return c11ListOf(vals) }

func c11r7MapOf(keys []string, vals []c11Val) c11Val {
	m := map[interface{}]interface{}{}
	var parts []string
	for i, a := range vals {
		parts = append(parts, strconv.Quote(keys[i])+": "+a.text)
		if u := c11Unwrap(a.v); u.IsValid() {
			m[keys[i]] = u.Interface()
		} else {
			m[keys[i]] = nil
		}
	}
	return c11Val{text: "{" + strings.Join(parts, ", ") + "}", v: reflect.ValueOf(m), label: "map[interface{}]interface{}"}
}

var c11r7Forms = []struct {
	name string
	w    int
}{
	{"arg", 14}, {"arg-spread", 4}, {"arg-second", 5}, {"arg-pair", 6},
	{"vararg", 5}, {"vararg-two", 6}, {"vararg-spread", 5}, {"vararg-tail", 4}, {"vararg-tail-spread", 3},
	{"elem-list", 8}, {"elem-map", 6}, {"gotyped-slice", 4}, {"gotyped-map", 3},
	{"ident", 8}, {"method-arg", 7},
	{"cbresult", 8}, {"cbresult-two", 3}, {"field", 8}, {"slot-slice", 4}, {"slot-map", 3},
	{"repass-list", 3}, {"repass-map", 2},
}

func (st *c11r7State) pickForm() string {
	total := 0
	for _, f := range c11r7Forms {
		total += f.w
	}
	x := st.c.Rng.Intn(total)
	for _, f := range c11r7Forms {
		if x < f.w {
			return f.name
		}
		x -= f.w
	}
	return "arg"
}

// one step: a source, a target with or without a conversion, a route
func (st *c11r7State) doStep(i int, pOK float64) {
	r := st.c.Rng
	st.step = i
	wantOK := r.Float64() < pOK
	s := st.pickSrc()
	t := st.pickTarget(s.val.v, wantOK)
	a := st.arg(s)
	cv := c11RefConvert(a.v, t)
	form := st.pickForm()
	one := c11Val{text: "1", v: reflect.ValueOf(int64(1)), label: "int64"}
	zed := c11Val{text: `"z"`, v: reflect.ValueOf("z"), label: "string"}
	// the second value of two-value routes: mostly one that has a conversion to t
	second := func() c11Val { return st.arg(st.pickSrcFor(t, r.Intn(100) < 75)) }
	custom := map[string]bool{"ident": true, "cbresult": true, "cbresult-two": true, "field": true, "slot-slice": true, "slot-map": true}
	if custom[form] && (cv.adapter || cv.st == c11Unspec) {
		form = "arg" // script function -> func type: judged by the call routes only
	}
	if uv := c11Unwrap(a.v); form == "cbresult-two" && uv.IsValid() && (uv.Kind() == reflect.Slice || uv.Kind() == reflect.Array) {
		form = "cbresult" // a list-valued first result is indistinguishable from several results
	}
	if (form == "gotyped-slice" || form == "gotyped-map") && !c11Unwrap(a.v).IsValid() {
		form = "elem-list"
	}
	sT, mT := reflect.SliceOf(t), reflect.MapOf(c11TString, t)
	switch form {
	case "arg":
		ft := st.mkfn("f", nil, false, st.outs(), t)
		st.call(form, &c11Call{callee: "f", ft: ft, pre: []c11Val{a}}, t, a)
	case "arg-spread":
		ft := st.mkfn("f", nil, false, st.outs(), t)
		lst := c11r7ListOf(a)
		st.call(form, &c11Call{callee: "f", ft: ft, spread: &lst}, t, a)
	case "arg-second":
		ft := st.mkfn("f", nil, false, st.outs(), c11TInt64, t)
		if r.Intn(2) == 0 {
			st.call(form, &c11Call{callee: "f", ft: ft, pre: []c11Val{one, a}}, t, a)
		} else {
			lst := c11r7ListOf(a)
			st.call(form, &c11Call{callee: "f", ft: ft, pre: []c11Val{one}, spread: &lst}, t, a)
		}
	case "arg-pair":
		s2 := st.pickSrc()
		t2 := st.pickTarget(s2.val.v, r.Intn(100) < 80)
		b := st.arg(s2)
		ft := st.mkfn("f", nil, false, st.outs(), t, t2)
		if vd := st.call(form, &c11Call{callee: "f", ft: ft, pre: []c11Val{a, b}}, t, a, b); vd.failure != "" && vd.failure != "excluded" {
			// which of the two? each value once more on its own (reported under its own signature)
			f1 := st.mkfn("f", nil, false, st.outs(), t)
			st.call("arg", &c11Call{callee: "f", ft: f1, pre: []c11Val{a}}, t, a)
			f2 := st.mkfn("f", nil, false, st.outs(), t2)
			st.call("arg", &c11Call{callee: "f", ft: f2, pre: []c11Val{b}}, t2, b)
		}
	case "vararg":
		ft := st.mkfn("f", nil, true, st.outs(), sT)
		st.call(form, &c11Call{callee: "f", ft: ft, pre: []c11Val{a}}, t, a)
	case "vararg-two":
		b := second()
		ft := st.mkfn("f", nil, true, st.outs(), sT)
		st.call(form, &c11Call{callee: "f", ft: ft, pre: []c11Val{a, b}}, t, a, b)
	case "vararg-spread":
		b := second()
		ft := st.mkfn("f", nil, true, st.outs(), sT)
		lst := c11r7ListOf(a, b)
		st.call(form, &c11Call{callee: "f", ft: ft, spread: &lst}, t, a, b)
	case "vararg-tail":
		ft := st.mkfn("f", nil, true, st.outs(), c11TString, sT)
		st.call(form, &c11Call{callee: "f", ft: ft, pre: []c11Val{zed, a}}, t, a)
	case "vararg-tail-spread":
		ft := st.mkfn("f", nil, true, st.outs(), c11TString, sT)
		lst := c11r7ListOf(a)
		st.call(form, &c11Call{callee: "f", ft: ft, pre: []c11Val{zed}, spread: &lst}, t, a)
	case "elem-list":
		b := second()
		ft := st.mkfn("f", nil, false, st.outs(), sT)
		st.call(form, &c11Call{callee: "f", ft: ft, pre: []c11Val{c11r7ListOf(a, b)}}, t, a, b)
	case "elem-map":
		b := second()
		ft := st.mkfn("f", nil, false, st.outs(), mT)
		st.call(form, &c11Call{callee: "f", ft: ft, pre: []c11Val{c11r7MapOf([]string{"k", "j"}, []c11Val{a, b})}}, t, a, b)
	case "gotyped-slice":
		// a Go slice of the source's own type: element-wise into []T
		av := c11Unwrap(a.v)
		gs := reflect.MakeSlice(reflect.SliceOf(av.Type()), 0, 2)
		gs = reflect.Append(gs, av, reflect.Zero(av.Type()))
		st.e.Define("gs", gs.Interface())
		ft := st.mkfn("f", nil, false, st.outs(), sT)
		g := c11Val{text: "gs", v: gs, label: c11Label(gs)}
		st.call(form, &c11Call{callee: "f", ft: ft, pre: []c11Val{g}}, t, a)
	case "gotyped-map":
		av := c11Unwrap(a.v)
		gm := reflect.MakeMap(reflect.MapOf(c11TString, av.Type()))
		gm.SetMapIndex(reflect.ValueOf("k"), av)
		st.e.Define("gm", gm.Interface())
		ft := st.mkfn("f", nil, false, st.outs(), mT)
		g := c11Val{text: "gm", v: gm, label: c11Label(gm)}
		st.call(form, &c11Call{callee: "f", ft: ft, pre: []c11Val{g}}, t, a)
	case "ident":
		// func(x T) T { return x }: the argument is judged like every argument, and the
		// result the script gets must be the very value the function received
		rec := st.rec
		ft := st.mkfn("f", func(in []reflect.Value) []reflect.Value {
			rec.results = []reflect.Value{in[0]}
			return in[:1]
		}, false, []reflect.Type{t}, t)
		st.rec.results = []reflect.Value{reflect.Zero(t)}
		st.call(form, &c11Call{callee: "f", ft: ft, pre: []c11Val{a}}, t, a)
	case "method-arg":
		st.method(a, t)
	case "cbresult", "cbresult-two":
		st.cbResult(form, a, t, cv)
	case "field":
		st.field(a, t, cv)
	case "slot-slice", "slot-map":
		st.slot(form, a, t, cv)
	case "repass-list":
		// a list passed, changed by the script, and passed again
		b := second()
		ft := st.mkfn("f", nil, false, st.outs(), sT)
		l1 := c11r7ListOf(a, b)
		st.call(form, &c11Call{callee: "f", ft: ft, pre: []c11Val{{text: "lr", v: l1.v, label: l1.label}}, prelude: "lr = " + l1.text + "; "}, t, a, b)
		a2 := st.arg(st.pickSrcFor(t, r.Intn(2) == 0))
		l2 := c11r7ListOf(a2, b)
		st.call(form, &c11Call{callee: "f", ft: ft, pre: []c11Val{{text: "lr", v: l2.v, label: l2.label}}, prelude: "lr[0] = " + a2.text + "; "}, t, a2, b)
	case "repass-map":
		ft := st.mkfn("f", nil, false, st.outs(), mT)
		m1 := c11r7MapOf([]string{"k"}, []c11Val{a})
		st.call(form, &c11Call{callee: "f", ft: ft, pre: []c11Val{{text: "mr", v: m1.v, label: m1.label}}, prelude: "mr = " + m1.text + "; "}, t, a)
		a2 := st.arg(st.pickSrcFor(t, r.Intn(2) == 0))
		m2 := c11r7MapOf([]string{"k"}, []c11Val{a2})
		st.call(form, &c11Call{callee: "f", ft: ft, pre: []c11Val{{text: "mr", v: m2.v, label: m2.label}}, prelude: `mr["k"] = ` + a2.text + "; "}, t, a2)
	}
}

// method: the parameters of methods reached with member syntax. The methods have
// fixed parameter types, so the target is replaced by the nearest one they have.
func (st *c11r7State) method(a c11Val, t reflect.Type) {
	r := st.c.Rng
	hostCheck := func(recv, snap interface{}) string {
		if p, ok := recv.(*C11R7Host); !ok || p != st.host {
			return "the pointer-receiver method did not get the Go value itself as receiver"
		}
		return ""
	}
	valCheck := func(recv, snap interface{}) string {
		return c11Diff(reflect.ValueOf(recv), reflect.ValueOf(*st.host), c11NilExact, "receiver", 0)
	}
	bound := func(name string) c11Val {
		g, _ := st.e.Get(name)
		return c11Val{text: name, v: reflect.ValueOf(g), label: c11Label(reflect.ValueOf(g))}
	}
	hp := reflect.ValueOf(st.host)
	switch t {
	case c11TError, c11r7Ifaces[6]:
		ft := hp.MethodByName("TakeE").Type()
		one := c11Val{text: "1", v: reflect.ValueOf(int64(1)), label: "int64"}
		st.call("method-arg", &c11Call{callee: "hp.TakeE", ft: ft, pre: []c11Val{one, a}, recvCheck: hostCheck}, c11TError, a)
	case c11r7TTagger, c11r7TTagStringer:
		ft := hp.MethodByName("TakeT").Type()
		st.call("method-arg", &c11Call{callee: "hv.TakeT", ft: ft, pre: []c11Val{a, bound("ptg")}, recvCheck: valCheck}, c11r7TTagger, a)
	case c11r7TPTagger:
		ft := hp.MethodByName("TakeT").Type()
		st.call("method-arg", &c11Call{callee: "hp.TakeT", ft: ft, pre: []c11Val{bound("tg"), a}, recvCheck: valCheck}, c11r7TPTagger, a)
	default:
		ft := hp.MethodByName("TakeS").Type()
		b := st.arg(st.pickSrcFor(c11r7TStringer, r.Intn(100) < 75))
		switch r.Intn(4) {
		case 0:
			st.call("method-arg", &c11Call{callee: "hp.TakeS", ft: ft, pre: []c11Val{a}, recvCheck: hostCheck}, c11r7TStringer, a)
		case 1:
			st.call("method-arg", &c11Call{callee: "hp.TakeS", ft: ft, pre: []c11Val{a, b}, recvCheck: hostCheck}, c11r7TStringer, a, b)
		case 2:
			st.call("method-arg", &c11Call{callee: "hp.TakeS", ft: ft, pre: []c11Val{b, a}, recvCheck: hostCheck}, c11r7TStringer, a, b)
		default:
			lst := c11r7ListOf(a)
			st.call("method-arg", &c11Call{callee: "hp.TakeS", ft: ft, pre: []c11Val{b}, spread: &lst, recvCheck: hostCheck}, c11r7TStringer, a, b)
		}
	}
}

// cbResult: the value is the result of a script callback of type func() T (or
// func() (T, int64)): "its result is converted to the declared return types; an
// error inside it surfaces as an error of the enclosing call".
func (st *c11r7State) cbResult(form string, a c11Val, t reflect.Type, cv c11Conv) {
	c, r := st.c, st.c.Rng
	two := form == "cbresult-two"
	outT := []reflect.Type{t}
	ret := a.text
	if two {
		outT = append(outT, c11TInt64)
		ret += ", 3"
	}
	cbT := reflect.FuncOf(nil, outT, false)
	var got [][]reflect.Value
	entered := 0
	host := reflect.MakeFunc(reflect.FuncOf([]reflect.Type{cbT}, []reflect.Type{c11TInt64}, false), func(in []reflect.Value) []reflect.Value {
		entered++
		got = append(got, in[0].Call(nil)) // a failing callback panics through here, as in ordinary Go code
		return []reflect.Value{reflect.ValueOf(int64(7))}
	})
	st.e.Define("host", host.Interface())
	src := "host(func(){ return " + ret + " })"
	try := r.Intn(4) == 0
	if try {
		src = "caught = false; try { " + src + " } catch e { caught = true }; caught"
	}
	c.Begin(src)
	o := ank.Exec(st.e, src)
	c.Events(1 + entered)
	c.Eval("history|"+cbT.String()+"|"+src+"|"+ank.RenderValue(a.v), true)
	failed := o.Err != nil
	if try && o.Err == nil {
		failed = o.Val == true
	}
	obs := fmt.Sprintf("callback entered %d, returned %d, enclosing call failed: %v", entered, len(got), failed)
	if o.Panicked {
		obs = "PANIC " + o.PanicVal
	}
	st.note(form, src, a.v, t, cv.st, obs)
	c.Tag("history:route:"+form, "history:family:"+st.fam.name)
	var gotR []string
	for _, g := range got {
		gotR = append(gotR, strings.Join(c11RenderArgs(g), ", "))
	}
	input := map[string]interface{}{"src": src, "callback_type": cbT.String(), "result": a.text + " = " + ank.RenderValue(a.v), "go_got_back": gotR,
		"err": ank.ErrText(o.Err), "value": ank.Render(o.Val), "panic": o.PanicVal}
	cls := c11r7ValClass(a.v)
	switch {
	case o.Panicked:
		st.report(form, cls, t, "panic", "panic escaped: "+o.PanicVal+" ["+o.PanicSig+"]", input)
	case entered != 1:
		st.report(form, cls, t, "invocations", fmt.Sprintf("Go called the callback once, it was entered %d times", entered), input)
	case cv.st == c11OK:
		c.Tag("history:expect:invoked-once")
		if failed || len(got) != 1 {
			st.report(form, cls, t, "good-result-refused", "Go's conversion of the result to the declared type exists, yet the callback did not return to Go / the enclosing call failed: "+ank.ErrText(o.Err), input)
			return
		}
		want := "want " + ank.RenderValue(cv.v)
		input["want"] = want
		if d := c11Diff(got[0][0], cv.v, cv.mode, "result 0", 0); d != "" {
			st.report(form, cls, t, "result-not-converted", "Go did not get the script result converted to the declared type: "+d, input)
		} else if two {
			if d := c11Diff(got[0][1], reflect.ValueOf(int64(3)), c11NilExact, "result 1", 0); d != "" {
				st.report(form, cls, t, "result-not-converted", "second result: "+d, input)
			}
		}
	case cv.st == c11None:
		c.Tag("history:expect:error")
		if len(got) != 0 {
			st.report(form, cls, t, "bad-result-accepted", cv.why+", yet the callback returned normally to Go with "+strings.Join(gotR, " / "), input)
		} else if !failed {
			st.report(form, cls, t, "inner-failure-lost", cv.why+", yet the enclosing call reported no error", input)
		}
	}
}

// field: a field of type T written through a pointer ("member syntax ... through
// a pointer, writes the Go value's own exported fields"). Rule of phase member:
// an assignable value must be stored; a value without a conversion must leave
// the field alone; UNSPECIFIED whether a write that needs a conversion is
// refused (field unchanged) or stores Go's conversion.
func (st *c11r7State) field(a c11Val, t reflect.Type, cv c11Conv) {
	c := st.c
	sT := reflect.StructOf([]reflect.StructField{{Name: "V", Type: t}, {Name: "W", Type: c11TInt64}})
	p := reflect.New(sT)
	p.Elem().Field(1).SetInt(42)
	if prev := st.pickSrcFor(t, true); c.Rng.Intn(2) == 0 {
		// the field holds a value already
		if pv := c11RefConvert(prev.val.v, t); pv.st == c11OK && !pv.adapter {
			p.Elem().Field(0).Set(pv.v)
		}
	}
	before := reflect.New(sT).Elem()
	before.Set(p.Elem())
	st.e.Define("box", p.Interface())
	src := "box.V = " + a.text
	c.Begin(src)
	o := ank.Exec(st.e, src)
	c.Events(1)
	c.Eval("history|field|"+t.String()+"|"+src+"|"+ank.RenderValue(a.v)+"|"+ank.RenderValue(before.Field(0)), true)
	after := p.Elem()
	obs := "no error"
	if o.Panicked {
		obs = "PANIC " + o.PanicVal
	} else if o.Err != nil {
		obs = "error " + strconv.Quote(o.Err.Error())
	}
	st.note("field", src, a.v, t, cv.st, obs+", field now "+ank.RenderValue(after.Field(0)))
	c.Tag("history:route:field", "history:family:"+st.fam.name)
	input := map[string]interface{}{"src": src, "value": a.text + " = " + ank.RenderValue(a.v), "field_type": t.String(), "before": ank.RenderValue(before.Field(0)),
		"after": ank.RenderValue(after.Field(0)), "err": ank.ErrText(o.Err), "panic": o.PanicVal}
	cls := c11r7ValClass(a.v)
	if o.Panicked {
		st.report("field", cls, t, "panic", "panic escaped: "+o.PanicVal+" ["+o.PanicSig+"]", input)
		return
	}
	if after.Field(1).Int() != 42 {
		st.report("field", cls, t, "other-field-changed", "writing V changed W", input)
		return
	}
	unchanged := c11Diff(after.Field(0), before.Field(0), c11NilExact, "", 0) == ""
	av := c11Unwrap(a.v)
	switch {
	case cv.st == c11None:
		c.Tag("history:expect:error")
		if !unchanged {
			st.report("field", cls, t, "wrote-unconvertible", "a value without a conversion to the field type changed the field", input)
		}
	case av.IsValid() && av.Type().AssignableTo(t):
		c.Tag("history:expect:invoked-once")
		if o.Err != nil {
			st.report("field", cls, t, "error", "writing an assignable value through a pointer failed: "+o.Err.Error(), input)
		} else if d := c11Diff(after.Field(0), cv.v, c11NilExact, "field V", 0); d != "" {
			st.report("field", cls, t, "wrong-value", "after the write the Go field does not hold the value: "+d, input)
		}
	default:
		// UNSPECIFIED: refused and unchanged, or Go's conversion
		if o.Err != nil {
			if !unchanged {
				st.report("field", cls, t, "failed-but-changed", "the write failed yet the field changed", input)
			}
		} else if d := c11Diff(after.Field(0), cv.v, cv.mode, "field V", 0); d != "" {
			st.report("field", cls, t, "wrong-value", "after the converting write: "+d, input)
		}
	}
}

// slot: the value stored by the script into a Go []T / map[string]T ("a Go value
// ... stored in a container ... is the same value with the same dynamic type").
// Judged only for a value ASSIGNABLE to T (the slot must then hold it); what a
// store that needs a conversion does is UNSPECIFIED here (no panic may escape).
func (st *c11r7State) slot(form string, a c11Val, t reflect.Type, cv c11Conv) {
	c := st.c
	var src string
	var read func() reflect.Value
	if form == "slot-slice" {
		ts := reflect.MakeSlice(reflect.SliceOf(t), 1, 1)
		st.e.Define("ts", ts.Interface())
		src, read = "ts[0] = "+a.text, func() reflect.Value { return ts.Index(0) }
	} else {
		tm := reflect.MakeMap(reflect.MapOf(c11TString, t))
		st.e.Define("tm", tm.Interface())
		src, read = `tm["k"] = `+a.text, func() reflect.Value { return tm.MapIndex(reflect.ValueOf("k")) }
	}
	c.Begin(src)
	o := ank.Exec(st.e, src)
	c.Events(1)
	av := c11Unwrap(a.v)
	assignable := av.IsValid() && av.Type().AssignableTo(t)
	c.Eval("history|"+form+"|"+t.String()+"|"+src+"|"+ank.RenderValue(a.v), assignable)
	obs := "no error"
	if o.Panicked {
		obs = "PANIC " + o.PanicVal
	} else if o.Err != nil {
		obs = "error " + strconv.Quote(o.Err.Error())
	}
	st.note(form, src, a.v, t, cv.st, obs)
	c.Tag("history:route:"+form, "history:family:"+st.fam.name)
	input := map[string]interface{}{"src": src, "value": a.text + " = " + ank.RenderValue(a.v), "slot_type": t.String(), "err": ank.ErrText(o.Err), "panic": o.PanicVal}
	cls := c11r7ValClass(a.v)
	switch {
	case o.Panicked:
		st.report(form, cls, t, "panic", "panic escaped: "+o.PanicVal+" ["+o.PanicSig+"]", input)
	case !assignable:
		c.Excluded("slot store that needs a conversion")
	case o.Err != nil:
		st.report(form, cls, t, "error", "storing a value assignable to the element type failed: "+o.Err.Error(), input)
	default:
		got := read()
		input["slot_now"] = ank.RenderValue(got)
		if !got.IsValid() {
			st.report(form, cls, t, "wrong-value", "after the store the Go map has no such key", input)
		} else if d := c11Diff(got, cv.v, c11NilExact, "slot", 0); d != "" {
			st.report(form, cls, t, "wrong-value", "after the store the Go slot does not hold the value: "+d, input)
		}
	}
}

const c11r7Steps = 72

func c11PhaseHistory(c *wk.Case) {
	nF := len(c11r7Fams)
	fam := &c11r7Fams[c.Index%nF]
	mode := (c.Index / nF) % c11r7Modes
	st := c11r7New(c, fam)
	c.Tag("history:order:" + []string{"mix", "refusals-first", "valid-first"}[mode])
	for i := 0; i < c11r7Steps; i++ {
		pOK := 0.5
		switch mode {
		case 1:
			pOK = 0.06
			if (i/8)%2 == 1 {
				pOK = 0.94
			}
		case 2:
			pOK = 0.94
			if (i/8)%2 == 1 {
				pOK = 0.06
			}
		}
		st.doStep(i, pOK)
	}
	if c.WantSample() {
		c.Sample(map[string]interface{}{"family": fam.name, "history": st.hist})
	}
}

var _ = rand.Int
