package main

// C05, round-8 extensions: VOLUME and HISTORY.
//
// The statement quantifies over all operand values and "expression trees of any
// shape" and ends with "no result depends on operand magnitude". Nothing in it
// depends on how long a string operand or result is, how many operands a chain
// has, how deep a tree is nested, how often the same operator node has been
// evaluated before, with which operands, or what the process computed earlier.
// The older phases use small inputs, evaluate every node a few times and run in
// short-lived worker processes. The three phases of this file keep the native
// oracle (c05Bin / c05Un, Go's strings.Repeat and string concatenation) and move
// the workload:
//
//	volume   sizes on and next to 255/256/257, 1023..1025, 4095..4097,
//	         65535..65537, 131071..131073, ~200000, 262143..262145 bytes (string
//	         repetition with left operands of 1 byte .. 70001 bytes, concatenation,
//	         string comparison, strings grown by thousands of `+=`), chains of up to
//	         12000 operands, trees nested up to 12000 deep, string literals and
//	         numerals longer than 4 KiB / 64 KiB with multi-byte characters at every
//	         alignment. Results are kept and compared again at the end of the case
//	         (a result is a value: later operations do not change it).
//	hotnode  ONE operator node evaluated thousands of times (loop, script
//	         function, range loop, one parsed tree re-run with vm.RunContext, results
//	         stored in a list, compound forms), the native reference applied at EVERY
//	         evaluation by a host probe; the operand kinds are the same for a long
//	         prefix (or around the evaluation counts 1, 2, 256, 1000, 1024, 4096,
//	         65536) and then change (polymorphic site); rounds of one process are
//	         separated by dropping everything and runtime.GC().
//	stream   one case = one long history in ONE process: ~19000 pairwise distinct
//	         evaluations (distinct sources, literals, operand pairs, results, values
//	         congruent to the reference operands modulo 256/1024/4096/65536/2^32,
//	         int64/float64 pairs with the same bits, 3 / 3.0 / "3", +0/-0), in
//	         long-lived, fresh, dropped and leaked environments, under live and
//	         cancelled contexts, with forced garbage collections, while ~97 reference
//	         evaluations with a native reference are asked again at distances of
//	         exactly N-1, N, N+1 distinct evaluations for N in 256, 1000, 1024, 4096.
//
// What is kept out of the generated domain because the statement is silent:
// results beyond a few MiB ("astronomically large" repeats stay with c05Bin's
// rule for counts above 1000 in the older phases; here the size of the RESULT is
// bounded instead, 300 KB in the quick and 4 MiB + 1 in the thorough tier),
// `-` between strings and numbers inside loops (only the kind of the outcome is
// stated), operands that make the reference an error inside a loop (the error
// ends the loop; error cases are asked one evaluation at a time).

import (
	"context"
	"fmt"
	"math"
	"math/rand"
	"runtime"
	"runtime/debug"
	"strconv"
	"strings"

	"github.com/mattn/anko/ast"
	"github.com/mattn/anko/env"

	"verifharness/internal/ank"
	"verifharness/internal/fw"
	"verifharness/internal/wk"
)

const c05R8Rule = " Round 8 (volume and history; the native reference of the older phases, applied at every evaluation): " +
	"phase volume: `string * n` for left operands of 1, 2, 3, 5, 7, 8, 13, 64, 100, 255..257, 1000, 1023..1025, 4095..4097, 65535..65537 and 70001 bytes (valid UTF-8 with 1- to 4-byte characters at every alignment) and counts that put the result on and next to 255..257, 1023..1025, 4095..4097, 65535..65537, 131071..131073, 199999..200001 and 262143..262145 bytes (thorough: 1 MiB and 4 MiB too), through variables, literals, `*=`, a script function and a cancellable context; concatenations and string ==/!= whose operands and results sit on those sizes (operands differing in one byte at the thresholds); a string grown by 2000-3000 `+=` steps (strings and numbers, doubling) judged after every step with snapshots compared at the end; unparenthesised chains of 255..257, 1023..1025, 4095..4097 and 12000 operands (ints, floats, a float or a string at the first, second, middle or last position; + -, *, &, |) against the native left fold; right-nested, left-nested and zig-zag trees, unary and parenthesis towers 255..257, 1023..1025, 4095..4097 and 12000 deep against the native fold; string literals of 4093..4099 and 65533..65539 bytes with 2-, 3- and 4-byte characters across the 4096/65536 byte positions at four alignments, numerals of 255..4097 characters; every result kept is compared again at the end of the case. " +
	"phase hotnode: one operator node (every binary operator, unary - ^, every compound form) evaluated 300 to 70000 times in one run - script loop over host lists, script function called from the loop, range loop that keeps the previous result, one parsed tree re-run with vm.RunContext in one and in fresh environments, results stored in a host list and read at the end, a literal right operand, compound forms on a variable, a list element and an accumulator - with the reference applied at every evaluation; operand kinds stay the same (varying or identical values) up to an evaluation count of 1, 2, 255..257, 999..1001, 1023..1025, 4095..4097 (or everywhere except around 1, 2, 256, 1000, 1024, 4096, 10000, 65536) and then change to PRNG-drawn pairs of all kinds the operator is stated for (a third of them neighbours: x and x+-1, x and float64(x)); every warm-up kind pair of every operator (small ints, large ints, floats, int/float, strings, string/count ...) gets a run of 4095..4097 evaluations before the kinds change, and every fifth case 70000 evaluations with changing and 66000 with identical small operands; after every round all trees and environments are dropped, runtime.GC() runs and the same source is run again with operands of all kinds from the first evaluation on. " +
	"phase stream: one case is one history in one process: pairwise distinct evaluations (eight kinds: literal operands, one source text with changing bindings, small trees, unary, concatenations of distinct strings and numbers, repeats, compound forms, four parsed trees re-run with new bindings; values congruent to the reference operands modulo 256, 1024, 4096, 65536 and 2^32, int64/float64 pairs with equal bits and equal numeric value) in long-lived, child, fresh and leaked environments under background, live and already cancelled-after-use contexts, a garbage collection every 1500 evaluations, while 97 reference evaluations (every operator on cached, large, float and mixed pairs, errors, the string tables) are asked again after exactly N-1, N, N+1 distinct other evaluations for N in 256, 1000, 1024, 4096 (thorough: 8192, 16384, 65536 too)."

var c05R8Assumptions = []string{
	"the length of a string, the number of operands of a chain, the depth of a tree, the number of times a node has been evaluated and what the process evaluated before are not inputs of an operator: the reference of a long or late evaluation is the same native function as for a short first one",
	"a result is a value: a string or number an operator returned does not change when later operations are carried out (results kept by the host or by the script are compared again later)",
	"results of more than 300 KB (quick) / 4 MiB + 1 (thorough) are not asked for; inside loops operands are drawn so that the reference is not an error"}

// ---------------------------------------------------------------------------
// plan and dispatch

var c05R8RepeatUnits = []int{1, 2, 3, 5, 7, 8, 13, 64, 100, 255, 256, 257, 1000, 1023, 1024, 1025, 4095, 4096, 4097, 65535, 65536, 65537, 70001}

const c05R8UnitsPerCase = 4

// kinds of volume cases, in index order (quick); the thorough tier appends
// PRNG-varied cases of every kind
func c05R8VolumeKinds(tier string) []string {
	var ks []string
	for i := 0; i < len(c05R8RepeatUnits); i += c05R8UnitsPerCase {
		ks = append(ks, "repeat")
	}
	ks = append(ks, "concat", "grow", "grow", "chain", "chain", "nest", "literal")
	if tier == "thorough" {
		for i := 0; i < 24; i++ {
			ks = append(ks, "repeat-random")
		}
		for i := 0; i < 6; i++ {
			ks = append(ks, "concat", "grow", "chain", "nest", "literal")
		}
	}
	return ks
}

func c05R8Phases(tier string) []fw.Phase {
	nHot, nStream := len(c05R8HotOps()), 6
	if tier == "thorough" {
		nHot, nStream = 12*len(c05R8HotOps()), 60
	}
	return []fw.Phase{
		{Name: "volume", Cases: len(c05R8VolumeKinds(tier)), Chunk: 1, TimeoutS: 900},
		{Name: "hotnode", Cases: nHot, Chunk: 4, TimeoutS: 900},
		{Name: "stream", Cases: nStream, Chunk: 1, TimeoutS: 1800},
	}
}

// c05R8Run runs a case of one of the round-8 phases; false when the phase is not one of them.
func c05R8Run(c *wk.Case, pool []c05Val) bool {
	switch c.Phase {
	case "volume":
		c05R8Volume(c)
	case "hotnode":
		c05R8Hot(c)
	case "stream":
		c05R8Stream(c, pool)
	default:
		return false
	}
	return true
}

// ---------------------------------------------------------------------------
// judging

// c05R8Rep reports violations, at most two per signature and case (one broken
// node gives thousands of wrong evaluations).
type c05R8Rep struct {
	c    *wk.Case
	seen map[string]int
}

func newC05R8Rep(c *wk.Case) *c05R8Rep { return &c05R8Rep{c: c, seen: map[string]int{}} }

func (r *c05R8Rep) viol(sig, detail string, input map[string]interface{}) {
	r.seen[sig]++
	if r.seen[sig] > 2 {
		r.c.Tag("r8:repeats-of-a-reported-signature")
		return
	}
	in := map[string]interface{}{"phase": r.c.Phase, "case": r.c.Index, "seed": r.c.W.Seed, "replay": "the case is rebuilt from (VERIF_SEED, phase, case index): ./vcheck replay re-runs it"}
	for k, v := range input {
		in[k] = v
	}
	r.c.Violation(sig, detail, in)
}

// c05R8Clip shortens a text for a detail or an input.
func c05R8Clip(s string, n int) string {
	if len(s) <= n {
		return s
	}
	return s[:n/2] + "...(" + strconv.Itoa(len(s)) + " bytes)..." + s[len(s)-n/2:]
}

// c05R8StrDiff describes how two strings differ without printing them.
func c05R8StrDiff(got, want string) string {
	n := len(got)
	if len(want) < n {
		n = len(want)
	}
	p := 0
	for p < n && got[p] == want[p] {
		p++
	}
	win := func(s string) string {
		lo, hi := p-12, p+12
		if lo < 0 {
			lo = 0
		}
		if hi > len(s) {
			hi = len(s)
		}
		return strconv.Quote(s[lo:hi])
	}
	return fmt.Sprintf("got a string of %d bytes, want %d bytes; first difference at byte %d: got %s, want %s", len(got), len(want), p, win(got), win(want))
}

// c05R8Diff compares a value the interpreter produced with the native reference
// (not an error reference). kind is "" when they agree, else "value" or "type".
func c05R8Diff(v interface{}, want c05Res) (kind, detail string) {
	if want.isBool {
		if b, ok := v.(bool); ok {
			if b == want.b {
				return "", ""
			}
			return "value", fmt.Sprintf("got bool(%v), want %s", b, c05Want(want))
		}
		return "type", fmt.Sprintf("got %s, want %s", ank.Render(v), c05Want(want))
	}
	if want.v.kind == 'F' {
		if _, ok := v.(float64); ok {
			return "", ""
		}
		return "type", fmt.Sprintf("got %s, want %s", ank.Render(v), c05Want(want))
	}
	var got c05Val
	switch g := v.(type) {
	case int64:
		got = c05Val{kind: 'i', i: g}
	case float64:
		got = c05Val{kind: 'f', f: g}
	case string:
		got = c05Val{kind: 's', s: g}
	default:
		return "type", fmt.Sprintf("got %s, want %s", ank.Render(v), c05R8WantText(want))
	}
	if c05Equal(got, want.v) {
		return "", ""
	}
	if got.kind != want.v.kind {
		return "type", fmt.Sprintf("got %s, want %s", ank.Render(v), c05R8WantText(want))
	}
	if got.kind == 's' && len(got.s)+len(want.v.s) > 200 {
		return "value", c05R8StrDiff(got.s, want.v.s)
	}
	return "value", fmt.Sprintf("got %s, want %s", got, want.v)
}

func c05R8WantText(want c05Res) string {
	if !want.isErr && !want.isBool && want.v.kind == 's' && len(want.v.s) > 200 {
		return fmt.Sprintf("a string of %d bytes beginning %s", len(want.v.s), strconv.Quote(want.v.s[:40]))
	}
	return c05Want(want)
}

// c05R8Judge judges one boundary call against the native reference.
func c05R8Judge(rep *c05R8Rep, o ank.Out, want c05Res, tag string, input map[string]interface{}) bool {
	rep.c.Events(1)
	switch {
	case o.Panicked:
		rep.viol("panic:"+tag, "panic: "+o.PanicVal, input)
	case want.isErr:
		if o.Err == nil {
			rep.viol("noerror:"+tag, "expected an error, got "+ank.Render(o.Val), input)
			return false
		}
		return true
	case want.v.kind == 'F' && !want.isBool && o.Err != nil:
		return true // a float64 of any value or an error (c05Bin)
	case o.Err != nil:
		rep.viol("error:"+tag, fmt.Sprintf("unexpected error %q, want %s", ank.ErrText(o.Err), c05R8WantText(want)), input)
	default:
		kind, detail := c05R8Diff(o.Val, want)
		if kind == "" {
			return true
		}
		rep.viol(kind+":"+tag, detail, input)
	}
	return false
}

// c05R8Same: two values handed to a probe are the same value of the same type.
func c05R8Same(a, b interface{}) bool {
	switch x := a.(type) {
	case int64:
		y, ok := b.(int64)
		return ok && x == y
	case float64:
		y, ok := b.(float64)
		return ok && (math.Float64bits(x) == math.Float64bits(y) || (x != x && y != y))
	case string:
		y, ok := b.(string)
		return ok && x == y
	case bool:
		y, ok := b.(bool)
		return ok && x == y
	}
	return ank.Render(a) == ank.Render(b)
}

// c05R8Tag: the operator and the kinds of its operands, as in the older phases.
func c05R8Tag(prefix, op string, x, y c05Val) string {
	return prefix + ":" + op + ":" + kindTag(x) + "," + kindTag(y)
}

// ---------------------------------------------------------------------------
// phase volume

// c05R8Runes: 1-, 2-, 3- and 4-byte characters
var c05R8Runes = []rune{'a', 'é', '日', '😀', 'Z', 'ß', '本', '𝄞', '0', 'ñ', '語', '🚀', 'q', 'ü', '한', '🎈'}

// c05R8Text returns valid UTF-8 of exactly n bytes: multi-byte characters at every
// alignment, PRNG-chosen, so that no proper shift of the text equals the text.
func c05R8Text(r *rand.Rand, n int) string {
	var b strings.Builder
	b.Grow(n)
	for b.Len() < n {
		left := n - b.Len()
		ru := c05R8Runes[r.Intn(len(c05R8Runes))]
		if r.Intn(3) == 0 {
			ru = rune('b' + r.Intn(24))
		}
		w := len(string(ru))
		if w > left {
			ru = rune('A' + r.Intn(26))
		}
		b.WriteRune(ru)
	}
	return b.String()
}

// result sizes the repetitions aim at
func c05R8Targets(tier string) []int {
	t := []int{255, 256, 257, 1023, 1024, 1025, 4095, 4096, 4097, 65535, 65536, 65537, 131071, 131072, 131073, 199999, 200000, 200001, 262143, 262144, 262145}
	if tier == "thorough" {
		t = append(t, 1<<20-1, 1<<20, 1<<20+1, 4<<20-1, 4<<20, 4<<20+1)
	}
	return t
}

func c05R8MaxResult(tier string) int {
	if tier == "thorough" {
		return 4<<20 + 1
	}
	return 300000
}

// c05Vol is the state of one volume case.
type c05Vol struct {
	c    *wk.Case
	rep  *c05R8Rep
	e    *env.Env
	kept []c05Kept // results handed out earlier, compared again at the end
	keptBytes,
	maxResult, maxSource, maxOperands, maxDepth int
}

type c05Kept struct {
	got, want string
	tag, what string
}

func (v *c05Vol) keep(got interface{}, want, tag, what string) {
	s, ok := got.(string)
	if !ok || v.keptBytes+len(s) > 48<<20 {
		return
	}
	v.kept = append(v.kept, c05Kept{s, want, tag, what})
	v.keptBytes += len(s)
}

// run evaluates src (defs bound in the case's environment) and judges it. what
// describes the inputs for the report (the operands themselves may be huge).
func (v *c05Vol) run(src string, defs map[string]interface{}, want c05Res, tag, what string, ctxMode int) ank.Out {
	c := v.c
	for k, d := range defs {
		v.e.Define(k, d)
	}
	input := map[string]interface{}{"src": c05R8Clip(src, 400), "operands": what}
	c.Begin(input)
	var o ank.Out
	switch ctxMode {
	case 1:
		ctx, cancel := context.WithCancel(context.Background())
		o = ank.ExecCtx(ctx, v.e, src)
		cancel() // an earlier run's context is cancelled after the run: later runs have their own
		v.c.Tag("volume:own-context-cancelled-after-the-run")
	case 2:
		stmt, err, po := ank.Parse(src)
		if po.Panicked || err != nil {
			o = po
		} else {
			o = ank.RunCtx(context.Background(), v.e, stmt)
		}
	default:
		if v.c.Rng.Intn(3) == 0 {
			// a context of its own, cancelled once the run is over
			ctx, cancel := context.WithCancel(context.Background())
			o = ank.ExecCtx(ctx, v.e, src)
			cancel()
			v.c.Tag("volume:own-context-cancelled-after-the-run")
		} else {
			o = ank.Exec(v.e, src)
		}
	}
	c.Eval(tag+"|"+what+"|"+c05R8Clip(src, 200), true)
	if len(src) > v.maxSource {
		v.maxSource = len(src)
	}
	if !want.isErr && !want.isBool && want.v.kind == 's' && len(want.v.s) > v.maxResult {
		v.maxResult = len(want.v.s)
	}
	if c05R8Judge(v.rep, o, want, tag, input) && !want.isErr && !want.isBool && want.v.kind == 's' {
		v.keep(o.Val, want.v.s, tag, what+" | "+c05R8Clip(src, 120))
	}
	return o
}

// finish compares every kept result again and writes the counters.
func (v *c05Vol) finish() {
	runtime.GC()
	for _, k := range v.kept {
		v.c.Events(1)
		if k.got != k.want {
			v.rep.viol("value:"+k.tag+":changed-later", "a result that was right when it was returned differs at the end of the case: "+c05R8StrDiff(k.got, k.want), map[string]interface{}{"operands": k.what})
		}
	}
	v.c.Count("volume_results_compared_again", len(v.kept))
	c05R8Max(v.c, "volume:max-result-bytes", v.maxResult, []int{257, 1025, 4097, 65537, 131073, 200001, 262145, 1<<20 + 1, 4<<20 + 1})
	c05R8Max(v.c, "volume:max-source-bytes", v.maxSource, []int{4097, 65537, 131073})
	c05R8Max(v.c, "volume:max-operands-of-a-chain", v.maxOperands, []int{257, 1025, 4097, 12000})
	c05R8Max(v.c, "volume:max-depth", v.maxDepth, []int{257, 1025, 4097, 12000})
}

// c05R8Max records which of the marks a maximum reached (tags are summed over
// processes, so a maximum is reported as "reached >= mark").
func c05R8Max(c *wk.Case, name string, v int, marks []int) {
	for _, m := range marks {
		if v >= m {
			c.Tag(name + ">=" + strconv.Itoa(m))
		}
	}
}

func c05R8Volume(c *wk.Case) {
	kinds := c05R8VolumeKinds(c.Tier)
	v := &c05Vol{c: c, rep: newC05R8Rep(c), e: ank.NewCoreEnv()}
	kind := kinds[c.Index]
	c.Tag("volume:case:" + kind)
	switch kind {
	case "repeat":
		lo := c.Index * c05R8UnitsPerCase
		hi := lo + c05R8UnitsPerCase
		if hi > len(c05R8RepeatUnits) {
			hi = len(c05R8RepeatUnits)
		}
		v.repeat(c05R8RepeatUnits[lo:hi])
	case "repeat-random":
		r := c.Rng
		var us []int
		for i := 0; i < c05R8UnitsPerCase; i++ {
			switch r.Intn(4) {
			case 0:
				us = append(us, 1+r.Intn(40))
			case 1:
				us = append(us, 1+r.Intn(5000))
			case 2:
				us = append(us, 60000+r.Intn(12000))
			default:
				us = append(us, 1+r.Intn(300000))
			}
		}
		v.repeat(us)
	case "concat":
		v.concat()
	case "grow":
		v.grow(c.Index%2 == 0)
	case "chain":
		// (a chain of thousands of operands is evaluated on a deep stack and allocates
		// a new string or box per operand: with the default pacing the collector runs,
		// and walks that stack, every few operands)
		defer debug.SetGCPercent(debug.SetGCPercent(800))
		v.chains(c.Index%2 == 0)
	case "nest":
		defer debug.SetGCPercent(debug.SetGCPercent(800))
		v.nests()
	case "literal":
		v.literals()
	}
	v.finish()
}

// repeat: `s * n` for every unit length of units and every target size.
func (v *c05Vol) repeat(units []int) {
	r := v.c.Rng
	maxRes := c05R8MaxResult(v.c.Tier)
	form := r.Intn(5)
	for _, u := range units {
		s := c05R8Text(r, u)
		sv := c05Val{kind: 's', s: s}
		counts := map[int64]bool{0: true, 1: true, 2: true, 3: true}
		for _, tg := range c05R8Targets(v.c.Tier) {
			for _, n := range []int64{int64(tg / u), int64(tg/u) + 1} {
				if n >= 0 && n*int64(u) <= int64(maxRes) {
					counts[n] = true
				}
			}
		}
		// in ascending order, so that the case list does not depend on map order
		var ns []int64
		for n := range counts {
			ns = append(ns, n)
		}
		for i := range ns {
			for j := i + 1; j < len(ns); j++ {
				if ns[j] < ns[i] {
					ns[i], ns[j] = ns[j], ns[i]
				}
			}
		}
		// the largest repetition first, under a context that is cancelled when the run
		// is over: every later run of the process comes after a cancelled context
		if top := ns[len(ns)-1]; top*int64(u) <= int64(maxRes) {
			want := c05Res{v: c05Val{kind: 's', s: strings.Repeat(s, int(top))}}
			v.run("s * n", map[string]interface{}{"s": s, "n": top}, want, c05R8Tag("volume", "*", sv, c05Val{kind: 'i', i: top}),
				fmt.Sprintf("s = valid UTF-8 of %d bytes, n = %d (result %d bytes; vm.ExecuteContext, cancelled afterwards)", u, top, top*int64(u)), 1)
		}
		for _, n := range ns {
			if n*int64(u) > int64(maxRes) {
				continue
			}
			want := c05Res{v: c05Val{kind: 's', s: strings.Repeat(s, int(n))}} // the statement: s repeated n times
			what := fmt.Sprintf("s = valid UTF-8 of %d bytes beginning %s, n = %d (result %d bytes)", u, strconv.Quote(c05R8Clip(s, 24)), n, n*int64(u))
			tag := c05R8Tag("volume", "*", sv, c05Val{kind: 'i', i: n})
			defs := map[string]interface{}{"s": s, "n": n}
			form++
			switch form % 6 {
			case 0:
				v.run("s * n", defs, want, tag, what, 0)
			case 1:
				if u <= 300 {
					v.run(strconv.Quote(s)+" * "+strconv.FormatInt(n, 10), nil, want, tag, what+" (literals)", 0)
				} else {
					v.run("(s) * (n)", defs, want, tag, what, 0)
				}
			case 2:
				v.run("t = s; t *= n; t", defs, want, "volume:*=:string,"+kindTag(c05Val{kind: 'i', i: n}), what, 0)
			case 3:
				v.run("f = func(a, b) { return a * b }; f(s, n)", defs, want, tag, what, 0)
			case 4:
				v.run("s * n", defs, want, tag, what+" (vm.ExecuteContext, cancelled afterwards)", 1)
			default:
				v.run("r = [s, n]; r[0] * r[1]", defs, want, tag, what+" (parsed, vm.RunContext)", 2)
			}
			v.c.Tag("volume:repeat")
		}
		// a script-built left operand: (s * 3) * n is s repeated 3n times
		if n := int64(maxRes / (3 * u)); n >= 1 {
			want := c05Res{v: c05Val{kind: 's', s: strings.Repeat(s, int(3*n))}}
			v.run("t = s * 3; t * n", map[string]interface{}{"s": s, "n": n}, want, "volume:*:string,int", fmt.Sprintf("s = %d bytes, (s * 3) * %d", u, n), 0)
		}
		// a negative count stays an error for a long left operand
		v.run("s * n", map[string]interface{}{"s": s, "n": int64(-1)}, c05Res{isErr: true}, "volume:*:string,intcached", fmt.Sprintf("s = %d bytes, n = -1", u), 0)
	}
}

// concat: `s + t`, `s + number`, `number + s`, string == / != on the threshold sizes.
func (v *c05Vol) concat() {
	r := v.c.Rng
	maxRes := c05R8MaxResult(v.c.Tier)
	form := r.Intn(4)
	shorts := []int{0, 1, 3, 257, 4097, 65537}
	for _, ls := range c05R8Targets(v.c.Tier) {
		if ls > maxRes-70000 {
			continue
		}
		s := c05R8Text(r, ls)
		sv := c05Val{kind: 's', s: s}
		for _, lt := range shorts {
			t := c05R8Text(r, lt)
			tv := c05Val{kind: 's', s: t}
			what := fmt.Sprintf("s = %d bytes, t = %d bytes", ls, lt)
			defs := map[string]interface{}{"s": s, "t": t}
			form++
			switch form % 4 {
			case 0:
				v.run("s + t", defs, c05Bin("+", sv, tv), "volume:+:string,string", what, 0)
				v.run("t + s", defs, c05Bin("+", tv, sv), "volume:+:string,string", what, 0)
			case 1:
				v.run("u = s; u += t; u", defs, c05Bin("+", sv, tv), "volume:+=:string,string", what, 0)
				v.run("u = t; u += s; u", defs, c05Bin("+", tv, sv), "volume:+=:string,string", what, 1)
			case 2:
				v.run("f = func(a, b) { return a + b }; f(s, t)", defs, c05Bin("+", sv, tv), "volume:+:string,string", what, 0)
				v.run("r = [t, s]; r[0] + r[1]", defs, c05Bin("+", tv, sv), "volume:+:string,string", what, 2)
			default:
				// three operands: the left fold
				st := c05Bin("+", sv, tv)
				v.run("s + t + s", defs, c05Bin("+", st.v, sv), "volume:+:string,string", what, 0)
			}
			v.c.Tag("volume:concat")
		}
		// numbers in Go's default formatting, before and behind a long string
		for _, y := range []c05Val{{kind: 'i', i: 7}, {kind: 'i', i: math.MinInt64}, {kind: 'f', f: 1e21}, {kind: 'f', f: 0.1}, {kind: 'f', f: math.Inf(-1)}} {
			what := fmt.Sprintf("s = %d bytes, y = %s", ls, y)
			defs := map[string]interface{}{"s": s, "y": y.goValue()}
			v.run("s + y", defs, c05Bin("+", sv, y), c05R8Tag("volume", "+", sv, y), what, 0)
			v.run("y + s", defs, c05Bin("+", y, sv), c05R8Tag("volume", "+", y, sv), what, 0)
		}
		// equality of long strings: equal copies, and copies differing in one byte
		// at the first, a middle, the last position and next to the size marks
		cp := string(append([]byte(nil), s...))
		defs := map[string]interface{}{"s": s, "t": cp}
		v.run("s == t", defs, c05Bin("==", sv, c05Val{kind: 's', s: cp}), "volume:==:string,string", fmt.Sprintf("two equal strings of %d bytes", ls), 0)
		v.run("s != t", defs, c05Bin("!=", sv, c05Val{kind: 's', s: cp}), "volume:!=:string,string", fmt.Sprintf("two equal strings of %d bytes", ls), 0)
		for _, p := range []int{0, ls / 2, ls - 1, 255, 256, 1023, 1024, 4095, 4096, 65535, 65536} {
			if p < 0 || p >= ls {
				continue
			}
			b := []byte(s)
			b[p] ^= 1 // text for the comparison only: any byte string is a string
			d := string(b)
			dv := c05Val{kind: 's', s: d}
			op := []string{"==", "!="}[(p+ls)%2]
			v.run("s "+op+" d", map[string]interface{}{"s": s, "d": d}, c05Bin(op, sv, dv), "volume:"+op+":string,string", fmt.Sprintf("two strings of %d bytes differing at byte %d only", ls, p), 0)
		}
		v.run("s == d", map[string]interface{}{"s": s, "d": s + "x"}, c05Bin("==", sv, c05Val{kind: 's', s: s + "x"}), "volume:==:string,string", fmt.Sprintf("a string of %d bytes and the same with one more byte", ls), 0)
		// garbage in between: the operands of the comparisons above are dropped and
		// collected, fresh copies (equal ones and ones differing in the last byte) are
		// made where they were and compared
		for k := 0; k < 3 && ls > 0; k++ {
			v.e.Define("t", nil)
			v.e.Define("d", nil)
			runtime.GC()
			eq := string(append([]byte(nil), s...))
			v.run("s == d", map[string]interface{}{"s": s, "d": eq}, c05Bin("==", sv, c05Val{kind: 's', s: eq}), "volume:==:string,string", fmt.Sprintf("a string of %d bytes and a fresh equal copy made after a garbage collection", ls), 0)
			v.e.Define("d", nil)
			eq = ""
			runtime.GC()
			b := []byte(s)
			b[ls-1] ^= 1
			ne := string(b)
			v.run("s != d", map[string]interface{}{"s": s, "d": ne}, c05Bin("!=", sv, c05Val{kind: 's', s: ne}), "volume:!=:string,string", fmt.Sprintf("a string of %d bytes and a fresh copy differing in the last byte, made after a garbage collection", ls), 0)
			v.c.Count("volume_gcs_between_comparisons", 2)
		}
	}
}

// grow: one string grown by thousands of `+=` (or by doubling); the value is
// judged after every step by a host probe and snapshots are compared at the end.
func (v *c05Vol) grow(numbers bool) {
	c, r := v.c, v.c.Rng
	steps := 2000 + r.Intn(1000)
	maxRes := c05R8MaxResult(c.Tier)
	var pieces []interface{}
	var offs []int // offs[i] = length after step i
	var full strings.Builder
	for i := 0; i < steps; i++ {
		var p c05Val
		switch x := r.Intn(10); {
		case numbers && x < 2:
			p = c05Val{kind: 'i', i: int64(r.Uint64() >> uint(r.Intn(64)))}
		case numbers && x < 4:
			p = c05Val{kind: 'f', f: []float64{0.1, 1e21, -2.5, 3, 1e-7, math.Inf(1), float64(r.Intn(1 << 20)), r.Float64()}[r.Intn(8)]}
		case x < 8:
			p = c05Val{kind: 's', s: c05R8Text(r, 1+r.Intn(140))}
		default:
			p = c05Val{kind: 's', s: c05R8Text(r, []int{0, 1, 255, 256, 257, 300}[r.Intn(6)])}
		}
		if full.Len()+len(c05Sprint(p)) > maxRes {
			break
		}
		full.WriteString(c05Sprint(p)) // `+` with a string on the left: the number in Go's default formatting
		pieces = append(pieces, p.goValue())
		offs = append(offs, full.Len())
	}
	E := full.String()
	n := len(pieces)
	snaps := make([]interface{}, n)
	var snapAt []int
	mark := make([]bool, n)
	for i := 0; i < n; i++ {
		// a snapshot wherever the length crosses one of the size marks, and every 97th step
		prev := 0
		if i > 0 {
			prev = offs[i-1]
		}
		for _, m := range []int{256, 1024, 4096, 65536, 131072} {
			if prev < m && offs[i] >= m {
				mark[i] = true
			}
		}
		if i%97 == 0 || i == n-1 {
			mark[i] = true
		}
		if mark[i] {
			snapAt = append(snapAt, i)
		}
	}
	e := ank.NewCoreEnv()
	calls, bad := 0, 0
	what := fmt.Sprintf("%d pieces (strings of 0..300 bytes%s), final length %d bytes", n, map[bool]string{true: ", int64 and float64 values", false: ""}[numbers], len(E))
	src := "t = \"\"\nfor i = 0; i < n; i++ {\n  t += ps[i]\n  if mark[i] { snaps[i] = t }\n  chk(i, t)\n}\nt"
	input := map[string]interface{}{"src": src, "operands": what}
	e.Define("ps", pieces)
	e.Define("mark", mark)
	e.Define("snaps", snaps)
	e.Define("n", int64(n))
	e.Define("chk", func(i int64, t interface{}) {
		calls++
		s, ok := t.(string)
		if ok && int(i) < n && s == E[:offs[i]] {
			return
		}
		bad++
		if !ok {
			v.rep.viol("type:volume:+=:grow", fmt.Sprintf("after step %d the place holds %s, want a string of %d bytes", i, ank.Render(t), offs[i]), input)
		} else {
			v.rep.viol("value:volume:+=:grow", fmt.Sprintf("after step %d (t += %s): %s", i, c05R8Clip(ank.Render(pieces[i]), 60), c05R8StrDiff(s, E[:offs[i]])), input)
		}
	})
	c.Begin(input)
	o := ank.Exec(e, src)
	c.Eval("grow|"+what, true)
	c.EvalN(n)
	c.Events(calls)
	c.Count("volume_grow_steps", calls)
	if c05R8Judge(v.rep, o, c05Res{v: c05Val{kind: 's', s: E}}, "volume:+=:grow", input) && calls != n {
		v.rep.viol("value:volume:+=:grow", fmt.Sprintf("the probe was called %d times, the loop has %d steps", calls, n), input)
	}
	if len(E) > v.maxResult {
		v.maxResult = len(E)
	}
	// the snapshots are values: what was stored at step i is E[:offs[i]] at the end too
	runtime.GC()
	for _, i := range snapAt {
		c.Events(1)
		if s, ok := snaps[i].(string); !ok || s != E[:offs[i]] {
			d := ank.Render(snaps[i])
			if ok {
				d = c05R8StrDiff(s, E[:offs[i]])
			}
			v.rep.viol("value:volume:+=:grow:changed-later", fmt.Sprintf("the copy taken after step %d differs at the end of the loop: %s", i, d), input)
		}
	}
	c.Count("volume_grow_snapshots", len(snapAt))
	c.Tag("volume:grow")

	// doubling: t = t + t and t *= 2 from a short seed up to the size bound
	seed := c05R8Text(r, []int{1, 3, 5, 7, 100}[r.Intn(5)])
	for _, st := range []string{"t = t + t", "t *= 2", "t += t"} {
		k := 0
		for l := len(seed); l*2 <= maxRes; l *= 2 {
			k++
		}
		want := c05Res{v: c05Val{kind: 's', s: strings.Repeat(seed, 1<<uint(k))}}
		v.run("t = s; for i = 0; i < k; i++ { "+st+" }; t", map[string]interface{}{"s": seed, "k": int64(k)}, want, "volume:doubling", fmt.Sprintf("s = %d bytes doubled %d times by `%s`", len(seed), k, st), 0)
	}
}

// c05R8Fold folds operands with one operator per step from the left (native
// reference of an unparenthesised chain of one precedence level).
func c05R8Fold(vals []c05Val, ops []string) (c05Res, bool) {
	cur := c05Res{v: vals[0]}
	for i := 1; i < len(vals); i++ {
		if cur.v.kind == 's' && ops[i-1] == "+" {
			// c05Bin's rule for a string on the left of `+` (the left operand followed by
			// the right one in Go's default formatting), for all the operands that follow
			// in one builder: the chain is thousands of operands long
			var b strings.Builder
			b.WriteString(cur.v.s)
			for ; i < len(vals) && ops[i-1] == "+"; i++ {
				b.WriteString(c05Sprint(vals[i]))
			}
			cur = c05Res{v: c05Val{kind: 's', s: b.String()}}
			i--
			continue
		}
		cur = c05Bin(ops[i-1], cur.v, vals[i])
		if cur.unspec || cur.isBool || cur.isErr || cur.v.kind == 'F' {
			return cur, false
		}
	}
	return cur, true
}

// c05R8ChainVal draws one operand of a long chain.
func c05R8ChainVal(r *rand.Rand, kind byte) c05Val {
	switch kind {
	case 'f':
		switch r.Intn(4) {
		case 0:
			return c05Val{kind: 'f', f: []float64{0.1, 0.3, 1e16, 1, 1e-7, 2.5, 1e21, -1e16}[r.Intn(8)]}
		case 1:
			return c05Val{kind: 'f', f: float64(r.Intn(1<<20)) / 1024}
		}
		return c05Val{kind: 'f', f: r.Float64() * float64(int64(1)<<uint(r.Intn(60)))}
	case 's':
		return c05Val{kind: 's', s: c05R8Text(r, r.Intn(7))}
	}
	switch r.Intn(4) {
	case 0:
		return c05Val{kind: 'i', i: int64(r.Intn(4200)) - 50}
	case 1:
		return c05Val{kind: 'i', i: c05Ints[r.Intn(len(c05Ints))]}
	}
	return c05Val{kind: 'i', i: int64(r.Uint64() >> uint(r.Intn(64)))}
}

// chains: unparenthesised chains of K operands against the native left fold.
func (v *c05Vol) chains(small bool) {
	r := v.c.Rng
	Ks := []int{255, 256, 257, 1023, 1024, 1025, 4095, 4096, 4097}
	if !small {
		Ks = []int{12000, 4097, 1025}
	}
	type pat struct {
		name string
		ops  []string
		base byte // kind of most operands
		odd  byte // kind of the one odd operand (0: none)
	}
	pats := []pat{
		{"ints", []string{"+", "-"}, 'i', 0}, {"floats", []string{"+", "-"}, 'f', 0},
		{"ints, one float", []string{"+", "-"}, 'i', 'f'}, {"floats, one int", []string{"+", "-"}, 'f', 'i'},
		{"ints, one string", []string{"+"}, 'i', 's'}, {"floats, one string", []string{"+"}, 'f', 's'},
		{"strings, numbers between", []string{"+"}, 's', 'i'},
		{"ints", []string{"*"}, 'i', 0}, {"ints, one float", []string{"*"}, 'i', 'f'},
		{"ints", []string{"&"}, 'i', 0}, {"ints", []string{"|"}, 'i', 0},
	}
	for _, K := range Ks {
		for pi, p := range pats {
			if K == 12000 && (p.name == "strings, numbers between" || p.name == "floats, one string" || (pi%2 == 1 && p.ops[0] != "+")) {
				continue
			}
			positions := []int{-1}
			if p.odd != 0 {
				positions = []int{0, 1, K / 2, K - 1}
				if p.odd == 's' && K > 1025 && K != 4096 {
					// every operand behind the string copies the whole text once more: the
					// early positions are taken at 255..1025 and 4096 operands only
					positions = []int{K / 2, K - 1}
				}
			}
			for _, pos := range positions {
				for try := 0; try < 4; try++ {
					vals := make([]c05Val, K)
					ops := make([]string, K-1)
					for i := range vals {
						k := p.base
						if i == pos || (p.name == "strings, numbers between" && i%5 == 3) {
							k = p.odd
						}
						vals[i] = c05R8ChainVal(r, k)
						if p.ops[0] == "*" && k == 'i' && r.Intn(3) > 0 {
							vals[i] = c05Val{kind: 'i', i: int64(2*r.Intn(40) - 39)} // odd factors: the product keeps its low bits busy
						}
					}
					for i := range ops {
						ops[i] = p.ops[r.Intn(len(p.ops))]
					}
					want, ok := c05R8Fold(vals, ops)
					if !ok {
						continue
					}
					defs := map[string]interface{}{}
					var sb strings.Builder
					blanks := r.Intn(4) > 0
					for i, x := range vals {
						if i > 0 {
							if blanks {
								sb.WriteString(" " + ops[i-1] + " ")
							} else {
								sb.WriteString(ops[i-1])
							}
						}
						lit, lok := x.literal()
						if !lok || strings.HasPrefix(lit, "-") || r.Intn(6) == 0 {
							name := "v" + strconv.Itoa(len(defs)%16)
							if old, has := defs[name]; has && ank.Render(old) != ank.Render(x.goValue()) {
								name = "v" + strconv.Itoa(len(defs))
							}
							defs[name] = x.goValue()
							sb.WriteString(name)
						} else {
							sb.WriteString(lit)
						}
					}
					if K > v.maxOperands {
						v.maxOperands = K
					}
					what := fmt.Sprintf("chain of %d operands (%s, operators %v, odd operand at %d)", K, p.name, p.ops, pos)
					v.run(sb.String(), defs, want, "volume:chain:"+p.ops[0], what, (pi+K)%3)
					v.c.Tag("volume:chain")
					break
				}
			}
		}
	}
}

// nests: deep trees against the native fold along the spine.
func (v *c05Vol) nests() {
	r := v.c.Rng
	Ds := []int{255, 256, 257, 1023, 1024, 1025, 4095, 4096, 4097, 12000}
	for _, D := range Ds {
		for shape := 0; shape < 3; shape++ { // 0 right-nested, 1 left-nested, 2 zig-zag
			for _, kinds := range []string{"i", "if", "ifs"} {
				if D == 12000 && kinds != []string{"i", "if", "ifs"}[shape] {
					continue // one tree per shape at this depth
				}
				for try := 0; try < 6; try++ {
					// spine from the innermost operand outwards: acc = leaf; acc = x op acc (right) or acc op x (left)
					leafKind := kinds[r.Intn(len(kinds))]
					if leafKind == 's' {
						leafKind = 'i'
					}
					acc := c05Res{v: c05R8ChainVal(r, leafKind)}
					lit, lok := acc.v.literal()
					if !lok || strings.HasPrefix(lit, "-") {
						continue
					}
					xs := make([]string, 0, D)  // the operands written around the core, innermost first
					os := make([]string, 0, D)  // and their operators
					sides := make([]bool, 0, D) // true: operand on the left of the core
					ok := true
					for d := 0; d < D && ok; d++ {
						k := kinds[r.Intn(len(kinds))]
						op := []string{"+", "-", "*"}[r.Intn(3)]
						if k == 's' {
							// strings join in the outermost 300 levels only (every level above
							// copies the whole text once more)
							if d < D-300 || r.Intn(10) > 0 {
								k = 'i'
							} else {
								op = "+"
							}
						}
						if acc.v.kind == 's' {
							op = "+" // once a string, only concatenation is stated
						}
						x := c05R8ChainVal(r, k)
						xl, xok := x.literal()
						if !xok || strings.HasPrefix(xl, "-") {
							x = c05Val{kind: 'i', i: int64(r.Intn(5000))}
							xl, _ = x.literal()
						}
						left := shape == 0 || (shape == 2 && d%2 == 0)
						var res c05Res
						if left {
							res = c05Bin(op, x, acc.v)
						} else {
							res = c05Bin(op, acc.v, x)
						}
						if res.unspec || res.isErr || res.isBool || res.v.kind == 'F' {
							ok = false
							break
						}
						acc = res
						xs = append(xs, xl)
						os = append(os, op)
						sides = append(sides, left)
					}
					if !ok {
						continue
					}
					var pre, post []string
					for d := len(xs) - 1; d >= 0; d-- {
						if sides[d] {
							pre = append(pre, "("+xs[d]+" "+os[d]+" ")
						} else {
							pre = append(pre, "(")
						}
					}
					for d := 0; d < len(xs); d++ {
						if sides[d] {
							post = append(post, ")")
						} else {
							post = append(post, " "+os[d]+" "+xs[d]+")")
						}
					}
					src := strings.Join(pre, "") + lit + strings.Join(post, "")
					if D > v.maxDepth {
						v.maxDepth = D
					}
					what := fmt.Sprintf("tree nested %d deep (%s, operand kinds %q)", D, []string{"right-nested", "left-nested", "zig-zag"}[shape], kinds)
					v.run(src, nil, acc, "volume:nest", what, (D+shape)%3)
					v.c.Tag("volume:nest")
					break
				}
			}
		}
		// towers of unary operators and of parentheses
		for xi, x := range []c05Val{{kind: 'i', i: 4095}, {kind: 'i', i: math.MinInt64}, {kind: 'f', f: 0}, {kind: 'i', i: 1<<53 + 1}} {
			if D == 12000 && xi%2 == 1 {
				continue
			}
			for _, op := range []string{"-", "^"} {
				cur := c05Res{v: x}
				ok := true
				for d := 0; d < D; d++ {
					cur = c05Un(op, cur.v)
					if cur.unspec {
						ok = false
						break
					}
				}
				if !ok {
					continue
				}
				what := fmt.Sprintf("%d unary %s around %s", D, op, x)
				v.run(strings.Repeat(op+"(", D)+"x"+strings.Repeat(")", D), map[string]interface{}{"x": x.goValue()}, cur, "volume:nest:unary"+op, what, 0)
			}
			lit := c05LitOrName(x, "x")
			want := c05Bin("+", x, c05Val{kind: 'i', i: 1})
			v.run(strings.Repeat("(", D)+lit+strings.Repeat(")", D)+" + 1", nil, want, "volume:nest:paren", fmt.Sprintf("%s inside %d pairs of parentheses, + 1", x, D), 0)
		}
	}
}

// literals: long string literals (multi-byte characters across the 4096 and
// 65536 byte positions, at four alignments in the source) and long numerals.
func (v *c05Vol) literals() {
	r := v.c.Rng
	one := c05Val{kind: 'i', i: 1}
	var Ls []int
	for _, m := range []int{4096, 65536} {
		for d := -3; d <= 3; d++ {
			Ls = append(Ls, m+d)
		}
	}
	n := 0
	for _, L := range Ls {
		for shift := 0; shift < 4; shift++ {
			// a multi-byte character straddles byte position m - shift of the literal
			s := c05R8Text(r, L)
			sv := c05Val{kind: 's', s: s}
			pad := strings.Repeat(" ", shift)
			q := strconv.Quote(s) // the characters are printable: the quoted form spells every one as itself
			bq := "`" + s + "`"
			what := fmt.Sprintf("string literal of %d bytes, %d blanks before it", L, shift)
			n++
			switch n % 5 {
			case 0:
				v.run(pad+q+" + 1", nil, c05Bin("+", sv, one), "volume:literal:+", what, 0)
			case 1:
				v.run(pad+"1.5 + "+q, nil, c05Bin("+", c05Val{kind: 'f', f: 1.5}, sv), "volume:literal:+", what, 2)
			case 2:
				t := c05R8Text(r, 5+shift)
				v.run(pad+q+" + "+strconv.Quote(t)+" + "+bq, nil, c05Bin("+", c05Bin("+", sv, c05Val{kind: 's', s: t}).v, sv), "volume:literal:+", what, 0)
			case 3:
				v.run(pad+bq+" * 2", nil, c05Bin("*", sv, c05Val{kind: 'i', i: 2}), "volume:literal:*", what, 0)
			default:
				v.run(pad+q+" == "+bq, nil, c05Bin("==", sv, sv), "volume:literal:==", what, 0)
				if s[L-1] < 0x80 {
					// the text ends in a one-byte character: another letter in its place
					d := s[:L-1] + string(rune('a'+(s[L-1]+1)%26))
					if d != s {
						v.run(pad+q+" != "+strconv.Quote(d), nil, c05Bin("!=", sv, c05Val{kind: 's', s: d}), "volume:literal:!=", what+", and one differing in the last byte", 0)
					}
				}
			}
			v.c.Tag("volume:literal")
		}
	}
	// long numerals: the value is the one strconv gives the text (c05_r7.go); an
	// integer part padded behind the point, a fraction with many zeros
	for _, n := range []int{255, 256, 257, 799, 800, 801, 1023, 1024, 1025, 4095, 4096, 4097} {
		for _, num := range []string{"2." + strings.Repeat("0", n-3) + "5", "1" + strings.Repeat("0", 15) + "." + strings.Repeat("0", n-18) + "1", "0." + strings.Repeat("0", n-3) + "7"} {
			f, err := strconv.ParseFloat(num, 64)
			if err != nil {
				continue
			}
			fv := c05Val{kind: 'f', f: f}
			what := fmt.Sprintf("float numeral of %d characters (%s)", len(num), c05R8Clip(num, 30))
			v.run(num+" + 1", nil, c05Bin("+", fv, one), "volume:numeral:+", what, 0)
			v.run("2 * "+num, nil, c05Bin("*", c05Val{kind: 'i', i: 2}, fv), "volume:numeral:*", what, 0)
			v.run("\"\" + "+num, nil, c05Bin("+", c05Val{kind: 's'}, fv), "volume:numeral:+", what, 0)
		}
	}
}

// ---------------------------------------------------------------------------
// phase hotnode

type c05HotOp struct {
	op   string // the binary operator (of `op=` for the compound forms), "-" / "^" for the unary ones
	form byte   // 'b' binary, 'u' unary, 'c' compound
}

func (o c05HotOp) String() string {
	switch o.form {
	case 'u':
		return "unary" + o.op
	case 'c':
		return o.op + "="
	}
	return o.op
}

func c05R8HotOps() []c05HotOp {
	var ops []c05HotOp
	for _, op := range c05BinOps {
		ops = append(ops, c05HotOp{op, 'b'})
	}
	ops = append(ops, c05HotOp{"-", 'u'}, c05HotOp{"^", 'u'})
	for _, op := range c05CompoundOps {
		ops = append(ops, c05HotOp{op, 'c'})
	}
	return ops
}

func (o c05HotOp) ref(x, y c05Val) c05Res {
	if o.form == 'u' {
		return c05Un(o.op, x)
	}
	return c05Bin(o.op, x, y)
}

// c05R8Val draws an operand of a class: 'c' an integer of the small-value range,
// 'e' an integer next to it, 'b' any other integer (2^31, 2^53, int64 edges,
// random bits), 'f' a float, 's' a short string, 'n' a repeat count, 't' an integer of 0..63.
func c05R8Val(r *rand.Rand, class byte) c05Val {
	switch class {
	case 'c':
		if r.Intn(8) == 0 {
			return c05Val{kind: 'i', i: []int64{-1, 0, 1, 2, 4094, 4095}[r.Intn(6)]}
		}
		return c05Val{kind: 'i', i: int64(r.Intn(4097)) - 1}
	case 't':
		return c05Val{kind: 'i', i: int64(r.Intn(64))}
	case 'e':
		return c05Val{kind: 'i', i: []int64{-3, -2, 4096, 4097, 4098, 5000, -4096, 65536}[r.Intn(8)]}
	case 'b':
		switch r.Intn(4) {
		case 0:
			return c05Val{kind: 'i', i: c05Ints[r.Intn(len(c05Ints))]}
		case 1:
			return c05Val{kind: 'i', i: []int64{1<<53 + 1, -(1<<53 + 1), 1<<53 - 1, 1 << 53, math.MaxInt64, math.MinInt64, math.MaxInt64 - 1, math.MinInt64 + 1, 1 << 62, 1<<31 - 1}[r.Intn(10)]}
		case 2:
			return c05Val{kind: 'i', i: int64(r.Uint64() >> uint(r.Intn(50)))}
		}
		return c05Val{kind: 'i', i: -int64(r.Uint64() >> uint(1+r.Intn(50)))}
	case 'f':
		switch r.Intn(5) {
		case 0:
			return c05Val{kind: 'f', f: c05Floats[r.Intn(len(c05Floats))]}
		case 1:
			return c05Val{kind: 'f', f: float64(r.Intn(1<<16)) / 64}
		case 2:
			return c05Val{kind: 'f', f: float64(int64(r.Intn(5000)) - 100)} // integral floats: 3.0 next to 3
		case 3:
			return c05Val{kind: 'f', f: []float64{1 << 53, 1<<53 + 2, -(1 << 53), 9.223372036854775807e18, 4095, 4096, 0.5, -0.5}[r.Intn(8)]}
		}
		return c05Val{kind: 'f', f: (r.Float64() - 0.5) * float64(int64(1)<<uint(r.Intn(62)))}
	case 's':
		switch r.Intn(4) {
		case 0:
			return c05Val{kind: 's', s: c05Strings[r.Intn(len(c05Strings))]}
		case 1:
			return c05Val{kind: 's', s: strconv.Itoa(r.Intn(5000))}
		}
		return c05Val{kind: 's', s: c05R8Text(r, r.Intn(24))}
	}
	return c05Val{kind: 'i', i: int64(r.Intn(9))} // 'n'
}

// c05R8Classes: the same-kind operand pairs a node is warmed up with, and the
// classes the later operands are drawn from (all the operator is stated for).
func c05R8Classes(o c05HotOp) (mono []string, mixX, mixY string) {
	if o.form == 'u' {
		if o.op == "^" {
			return []string{"c", "b"}, "ceb", ""
		}
		return []string{"c", "b", "f"}, "cebf", ""
	}
	switch o.op {
	case "+":
		return []string{"cc", "bb", "ff", "cf", "fc", "ss", "sc", "cs", "sf", "fs", "bs"}, "cebfs", "cebfs"
	case "*":
		return []string{"cc", "bb", "ff", "cf", "fc", "sn", "ec"}, "cebfs", "cebfn"
	case "-", "/":
		return []string{"cc", "bb", "ff", "cf", "fb", "ce"}, "cebf", "cebf"
	case "%", "&", "|", "<<", ">>":
		return []string{"cc", "bb", "cb", "bc", "ee"}, "ceb", "ceb"
	case "==", "!=":
		return []string{"cc", "bb", "ff", "ss", "cb"}, "cebfs", "cebfs"
	}
	return []string{"cc", "bb", "ff", "cf", "fb", "bf", "eb"}, "cebf", "cebf" // < <= > >=
}

func c05R8Usable(res c05Res) bool {
	return !res.unspec && !res.isErr && (res.isBool || (res.v.kind != 'F' && len(res.v.s) <= 4096))
}

// c05R8Pair draws an operand pair of the given classes whose reference is a value.
func c05R8Pair(r *rand.Rand, o c05HotOp, cx, cy string) (c05Val, c05Val, c05Res, bool) {
	for try := 0; try < 40; try++ {
		x := c05R8Val(r, cx[r.Intn(len(cx))])
		var y c05Val
		if o.form != 'u' {
			y = c05R8Val(r, cy[r.Intn(len(cy))])
			if len(cy) > 1 && try < 3 && r.Intn(3) == 0 {
				// operands next to each other: the pairs on which a comparison or a sum
				// carried out in the wrong kind differs from the right one
				switch x.kind {
				case 'i':
					y = c05Val{kind: 'i', i: x.i + int64(r.Intn(3)) - 1}
					if r.Intn(4) == 0 && strings.IndexByte(cy, 'f') >= 0 {
						y = c05Val{kind: 'f', f: float64(x.i)}
					}
				case 'f':
					y = c05Val{kind: 'f', f: math.Nextafter(x.f, math.Inf(r.Intn(2)*2-1))}
					if r.Intn(3) == 0 && x.f == math.Trunc(x.f) && math.Abs(x.f) < 1e18 {
						y = c05Val{kind: 'i', i: int64(x.f)}
					}
				}
			}
			if o.op == "==" || o.op == "!=" {
				// equality is stated for operands of one kind (mixed equality is C06's)
				if try%2 == 0 && r.Intn(3) == 0 {
					y = x // equal operands are as frequent as they are interesting
				}
			}
		}
		if res := o.ref(x, y); c05R8Usable(res) {
			return x, y, res, true
		}
	}
	return c05Val{}, c05Val{}, c05Res{}, false
}

// schedules: which evaluations get operands of the warm-up kinds
const (
	c05SchedPrefix = iota // the first T evaluations, then 64 mixed, 200 warm-up, 32 mixed
	c05SchedMarks         // all but the evaluations around the counts 1, 2, 256, 1000, 1024, 4096, 10000, 65536
	c05SchedFrozen        // the first T evaluations have identical operands, then mixed
	c05SchedMixed         // none
)

var c05R8Marks = []int{1, 2, 256, 1000, 1024, 4096, 10000, 65536}

type c05Hot struct {
	c        *wk.Case
	rep      *c05R8Rep
	evals    int
	maxEvals int
	rounds   int
	gcs      int
	lastForm int
}

func c05R8Hot(c *wk.Case) {
	ops := c05R8HotOps()
	op := ops[c.Index%len(ops)]
	r := c.Rng
	h := &c05Hot{c: c, rep: newC05R8Rep(c)}
	pick := func(ts ...int) int { return ts[r.Intn(len(ts))] }
	type rd struct {
		sched, T, N int
		mono        string // "" = PRNG-chosen
	}
	var rounds []rd
	// every warm-up kind pair of the operator gets one run beyond 4096 evaluations
	// before the kinds change
	mono, _, _ := c05R8Classes(op)
	for _, mp := range mono {
		rounds = append(rounds, rd{c05SchedPrefix, pick(4095, 4096, 4097), 0, mp})
	}
	rounds = append(rounds,
		rd{c05SchedPrefix, pick(999, 1000, 1001, 1023, 1024, 1025), 0, ""},
		rd{c05SchedMarks, 0, 4200, ""},
		rd{c05SchedFrozen, pick(1000, 1024, 4096), 0, ""},
		rd{c05SchedPrefix, pick(1, 2, 255, 256, 257), 0, ""})
	long := c.Index%5 == 0
	if c.Tier == "thorough" {
		long = c.Index%2 == 0
	}
	if long {
		// beyond 65536 evaluations of one node: operands of changing values, and the
		// very same two small operands (one small result produced 66000 times over)
		tiny := "tt"
		if op.form == 'u' {
			tiny = "t"
		}
		rounds = append(rounds, rd{c05SchedMarks, 0, 70000, ""}, rd{c05SchedFrozen, 66000, 0, tiny})
	}
	for _, x := range rounds {
		h.round(op, x.sched, x.T, x.N, -1, x.mono)
		// everything the round built is dropped; the next round's trees and boxes may
		// take the same addresses
		runtime.GC()
		h.gcs++
		// the same source again, operands of all kinds from the first evaluation on
		h.round(op, c05SchedMixed, 0, 64, h.lastForm, "")
		runtime.GC()
		h.gcs++
	}
	c.Count("hot_rounds", h.rounds)
	c.Count("hot_evaluations_judged", h.evals)
	c.Count("hot_gcs_between_rounds", h.gcs)
	c05R8Max(c, "hot:max-evaluations-of-one-node", h.maxEvals, []int{257, 1001, 1025, 4097, 10001, 65537})
}

// round: one operator node evaluated N times, the reference applied to every evaluation.
func (h *c05Hot) round(o c05HotOp, sched, T, N, forceForm int, mp string) {
	c, r := h.c, h.c.Rng
	mono, mixX, mixY := c05R8Classes(o)
	if mp == "" {
		mp = mono[r.Intn(len(mono))]
	}
	mx, my := mp[:1], ""
	if o.form != 'u' {
		my = mp[1:2]
	}
	switch sched {
	case c05SchedPrefix:
		N = T + 64 + 200 + 32
	case c05SchedFrozen:
		N = T + 96
	}
	nforms := map[byte]int{'b': 7, 'u': 5, 'c': 5}[o.form]
	form := r.Intn(nforms)
	if forceForm >= 0 {
		form = forceForm
	}
	rerun := (o.form == 'b' && (form == 3 || form == 4)) || (o.form == 'u' && (form == 2 || form == 3))
	if rerun && N > 6000 {
		form = 0
		rerun = false
	}
	h.lastForm = form
	warm := func(i int) bool {
		switch sched {
		case c05SchedPrefix:
			return i < T || (i >= T+64 && i < T+264)
		case c05SchedFrozen:
			return i < T
		case c05SchedMarks:
			for _, m := range c05R8Marks {
				if i+1 >= m-1 && i+1 <= m+2 {
					return false
				}
			}
			return true
		}
		return false
	}
	accumulate := o.form == 'c' && form == 4
	litRight := o.form == 'b' && form == 6
	xs, ys := make([]c05Val, N), make([]c05Val, N)
	wants := make([]c05Res, N)
	var x0, y0, acc c05Val
	if accumulate {
		mixX, mixY = "cebf", "cebf"
		if o.op == "&" || o.op == "|" {
			mixX, mixY = "ceb", "ceb"
		}
		mx, my = mixX[:1], mixY[:1]
		acc = c05R8Val(r, mx[0])
		x0 = acc
	}
	if litRight {
		// a right operand that has a literal and gives a stated result with the warm-up kind on the left
		found := false
		for try := 0; try < 40 && !found; try++ {
			y0 = c05R8Val(r, my[0])
			if _, ok := y0.literal(); ok && c05R8Usable(o.ref(c05R8Val(r, mx[0]), y0)) {
				found = true
			}
		}
		if !found {
			litRight, form = false, 0
		}
	}
	var fx, fy c05Val
	var fres c05Res
	frozenSet := false
	for i := 0; i < N; i++ {
		cx, cy := mixX, mixY
		if warm(i) {
			cx, cy = mx, my
		}
		if litRight {
			// the right operand is the literal: only the left one varies
			ok := false
			for try := 0; try < 60 && !ok; try++ {
				x := c05R8Val(r, cx[r.Intn(len(cx))])
				if res := o.ref(x, y0); c05R8Usable(res) {
					xs[i], ys[i], wants[i], ok = x, y0, res, true
				}
			}
			if !ok {
				if i == 0 {
					c.Excluded("hot:no-operands-in-the-stated-domain")
					return
				}
				xs[i], ys[i], wants[i] = xs[i-1], ys[i-1], wants[i-1]
			}
			continue
		}
		if accumulate {
			ok := false
			for try := 0; try < 60 && !ok; try++ {
				y := c05R8Val(r, cy[r.Intn(len(cy))])
				if res := o.ref(acc, y); c05R8Usable(res) {
					xs[i], ys[i], wants[i], ok = acc, y, res, true
					acc = res.v
				}
			}
			if !ok {
				N = i // (does not happen for the numeric classes; the run is cut here if it does)
				xs, ys, wants = xs[:N], ys[:N], wants[:N]
				break
			}
			continue
		}
		if sched == c05SchedFrozen && warm(i) && frozenSet {
			xs[i], ys[i], wants[i] = fx, fy, fres
			continue
		}
		x, y, res, ok := c05R8Pair(r, o, cx, cy)
		if !ok {
			x, y, res, ok = c05R8Pair(r, o, mx, my)
		}
		if !ok {
			if i == 0 {
				c.Excluded("hot:no-operands-in-the-stated-domain")
				return
			}
			x, y, res = xs[i-1], ys[i-1], wants[i-1]
		}
		xs[i], ys[i], wants[i] = x, y, res
		if sched == c05SchedFrozen && !frozenSet {
			fx, fy, fres, frozenSet = x, y, res, true
		}
	}
	if N == 0 {
		return
	}
	gx, gy := make([]interface{}, N), make([]interface{}, N)
	for i := range xs {
		gx[i], gy[i] = xs[i].goValue(), ys[i].goValue()
	}
	expr, loopSrc := "", ""
	formName := ""
	switch o.form {
	case 'b':
		expr = "xs[i] " + o.op + " ys[i]"
		switch form {
		case 0:
			formName, loopSrc = "loop", "for i = 0; i < n; i++ { chk(i, "+expr+") }"
		case 1:
			formName, loopSrc = "function", "f = func(a, b) { return a "+o.op+" b }\nfor i = 0; i < n; i++ { chk(i, f(xs[i], ys[i])) }"
		case 2:
			formName, loopSrc = "range-keeping-previous", "i = 0\nprev = nil\nfor x in xs {\n  v = x "+o.op+" ys[i]\n  chk(i, v)\n  if i > 0 { chkprev(i, prev) }\n  prev = v\n  i++\n}"
		case 3:
			formName = "parsed-once-one-env"
		case 4:
			formName = "parsed-once-fresh-envs"
		case 5:
			formName, loopSrc = "stored-in-a-list", "for i = 0; i < n; i++ { out[i] = "+expr+" }"
		default:
			formName, loopSrc = "literal-right-operand", "for i = 0; i < n; i++ { chk(i, xs[i] "+o.op+" "+c05LitOrName(y0, "y0")+") }"
		}
	case 'u':
		switch form {
		case 0:
			formName, loopSrc = "loop", "for i = 0; i < n; i++ { chk(i, "+o.op+"xs[i]) }"
		case 1:
			formName, loopSrc = "function", "f = func(a) { return "+o.op+"a }\nfor i = 0; i < n; i++ { chk(i, f(xs[i])) }"
		case 2:
			formName = "parsed-once-one-env"
		case 3:
			formName = "parsed-once-fresh-envs"
		default:
			formName, loopSrc = "stored-in-a-list", "for i = 0; i < n; i++ { out[i] = "+o.op+"xs[i] }"
		}
	default:
		st := " " + o.op + "= ys[i]"
		switch form {
		case 0:
			formName, loopSrc = "variable", "for i = 0; i < n; i++ { t = xs[i]; t"+st+"; chk(i, t) }"
		case 1:
			formName, loopSrc = "list-element", "for i = 0; i < n; i++ { cell[0] = xs[i]; cell[0]"+st+"; chk(i, cell[0]) }"
		case 2:
			formName, loopSrc = "map-member", "for i = 0; i < n; i++ { m.k = xs[i]; m.k"+st+"; chk(i, m.k) }"
		case 3:
			formName, loopSrc = "parameter", "f = func(p, q) { p "+o.op+"= q; return p }\nfor i = 0; i < n; i++ { chk(i, f(xs[i], ys[i])) }"
		default:
			formName, loopSrc = "accumulator", "t = x0\nfor i = 0; i < n; i++ { t"+st+"; chk(i, t) }"
		}
	}
	schedName := []string{"same kinds for the first T evaluations", "same kinds except around the evaluation counts 1, 2, 256, 1000, 1024, 4096, 10000, 65536", "identical operands for the first T evaluations", "all kinds from the first evaluation"}[sched]
	input := map[string]interface{}{"operator": o.String(), "form": formName, "src": loopSrc, "evaluations": N, "schedule": schedName, "T": T, "warm-up classes": mp,
		"classes": "c small-value integer, e next to it, b other integer, f float, s string, n count; operands are redrawn from (seed, phase, case)"}
	tagOf := func(i int) string { return c05R8Tag("hot", o.String(), xs[i], ys[i]) }
	if o.form == 'u' {
		tagOf = func(i int) string { return "hot:" + o.String() + ":" + kindTag(xs[i]) }
	}
	judged := 0
	check := func(i int, v interface{}) {
		judged++
		if i < 0 || i >= N {
			h.rep.viol("value:hot:"+o.String()+":probe", fmt.Sprintf("the probe was called with index %d of %d", i, N), input)
			return
		}
		kind, detail := c05R8Diff(v, wants[i])
		if kind == "" {
			return
		}
		in := map[string]interface{}{"evaluation": i + 1, "x": xs[i].String(), "y": ys[i].String(), "warm-up operand kinds at this evaluation": warm(i)}
		for k, d := range input {
			in[k] = d
		}
		h.rep.viol(kind+":"+tagOf(i), fmt.Sprintf("evaluation %d of the node (%s %s %s): %s", i+1, xs[i], o.String(), ys[i], detail), in)
	}
	c.Begin(input)
	c.Tag("hot:form:"+formName, "hot:schedule:"+strconv.Itoa(sched), "hot:op:"+o.String())
	if sched == c05SchedPrefix || sched == c05SchedFrozen {
		c.Tag("hot:kinds-change-after:" + strconv.Itoa(T))
	}
	if rerun {
		src := "x " + o.op + " y"
		if o.form == 'u' {
			src = o.op + "x"
		}
		input["src"] = src + "   (parser.ParseSrc once, vm.RunContext " + strconv.Itoa(N) + " times)"
		stmt, err, po := ank.Parse(src)
		if po.Panicked || err != nil {
			c05R8Judge(h.rep, po, wants[0], tagOf(0), input)
			return
		}
		fresh := formName == "parsed-once-fresh-envs"
		e := env.NewEnv()
		for i := 0; i < N; i++ {
			if fresh {
				e = env.NewEnv()
			}
			e.Define("x", gx[i])
			e.Define("y", gy[i])
			o2 := ank.RunCtx(context.Background(), e, stmt)
			if o2.Panicked || o2.Err != nil {
				judged++
				c05R8Judge(h.rep, o2, wants[i], tagOf(i), input)
				break
			}
			check(i, o2.Val)
		}
	} else {
		e := ank.NewCoreEnv()
		calls := 0
		var seen, prevSeen interface{} // what the probe was shown last, and before that
		seenSet, prevSet := false, false
		e.Define("xs", gx)
		e.Define("ys", gy)
		e.Define("n", int64(N))
		e.Define("x0", x0.goValue())
		out := make([]interface{}, N)
		e.Define("out", out)
		e.Define("cell", []interface{}{nil})
		e.Define("m", map[string]interface{}{"k": nil})
		e.Define("chk", func(i int64, v interface{}) {
			if int(i) != calls {
				h.rep.viol("value:hot:"+o.String()+":probe", fmt.Sprintf("probe call %d carries index %d", calls, i), input)
			}
			calls++
			check(int(i), v)
			prevSeen, prevSet = seen, seenSet
			seen, seenSet = v, true
		})
		e.Define("chkprev", func(i int64, v interface{}) {
			// called after chk(i, ..) with the result of evaluation i-1, which the script
			// kept in a variable: it is still the value the probe was shown then (right
			// or wrong - that was judged there)
			judged++
			if int(i)+1 != calls || !prevSet || c05R8Same(v, prevSeen) {
				return
			}
			in := map[string]interface{}{"evaluation": i}
			for k, d := range input {
				in[k] = d
			}
			h.rep.viol("value:hot:"+o.String()+":changed-later", fmt.Sprintf("the result of evaluation %d was %s when it was returned and is %s after evaluation %d", i, ank.Render(prevSeen), ank.Render(v), i+1), in)
		})
		o2 := ank.Exec(e, loopSrc)
		if o2.Panicked || o2.Err != nil {
			c05R8Judge(h.rep, o2, wants[0], "hot:"+o.String()+":run", input)
		} else if formName == "stored-in-a-list" {
			for i := range out {
				check(i, out[i])
			}
		} else if calls != N {
			h.rep.viol("value:hot:"+o.String()+":probe", fmt.Sprintf("the probe was called %d times, the loop runs %d times", calls, N), input)
		}
	}
	c.Eval(fmt.Sprintf("hot|%s|%s|%d|%d|%s|%s|%s", o, formName, sched, N, mp, xs[0], xs[N-1]), true)
	c.EvalN(N - 1)
	c.Events(judged)
	h.evals += judged
	h.rounds++
	if N > h.maxEvals {
		h.maxEvals = N
	}
}

// ---------------------------------------------------------------------------
// phase stream

type c05Ref struct {
	src  string
	defs map[string]interface{}
	want c05Res
	tag  string
}

// c05R8Refs: the reference evaluations of a history: every binary operator on a
// cached, a large, a float, a mixed and an edge pair (errors included), the
// unary operators, the string tables - each in one fixed spelling (literals,
// the source `x op y` with bindings, container elements).
func c05R8Refs() []c05Ref {
	I := func(i int64) c05Val { return c05Val{kind: 'i', i: i} }
	F := func(f float64) c05Val { return c05Val{kind: 'f', f: f} }
	S := func(s string) c05Val { return c05Val{kind: 's', s: s} }
	pairs := [][2]c05Val{{I(7), I(4095)}, {I(1<<53 + 1), I(3)}, {F(0.1), F(3)}, {I(2), F(-2.5)}, {I(math.MaxInt64), I(math.MinInt64 + 1)}, {I(4100), I(5)}}
	var refs []c05Ref
	add := func(op string, x, y c05Val) {
		want := c05Bin(op, x, y)
		if want.unspec {
			return
		}
		j := len(refs)
		ref := c05Ref{want: want, tag: c05R8Tag("stream:reask", op, x, y)}
		switch j % 3 {
		case 0:
			ref.src = c05LitOrName(x, "x") + " " + op + " " + c05LitOrName(y, "y")
			ref.defs = map[string]interface{}{"x": x.goValue(), "y": y.goValue()}
		case 1:
			ref.src = "x " + op + " y"
			ref.defs = map[string]interface{}{"x": x.goValue(), "y": y.goValue()}
		default:
			ref.src = "s[0] " + op + " s[1]"
			ref.defs = map[string]interface{}{"s": []interface{}{x.goValue(), y.goValue()}}
		}
		refs = append(refs, ref)
	}
	for _, op := range c05BinOps {
		for _, p := range pairs {
			add(op, p[0], p[1])
		}
	}
	add("%", I(5), I(0))
	add("%", I(-7), I(4096))
	add("+", S("a"), S("b"))
	add("+", S("héllo"), I(12))
	add("+", F(1.5), S("x"))
	add("+", S("n="), F(1e21))
	add("*", S("ab c"), I(3))
	add("*", S(""), I(1<<40))
	add("*", S("a"), I(-1))
	add("==", S("a"), S("a"))
	add("!=", S("a"), S("b"))
	add("==", F(math.NaN()), F(math.NaN()))
	add("*", F(math.Copysign(0, -1)), I(1))
	for _, u := range []struct {
		op string
		x  c05Val
	}{{"-", I(4096)}, {"^", I(-1)}, {"-", F(0)}, {"-", I(math.MinInt64)}, {"-", I(-4095)}, {"^", I(4095)}} {
		refs = append(refs, c05Ref{src: u.op + "x", defs: map[string]interface{}{"x": u.x.goValue()}, want: c05Un(u.op, u.x), tag: "stream:reask:unary" + u.op + ":" + kindTag(u.x)})
	}
	return refs
}

func c05R8Distances(tier string) []int {
	var d []int
	Ns := []int{256, 1000, 1024, 4096}
	if tier == "thorough" {
		Ns = append(Ns, 8192, 16384, 65536)
	}
	for _, n := range Ns {
		d = append(d, n-1, n, n+1)
	}
	return d
}

type c05Str struct {
	c    *wk.Case
	rep  *c05R8Rep
	r    *rand.Rand
	refs []c05Ref
	// operands of the references: the stream's integers are congruent to them
	refInts   []int64
	refFloats []float64

	e0       *env.Env
	leaked   []*env.Env
	cancels  []context.CancelFunc
	trees    []ast.Stmt
	treeOps  []string
	seen     map[string]struct{}
	pos      int // number of pairwise distinct stream evaluations so far
	maxAlive int
	names    int
}

var c05R8Mods = []int64{256, 1024, 4096, 65536, 1 << 32}

// val draws an operand; t makes it different from the values drawn before.
func (h *c05Str) val(intsOnly, allowString bool) c05Val {
	r, t := h.r, int64(h.pos+1)
	for {
		switch r.Intn(12) {
		case 0, 1:
			return c05Val{kind: 'i', i: h.refInts[r.Intn(len(h.refInts))] + t*c05R8Mods[r.Intn(len(c05R8Mods))]}
		case 2:
			return c05Val{kind: 'i', i: int64(r.Intn(4200)) - 50}
		case 3:
			return c05Val{kind: 'i', i: int64(r.Uint64() >> uint(r.Intn(64)))}
		case 4:
			return c05Val{kind: 'i', i: t*1000003 + 5000}
		case 5:
			// the integer whose bits are those of a float near 1.0
			return c05Val{kind: 'i', i: int64(math.Float64bits(1.0)) + t}
		case 6:
			if !intsOnly {
				return c05Val{kind: 'f', f: math.Float64frombits(math.Float64bits(1.0) + uint64(t))}
			}
		case 7:
			if !intsOnly {
				return c05Val{kind: 'f', f: h.refFloats[r.Intn(len(h.refFloats))] + float64(t)/1024}
			}
		case 8:
			if !intsOnly {
				return c05Val{kind: 'f', f: float64(t % 6000)} // 3.0 next to 3
			}
		case 9:
			if !intsOnly {
				return c05Val{kind: 'f', f: c05Floats[r.Intn(len(c05Floats))]}
			}
		case 10:
			if !intsOnly {
				return c05Val{kind: 'f', f: (r.Float64() - 0.5) * math.Pow(10, float64(r.Intn(60)-25))}
			}
		default:
			if allowString && !intsOnly {
				switch r.Intn(3) {
				case 0:
					return c05Val{kind: 's', s: strconv.FormatInt(t%6000, 10)} // "3" next to 3 and 3.0
				case 1:
					return c05Val{kind: 's', s: "k" + strconv.FormatInt(t, 36)}
				}
				return c05Val{kind: 's', s: c05R8Text(r, 1+r.Intn(20))}
			}
		}
	}
}

func c05R8IntOnly(op string) bool {
	switch op {
	case "%", "&", "|", "<<", ">>":
		return true
	}
	return false
}

// pair draws operands of op whose reference is stated (errors included).
func (h *c05Str) pair(op string) (c05Val, c05Val, c05Res, bool) {
	for try := 0; try < 30; try++ {
		io := c05R8IntOnly(op)
		str := op == "+" || op == "==" || op == "!=" || op == "*"
		x, y := h.val(io, str), h.val(io, op == "+" || op == "==" || op == "!=")
		if (op == "==" || op == "!=") && x.kind != y.kind {
			if h.r.Intn(2) == 0 {
				y = x
			} else {
				continue
			}
		}
		if x.kind == 's' && op == "*" {
			y = c05Val{kind: 'i', i: int64(h.r.Intn(12)) - 1}
		}
		if res := c05Bin(op, x, y); !res.unspec && len(res.v.s) <= 8192 {
			return x, y, res, true
		}
	}
	return c05Val{}, c05Val{}, c05Res{}, false
}

// exec runs src in an environment and under a context chosen by the PRNG:
// the long-lived environment of the history, a child of it, a fresh one that is
// dropped, a fresh one that stays alive; vm.Execute, or vm.ExecuteContext with
// a context that is cancelled right after the run, later, or never.
func (h *c05Str) exec(src string, stmt ast.Stmt, defs map[string]interface{}) (ank.Out, string) {
	r := h.r
	var e *env.Env
	mode := ""
	switch x := r.Intn(10); {
	case x < 5:
		e, mode = h.e0, "long-lived env"
	case x < 6:
		e, mode = h.e0.NewEnv(), "child env"
	case x < 9:
		e, mode = ank.NewCoreEnv(), "fresh env"
	default:
		e, mode = ank.NewCoreEnv(), "fresh env kept alive"
		h.leaked = append(h.leaked, e)
		if len(h.leaked) > h.maxAlive {
			h.maxAlive = len(h.leaked)
		}
	}
	for k, v := range defs {
		e.Define(k, v)
	}
	h.c.Tag("stream:env:" + mode)
	ctx := context.Background()
	cm := r.Intn(6)
	if cm >= 4 || stmt != nil {
		var cancel context.CancelFunc
		ctx, cancel = context.WithCancel(ctx)
		if cm == 5 {
			defer cancel() // cancelled as soon as the run has ended
			mode += ", context cancelled after the run"
		} else {
			h.cancels = append(h.cancels, cancel) // cancelled later in the history (or at its end)
			mode += ", context left open"
		}
		h.c.Tag("stream:own-context")
		if stmt != nil {
			return ank.RunCtx(ctx, e, stmt), mode + ", vm.RunContext of a tree parsed at the start of the history"
		}
		return ank.ExecCtx(ctx, e, src), mode
	}
	return ank.Exec(e, src), mode
}

// housekeeping between evaluations: contexts of earlier runs are cancelled,
// environments dropped, garbage collected.
func (h *c05Str) housekeeping() {
	if h.pos%500 == 0 && len(h.cancels) > 0 {
		n := len(h.cancels) / 2
		for _, cancel := range h.cancels[:n] {
			cancel()
		}
		h.cancels = append([]context.CancelFunc(nil), h.cancels[n:]...)
		h.c.Count("stream_contexts_cancelled_after_their_run", n)
	}
	if h.pos%1500 == 0 {
		h.leaked = append([]*env.Env(nil), h.leaked[len(h.leaked)/2:]...)
		runtime.GC()
		h.c.Count("stream_gcs", 1)
	}
}

// name returns a name that has not been used in this history.
func (h *c05Str) name(stem string) string {
	h.names++
	return stem + strconv.Itoa(h.names)
}

// item generates and runs the next stream evaluation. It returns false when the
// evaluation was not new (the position does not advance then).
func (h *c05Str) item() bool {
	r := h.r
	op := c05BinOps[r.Intn(len(c05BinOps))]
	var src, tag, kind string
	var stmt ast.Stmt
	defs := map[string]interface{}{}
	var want c05Res
	lit := func(v c05Val, name string) string {
		if l, ok := v.literal(); ok {
			if strings.HasPrefix(l, "-") {
				return "(" + l + ")"
			}
			return l
		}
		defs[name] = v.goValue()
		return name
	}
	switch k := r.Intn(16); {
	case k < 4:
		x, y, res, ok := h.pair(op)
		if !ok {
			return false
		}
		kind, src, want, tag = "literals", lit(x, "x")+" "+op+" "+lit(y, "y"), res, c05R8Tag("stream", op, x, y)
	case k < 7:
		x, y, res, ok := h.pair(op)
		if !ok {
			return false
		}
		nx, ny := "x", "y"
		if r.Intn(4) > 0 {
			// new names: the long-lived environment ends up with thousands of them
			nx, ny = h.name("x"), h.name("y")
		}
		defs[nx], defs[ny] = x.goValue(), y.goValue()
		kind, src, want, tag = "bindings", nx+" "+op+" "+ny, res, c05R8Tag("stream", op, x, y)
	case k < 8:
		op1 := []string{"+", "-", "*"}[r.Intn(3)]
		x, y, res, ok := h.pair(op1)
		if !ok || res.isErr || res.isBool || res.v.kind == 'F' || res.v.kind == 's' {
			return false
		}
		z := h.val(c05R8IntOnly(op), false)
		res2 := c05Bin(op, res.v, z)
		if res2.unspec {
			return false
		}
		kind, src, want, tag = "tree", "("+lit(x, "x")+" "+op1+" "+lit(y, "y")+") "+op+" "+lit(z, "z"), res2, "stream:tree:"+op
	case k < 9:
		uop := []string{"-", "^"}[r.Intn(2)]
		x := h.val(uop == "^", false)
		res := c05Un(uop, x)
		if res.unspec {
			return false
		}
		defs["x"] = x.goValue()
		kind, src, want, tag = "unary", uop+"x", res, "stream:unary"+uop+":"+kindTag(x)
		if l, ok := x.literal(); ok && r.Intn(2) == 0 {
			src = uop + "(" + l + ")"
			delete(defs, "x")
		}
	case k < 11:
		s := c05Val{kind: 's', s: []string{"", "n=", "héllo ", "日本"}[r.Intn(4)] + strconv.Itoa(h.pos)}
		y := h.val(false, true)
		x, z := s, y
		if r.Intn(2) == 0 {
			x, z = y, s
		}
		res := c05Bin("+", x, z)
		if res.unspec {
			return false
		}
		na, nb := h.name("a"), h.name("b")
		defs[na], defs[nb] = x.goValue(), z.goValue()
		kind, src, want, tag = "concat", na+" + "+nb, res, c05R8Tag("stream", "+", x, z)
		if r.Intn(2) == 0 {
			delete(defs, na)
			delete(defs, nb)
			src = lit(x, "a") + " + " + lit(z, "b")
		}
	case k < 12:
		s := c05Val{kind: 's', s: c05R8Text(r, 1+r.Intn(40)) + strconv.Itoa(h.pos)}
		n := c05Val{kind: 'i', i: int64(r.Intn(14)) - 1}
		if r.Intn(6) == 0 {
			n.i = int64(100 + r.Intn(100))
		}
		ns := h.name("s")
		defs[ns], defs["n"] = s.s, n.i
		kind, src, want, tag = "repeat", ns+" * n", c05Bin("*", s, n), c05R8Tag("stream", "*", s, n)
	case k < 13:
		cop := c05CompoundOps[r.Intn(len(c05CompoundOps))]
		x, y, res, ok := h.pair(cop)
		if !ok || res.isBool {
			return false
		}
		kind, src, want, tag = "compound", "t = "+lit(x, "x")+"; t "+cop+"= "+lit(y, "y")+"; t", res, c05R8Tag("stream", cop+"=", x, y)
	default:
		ti := r.Intn(len(h.trees))
		x, y, res, ok := h.pair(h.treeOps[ti])
		if !ok {
			return false
		}
		defs["x"], defs["y"] = x.goValue(), y.goValue()
		kind, stmt, src, want, tag = "parsed-tree", h.trees[ti], "x "+h.treeOps[ti]+" y", res, c05R8Tag("stream", h.treeOps[ti], x, y)
	}
	key := src + "|" + fmt.Sprint(renderDefs(defs))
	_, dup := h.seen[key]
	h.seen[key] = struct{}{}
	input := map[string]interface{}{"src": src, "defs": renderDefs(defs), "position in the history": h.pos}
	h.c.Begin(input)
	o, mode := h.exec(src, stmt, defs)
	input["how"] = mode
	h.c.Eval(key, true)
	h.c.Tag("stream:item:" + kind)
	c05R8Judge(h.rep, o, want, tag, input)
	return !dup
}

func c05R8Stream(c *wk.Case, pool []c05Val) {
	h := &c05Str{c: c, rep: newC05R8Rep(c), r: c.Rng, refs: c05R8Refs(), e0: ank.NewCoreEnv(), seen: map[string]struct{}{}}
	h.refInts = []int64{7, 4095, 1<<53 + 1, 3, 2, math.MaxInt64, math.MinInt64 + 1, 4100, 5, 0, -1, 4096}
	h.refFloats = []float64{0.1, 3, -2.5, 1.5}
	for k := 0; k < 4; k++ {
		op := c05BinOps[(c.Index*4+k)%len(c05BinOps)]
		stmt, err, po := ank.Parse("x " + op + " y")
		if po.Panicked || err != nil {
			c05R8Judge(h.rep, po, c05Res{v: c05Val{kind: 'i'}}, "stream:parse", map[string]interface{}{"src": "x " + op + " y"})
			return
		}
		h.trees, h.treeOps = append(h.trees, stmt), append(h.treeOps, op)
	}
	// the schedule: reference j is asked first after j stream evaluations, then
	// again after d distinct stream evaluations for every d of the distance list
	// (each reference goes through the list in its own rotation)
	D := c05R8Distances(c.Tier)
	due := map[int][]int{}
	dist := map[int]int{} // (j, position) -> distance since the previous asking
	last := 0
	for j := range h.refs {
		t := j
		due[t] = append(due[t], j)
		for k := range D {
			d := D[(k+j)%len(D)]
			t += d
			due[t] = append(due[t], j)
			dist[j<<32|t] = d
		}
		if t > last {
			last = t
		}
	}
	reasks := 0
	ask := func() {
		for _, j := range due[h.pos] {
			ref := h.refs[j]
			d := dist[j<<32|h.pos]
			input := map[string]interface{}{"src": ref.src, "defs": renderDefs(ref.defs), "position in the history": h.pos, "distinct evaluations since this one was asked before": d,
				"history": "the stream evaluations before this position are rebuilt from (seed, phase, case)"}
			e := h.e0
			if (j+h.pos)%2 == 0 {
				e = ank.NewCoreEnv()
				input["how"] = "fresh env"
			}
			for k, v := range ref.defs {
				e.Define(k, v)
			}
			c.Begin(input)
			o := ank.Exec(e, ref.src)
			c.Eval("ref|"+ref.src+fmt.Sprint(renderDefs(ref.defs)), true)
			c05R8Judge(h.rep, o, ref.want, ref.tag, input)
			reasks++
			if d > 0 {
				c.Tag("stream:reask-after:" + strconv.Itoa(d))
			}
		}
	}
	ask()
	attempts := 0
	for h.pos < last && attempts < 4*last {
		attempts++
		if h.item() {
			h.pos++
			ask()
			h.housekeeping()
		}
	}
	for _, cancel := range h.cancels {
		cancel()
	}
	c.Count("stream_histories", 1)
	c.Count("stream_distinct_evaluations", h.pos)
	c.Count("stream_evaluations", attempts)
	c.Count("stream_reasks_of_references", reasks)
	c.Count("stream_distinct_names_defined", h.names)
	c05R8Max(c, "stream:max-envs-kept-alive", h.maxAlive, []int{256, 1000})
	c05R8Max(c, "stream:history-length", h.pos, []int{6000, 19000, 100000})
	_ = pool
}
