package main

// C16, round 9 follow-up ("overlap"): every older phase runs ONE program at a time in its process,
// and the goroutines of a program only use channels the main goroutine made. Here G = 4..16
// executions overlap, each making channels of ITS OWN element type again and again while it sends
// and receives:
//   host    G host goroutines, released together by a barrier, each with its own environment and
//           its own vm.ExecuteContext call (its own parsed tree) running a pipeline loop;
//   script  ONE script that starts G goroutines with go, each running the same loop.
// One round of a loop: make a data channel (unbuffered or buffered, PRNG-chosen per execution) and
// a channel for the end-of-round signal, both of the execution's element type, start a producer
// with go that sends n values and closes, receive them (for-in / v,ok / counted receive
// expression) and hand every received value to the host function got(w, r, i, v). Oracle (the
// engine's, in streaming form): the calls of got for execution w are exactly (r, i) = (0,0), (0,1),
// ... in that order - every value once, in FIFO order, none lost - and every value has the dynamic
// type and value of Go's conversion to the channel's element type; every execution ends (if not:
// deadlock decided on goroutine states only, two identical samples; otherwise inconclusive).
// The plain cases are cases of phase volume (they run next to the history case); phase
// overlap-race runs two smaller ones under the race detector.

import (
	"context"
	"fmt"
	"runtime"
	"strings"
	"sync"
	"time"

	"verifharness/internal/ank"
	"verifharness/internal/fw"
	"verifharness/internal/wk"
)

const c16R9Rule = " round 9, overlap (c16_r9.go; cases of phase volume, and phase overlap-race under the race detector): G = 4..16 executions at once - host: G host goroutines released by a barrier, each running its own pipeline program by its own vm.ExecuteContext call in its own environment; script: G goroutines started by one script - every execution making channels of its OWN element type (int64, float64, string, bool, int32, uint64, interface, []interface, []int64, Nanos, Level, Duration, a struct type bound by the host) twice per round for 300-8000 rounds (unbuffered / buffered, producer started with go, consumer for-in / v,ok / counted receive expression), every received value handed to the host: per execution the values arrive exactly once, in order, none lost, each with the dynamic type and value of Go's conversion to the element type; all executions end (deadlock decided on goroutine states)."

var c16R9Assumptions = []string{
	"overlap: executions on separate environments share nothing a script can name, and goroutines of one script share only what they are handed; make(chan T) yields a channel of element type T whatever other executions do at the same moment (the statement's 'converted to the channel's element type' holds for every channel a script makes); vm.ExecuteContext may be called by several host goroutines at once on separate environments (the library documents no restriction; the host program of the seed's demo does so)",
}

type c16r9Point struct{ X, Y int64 }

type c16r9El struct {
	decl string
	send string                  // script expression of value i
	want func(i int) interface{} // what must arrive
}

var c16r9Els = []c16r9El{
	{"int64", "i", func(i int) interface{} { return int64(i) }},
	{"float64", "i", func(i int) interface{} { return float64(i) }},
	{"string", `"m" + i`, func(i int) interface{} { return fmt.Sprintf("m%d", i) }},
	{"bool", "i % 2 == 0", func(i int) interface{} { return i%2 == 0 }},
	{"int32", "i", func(i int) interface{} { return int32(i) }},
	{"uint64", "i", func(i int) interface{} { return uint64(i) }},
	{"interface", "i", func(i int) interface{} { return int64(i) }},
	{"[]interface", "[i, i]", func(i int) interface{} { return []interface{}{int64(i), int64(i)} }},
	{"[]int64", "ints(i, i)", func(i int) interface{} { return []int64{int64(i), int64(i)} }},
	{"Nanos", "i", func(i int) interface{} { return c16Nanos(i) }},
	{"Level", `"m" + i`, func(i int) interface{} { return c16Level(fmt.Sprintf("m%d", i)) }},
	{"Duration", "nanos(i)", func(i int) interface{} { return time.Duration(i) }},
	{"Point", "point(i)", func(i int) interface{} { return c16r9Point{int64(i), int64(-i)} }},
	{"interface", `"m" + i`, func(i int) interface{} { return fmt.Sprintf("m%d", i) }},
	{"float64", "i", func(i int) interface{} { return float64(i) }},
	{"int64", "nanos(i)", func(i int) interface{} { return int64(i) }},
}

type c16r9Exec struct {
	el          c16r9El
	form        string
	cp, n       int
	rounds      int
	r, i        int // next expected call of got
	bad, badDet string
	ended       bool
}

type c16r9Host struct {
	mu    sync.Mutex
	ex    []*c16r9Exec
	calls int
}

func (h *c16r9Host) define(e interface {
	Define(string, interface{}) error
	DefineType(string, interface{}) error
}) {
	c16DefineTypes(e)
	e.DefineType("Point", c16r9Point{})
	e.Define("point", func(i int64) c16r9Point { return c16r9Point{i, -i} })
	e.Define("got", func(w, r, i int64, v interface{}) {
		h.mu.Lock()
		defer h.mu.Unlock()
		h.calls++
		if w < 0 || int(w) >= len(h.ex) {
			return
		}
		x := h.ex[w]
		if x.bad != "" {
			return
		}
		if int(r) != x.r || int(i) != x.i {
			x.bad, x.badDet = "order", fmt.Sprintf("got(%d, %d, %d, ..) where (round %d, item %d) was due", w, r, i, x.r, x.i)
			return
		}
		if got, want := ank.Render(v), ank.Render(x.el.want(int(i))); got != want {
			x.bad, x.badDet = "wrong-item", fmt.Sprintf("execution %d (make(chan %s), value %s) round %d item %d: received %s, want %s", w, x.el.decl, x.el.send, r, i, got, want)
			return
		}
		if x.i++; x.i == x.n {
			x.r, x.i = x.r+1, 0
		}
	})
	e.Define("ended", func(w int64) {
		h.mu.Lock()
		defer h.mu.Unlock()
		if w >= 0 && int(w) < len(h.ex) {
			h.ex[w].ended = true
		}
	})
}

// the loop of execution w as the body of a function loop<w>()
func (x *c16r9Exec) loop(w int) string {
	var b strings.Builder
	mk := fmt.Sprintf("make(chan %s)", x.el.decl)
	if x.cp > 0 {
		mk = fmt.Sprintf("make(chan %s, %d)", x.el.decl, x.cp)
	}
	fmt.Fprintf(&b, "func prod%d(c, fin, n) {\n\tfor i = 0; i < n; i++ {\n\t\tc <- %s\n\t}\n\tclose(c)\n\tclose(fin)\n}\n", w, x.el.send)
	fmt.Fprintf(&b, "func loop%d() {\n\tfor r = 0; r < %d; r++ {\n\t\tc = %s\n\t\tfin = make(chan %s, 1)\n\t\tgo prod%d(c, fin, %d)\n\t\tk = 0\n", w, x.rounds, mk, x.el.decl, w, x.n)
	switch x.form {
	case "forin":
		fmt.Fprintf(&b, "\t\tfor v in c {\n\t\t\tgot(%d, r, k, v)\n\t\t\tk++\n\t\t}\n", w)
	case "vok":
		fmt.Fprintf(&b, "\t\tfor {\n\t\t\tv, ok = <-c\n\t\t\tif !ok {\n\t\t\t\tbreak\n\t\t\t}\n\t\t\tgot(%d, r, k, v)\n\t\t\tk++\n\t\t}\n", w)
	default:
		fmt.Fprintf(&b, "\t\tfor k = 0; k < %d; k++ {\n\t\t\tgot(%d, r, k, <-c)\n\t\t}\n", x.n, w)
	}
	fmt.Fprintf(&b, "\t\t<-fin\n\t}\n\tended(%d)\n}\n", w)
	return b.String()
}

func c16r9Overlap(c *wk.Case, mode string, g, rounds int) {
	procs := []int{16, 4, 8, 2, 16, 4, 1}[c.Rng.Intn(7)]
	if runtime.GOMAXPROCS(0) != procs {
		runtime.GOMAXPROCS(procs)
	}
	h := &c16r9Host{}
	off := c.Rng.Intn(len(c16r9Els))
	perm := c.Rng.Perm(len(c16r9Els))
	var srcs []string
	for w := 0; w < g; w++ {
		x := &c16r9Exec{el: c16r9Els[perm[(off+w)%len(perm)]], form: []string{"forin", "vok", "counted"}[c.Rng.Intn(3)], cp: []int{0, 0, 1, 3}[c.Rng.Intn(4)], n: 1 + c.Rng.Intn(3), rounds: rounds}
		h.ex = append(h.ex, x)
		srcs = append(srcs, x.loop(w))
	}
	if mode == "script" {
		one := strings.Join(srcs, "")
		one += fmt.Sprintf("all = make(chan bool, %d)\n", g)
		for w := 0; w < g; w++ {
			one += fmt.Sprintf("go func() {\n\tloop%d()\n\tall <- true\n}()\n", w)
		}
		one += fmt.Sprintf("for j = 0; j < %d; j++ {\n\t<-all\n}\n", g)
		srcs = []string{one}
	} else {
		for w := range srcs {
			srcs[w] += fmt.Sprintf("loop%d()\n", w)
		}
	}
	input := map[string]interface{}{"kind": "r9:overlap:" + mode, "executions_at_once": g, "gomaxprocs": procs, "srcs": srcs,
		"how": "host: every source is run by its own host goroutine with vm.ExecuteContext on its own environment, all released together; script: the one source starts the executions with go"}
	c.Begin(input)
	c.Tag("r9:overlap:"+mode, fmt.Sprintf("reached:executions_overlapping=%d", g))
	base := runtime.NumGoroutine()
	ctx, cancel := context.WithCancel(context.Background())
	defer cancel()
	outs := make([]ank.Out, len(srcs))
	var start, wg sync.WaitGroup
	start.Add(1)
	for k := range srcs {
		e := ank.NewCoreEnv()
		h.define(e)
		wg.Add(1)
		go func(k int) {
			defer wg.Done()
			start.Wait()
			outs[k] = ank.ExecCtx(ctx, e, srcs[k])
		}(k)
	}
	done := make(chan struct{})
	go func() { wg.Wait(); close(done) }()
	start.Done()
	deadlock, undecided := "", ""
	var prev *c16Sample
wait:
	for polls := 0; ; polls++ {
		select {
		case <-done:
			break wait
		case <-time.After(c16PollEvery):
		}
		if deadlock != "" || undecided != "" || polls%10 != 9 {
			continue
		}
		c16IgnoreMu.RLock()
		s := c16TakeSample(c16Ignore)
		c16IgnoreMu.RUnlock()
		if s.allParked && prev != nil && prev.allParked && prev.sig == s.sig {
			deadlock = s.ops + "\n" + s.text
			cancel()
			continue
		}
		prev = &s
		if polls > 8000 {
			undecided = s.text
			cancel()
		}
	}
	cancel()
	c16Quiesce(base)
	h.mu.Lock()
	defer h.mu.Unlock()
	c.Events(h.calls)
	v := func(sig, detail string) { c.Violation("r9:overlap:"+sig+":"+mode, detail, input) }
	held := true
	for k, o := range outs {
		if o.Panicked {
			v(o.PanicSig, "Go panic reached the host: "+o.PanicVal)
			held = false
		} else if o.Err != nil && deadlock == "" && undecided == "" {
			v("run-error:"+ank.AbstractMsg(o.Err.Error()), fmt.Sprintf("execution %d failed: %s", k, o.Err.Error()))
			held = false
		}
	}
	seen := map[string]bool{}
	msgs := 0
	for w, x := range h.ex {
		c.Eval(fmt.Sprint(mode, g, w, x.el.decl, x.el.send, x.form, x.cp, x.n), true)
		msgs += x.r*x.n + x.i
		if x.bad != "" {
			if !seen[x.bad] {
				v(x.bad, x.badDet)
			}
			seen[x.bad], held = true, false
		}
	}
	switch {
	case deadlock != "":
		if held {
			v("deadlock", "every script goroutine is parked in a channel operation (two identical samples): a producer or consumer of some execution never finishes\n"+deadlock)
		}
		held = false
	case undecided != "":
		c.Inconclusive("r9:overlap:no-termination-undecided", undecided, input)
		held = false
	default:
		for w, x := range h.ex {
			if held && (!x.ended || x.r != x.rounds) {
				v("lost", fmt.Sprintf("execution %d (make(chan %s)) ended=%v after round %d item %d of %d rounds", w, x.el.decl, x.ended, x.r, x.i, x.rounds))
				held = false
			}
		}
	}
	if held {
		c.Count("messages-delivered-and-verified", msgs)
		c.Count("r9_overlapping_executions_held", g)
		c.Count("r9_channels_made_while_other_executions_made_theirs", 2*g*rounds)
		c.Count("runs-held", 1)
		if c.WantSample() {
			c.Sample(map[string]interface{}{"kind": "r9:overlap:" + mode, "executions_at_once": g, "first_source": srcs[0], "messages_verified": msgs})
		}
	}
}

func c16R9Phases(tier string) []fw.Phase {
	n := 2
	if tier == "thorough" {
		n = 12
	}
	return []fw.Phase{{Name: "overlap-race", Race: true, Cases: n, Chunk: 1, TimeoutS: 900}}
}

func c16R9Run(c *wk.Case) bool {
	if c.Phase != "overlap-race" {
		return false
	}
	defer runtime.GOMAXPROCS(runtime.GOMAXPROCS(0))
	c16r9Overlap(c, []string{"host", "script"}[c.Index%2], []int{8, 6, 16, 4, 12, 5}[c.Index%6], 300)
	return true
}
