package main

// C20, concurrent phases: a function value obtained through an expression is the
// function that is called - also when the same call site is being evaluated by
// several goroutines at once.
//
// Statement: "an operand read from a variable, from a slice or map element, from a
// struct field, returned by a script function, or returned by a Go function ...
// behaves identically in every ... call position ... a function [stays usable] as a
// function." The callee of `fs[0](i)`, `m.f(i)`, `get()(i)`, `(f)(i)` is an operand of
// the call; the call must call THAT value, exactly as `f(i)` calls the value of f.
// The single-threaded phases cannot see a call site whose evaluation keeps state
// outside the evaluating goroutine (in the shared syntax tree, in a cache keyed by
// the node): only overlapping evaluations of one call site with DIFFERENT callees do.
//
// Workload: one call site (one node of one parsed tree) is evaluated N times by each
// of K concurrent evaluations; evaluation k has its own function value (a closure
// over k), obtained through a provenance that differs from one evaluation to the
// next (function literal, Go function returning interface{}, list element, map
// member), and stored where the site's expression reads it (list element, map entry,
// member, struct field, typed slice element, pointer target, call result, parentheses,
// ternary, ??, two hops). Two ways to overlap:
//   mode go : one script starts K goroutines with `go worker(k, n)`;
//   mode vms: the host parses the program once and runs the tree on K VMs, each with
//             an environment of its own, from K host goroutines.
// Oracle (absolute, from the statement): every call at the site returns the value its
// OWN callee computes for its own argument (k*1e6 + i); the same callee called by name
// in the same loop is the reference and must do so as well; no evaluation fails.
// Nothing is decided on timing: a wrong callee or an error is a fact of the run;
// a run in which the evaluations happened not to overlap is simply silent.
// Phase concur-race runs the same programs (fewer rounds) in a -race build: a call
// site that writes shared state while evaluating is reported by the race detector
// even when no wrong call happens to be observed.

import (
	"context"
	"fmt"
	"strings"
	"sync"
	"time"

	"github.com/mattn/anko/ast"

	"verifharness/internal/ank"
	"verifharness/internal/wk"
)

type c20Site struct {
	id    string
	setup string // statements that put `me` where the site reads it
	fn    string // the expression that yields the callee at the site
}

var c20Sites = []c20Site{
	{"elem", "fs = [me]", "fs[0]"},
	{"mapent", `m = {"f": me}`, `m["f"]`},
	{"member", `m = {"f": me}`, "m.f"},
	{"field", "b = pbox(me)", "b.V"},
	{"typedelem", "ts = tsl(me)", "ts[0]"},
	{"deref", "pp = pto(me)", "(*pp)"},
	{"callres", "get = func(){ return me }", "get()"},
	{"gocall", "", "id(me)"},
	{"paren", "", "(me)"},
	{"ternary", "", "(true ? me : nil)"},
	{"coalesce", "", "(me ?? nil)"},
	{"elem-member", `fs = [{"f": me}]`, "fs[0].f"},
	{"module", "module MC { f = nil }\nMC.f = me", "MC.f"},
}

var c20ConcurModes = []string{"go", "vms"}

func c20ConcurCases() int { return len(c20Sites) * len(c20ConcurModes) }

// the provenances of the callee itself: evaluation k uses entry k % 4
const c20Makers = `mks = [
	func(k){ return func(x){ return k * 1000000 + x } },
	func(k){ return id(func(x){ return k * 1000000 + x }) },
	func(k){ return [func(x){ return k * 1000000 + x }][0] },
	func(k){ return {"f": func(x){ return k * 1000000 + x }}.f }
]
`

// c20ConcurBody is what one evaluation does; k and n are bound by the caller. The
// result is [calls by name that went wrong, calls at the site that went wrong].
func c20ConcurBody(s c20Site, gate string) string {
	return "me = mks[k % len(mks)](k)\n" + s.setup + "\nwn = 0\nws = 0\n" + gate +
		"for i = 0; i < n; i++ {\n" +
		"if me(i) != k * 1000000 + i { wn++ }\n" +
		"if " + s.fn + "(i) != k * 1000000 + i { ws++ }\n" +
		"}\n"
}

func c20RunConcur(c *wk.Case, rounds int) {
	s := c20Sites[c.Index/len(c20ConcurModes)]
	mode := c20ConcurModes[c.Index%len(c20ConcurModes)]
	K := 3 + c.Rng.Intn(3) // 3..5 overlapping evaluations
	var src string
	if mode == "go" {
		src = c20Makers + fmt.Sprintf("wrongs = make(chan interface, %d)\nstart = make(chan interface)\n", K) +
			// a worker that fails reports it instead of leaving the collector waiting
			"worker = func(k, n) {\ntry {\n" + c20ConcurBody(s, "<-start\n") + "wrongs <- [k, wn, ws]\n} catch e {\nwrongs <- [k, -1, -1, toString(e)]\n}\n}\n" +
			fmt.Sprintf("for k = 0; k < %d; k++ { go worker(k, %d) }\nclose(start)\nres = []\nfor k = 0; k < %d; k++ { res += [<-wrongs] }\nres", K, rounds, K)
	} else {
		src = c20Makers + c20ConcurBody(s, "") + "[k, wn, ws]"
	}
	input := map[string]interface{}{"site": s.id, "mode": mode, "evaluations": K, "rounds": rounds, "src": src}
	stmt, err, _ := ank.Parse(src)
	if err != nil {
		c.Inconclusive("concur-program-does-not-parse:"+s.id, err.Error(), input)
		return
	}
	c.Begin(input)
	c.Eval("concur|"+s.id+"|"+mode+"|"+src, true)
	c.Events(2 * K * rounds)
	c.Tag("concur-site:"+s.id, "concur-mode:"+mode)
	ctx, cancel := context.WithTimeout(context.Background(), 120*time.Second)
	defer cancel()

	// results: one [k, wrongByName, wrongAtSite] per evaluation
	var rows []interface{}
	fail := func(what string, o ank.Out) {
		d := ank.ErrText(o.Err)
		if o.Panicked {
			d = "panic: " + o.PanicVal
		}
		if c20Class(o) == "timeout" {
			c.Inconclusive("timeout:concur:"+s.id+":"+mode, d, input)
			return
		}
		c.Violation("concur:"+s.id+":"+mode+":"+c20Class(o), what+" failed although every evaluation only calls its own function: "+d, input)
	}
	if mode == "go" {
		st := c20NewState()
		o := ank.RunCtx(ctx, st.env, stmt)
		if o.Err != nil || o.Panicked {
			fail("the program", o)
			return
		}
		rows, _ = o.Val.([]interface{})
		if len(rows) != K {
			c.Violation("concur:"+s.id+":"+mode+":result-shape", "expected one row per goroutine, got "+ank.Render(o.Val), input)
			return
		}
	} else {
		outs := make([]ank.Out, K)
		var wg sync.WaitGroup
		gate := make(chan struct{})
		for k := 0; k < K; k++ {
			st := c20NewState()
			st.env.Define("k", int64(k))
			st.env.Define("n", int64(rounds))
			wg.Add(1)
			go func(k int, st *c20State, tree ast.Stmt) {
				defer wg.Done()
				<-gate
				outs[k] = ank.RunCtx(ctx, st.env, tree)
			}(k, st, stmt)
		}
		close(gate)
		wg.Wait()
		for k := range outs {
			if outs[k].Err != nil || outs[k].Panicked {
				fail(fmt.Sprintf("run %d of the shared tree", k), outs[k])
				return
			}
			rows = append(rows, outs[k].Val)
		}
	}
	var named, site []string
	for _, r := range rows {
		row, ok := r.([]interface{})
		if ok && len(row) == 4 {
			c.Violation("concur:"+s.id+":"+mode+":error", fmt.Sprintf("evaluation %s failed although every evaluation only calls its own function: %s", ank.Render(row[0]), ank.Render(row[3])), input)
			return
		}
		if !ok || len(row) != 3 {
			c.Violation("concur:"+s.id+":"+mode+":result-shape", "unexpected row "+ank.Render(r), input)
			return
		}
		k, _ := row[0].(int64)
		wn, ok1 := row[1].(int64)
		ws, ok2 := row[2].(int64)
		if !ok1 || !ok2 {
			c.Violation("concur:"+s.id+":"+mode+":result-shape", "unexpected row "+ank.Render(r), input)
			return
		}
		if wn != 0 {
			named = append(named, fmt.Sprintf("evaluation %d: %d of %d", k, wn, rounds))
		}
		if ws != 0 {
			site = append(site, fmt.Sprintf("evaluation %d: %d of %d", k, ws, rounds))
		}
	}
	if len(named) > 0 {
		c.Violation("concur:by-name:"+mode+":wrong-callee", "me(i) did not return the value of the evaluation's own function ("+strings.Join(named, "; ")+")", input)
	}
	if len(site) > 0 {
		c.Violation("concur:"+s.id+":"+mode+":wrong-callee",
			s.fn+"(i) returned what ANOTHER evaluation's function computes ("+strings.Join(site, "; ")+") while the same function called by name in the same loop "+
				map[bool]string{true: "never did", false: "did so as well"}[len(named) == 0], input)
	}
}
