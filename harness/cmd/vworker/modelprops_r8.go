package main

// Round 8 ("volume and history") for the model-based checks C04, C07, C08, C09.
//
// The phase "programs" runs every generated program once, in a fresh environment, in a
// worker process that lives for 250 small programs. Behaviour that only changes after
// the same tree node has been evaluated a thousand times, after thousands of DISTINCT
// values went through one process, or beyond size thresholds (hundreds of names in one
// scope, ten thousand nested invocations, tens of thousands of loop rounds or deferred
// calls) is never reached that way. Two phases reach it:
//
//   - "rerun": a generated program (same generators, same model) is parsed ONCE; the
//     first run of the tree is judged by the reference model like any program of phase
//     "programs"; the tree is then run again 1100 (thorough 4200) times, each time in a
//     fresh environment, and every run must leave exactly the trace, value and error of
//     the first. Every node of the generators' whole construct universe is thereby
//     evaluated beyond 1000/1024 (4096) times with the model's verdict attached.
//   - "volume": hand-written program families per property whose expected event
//     sequence is computed here from the statement (a dictionary-chain model for C04,
//     the fixed left-to-right operand order per evaluation for C07, truthiness classes /
//     loop arithmetic for C08, LIFO exactly-once for C09), driven at volume inside one
//     process: see the scenario comments.
//
// Nothing here knows a cache, a counter or a threshold of the code under test; the sizes
// are the generic ones (on and next to 1000, 1024, 4096, 10000, 65536).

import (
	"fmt"
	"math/rand"
	"sort"
	"strconv"
	"strings"
	"time"

	"github.com/mattn/anko/env"

	"verifharness/internal/ank"
	"verifharness/internal/fw"
	"verifharness/internal/gen"
	"verifharness/internal/realrun"
	"verifharness/internal/wk"
)

const r8Watchdog = 120 * time.Second // inconclusive when it fires, never a violation

type volScenario struct {
	name string
	run  func(c *wk.Case, mp *modelProp, variant int)
}

func r8Phases(mp *modelProp, tier string) []fw.Phase {
	nRerun, nVol := 24, len(mp.volume)
	if tier == "thorough" {
		nRerun, nVol = 600, 8*len(mp.volume)
	}
	ph := []fw.Phase{{Name: "rerun", Cases: nRerun, Chunk: 2, TimeoutS: 1200}}
	if nVol > 0 {
		ph = append(ph, fw.Phase{Name: "volume", Cases: nVol, Chunk: 1, TimeoutS: 1200})
	}
	return ph
}

func r8Run(c *wk.Case, mp *modelProp) bool {
	switch c.Phase {
	case "rerun":
		runRerun(c, mp)
		return true
	case "volume":
		sc := mp.volume[c.Index%len(mp.volume)]
		c.Tag("volume:" + sc.name)
		sc.run(c, mp, c.Index/len(mp.volume))
		return true
	}
	return false
}

// ---------------------------------------------------------------------------
// phase rerun

func realKey(r realrun.Real) string {
	return strings.Join(r.Trace, "\n") + "\x00" + r.Value + "\x00" + r.Err + "\x00" + r.ErrText
}

func runRerun(c *wk.Case, mp *modelProp) {
	reps := 1100
	if c.Tier == "thorough" {
		reps = 4200
	}
	var prog []gen.Stmt
	// programs that start goroutines are kept out (what their goroutines log depends on the scheduler)
	for try := 0; ; try++ {
		g := gen.New(c.Rng, mp.prof)
		if mp.genf != nil {
			prog = mp.genf(g, c)
		} else {
			prog = g.Program(25 + c.Rng.Intn(60))
		}
		if !strings.Contains(gen.Source(prog), "go ") || try > 20 {
			break
		}
	}
	src := gen.Source(prog)
	c.Begin(map[string]interface{}{"source": src, "runs": reps})
	stmt, err, o := ank.Parse(src)
	if o.Panicked || err != nil {
		c.Excluded("rerun-parse") // judged by phase programs
		return
	}
	first := realrun.RunTree(stmt)
	v := realrun.Judge(prog, first)
	input := map[string]interface{}{"source": src, "observed_trace": first.Trace, "observed_value": first.Value, "observed_error": first.ErrText}
	switch v.Kind {
	case "ok":
	case "violation":
		sig := v.Sig
		if !strings.HasPrefix(sig, "panic:") {
			sig = mp.id + ":" + sig
		}
		c.Eval("rerun|"+src, true)
		c.Violation(sig, v.Detail, input)
		return
	case "finding":
		c.Eval("rerun|"+src, true)
		c.Violation("finding:"+v.Finding, "explained only by the finding flag "+v.Finding+" (variant "+v.Variant+")", input)
		return
	case "inconclusive":
		c.Inconclusive("watchdog", v.Detail, input)
		return
	default:
		c.Excluded("model-unspec")
		return
	}
	if len(first.GTrace) > 0 {
		c.Excluded("rerun-goroutines")
		return
	}
	key := realKey(first)
	c.Eval("rerun|"+src, true)
	c.Events(len(first.Trace))
	done := 1
	for k := 2; k <= reps; k++ {
		r := realrun.RunTree(stmt)
		done++
		c.Events(len(r.Trace))
		if r.Panicked {
			input["run"] = k
			c.Violation(r.PanicSig, "run "+strconv.Itoa(k)+" of one parsed tree: "+r.PanicVal, input)
			break
		}
		if r.TimedOut || r.Overflow || r.Unsettled {
			c.Inconclusive("watchdog", "run "+strconv.Itoa(k)+" of one parsed tree", input)
			break
		}
		if realKey(r) != key {
			// programs that loop over maps may legitimately differ from run to run: such a run is
			// judged by the model on its own
			if vk := realrun.Judge(prog, r); vk.Kind == "ok" || vk.Kind == "excluded" || vk.Kind == "inconclusive" {
				c.Count("reruns_judged_by_the_model", 1)
				continue
			}
			input["run"] = k
			input["trace_of_that_run"] = r.Trace
			input["value_of_that_run"] = r.Value
			input["error_of_that_run"] = r.ErrText
			what := "trace"
			if strings.Join(r.Trace, "\n") == strings.Join(first.Trace, "\n") {
				what = "result"
			}
			c.Violation(mp.id+":rerun-differs:"+what, fmt.Sprintf("run %d of one parsed tree (fresh environment every time) differs from run 1 and is not admitted by the model, which admits run 1: first differing event %s", k, firstDiff(first.Trace, r.Trace)), input)
			break
		}
	}
	c.Count("reruns", done)
	r8Reached(c, "runs_of_one_tree", done)
}

// r8Reached records a size the workload really reached (coverage tag "reached:<what>=<n>").
func r8Reached(c *wk.Case, what string, n int) { c.Tag("reached:" + what + "=" + strconv.Itoa(n)) }

func firstDiff(a, b []string) string {
	for i := 0; i < len(a) || i < len(b); i++ {
		var x, y string = "<end>", "<end>"
		if i < len(a) {
			x = a[i]
		}
		if i < len(b) {
			y = b[i]
		}
		if x != y {
			return fmt.Sprintf("#%d: expected %q, observed %q", i, x, y)
		}
	}
	return "none"
}

// ---------------------------------------------------------------------------
// helpers of the volume scenarios

type r8Out struct {
	real realrun.Real
	ok   bool
}

// r8Settle turns the outcomes no oracle applies to into verdicts; it reports whether the trace can be judged.
func r8Settle(c *wk.Case, mp *modelProp, name string, r realrun.Real, wantErr string, input map[string]interface{}) bool {
	if r.Panicked {
		c.Violation(r.PanicSig, name+": "+r.PanicVal, input)
		return false
	}
	if r.TimedOut || r.Overflow || r.Unsettled {
		c.Inconclusive("watchdog", name, input)
		return false
	}
	if wantErr == "" && r.ErrText != "" {
		input["observed_error"] = r.ErrText
		c.Violation(mp.id+":volume:"+name+":error", "the program is inside the statement's domain and must run to its end; it ended with the error "+strconv.Quote(r.ErrText)+" after "+strconv.Itoa(len(r.Trace))+" events", input)
		return false
	}
	if wantErr != "" && !strings.Contains(r.ErrText, wantErr) {
		input["observed_error"] = r.ErrText
		c.Violation(mp.id+":volume:"+name+":error", "the run must end with an error containing "+strconv.Quote(wantErr)+", observed "+strconv.Quote(r.ErrText), input)
		return false
	}
	return true
}

func r8Compare(c *wk.Case, mp *modelProp, name string, got, want []string, input map[string]interface{}) bool {
	c.Events(len(got))
	if len(got) == len(want) {
		same := true
		for i := range got {
			if got[i] != want[i] {
				same = false
				break
			}
		}
		if same {
			return true
		}
	}
	i := 0
	for i < len(got) && i < len(want) && got[i] == want[i] {
		i++
	}
	lo := i - 4
	if lo < 0 {
		lo = 0
	}
	hi := func(n int) int {
		if i+5 < n {
			return i + 5
		}
		return n
	}
	input["first_difference_at_event"] = i
	input["events_expected"] = len(want)
	input["events_observed"] = len(got)
	input["expected_around"] = want[lo:hi(len(want))]
	input["observed_around"] = got[lo:hi(len(got))]
	c.Violation(mp.id+":volume:"+name, fmt.Sprintf("%s: the observed events differ from what the statement fixes, first at event %d of %d (%s)", name, i, len(want), firstDiff(want[lo:hi(len(want))], got[lo:hi(len(got))])), input)
	return false
}

func rI(v int64) string                   { return ank.Render(v) }
func evRd(n string, v interface{}) string { return "rd " + n + "=" + ank.Render(v) }
func evP(k int64) string                  { return "p " + ank.Render(k) }
func evPv(k int64) string                 { return "pv " + ank.Render(k) }

func clipSrc(s string) string {
	if len(s) > 3000 {
		return s[:1500] + "\n... (" + strconv.Itoa(len(s)) + " bytes) ...\n" + s[len(s)-1200:]
	}
	return s
}

var r8Sizes = []int{70, 300, 1100, 4200}

// ---------------------------------------------------------------------------
// C04

// c04BigScope: scopes holding many names (70 .. 4200) at three nesting levels, a history of
// var declarations, plain assignments and deletions of OTHER names, over several source texts
// executed in one environment; after every burst a sample of the names of every level is read
// back. The model is the statement's dictionary chain: a read finds the nearest binding, a plain
// assignment updates the nearest binding or creates one in the current block, var binds in the
// current block, a block's bindings are gone when it ends, the top level persists from one
// source text to the next. delete("n") is only generated for a name bound in the current block
// (it removes that binding; what it does to a name bound further out is not generated).
func c04BigScope(c *wk.Case, mp *modelProp, variant int) {
	rng := c.Rng
	n := r8Sizes[(variant+c.Index)%len(r8Sizes)]
	if variant >= 4 {
		n = 64 + rng.Intn(3000)
	}
	name := func(i int) string { return "n" + strconv.Itoa(i) }
	sess := realrun.NewSession(400000)
	top := map[string]int64{}
	next := int64(1)
	reads, deletes, maxScope := 0, 0, 0
	for text := 0; text < 3; text++ {
		var b strings.Builder
		var want []string
		stack := []map[string]int64{top}
		lookup := func(nm string) (int64, bool) {
			for i := len(stack) - 1; i >= 0; i-- {
				if v, ok := stack[i][nm]; ok {
					return v, true
				}
			}
			return 0, false
		}
		readBack := func(nm string) {
			reads++
			fmt.Fprintf(&b, "try { rd(%q, %s) } catch e { rd(%q, \"undef\") }\n", nm, nm, nm)
			if v, ok := lookup(nm); ok {
				want = append(want, evRd(nm, v))
			} else {
				want = append(want, evRd(nm, "undef"))
			}
		}
		burst := func(level int) {
			cur := stack[len(stack)-1]
			// declarations: fill the current block
			cnt := n
			if level > 0 {
				cnt = n / 2
			}
			for k := 0; k < cnt; k++ {
				i := rng.Intn(n)
				if level == 0 && text == 0 {
					i = k
				}
				next++
				if rng.Intn(3) > 0 {
					fmt.Fprintf(&b, "var %s = %d\n", name(i), next)
					cur[name(i)] = next
				} else {
					fmt.Fprintf(&b, "%s = %d\n", name(i), next)
					set := false
					for j := len(stack) - 1; j >= 0; j-- {
						if _, ok := stack[j][name(i)]; ok {
							stack[j][name(i)] = next
							set = true
							break
						}
					}
					if !set {
						cur[name(i)] = next
					}
				}
			}
			if len(cur) > maxScope {
				maxScope = len(cur)
			}
			// deletions of names bound in this block, each followed by reads of other names
			for d := 0; d < 6; d++ {
				var bound []string
				for k := range cur {
					bound = append(bound, k)
				}
				if len(bound) < 3 {
					break
				}
				sort.Strings(bound)
				victim := bound[rng.Intn(len(bound))]
				if rng.Intn(2) == 0 {
					fmt.Fprintf(&b, "delete(%q)\n", victim)
				} else {
					fmt.Fprintf(&b, "delete(%q, true)\n", victim)
				}
				delete(cur, victim)
				deletes++
				readBack(victim)
				for k := 0; k < 60; k++ {
					if n <= 120 {
						if k >= n {
							break
						}
						readBack(name((k*7 + d) % n))
					} else {
						readBack(name(rng.Intn(n)))
					}
				}
				// a plain assignment to a name that is still bound here must update THIS binding
				for k := 0; k < 8 && len(bound) > 0; k++ {
					nm := bound[rng.Intn(len(bound))]
					if _, ok := cur[nm]; !ok {
						continue
					}
					next++
					fmt.Fprintf(&b, "%s = %d\n", nm, next)
					cur[nm] = next
					readBack(nm)
				}
			}
		}
		openers := []string{"if true {\n", "func() {\n", "for zz in [0] {\n", "switch 1 {\ncase 1:\n"}
		closers := []string{"}\n", "}()\n", "}\n", "}\n"}
		var nest func(level int)
		nest = func(level int) {
			burst(level)
			if level < 2 {
				k := rng.Intn(len(openers))
				b.WriteString(openers[k])
				stack = append(stack, map[string]int64{})
				nest(level + 1)
				stack = stack[:len(stack)-1]
				b.WriteString(closers[k])
				// after the block: its bindings are gone, the outer ones show again
				for k := 0; k < 40; k++ {
					readBack(name(rng.Intn(n)))
				}
			}
		}
		nest(0)
		src := b.String()
		input := map[string]interface{}{"scenario": "bigscope", "names": n, "source_text_no": text, "source": clipSrc(src)}
		c.Begin(input)
		r := sess.Exec(src, r8Watchdog)
		c.Eval(fmt.Sprintf("c04-bigscope|%d|%d|%d", n, text, c.Index), true)
		if !r8Settle(c, mp, "bigscope", r, "", input) || !r8Compare(c, mp, "bigscope", r.Trace, want, input) {
			break
		}
	}
	c.Count("bigscope_reads", reads)
	c.Count("bigscope_deletes", deletes)
	r8Reached(c, "names_in_one_scope", maxScope)
}

// c04Closures: thousands of function values made by one factory, each capturing the fresh scope of
// the invocation that made it: counters advance independently whatever the order of the calls.
func c04Closures(c *wk.Case, mp *modelProp, variant int) {
	k := []int{1100, 4200, 300, 2000}[(variant+c.Index)%4]
	calls := 3 * k
	src := fmt.Sprintf(`mk = func(seed) { var cnt = seed; var pad = seed + 1; return func() { cnt = cnt + 1; return cnt } }
fs = make([]interface, %d)
for i = 0; i < %d; i++ { fs[i] = mk(i * 1000) }
cnt = -5
for j = 0; j < %d; j++ { k = (j * 7919) %% %d; rd("c", fs[k]()) }
rd("outer", cnt)
`, k, k, calls, k)
	cnt := make([]int64, k)
	for i := range cnt {
		cnt[i] = int64(i) * 1000
	}
	var want []string
	for j := 0; j < calls; j++ {
		i := (j * 7919) % k
		cnt[i]++
		want = append(want, evRd("c", cnt[i]))
	}
	want = append(want, evRd("outer", int64(-5)))
	r8One(c, mp, "closures", src, want, "", map[string]interface{}{"closures": k})
	r8Reached(c, "live_closures", k)
}

// c04Recursion: nested invocations of one function, thousands deep, each with locals of its own that
// must be intact when the inner calls have returned.
func c04Recursion(c *wk.Case, mp *modelProp, variant int) {
	d := []int{1100, 4200, 9000, 2500}[(variant+c.Index)%4]
	src := fmt.Sprintf(`func rec(n) {
  var mine = n * 7
  loc = n + 1
  var r = 0
  if n > 0 { r = rec(n - 1) }
  if mine != n * 7 || loc != n + 1 { rd("clobbered", [n, mine, loc]) }
  return r + 1
}
rd("depth", rec(%d))
try { rd("leak", loc) } catch e { rd("leak", "undef") }
`, d)
	want := []string{evRd("depth", int64(d+1)), evRd("leak", "undef")}
	if probe := realrun.NewSession(1000).Exec(src, r8Watchdog); !probe.Panicked && len(probe.Trace) == 0 && r8ResourceLimit(probe.ErrText) {
		// the interpreter refuses to nest that deep (a resource limit, outside the statement): nothing was clobbered before
		c.Excluded("nesting-limited-by-the-interpreter")
		return
	}
	r8One(c, mp, "recursion", src, want, "", map[string]interface{}{"depth": d})
	r8Reached(c, "nesting_depth", d)
}

// c04FreshInvocation: one function node invoked thousands of times: every invocation starts without
// the names earlier invocations created, and a plain assignment to an outer name reaches the outer binding.
func c04FreshInvocation(c *wk.Case, mp *modelProp, variant int) {
	k := []int{4200, 1100, 9000, 2000}[(variant+c.Index)%4]
	src := fmt.Sprintf(`total = 0
func f(i) {
  r = -1
  try { r = loc } catch e { }
  loc = i
  var t = i * 2
  if i %% 3 == 0 { var t = -9; loc2 = t }
  total = total + 1
  return [r, t]
}
for i = 0; i < %d; i++ { rd("f", f(i)) }
rd("total", total)
try { rd("t", t) } catch e { rd("t", "undef") }
`, k)
	var want []string
	for i := 0; i < k; i++ {
		want = append(want, evRd("f", []interface{}{int64(-1), int64(i * 2)}))
	}
	want = append(want, evRd("total", int64(k)), evRd("t", "undef"))
	r8One(c, mp, "fresh-invocation", src, want, "", map[string]interface{}{"calls": k})
	r8Reached(c, "invocations_of_one_function", k)
}

// c04HotName: ONE read node and ONE assignment node (inside a function literal made afresh by every
// invocation of outer) evaluated thousands of times while the scope that holds the nearest binding of
// the name alternates: on even rounds only the top level binds x, on odd rounds the invocation of
// outer has declared its own x before the literal is called (the literal captured that scope by
// reference, so the binding made after its creation is the nearest one).
func c04HotName(c *wk.Case, mp *modelProp, variant int) {
	k := []int{4200, 1300, 9000, 2500}[(variant+c.Index)%4]
	src := fmt.Sprintf(`x = -1
func outer(i) {
  get = func() { return x }
  set = func(v) { x = v }
  if i %% 2 == 0 {
    set(i * 3)
    return [get(), x]
  }
  var x = i
  a = get()
  set(i + 100000)
  return [a, get(), x]
}
for i = 0; i < %d; i++ {
  rd("o", outer(i))
  if i %% 50 == 0 { rd("x", x) }
}
rd("x", x)
`, k)
	var want []string
	gx := int64(-1)
	for i := 0; i < k; i++ {
		if i%2 == 0 {
			gx = int64(i * 3)
			want = append(want, evRd("o", []interface{}{gx, gx}))
		} else {
			want = append(want, evRd("o", []interface{}{int64(i), int64(i + 100000), int64(i + 100000)}))
		}
		if i%50 == 0 {
			want = append(want, evRd("x", gx))
		}
	}
	want = append(want, evRd("x", gx))
	r8One(c, mp, "hot-name", src, want, "", map[string]interface{}{"rounds": k})
	r8Reached(c, "evaluations_of_one_name_node", k)
}

func realrunSession(src string, budget int) realrun.Real {
	return realrun.NewSession(budget).Exec(src, r8Watchdog)
}

func r8One(c *wk.Case, mp *modelProp, name, src string, want []string, wantErr string, extra map[string]interface{}) bool {
	return r8OneEnv(c, mp, name, src, want, wantErr, extra, nil)
}

func r8OneEnv(c *wk.Case, mp *modelProp, name, src string, want []string, wantErr string, extra map[string]interface{}, prep func(e *env.Env)) bool {
	input := map[string]interface{}{"scenario": name, "source": clipSrc(src)}
	for k, v := range extra {
		input[k] = v
	}
	c.Begin(input)
	sess := realrun.NewSession(len(want) + 1000)
	if prep != nil {
		prep(sess.E)
	}
	r := sess.Exec(src, r8Watchdog)
	c.Eval(mp.id+"|"+name+"|"+src, true)
	if !r8Settle(c, mp, name, r, wantErr, input) {
		return false
	}
	return r8Compare(c, mp, name, r.Trace, want, input)
}

// ---------------------------------------------------------------------------
// C07: one expression node evaluated thousands of times

type r8Meter struct{ N int64 }

func (m *r8Meter) Add(k int64) int64    { return m.N + k }
func (m *r8Meter) Two(a, b int64) int64 { return a + b }

type r8Gauge struct{ N int64 }

func (g r8Gauge) Add(k int64) int64    { return g.N - k }
func (g r8Gauge) Two(a, b int64) int64 { return a - b }

type r8Box struct {
	F func(int64) int64
	M *r8Meter
}

type r8Site struct {
	name  string
	site  string               // statement evaluated once per round; may use i
	want  func(i int) []string // events of round i
	setup string
}

func c07Sites() []r8Site {
	all := func(ev ...string) func(int) []string { return func(int) []string { return ev } }
	hv := func(a int64, rest ...interface{}) string {
		if rest == nil {
			rest = []interface{}{}
		}
		return "hv " + ank.Render(a) + " " + ank.Render(rest)
	}
	h2 := func(a, b int64) string { return "h2 " + ank.Render(a) + " " + ank.Render(b) }
	par := func(even, odd []string) func(int) []string {
		return func(i int) []string {
			if i%2 == 0 {
				return even
			}
			return odd
		}
	}
	return []r8Site{
		{name: "method-poly-receiver", site: `pv(1, objs[i % 2]).Add(p(2))`, want: all(evPv(1), evP(2))},
		{name: "method-mono-receiver", site: `pv(1, meter).Add(p(2))`, want: all(evPv(1), evP(2))},
		{name: "method-indexed-receiver", site: `pv(1, objs)[pv(2, i % 3)].Two(p(3), p(4))`, want: all(evPv(1), evPv(2), evP(3), evP(4))},
		{name: "method-drifting-receiver", site: `pv(1, objs[(i / 700) % 3]).Add(p(2))`, want: all(evPv(1), evP(2))},
		{name: "method-through-field", site: `pv(1, box).M.Add(p(2))`, want: all(evPv(1), evP(2))},
		{name: "func-field", site: `pv(1, box).F(p(2))`, want: all(evPv(1), evP(2))},
		{name: "map-member", site: `pv(1, mm).Add(p(2))`, want: all(evPv(1), evP(2))},
		{name: "module-member", site: `pv(1, md).Add(p(2))`, want: all(evPv(1), evP(2))},
		{name: "member-kinds-alternating", site: `pv(1, recv[i % 4]).Add(p(2))`, want: all(evPv(1), evP(2))},
		{name: "go-method", site: `go pv(1, gauge).Add(p(2))`, want: all(evPv(1), evP(2))},
		{name: "script-2", site: `f2(p(1), p(2))`, want: all(evP(1), evP(2))},
		{name: "script-5", site: `f5(p(1), p(2), p(3), p(4), p(5))`, want: all(evP(1), evP(2), evP(3), evP(4), evP(5))},
		{name: "script-variadic", site: `fv(p(1), p(2), p(3))`, want: all(evP(1), evP(2), evP(3))},
		{name: "script-spread", site: `f2(pv(1, [p(2), p(3)])...)`, want: all(evP(2), evP(3), evPv(1))},
		{name: "script-callee-alternating", site: `fs[pv(1, i % 2)](p(2), p(3))`, want: all(evPv(1), evP(2), evP(3))},
		{name: "anonymous-callee", site: `func(a, b) { return a }(p(1), p(2))`, want: all(evP(1), evP(2))},
		{name: "go-script", site: `go f2(p(1), p(2))`, want: all(evP(1), evP(2))},
		{name: "go-fixed", site: `h2(p(1), p(2))`, want: all(evP(1), evP(2), h2(1, 2))},
		{name: "go-variadic", site: `hv(p(1), p(2), p(3))`, want: all(evP(1), evP(2), evP(3), hv(1, int64(2), int64(3)))},
		{name: "go-variadic-spread", site: `hv(p(1), pv(2, [p(3), p(4)])...)`, want: all(evP(1), evP(3), evP(4), evPv(2), hv(1, int64(3), int64(4)))},
		{name: "go-typed", site: `hs(pv(1, "s"), p(2))`, want: all(evPv(1), evP(2), "hs "+ank.Render("s")+" "+ank.Render(int64(2)))},
		{name: "go-typed-literals", site: `hvs("s", p(1), 2, p(3))`, want: all(evP(1), evP(3), "hvs "+ank.Render("s")+" ["+rI(1)+" "+rI(2)+" "+rI(3)+"]")},
		{name: "defer-go-fixed", site: `func() { defer h2(p(1), p(2)); p(3) }()`, want: all(evP(1), evP(2), evP(3), h2(1, 2))},
		{name: "defer-script", site: `func() { defer f2(p(1), p(2)); p(3) }()`, want: all(evP(1), evP(2), evP(3))},
		{name: "list-literal", site: `[p(1), p(2), [p(3)], p(4)]`, want: all(evP(1), evP(2), evP(3), evP(4))},
		{name: "map-literal", site: `{"a": p(1), "b": p(2), "c": p(3)}`, want: all(evP(1), evP(2), evP(3))},
		{name: "binary", site: `p(1) + p(2) * p(3) - p(4)`, want: all(evP(1), evP(2), evP(3), evP(4))},
		{name: "compare", site: `p(1) == p(2)`, want: all(evP(1), evP(2))},
		{name: "index", site: `pv(1, lst)[p(0)]`, want: all(evPv(1), evP(0))},
		{name: "slice", site: `pv(1, lst)[p(0):p(2)]`, want: all(evPv(1), evP(0), evP(2))},
		{name: "string-index", site: `pv(1, "abc")[p(1)]`, want: all(evPv(1), evP(1))},
		{name: "map-index", site: `pv(1, mm2)[pv(2, "k")]`, want: all(evPv(1), evPv(2))},
		{name: "return-list", site: `func() { return p(1), p(2), p(3) }()`, want: all(evP(1), evP(2), evP(3))},
		{name: "multi-assign", site: `a1, a2 = p(1), p(2)`, want: all(evP(1), evP(2))},
		{name: "multi-var", site: `var b1, b2 = p(1), p(2)`, want: all(evP(1), evP(2))},
		{name: "multi-assign-list-literal", site: `a1, a2 = [p(1), p(2)]`, want: all(evP(1), evP(2))},
		{name: "multi-assign-list-literal-surplus", site: `a1, a2 = [p(1), p(2), p(3), p(4)]`, want: all(evP(1), evP(2), evP(3), evP(4))},
		{name: "multi-assign-paren-list-literal-surplus", site: `a1, a2 = ([p(1), p(2), p(3)])`, want: all(evP(1), evP(2), evP(3))},
		{name: "multi-var-list-literal-surplus", site: `var b1, b2 = [p(1), p(2), p(3)]`, want: all(evP(1), evP(2), evP(3))},
		{name: "multi-assign-surplus-values", site: `try { a1, a2 = p(1), p(2), p(3) } catch e { }`, want: all(evP(1), evP(2), evP(3))},
		{name: "and", site: `pv(1, i % 2 == 0) && p(2)`, want: par([]string{evPv(1), evP(2)}, []string{evPv(1)})},
		{name: "or", site: `pv(1, i % 2 == 0) || p(2)`, want: par([]string{evPv(1)}, []string{evPv(1), evP(2)})},
		{name: "ternary", site: `pv(1, i % 2 == 0) ? p(2) : p(3)`, want: par([]string{evPv(1), evP(2)}, []string{evPv(1), evP(3)})},
		{name: "nil-coalescing", site: `pv(1, nilOrFive[i % 2]) ?? p(2)`, want: par([]string{evPv(1), evP(2)}, []string{evPv(1)})},
		{name: "nil-coalescing-failing-left", site: `pe(1) ?? p(2)`, want: all("pe "+rI(1), evP(2))},
		{name: "in", site: `p(1) in pv(2, lst)`, want: all(evP(1), evPv(2))},
		{name: "switch-subject", site: `switch p(1) { case 5: p(2) }`, want: all(evP(1))},
		{name: "nested-target", site: `grid[p(0)][p(1)] = p(2)`, want: nil},
	}
}

const c07Setup = `func f2(a, b) { return a }
func f5(a, b, c, d, e) { return a }
func fv(a, b...) { return a }
fs = [func(a, b) { return a }, func(a, b) { return b }]
mm = {"Add": func(k) { return k }}
mm2 = {"k": 1}
module md { func Add(k) { return k } }
lst = [10, 20, 30, 40]
nilOrFive = [nil, 5]
grid = [[0, 0], [0, 0]]
recv = [meter, mm, gauge, md]
`

func c07Prep(e *env.Env) {
	m := &r8Meter{N: 100}
	g := r8Gauge{N: 200}
	e.Define("meter", m)
	e.Define("gauge", g)
	e.Define("meter2", &r8Meter{N: 300})
	e.Define("objs", []interface{}{m, g, &r8Meter{N: 7}})
	e.Define("box", &r8Box{F: func(k int64) int64 { return k }, M: m})
}

// c07HotSites: every operand-evaluating form of the statement, written once and evaluated in a loop
// thousands of times (receivers, callees and deciding operands changing their type or truthiness from
// round to round where the form has such an operand): every single evaluation must log its probe
// leaves exactly once, in source order.
func c07HotSites(share int) func(c *wk.Case, mp *modelProp, variant int) {
	return func(c *wk.Case, mp *modelProp, variant int) { c07HotSitesShare(c, mp, variant, share) }
}

func c07HotSitesShare(c *wk.Case, mp *modelProp, variant, share int) {
	sites := c07Sites()
	rounds := 1300
	if c.Tier == "thorough" {
		rounds = []int{4200, 1300, 2100, 5000}[variant%4]
	}
	maxEvals := 0
	for si, s := range sites {
		if s.want == nil {
			continue // kept for the order of the list; judged by the nested-target programs of phase programs
		}
		if si%c07Shares != share {
			continue
		}
		mode := (si + variant) % 2
		var src string
		if mode == 0 {
			src = c07Setup + fmt.Sprintf("for i = 0; i < %d; i++ {\n  %s\n}\n", rounds, s.site)
		} else {
			src = c07Setup + fmt.Sprintf("func once(i) {\n  %s\n}\nfor i = 0; i < %d; i++ { once(i) }\n", s.site, rounds)
		}
		if strings.HasPrefix(s.site, "go ") {
			src += "gsettle()\n"
		}
		var want []string
		for i := 0; i < rounds; i++ {
			want = append(want, s.want(i)...)
		}
		c.Tag("hot-site:" + s.name)
		if !r8OneEnv(c, mp, "hot-site:"+s.name, src, want, "", map[string]interface{}{"rounds": rounds, "site": s.site}, c07Prep) {
			// keep going: other sites may show other defects
		}
		if rounds > maxEvals {
			maxEvals = rounds
		}
	}
	r8Reached(c, "evaluations_of_one_node", maxEvals)
}

const c07Shares = 4

// ---------------------------------------------------------------------------
// C08

// c08CondStream: thousands of DISTINCT condition values of every truthiness class go through the four
// condition positions (if, else-if, loop condition, C-style loop condition) of one process, in source
// texts of ~400 values each, while a fixed reference set and values met in earlier texts are asked
// again and again. Judged values come from the classes the statement names (nil, booleans, zero and
// non-zero numbers, empty and non-empty strings that do not spell a number or a boolean, empty and
// non-empty lists and maps); strings that spell numbers or booleans are streamed as well - they are
// legal programs - but both branches log the same event for them (their own truthiness is left open).
func c08CondStream(c *wk.Case, mp *modelProp, variant int) {
	rng := c.Rng
	texts := 16
	if c.Tier == "thorough" {
		texts = 40
	}
	type cv struct {
		lit    string
		truthy bool
		open   bool
	}
	refs := []cv{{`"a"`, true, false}, {`"yes"`, true, false}, {`"no"`, true, false}, {`"text"`, true, false}, {`"x y"`, true, false}, {`"-"`, true, false},
		{`"zero"`, true, false}, {`"nil"`, true, false}, {`"0x"`, true, false}, {`" "`, true, false}, {`"é"`, true, false}, {`"falsy"`, true, false},
		{`""`, false, false}, {`0`, false, false}, {`0.0`, false, false}, {`nil`, false, false}, {`false`, false, false}, {`true`, true, false},
		{`[]`, false, false}, {`{}`, false, false}, {`[0]`, true, false}, {`{"k": 0}`, true, false}, {`7`, true, false}, {`-0.5`, true, false}}
	serial := variant*1000000 + 1
	fresh := func() cv {
		serial++
		i := serial
		switch rng.Intn(12) {
		case 0:
			return cv{fmt.Sprintf(`"w%d"`, i), true, false}
		case 1:
			return cv{fmt.Sprintf(`"line %d of the text"`, i), true, false}
		case 2:
			return cv{fmt.Sprintf(`"%dth"`, i), true, false}
		case 3:
			return cv{strconv.Itoa(i), true, false}
		case 4:
			return cv{fmt.Sprintf("%d.5", i), true, false}
		case 5:
			return cv{fmt.Sprintf(`"0e%d"`, i), false, true}
		case 6:
			return cv{fmt.Sprintf(`"%d"`, i), false, true}
		case 7:
			return cv{fmt.Sprintf(`"0.%d"`, i), false, true}
		case 8:
			return cv{fmt.Sprintf(`"%s0"`, strings.Repeat("0", i%50)), false, true}
		case 9:
			return cv{fmt.Sprintf(`"-0e%d"`, i), false, true}
		case 10:
			return cv{fmt.Sprintf(`[%d]`, i), true, false}
		default:
			return cv{fmt.Sprintf(`{"k%d": 0}`, i), true, false}
		}
	}
	var earlier []cv
	sess := realrun.NewSession(200000)
	distinct, reasks := 0, 0
	for t := 0; t < texts; t++ {
		var b strings.Builder
		var want []string
		emit := func(v cv) {
			one, zero := int64(1), int64(0)
			if strings.HasPrefix(v.lit, "[") || strings.HasPrefix(v.lit, "{") {
				// container literals directly in front of a block would read as typed literals
				fmt.Fprintf(&b, "cv = %s\n", v.lit)
				v.lit = "cv"
			}
			if v.open {
				// both branches log the same: the value's own truthiness is not judged
				fmt.Fprintf(&b, "if %s { rd(\"o\", 0) } else { rd(\"o\", 0) }\nfor %s { break }\n", v.lit, v.lit)
				want = append(want, evRd("o", zero))
				return
			}
			tv := zero
			if v.truthy {
				tv = one
			}
			fmt.Fprintf(&b, "if %s { rd(\"if\", 1) } else { rd(\"if\", 0) }\n", v.lit)
			fmt.Fprintf(&b, "if false { rd(\"ei\", 2) } else if %s { rd(\"ei\", 1) } else { rd(\"ei\", 0) }\n", v.lit)
			fmt.Fprintf(&b, "cn = 0\nfor %s { cn++; break }\nrd(\"lp\", cn)\n", v.lit)
			fmt.Fprintf(&b, "cn = 0\nfor j = 0; %s; j++ { cn++; if j == 1 { break } }\nrd(\"cf\", cn)\n", v.lit)
			want = append(want, evRd("if", tv), evRd("ei", tv), evRd("lp", tv), evRd("cf", 2*tv))
		}
		var made []cv
		for k := 0; k < 400; k++ {
			v := fresh()
			distinct++
			made = append(made, v)
			emit(v)
			if k%40 == 39 {
				for _, r := range refs {
					emit(r)
					reasks++
				}
				for j := 0; j < 12 && len(earlier) > 0; j++ {
					emit(earlier[rng.Intn(len(earlier))])
					reasks++
				}
			}
		}
		src := b.String()
		input := map[string]interface{}{"scenario": "cond-stream", "source_text_no": t, "distinct_values_before": distinct - 400, "source": clipSrc(src)}
		c.Begin(input)
		r := sess.Exec(src, r8Watchdog)
		c.Eval(fmt.Sprintf("c08-condstream|%d|%d", c.Index, t), true)
		if !r8Settle(c, mp, "cond-stream", r, "", input) || !r8Compare(c, mp, "cond-stream", r.Trace, want, input) {
			break
		}
		for _, v := range made {
			if !v.open {
				earlier = append(earlier, v)
			}
		}
	}
	c.Count("condstream_distinct_values", distinct)
	c.Count("condstream_reasks", reasks)
	r8Reached(c, "distinct_condition_values_in_one_process", distinct)
}

// c08LongLoops: loops of many rounds (counts on and next to 1024, 4096, 65536) in every loop form,
// break / continue / return at computed rounds, for-in over long lists (index order: a rolling hash)
// and big maps (every entry once: count and key sum), nested loops whose break leaves the inner one only.
func c08LongLoops(c *wk.Case, mp *modelProp, variant int) {
	ns := []int{1023, 1024, 1025, 4096, 4097, 65537}
	if c.Tier == "thorough" {
		ns = append(ns, 65535, 65536, 200000)
	}
	var b strings.Builder
	var want []string
	const mod = 1000003
	b.WriteString("i = -1\n") // the loop counters below are this binding (a plain assignment updates the nearest one)
	for _, n := range ns {
		// C-style loop, continue runs the post expression, break ends it
		stop := n - 3
		fmt.Fprintf(&b, "s = 0\nc1 = 0\nfor i = 0; i < %d; i++ {\n  if i %% 3 == 1 { continue }\n  if i == %d { break }\n  s = (s * 31 + i) %% %d\n  c1++\n}\nrd(\"cfor\", [s, c1, i])\n", n, stop, mod)
		s, c1, iEnd := int64(0), int64(0), int64(n)
		for i := 0; i < n; i++ {
			if i%3 == 1 {
				continue
			}
			if i == stop {
				iEnd = int64(i)
				break
			}
			s = (s*31 + int64(i)) % mod
			c1++
		}
		want = append(want, evRd("cfor", []interface{}{s, c1, iEnd}))
		// condition loop
		fmt.Fprintf(&b, "k = 0\nfor k < %d { k++ }\nrd(\"while\", k)\n", n)
		want = append(want, evRd("while", int64(n)))
		// bare loop left by break
		fmt.Fprintf(&b, "k = 0\nfor { k++; if k >= %d { break } }\nrd(\"forever\", k)\n", n)
		want = append(want, evRd("forever", int64(n)))
		// for-in over a list: index order
		fmt.Fprintf(&b, "l = make([]interface, %d)\nfor i = 0; i < %d; i++ { l[i] = i * 2 + 1 }\nh = 0\nfor v in l { h = (h * 131 + v) %% %d }\nrd(\"forin\", h)\n", n, n, mod)
		h := int64(0)
		for i := 0; i < n; i++ {
			h = (h*131 + int64(i*2+1)) % mod
		}
		want = append(want, evRd("forin", h))
		// return from inside nested loops of a function
		fmt.Fprintf(&b, "func find(n) { for i = 0; i < n + 5; i++ { for j in [0, 1, 2] { if i == n && j == 1 { return i * 10 + j } } }\n return -1 }\nrd(\"ret\", find(%d))\n", n-1)
		want = append(want, evRd("ret", int64((n-1)*10+1)))
	}
	// for-in over maps: every entry once
	for _, n := range []int{1025, 4097, 20000} {
		fmt.Fprintf(&b, "m = {}\nfor i = 0; i < %d; i++ { m[i] = i + 1 }\ncn = 0\nks = 0\nvs = 0\nfor k, v in m { cn++; ks += k; vs += v }\nrd(\"map\", [cn, ks, vs])\ncn = 0\nfor k in m { cn++ }\nrd(\"mapk\", cn)\n", n)
		ks := int64(n) * int64(n-1) / 2
		want = append(want, evRd("map", []interface{}{int64(n), ks, ks + int64(n)}), evRd("mapk", int64(n)))
	}
	// nested loops: break / continue act on the innermost loop only
	fmt.Fprintf(&b, "t = 0\nfor i = 0; i < 300; i++ {\n  for j = 0; j < 300; j++ {\n    if j == i { break }\n    if j %% 2 == 0 { continue }\n    t++\n  }\n}\nrd(\"nested\", t)\n")
	tt := int64(0)
	for i := 0; i < 300; i++ {
		for j := 0; j < 300; j++ {
			if j == i {
				break
			}
			if j%2 == 0 {
				continue
			}
			tt++
		}
	}
	want = append(want, evRd("nested", tt))
	r8One(c, mp, "long-loops", b.String(), want, "", map[string]interface{}{"round_counts": ns})
	r8Reached(c, "rounds_of_one_loop", ns[len(ns)-1])
}

// c08WideBranches: an if / else-if chain of 1100 branches and a switch of 1100 cases, asked with
// thousands of subjects in one run: exactly the first matching branch runs, else the else / default.
func c08WideBranches(c *wk.Case, mp *modelProp, variant int) {
	w := []int{1100, 300, 4200, 2000}[(variant+c.Index)%4]
	asks := 4000000 / (2 * w)
	if asks > 3000 {
		asks = 3000
	}
	var b strings.Builder
	b.WriteString("func chain(v) {\n  if v == -1 { return -1 }")
	for k := 0; k < w; k++ {
		fmt.Fprintf(&b, " else if v == %d || v == %d { return %d }", k*3, k*3+1000000, k)
	}
	b.WriteString(" else { return -2 }\n}\nfunc sw(v) {\n  r = -3\n  switch v {\n")
	for k := 0; k < w; k++ {
		fmt.Fprintf(&b, "  case %d, %d:\n    r = %d\n", k*3, k*3+1000000, k)
	}
	// a later duplicate of an earlier case must never win
	fmt.Fprintf(&b, "  case 0, 3:\n    r = -4\n  default:\n    r = -2\n  }\n  return r\n}\n")
	fmt.Fprintf(&b, "for q = 0; q < %d; q++ { v = (q * 7919) %% %d; rd(\"b\", [chain(v), sw(v)]) }\n", asks, w*3+50)
	var want []string
	for q := 0; q < asks; q++ {
		v := (q * 7919) % (w*3 + 50)
		r := int64(-2)
		if v%3 == 0 && v/3 < w {
			r = int64(v / 3)
		}
		want = append(want, evRd("b", []interface{}{r, r}))
	}
	r8One(c, mp, "wide-branches", b.String(), want, "", map[string]interface{}{"branches": w, "asks": asks})
	r8Reached(c, "branches_of_one_statement", w)
}

// ---------------------------------------------------------------------------
// C09

// c09DeepDefers: invocations nested thousands deep (up to 12000), each with deferred calls (Go
// functions and script function literals); the innermost one returns, throws, or fails: every deferred
// call runs exactly once, innermost invocation first, LIFO inside an invocation, with the arguments
// evaluated at its defer statement; the value / error arrives at the caller or the nearest try.
func c09DeepDefers(c *wk.Case, mp *modelProp, variant int) {
	d := []int{1100, 4200, 10050, 12000}[(variant+c.Index)%4]
	for _, end := range []string{"return", "throw", "runtime", "caught"} {
		inner := map[string]string{"return": "return 0", "throw": `throw "T7"`, "runtime": "return nosuchfunction()", "caught": `throw "T7"`}[end]
		body := fmt.Sprintf(`func walk(n) {
  rd("in", n)
  defer h1(n)
  defer func(k) { rd("d", k) }(n + 1)
  if n == 0 { %s }
  return walk(n - 1) + 1
}
`, inner)
		src := body + fmt.Sprintf("rd(\"r\", walk(%d))\n", d)
		if end == "caught" {
			src = body + fmt.Sprintf("try { rd(\"r\", walk(%d)) } catch e { pc(e) } finally { rd(\"fin\", 1) }\nrd(\"after\", 2)\n", d)
		}
		name := "deep-defers:" + end
		input := map[string]interface{}{"scenario": name, "source": src, "depth": d}
		c.Begin(input)
		sess := realrun.NewSession(4*d + 1000)
		r := sess.Exec(src, r8Watchdog)
		c.Eval(mp.id+"|"+name+"|"+src, true)
		// the invocations that were entered, outermost first: d, d-1, ... , m
		m := d + 1
		for m > 0 && d-m+1 < len(r.Trace) && r.Trace[d-m+1] == evRd("in", int64(m-1)) {
			m--
		}
		limited := m > 0 && r8ResourceLimit(r.ErrText)
		if end == "caught" && m > 0 && !r.Panicked && r.ErrText == "" {
			limited = true // the limit error went to the catch block (checked below through "catch <rt>")
		}
		var want []string
		for n := d; n >= m; n-- {
			want = append(want, evRd("in", int64(n)))
		}
		for n := m; n <= d; n++ {
			want = append(want, evRd("d", int64(n+1)), "h1 "+rI(int64(n)))
		}
		wantErr := ""
		if limited {
			// a refusal to nest deeper (a resource limit, outside the statement) is not judged; what the
			// statement fixes for the invocations that WERE entered is: each runs its deferred calls once
			c.Tag("deep-defers:nesting-limited-by-the-interpreter")
			wantErr = r.ErrText
			if end == "caught" {
				want = append(want, "catch <rt>", evRd("fin", int64(1)), evRd("after", int64(2)))
			}
		} else {
			switch end {
			case "return":
				want = append(want, evRd("r", int64(d)))
			case "throw":
				wantErr = "T7"
			case "runtime":
				wantErr = "nosuchfunction"
			case "caught":
				want = append(want, "catch T7", evRd("fin", int64(1)), evRd("after", int64(2)))
			}
		}
		if r8Settle(c, mp, name, r, wantErr, input) {
			r8Compare(c, mp, name, r.Trace, want, input)
		}
	}
	r8Reached(c, "nesting_depth", d)
}

// r8ResourceLimit: the text of an error by which an interpreter refuses to nest / allocate further.
// Exhaustion of stack or memory is outside the statements; such an end of a deep-recursion scenario
// is not a violation by itself (what happened before it is still judged).
func r8ResourceLimit(text string) bool {
	t := strings.ToLower(text)
	for _, w := range []string{"deep", "depth", "nest", "stack", "recurs", "limit", "too many", "exceed", "overflow"} {
		if strings.Contains(t, w) {
			return true
		}
	}
	return false
}

// c09ManyDefers: one invocation that registers tens of thousands of deferred calls in a loop, and one
// function with defers that is invoked thousands of times.
func c09ManyDefers(c *wk.Case, mp *modelProp, variant int) {
	n := []int{4097, 65537, 1025, 20000}[(variant+c.Index)%4]
	src := fmt.Sprintf(`func many(n) {
  for i = 0; i < n; i++ {
    if i %% 2 == 0 { defer h1(i) } else { defer func(a, b) { rd("s", [a, b]) }(i, i * 2) }
  }
  i = -1
  return 5
}
rd("r", many(%d))
`, n)
	var want []string
	for i := n - 1; i >= 0; i-- {
		if i%2 == 0 {
			want = append(want, "h1 "+rI(int64(i)))
		} else {
			want = append(want, evRd("s", []interface{}{int64(i), int64(i * 2)}))
		}
	}
	want = append(want, evRd("r", int64(5)))
	r8One(c, mp, "many-defers", src, want, "", map[string]interface{}{"defers": n})
	k := []int{4200, 1100, 9000, 2000}[(variant+c.Index)%4]
	src = fmt.Sprintf(`func f(i) {
  defer h1(i)
  defer h2(i, i + 1)
  if i %% 5 == 0 { defer func() { rd("x", i) }() }
  if i %% 7 == 0 { throw "T3" }
  return i
}
for i = 0; i < %d; i++ { try { rd("v", f(i)) } catch e { pc(e) } }
`, k)
	want = nil
	for i := 0; i < k; i++ {
		if i%5 == 0 {
			want = append(want, evRd("x", int64(i)))
		}
		want = append(want, "h2 "+rI(int64(i))+" "+rI(int64(i+1)), "h1 "+rI(int64(i)))
		if i%7 == 0 {
			want = append(want, "catch T3")
		} else {
			want = append(want, evRd("v", int64(i)))
		}
	}
	r8One(c, mp, "defers-per-invocation", src, want, "", map[string]interface{}{"invocations": k})
	r8Reached(c, "defers_of_one_invocation", n)
}

// c09TryStream: tens of thousands of try statements executed in one process, with thrown values and
// runtime errors of thousands of distinct texts; every error reaches the nearest try with its own
// message, finally runs after each, nothing after the failing point runs.
func c09TryStream(c *wk.Case, mp *modelProp, variant int) {
	n := 12000
	if c.Tier == "thorough" {
		n = 60000
	}
	src := fmt.Sprintf(`func thrower(i) { defer h1(i); if i %% 2 == 0 { throw "T" + toString(i) }
  return undefinedname
}
func mid(i) { defer rd("mf", i); thrower(i); rd("never", i) }
for i = 0; i < %d; i++ {
  try {
    if i %% 3 == 0 { mid(i) } else { thrower(i) }
    rd("never", i)
  } catch e {
    pc(e)
  } finally {
    if i %% 1000 == 0 { rd("fin", i) }
  }
}
rd("end", 1)
`, n)
	var want []string
	for i := 0; i < n; i++ {
		want = append(want, "h1 "+rI(int64(i)))
		if i%3 == 0 {
			want = append(want, evRd("mf", int64(i)))
		}
		if i%2 == 0 {
			want = append(want, "catch T"+strconv.Itoa(i))
		} else {
			want = append(want, "catch <rt>")
		}
		if i%1000 == 0 {
			want = append(want, evRd("fin", int64(i)))
		}
	}
	want = append(want, evRd("end", int64(1)))
	r8One(c, mp, "try-stream", src, want, "", map[string]interface{}{"tries": n})
	r8Reached(c, "try_statements_in_one_run", n)
}

var _ = rand.Int
