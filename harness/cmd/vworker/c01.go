package main

// C01 — a script can never crash the embedding Go program (debug=false).
// Monitor: recover() around every boundary call (calling-goroutine panics) and
// the parent's crash classifier over the worker's death (panics in script
// goroutines, fatal errors). Workload: token soup, grammar-wild templates
// crossing every production with every value kind, corpus mutation, mutated
// IR programs; c01_shapes.go: generated function literals, numerals, types;
// c01_r4.go: unsigned numbers and multi-byte strings (random and the exhaustive
// cross phase), storms of script goroutines in fresh child processes;
// c01_r5.go: equality of values with uncomparable interface content, type paths
// through nil modules, one expression node applied to operands of different types;
// c01_r6.go: go statements nested in functions / goroutines / deferred functions /
// callbacks, container storms over nested struct types, import storms over a
// package of the host.

import (
	"context"
	"errors"
	"fmt"
	"math/rand"
	"runtime"
	"runtime/debug"
	"strings"
	"time"

	"github.com/mattn/anko/ast"
	"github.com/mattn/anko/env"

	"verifharness/internal/ank"
	"verifharness/internal/corpus"
	"verifharness/internal/fw"
	"verifharness/internal/gen"
	"verifharness/internal/wk"
)

// prelude binds one value of every kind a script can itself construct.
const c01Prelude = `
vNil = nil
vTrue = true
vInt = 3
vNeg = -1
vBig = 4611686018427387904
vMax = 9223372036854775807
vFloat = 2.5
vStr = "héllo"
vEmpty = ""
vList = [1, "a", nil, [2]]
vEList = []
vMap = {"a": 1, "b": nil, "l": [1], "m": {}}
vIStruct = make(struct{A interface})
vIStruct.A = [1]
vBoxed = [[1, 2], {"k": 1}, vIStruct]
vTSlice = make([]int64, 2)
vTStr = []string{"x", "y"}
vPSlice = make([]*int64, 1)
vTMap = make(map[string]int64)
vNMap = make([]map[string]float64, 1)
vNStruct = make(struct{M map[string]int64, S []string})
vStruct = make(struct{A int64, B string, C []int64, P *int64})
vPtr = new(int64)
vType = make(type VT, 1)
vTypeSt = make(type VTS, make(struct{A int64}))
vPStruct = new(struct{A int64})
vChan = make(chan int64, 1)
vIChan = make(chan interface, 1)
vPChan = make(chan *int64, 1)
vPChan <- vPSlice[0]
vFunc = func(a) { return a }
vFunc0 = func() { return 1 }
vFuncV = func(a...) { return a }
vFunc5 = func(a, b, c, d, e) { return e }
module vMod { x = 1; func f() { return x } }
vU64s = make([]uint64, 2)
vU64s[1] = 7
vU8s = []byte{1, 200}
vU32s = []uint32{7}
vUs = []uint{1}
vBytes = toByteSlice("ab")
vS1 = "é"
vS2 = "日本"
vS3 = "naïve"
vS4 = "€5😀"
`

var c01Operands = []string{"vNil", "vTrue", "vInt", "vNeg", "vBig", "vMax", "vFloat", "vStr", "vEmpty", "vList", "vEList", "vMap",
	"vTSlice", "vTStr", "vPSlice", "vTMap", "vStruct", "vPtr", "vPStruct", "vChan", "vIChan", "vPChan", "vFunc", "vFunc0", "vFuncV", "vFunc5",
	"vMod", "vPSlice[0]", "vList[3]", "vMap.l", "vMap.m", "vBoxed[0]", "vBoxed[1]", "vBoxed[2]", "vIStruct", "gId(vList)", "gId(vMap)", "vIStruct.A", "gId", "gAdd", "gVar", "gTyped", "gPanicErr", "gPanicStr", "gPanicVal", "gErr", "gMulti", "gApply", "gApply2",
	"0", "1", "-1", "2", "1.5", `"s"`, `""`, "nil", "true", "[]", "{}", "[1, 2]", `{"k": 1}`, "vList[0]", "vMap.a", "vMod.x", "undefinedName",
	"func(){ return 1 }", "func(a...){ return a }", "9223372036854775807", "4611686018427387904", "make([]int64, 2)", "new(int64)", "*vPtr", "&vInt",
	"vStruct.A", "vStruct.C", "vStruct.P", "len(vList)", "vFunc(1)", "gId(vPtr)", "gId(vChan)",
	"vType", "vTypeSt", "[vType][0]", "make(type VT3, vList)",
	"vNMap[0]", "vNStruct.M", "vNStruct.S", "make([]map[string]int64, 1)[0]", "make([]map[int64]string, 1)[0]", "make([][]int64, 1)[0]", "gPanicV", "[0, 10, 0]", "[1, 2, 3, 4]"}

// every production of the grammar with operand holes; $A $B $C are replaced ignoring types
var c01Templates = []string{
	"$A", "($A)", "-$A", "!$A", "^$A", "&$A", "*$A", "*$A = $B", "$A + $B", "$A - $B", "$A * $B", "$A / $B", "$A % $B", "$A & $B", "$A | $B",
	"$A << $B", "$A >> $B", "$A == $B", "$A != $B", "$A < $B", "$A <= $B", "$A > $B", "$A >= $B", "$A && $B", "$A || $B", "$A ? $B : $C", "$A ?? $B",
	"$A in $B", "len($A)", "$A[$B]", "$A[$B] = $C", "$A[$B:$C]", "$A[$B:]", "$A[:$B]", "$A[$B:$C:$A]", "$A[:$B:$C]", "$A[$B:$C] = $A", "$A.x", "$A.A", "$A.x = $B", "$A.A = $B", "$A.s", "$A.size", "try { $A } catch e { e.s; e.Message }", "for k, v in $A { delete($A, k); x = [v] }", "for k, v in vMap { delete(vMap, \"a\"); delete(vMap, \"b\"); delete(vMap, \"l\"); delete(vMap, \"m\"); y = [k, v] }",
	"$A($B)", "$A($B, $C)", "$A()", "$A($B...)", "$A($B, $C...)", "$A(...)", "vFunc($A...)", "vFunc5($A...)", "vFunc5($A, $B...)", "gAdd($A...)", "gAdd($A, $B...)", "gVar($A...)", "gVar($A, $B...)",
	"gTyped($A, $B)", "gId($A)", "gAdd($A, $B)", "gVar($A, $B, $C)", "gMulti($A)", "gApply($A)", "gApply2($A, $B)", "gErr($A)", "gPanicErr($A)", "gPanicStr($A)", "gPanicVal($A)",
	"go $A($B)", "go $A()", "go $A($B...)", "go vFunc($A)", "go gId($A)", "go gPanicErr($A)", "go gPanicVal($A)", "go gApply($A)", "go func(){ $A }()", "go func(a){ a[0] }($A)",
	"go range($A...)", "go range($A, $B...)", "go gPanicV($A...)", "go gPanicV($A, $B...)", "go gVar($A...)", "go gAdd($A...)", "go vFuncV($A...)", "go keys($A...)", "go toString($A...)", "defer gPanicV($A...)", "defer range($A...)", "gPanicV($A...)",
	"defer $A($B)", "defer $A()", "defer $A($B...)", "defer gPanicErr($A)", "defer gPanicVal($A)", "defer vFunc($A)", "defer func(){ $A }()", "defer gApply($A)",
	"x = $A", "x, y = $A, $B", "x, y = $A", "x, y, z = $A", "var x = $A", "var x, y = $A, $B", "var x, y = $A", "var x =", "x =", "var = $A", "= $A", "x, = $A",
	"x = $A; x++", "x = $A; x--", "x = $A; x += $B", "x = $A; x -= $B", "x = $A; x *= $B", "x = $A; x /= $B", "x = $A; x &= $B", "x = $A; x |= $B", "$A++", "$A[$B]++", "$A.x += $B",
	"if $A { $B } else if $B { $C } else { $A }", "if $A { }", "for $A { break }", "for { $A; break }", "for x in $A { $B }", "for x in $A { y = x }; y", "for k, v in $A { $B }", "for k, v in $A { y = v }; y",
	"for x = $A; x < $B; x++ { break }", "for ; ; { $A; break }", "for ;$A; { break }", "for ;;$A { break }", "for x in $A { continue }", "for x in $A { return x }",
	"switch $A { case $B: $C }", "switch $A { case $B, $C: 1\ndefault: 2 }", "switch $A { default: $B }", "switch $A { }",
	"try { $A } catch e { $B }", "try { throw $A } catch e { e }", "try { $A } catch { $B } finally { $C }", "throw $A", "return $A", "return $A, $B", "return", "break", "continue",
	"module m { x = $A }; m.x", "module m { $A }", "func f(a, b) { return a }; f($A, $B)", "func f(a...) { return a }; f($A, $B)", "func f(a) { return f }; f($A)($B)",
	"[$A, $B]", "{$A: $B}", "{\"k\": $A}", "[]int64{$A, $B}", "[]string{$A}", "[][]int64{$A}", "map[string]int64{$A: $B}", "map[int64]string{$A: $B}", "map{$A: $B}", "[]*int64{$A}",
	"make([]int64, $A)", "make([]int64, $A, $B)", "make(chan int64, $A)", "make(map[string]int64)", "make($A)", "make($A.b)", "make(vMod.x)", "make([]$A)", "new($A)", "new(int64)", "make(struct{A $A})",
	"make(type T, $A); make(T)", "make(type T, $A); new(T)", "make(type T, $A); []T{$B}", "make(*int64)", "make([]*int64, 1)[0]", "*make([]*int64, 1)[0]", "make(chan *int64)",
	"$A <- $B", "<- $A", "x = <- $A", "x, ok = <- $A", "$A <- <- $B", "close($A)", "close($A); close($A)", "close($A); $A <- $B", "c = make(chan int64); close(c); c <- $A", "c = make(chan interface, 1); c <- $A; <- c",
	"c = make(chan *int64, 1); c <- vPSlice[0]; for x in c { y = x; break }; y", "c = make(chan *int64, 1); c <- vPSlice[0]; x = <- c; *x", "for x in vPSlice { y = x }; *y", "*vPSlice[0]", "*vPSlice[0] = $A",
	"delete($A)", "delete($A, $B)", "delete($A, true)", "delete(\"x\")", "import($A)", "$A + [nil]", "[]int64{4, 5} + $A", "$A + $B + $C", "$A * 9223372036854775807", "vStr * $A", "vStr[$A] = $B", "vStr[$A:$B]",
	"$A[$B] = $C; delete($A, $B); $A[$B]", "{$A: 1, $B: 2}", "map[interface]interface{$A: $B}", "m = {}; m[$A] = 1; m[$A]; delete(m, $A)", "x = $A in $B",
	// script goroutines sharing nothing but plain variables and modules (the environment's own locking is in play)
	"go func(){ for i = 0; i < 300; i++ { gshared = i } }(); for j = 0; j < 300; j++ { y = vMod; gshared = j; z = gshared }",
	"go func(){ for i = 0; i < 200; i++ { var t = i; gs2 = t } }(); go func(){ for i = 0; i < 200; i++ { y = vMod } }(); for j = 0; j < 200; j++ { module mm { q = j } }",
	"f = func(){ for i = 0; i < 200; i++ { gcnt = i; delete(\"gcnt\") } }; go f(); go f(); for j = 0; j < 200; j++ { gcnt = j; x = gcnt ?? 0 }",
	"keys($A)", "range($A)", "range($A, $B)", "range($A, $B, $C)", "typeOf($A)", "kindOf($A)", "toInt($A)", "toFloat($A)", "toString($A)", "toBool($A)", "toChar($A)", "toRune($A)", "toBoolSlice($A)", "toStringSlice($A)",
	"toIntSlice($A)", "toFloatSlice($A)", "toByteSlice($A)", "toRuneSlice($A)", "toDuration($A)", "defined($A)", "println()", "print()", "printf($A)", "load($A)",
	"p = new(int64); *p = $A; *p", "p = new(string); *p = $A", "p = &$A; *p = $B; *p", "x = $A; p = &x; *p", "s = make(struct{A int64}); s.A = $A; s", "s = new(struct{A []int64}); s.A = $A", "s = make([]struct{A int64}, 1); s[0].A = $A",
	"a = $A; a[0] = $B; a", "a = $A; a[len(a)] = $B", "a = $A; a += $B; a", "a = $A; a[$B] = $C; a", "m = $A; m.k = $B; m", "m = $A; m[$B] = $C; m", "a = $A; b = a[$B:$C]; b[0] = 1",
	"x = {}; x.y = x; len(x)", "x = [nil]; x[0] = x; len(x)", "f = func(){ return f }; f()()", "vFunc(vFunc)(vFunc)", "vMod.f()", "vMod.f = $A", "vMod.y = $A", "vMod = $A", "x = vMod; x.x = $A",
	"gApply(func(){ return $A })", "gApply(func(){ throw $A })", "gApply(func(){ return [1][5] })", "gApply2(func(a, b){ return $A }, $B)", "gApply2(func(a){ return a }, $A)", "gApply2($A, $B)", "gSort($A, func(a, b){ return $B })",
}

var c01SoupTokens = []string{"func", "return", "var", "throw", "if", "else", "for", "in", "new", "true", "false", "nil", "module", "try", "catch", "finally", "switch", "case", "default",
	"go", "defer", "chan", "struct", "make", "type", "len", "delete", "close", "map", "import", "break", "continue",
	"==", "!=", ">=", "<=", "||", "&&", "??", "+=", "-=", "*=", "/=", "&=", "|=", "++", "--", "<<", ">>", "<-", "= <-", "...", "+", "-", "*", "/", "%", "&", "|", "^", "!", "<", ">",
	"=", "?", ":", ";", ",", ".", "(", ")", "[", "]", "{", "}", "\n", "a", "b", "x", "y", "vList", "vMap", "vInt", "vStr", "vChan", "vFunc", "vPtr", "vStruct", "vMod", "gId", "gAdd", "int64", "string", "interface",
	"0", "1", "2", "1.5", "0x10", "0b1", "9223372036854775807", "\"s\"", "'c'", "`r`", "\"", "'", "`", "#", "//", "/*", "*/", "\\", "é", "\x00", "1e", "0x", "1..2", "@", "$",
	"1e-3000000000", "\"1e-3000000000\"", "\"12.5E-99999999999999999999\"", "1e400", "0.5", "e", "[]", "[][]", "...)", "(...)", "TFunc", "TStruct", "gStr", "gSl", "error"}

type c01Env struct {
	e *env.Env
}

// c01Stringer is a non-empty interface other than error
type c01Stringer interface{ String() string }

var c01PreludeStmt, c01TypePreludeStmt ast.Stmt

func c01RunPrelude(e *env.Env, stmt *ast.Stmt, src string) {
	if *stmt == nil {
		s, err, _ := ank.Parse(src)
		if err != nil {
			panic(fmt.Sprintf("C01 prelude does not parse: %v", err))
		}
		*stmt = s
	}
	if o := ank.RunCtx(context.Background(), e, *stmt); o.Err != nil || o.Panicked {
		panic(fmt.Sprintf("C01 prelude failed: %v %v", o.Err, o.PanicVal))
	}
}

func c01NewEnv() *env.Env { return c01NewEnvFor("") }

// c01NewEnvFor builds the environment for one script. The round-5 bindings
// (c01_r5.go) are only made when the text can name one of them (src == "" makes
// all): a binding whose name the text does not spell is unobservable for it.
func c01NewEnvFor(src string) *env.Env {
	e := ank.NewCoreEnv()
	c01RunPrelude(e, &c01PreludeStmt, c01Prelude)
	e.Define("gId", func(a interface{}) interface{} { return a })
	e.Define("gAdd", func(a, b int64) int64 { return a + b })
	e.Define("gVar", func(a interface{}, rest ...interface{}) int { return len(rest) })
	e.Define("gTyped", func(s string, f float64) string { return s })
	e.Define("gPanicErr", func(a interface{}) interface{} { panic(errors.New("host error")) })
	e.Define("gPanicStr", func(a interface{}) interface{} { panic("host string panic") })
	e.Define("gPanicVal", func(a interface{}) interface{} { panic(struct{ X int }{42}) })
	e.Define("gPanicV", func(rest ...interface{}) interface{} { panic(fmt.Errorf("host variadic panic %d", len(rest))) })
	e.Define("gErr", func(a interface{}) (interface{}, error) { return a, errors.New("host failure") })
	e.Define("gMulti", func(a interface{}) (interface{}, int64, string) { return a, 2, "three" })
	e.Define("gApply", func(f func() interface{}) interface{} { return f() })
	e.Define("gApply2", func(f func(int64, string) (int64, error), n int64) (int64, error) { return f(n, "s") })
	e.Define("gSort", func(l []interface{}, less func(a, b interface{}) bool) []interface{} {
		if len(l) >= 2 {
			less(l[0], l[1])
		}
		return l
	})
	// Go functions whose result type is an interface with methods, returning nil or a number
	e.Define("gNilErr", func() error { return nil })
	e.Define("gErrOnly", func(a interface{}) error {
		if a == nil {
			return nil
		}
		return errors.New("host failure")
	})
	e.Define("gNilStr", func() c01Stringer { return nil })
	e.Define("gStr", func() c01Stringer { return 90 * time.Nanosecond })
	// Go functions over typed slices, maps, pointers, channels, functions, and their nil results
	e.Define("gSl", func(a []int64) int { return len(a) })
	e.Define("gMp", func(m map[string]int64) int { return len(m) })
	e.Define("gPt", func(p *int64) *int64 { return p })
	e.Define("gCh", func(ch chan int64) chan int64 { return ch })
	e.Define("gVarT", func(a ...int64) int { return len(a) })
	e.Define("gNilMap", func() map[string]int64 { return nil })
	e.Define("gNilSl", func() []int64 { return nil })
	e.Define("gNilPtr", func() *int64 { return nil })
	e.Define("gNilFn", func() func(int64) int64 { return nil })
	e.Define("gNilCh", func() chan int64 { return nil })
	e.Define("gFnRet", func() func(int64) int64 { return func(a int64) int64 { return a } })
	e.Define("gCb", func(f func(a []int64, m map[string]int64) []string) []string { return f([]int64{1}, nil) })
	e.Define("gCbV", func(f func(a ...int64) int64) int64 { return f(1, 2) })
	c01DefineR4(e)
	c01RunPrelude(e, &c01TypePreludeStmt, c01TypePrelude)
	if src == "" || c01NamesR5.MatchString(src) {
		c01DefineR5(e)
	}
	return e
}

// c01Fill fills the holes of a template (see c01Hole); generated operands can
// have holes of their own, which the next pass fills (from the table beyond depth 2)
func c01Fill(r *rand.Rand, tpl string) string {
	for depth := 0; depth < 5 && strings.Contains(tpl, "$"); depth++ {
		tpl = c01HoleRe.ReplaceAllStringFunc(tpl, func(h string) string { return c01Hole(r, h, depth) })
	}
	return c01HoleRe.ReplaceAllString(tpl, "nil")
}

func c01Soup(r *rand.Rand) string {
	n := 1 + r.Intn(25)
	var b strings.Builder
	for i := 0; i < n; i++ {
		b.WriteString(c01SoupTokens[r.Intn(len(c01SoupTokens))])
		if r.Intn(4) != 0 {
			b.WriteByte(' ')
		}
	}
	return b.String()
}

func c01Mutate(r *rand.Rand, src string) string {
	if src == "" {
		return src
	}
	bs := []byte(src)
	switch r.Intn(7) {
	case 0: // truncate
		return string(bs[:r.Intn(len(bs)+1)])
	case 1: // delete a span
		i := r.Intn(len(bs))
		j := i + r.Intn(8)
		if j > len(bs) {
			j = len(bs)
		}
		return string(bs[:i]) + string(bs[j:])
	case 2: // duplicate a span
		i := r.Intn(len(bs))
		j := i + r.Intn(12)
		if j > len(bs) {
			j = len(bs)
		}
		return string(bs[:j]) + string(bs[i:j]) + string(bs[j:])
	case 3: // insert a token
		i := r.Intn(len(bs) + 1)
		return string(bs[:i]) + " " + c01SoupTokens[r.Intn(len(c01SoupTokens))] + " " + string(bs[i:])
	case 4: // replace an identifier-ish word by an operand
		words := strings.Fields(src)
		if len(words) == 0 {
			return src
		}
		w := words[r.Intn(len(words))]
		return strings.Replace(src, w, c01Fill(r, "$A"), 1)
	case 5: // splice with a template
		i := r.Intn(len(bs) + 1)
		return string(bs[:i]) + "\n" + c01Fill(r, c01Templates[r.Intn(len(c01Templates))]) + "\n" + string(bs[i:])
	default: // swap two bytes
		i, j := r.Intn(len(bs)), r.Intn(len(bs))
		bs[i], bs[j] = bs[j], bs[i]
		return string(bs)
	}
}

// c01Fixed are the inputs of every crash seen on the pinned tree (all must stay silent once repaired).
var c01Fixed = []string{
	"var a =", "x = 1; *x = 2", "m = {\"a\": 1, \"b\": 2}; for k, v in m { delete(m, \"a\"); delete(m, \"b\"); x = [v] }", "x = &nil; *x = 5; nil",
	"m = {}; x = &m[\"missing\"]; *x = 5; m.other", "try { break } catch e { e.s }", "try { throw 1 } catch e { [e.Message, e.Pos, e.message] }", "make(type X, 1).size", "t = make(type X, vStruct); t.str", "a = [[1, 2]]; m = {}; m[a[0]] = 1", "a = [[1, 2]]; {a[0]: 1}", "a = [{}]; m = {}; delete(m, a[0])", "a = [[1]]; m = {}; m[a[0]]", "a = <", "a, ok = <", "vFunc(...)", "f = func(a){ return a }; f(...)", "gAdd([1, \"a\"]...)", "gAdd([1, 2]...)", "[]int64{4, 5} + [nil]",
	"t = make(type T, 1); *t = *t", "t = make(type T, 1); u = make(type U, \"s\"); *t = *u", "t = make(type T, 1); x = *t; x", "p = new(int64); *p = \"s\"", "a = make([]*int64, 1); for x in a { y = x }; y", "a = make([]*int64, 1); *a[0]",
	"c = make(chan *int64, 1); c <- make([]*int64, 1)[0]; for x in c { y = x; break }; y", "\"s\" * 9223372036854775807", "a = 1; make(a.b)", "a = {\"b\": 1}; make(a.b)",
	"go gPanicErr(1)", "go gPanicVal(1)", "go func(){ [1][5] }()", "go func(a){ a[0] }(1)", "go vFunc5(1)", "go gAdd(1)", "go gApply(func(){ throw 1 })", "go gAdd(vList...)", "a = []; go range(a...)", "go range([0, 10, 0]...)", "go gPanicV([1]...)", "go gPanicV(1, [2]...)", "defer gPanicV([1]...)",
	"vNMap[0].x = 1", "vNMap[0].x = \"s\"", "vNStruct.M.k = 1.5", "make([]map[string]int64, 1)[0].k = \"s\"", "vNMap[0][\"x\"] = 1", "vNStruct.S[0] = 1",
	"defer gPanicVal(1)", "gApply(func(){ throw 1 })", "gApply2(func(a, b){ return \"x\" }, 1)", "gApply2(func(a){ return a }, 1)", "x = 1; x.y.z = 2", "nil.x", "nil[0]", "nil()", "*nil", "<- nil", "nil <- 1",
	"close(nil)", "for x in nil { }", "delete(nil, 1)", "len(nil)", "make(chan int64, -1)", "make([]int64, -1)", "make([]int64, 1, 0)", "make([]int64, 4611686018427387904)", "make([]int64, 9223372036854775807)",
	"vStr * 4611686018427387904", "vList[vMax]", "vList[vBig:vMax]", "vTSlice[vNeg:]", "vMap[vList]", "vMap[vMap] = 1", "delete(vMap, vList)", "{vList: 1}", "map[string]int64{vList: 1}",
	"vStruct.A = \"s\"", "vStruct.Z", "vStruct.Z = 1", "vPStruct.A = vList", "vTSlice[0] = \"s\"", "vTSlice[5] = 1", "vTMap.k = \"s\"", "vChan <- \"s\"", "vPtr.x", "*vPtr = vList", "*vPStruct = 1", "x = &vInt; *x = \"s\"",
	"make(type T, vStruct); []T{vStruct, 1}", "make(type T, vMod); []T{vPSlice[0]}", "make(type T, &vInt); []T{vPSlice[0]}", "make(type T, &vInt); []T{vStruct.P}", "vStr + vPSlice[0] + []", "toIntSlice(1)", "keys(1)", "range()", "range(1, 2, 0)", "range(1, 2, 3, 4)", "toChar(vList)", "toRune(1)", "import(1)", "import(\"nope\")", "load(\"/nonexistent\")", "printf(1)",
}

func init() {
	wk.Register(&wk.Engine{
		ID: "C01",
		Plan: func(tier string) fw.Plan {
			n := 800
			if tier == "thorough" {
				n = 60000
			}
			return fw.Plan{
				Level:            "exploration",
				CrashIsViolation: true,
				Rule:             "each case runs 70 scripts through vm.ExecuteContext (debug=false) in an environment holding one value of every constructible kind, types defined with make(type ...) (of numbers, strings, lists, maps, functions, structs, channels, pointers, durations, error), plus Go functions over such values (identity, typed scalars/slices/maps/pointers/channels/functions, variadic, multi-result, error-returning incl. a nil error or nil non-empty interface as the single result, nil map/slice/pointer/function/channel results, panicking with error/string/arbitrary value, callbacks): 15% token soup from the lexer's alphabet, 45% grammar-wild templates (every production with operands chosen ignoring types, degenerate forms; 14% of the operands are generated: function literals of every parameter-list shape incl. variadic without a named parameter and duplicate names, numerals as source literals and as strings with fractions, exponents of every magnitude up to beyond the int32/int64 range and digit strings of up to 400 digits, typed literals/make/new over random type expressions nested three deep - slice/map/chan/pointer/struct/defined/dotted/undefined names, including map keys reflect cannot hash and struct fields that are lower-case or duplicated; dedicated templates put function literals, numerals and types in every position they can be written, compare/convert/index with numerals, use the zero value of the type of any value, and call Go methods through member syntax), 30% mutations of the repository's own scripts, 10% mutated generated programs; case 0 replays every input that crashed the pinned tree plus one representative of each generated class. The environment also holds unsigned numbers of every width (elements of []uint64/[]uint32/[]uint/[]byte built by the script, bytes of toByteSlice, make(uint..); host-bound uint/uint8/uint16/uint32/uint64/uintptr/int8/int16/float32 numbers, []byte, []uint16), strings with multi-byte characters and a host-bound string that is not valid UTF-8; templates put them under every operator, in every position a number / a string is used, with indices at and next to the byte-length and character-count boundaries; compound assignments to entries of nil typed maps reached through containers; function literals with up to hundreds of parameters. Phase goroutines: the in-process scripts, plus per case one storm in a FRESH child process (every construct shape is new to it): 4..16 goroutines started by go wait on one channel, are released together by close() and each evaluate 40..100 constructs of distinct shapes (function literals/declarations with 0..90 parameters, variadic or not, called or not, nested in modules and lists; struct/map/chan/slice/defined types), or - one storm in four - bind a module to names while the other half assign plain variables of the scopes above it; the workers share nothing but the two channels. Phase cross (exhaustive): every unsigned operand x every binary operator x every partner (all unsigned ones, every other number kind, one value of each other kind) in both orders; the ordering operators in every position an expression is evaluated from (top level, go/defer arguments, conditions, function bodies, literals); unary/increment/compound-assignment/conversion/index/size uses of every unsigned operand; and for each of 12 strings (9 with multi-byte characters, an ASCII one and the empty one for comparison, 1 host-bound that is not valid UTF-8) every index from -1 to len(s)+1 (as a literal and computed from the script's own len) in every read, slice (all neighbouring bounds), store, increment and loop form. Monitor: recover() around the call (a Go panic reaching the caller), the parent's classifier over a worker death (panic in a script goroutine, fatal error), and for every returned value a goroutine that keeps it - and up to 7 nil interface values reachable in it - in local variables while its stack is moved, so that a corrupted value ends the worker with the runtime's 'invalid pointer found on stack' while its input is in flight. Non-trivial = the script parsed; distinct = distinct source text." + c01RuleR5 + c01RuleR6 + c01RuleR10,
				Assumptions: append([]string{"stack/memory exhaustion and concurrent map access between script goroutines are classified from the runtime's fatal-error text and excluded, as the statement says",
					"allocation sizes between 10^4 and 2^48 and range() over huge spans are never generated (they would exhaust memory, which is outside the guarantee)",
					"the packages tables the repository bundles are emptied in this worker: import() cannot reach os.Exit/exec/sockets; the one package it can reach is registered by the engine (c01_r6.go)",
					"numerals that the VM would take as a size or repeat count (integer numerals also inside strings, float literals) are generated below 10^4 or beyond the int64 range only; in scripts that mention range() exponents and long digit runs are stripped",
					"environment class: Go arrays, Go functions with array parameters and Go structs with embedded pointers are not bound - a script cannot construct such values (no array type or embedded field can be written), so they are outside the stated class of environments",
					"pending repairs of the pinned tree (c01PendingFix_* constants, /tmp/strengthen/C01-genuine.md): nil module pointers (zero value of a type defined from a module), and nil values of a non-empty interface type sent into channels / stored into maps (such values are confined to templates that do neither) are kept out of the generated domain until /repo is repaired",
					"storm children: a child that dies with 'fatal error: concurrent map ...' is a violation whatever frames it died in, because the storm's goroutines share no script container by construction (every name they assign is a parameter or a var of their own; the scope storm shares only plain variables and a module); stack/memory exhaustion of a child is excluded; a child that is killed by the 120 s watchdog or dies without a Go fault report is inconclusive. Whether two goroutines really overlap is up to the scheduler: a silent storm proves nothing about that schedule, a dead child is a counterexample",
					"host-bound unsigned values that could become a size or a repeat count are below 10^4 or beyond the int64 range",
					"pending repairs of the pinned tree (c01PendingFix_* constants in c01_r4.go, /tmp/strengthen/C01-r4-genuine.md): NaN keys in compound assignments to entries of nil typed maps, and function literals with more than 100 parameters (126 is where reflect.FuncOf panics; mutations may add a few) are kept out of the generated domain until /repo is repaired",
					"the moved-stack observation needs the runtime to start the observing goroutine with a stack smaller than 192KB (the default); otherwise it learns nothing and stays silent"}, append(c01AssumptionsR5, append(c01AssumptionsR6, c01AssumptionsR10...)...)...),
				Phases: append([]fw.Phase{{Name: "fuzz", Cases: n, Chunk: 25, TimeoutS: 600, MemMB: 6144},
					{Name: "goroutines", Cases: n / 10, Chunk: 5, TimeoutS: 600, MemMB: 6144},
					{Name: "cross", Cases: c01CrossSlices, Chunk: 2, TimeoutS: 600, MemMB: 6144, Exhaust: true}}, append(c01PhasesR8(tier), c01PhasesR10(tier)...)...),
			}
		},
		Init: func(w *wk.Worker) {
			debug.SetMaxStack(64 << 20)
			// other engines link the bundled packages into this binary; this
			// workload must not reach os.Exit, exec, files or sockets through import()
			for k := range env.Packages {
				delete(env.Packages, k)
			}
			for k := range env.PackageTypes {
				delete(env.PackageTypes, k)
			}
			c01RegisterPkg() // the host's own package (c01_r6.go)
		},
		Run: func(c *wk.Case) {
			if c.Phase == "cross" {
				c01RunCross(c)
				return
			}
			if c01RunR8(c) || c01RunR10(c) {
				return
			}
			if c.Phase == "goroutines" {
				// fresh processes in which script goroutines, released together, evaluate
				// constructs of many shapes for the first time (see c01_r4.go)
				for rep := 0; rep < c01StormsPerCase; rep++ {
					c01RunStorm(c)
				}
				// script goroutines that share nothing but plain variables and modules
				// (never a script container): only the interpreter's own state is contended
				for rep := 0; rep < 6; rep++ {
					n1, n2 := 100+c.Rng.Intn(400), 100+c.Rng.Intn(400)
					tpl := c01GoroutineScripts[c.Rng.Intn(len(c01GoroutineScripts))]
					src := strings.ReplaceAll(strings.ReplaceAll(tpl, "$N", fmt.Sprint(n1)), "$M", fmt.Sprint(n2))
					old := runtime.GOMAXPROCS([]int{2, 4, 16}[c.Rng.Intn(3)])
					c01RunOne(c, src, 3*time.Second)
					runtime.GOMAXPROCS(old)
				}
				// round 6 (drawn last): a container or import storm in a fresh child, and
				// the in-process import scripts
				c01RunStormR6(c)
				c01RunGoroutinesR6(c)
				return
			}
			cor := corpus.Scripts()
			var scripts []string
			if c.Index == 0 {
				scripts = append(append([]string{}, c01Fixed...), c01FixedNested()...)
			} else {
				scripts = c01GenScripts(c, cor)
			}
			for _, src := range scripts {
				if len(src) > 20000 {
					continue
				}
				c01RunOne(c, src, 150*time.Millisecond)
			}
		},
	})
}

// c01GenScripts draws the scripts of one fuzz case (also used by the round-8 phases).
func c01GenScripts(c *wk.Case, cor []string) []string {
	var scripts []string
	for i := 0; i < 70; i++ {
		switch r := c.Rng.Intn(100); {
		case r < 15:
			scripts = append(scripts, c01Soup(c.Rng))
		case r < 60:
			s := c01Fill(c.Rng, c01Templates[c.Rng.Intn(len(c01Templates))])
			if c.Rng.Intn(4) == 0 {
				s += "\n" + c01Fill(c.Rng, c01Templates[c.Rng.Intn(len(c01Templates))])
			}
			scripts = append(scripts, s)
		case r < 90:
			s := cor[c.Rng.Intn(len(cor))]
			for k := 1 + c.Rng.Intn(3); k > 0; k-- {
				s = c01Mutate(c.Rng, s)
			}
			scripts = append(scripts, s)
		default:
			g := gen.New(c.Rng, gen.Profile(c.Rng.Intn(3)))
			var s string
			if c.Rng.Intn(2) == 0 {
				s = gen.Source(g.OrderProgram())
			} else {
				s = gen.Source(g.Program(40))
			}
			scripts = append(scripts, c01Mutate(c.Rng, s))
		}
	}
	// a random template as the body of a top-level loop whose variable takes
	// operands of different types (drawn last: the scripts above are the ones
	// earlier versions generated)
	for i := 0; i < 6; i++ {
		scripts = append(scripts, c01PolyScript(c.Rng))
	}
	// go statements executed inside function bodies, goroutines, deferred
	// functions, callbacks (c01_r6.go; drawn after everything else)
	for i := 0; i < 6; i++ {
		scripts = append(scripts, c01NestedScript(c.Rng))
	}
	return scripts
}

// range() over an astronomically large span would exhaust memory inside one
// host call, which is outside the guarantee: such operands are made small
func c01Contain(src string) string {
	if strings.Contains(src, "range") {
		for _, big := range []string{"vBig", "vMax", "9223372036854775807", "4611686018427387904"} {
			src = strings.ReplaceAll(src, big, "vInt")
		}
		src = c01ContainNumerals(src)
	}
	return src
}

var c01GoroutineScripts = []string{
	"go func(){ for i = 0; i < $N; i++ { gshared = i } }()\nfor j = 0; j < $M; j++ { y = vMod; gshared = j; z = gshared }",
	"go func(){ for i = 0; i < $N; i++ { var t = i; gs2 = t } }()\ngo func(){ for i = 0; i < $N; i++ { y = vMod } }()\nfor j = 0; j < $M; j++ { module mm { q = j } }",
	"f = func(){ for i = 0; i < $N; i++ { gcnt = i; delete(\"gcnt\") } }\ngo f()\ngo f()\nfor j = 0; j < $M; j++ { gcnt = j; x = gcnt ?? 0 }",
	"done = make(chan int64, 4)\nw = func(id){ for i = 0; i < $N; i++ { v = id * i; s = \"x\" + i; w2 = vMod.x }; done <- id }\ngo w(1)\ngo w(2)\ngo w(3)\nfor j = 0; j < $M; j++ { x = vMod; make(type T, j) }\n<- done\n<- done\n<- done",
	"go func(){ for i = 0; i < $N; i++ { func tmp(){ return i }; tmp() } }()\nfor j = 0; j < $M; j++ { func tmp2(a){ return a }; tmp2(j); y = vMod }",
	"module m1 { a = 1; func f(){ return a } }\ngo func(){ for i = 0; i < $N; i++ { m1.a = i } }()\nfor j = 0; j < $M; j++ { c = m1; c.f(); m1.f() }",
}

func c01RunOne(c *wk.Case, src string, watchdog time.Duration) (outcome string) {
	src = c01Contain(src)
	e := c01NewEnvFor(src)
	base := runtime.NumGoroutine()
	ctx, cancel := context.WithTimeout(context.Background(), watchdog)
	c.Begin(src)
	_, perr, po := ank.Parse(src)
	var o ank.Out
	if po.Panicked {
		o = po
	} else {
		o = ank.ExecCtx(ctx, e, src)
	}
	cancel()
	// let script goroutines of this case finish or see the cancellation, so that a
	// panic on one of them is attributed to this input
	for i := 0; i < 400 && runtime.NumGoroutine() > base; i++ {
		if i < 20 {
			runtime.Gosched()
		} else {
			time.Sleep(500 * time.Microsecond)
		}
	}
	c.Eval(src, perr == nil)
	c.Events(1)
	switch {
	case o.Panicked:
		outcome = "panic"
		c.Tag("outcome:panic")
		c.Violation(o.PanicSig, "a Go panic reached the caller: "+o.PanicVal+"\n"+firstLinesOf(o.Stack, 14), src)
	case perr != nil:
		outcome = "parse-error"
		c.Tag("outcome:parse-error")
	case o.Err != nil && o.Err.Error() == "execution interrupted":
		outcome = "interrupted"
		c.Tag("outcome:interrupted")
	case o.Err != nil:
		outcome = "run-error"
		c.Tag("outcome:run-error")
	default:
		outcome = "value"
		c.Tag("outcome:value")
		_ = ank.Render(o.Val) // the bounded printer must cope with whatever came back
		c01HoldResult(o.Val)  // and the host can keep it while its stack moves
	}
	if c.WantSample() && perr == nil {
		c.Sample(map[string]string{"src": src, "err": ank.ErrText(o.Err)})
	}
	return outcome
}

func firstLinesOf(s string, n int) string {
	lines := strings.Split(s, "\n")
	if len(lines) > n {
		lines = lines[:n]
	}
	return strings.Join(lines, "\n")
}
