package main

// C15 — type expressions as parser input.
//
// The grammar has a sub-language of its own for types (type_data: IDENT | type_data '.' IDENT |
// '*' type_data | slice_count type_data | MAP '[' type_data ']' type_data | CHAN type_data |
// STRUCT '{' fields '}'), reachable from new(), make(), typed array literals and typed map literals.
// Its grammar actions build and rewrite *ast.TypeStruct values and report errors of their own
// ("not type default"), i.e. they are code that runs on the parser's value stack for every such input.
// This file generates type expressions of every shape — every type form applied to every type form,
// a dotted path after every form, in every place of the grammar that takes a type — well-formed and
// ill-formed, and feeds them to the monitors of c15.go. No oracle of its own: the statement's
// "ParseSrc terminates and returns either a tree with a nil error or an error of the parser's error
// type [with a position inside the input]", "the same text always yields the same tree" and the
// concatenation clause are applied as they are (c15Check, c15Recheck, c15Compose). Whether a given
// type expression is accepted or rejected is not judged (the statement is silent about it).

import (
	"strings"

	"verifharness/internal/wk"
)

// ---- deterministic enumeration (families of phase "scan") ----

var c15TypeLeaves = []string{"int64", "a.b"}

// c15TypeWrap: every production of type_data that takes a type, applied to t (map: on either side;
// struct: single-line and multi-line field list; '.' IDENT: after whatever form t is).
func c15TypeWrap(t string) []string {
	return []string{
		"*" + t,
		"[]" + t,
		"[][]" + t,
		"chan " + t,
		"map[string]" + t,
		"map[" + t + "]bool",
		"struct{ A " + t + " }",
		"struct{\nA int64,\nB " + t + "\n}",
		t + ".B",
	}
}

// c15TypeLevel returns the type expressions of nesting depth exactly d over the given leaves.
func c15TypeLevel(leaves []string, d int) []string {
	cur := leaves
	for ; d > 0; d-- {
		var next []string
		for _, t := range cur {
			next = append(next, c15TypeWrap(t)...)
		}
		cur = next
	}
	return cur
}

// c15TypesUpTo returns all type expressions of depth 0..d.
func c15TypesUpTo(d int) []string {
	var out []string
	for k := 0; k <= d; k++ {
		out = append(out, c15TypeLevel(c15TypeLeaves, k)...)
	}
	return out
}

func c15InContexts(types []string, ctx ...string) func() []string {
	return func() []string {
		out := make([]string, 0, len(types)*len(ctx))
		for _, t := range types {
			for _, cx := range ctx {
				out = append(out, strings.ReplaceAll(cx, "%s", t))
			}
		}
		return out
	}
}

// tokens inserted into / substituted in a type expression to make it ill-formed (or another type)
var c15TypeJunk = []string{".", ".B", ". B", "..", "*", "[]", "[", "]", "[1]", "chan ", "struct", "struct{}", "map", "map[", "{", "}", ",", "\n", "(", ")", "1", `"s"`, "type ", "new", "make(", "func()", "interface{}", "...", "<-", ";", "=", ":", "#"}

// c15TypeMutants: every single-token deletion and duplication of t, and every junk token inserted at
// every token boundary (rotating through the junk list so that the family stays a few thousand texts).
func c15TypeMutants(t string, rot *int) []string {
	toks := c15Split(t)
	var out []string
	join := func(a []string) string { return strings.Join(a, "") }
	for i := range toks {
		if strings.TrimSpace(toks[i]) == "" {
			continue
		}
		out = append(out, join(append(append([]string{}, toks[:i]...), toks[i+1:]...)))
		out = append(out, join(append(append([]string{}, toks[:i+1]...), toks[i:]...)))
	}
	for i := 0; i <= len(toks); i++ {
		for k := 0; k < 3; k++ {
			j := c15TypeJunk[*rot%len(c15TypeJunk)]
			*rot++
			out = append(out, join(toks[:i])+j+join(toks[i:]))
		}
	}
	return out
}

func c15TypeFamilies() []c15Family {
	return []c15Family{
		{"types-new", c15InContexts(c15TypesUpTo(3), "a = new(%s)")},
		{"types-make", c15InContexts(c15TypesUpTo(3), "a = make(%s)")},
		{"types-make-depth4", c15InContexts(c15TypeLevel([]string{"int64"}, 4), "a = make(%s)")},
		{"types-make-len-cap", c15InContexts(c15TypesUpTo(2), "a = make(%s, 2)", "a = make(%s, 2, 4)", "a = make(chan %s, 2)", "x = 1\na = make([]%s,\n 0, n)\n$")},
		{"types-literals", c15InContexts(c15TypesUpTo(2), "x = 1\nb = []%s{}\n", "b = [][]%s{1, 2}", "b = []%s{\n1,\n}", "m = map[string]%s{}", "m = map[%s]int64{\"k\": 1}", "m = map[%s]%s{\n\"k\": nil,\n}")},
		{"types-nested-uses", c15InContexts(c15TypesUpTo(2), "make(type T, make(%s))", "make(type T, new(%s))", "make(type %s, 1)", "f(new(%s), make(%s, 1))", "a = make(struct{ F %s, G %s })", "a = make(struct{ F %s }.G)", "a = make(struct{ F %s }.G.H)",
			"a = new(%s).f", "a = make(%s)[0]", "if new(%s) == nil { b = make(%s) }", "return new(%s), make(%s)", "a = func() { return make(%s) }()", "c <- make(%s)", "a = [make(%s), new(%s)]")},
		{"types-illformed", func() []string {
			var out []string
			rot := 0
			for i, t := range c15TypesUpTo(2) {
				cx := []string{"a = make(%s)", "a = new(%s)", "a = make(%s, 2)", "b = []%s{}", "m = map[string]%s{}", "x = 1\na = make(%s)\ny"}[i%6]
				for _, m := range c15TypeMutants(t, &rot) {
					out = append(out, strings.ReplaceAll(cx, "%s", m))
				}
			}
			return out
		}},
		{"types-truncated", func() []string {
			// end of input at every offset inside a use of a type
			var out []string
			for i, t := range c15TypesUpTo(2) {
				s := strings.ReplaceAll([]string{"a = make(%s, 2)", "a = new(%s)", "b = []%s{1}", "m = map[%s]%s{}"}[i%4], "%s", t)
				for k := 4; k < len(s); k++ {
					out = append(out, s[:k])
				}
			}
			return out
		}},
	}
}

// ---- PRNG generator (phase "types") ----

type c15TG struct{ c *wk.Case }

func (t *c15TG) n(k int) int { return t.c.Rng.Intn(k) }
func (t *c15TG) sp() string  { return []string{"", "", "", " ", "  ", "\t"}[t.n(6)] }
func (t *c15TG) onl() string { return []string{"", "", "", " ", "\n", "\n\t", "\n\n"}[t.n(7)] }
func (t *c15TG) name() string {
	return []string{"int64", "string", "float64", "bool", "interface", "T", "a", "é", "_t", "B", "error", "byte", "rune"}[t.n(13)]
}

// typ renders a type expression of nesting depth <= d; a dotted path may follow EVERY form.
func (t *c15TG) typ(d int) string {
	var s string
	switch r := t.n(16); {
	case d <= 0 || r < 3:
		s = t.name()
	case r == 3:
		s = []string{"a.b", "a.b.c", "time.Duration", "a . b", "é.T"}[t.n(5)]
	case r == 4 || r == 5:
		s = "*" + t.sp() + t.typ(d-1)
	case r == 6 || r == 7:
		s = strings.Repeat("["+t.sp()+"]", 1+t.n(3)) + t.sp() + t.typ(d-1)
	case r == 8:
		s = "map" + t.sp() + "[" + t.typ(d-1) + "]" + t.sp() + t.typ(d-1)
	case r == 9 || r == 10:
		s = "chan " + t.sp() + t.typ(d-1)
	default:
		s = "struct" + t.sp() + "{" + t.onl()
		k := 1 + t.n(3)
		for i := 0; i < k; i++ {
			if i > 0 {
				s += "," + t.onl()
			}
			s += []string{"A", "B", "C", "f", "é"}[t.n(5)] + " " + t.typ(d-1)
		}
		s += t.onl() + "}"
	}
	for t.n(4) == 0 {
		s += t.sp() + "." + t.sp() + t.name()
	}
	return s
}

// mutate makes a type expression ill-formed (or turns it into another type): 1-2 token edits.
func (t *c15TG) mutate(s string) (string, string) {
	name := ""
	for k := 1 + t.n(2); k > 0; k-- {
		toks := c15Split(s)
		if len(toks) == 0 {
			toks = []string{""}
		}
		i := t.n(len(toks))
		var m string
		switch t.n(6) {
		case 0:
			m = "delete"
			toks = append(toks[:i:i], toks[i+1:]...)
		case 1:
			m = "duplicate"
			toks = append(toks[:i+1:i+1], toks[i:]...)
		case 2:
			m = "swap"
			j := t.n(len(toks))
			toks[i], toks[j] = toks[j], toks[i]
		case 3:
			m = "replace"
			toks[i] = c15TypeJunk[t.n(len(c15TypeJunk))]
		case 4:
			m = "truncate"
			toks = toks[:i]
		default:
			m = "insert"
			toks = append(toks[:i:i], append([]string{c15TypeJunk[t.n(len(c15TypeJunk))]}, toks[i:]...)...)
		}
		if name == "" {
			name = m
		}
		s = strings.Join(toks, "")
	}
	return s, name
}

// slot renders one type for a use site: well-formed (2 of 3) or mutated.
func (t *c15TG) slot(d int, mut *string) string {
	s := t.typ(d)
	if t.n(3) == 0 {
		var m string
		s, m = t.mutate(s)
		if *mut == "" {
			*mut = m
		}
	}
	return s
}

func (t *c15TG) atom() string {
	return []string{"1", "n", "0", "len(a)", `"k"`, "nil", "x.y", "[]", "{}", "-1", "f()"}[t.n(11)]
}

// use renders an expression that contains a type: every place of the grammar that takes one.
func (t *c15TG) use(d int, mut *string) string {
	td := 1 + t.n(4)
	sub := func() string { // an operand that may itself be a use of a type
		if d > 0 && t.n(3) == 0 {
			return t.use(d-1, mut)
		}
		return t.atom()
	}
	k := t.n(14)
	if d <= 0 && (k == 6 || k >= 12) { // recursion ends here
		k = t.n(6)
	}
	switch k {
	case 0, 1:
		return "new(" + t.sp() + t.slot(td, mut) + t.sp() + ")"
	case 2, 3:
		return "make(" + t.sp() + t.slot(td, mut) + t.sp() + ")"
	case 4:
		return "make(" + t.slot(td, mut) + "," + t.sp() + sub() + ")"
	case 5:
		return "make(" + t.slot(td, mut) + ", " + sub() + "," + t.onl() + sub() + ")"
	case 6:
		return "make(type " + []string{"T", "a", t.slot(1, mut)}[t.n(3)] + ", " + t.use(d-1, mut) + ")"
	case 7:
		return strings.Repeat("[]", 1+t.n(2)) + t.slot(td, mut) + "{" + t.onl() + []string{"", "1", "1, 2", "1,\n2,\n", sub()}[t.n(5)] + t.onl() + "}"
	case 8:
		return "map[" + t.slot(td, mut) + "]" + t.slot(td, mut) + "{" + t.onl() + []string{"", `"k": 1`, "1: " + sub() + ",\n"}[t.n(3)] + "}"
	case 9:
		// the element type written as a use site of its own: pointer, slice, channel, path of the slot
		return "make(" + []string{"*", "[]", "[][]", "chan ", "map[string]", "map[string]*", "[]*", "chan []"}[t.n(8)] + t.slot(td, mut) + []string{"", "", ".C", ".C.D"}[t.n(4)] + []string{"", ", 2"}[t.n(2)] + ")"
	case 10:
		return "new(" + []string{"*", "[]", "chan ", "map[string]"}[t.n(4)] + t.slot(td, mut) + []string{"", ".C"}[t.n(2)] + ")"
	case 11:
		return "make(struct{ F " + t.slot(td, mut) + "," + t.onl() + "G " + t.slot(td, mut) + t.onl() + "}" + []string{"", ".H", ".H.I"}[t.n(3)] + ")"
	case 12:
		return "(" + t.use(d-1, mut) + ")" + []string{".f", "[0]", "()", "[1:]", " == nil", " + 1"}[t.n(6)]
	default:
		return "f(" + t.use(d-1, mut) + ", " + sub() + ")"
	}
}

// c15TypeText renders a text of 1-3 lines-or-more around one statement that uses types.
func c15TypeText(c *wk.Case) (string, string) {
	t := &c15TG{c}
	mut := ""
	x := t.use(1+t.n(2), &mut)
	var s string
	switch t.n(14) {
	case 0, 1, 2, 3:
		s = "a = " + x
	case 4:
		s = x
	case 5:
		s = "var a, b = " + x + ", " + t.use(0, &mut)
	case 6:
		s = "return " + x
	case 7:
		s = "a = func() {\n\treturn " + x + "\n}"
	case 8:
		s = "if " + x + " == nil {\n\tb = " + t.use(0, &mut) + "\n}"
	case 9:
		s = "for i in " + x + " {\n}"
	case 10:
		s = "m = {\n\"k\": " + x + ",\n}"
	case 11:
		s = "c <- " + x
	case 12:
		s = "switch " + x + " {\ncase " + t.use(0, &mut) + ":\n\tbreak\n}"
	default:
		s = "go f(" + x + ")"
	}
	if t.n(3) == 0 {
		s = []string{"x = 1\n", "# c\n\n", "x = 1; ", "/* c\n */ ", "é = `r\nw`\n", "func f() {\n}\n"}[t.n(6)] + s
	}
	if t.n(3) == 0 {
		s += []string{"\n", "\ny = 2", "; y", "\n$", " # c", "\n\n", "\r\n"}[t.n(7)]
	}
	if mut == "" {
		return s, "types:well-formed"
	}
	return s, "types:mut-" + mut
}

// c15RunTypes: 100 texts with uses of types; all monitors of c15Check; the texts that parse are also
// composed pairwise (a type must be rebuilt identically when the same text is the tail of a longer one)
// and some are parsed again at the end of the case.
func c15RunTypes(c *wk.Case) {
	var keep, valid []c15Kept
	for k := 0; k < 100; k++ {
		src, gen := c15TypeText(c)
		r := c15Check(c, gen, src)
		if k%10 == 0 {
			keep = append(keep, c15Kept{gen, src, r})
		}
		if r.ok && len(valid) < 12 {
			valid = append(valid, c15Kept{gen, src, r})
		}
	}
	for i := 0; i+1 < len(valid); i += 2 {
		c15Compose(c, "pair:types+types", valid[i].src, valid[i+1].src, valid[i].r, valid[i+1].r)
		c15Compose(c, "pair:types+types", valid[i+1].src, valid[i].src, valid[i+1].r, valid[i].r)
	}
	for _, k := range keep {
		c15Recheck(c, k.gen, k.src, k.r)
	}
}
