package main

// C11, additional phases.
//
//   named    Go values of NAMED types of every basic kind (string, the integer
//            and float kinds, bool, named slices / maps / structs, plus
//            json.Number and time.Duration from the standard library), most
//            of them with a value- and a pointer-receiver method, are put into
//            every kind of Go location a script can reach (field of a struct
//            behind a pointer, element of a typed slice or array, map value,
//            interface slot, pointee, plain name ...). The script takes the
//            value through one binding hop (assignment, var, multiple
//            assignment, parameter, variadic parameter, return, closure,
//            for-in variable, list / map literal, container store, Go identity
//            function ...) and then the value is observed at every sink: read
//            back by vm.Execute, received by a Go function (interface{} and
//            typed parameter), stored into a Go container, used as the
//            receiver of a method. Oracle (statement): "the same value with the
//            same dynamic type"; "methods of Go values reached with member
//            syntax (pointer-receiver methods included) are called with exactly
//            the supplied arguments".
//   empty    empty and nil containers on every conversion route (parameter,
//            second parameter, variadic element, spread onto a variadic tail,
//            method parameter, field written through a pointer, result of a
//            callback), nested one level in lists and maps. Oracle:
//            c11RefConvert (a script list/map of length 0 is a non-nil value,
//            its element-wise conversion is an empty NON-nil container; nil
//            converts to T's zero value).
//   cbconc   ONE adapted callback value is invoked by Go from several
//            goroutines at the same time, every invocation with arguments of its
//            own; the script function echoes its parameters and each goroutine
//            compares the echo with what it passed ("invoked with the arguments
//            Go passes"). The verdict is on values only; the schedule decides
//            whether a defect shows, never whether a correct run is accepted.

import (
	"encoding/json"
	"fmt"
	"reflect"
	"strconv"
	"strings"
	"sync"
	"time"

	"verifharness/internal/ank"
	"verifharness/internal/wk"
)

// ---------------------------------------------------------------------------
// pending repairs of mattn/anko (see /tmp/strengthen/C11-genuine.md). Each
// constant keeps exactly one input class out of the generated domain until
// /repo is repaired; flip it to false afterwards.

// a pointer-receiver method of a NON-struct named type (type Cnt int64;
// func (c *Cnt) ...) is not reachable with member syntax on a non-pointer value
// ("type int64 does not support member operation"), neither on an addressable
// field nor on a bound copy; vm/vmExpr.go invokeMemberExpr looks for
// pointer-receiver methods only under `case reflect.Struct`.
const c11PendingFix_ptrMethodNonStruct = false

// f(list...) on a variadic Go function whose FIXED parameters are not all
// covered by plain arguments binds the whole list to the next fixed parameter
// (func(a interface{}, r ...interface{}): a = list, r = []) instead of
// spreading it or failing; vm/vmExprFunction.go makeCallArgs.
const c11PendingFix_spreadIntoFixedOfVariadic = false

// array-typed parameters: a list longer than the array, or a typed Go slice
// shorter than it, panics out of vm.Execute (reflect: array index out of range /
// cannot convert slice with length 1 to array with length 2);
// vm/vmConvertToX.go convertSliceOrArray and the ConvertibleTo branch.
const c11PendingFix_arrayParamPanic = false

// reading or writing a field promoted through a nil embedded pointer panics
// out of vm.Execute (reflect: indirection through nil pointer to embedded
// struct); vm/vmExpr.go invokeMemberExpr, vm/vmLetExpr.go invokeLetMemberExpr.
const c11PendingFix_nilEmbeddedPanic = false

// ---------------------------------------------------------------------------
// named types

type C11Color string
type C11Cnt int64
type C11Num int
type C11Small int8
type C11Word uint16
type C11Ratio float64
type C11F32 float32
type C11Flag bool
type C11Ints []int64
type C11Dict map[string]int64
type C11Pt struct{ X, Y int64 }

// c11Tag is the body of every Tag / PTag method: it records the receiver
// (value receivers by value, pointer receivers as the pointer) and the argument.
func c11Tag(name string, recv interface{}, n int64) string {
	r := c11Enter(name, recv, reflect.ValueOf(&n).Elem())
	if len(r) > 0 {
		if s, ok := r[0].Interface().(string); ok {
			return s
		}
	}
	return ""
}

func (v C11Color) Tag(n int64) string   { return c11Tag("Tag", v, n) }
func (v *C11Color) PTag(n int64) string { return c11Tag("PTag", v, n) }
func (v C11Cnt) Tag(n int64) string     { return c11Tag("Tag", v, n) }
func (v *C11Cnt) PTag(n int64) string   { return c11Tag("PTag", v, n) }
func (v C11Num) Tag(n int64) string     { return c11Tag("Tag", v, n) }
func (v *C11Num) PTag(n int64) string   { return c11Tag("PTag", v, n) }
func (v C11Small) Tag(n int64) string   { return c11Tag("Tag", v, n) }
func (v *C11Small) PTag(n int64) string { return c11Tag("PTag", v, n) }
func (v C11Word) Tag(n int64) string    { return c11Tag("Tag", v, n) }
func (v *C11Word) PTag(n int64) string  { return c11Tag("PTag", v, n) }
func (v C11Ratio) Tag(n int64) string   { return c11Tag("Tag", v, n) }
func (v *C11Ratio) PTag(n int64) string { return c11Tag("PTag", v, n) }
func (v C11F32) Tag(n int64) string     { return c11Tag("Tag", v, n) }
func (v *C11F32) PTag(n int64) string   { return c11Tag("PTag", v, n) }
func (v C11Flag) Tag(n int64) string    { return c11Tag("Tag", v, n) }
func (v *C11Flag) PTag(n int64) string  { return c11Tag("PTag", v, n) }
func (v C11Ints) Tag(n int64) string    { return c11Tag("Tag", v, n) }
func (v *C11Ints) PTag(n int64) string  { return c11Tag("PTag", v, n) }
func (v C11Dict) Tag(n int64) string    { return c11Tag("Tag", v, n) }
func (v *C11Dict) PTag(n int64) string  { return c11Tag("PTag", v, n) }
func (v C11Pt) Tag(n int64) string      { return c11Tag("Tag", v, n) }
func (v *C11Pt) PTag(n int64) string    { return c11Tag("PTag", v, n) }

// the travellers of phase named: named types of every basic kind, two named
// types of the standard library (their own methods, no recorder) and the
// unnamed counterparts as controls
var c11NamedTypes = []reflect.Type{
	reflect.TypeOf(C11Color("")), reflect.TypeOf(C11Cnt(0)), reflect.TypeOf(C11Num(0)), reflect.TypeOf(C11Small(0)), reflect.TypeOf(C11Word(0)),
	reflect.TypeOf(C11Ratio(0)), reflect.TypeOf(C11F32(0)), reflect.TypeOf(C11Flag(false)), reflect.TypeOf(C11Ints(nil)), reflect.TypeOf(C11Dict(nil)),
	reflect.TypeOf(C11Pt{}), reflect.TypeOf(C11MyStr("")), reflect.TypeOf(C11MyInt(0)),
	reflect.TypeOf(json.Number("")), reflect.TypeOf(time.Duration(0)),
	c11TString, c11TInt64, reflect.TypeOf(float64(0)), reflect.TypeOf(true), reflect.TypeOf(uint8(0)), reflect.TypeOf([]int64(nil)), reflect.TypeOf(map[string]int64(nil)),
}

// c11NamedVal: a PRNG value of t; index i keeps the values of one case apart
// where the kind allows it (a value that ends up in the wrong place is seen).
func c11NamedVal(c *wk.Case, t reflect.Type, i int) reflect.Value {
	switch t.Kind() {
	case reflect.String:
		return reflect.ValueOf(c11StrPicks[c.Rng.Intn(len(c11StrPicks))] + "#" + strconv.Itoa(i)).Convert(t)
	case reflect.Slice:
		if c.Rng.Intn(6) == 0 {
			return reflect.Zero(t)
		}
		s := reflect.MakeSlice(t, 0, 2)
		for n := c.Rng.Intn(3); n > 0; n-- {
			s = reflect.Append(s, c11GenGo(c.Rng, t.Elem(), 1, false))
		}
		return reflect.Append(s, reflect.ValueOf(int64(1000+i)).Convert(t.Elem()))
	case reflect.Map:
		if c.Rng.Intn(6) == 0 {
			return reflect.Zero(t)
		}
		m := reflect.MakeMap(t)
		m.SetMapIndex(reflect.ValueOf("i").Convert(t.Key()), reflect.ValueOf(int64(i)).Convert(t.Elem()))
		return m
	case reflect.Struct:
		s := c11GenGo(c.Rng, t, 0, false)
		if f := s.Field(0); f.Kind() == reflect.Int64 && f.CanSet() {
			f.SetInt(int64(i))
		}
		return s
	}
	return c11GenGo(c.Rng, t, 0, false)
}

type c11Loc struct {
	kind string        // stable name of the kind of location
	expr string        // script expression that reads it
	want reflect.Value // the Go value sitting there
	cont string        // the 2-element slice/array the location is element `idx` of ("" otherwise)
	idx  int
	addr bool // the slot is addressable from the script's point of view (pointer path)
}

type c11Hop struct {
	name, pre, expr string
	cont            bool // uses CONT / IDX instead of L
}

// L = the location's expression; CONT = the container, VAR = the variable that
// receives element IDX of it.
var c11Hops = []c11Hop{
	{"direct", "", "L", false},
	{"assign", "x = L; ", "x", false},
	{"var", "var x = L; ", "x", false},
	{"multi-assign", "x, y = L, 1; ", "x", false},
	{"var-multi", "var x, y = 1, L; ", "y", false},
	{"reassign", "x = L; y = x; ", "y", false},
	{"param", "", "func(p){ return p }(L)", false},
	{"param-local", "", "func(p){ q = p; return q }(L)", false},
	{"second-param", "", "func(o, p){ return p }(1, L)", false},
	{"variadic-param", "", "func(p...){ return p[0] }(L)", false},
	{"spread-param", "", "func(o, p){ return p }([1, L]...)", false},
	{"named-func", "func keep(p){ return p }; ", "keep(L)", false},
	{"return", "", "func(){ return L }()", false},
	{"return-local", "", "func(){ z = L; return z }()", false},
	{"return-pair", "", "func(){ return 1, L }()[1]", false},
	{"closure", "x = L; ", "func(){ return x }()", false},
	{"list-literal", "", "[L][0]", false},
	{"map-literal", "", `{"k": L}["k"]`, false},
	{"bound-in-list", "x = L; ", "[1, x][1]", false},
	{"list-store", "l = [nil]; l[0] = L; ", "l[0]", false},
	{"map-store", `m = {}; m["q"] = L; `, `m["q"]`, false},
	{"go-identity", "", "id(L)", false},
	{"bound-go-identity", "x = L; ", "id(x)", false},
	{"go-identity-variadic", "", "idv(1, L)", false},
	{"ternary", "", "(true ? L : 0)", false},
	{"if-assign", "x = nil; if true { x = L }; ", "x", false},
	{"loop-assign", "x = nil; for i = 0; i < 1; i++ { x = L }; ", "x", false},
	{"try-assign", "x = nil; try { x = L } catch e { x = nil }; ", "x", false},
	{"for-in", "x = nil; n = 0; for e in CONT { if n == IDX { x = e }; n++ }; ", "x", true},
	{"spread-assign", "a0, a1 = CONT; ", "aIDX", true},
	{"var-spread", "var a0, a1 = CONT; ", "aIDX", true},
	{"spread-call", "", "func(a0, a1){ return aIDX }(CONT...)", true},
}

func (h c11Hop) render(l c11Loc) (pre, expr string) {
	rep := strings.NewReplacer("CONT", l.cont, "IDX", strconv.Itoa(l.idx), "L", l.expr)
	return rep.Replace(h.pre), rep.Replace(h.expr)
}

func c11PhaseNamed(c *wk.Case) {
	t := c11NamedTypes[c.Index%len(c11NamedTypes)]
	label := c11TypeLabel(t)
	e := ank.NewCoreEnv()
	rec := &c11Rec{}
	tag := "t" + strconv.Itoa(c.Rng.Intn(1000))
	rec.results = []reflect.Value{reflect.ValueOf(tag)}
	_, hasTag := t.MethodByName("Tag")
	_, hasPTag := reflect.PtrTo(t).MethodByName("PTag")
	_, hasString := t.MethodByName("String")

	nv := 0
	val := func() reflect.Value { nv++; return c11NamedVal(c, t, nv) }
	inner := reflect.StructOf([]reflect.StructField{{Name: "V", Type: t}})
	st := reflect.StructOf([]reflect.StructField{
		{Name: "V", Type: t}, {Name: "Vs", Type: reflect.SliceOf(t)}, {Name: "Arr", Type: reflect.ArrayOf(2, t)},
		{Name: "M", Type: reflect.MapOf(c11TString, t)}, {Name: "I", Type: c11TIface}, {Name: "In", Type: inner}, {Name: "Ps", Type: reflect.SliceOf(reflect.PtrTo(t))}})
	mkStruct := func() reflect.Value {
		p := reflect.New(st)
		s := p.Elem()
		s.Field(0).Set(val())
		s.Field(1).Set(reflect.MakeSlice(reflect.SliceOf(t), 2, 2))
		s.Field(1).Index(0).Set(val())
		s.Field(1).Index(1).Set(val())
		s.Field(2).Index(0).Set(val())
		s.Field(2).Index(1).Set(val())
		s.Field(3).Set(reflect.MakeMap(reflect.MapOf(c11TString, t)))
		s.Field(3).SetMapIndex(reflect.ValueOf("k"), val())
		s.Field(4).Set(val())
		s.Field(5).Field(0).Set(val())
		pv := reflect.New(t)
		pv.Elem().Set(val())
		s.Field(6).Set(reflect.Append(reflect.Zero(reflect.SliceOf(reflect.PtrTo(t))), pv))
		return p
	}
	pb := mkStruct()
	vb := mkStruct().Elem()
	vs := reflect.MakeSlice(reflect.SliceOf(t), 2, 2)
	vs.Index(0).Set(val())
	vs.Index(1).Set(val())
	arr := reflect.New(reflect.ArrayOf(2, t)).Elem()
	arr.Index(0).Set(val())
	arr.Index(1).Set(val())
	mp := reflect.MakeMap(reflect.MapOf(c11TString, t))
	mp.SetMapIndex(reflect.ValueOf("k"), val())
	bs := reflect.MakeSlice(reflect.SliceOf(st), 2, 2)
	bs.Index(0).Set(mkStruct().Elem())
	bs.Index(1).Set(mkStruct().Elem())
	pbs := reflect.MakeSlice(reflect.SliceOf(reflect.PtrTo(st)), 1, 1)
	pbs.Index(0).Set(mkStruct())
	ifs := []interface{}{val().Interface(), val().Interface()}
	mi := map[string]interface{}{"k": val().Interface()}
	pt := reflect.New(t)
	pt.Elem().Set(val())
	g := val()
	out := []interface{}{nil}
	for name, v := range map[string]interface{}{"pb": pb.Interface(), "vb": vb.Interface(), "vs": vs.Interface(), "arr": arr.Interface(), "mp": mp.Interface(),
		"bs": bs.Interface(), "pbs": pbs.Interface(), "ifs": ifs, "mi": mi, "pt": pt.Interface(), "g": g.Interface(), "out": out} {
		e.Define(name, v)
	}
	e.Define("id", func(a interface{}) interface{} { return a })
	e.Define("idv", func(n int64, a ...interface{}) interface{} { return a[0] })
	recI := c11MakeFn(reflect.FuncOf([]reflect.Type{c11TIface}, []reflect.Type{c11TString}, false), rec)
	recT := c11MakeFn(reflect.FuncOf([]reflect.Type{t}, []reflect.Type{c11TString}, false), rec)
	recV := c11MakeFn(reflect.FuncOf([]reflect.Type{c11TInt64, reflect.SliceOf(c11TIface)}, []reflect.Type{c11TString}, true), rec)
	e.Define("recI", recI.Interface())
	e.Define("recT", recT.Interface())
	e.Define("recV", recV.Interface())

	pbe := pb.Elem()
	locs := []c11Loc{
		{"field@pointer", "pb.V", pbe.Field(0), "", 0, true},
		{"slice-element@pointer-field", "pb.Vs[1]", pbe.Field(1).Index(1), "pb.Vs", 1, true},
		{"array-element@pointer-field", "pb.Arr[0]", pbe.Field(2).Index(0), "pb.Arr", 0, true},
		{"map-value@pointer-field", `pb.M["k"]`, pbe.Field(3).MapIndex(reflect.ValueOf("k")), "", 0, false},
		{"interface-field@pointer", "pb.I", pbe.Field(4), "", 0, false},
		{"nested-field@pointer", "pb.In.V", pbe.Field(5).Field(0), "", 0, true},
		{"pointee-of-element@pointer-field", "*pb.Ps[0]", pbe.Field(6).Index(0).Elem(), "", 0, true},
		{"field@value", "vb.V", vb.Field(0), "", 0, false},
		{"slice-element@value-field", "vb.Vs[0]", vb.Field(1).Index(0), "vb.Vs", 0, true},
		{"array-element@value-field", "vb.Arr[1]", vb.Field(2).Index(1), "vb.Arr", 1, false},
		{"slice-element", "vs[1]", vs.Index(1), "vs", 1, true},
		{"slice-element", "vs[0]", vs.Index(0), "vs", 0, true},
		{"array-element", "arr[0]", arr.Index(0), "arr", 0, false},
		{"map-value", `mp["k"]`, mp.MapIndex(reflect.ValueOf("k")), "", 0, false},
		{"field@struct-slice-element", "bs[1].V", bs.Index(1).Field(0), "", 0, true},
		{"slice-element@struct-slice-element", "bs[0].Vs[1]", bs.Index(0).Field(1).Index(1), "bs[0].Vs", 1, true},
		{"field@pointer-slice-element", "pbs[0].V", pbs.Index(0).Elem().Field(0), "", 0, true},
		{"interface-slice-element", "ifs[1]", reflect.ValueOf(ifs[1]), "ifs", 1, false},
		{"interface-map-value", "mi.k", reflect.ValueOf(mi["k"]), "", 0, false},
		{"pointee", "*pt", pt.Elem(), "", 0, true},
		{"name", "g", g, "", 0, false},
	}

	type sink struct{ name, open, close string }
	sinks := []sink{{"read", "", ""}, {"go-interface-parameter", "recI(", ")"}, {"go-typed-parameter", "recT(", ")"}, {"go-variadic-parameter", "recV(1, ", ")"},
		{"go-container", "out[0] = ", ""}}
	if hasTag {
		sinks = append(sinks, sink{"value-method", "(", ").Tag(7)"})
	} else if hasString {
		sinks = append(sinks, sink{"own-method", "(", ").String()"})
	}
	if hasPTag {
		sinks = append(sinks, sink{"pointer-method", "(", ").PTag(7)"})
	}

	for _, l := range locs {
		want := c11Unwrap(l.want)
		wantText := ank.RenderValue(want)
		c.Tag("named:type:" + label)
		for _, h := range c11Hops {
			if h.cont && l.cont == "" {
				continue
			}
			pre, expr := h.render(l)
			for _, sk := range sinks {
				if sk.name == "pointer-method" && t.Kind() != reflect.Struct && c11PendingFix_ptrMethodNonStruct {
					continue
				}
				src := pre + sk.open + expr + sk.close
				rec.calls, rec.args, rec.recv, rec.method = 0, nil, nil, ""
				c11Cur = rec
				out[0] = nil
				c.Begin(src)
				o := ank.Exec(e, src)
				c.Events(1 + rec.calls)
				c.Eval(label+"|"+src+"|"+wantText, true)
				c.Tag("named:loc:"+l.kind, "named:hop:"+h.name, "named:sink:"+sk.name)
				// the written-out input is only built when it is needed
				received := ""
				mkInput := func() map[string]interface{} {
					in := map[string]interface{}{"src": src, "go_type": t.String(), "location": l.kind + " " + l.expr, "hop": h.name, "sink": sk.name,
						"go_value": ank.RenderValue(want), "value": ank.Render(o.Val), "err": ank.ErrText(o.Err), "panic": o.PanicVal}
					if received != "" {
						in["go_received"] = received
					}
					return in
				}
				if h.name == "assign" && sk.name == "go-interface-parameter" && c.WantSample() {
					c.Sample(mkInput())
				}
				sig := "named:" + label + ":" + h.name + ":"
				what := func(d string) string {
					if strings.Contains(d, "got type") {
						return "dynamic-type-lost"
					}
					return "changed"
				}
				if o.Panicked {
					c11Report(c, sig+"panic", "panic escaped: "+o.PanicVal+" ["+o.PanicSig+"]", mkInput())
					continue
				}
				switch sk.name {
				case "read":
					if o.Err != nil {
						c11Report(c, sig+"error", "the value did not come back: "+o.Err.Error(), mkInput())
					} else if d := c11Diff(reflect.ValueOf(o.Val), want, c11NilExact, "value", 0); d != "" {
						c11Report(c, sig+what(d), "read back: "+d, mkInput())
					}
				case "go-container":
					if o.Err != nil {
						c11Report(c, sig+"error", "storing the value into a Go []interface{} failed: "+o.Err.Error(), mkInput())
					} else if d := c11Diff(reflect.ValueOf(out[0]), want, c11NilExact, "stored element", 0); d != "" {
						c11Report(c, sig+what(d), "stored in a Go container: "+d, mkInput())
					}
				case "go-interface-parameter", "go-typed-parameter", "go-variadic-parameter":
					switch {
					case o.Err != nil:
						c11Report(c, sig+"error", "passing the value to a Go function failed: "+o.Err.Error(), mkInput())
					case rec.calls != 1:
						c11Report(c, sig+"invocations", fmt.Sprintf("the Go function was invoked %d times", rec.calls), mkInput())
					default:
						got := rec.args[0][len(rec.args[0])-1]
						if sk.name == "go-variadic-parameter" {
							if got.Len() != 1 {
								c11Report(c, sig+"changed", "variadic tail has "+strconv.Itoa(got.Len())+" elements, want 1", mkInput())
								break
							}
							got = got.Index(0)
						}
						if d := c11Diff(got, want, c11NilExact, "argument", 0); d != "" {
							received = ank.RenderValue(got)
							c11Report(c, sig+what(d), "received by Go ("+sk.name+"): "+d, mkInput())
						}
					}
				case "own-method":
					// the type's own String method (json.Number, time.Duration)
					ws := want.MethodByName("String").Call(nil)[0].String()
					if o.Err != nil {
						c11Report(c, sig+"own-method-unreachable", "the value's own method String is not reachable: "+o.Err.Error(), mkInput())
					} else if s, ok := o.Val.(string); !ok || s != ws {
						c11Report(c, sig+"changed", "String() gave "+ank.Render(o.Val)+", Go's own call gives "+strconv.Quote(ws), mkInput())
					}
				case "value-method", "pointer-method":
					switch {
					case o.Err != nil:
						c11Report(c, sig+sk.name+"-unreachable", sk.name+" of the Go value is not reachable: "+o.Err.Error(), mkInput())
					case rec.calls != 1:
						c11Report(c, sig+"invocations", fmt.Sprintf("the method was invoked %d times", rec.calls), mkInput())
					default:
						recv := reflect.ValueOf(rec.recv)
						if sk.name == "pointer-method" {
							// UNSPECIFIED whether a pointer-receiver method reached through a
							// non-pointer value gets the slot itself or a copy: only the type
							// and the content of the receiver are judged
							if recv.Kind() != reflect.Ptr || recv.IsNil() || recv.Type().Elem() != t {
								c11Report(c, sig+"wrong-receiver", fmt.Sprintf("receiver is %T", rec.recv), mkInput())
								break
							}
							recv = recv.Elem()
						}
						if d := c11Diff(recv, want, c11NilExact, "receiver", 0); d != "" {
							c11Report(c, sig+"wrong-receiver", d, mkInput())
						} else if a := rec.args[0][0]; a.Kind() != reflect.Int64 || a.Int() != 7 {
							c11Report(c, sig+"wrong-args", "the method received "+ank.RenderValue(a)+", want 7", mkInput())
						} else if s, ok := o.Val.(string); !ok || s != tag {
							c11Report(c, sig+"wrong-result", "the method's result did not come back: "+ank.Render(o.Val), mkInput())
						}
					}
				}
			}
		}
	}

	// methods through a pointer to the named value: the receiver of a
	// pointer-receiver method is the Go value itself
	if hasPTag {
		for _, m := range []string{"Tag", "PTag"} {
			src := "pt." + m + "(7)"
			rec.calls, rec.args, rec.recv = 0, nil, nil
			c11Cur = rec
			c.Begin(src)
			o := ank.Exec(e, src)
			c.Events(1 + rec.calls)
			c.Eval(label+"|"+src, true)
			input := map[string]interface{}{"src": src, "go_type": "*" + t.String(), "value": ank.Render(o.Val), "err": ank.ErrText(o.Err), "panic": o.PanicVal}
			sig := "named:" + label + ":through-pointer:"
			switch {
			case o.Panicked:
				c11Report(c, sig+"panic", "panic escaped: "+o.PanicVal, input)
			case o.Err != nil:
				c11Report(c, sig+"method-unreachable", "method "+m+" through a pointer: "+o.Err.Error(), input)
			case rec.calls != 1:
				c11Report(c, sig+"invocations", fmt.Sprintf("the method was invoked %d times", rec.calls), input)
			case m == "PTag" && (reflect.ValueOf(rec.recv).Kind() != reflect.Ptr || reflect.ValueOf(rec.recv).Pointer() != pt.Pointer()):
				c11Report(c, sig+"wrong-receiver", "pointer-receiver method reached through a pointer did not get the Go value itself as receiver", input)
			case m == "Tag" && c11Diff(reflect.ValueOf(rec.recv), pt.Elem(), c11NilExact, "receiver", 0) != "":
				c11Report(c, sig+"wrong-receiver", c11Diff(reflect.ValueOf(rec.recv), pt.Elem(), c11NilExact, "receiver", 0), input)
			}
		}
	}
}

// ---------------------------------------------------------------------------
// phase empty

type C11Doc struct {
	Tags   []string
	Nums   []int64
	Rows   [][]int64
	Idx    map[string][]int64
	Cnt    map[string]int64
	Sub    map[string]map[string]int64
	Lst    []map[string]int64
	Any    []interface{}
	AnyM   map[string]interface{}
	Named  C11Ints
	NamedM C11Dict
	F32s   []float32
}

func (d *C11Doc) Take(n int64, tags []string, idx map[string][]int64, rows ...[]int64) int64 {
	r := c11Enter("Take", d, reflect.ValueOf(&n).Elem(), reflect.ValueOf(&tags).Elem(), reflect.ValueOf(&idx).Elem(), reflect.ValueOf(&rows).Elem())
	return r[0].Interface().(int64)
}

var c11EmptySrcs = []c11Src{
	{expr: "[]", inline: true}, {expr: "{}", inline: true}, {expr: "nil", inline: true},
	{expr: "[[]]", inline: true}, {expr: "[[], [1]]", inline: true}, {expr: "[nil, []]", inline: true}, {expr: "[{}]", inline: true},
	{expr: `{"a": []}`, inline: true}, {expr: `{"a": {}}`, inline: true}, {expr: `{"a": nil}`, inline: true}, {expr: `{"a": [], "b": [2]}`, inline: true},
	{expr: "make([]int64, 0)", inline: true}, {expr: "make([]string, 0)", inline: true}, {expr: "make(map[string]int64)", inline: true},
	{expr: "[1][0:0]", inline: true},
	{mk: func() interface{} { return []int64{} }}, {mk: func() interface{} { return []int64(nil) }},
	{mk: func() interface{} { return []int8{} }}, {mk: func() interface{} { return []int8(nil) }},
	{mk: func() interface{} { return []interface{}{} }}, {mk: func() interface{} { return []interface{}(nil) }},
	{mk: func() interface{} { return [][]int8{{}, nil} }},
	{mk: func() interface{} { return map[string]int64{} }}, {mk: func() interface{} { return map[string]int64(nil) }},
	{mk: func() interface{} { return map[string]int8{} }}, {mk: func() interface{} { return map[string]int8(nil) }},
	{mk: func() interface{} { return map[string][]int8{"e": {}, "n": nil} }},
	{mk: func() interface{} { return map[string]interface{}{"e": []interface{}{}, "m": map[string]interface{}{}} }},
	{mk: func() interface{} { return C11Ints{} }}, {mk: func() interface{} { return C11Dict{} }},
}

func c11PhaseEmpty(c *wk.Case) {
	docT := reflect.TypeOf(C11Doc{})
	fld := docT.Field(c.Index % docT.NumField())
	t := fld.Type
	e := ank.NewCoreEnv()
	rec := &c11Rec{}
	var srcs []c11Val
	for i, s := range c11EmptySrcs {
		name := "q" + strconv.Itoa(i)
		if s.mk != nil {
			e.Define(name, s.mk())
		} else if o := ank.Exec(e, name+" = "+s.expr); o.Err != nil || o.Panicked {
			c.Inconclusive("source-construction-failed", s.expr+": "+ank.ErrText(o.Err)+o.PanicVal, s.expr)
			continue
		}
		g, _ := e.Get(name)
		v := reflect.ValueOf(g)
		srcs = append(srcs, c11Val{text: name, v: v, label: c11Label(v)})
		if s.inline {
			srcs = append(srcs, c11Val{text: s.expr, v: v, label: c11Label(v)})
		}
	}
	mk := func(name string, in []reflect.Type, out []reflect.Type, variadic bool) reflect.Type {
		ft := reflect.FuncOf(in, out, variadic)
		e.Define(name, c11MakeFn(ft, rec).Interface())
		return ft
	}
	f1 := mk("f1", []reflect.Type{t}, []reflect.Type{t}, false)
	f2 := mk("f2", []reflect.Type{c11TString, t}, []reflect.Type{t, c11TError}, false)
	fv := mk("fv", []reflect.Type{c11TInt64, reflect.SliceOf(t)}, []reflect.Type{c11TInt64}, true)
	var fe reflect.Type
	if t.Kind() == reflect.Slice {
		fe = mk("fe", []reflect.Type{t}, []reflect.Type{c11TInt64}, true) // func(...elem): the spread list IS the parameter
	}
	doc := &C11Doc{}
	e.Define("pd", doc)
	e.Define("pds", []*C11Doc{doc})
	one := c11Val{text: "1", v: reflect.ValueOf(int64(1)), label: "int64"}
	zed := c11Val{text: `"z"`, v: reflect.ValueOf("z"), label: "string"}
	fill := func() {
		*doc = C11Doc{Tags: []string{"t"}, Nums: []int64{1}, Rows: [][]int64{{1}}, Idx: map[string][]int64{"i": {1}}, Cnt: map[string]int64{"c": 1},
			Sub: map[string]map[string]int64{"s": {"x": 1}}, Lst: []map[string]int64{{"l": 1}}, Any: []interface{}{1}, AnyM: map[string]interface{}{"a": 1},
			Named: C11Ints{1}, NamedM: C11Dict{"n": 1}, F32s: []float32{1}}
	}
	takeT := reflect.ValueOf(doc).MethodByName("Take").Type()

	for _, a := range srcs {
		a := a
		// (1) parameters of Go functions and of a method
		calls := []*c11Call{
			{callee: "f1", ft: f1, pre: []c11Val{a}},
			{callee: "f2", ft: f2, pre: []c11Val{zed, a}},
			{callee: "fv", ft: fv, pre: []c11Val{one, a}},
			{callee: "fv", ft: fv, pre: []c11Val{one, a, a}},
		}
		cellArgs := []int{0, 1, 1, 1}
		if fe != nil {
			calls = append(calls, &c11Call{callee: "fe", ft: fe, spread: &a})
			cellArgs = append(cellArgs, 0)
		}
		switch t {
		case takeT.In(1):
			calls = append(calls, &c11Call{callee: "pd.Take", ft: takeT, pre: []c11Val{one, a, {text: "nil"}}})
			cellArgs = append(cellArgs, 1)
		case takeT.In(2):
			calls = append(calls, &c11Call{callee: "pds[0].Take", ft: takeT, pre: []c11Val{one, {text: "nil"}, a}})
			cellArgs = append(cellArgs, 2)
		case takeT.In(3):
			calls = append(calls, &c11Call{callee: "pd.Take", ft: takeT, pre: []c11Val{one, {text: "nil"}, {text: "nil"}}, spread: &a})
			cellArgs = append(cellArgs, 3)
		}
		for j, k := range calls {
			k.rec = rec
			rec.results = c11GenResults(c.Rng, k.ft)
			k.judge(c, e, "conv", cellArgs[j])
			c.Tag("empty:parameter")
		}

		// (2) the field written through a pointer
		cv := c11RefConvert(a.v, t)
		av := c11Unwrap(a.v)
		for _, holder := range []string{"pd", "pds[0]"} {
			fill()
			before := reflect.ValueOf(*doc).FieldByName(fld.Name)
			src := holder + "." + fld.Name + " = " + a.text
			c.Begin(src)
			o := ank.Exec(e, src)
			c.Events(1)
			c.Eval("empty-write|"+src+"|"+ank.RenderValue(a.v)+"|"+c11Label(a.v), true)
			c.Tag("empty:field-write")
			after := reflect.ValueOf(*doc).FieldByName(fld.Name)
			input := map[string]interface{}{"src": src, "value": ank.RenderValue(a.v), "value_type": c11Label(a.v), "field_type": t.String(),
				"after": c11NilText(after), "err": ank.ErrText(o.Err), "panic": o.PanicVal}
			sig := "empty:field-write:" + c11Label(a.v) + "->" + c11TypeLabel(t) + ":"
			unchanged := c11Diff(after, before, c11NilExact, "", 0) == ""
			switch {
			case o.Panicked:
				c11Report(c, sig+"panic", "panic escaped: "+o.PanicVal+" ["+o.PanicSig+"]", input)
			case cv.st == c11Unspec:
				c.Excluded("empty-write:" + cv.why)
			case cv.st == c11None:
				if !unchanged {
					c11Report(c, sig+"wrote-unconvertible", "a value without a conversion to the field type changed the field", input)
				}
			case av.IsValid() && av.Type().AssignableTo(t):
				if o.Err != nil {
					c11Report(c, sig+"error", "writing an assignable value through a pointer failed: "+o.Err.Error(), input)
				} else if d := c11Diff(after, cv.v, c11NilExact, "field "+fld.Name, 0); d != "" {
					c11Report(c, sig+"wrong-value", "after the write the Go field does not hold the value: "+d, input)
				}
			default:
				// UNSPECIFIED whether a write that needs a conversion (or writes nil) is
				// carried out: either it fails and leaves the field alone, or the field
				// holds Go's conversion
				if o.Err != nil {
					if !unchanged {
						c11Report(c, sig+"failed-but-changed", "the write failed yet the field changed", input)
					}
				} else if d := c11Diff(after, cv.v, cv.mode, "field "+fld.Name, 0); d != "" {
					c11Report(c, sig+"wrong-value", "after the converting write: "+d, input)
				}
			}
		}

		// (3) the result of a callback: "its result is converted to the declared return types"
		if cv.st != c11Unspec && !cv.adapter {
			var got []reflect.Value
			returned := 0
			cbT := reflect.FuncOf([]reflect.Type{c11TInt64}, []reflect.Type{t}, false)
			cb2T := reflect.FuncOf([]reflect.Type{c11TInt64}, []reflect.Type{c11TString, t}, false)
			for n, ct := range []reflect.Type{cbT, cb2T} {
				got, returned = nil, 0
				host := reflect.MakeFunc(reflect.FuncOf([]reflect.Type{ct}, []reflect.Type{c11TInt64}, false), func(in []reflect.Value) []reflect.Value {
					got = in[0].Call([]reflect.Value{reflect.ValueOf(int64(5))})
					returned++
					return []reflect.Value{reflect.ValueOf(int64(returned))}
				})
				e.Define("host", host.Interface())
				src := "host(func(n){ return " + a.text + " })"
				if n == 1 {
					src = `host(func(n){ return "s", ` + a.text + ` })`
				}
				c.Begin(src)
				o := ank.Exec(e, src)
				c.Events(1 + returned)
				c.Eval("empty-cb|"+src+"|"+ct.String()+"|"+c11Label(a.v), true)
				c.Tag("empty:callback-result")
				input := map[string]interface{}{"src": src, "callback_type": ct.String(), "script_returns": ank.RenderValue(a.v), "script_returns_type": c11Label(a.v),
					"err": ank.ErrText(o.Err), "panic": o.PanicVal}
				sig := "empty:callback-result:" + c11Label(a.v) + "->" + c11TypeLabel(t) + ":"
				if n == 0 && av.IsValid() && av.Kind() == reflect.Slice && av.Type() == reflect.TypeOf([]interface{}(nil)) {
					// UNSPECIFIED: a script function returning ONE list is indistinguishable
					// from one returning several values; with a single declared result both
					// readings are possible
					c.Excluded("callback returning one list")
					if o.Panicked {
						c11Report(c, sig+"panic", "panic escaped: "+o.PanicVal+" ["+o.PanicSig+"]", input)
					}
					continue
				}
				switch {
				case o.Panicked:
					c11Report(c, sig+"panic", "panic escaped: "+o.PanicVal+" ["+o.PanicSig+"]", input)
				case cv.st == c11None:
					if returned != 0 {
						c11Report(c, sig+"bad-result-accepted", "no conversion to the declared return type exists, yet the callback returned normally to Go", input)
					} else if o.Err == nil {
						c11Report(c, sig+"inner-failure-lost", "the callback's result had no conversion but the enclosing call reported no error", input)
					}
				case o.Err != nil || returned != 1:
					c11Report(c, sig+"good-result-refused", fmt.Sprintf("the callback returned normally to Go %d times, want 1 (err: %s)", returned, ank.ErrText(o.Err)), input)
				default:
					input["go_got_back"] = c11NilText2(got[len(got)-1])
					if d := c11Diff(got[len(got)-1], cv.v, cv.mode, "callback result", 0); d != "" {
						c11Report(c, sig+"result-not-converted", "Go did not get the script result converted to the declared type: "+d, input)
					}
				}
			}
		}
	}
}

func c11NilText2(v reflect.Value) string {
	if u := c11Unwrap(v); u.IsValid() && (u.Kind() == reflect.Slice || u.Kind() == reflect.Map) {
		return c11NilText(u)
	}
	return ank.RenderValue(v)
}

// ---------------------------------------------------------------------------
// phase cbconc

type c11ConcVariant struct {
	ft     reflect.Type
	script string
	list   bool // the single result is the list of all parameters
}

var c11ConcVariants = []c11ConcVariant{
	{reflect.TypeOf((func(int64, string) (int64, string))(nil)), "func(a, s){ return a, s }", false},
	{reflect.TypeOf((func(int64) int64)(nil)), "func(a){ return a }", false},
	{reflect.TypeOf((func(interface{}, interface{}) (interface{}, interface{}))(nil)), "func(a, b){ return a, b }", false},
	{reflect.TypeOf((func(string, int64, float64) []interface{})(nil)), "func(s, a, f){ return [s, a, f] }", true},
	{reflect.TypeOf((func(int64, string) (int64, string))(nil)), "func(a, s){ t = a; u = s; if t != a { return -1, u }; return t, u }", false},
	{reflect.TypeOf((func(C11Cnt, C11Color) (C11Cnt, C11Color))(nil)), "func(a, s){ return a, s }", false},
	{reflect.TypeOf((func(int64, string, int64) (int64, string, int64))(nil)), "func(a...){ return a[0], a[1], a[2] }", false},
	{reflect.TypeOf((func(string) string)(nil)), "func(s){ return s }", false},
}

// c11ConcArg: the argument goroutine g passes for parameter p in its i-th call;
// no two invocations of one run pass the same value for a parameter.
func c11ConcArg(t reflect.Type, g, i, p int) reflect.Value {
	n := int64(g)*1000000 + int64(i)*10 + int64(p)
	switch t.Kind() {
	case reflect.Int64:
		return reflect.ValueOf(n).Convert(t)
	case reflect.String:
		return reflect.ValueOf("g" + strconv.Itoa(g) + "i" + strconv.Itoa(i) + "p" + strconv.Itoa(p)).Convert(t)
	case reflect.Float64:
		return reflect.ValueOf(float64(n) + 0.5).Convert(t)
	}
	// interface{}: alternate the dynamic type
	x := reflect.New(t).Elem()
	if (g+i+p)%2 == 0 {
		x.Set(reflect.ValueOf(n))
	} else {
		x.Set(reflect.ValueOf("v" + strconv.FormatInt(n, 10)))
	}
	return x
}

func c11PhaseCbConc(c *wk.Case) {
	v := c11ConcVariants[c.Index%len(c11ConcVariants)]
	G, N := 4+c.Rng.Intn(9), 400+c.Rng.Intn(500)
	e := ank.NewCoreEnv()
	ft := v.ft
	var mu sync.Mutex
	var mismatches, failures, done int
	var examples []string
	host := reflect.MakeFunc(reflect.FuncOf([]reflect.Type{ft}, []reflect.Type{c11TInt64}, false), func(in []reflect.Value) []reflect.Value {
		cb := in[0]
		var wg sync.WaitGroup
		for g := 0; g < G; g++ {
			wg.Add(1)
			go func(g int) {
				defer wg.Done()
				for i := 0; i < N; i++ {
					args := make([]reflect.Value, ft.NumIn())
					for p := range args {
						args[p] = c11ConcArg(ft.In(p), g, i, p)
					}
					var outs []reflect.Value
					perr := ""
					func() {
						defer func() {
							if r := recover(); r != nil {
								perr = fmt.Sprint(r)
							}
						}()
						outs = cb.Call(args)
					}()
					d := ""
					switch {
					case perr != "":
					case v.list:
						lst := make([]interface{}, len(args))
						for p := range args {
							lst[p] = args[p].Interface()
						}
						d = c11Diff(outs[0], reflect.ValueOf(lst), c11NilExact, "echo", 0)
					default:
						for p := range args {
							if d = c11Diff(outs[p], args[p], c11NilExact, "echo of parameter "+strconv.Itoa(p), 0); d != "" {
								break
							}
						}
					}
					mu.Lock()
					done++
					if perr != "" {
						failures++
						if len(examples) < 4 {
							examples = append(examples, fmt.Sprintf("goroutine %d call %d passed %v: callback failed: %s", g, i, c11RenderArgs(args), perr))
						}
					} else if d != "" {
						mismatches++
						if len(examples) < 4 {
							examples = append(examples, fmt.Sprintf("goroutine %d call %d passed %v: %s", g, i, c11RenderArgs(args), d))
						}
					}
					mu.Unlock()
				}
			}(g)
		}
		wg.Wait()
		return []reflect.Value{reflect.ValueOf(int64(done))}
	})
	e.Define("par", host.Interface())
	src := "par(" + v.script + ")"
	c.Begin(src)
	o := ank.Exec(e, src)
	c.Events(1 + done)
	c.Eval(fmt.Sprintf("%s|%s|%d|%d", src, ft, G, N), true)
	c.Tag("cbconc:" + c11TypeLabel(ft))
	c.Count("cbconc:invocations", done)
	input := map[string]interface{}{"src": src, "callback_type": ft.String(), "goroutines": G, "calls_per_goroutine": N, "invocations": done,
		"mismatches": mismatches, "failed_invocations": failures, "examples": examples, "err": ank.ErrText(o.Err), "value": ank.Render(o.Val), "panic": o.PanicVal}
	if c.WantSample() {
		c.Sample(input)
	}
	sig := "cbconc:" + c11TypeLabel(ft) + ":"
	switch {
	case o.Panicked:
		c11Report(c, sig+"panic", "panic escaped: "+o.PanicVal+" ["+o.PanicSig+"]", input)
	case o.Err != nil:
		c11Report(c, sig+"unexpected-error", "every invocation returns convertible values, yet the enclosing call failed: "+o.Err.Error(), input)
	case done != G*N:
		c11Report(c, sig+"invocations", fmt.Sprintf("%d invocations completed, Go made %d", done, G*N), input)
	case mismatches > 0:
		c11Report(c, sig+"args-of-another-invocation", fmt.Sprintf("%d of %d concurrent invocations did not get back the arguments they passed; e.g. %s", mismatches, done, strings.Join(examples, " || ")), input)
	case failures > 0:
		c11Report(c, sig+"invocation-failed", fmt.Sprintf("%d of %d concurrent invocations failed; e.g. %s", failures, done, strings.Join(examples, " || ")), input)
	}
}
