package main

// C12, round 7.
//
// (1) LONG histories on one scope. The statement says "ANY sequence of
// environment operations ... behaves as a parent-linked chain of dictionaries".
// A dictionary has no memory: the 1000th Delete of a name removes the binding
// exactly like the first, whatever the number of bindings the scope held before
// or holds now. The phases of the earlier rounds end after at most 200 calls
// spread over up to 12 scopes, so nothing that counts (removed bindings,
// lookups, copies, children), grows, compacts or caches ever reached a
// threshold. Phase "long" concentrates hundreds to thousands of calls on ONE
// "hot" scope of a short chain, in regimes (segments) whose sizes sit on and
// around the powers of two from 8 to 1024:
//
//	cycle       define / delete rounds on 1-3 names (Define, DefineValue forms,
//	            DefineGlobal from below, `var n = v`; Delete, DeleteGlobal from
//	            the scope and from below, `delete("n")`, `delete("n", true)`)
//	fill-drain  K distinct names bound, then removed first-in-first-out, last-in-
//	            first-out or shuffled, completely or down to a rest; repeated
//	window      a sliding window of W live bindings (define the next, delete the oldest)
//	mixed       PRNG define/set/delete/delete-nearest/get/unbound-delete on the
//	            hot scope and its neighbours
//	set-storm   many Sets of one binding from the scope and from below, the
//	            nearest binding moving now and then
//	type-fill   many type names defined and redefined (types cannot be removed)
//	churn       one call = many short-lived children, Copies or DeepCopies of the
//	            hot scope, each written to and dropped (what a VM does per call)
//
// with Copy / DeepCopy snapshots taken between and inside segments (the history
// may go on on the snapshot), and a delete-nearest drain at the end. The model
// and the oracle are the ones of the earlier rounds - after EVERY call the call's
// results and the observable state of every live scope are compared - only the
// audit also looks at names outside the fixed pool: the name the call addressed
// (from every scope), two more in rotation, and every name the history ever used
// on every 64th audit and right after a copy was taken. The value and type
// symbol lists are compared in full after every call as before, so a binding
// that survives its Delete, or disappears with another one, is seen at once.
//
// (2) Script spellings of the operations. vm.Execute(scope, nil, src) with a
// one-statement src is a call path into the same API: `var n = v` is
// scope.Define(n, v), `delete("n")` / `delete("n", false)` is scope.Delete(n),
// `delete("n", true)` is scope.DeleteGlobal(n), and an expression that uses the
// name n (`n`, `[n]`, `func() { return n }()`, `&n`) is a lookup of n from the
// scope (the function body: from a fresh child of it). That reading of the four
// statements is an ASSUMPTION about the language, stated in the Plan; nothing
// else of the language is used (in particular not `n = v`, whose set-or-define
// meaning the statement of C12 does not give).
//
// (3) External lookups that answer a reflect.Value read out of an unexported
// struct field. reflect forbids handing such a value out (Interface() panics),
// so no lookup could "return the nearest enclosing binding": the lookup of a
// name whose nearest supplier is such an answer is an INVALID REQUEST - "returns
// an error and leaves every scope unchanged; it never panics". Demanded from
// Get, GetValue, Addr and from every script use of the name. For path lookup the
// answer is a non-module like any other non-module a lookup object answers
// (c12_r5.go: under reading A the path fails at it, under B and C it is passed
// over); no panic. Set and DeleteGlobal of a name so supplied stay accepted both
// ways (as for every name a nearer lookup object supplies). Falling through to
// the enclosing scope instead of failing is NOT accepted: the lookup object did
// answer, and a lookup object's answer shadows the enclosing scopes.

import (
	"fmt"
	"math/rand"
	"strconv"

	"github.com/mattn/anko/env"

	"verifharness/internal/ank"
	"verifharness/internal/wk"
)

// c12RO is what the model holds for a name a lookup object answers with a
// read-only reflect.Value: a supplier that shadows, and cannot be read.
type c12RO struct{ v interface{} }

var c12PoolVal, c12PoolType = map[string]bool{}, map[string]bool{}

func init() {
	for _, n := range c12ValNames {
		c12PoolVal[n] = true
	}
	for _, n := range c12AuditTypeNames {
		c12PoolType[n] = true
	}
}

func c12IsTypeOp(k string) bool {
	return k == "DefineType" || k == "DefineGlobalType" || k == "Type" || k == "ExtPutType" || k == "ExtDelType" || k == "FaultType"
}

// noteNames records the name an operation addresses when it is not a pool name.
func (w *c12World) noteNames(op *c12Op) {
	w.hotVal, w.hotType = "", ""
	if op.K == "Copy" || op.K == "DeepCopy" {
		w.sweepNext = true
	}
	if op.N == "" {
		return
	}
	if c12IsTypeOp(op.K) {
		if !c12PoolType[op.N] {
			w.hotType = op.N
			if !w.longSeen["t:"+op.N] {
				w.longSeen["t:"+op.N] = true
				w.longTypes = append(w.longTypes, op.N)
			}
		}
		return
	}
	if !c12PoolVal[op.N] {
		w.hotVal = op.N
		if !w.longSeen["v:"+op.N] {
			w.longSeen["v:"+op.N] = true
			w.longVals = append(w.longVals, op.N)
		}
	}
}

// auditNames: the pool names, plus (histories that use other names) the name
// just addressed, two names in rotation, and everything on a sweep.
func (w *c12World) auditNames() (vals, types []string) {
	vals, types = c12ValNames, c12AuditTypeNames
	if len(w.longVals) == 0 && len(w.longTypes) == 0 {
		return
	}
	sweep := w.sweepNext || w.audits%64 == 0
	w.sweepNext = false
	if sweep {
		w.sweeps++
	}
	if n := len(w.longVals); n > 0 {
		vals = append([]string(nil), c12ValNames...)
		if sweep {
			vals = append(vals, w.longVals...)
		} else {
			if w.hotVal != "" {
				vals = append(vals, w.hotVal)
			}
			vals = append(vals, w.longVals[(2*w.audits)%n], w.longVals[(2*w.audits+1)%n])
		}
	}
	if n := len(w.longTypes); n > 0 {
		types = append([]string(nil), c12AuditTypeNames...)
		if sweep {
			types = append(types, w.longTypes...)
		} else {
			if w.hotType != "" {
				types = append(types, w.hotType)
			}
			types = append(types, w.longTypes[w.audits%n])
		}
	}
	return
}

// ---------------------------------------------------------------------------
// script statements

const (
	c12StVar       = 0 // var n = v
	c12StDelete    = 1 // delete("n")
	c12StDeleteG   = 2 // delete("n", true)
	c12StDeleteF   = 3 // delete("n", false)
	c12StUse       = 4 // n
	c12StUseArray  = 5 // [n]
	c12StUseFunc   = 6 // func() { return n }()
	c12StUseAddr   = 7 // &n
	c12StFormCount = 8
)

var c12StmtLabel = []string{"Stmt-var", "Stmt-delete", "Stmt-delete-nearest", "Stmt-delete", "Stmt-use", "Stmt-use", "Stmt-use", "Stmt-use-addr"}

var c12ChurnLabel = []string{"Churn-child", "Churn-copy", "Churn-deepcopy"}

func c12R7Label(op *c12Op) string {
	if op.K == "Churn" {
		return c12ChurnLabel[op.F%3]
	}
	return c12StmtLabel[op.F%c12StFormCount]
}

// c12Literal: the script literal of a value code (the pointer of the pool has none).
func c12Literal(code int) (src string, v interface{}) {
	switch code {
	case 0:
		return "nil", nil
	case 1, 6:
		return "1", int64(1)
	case 2:
		return `"s"`, "s"
	case 3:
		return "true", true
	case 4:
		return "2.5", float64(2.5)
	case 5:
		return `""`, ""
	case 7:
		return "0", int64(0)
	}
	return strconv.Itoa(code), int64(code)
}

func c12StmtSrc(op *c12Op) string {
	switch op.F % c12StFormCount {
	case c12StVar:
		lit, _ := c12Literal(op.V)
		return "var " + op.N + " = " + lit
	case c12StDelete:
		return "delete(" + strconv.Quote(op.N) + ")"
	case c12StDeleteG:
		return "delete(" + strconv.Quote(op.N) + ", true)"
	case c12StDeleteF:
		return "delete(" + strconv.Quote(op.N) + ", false)"
	case c12StUse:
		return op.N
	case c12StUseArray:
		return "[" + op.N + "]"
	case c12StUseFunc:
		return "func() { return " + op.N + " }()"
	}
	return "&" + op.N
}

func (w *c12World) execStmt(op *c12Op, s *c12Scope) (call, outcome string, pan *c12Panic, expectFail, mutated bool, undo func(), failClass, failDetail string) {
	src := c12StmtSrc(op)
	form := op.F % c12StFormCount
	call = fmt.Sprintf("vm.Execute(s%d, nil, %q)", op.S, src)
	w.apiCalls++
	w.stmtCalls++
	o := ank.Exec(s.real, src)
	if o.Panicked {
		pan = &c12Panic{msg: o.PanicVal, stack: o.Stack}
	}
	if o.Err != nil {
		outcome = c12ErrStr(o.Err)
	} else if pan == nil {
		outcome = w.renderVal(o.Val)
	}
	switch form {
	case c12StVar:
		if pan != nil {
			return
		}
		if o.Err != nil {
			failClass, failDetail = "unexpected-error", o.Err.Error()
			return
		}
		_, v := c12Literal(op.V)
		s.vals[op.N] = v
		mutated = true
	case c12StDelete, c12StDeleteF:
		if pan != nil {
			return
		}
		if o.Err != nil {
			failClass, failDetail = "unexpected-error", o.Err.Error()
			return
		}
		if _, ok := s.vals[op.N]; ok {
			delete(s.vals, op.N)
			mutated = true
		}
	case c12StDeleteG:
		if pan != nil {
			return
		}
		if o.Err != nil {
			failClass, failDetail = "unexpected-error", o.Err.Error()
			return
		}
		if t, shadow := s.nearestTable(op.N); t != nil {
			old := t.vals[op.N]
			delete(t.vals, op.N)
			mutated = true
			if shadow {
				// UNSPECIFIED, as for DeleteGlobal: "nothing deleted" is accepted as well
				w.tags["deleteglobal:ext-shadowed"]++
				n := op.N
				undo = func() { t.vals[n] = old }
			}
		}
	default:
		wv, ok := s.lookupVal(op.N)
		_, ro := wv.(c12RO)
		expectFail = !ok || ro
		if pan != nil {
			return
		}
		switch {
		case ro:
			w.tags["stmt:readonly-from-lookup"]++
			if o.Err == nil {
				failClass, failDetail = "readonly-value-answered", "the script ran without an error, but the nearest supplier of the name is a lookup object answering a reflect.Value read out of an unexported struct field"
			}
		case !ok:
			if o.Err == nil {
				failClass, failDetail = "no-error", fmt.Sprintf("the script used a name no enclosing scope binds and returned %s", w.renderVal(o.Val))
			}
		case o.Err != nil:
			// UNSPECIFIED: which bindings `&n` can take the address of (as for Addr)
			if form != c12StUseAddr {
				failClass, failDetail = "unexpected-error", fmt.Sprintf("%s, the nearest binding is %s", o.Err.Error(), w.renderVal(wv))
			}
		case form == c12StUseAddr:
			// a pointer: its pointee is not compared (what `&n` points at is the vm's business)
		case form == c12StUseArray:
			arr, isArr := o.Val.([]interface{})
			if !isArr || len(arr) != 1 || !c12Eq(arr[0], wv) {
				failClass, failDetail = "result", fmt.Sprintf("returned %s, the nearest binding is %s", w.renderVal(o.Val), w.renderVal(wv))
			}
		default:
			if !c12Eq(o.Val, wv) {
				failClass, failDetail = "result", fmt.Sprintf("returned %s, the nearest binding is %s", w.renderVal(o.Val), w.renderVal(wv))
			}
		}
		if o.Err != nil {
			expectFail = true
		}
	}
	return
}

// ---------------------------------------------------------------------------
// churn: op.V short-lived children (F=0), Copies (F=1) or DeepCopies (F=2) of
// the addressed scope. Each one binds op.N to a number of its own, must answer
// it, must answer a second name like the addressed scope does, deletes op.N
// again and must then answer op.N like the addressed scope does (children; a
// copy: like the chain above the addressed scope). The addressed scope and
// every other live scope must be unchanged: the audit after the call.

func (w *c12World) execChurn(op *c12Op, s *c12Scope) (call, outcome string, pan *c12Panic, failClass, failDetail string) {
	kind := op.F % 3
	what := []string{"NewEnv()", "Copy()", "DeepCopy()"}[kind]
	other := "a"
	if op.N == "a" {
		other = "b"
	}
	call = fmt.Sprintf("%d times: c = s%d.%s; c.Define(%q, k); c.Get(%q); c.Get(%q); c.Delete(%q); c.Get(%q)", op.V, op.S, what, op.N, op.N, other, op.N, op.N)
	// what the model says the temporary scope answers
	same := func(got interface{}, err error, wv interface{}, ok bool) bool {
		if _, ro := wv.(c12RO); ro {
			return err != nil
		}
		if !ok {
			return err != nil
		}
		return err == nil && c12Eq(got, wv)
	}
	otherV, otherOK := s.lookupVal(other)
	// after the temporary's own binding is gone: a child falls through to s; a
	// copy of s held s's own binding of the name (if any) and lost it with the
	// Delete, so it answers what the lookup object of s or the chain above s gives
	var afterV interface{}
	var afterOK bool
	if kind == 0 {
		afterV, afterOK = s.lookupVal(op.N)
	} else {
		if s.ext != nil {
			afterV, afterOK = s.ext.mvals[op.N]
		}
		if !afterOK && s.parent != nil {
			afterV, afterOK = s.parent.lookupVal(op.N)
		}
	}
	pan = c12Protect(func() {
		for k := 0; k < op.V; k++ {
			var c *env.Env
			switch kind {
			case 0:
				c = s.real.NewEnv()
			case 1:
				c = s.real.Copy()
			default:
				c = s.real.DeepCopy()
			}
			w.apiCalls += 6
			w.churnCalls++
			if c == nil || w.byReal[c] != nil {
				failClass, failDetail = "result", fmt.Sprintf("round %d: did not return a fresh scope", k+1)
				return
			}
			mine := int64(1000000 + k)
			if err := c.Define(op.N, mine); err != nil {
				failClass, failDetail = "unexpected-error", fmt.Sprintf("round %d: Define fails with %q", k+1, err.Error())
				return
			}
			if got, err := c.Get(op.N); err != nil || !c12Eq(got, mine) {
				failClass, failDetail = "own-binding", fmt.Sprintf("round %d: after c.Define(%q, %d) c.Get = %s, %s", k+1, op.N, mine, w.renderVal(got), c12ErrStr(err))
				return
			}
			if got, err := c.Get(other); !same(got, err, otherV, otherOK) {
				failClass, failDetail = "enclosing-binding", fmt.Sprintf("round %d: c.Get(%q) = %s, %s; s%d answers %s (bound: %v)", k+1, other, w.renderVal(got), c12ErrStr(err), op.S, w.renderVal(otherV), otherOK)
				return
			}
			c.Delete(op.N)
			if got, err := c.Get(op.N); !same(got, err, afterV, afterOK) {
				failClass, failDetail = "after-delete", fmt.Sprintf("round %d: after c.Delete(%q) c.Get = %s, %s; the chain answers %s (bound: %v)", k+1, op.N, w.renderVal(got), c12ErrStr(err), w.renderVal(afterV), afterOK)
				return
			}
		}
	})
	return
}

// ---------------------------------------------------------------------------
// generator additions for the phases of the earlier rounds

// roName: half of the time, a name whose nearest supplier seen from sc is a
// lookup object answering a read-only reflect.Value (if there is one); else n.
func (g *c12Gen) roName(sc *c12Scope, n string) string {
	if g.r.Intn(2) == 0 {
		return n
	}
	var ro []string
	for _, k := range c12PlainNames {
		if v, ok := sc.lookupVal(k); ok {
			if _, is := v.(c12RO); is {
				ro = append(ro, k)
			}
		}
	}
	if len(ro) == 0 {
		return n
	}
	return ro[g.r.Intn(len(ro))]
}

// stmtOp: a script statement on scope s over the pool's plain names.
func (g *c12Gen) stmtOp(s int, sc *c12Scope) c12Op {
	op := c12Op{K: "Stmt", S: s, N: c12PlainNames[g.r.Intn(len(c12PlainNames))], A: -1, X: -1, New: -1}
	if g.r.Intn(2) == 0 {
		op.N = "a"
	}
	switch r := g.r.Intn(10); {
	case r < 2:
		op.F = c12StVar
		g.fresh++
		op.V = 100 + g.fresh
		if g.r.Intn(4) == 0 {
			op.V = g.r.Intn(8)
		}
	case r < 5:
		op.F = c12StDelete + g.r.Intn(3)
	default:
		op.F = c12StUse + g.r.Intn(4)
		op.N = g.roName(sc, op.N)
	}
	return op
}

// ---------------------------------------------------------------------------
// phase "long"

type c12LongGen struct {
	r      *rand.Rand
	w      *c12World
	ops    []c12Op
	budget int
	nextH  int
	fresh  int
	chain  []int // handles root..leaf of the chain the hot scope sits on
	hotPos int   // position of the hot scope in chain
	few    []string
	copies int
	nameLo int // next unused index of the v<i> names
	dead   bool
}

func (g *c12LongGen) push(op c12Op) bool {
	if g.dead {
		return false
	}
	i := len(g.ops)
	g.ops = append(g.ops, op)
	if op.New >= 0 {
		g.nextH = op.New + 1
	}
	g.w = c12Step(g.w, g.ops, i)
	g.budget--
	if g.w.dead {
		g.dead = true
	}
	return !g.dead
}

func (g *c12LongGen) left() bool { return !g.dead && g.budget > 0 }

func (g *c12LongGen) hot() int { return g.chain[g.hotPos] }

// below: a scope at or below the hot one
func (g *c12LongGen) below() int { return g.chain[g.hotPos+g.r.Intn(len(g.chain)-g.hotPos)] }

func (g *c12LongGen) leaf() int { return g.chain[len(g.chain)-1] }

func (g *c12LongGen) val() int {
	if g.r.Intn(12) == 0 {
		return g.r.Intn(8)
	}
	g.fresh++
	return 100 + g.fresh
}

// size: a count on or next to a power of two (8..1024), bounded by max
func (g *c12LongGen) size(max int) int {
	if max < 4 {
		return max
	}
	var cands []int
	for p := 8; p <= 1024 && p-1 <= max; p *= 2 {
		cands = append(cands, p)
	}
	if len(cands) == 0 || g.r.Intn(5) == 0 {
		return 1 + g.r.Intn(max)
	}
	// the larger thresholds are reached less often by chance: favour them
	p := cands[len(cands)-1-g.r.Intn(c12Min(len(cands), 3))]
	if g.r.Intn(3) == 0 {
		p = cands[g.r.Intn(len(cands))]
	}
	n := p + []int{-1, 0, 0, 1, 2, 3}[g.r.Intn(6)]
	if g.r.Intn(4) == 0 {
		n = p + g.r.Intn(p/2+1)
	}
	if n > max {
		n = max
	}
	if n < 1 {
		n = 1
	}
	return n
}

// define n on the hot scope in one of the spellings
func (g *c12LongGen) define(mode int, n string) bool {
	h := g.hot()
	switch mode {
	case 1: // a script statement
		return g.push(c12Op{K: "Stmt", S: h, N: n, V: g.val(), F: c12StVar, A: -1, X: -1, New: -1})
	case 2: // DefineGlobal from a scope at or below the hot one: only when the hot scope is the root
		if g.hotIsRoot() {
			return g.push(c12Op{K: "DefineGlobal", S: g.below(), N: n, V: g.val(), F: g.r.Intn(3), A: -1, X: -1, New: -1})
		}
	case 3: // the reflect.Value forms, boxed ones included
		f := 1 + g.r.Intn(4)
		return g.push(c12Op{K: "Define", S: h, N: n, V: g.val(), F: f, A: -1, X: -1, New: -1})
	}
	return g.push(c12Op{K: "Define", S: h, N: n, V: g.val(), A: -1, X: -1, New: -1})
}

// remove n from the hot scope in one of the spellings
func (g *c12LongGen) remove(mode int, n string) bool {
	h := g.hot()
	switch mode {
	case 1:
		return g.push(c12Op{K: "Stmt", S: h, N: n, F: []int{c12StDelete, c12StDeleteF}[g.r.Intn(2)], A: -1, X: -1, New: -1})
	case 2: // delete-nearest from the hot scope itself
		return g.push(c12Op{K: "DeleteGlobal", S: h, N: n, A: -1, X: -1, New: -1})
	case 3: // delete-nearest from below (removes a nearer binding first, if there is one)
		return g.push(c12Op{K: "DeleteGlobal", S: g.below(), N: n, A: -1, X: -1, New: -1})
	case 4:
		return g.push(c12Op{K: "Stmt", S: g.below(), N: n, F: c12StDeleteG, A: -1, X: -1, New: -1})
	}
	return g.push(c12Op{K: "Delete", S: h, N: n, A: -1, X: -1, New: -1})
}

func (g *c12LongGen) defMode() int {
	switch r := g.r.Intn(10); {
	case r < 5:
		return 0
	case r < 7:
		return 1
	case r < 8:
		return 2
	}
	return 3
}

func (g *c12LongGen) delMode() int {
	switch r := g.r.Intn(10); {
	case r < 5:
		return 0
	case r < 7:
		return 1
	case r < 8:
		return 2
	case r < 9:
		return 3
	}
	return 4
}

// maybeSnapshot: a Copy or DeepCopy of the hot scope or of the leaf (at most
// three per history: every live scope is audited after every call); the history
// may go on on the snapshot.
func (g *c12LongGen) maybeSnapshot(p int) {
	if g.copies >= 3 || !g.left() || g.r.Intn(p) != 0 {
		return
	}
	g.copies++
	src := g.hot()
	if g.r.Intn(3) == 0 {
		src = g.leaf()
	}
	k := "Copy"
	if g.r.Intn(2) == 0 {
		k = "DeepCopy"
	}
	nh := g.nextH
	if !g.push(c12Op{K: k, S: src, A: -1, X: -1, New: nh}) {
		return
	}
	if src == g.hot() && g.r.Intn(3) == 0 {
		// go on on the snapshot. A Copy shares the enclosing scopes of the original; the enclosing
		// scopes of a DeepCopy have no handle, so only the copy itself is addressed from here on.
		// Either way the scopes below the original stay with the original.
		if k == "DeepCopy" {
			g.chain, g.hotPos = []int{nh}, 0
		} else {
			g.chain = append(append([]int(nil), g.chain[:g.hotPos]...), nh)
		}
	}
}

// hotIsRoot: the hot scope has no enclosing scope (so DefineGlobal from below reaches it)
func (g *c12LongGen) hotIsRoot() bool {
	s := g.w.scopes[g.hot()]
	return s != nil && s.parent == nil
}

func (g *c12LongGen) segCycle() {
	names := append([]string(nil), g.few...)
	g.r.Shuffle(len(names), func(i, j int) { names[i], names[j] = names[j], names[i] })
	names = names[:1+g.r.Intn(c12Min(3, len(names)))]
	if g.r.Intn(3) == 0 {
		names = names[:1]
	}
	rounds := g.size(g.budget/(2*len(names)) + 1)
	dm, rm := g.defMode(), g.delMode()
	reverse := g.r.Intn(2) == 0
	g.w.tags["long:cycle"]++
	for r := 0; r < rounds && g.left(); r++ {
		for _, n := range names {
			if !g.define(dm, n) {
				return
			}
		}
		if g.r.Intn(8) == 0 {
			g.push(c12Op{K: "Get", S: g.below(), N: names[0], F: g.r.Intn(2), A: -1, X: -1, New: -1})
		}
		if g.r.Intn(16) == 0 {
			// an unbound delete in between: it removes nothing
			g.push(c12Op{K: "Delete", S: g.hot(), N: "nosuch", A: -1, X: -1, New: -1})
		}
		for i := range names {
			n := names[i]
			if reverse {
				n = names[len(names)-1-i]
			}
			m := rm
			if g.r.Intn(12) == 0 {
				m = g.delMode()
			}
			if !g.remove(m, n) {
				return
			}
		}
		g.maybeSnapshot(400)
	}
}

func (g *c12LongGen) longNames(k int, reuse bool) []string {
	lo := 0
	if !reuse {
		lo = g.nameLo
	}
	// the universe of names is bounded (the sweep looks all of them up)
	if lo+k > 1400 {
		lo = 0
	}
	out := make([]string, k)
	for i := range out {
		out[i] = "v" + strconv.Itoa(lo+i)
	}
	if lo+k > g.nameLo {
		g.nameLo = lo + k
	}
	return out
}

func (g *c12LongGen) segFillDrain() {
	k := g.size(c12Min(g.budget/2+1, 1100))
	repeats := 1 + g.r.Intn(3)
	dm, rm := g.defMode(), g.delMode()
	if dm == 2 || k > 300 {
		// keep the large tables cheap: plain Define
		dm = 0
	}
	g.w.tags["long:fill-drain"]++
	for rep := 0; rep < repeats && g.left(); rep++ {
		names := g.longNames(k, g.r.Intn(2) == 0)
		for _, n := range names {
			if !g.define(dm, n) {
				return
			}
		}
		g.maybeSnapshot(6)
		order := g.r.Intn(3)
		switch order {
		case 1:
			for i, j := 0, len(names)-1; i < j; i, j = i+1, j-1 {
				names[i], names[j] = names[j], names[i]
			}
		case 2:
			g.r.Shuffle(len(names), func(i, j int) { names[i], names[j] = names[j], names[i] })
		}
		rest := 0
		if g.r.Intn(3) == 0 {
			rest = g.r.Intn(k/2 + 1)
		}
		for _, n := range names[:len(names)-rest] {
			if !g.left() {
				return
			}
			if !g.remove(rm, n) {
				return
			}
		}
		g.maybeSnapshot(6)
	}
}

func (g *c12LongGen) segWindow() {
	wsize := g.size(c12Min(g.budget/4+1, 300))
	rounds := g.size(g.budget/2 + 1)
	if rounds < wsize+8 {
		rounds = c12Min(wsize+8+g.r.Intn(wsize+8), g.budget/2+1)
	}
	dm, rm := g.defMode(), g.delMode()
	if dm == 2 {
		dm = 0
	}
	base := g.nameLo
	if base+rounds > 1400 {
		base = 0
	}
	g.w.tags["long:window"]++
	for i := 0; i < rounds && g.left(); i++ {
		if !g.define(dm, "v"+strconv.Itoa(base+i)) {
			return
		}
		if i >= wsize {
			if !g.remove(rm, "v"+strconv.Itoa(base+i-wsize)) {
				return
			}
		}
		g.maybeSnapshot(500)
	}
	if base+rounds > g.nameLo {
		g.nameLo = base + rounds
	}
}

func (g *c12LongGen) segMixed() {
	rounds := g.size(g.budget)
	names := append(append([]string(nil), g.few...), "v0", "v1", "nosuch")
	g.w.tags["long:mixed"]++
	for i := 0; i < rounds && g.left(); i++ {
		n := names[g.r.Intn(len(names))]
		// mostly the hot scope, sometimes a neighbour
		s := g.hot()
		if g.r.Intn(4) == 0 {
			s = g.chain[g.r.Intn(len(g.chain))]
		}
		switch r := g.r.Intn(20); {
		case r < 6:
			g.push(c12Op{K: "Define", S: s, N: n, V: g.val(), F: g.r.Intn(5), A: -1, X: -1, New: -1})
		case r < 9:
			g.push(c12Op{K: "Set", S: g.below(), N: n, V: g.val(), F: g.r.Intn(5), A: -1, X: -1, New: -1})
		case r < 13:
			g.push(c12Op{K: "Delete", S: s, N: n, A: -1, X: -1, New: -1})
		case r < 15:
			g.push(c12Op{K: "DeleteGlobal", S: g.below(), N: n, A: -1, X: -1, New: -1})
		case r < 16:
			g.push(c12Op{K: "Get", S: g.below(), N: n, F: g.r.Intn(2), A: -1, X: -1, New: -1})
		case r < 17:
			g.push(c12Op{K: "Addr", S: g.below(), N: n, A: -1, X: -1, New: -1})
		case r < 18:
			switch g.r.Intn(3) {
			case 0:
				g.push(c12Op{K: "GetValueSymbols", S: s, A: -1, X: -1, New: -1})
			case 1:
				g.push(c12Op{K: "String", S: s, A: -1, X: -1, New: -1})
			default:
				g.push(c12Op{K: "GetEnvFromPath", S: g.below(), P: []string{[]string{"m", n}[g.r.Intn(2)]}, A: -1, X: -1, New: -1})
			}
		default:
			g.push(c12Op{K: "Stmt", S: s, N: n, V: g.val(), F: g.r.Intn(c12StFormCount), A: -1, X: -1, New: -1})
		}
		g.maybeSnapshot(600)
	}
}

func (g *c12LongGen) segSetStorm() {
	rounds := g.size(g.budget)
	n := g.few[g.r.Intn(len(g.few))]
	g.w.tags["long:set-storm"]++
	if !g.define(0, n) {
		return
	}
	for i := 0; i < rounds && g.left(); i++ {
		switch r := g.r.Intn(40); {
		case r == 0:
			// the nearest binding moves below the hot scope ...
			g.push(c12Op{K: "Define", S: g.leaf(), N: n, V: g.val(), A: -1, X: -1, New: -1})
		case r == 1:
			// ... and back
			g.push(c12Op{K: "Delete", S: g.leaf(), N: n, A: -1, X: -1, New: -1})
		case r == 2:
			g.push(c12Op{K: "Delete", S: g.hot(), N: n, A: -1, X: -1, New: -1})
		case r == 3:
			g.define(g.defMode(), n)
		default:
			g.push(c12Op{K: "Set", S: g.below(), N: n, V: g.val(), F: g.r.Intn(5), A: -1, X: -1, New: -1})
		}
		g.maybeSnapshot(600)
	}
}

func (g *c12LongGen) segTypeFill() {
	k := g.size(c12Min(g.budget, 300))
	g.w.tags["long:type-fill"]++
	for i := 0; i < k && g.left(); i++ {
		n := "T" + strconv.Itoa(i)
		if g.r.Intn(6) == 0 {
			n = "T" + strconv.Itoa(g.r.Intn(i+1)) // a redefinition
		}
		op := c12Op{K: "DefineType", S: g.hot(), N: n, T: g.r.Intn(len(c12Types)), F: g.r.Intn(3), A: -1, X: -1, New: -1}
		if g.hotIsRoot() && g.r.Intn(4) == 0 {
			op.K, op.S = "DefineGlobalType", g.below()
		}
		if !g.push(op) {
			return
		}
		if g.r.Intn(10) == 0 {
			g.push(c12Op{K: "Type", S: g.below(), N: "T" + strconv.Itoa(g.r.Intn(i+1)), A: -1, X: -1, New: -1})
		}
		g.maybeSnapshot(200)
	}
}

func (g *c12LongGen) segChurn() {
	n := g.few[g.r.Intn(len(g.few))]
	g.w.tags["long:churn"]++
	reps := 1 + g.r.Intn(3)
	for rep := 0; rep < reps && g.left(); rep++ {
		count := g.size(1100)
		f := g.r.Intn(3)
		if f == 2 && count > 300 {
			count = g.size(300)
		}
		g.budget -= count / 4 // a churn call is many API calls
		if !g.push(c12Op{K: "Churn", S: g.below(), N: n, V: count, F: f, A: -1, X: -1, New: -1}) {
			return
		}
	}
}

// c12GenerateLong builds and executes one long history of about `length` calls.
func c12GenerateLong(r *rand.Rand, length int) ([]c12Op, *c12World) {
	g := &c12LongGen{r: r, w: c12NewWorld(false), budget: length + 40}
	// the chain: 2-4 scopes, the hot one anywhere on it
	depth := 2 + r.Intn(3)
	g.push(c12Op{K: "NewRoot", S: -1, A: -1, X: -1, New: 0})
	g.chain = []int{0}
	for d := 1; d < depth && !g.dead; d++ {
		h := g.nextH
		if r.Intn(5) == 0 {
			g.push(c12Op{K: "NewModule", S: g.chain[d-1], N: "m", A: -1, X: -1, New: h})
		} else {
			g.push(c12Op{K: "NewEnv", S: g.chain[d-1], A: -1, X: -1, New: h})
		}
		g.chain = append(g.chain, h)
	}
	g.hotPos = r.Intn(depth)
	if r.Intn(3) == 0 {
		g.hotPos = depth - 1 // nothing below: the scope a script runs in
	}
	// the few names the cycles run on: pool names (looked up from every scope after every call) and one other
	all := []string{"a", "b", "x", "tmp"}
	r.Shuffle(len(all), func(i, j int) { all[i], all[j] = all[j], all[i] })
	g.few = all[:1+r.Intn(3)]
	// every few name is bound above the hot scope (what a lookup must fall through to once the
	// hot scope's binding is gone), sometimes below it, and sometimes a lookup object supplies it
	for pos, h := range g.chain {
		for _, n := range g.few {
			p := 7
			if pos >= g.hotPos {
				p = 1
			}
			if r.Intn(10) < p {
				g.push(c12Op{K: "Define", S: h, N: n, V: g.val(), A: -1, X: -1, New: -1})
			}
		}
	}
	if r.Intn(4) == 0 && !g.dead {
		x := r.Intn(3)
		n := g.few[r.Intn(len(g.few))]
		op := c12Op{K: "ExtPut", X: x, N: n, V: g.val(), A: -1, New: -1}
		if r.Intn(4) == 0 {
			op.F = c12FormROField + r.Intn(3)
		}
		g.push(op)
		at := g.chain[r.Intn(len(g.chain))]
		g.push(c12Op{K: "SetExternalLookup", S: at, X: x, A: -1, New: -1})
	}
	for g.left() {
		switch k := r.Intn(20); {
		case k < 7:
			g.segCycle()
		case k < 11:
			g.segFillDrain()
		case k < 13:
			g.segWindow()
		case k < 15:
			g.segMixed()
		case k < 17:
			g.segSetStorm()
		case k < 18:
			g.segTypeFill()
		default:
			g.segChurn()
		}
		g.maybeSnapshot(3)
	}
	if g.dead {
		return g.ops, g.w
	}
	// the end: a copy and a deep copy of the hot scope (each followed by a sweep over every name the history
	// used), then a delete-nearest drain from every live scope, which exposes bindings that should be gone
	g.budget = 1 << 20
	for _, k := range []string{"Copy", "DeepCopy"} {
		if !g.push(c12Op{K: k, S: g.hot(), A: -1, X: -1, New: g.nextH}) {
			return g.ops, g.w
		}
	}
	for _, h := range append([]int(nil), g.w.order...) {
		for _, n := range g.few {
			for k := 0; k < 40; k++ {
				if t, _ := g.w.scopes[h].nearestTable(n); t == nil {
					break
				}
				if !g.push(c12Op{K: "DeleteGlobal", S: h, N: n, A: -1, X: -1, New: -1}) {
					return g.ops, g.w
				}
			}
		}
	}
	return g.ops, g.w
}

// c12LongLength: the number of calls of long history idx. Quick: 300-2600, a
// sixth of the histories long enough for more than 1024 removals from one scope.
func c12LongLength(r *rand.Rand, tier string) int {
	switch k := r.Intn(12); {
	case k < 6:
		return 300 + r.Intn(600)
	case k < 10:
		return 900 + r.Intn(900)
	}
	if tier == "thorough" && r.Intn(3) == 0 {
		return 2600 + r.Intn(2000)
	}
	return 1800 + r.Intn(800)
}

func c12LongCases(tier string) int {
	if tier == "thorough" {
		return 3000
	}
	return 160
}

func c12RunLong(c *wk.Case) {
	c.Begin(map[string]interface{}{"long": c.Index})
	ops, w := c12GenerateLong(c.Rng, c12LongLength(c.Rng, c.Tier))
	c.Tag("long-history")
	c.Count("long_sweeps", w.sweeps)
	c.Count("script_statements", w.stmtCalls)
	c.Count("churn_scopes", w.churnCalls)
	c.Count("long_history_calls", len(ops))
	c12Report(c, "long", ops, w)
}

// ---------------------------------------------------------------------------
// fixed histories of round 7

func c12stmt(s int, n string, f, v int) c12Op {
	return c12Op{K: "Stmt", S: s, N: n, V: v, F: f, A: -1, X: -1, New: -1}
}

func c12FixedR7() [][]c12Op {
	var out [][]c12Op
	// 300 define/delete rounds on one name of a child scope whose parent binds the name too
	h := []c12Op{c12new("NewRoot", -1, 0), c12def("Define", 0, "a", 5), c12new("NewEnv", 0, 1)}
	for i := 0; i < 300; i++ {
		h = append(h, c12def("Define", 1, "a", 1000+i), c12def("Delete", 1, "a", 0))
	}
	out = append(out, h)
	// 260 names bound in a root scope, removed in the order they were bound; again, removed in reverse
	h = []c12Op{c12new("NewRoot", -1, 0)}
	for rep := 0; rep < 2; rep++ {
		for i := 0; i < 260; i++ {
			h = append(h, c12def("Define", 0, "v"+strconv.Itoa(i), 1000+i))
		}
		for i := 0; i < 260; i++ {
			j := i
			if rep == 1 {
				j = 259 - i
			}
			h = append(h, c12def("Delete", 0, "v"+strconv.Itoa(j), 0))
		}
	}
	out = append(out, h)
	// delete-nearest from a leaf removes the binding of the scope in the middle, 140 times; then the script spellings
	h = []c12Op{c12new("NewRoot", -1, 0), c12new("NewEnv", 0, 1), c12new("NewEnv", 1, 2), c12def("Define", 0, "x", 5)}
	for i := 0; i < 140; i++ {
		h = append(h, c12def("Define", 1, "x", 1000+i), c12def("DeleteGlobal", 2, "x", 0))
	}
	for i := 0; i < 140; i++ {
		h = append(h, c12stmt(1, "x", c12StVar, 2000+i), c12stmt(1, "x", c12StUse, 0), c12stmt(2, "x", c12StUseFunc, 0), c12stmt(1+i%2, "x", []int{c12StDelete, c12StDeleteG}[i%2], 0), c12stmt(2, "x", c12StUse, 0))
	}
	out = append(out, h)
	// lookup objects answering values read out of unexported struct fields: every lookup of such a name is an error,
	// nothing panics, nothing changes; a binding in the scope's own table still wins, the enclosing binding does not
	h = []c12Op{c12new("NewRoot", -1, 0), c12new("NewEnv", 0, 1), c12new("NewEnv", 1, 2), c12def("Define", 0, "a", 101), c12def("Define", 0, "b", 102),
		{K: "ExtPut", X: 0, N: "a", V: 103, F: c12FormROField, A: -1, New: -1}, {K: "ExtPut", X: 0, N: "b", V: 2, F: c12FormROCell, A: -1, New: -1},
		{K: "ExtPut", X: 0, N: "x", V: 104, F: c12FormROStruct, A: -1, New: -1}, {K: "ExtPut", X: 0, N: "m", A: 0, F: c12FormROCell, New: -1},
		{K: "SetExternalLookup", S: 1, X: 0, A: -1, New: -1}}
	for _, n := range []string{"a", "b", "x", "m"} {
		h = append(h, c12get(2, n, 0), c12get(2, n, 1), c12get(1, n, 0), c12get(1, n, 1), c12Op{K: "Addr", S: 2, N: n, A: -1, X: -1, New: -1}, c12Op{K: "Addr", S: 1, N: n, A: -1, X: -1, New: -1},
			c12path(2, n), c12path(2, n, "a"), c12stmt(2, n, c12StUse, 0), c12stmt(2, n, c12StUseArray, 0), c12stmt(2, n, c12StUseFunc, 0), c12stmt(1, n, c12StUseAddr, 0), c12get(0, n, 0))
	}
	h = append(h, c12new("Copy", 1, 3), c12new("DeepCopy", 2, 4), c12get(3, "a", 0), c12get(4, "a", 1), c12op("String", 1),
		c12def("Define", 1, "a", 105), c12get(2, "a", 0), c12stmt(2, "a", c12StUse, 0), c12def("Delete", 1, "a", 0), c12get(2, "a", 0),
		c12Op{K: "ExtDel", X: 0, N: "a", A: -1, New: -1}, c12get(2, "a", 0), c12stmt(2, "a", c12StUse, 0),
		c12Op{K: "SetExternalLookup", S: 1, X: -1, A: -1, New: -1}, c12get(2, "b", 0), c12stmt(2, "b", c12StUseArray, 0))
	out = append(out, h)
	// children, copies and deep copies by the hundred; a window of 64 live bindings sliding over 400 names
	h = []c12Op{c12new("NewRoot", -1, 0), c12def("Define", 0, "a", 5), c12def("Define", 0, "b", 6), c12new("NewEnv", 0, 1), c12def("Define", 1, "a", 7),
		{K: "Churn", S: 1, N: "a", V: 300, F: 0, A: -1, X: -1, New: -1}, {K: "Churn", S: 1, N: "a", V: 300, F: 1, A: -1, X: -1, New: -1}, {K: "Churn", S: 1, N: "b", V: 130, F: 2, A: -1, X: -1, New: -1}}
	for i := 0; i < 400; i++ {
		h = append(h, c12def("Define", 1, "v"+strconv.Itoa(i), 1000+i))
		if i >= 64 {
			h = append(h, c12def("Delete", 1, "v"+strconv.Itoa(i-64), 0))
		}
	}
	h = append(h, c12new("Copy", 1, 2), c12new("DeepCopy", 1, 3))
	out = append(out, h)
	return out
}

func init() {
	c12Fixed = append(c12Fixed, c12FixedR7()...)
}

func c12LongChunk(tier string) int {
	if tier == "thorough" {
		return 100
	}
	return 10
}
