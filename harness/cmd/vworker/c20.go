package main

// C20 — a value behaves the same wherever it came from.
//
// Statement: "The result of every operation depends only on the values of its
// operands, never on how they were obtained: an operand read from a variable,
// from a slice or map element, from a struct field, returned by a script
// function, or returned by a Go function declared to return interface{} behaves
// identically in every operator, statement and call position (same result value
// and dynamic type, same error-or-success). In particular a value keeps its
// dynamic type through any number of such hops."
//
// Monitor: a metamorphic relation. An operation template with an operand hole
// $X (and sometimes $Y) is instantiated once with the hole filled by a plain
// variable `v` (the reference) and once per provenance chain with the hole
// filled by an expression that yields the very same value object after 1..3
// hops (element of a list, map entry, member, interface-typed struct field,
// script call result, script parameter, Go function returning interface{} or
// several values, parentheses, ternary arm, ??, `var`-defined variable, channel
// receive, module member, element of a typed slice ...). Every instantiation runs in a FRESH environment with FRESH
// operand objects. Observed per instantiation:
//   - outcome class (ok / error / panic),
//   - the result rendered with its dynamic types (ank.Render), its
//     reflect.TypeOf, and whether it IS the operand object (identity of
//     pointers, channels, functions, maps, slices — never a printed address),
//   - the effects: the operand objects inspected from Go after the run
//     (contents of the list/map/struct/pointer target, the items left in a
//     channel and whether it is closed, the log of the calls the function
//     operands and the Go helper functions received) and, when the hole is an
//     assignable place, a follow-up re-read of the hole.
// Oracle: every observation of the variant equals the observation of the
// reference. Error TEXTS are not compared (the statement says "same
// error-or-success"), except for `throw`, whose message is the thrown value.
//
// Excluded (each is not a provenance defect; see DESIGN.md C20):
//   - `a, b = <index expr>`: the grammar makes it the comma-ok statement, so the
//     destructuring template is not instantiated with a hole that is
//     syntactically an index expression;
//   - `&$X`: an address depends on the storage location by definition;
//   - the VALUE of `$X++` / `$X op= e` / `$X = e`: only the effect is compared
//     (follow-up read of the hole), and only for assignable holes (the templates
//     add-assign-value / inc-value / add-assign-str-value compare the value of `$X op= e` /
//     `$X++` too; generated once c20PendingFix_storeExprValue is false). A parenthesised place
//     counts as assignable once c20PendingFix_parenTarget is false;
//   - element stores into a string and appending stores (`$X[len] = e`): the
//     container is rebuilt and re-bound, so the hole must be assignable;
//   - field stores into struct VALUES (a struct inside interface{} is a
//     non-addressable copy in Go itself): pointer-to-struct operands only;
//     likewise a pointer-receiver method or an element store on a struct / array
//     VALUE when the hole itself is an addressable typed location (ts[0].Inc());
//   - stores through a hole that is a TYPED place (element of a []T, field typed T)
//     unless the stored value has type T: the place converts what it receives (C10);
//   - the loop variable of for-in is not one of the statement's hops; it is used as a
//     binding hop in phase typed for non-pointer operands only (for-in hands out
//     what a pointer element points to - the same for every provenance of the list).
//
// Operand kinds beyond the script's own: named types of basic kinds with methods
// (string, int64, float64, bool), values implementing non-empty interfaces (error
// with a pointer receiver, fmt.Stringer as a struct value, io.Reader), a Go array.
// Typed ADDRESSABLE provenances for every kind (Go helpers build a []T, a
// *struct{F T}, a *T, a map[string]T around the operand by reflection): the value
// read from such a location and then bound to a name / parameter / result must
// still be the same value of the same dynamic type (phase typed: every typed
// location x every binding hop), and must be a VALUE (the live-* templates: it
// does not follow a later store into the location).
//
// Arguments are values (templates param-*): a script callee that stores into a field /
// element of its parameter changes the caller's operand, or does not, in the same way for
// every argument expression and every call path. Concurrent evaluations of one call site
// whose callee is given by an expression: c20_concur.go.
//
// Phase live (c20_r5live.go): the operand is read from a place holding a value of any kind
// (Go arrays, structs, maps, channels ... included) and the place is stored to while the
// operation is still under way; reference = the same program with id(place) in that position.
//
// Round 6 (c20_r6.go): struct values whose POINTER type is a Stringer / an error and a large Go array as
// operand kinds; ==, !=, in, switch with operands of different provenances; phase bindpos (the operation
// runs inside the construct that binds the hole's name; reference = the name bound by `=`).
//
// c20PendingFix_* constants: input classes on which the unchanged tree violates the
// statement (C20-genuine.md); they are generated only when the constant is false.

import (
	"context"
	"errors"
	"fmt"
	"io"
	"io/ioutil"
	"reflect"
	"regexp"
	"sort"
	"strings"
	"sync"
	"time"

	"github.com/mattn/anko/core"
	"github.com/mattn/anko/env"
	"github.com/mattn/anko/vm"

	"verifharness/internal/ank"
	"verifharness/internal/fw"
	"verifharness/internal/wk"
)

// ---------------------------------------------------------------------------
// host types and per-instantiation state

type c20S struct {
	A int64
	B string
	I interface{}
}

func (s c20S) Get() int64  { return s.A }
func (s *c20S) Inc() int64 { s.A++; return s.A }

type c20Box struct{ V interface{} }

// named types of basic kinds with methods: the dynamic type (and with it the
// method set) is all that tells them from a plain string / int64 / float64 / bool
type c20Color string

func (c c20Color) Hex() string {
	switch c {
	case "red":
		return "#ff0000"
	case "blue":
		return "#0000ff"
	}
	return "#000000"
}
func (c c20Color) String() string { return "Color(" + string(c) + ")" }

type c20Dur int64

func (d c20Dur) Double() c20Dur { return d * 2 }
func (d c20Dur) String() string { return fmt.Sprintf("%dticks", int64(d)) }

type c20Temp float64

func (t c20Temp) Kelvin() float64 { return float64(t) + 273 }

type c20Flag bool

func (f c20Flag) Word() string {
	if f {
		return "on"
	}
	return "off"
}

// values implementing non-empty interfaces (error, fmt.Stringer, io.Reader)
type c20Err struct{ Msg string }

func (e *c20Err) Error() string { return "c20Err:" + e.Msg }

type c20Named struct{ N string }

func (n c20Named) String() string { return "Named(" + n.N + ")" }

type c20Rd struct {
	Data string
	Pos  int
}

func (r *c20Rd) Read(p []byte) (int, error) {
	if r.Pos >= len(r.Data) {
		return 0, io.EOF
	}
	n := copy(p, r.Data[r.Pos:])
	r.Pos += n
	return n, nil
}

type c20Hexer interface{ Hex() string }

// c20H has fields of non-empty interface types and of named basic types
type c20H struct {
	Err error
	S   fmt.Stringer
	C   c20Color
	D   c20Dur
}

var c20IfaceType = reflect.TypeOf((*interface{})(nil)).Elem()

// c20DynType is the dynamic type of x (interface{} for nil)
func c20DynType(x interface{}) reflect.Type {
	if x == nil {
		return c20IfaceType
	}
	return reflect.TypeOf(x)
}

// typed, addressable Go locations holding x with exactly its dynamic type: an
// element of a []T, the field F of a *struct{F T}, the target of a *T, and an
// entry of a map[string]T (not addressable, but typed)
func c20TypedSlice(x interface{}) interface{} {
	s := reflect.MakeSlice(reflect.SliceOf(c20DynType(x)), 1, 1)
	if x != nil {
		s.Index(0).Set(reflect.ValueOf(x))
	}
	return s.Interface()
}

func c20TypedField(x interface{}) interface{} {
	p := reflect.New(reflect.StructOf([]reflect.StructField{{Name: "F", Type: c20DynType(x)}}))
	if x != nil {
		p.Elem().Field(0).Set(reflect.ValueOf(x))
	}
	return p.Interface()
}

func c20TypedCell(x interface{}) interface{} {
	p := reflect.New(c20DynType(x))
	if x != nil {
		p.Elem().Set(reflect.ValueOf(x))
	}
	return p.Interface()
}

func c20TypedMap(x interface{}) interface{} {
	t := c20DynType(x)
	m := reflect.MakeMap(reflect.MapOf(reflect.TypeOf(""), t))
	if x != nil {
		m.SetMapIndex(reflect.ValueOf("k"), reflect.ValueOf(x))
	} else {
		m.SetMapIndex(reflect.ValueOf("k"), reflect.Zero(t))
	}
	return m.Interface()
}

type c20State struct {
	env  *env.Env
	mu   sync.Mutex
	log  []string
	base map[string]interface{} // "v", "w": the operand objects as Go sees them
}

func (st *c20State) addLog(s string) {
	st.mu.Lock()
	st.log = append(st.log, s)
	st.mu.Unlock()
}

func (st *c20State) logLen() int {
	st.mu.Lock()
	defer st.mu.Unlock()
	return len(st.log)
}

func (st *c20State) logString() string {
	st.mu.Lock()
	defer st.mu.Unlock()
	return strings.Join(st.log, " | ")
}

// c20NewState builds a fresh environment: core builtins, the provenance
// helpers (id, box, pbox), Go callees of several signatures that report what
// they received, and fresh shared targets for the store templates.
func c20NewState() *c20State {
	st := &c20State{env: ank.NewCoreEnv(), base: map[string]interface{}{}}
	e := st.env
	core.ImportToX(e)
	e.Define("id", func(x interface{}) interface{} { return x })
	e.Define("id2", func(x interface{}) (interface{}, int64) { return x, 1 })
	e.Define("box", func(x interface{}) c20Box { return c20Box{V: x} })
	e.Define("pbox", func(x interface{}) *c20Box { return &c20Box{V: x} })
	e.Define("glog", func(xs ...interface{}) { st.addLog(ank.Render(xs)) })
	e.Define("gi", func(x interface{}) string { return ank.Render(x) })
	e.Define("gint", func(x int64) int64 { return x + 100 })
	e.Define("gflt", func(x float64) float64 { return x + 0.5 })
	e.Define("gstr", func(s string) string { return s + "!" })
	e.Define("gbool", func(b bool) bool { return !b })
	e.Define("gsl", func(xs []interface{}) string { return ank.Render(xs) })
	e.Define("gisl", func(xs []int64) string { return ank.Render(xs) })
	e.Define("gmap", func(m map[interface{}]interface{}) string { return ank.Render(m) })
	e.Define("g2", func(a, b interface{}) string { return ank.Render([]interface{}{a, b}) })
	e.Define("gv", func(xs ...interface{}) string { return ank.Render(xs) })
	e.Define("gvi", func(xs ...int64) int64 {
		var s int64
		for _, x := range xs {
			s += x
		}
		return s
	})
	e.Define("gfn", func(f func(int64) int64) int64 { return f(5) })
	e.Define("gptr", func(p *int64) int64 {
		if p == nil {
			return -1
		}
		return *p
	})
	e.Define("gch", func(c chan interface{}) int { return cap(c) })
	e.Define("gst", func(s c20S) int64 { return s.A })
	e.Define("gps", func(s *c20S) int64 {
		if s == nil {
			return -1
		}
		return s.A
	})
	e.Define("ps", &c20S{A: 1, B: "b"})
	pi := new(int64)
	e.Define("pi", pi)
	e.Define("ch", make(chan interface{}, 2))
	e.Define("ci", make(chan int64, 2))

	// callees whose parameters have NON-EMPTY interface types or named basic types,
	// and one that looks at the dynamic type's method set through fmt
	e.Define("gerr", func(x error) string {
		if x == nil {
			return "<nil error>"
		}
		return fmt.Sprintf("%T:", x) + x.Error()
	})
	e.Define("gstringer", func(x fmt.Stringer) string {
		if x == nil {
			return "<nil Stringer>"
		}
		return fmt.Sprintf("%T:", x) + x.String()
	})
	e.Define("grd", func(r io.Reader) string {
		if r == nil {
			return "<nil Reader>"
		}
		b, err := ioutil.ReadAll(r)
		return fmt.Sprintf("%T:%q:%v", r, b, err)
	})
	e.Define("ghex", func(x c20Hexer) string {
		if x == nil {
			return "<nil Hexer>"
		}
		return fmt.Sprintf("%T:", x) + x.Hex()
	})
	e.Define("gerrs", func(xs ...error) string {
		var parts []string
		for _, x := range xs {
			if x == nil {
				parts = append(parts, "<nil>")
			} else {
				parts = append(parts, fmt.Sprintf("%T:", x)+x.Error())
			}
		}
		return strings.Join(parts, ",")
	})
	e.Define("gperr", func(x *c20Err) string {
		if x == nil {
			return "<nil *c20Err>"
		}
		return x.Msg
	})
	e.Define("gcolor", func(c c20Color) string { return "color:" + c.Hex() })
	e.Define("gdur", func(d c20Dur) c20Dur { return d + 1 })
	e.Define("gtemp", func(t c20Temp) float64 { return t.Kelvin() })
	e.Define("gflag", func(f c20Flag) string { return f.Word() })
	e.Define("gshow", func(x interface{}) string { return fmt.Sprintf("%T|%v", x, x) })
	e.Define("gcbr1", func(f func() interface{}) string { return ank.Render(f()) })
	e.Define("gcbr3", func(f func() (int64, int64, int64)) int64 { a, b, c := f(); return a*100 + b*10 + c })
	e.Define("gcbri2", func(f func() (interface{}, interface{})) string {
		a, b := f()
		return ank.Render([]interface{}{a, b})
	})
	e.Define("gcb1", func(f func(interface{}) interface{}, x interface{}) interface{} { return f(x) })
	e.Define("gset", func(p *int64) {
		if p != nil {
			*p = 77
		}
	})
	e.DefineReflectType("error", reflect.TypeOf((*error)(nil)).Elem())
	e.DefineReflectType("Stringer", reflect.TypeOf((*fmt.Stringer)(nil)).Elem())
	e.DefineReflectType("Reader", reflect.TypeOf((*io.Reader)(nil)).Elem())
	e.DefineType("Color", c20Color(""))
	e.DefineType("Dur", c20Dur(0))
	e.Define("ph", &c20H{})
	e.Define("ce", make(chan error, 2))
	// typed locations for the provenance atoms
	e.Define("tsl", c20TypedSlice)
	e.Define("pfl", c20TypedField)
	e.Define("pto", c20TypedCell)
	e.Define("tmp", c20TypedMap)
	c20R6Define(st)
	return st
}

// ---------------------------------------------------------------------------
// operand values

type c20Val struct {
	kind  string
	isNil bool
	mk    func(st *c20State, name string)
}

func c20Go(kind string, f func() interface{}) c20Val {
	return c20Val{kind: kind, mk: func(st *c20State, name string) {
		x := f()
		st.env.Define(name, x)
		st.base[name] = x
	}}
}

func c20Script(kind, body string) c20Val {
	return c20Val{kind: kind, mk: func(st *c20State, name string) {
		// $N in the body is the operand's name: a function operand reports WHICH function ran
		ank.Exec(st.env, name+" = "+strings.ReplaceAll(body, "$N", name))
		x, _ := st.env.Get(name)
		st.base[name] = x
	}}
}

// c20Nil marks a value as nil-like: `v ?? 0` is not a provenance of it
func c20Nil(v c20Val) c20Val { v.isNil = true; return v }

func c20MakeVals() []c20Val {
	vs := []c20Val{
		c20Go("int", func() interface{} { return int64(2) }),
		c20Go("zero", func() interface{} { return int64(0) }),
		c20Go("big", func() interface{} { return int64(5000) }),               // outside the small-int cache
		c20Go("huge", func() interface{} { return int64(9007199254740993) }),  // not representable in float64
		c20Nil(c20Go("nilslice", func() interface{} { return []int64(nil) })), // typed nil values
		c20Nil(c20Go("nilmap", func() interface{} { return map[string]int64(nil) })),
		c20Nil(c20Go("nilptr", func() interface{} { return (*int64)(nil) })),
		c20Go("float", func() interface{} { return float64(2.5) }),
		c20Go("str", func() interface{} { return "abc" }),
		c20Go("strnum", func() interface{} { return "1" }),
		c20Go("true", func() interface{} { return true }),
		c20Go("false", func() interface{} { return false }),
		{kind: "nil", isNil: true, mk: func(st *c20State, name string) { st.env.Define(name, nil); st.base[name] = nil }},
		c20Go("list", func() interface{} { return []interface{}{int64(1), int64(2), int64(3)} }),
		c20Go("elist", func() interface{} { return []interface{}{} }),
		c20Go("map", func() interface{} { return map[interface{}]interface{}{"k": int64(7)} }),
		c20Go("tslice", func() interface{} { return []int64{4, 5, 6} }),
		c20Go("tstrs", func() interface{} { return []string{"a", "b"} }),
		c20Go("tmap", func() interface{} { return map[string]int64{"k": 7} }),
		c20Go("struct", func() interface{} { return c20S{A: 5, B: "b", I: int64(9)} }),
		c20Go("pstruct", func() interface{} { return &c20S{A: 5, B: "b", I: int64(9)} }),
		c20Go("ptrint", func() interface{} { p := new(int64); *p = 1; return p }),
		c20Go("chan", func() interface{} { c := make(chan interface{}, 4); c <- int64(11); return c }),
		c20Go("chanc", func() interface{} { c := make(chan interface{}, 4); c <- int64(11); c <- int64(12); close(c); return c }),
		c20Script("sfunc", `func(a){ glog("sfunc $N", a); return a + 1 }`),
		c20Script("sfuncv", `func(a...){ glog("sfuncv $N", a); return a }`),
		c20Go("i32", func() interface{} { return int32(2) }),
		c20Go("f32", func() interface{} { return float32(1.5) }),
		c20Go("u8", func() interface{} { return uint8(3) }),
		// named types of basic kinds with methods
		c20Go("ncolor", func() interface{} { return c20Color("red") }),
		c20Go("ndur", func() interface{} { return c20Dur(2) }),
		c20Go("ntemp", func() interface{} { return c20Temp(2.5) }),
		c20Go("nflag", func() interface{} { return c20Flag(true) }),
		// values implementing non-empty interfaces: error (pointer receiver), fmt.Stringer (struct value), io.Reader
		c20Go("errp", func() interface{} { return &c20Err{Msg: "boom"} }),
		c20Go("stringer", func() interface{} { return c20Named{N: "n"} }),
		c20Go("reader", func() interface{} { return &c20Rd{Data: "abc"} }),
		c20Go("errlist", func() interface{} { return []interface{}{&c20Err{Msg: "e1"}, &c20Err{Msg: "e2"}} }),
		c20Go("array", func() interface{} { return [3]int64{1, 2, 3} }),
	}
	// Go functions need the state for their log
	vs = append(vs,
		c20Val{kind: "gofunc", mk: func(st *c20State, name string) {
			f := func(x int64) int64 { st.addLog(fmt.Sprintf("gofunc %s(%d)", name, x)); return x * 10 }
			st.env.Define(name, f)
			st.base[name] = f
		}},
		c20Val{kind: "gofuncv", mk: func(st *c20State, name string) {
			f := func(xs ...interface{}) int64 { st.addLog("gofuncv " + name + ank.Render(xs)); return int64(len(xs)) }
			st.env.Define(name, f)
			st.base[name] = f
		}},
	)
	// round 6: struct values whose POINTER type is a Stringer / an error, a large Go array (c20_r6.go)
	vs = append(vs, c20R6Vals()...)
	return vs
}

// ---------------------------------------------------------------------------
// provenance atoms

type c20Hole struct {
	pre        []string // statements executed before the operation
	expr       string   // the expression put into the hole
	assignable bool     // the expression designates a place (re-reading it reads the same storage)
	itemSyntax bool     // syntactically an index expression
	boxed      bool     // naming only: the interpreter is expected to carry the value as interface{} here
	// phase bindpos (c20_r6.go): the operation runs INSIDE the construct that binds the hole's name (the
	// body of a for-in loop, of a callee ...): open ... close enclose it, inner runs inside before it
	open, close string
	inner       []string
}

// withPre adds statements that prepare the hole: inside the binding construct once there is one
func (h c20Hole) withPre(stmts ...string) c20Hole {
	if h.open != "" {
		h.inner = append(append([]string{}, h.inner...), stmts...)
	} else {
		h.pre = append(append([]string{}, h.pre...), stmts...)
	}
	return h
}

type c20Atom struct {
	name       string
	nonNilOnly bool
	noChan     bool            // `c <- e` with a channel e forwards an item instead of transporting e
	only       map[string]bool // operand kinds the atom can carry (typed containers)
	assignable bool
	isName     bool // the hole is a plain variable name
	typedPlace bool // an assignable hole whose storage has the operand's static type (a store converts to it)
	typedOnly  bool // used by phase typed only (a binding hop meant to follow a typed location)
	noPtr      bool // not with a pointer operand
	wrap       bool // phase bindpos only: the atom binds a name by a construct the operation runs inside of
	apply      func(h c20Hole, n string) c20Hole
}

func c20MakeAtoms() []c20Atom {
	all := append(c20AllAtoms(), c20R6WrapAtoms()...)
	var atoms []c20Atom
	for _, a := range all {
		if c20PendingFix_nonEmptyIfaceBox && (a.name == "terrelem" || a.name == "tstringerelem" || a.name == "treaderelem") {
			continue
		}
		atoms = append(atoms, a)
	}
	return atoms
}

func c20AllAtoms() []c20Atom {
	expr := func(boxed int, item bool, f func(e string) string) func(h c20Hole, n string) c20Hole {
		return func(h c20Hole, n string) c20Hole {
			b := h.boxed
			if boxed >= 0 {
				b = boxed == 1
			}
			nh := h
			nh.expr, nh.itemSyntax, nh.boxed, nh.assignable = f(h.expr), item, b, false
			return nh
		}
	}
	place := func(boxed int, item bool, pre func(e, n string) []string, ex func(n string) string) func(h c20Hole, n string) c20Hole {
		return func(h c20Hole, n string) c20Hole {
			b := h.boxed
			if boxed >= 0 {
				b = boxed == 1
			}
			nh := h.withPre(pre(h.expr, n)...)
			nh.expr, nh.assignable, nh.itemSyntax, nh.boxed = ex(n), true, item, b
			return nh
		}
	}
	return []c20Atom{
		{name: "elem", apply: expr(1, true, func(e string) string { return "[" + e + "][0]" })},
		{name: "mapent", apply: expr(0, true, func(e string) string { return `{"k": ` + e + `}["k"]` })},
		{name: "member", apply: expr(0, false, func(e string) string { return `{"k": ` + e + `}.k` })},
		{name: "field", apply: expr(1, false, func(e string) string { return "box(" + e + ").V" })},
		{name: "pfield", apply: expr(1, false, func(e string) string { return "pbox(" + e + ").V" })},
		{name: "scall", apply: expr(-1, false, func(e string) string { return "func(){ return " + e + " }()" })},
		{name: "sparam", apply: expr(-1, false, func(e string) string { return "func(p){ return p }(" + e + ")" })},
		{name: "gocall", apply: expr(1, false, func(e string) string { return "id(" + e + ")" })},
		{name: "gomulti", apply: expr(1, true, func(e string) string { return "id2(" + e + ")[0]" })},
		{name: "telem", only: map[string]bool{"int": true, "zero": true, "big": true, "huge": true},
			apply: expr(0, true, func(e string) string { return "[]int64{" + e + "}[0]" })},
		{name: "paren", apply: func(h c20Hole, n string) c20Hole {
			// `a, b = (m[k])` is the comma-ok statement as well: the parser looks through parentheses
			// a parenthesised place is a place (Go: (a) = 5); not generated while c20PendingFix_parenTarget
			nh := h
			nh.expr, nh.assignable = "("+h.expr+")", h.assignable && !c20PendingFix_parenTarget
			return nh
		}},
		{name: "ternary", apply: expr(-1, false, func(e string) string { return "(true ? " + e + " : 0)" })},
		{name: "coalesce", nonNilOnly: true, apply: expr(-1, false, func(e string) string { return "(" + e + " ?? 0)" })},
		{name: "elemvar", assignable: true, apply: place(1, true,
			func(e, n string) []string { return []string{"a" + n + " = [" + e + "]"} },
			func(n string) string { return "a" + n + "[0]" })},
		{name: "mapvar", assignable: true, apply: place(0, true,
			func(e, n string) []string { return []string{"m" + n + ` = {"k": ` + e + "}"} },
			func(n string) string { return "m" + n + `["k"]` })},
		{name: "membervar", assignable: true, apply: place(0, false,
			func(e, n string) []string { return []string{"m" + n + ` = {"k": ` + e + "}"} },
			func(n string) string { return "m" + n + ".k" })},
		{name: "fieldvar", assignable: true, apply: place(1, false,
			func(e, n string) []string { return []string{"b" + n + " = pbox(" + e + ")"} },
			func(n string) string { return "b" + n + ".V" })},
		{name: "letvar", assignable: true, isName: true, apply: place(0, false,
			func(e, n string) []string { return []string{"x" + n + " = " + e} },
			func(n string) string { return "x" + n })},
		{name: "varvar", assignable: true, isName: true, apply: place(-1, false,
			func(e, n string) []string { return []string{"var x" + n + " = " + e} },
			func(n string) string { return "x" + n })},
		{name: "modvar", assignable: true, apply: place(0, false,
			func(e, n string) []string { return []string{"module M" + n + " { x = " + e + " }"} },
			func(n string) string { return "M" + n + ".x" })},
		{name: "tstrelemvar", assignable: true, typedPlace: true, only: map[string]bool{"str": true, "strnum": true}, apply: place(0, true,
			func(e, n string) []string { return []string{"ts" + n + " = []string{" + e + "}"} },
			func(n string) string { return "ts" + n + "[0]" })},
		{name: "strfieldvar", assignable: true, typedPlace: true, only: map[string]bool{"str": true, "strnum": true}, apply: place(0, false,
			func(e, n string) []string {
				return []string{"sf" + n + " = make(struct{S string})", "sf" + n + ".S = " + e}
			},
			func(n string) string { return "sf" + n + ".S" })},
		{name: "letfromtstr", assignable: true, isName: true, only: map[string]bool{"str": true, "strnum": true}, apply: place(0, false,
			func(e, n string) []string {
				return []string{"tq" + n + " = []string{" + e + "}", "xq" + n + " = tq" + n + "[0]"}
			},
			func(n string) string { return "xq" + n })},
		{name: "chanrecv", noChan: true, apply: func(h c20Hole, n string) c20Hole {
			nh := h.withPre("c"+n+" = make(chan interface, 1)", "c"+n+" <- "+h.expr)
			nh.expr, nh.assignable, nh.itemSyntax, nh.boxed = "(<-c"+n+")", false, false, true
			return nh
		}},
		// typed Go locations holding the operand with exactly its dynamic type, for EVERY
		// operand kind (Go helpers build them by reflection): element of a []T, field of a
		// *struct{F T}, target of a *T (all three addressable), entry of a map[string]T
		{name: "tyelem", apply: expr(0, true, func(e string) string { return "tsl(" + e + ")[0]" })},
		{name: "tyfield", apply: expr(0, false, func(e string) string { return "pfl(" + e + ").F" })},
		{name: "tyderef", apply: expr(0, false, func(e string) string { return "(*pto(" + e + "))" })},
		{name: "tymapent", apply: expr(0, true, func(e string) string { return "tmp(" + e + `)["k"]` })},
		{name: "tyelemvar", assignable: true, typedPlace: true, apply: place(0, true,
			func(e, n string) []string { return []string{"ty" + n + " = tsl(" + e + ")"} },
			func(n string) string { return "ty" + n + "[0]" })},
		// element of a typed slice whose element type is a NON-EMPTY interface the operand implements:
		// the element is boxed in `error` / `Stringer` / `Reader`, not in interface{}
		{name: "terrelem", only: map[string]bool{"errp": true},
			apply: expr(1, true, func(e string) string { return "[]error{" + e + "}[0]" })},
		{name: "tstringerelem", only: map[string]bool{"stringer": true, "ncolor": true, "ndur": true},
			apply: expr(1, true, func(e string) string { return "[]Stringer{" + e + "}[0]" })},
		{name: "treaderelem", only: map[string]bool{"reader": true},
			apply: expr(1, true, func(e string) string { return "[]Reader{" + e + "}[0]" })},
		// more binding hops: multi-assignment, the 5+ parameter path, a name returned, a closure
		{name: "mletvar", typedOnly: true, assignable: true, isName: true, apply: place(0, false,
			func(e, n string) []string { return []string{"u" + n + ", x" + n + " = 1, " + e} },
			func(n string) string { return "x" + n })},
		{name: "sparam5", typedOnly: true, apply: expr(-1, false, func(e string) string { return "func(a, b, c, d, p){ return p }(1, 2, 3, 4, " + e + ")" })},
		{name: "retname", typedOnly: true, apply: expr(-1, false, func(e string) string { return "func(){ q = " + e + "; return q }()" })},
		{name: "closure", typedOnly: true, apply: expr(-1, false, func(e string) string { return "func(p){ return func(){ return p } }(" + e + ")()" })},
		// the loop variable of for-in (phase typed only, never with a pointer operand: the
		// statement does not list the loop variable among the hops and for-in hands out
		// what a pointer element points to; see C20-genuine.md, group 5)
		{name: "forinvar", typedOnly: true, noPtr: true, assignable: true, isName: true, apply: place(0, false,
			func(e, n string) []string {
				return []string{"y" + n + " = nil", "for q" + n + " in [" + e + "] { y" + n + " = q" + n + " }"}
			},
			func(n string) string { return "y" + n })},
	}
}

// ---------------------------------------------------------------------------
// Input classes on which the UNCHANGED tree violates the statement (reproducers, the code
// at fault and suggested fixes: /tmp/strengthen/C20-genuine.md). They are kept out of the
// generated domain until /repo is repaired; flip a constant to false to check its class.
const (
	// group 1+8: a name bound from an addressable typed location gets an ADDRESSABLE cell (and a
	// struct/array is not copied at all): `&name` aliases such a name only, a pointer-receiver
	// method or an element store mutates such a name in place
	c20PendingFix_addressableBinding = false
	// group 2: the left operand of a binary operator / an earlier argument of a Go call read
	// from a slot follows a store made while the right operand / a later argument is evaluated
	c20PendingFix_liveOperand = false
	// group 3: the implicit result of a function body (no return statement) read from a slot
	// follows a deferred store
	c20PendingFix_implicitResult = false
	// group 4: slicing a Go array that is not addressable panics in the host
	c20PendingFix_arraySlice = false
	// group 5: switch and `in` compare a boxed pointer as a pointer, an unboxed one by its target
	c20PendingFix_boxedPointerEqual = false
	// group 6: a value boxed in a non-empty interface type (element of []error ...) is not unboxed
	// by the converter
	c20PendingFix_nonEmptyIfaceBox = false
	// group 7: the write-back after f(&name) is decided by the syntax of the argument
	c20PendingFix_addrWriteback = false

	// round 4 (reproducers, code at fault, suggested fixes: /tmp/strengthen/C20-r4-genuine.md)
	// r4-1: the subject of for-in read from an addressable typed slot (field typed []T, element of a
	// [][]T) is not detached: the loop follows stores the body makes into the slot
	c20PendingFix_liveForInSubject = false
	// r4-2: the callee of `defer` (and of a call / `go` that takes the reflect path: Go functions,
	// variadic script functions) read from an addressable typed func slot is not detached: the
	// function stored there when the call is finally made is the one called
	c20PendingFix_liveDeferCallee = false
	// r4-3: the result list of a script callback with several Go results is not unboxed when it is
	// still carried as interface{} (return id([1, 2]))
	c20PendingFix_callbackResultBox = false
	// r4-4: the value of `place op= e` / `place++` used as an expression is the map KEY for a map
	// entry, the whole MAP / MODULE for a member, the new value for a variable / element / field
	c20PendingFix_storeExprValue = false
	// r4-5: a parenthesised place is not accepted as an assignment target ((a) = 5, (a)++, (a)[len] = v)
	c20PendingFix_parenTarget = false
)

// ---------------------------------------------------------------------------
// operation templates

type c20Tmpl struct {
	id                 string
	pre                string          // callee definitions etc., identical in every instantiation
	src                string          // the operation; its value is the result
	follow             string          // extra follow-up script (always run)
	ykind              string          // "" no second hole; "same": a fresh value of the same kind; else a kind name
	effectOnly         bool            // the value of the statement is not compared (compound assignment)
	needAssignable     bool            // only assignable holes
	strNeedsAssignable bool            // for operands the store rebuilds and re-binds (strings; the empty list, where index 0 appends) only assignable holes
	noItemSyntax       bool            // not with a hole that is syntactically an index expression
	errMsg             bool            // the error text is the result (throw)
	async              bool            // the effect arrives from another goroutine
	nameOnly           bool            // only holes that are a plain variable name (possibly parenthesised)
	typeSens           bool            // sensitive to the dynamic type / method set: instantiated in phase typed
	valueOfStore       bool            // the value of a storing expression is compared: like effectOnly for the typed-place rules
	twice              bool            // the hole is evaluated again after the operation: not with a hole whose evaluation consumes something
	kinds              map[string]bool // nil: every operand kind; else the kinds the position is about plus a few controls
	skip               map[string]bool
	yPlain             bool // the second hole is always the plain host variable w: the two operands have DIFFERENT provenances
	hostOnlySkip       bool // `skip` concerns the comparison with a host variable only (phase bindpos compares script-bound names)
}

func c20HugeOK(id string) bool {
	if strings.Contains(id, "-huge-") {
		return true
	}
	for _, p := range []string{"read", "neg", "bitnot", "not", "add-", "sub-", "mul-", "and-", "or-", "eq-", "ne-", "lt-", "le-", "gt-", "ge-", "land-", "lor-", "switch-", "in-", "cond-", "arg-", "lit-", "throw", "member-write", "store-val"} {
		if id == p || strings.HasPrefix(id, p) {
			return !strings.Contains(id, "list") && !strings.Contains(id, "str") && !strings.Contains(id, "range") && !strings.Contains(id, "make")
		}
	}
	return false
}

func c20MakeTmpls() []c20Tmpl {
	var ts []c20Tmpl
	add := func(t c20Tmpl) { ts = append(ts, t) }
	T := func(id, src string) { add(c20Tmpl{id: id, src: src}) }
	skip := func(kinds ...string) map[string]bool {
		m := map[string]bool{}
		for _, k := range kinds {
			m[k] = true
		}
		return m
	}

	T("read", "$X")
	T("neg", "-$X")
	T("bitnot", "^$X")
	T("not", "!$X")
	ops := []struct{ name, op string }{{"add", "+"}, {"sub", "-"}, {"mul", "*"}, {"div", "/"}, {"mod", "%"}, {"and", "&"}, {"or", "|"},
		{"shl", "<<"}, {"shr", ">>"}, {"eq", "=="}, {"ne", "!="}, {"lt", "<"}, {"le", "<="}, {"gt", ">"}, {"ge", ">="}, {"land", "&&"}, {"lor", "||"}}
	for _, o := range ops {
		T(o.name+"-lhs", "$X "+o.op+" 3")
		T(o.name+"-rhs", "3 "+o.op+" $X")
		add(c20Tmpl{id: o.name + "-both", src: "$X " + o.op + " $Y", ykind: "same"})
	}
	// integers beyond 2^53: an operand that silently takes a float64 path shows here
	for _, o := range []struct{ name, op string }{{"lt", "<"}, {"le", "<="}, {"gt", ">"}, {"ge", ">="}, {"eq", "=="}, {"sub", "-"}, {"add", "+"}} {
		T(o.name+"-huge-lhs", "$X "+o.op+" 9007199254740992")
		T(o.name+"-huge-rhs", "9007199254740992 "+o.op+" $X")
	}
	T("add-str-lhs", `$X + "s"`)
	T("add-str-rhs", `"s" + $X`)
	T("add-list-lhs", "$X + [7]")
	T("add-list-rhs", "[7] + $X")
	T("add-tslice-rhs", "[]int64{1} + $X")
	T("repeat-count", `"ab" * $X`)
	T("eq-nil", "$X == nil")
	T("eq-str", `$X == "abc"`)

	T("index-of-0", "$X[0]")
	T("index-of-1", "$X[1]")
	T("index-of-k", `$X["k"]`)
	T("index-idx-list", "[5, 6, 7][$X]")
	T("index-idx-str", `"xyz"[$X]`)
	T("index-idx-tslice", "[]int64{5, 6, 7}[$X]")
	T("index-key-map", `{"k": 1, 2: "two", true: "yes", "abc": 4}[$X]`)
	add(c20Tmpl{id: "index-both", src: "$X[$Y]", ykind: "int"})
	T("slice-of-lo", "$X[1:]")
	T("slice-of-hi", "$X[:1]")
	T("slice-of-lohi", "$X[0:2]")
	T("slice-of-cap", "$X[0:1:2]")
	T("slice-lo", "[5, 6, 7][$X:]")
	T("slice-hi", "[5, 6, 7][:$X]")
	T("slice-cap", "[5, 6, 7, 8][0:1:$X]")
	T("slice-lo-str", `"wxyz"[$X:]`)
	T("len", "len($X)")
	T("in-lhs", `$X in [1, 2, "abc", 2.5, nil, true]`)
	T("in-rhs", "2 in $X")
	T("in-rhs-b", "5 in $X")

	T("call-0", "$X()")
	T("call-1", "$X(2)")
	T("call-2", "$X(2, 3)")
	T("call-spread", "$X([2]...)")
	add(c20Tmpl{id: "arg-sfixed", pre: "f1 = func(a){ return [a, a] }", src: "f1($X)"})
	add(c20Tmpl{id: "arg-svariadic", pre: "fv = func(a...){ return a }", src: "fv($X)"})
	add(c20Tmpl{id: "arg-svariadic-2", pre: "fv = func(a...){ return a }", src: "fv(1, $X)"})
	add(c20Tmpl{id: "arg-sfixed-op", pre: "f1 = func(a){ return -a }", src: "f1($X)"})
	T("arg-go-iface", "gi($X)")
	T("arg-go-int", "gint($X)")
	T("arg-go-float", "gflt($X)")
	T("arg-go-str", "gstr($X)")
	T("arg-go-bool", "gbool($X)")
	T("arg-go-slice", "gsl($X)")
	T("arg-go-islice", "gisl($X)")
	T("arg-go-map", "gmap($X)")
	T("arg-go-variadic", "gv($X)")
	T("arg-go-variadic-2", "gv(1, $X)")
	T("arg-go-ivariadic", "gvi($X)")
	T("arg-go-func", "gfn($X)")
	T("arg-go-ptr", "gptr($X)")
	T("arg-go-chan", "gch($X)")
	T("arg-go-struct", "gst($X)")
	T("arg-go-pstruct", "gps($X)")
	add(c20Tmpl{id: "spread-sfixed", pre: "f2 = func(a, b){ return [b, a] }", src: "f2($X...)"})
	add(c20Tmpl{id: "spread-sfixed-2", pre: "f3 = func(a, b, c){ return [c, b, a] }", src: "f3(0, $X...)"})
	add(c20Tmpl{id: "spread-svariadic", pre: "fv = func(a...){ return a }", src: "fv($X...)"})
	add(c20Tmpl{id: "spread-svariadic-2", pre: "fw = func(z, a...){ return [z, a] }", src: "fw(0, $X...)"})
	T("spread-go-fixed", "g2($X...)")
	T("spread-go-fixed-1", "gint($X...)")
	T("spread-go-variadic", "gv($X...)")
	T("spread-go-variadic-2", "gv(0, $X...)")
	T("spread-go-ivariadic", "gvi($X...)")

	T("member-read-A", "$X.A")
	T("member-read-I", "$X.I")
	T("member-read-k", "$X.k")
	T("member-read-none", "$X.nope")
	T("method-value-recv", "$X.Get()")
	T("method-ptr-recv", "$X.Inc()")
	add(c20Tmpl{id: "member-write-A", src: "$X.A = 7", skip: skip("struct", "verval", "faultval"), hostOnlySkip: true, strNeedsAssignable: true})
	add(c20Tmpl{id: "member-write-I", src: `$X.I = "i"`, skip: skip("struct", "verval", "faultval"), hostOnlySkip: true, strNeedsAssignable: true})
	add(c20Tmpl{id: "member-write-k", src: "$X.k = 7", skip: skip("struct", "verval", "faultval"), hostOnlySkip: true, strNeedsAssignable: true})
	add(c20Tmpl{id: "member-write-new", src: "$X.j = 8", skip: skip("struct", "verval", "faultval"), hostOnlySkip: true, strNeedsAssignable: true})
	T("deref-read", "*$X")
	T("deref-write", "*$X = 5")
	add(c20Tmpl{id: "elem-store-0", src: "$X[0] = 9", strNeedsAssignable: true})
	add(c20Tmpl{id: "elem-store-0s", src: `$X[0] = "z"`, strNeedsAssignable: true})
	add(c20Tmpl{id: "elem-store-k", src: `$X["k"] = 9`, strNeedsAssignable: true})
	add(c20Tmpl{id: "elem-store-append", src: "$X[3] = 9", needAssignable: true})
	add(c20Tmpl{id: "elem-store-append-s", src: "$X[3] = \"z\"", needAssignable: true})
	add(c20Tmpl{id: "elem-store-append-1", src: "$X[1] = \"z\"", needAssignable: true})
	add(c20Tmpl{id: "slice-store", src: "$X[0:1] = [9]", strNeedsAssignable: true})
	T("store-idx-list", "a = [1, 2, 3]\na[$X] = 9\na")
	T("store-key-map", "m = {}\nm[$X] = 1\nm")
	T("store-val-list", "a = [1]\na[0] = $X\na")
	T("store-val-tslice", "t = make([]int64, 1)\nt[0] = $X\nt")
	T("store-val-member", "m = {}\nm.k = $X\nm")
	T("store-val-field", "ps.A = $X\nps")
	T("store-val-ifield", "ps.I = $X\nps")
	T("store-val-str", "t = \"abc\"\nt[0] = $X\nt")
	T("store-val-deref", "*pi = $X\n*pi")

	add(c20Tmpl{id: "forin-1", src: "acc = []\nfor i in ($X) { acc += [i] }\nacc", skip: skip("chan")})
	add(c20Tmpl{id: "forin-2", src: "acc = []\nfor k, w in ($X) { acc += [k, w] }\nacc", skip: skip("chan")})
	T("switch-subject", "r = \"none\"\nswitch ($X) {\ncase 2:\nr = \"two\"\ncase \"abc\":\nr = \"abc\"\ncase true:\nr = \"true\"\ncase nil:\nr = \"nil\"\ncase 2.5:\nr = \"2.5\"\ndefault:\nr = \"dflt\"\n}\nr")
	T("switch-case", "r = \"none\"\nswitch 2 {\ncase $X:\nr = \"hit\"\ndefault:\nr = \"miss\"\n}\nr")
	T("switch-case-multi", "r = \"none\"\nswitch \"abc\" {\ncase 1, $X:\nr = \"hit\"\ndefault:\nr = \"miss\"\n}\nr")
	T("cond-if", "r = \"f\"\nif ($X) { r = \"t\" }\nr")
	T("cond-elseif", "r = \"f\"\nif false { r = \"x\" } else if ($X) { r = \"t\" }\nr")
	T("cond-loop", "n = 0\nfor ($X) {\nn = 1\nbreak\n}\nn")
	T("cond-cfor", "n = 0\nfor i = 0; $X; i++ {\nn = 1\nbreak\n}\nn")
	T("cond-ternary", `$X ? "t" : "f"`)
	T("coalesce-lhs", `$X ?? "dflt"`)
	T("make-len", "make([]int64, $X)")
	T("make-cap", "make([]int64, 2, $X)")
	T("make-chan", "make(chan int64, $X)")
	T("make-type", "make(type T, $X)\nmake(T)")

	T("chan-send-to", "$X <- 5")
	T("chan-recv", "<-$X")
	T("chan-recv-stmt", "r = <- $X\nr")
	T("chan-recv-ok", "r, ok = <- $X\n[r, ok]")
	T("chan-close", "close($X)")
	T("chan-send-val", "ch <- $X\n<-ch")
	T("chan-send-val-typed", "ci <- $X\n<-ci")
	T("delete-key-of", `delete($X, "k")`)
	add(c20Tmpl{id: "delete-name", pre: "abc = 1", src: "delete($X)", follow: `abc ?? "gone"`})
	add(c20Tmpl{id: "delete-global-flag", pre: "gdel = 1", src: "func(){ delete(\"gdel\", $X) }()", follow: `gdel ?? "gone"`})
	T("delete-key", "m = {\"k\": 1, 2: 2, \"abc\": 3, true: 4}\ndelete(m, $X)\nm")
	add(c20Tmpl{id: "throw", src: "throw $X", errMsg: true})

	for _, o := range []struct{ id, src string }{{"inc", "$X++"}, {"dec", "$X--"}, {"add-assign", "$X += 2"}, {"sub-assign", "$X -= 1"},
		{"mul-assign", "$X *= 2"}, {"div-assign", "$X /= 2"}, {"or-assign", "$X |= 1"}, {"and-assign", "$X &= 3"},
		{"add-assign-str", `$X += "s"`}, {"add-assign-list", "$X += [1]"}, {"assign", "$X = 9"}} {
		add(c20Tmpl{id: o.id, src: o.src, effectOnly: true, needAssignable: true})
	}

	T("defer-callee", "func(){\ndefer $X(3)\nglog(\"body\")\n}()")
	T("defer-callee-spread", "func(){\ndefer $X([3]...)\nglog(\"body\")\n}()")
	T("call-callee-spread", "$X([3]...)")
	T("call-callee-spread-var", "sl = [3]\n$X(sl...)")
	T("defer-arg", "func(){\ndefer glog($X)\nglog(\"body\")\n}()")
	add(c20Tmpl{id: "go-callee", src: "go $X(3)", async: true})
	add(c20Tmpl{id: "go-arg", src: "go glog($X)", async: true})

	T("lit-list", "[$X, 1]")
	T("lit-map-val", `{"a": $X}`)
	T("lit-map-key", "{$X: 1}")
	T("lit-tslice", "[]int64{$X}")
	T("lit-tmap", `map[string]int64{"a": $X}`)
	T("let", "x = $X\nx")
	T("var", "var x = $X\nx")
	T("var-destructure", "var a, b = $X\n[a, b]")
	T("commaok-of", "r, ok = $X[\"k\"]\n[r, ok]")
	T("commaok-key", "m = {\"k\": 1, 2: 2, \"abc\": 3, true: 4}\nr, ok = m[$X]\n[r, ok]")
	add(c20Tmpl{id: "let-destructure", src: "a, b = $X\n[a, b]", noItemSyntax: true})
	T("let-multi", "a, b = $X, 1\n[a, b]")
	T("return-multi", "func(){ return $X, 1 }()")
	T("core-typeOf", "typeOf($X)")
	T("core-kindOf", "kindOf($X)")
	T("core-keys", "keys($X)")
	T("core-toString", "toString($X)")
	T("core-toInt", "toInt($X)")
	T("core-toBool", "toBool($X)")
	T("core-range", "range($X)")

	// --- positions that look at the dynamic type or the method set -------------------
	// (instantiated with the operand kinds the position is about and a few controls of other
	// kinds; the all-kind sweep of call arguments, literals and stores is done by the templates above)
	K := func(kinds string, id, src string) {
		add(c20Tmpl{id: id, src: src, kinds: skip(strings.Fields(kinds)...)})
	}
	// Go parameters of NON-EMPTY interface types, of named basic types, of a concrete pointer type
	const errK = "errp errlist nil nilptr str int stringer pstruct"
	const strgK = "stringer ncolor ndur errp reader nil str int struct"
	const rdK = "reader errp nil str pstruct"
	const colK = "ncolor str strnum int nil ndur stringer"
	const durK = "ndur int float str nil ncolor i32 huge"
	K(errK, "arg-go-error", "gerr($X)")
	K(strgK, "arg-go-stringer", "gstringer($X)")
	K(rdK, "arg-go-reader", "grd($X)")
	K(colK, "arg-go-hexer", "ghex($X)")
	K(errK, "arg-go-errvariadic", "gerrs($X)")
	K(errK, "arg-go-errvariadic-2", "gerrs(nil, $X)")
	K("errlist list elist nil tslice", "spread-go-errvariadic", "gerrs($X...)")
	K(errK, "arg-go-perr", "gperr($X)")
	K(colK, "arg-go-color", "gcolor($X)")
	K(durK, "arg-go-dur", "gdur($X)")
	K("ntemp float int ndur nil f32", "arg-go-temp", "gtemp($X)")
	K("nflag true false nil int", "arg-go-flag", "gflag($X)")
	T("arg-go-show", "gshow($X)")
	T("arg-go-show-list", "gshow([$X])")
	// typed literals whose element / value / key type is an interface or a named type
	K(errK, "lit-tslice-error", "[]error{$X}")
	K(strgK, "lit-tslice-stringer", "[]Stringer{$X}")
	K(rdK, "lit-tslice-reader", "[]Reader{$X}")
	K(errK, "lit-tmap-error", `map[string]error{"a": $X}`)
	K(colK, "lit-tslice-color", "[]Color{$X}")
	K(durK, "lit-tslice-dur", "[]Dur{$X}")
	K(colK, "lit-tmap-colorkey", "map[Color]int64{$X: 1}")
	// stores into places of such types
	K(errK, "store-val-terr", "t = make([]error, 1)\nt[0] = $X\nt")
	K(errK, "store-val-errfield", "ph.Err = $X\nph")
	K(strgK, "store-val-stringerfield", "ph.S = $X\nph")
	K(colK, "store-val-colorfield", "ph.C = $X\nph")
	K(durK, "store-val-durfield", "ph.D = $X\nph")
	K(errK, "chan-send-val-err", "ce <- $X\n<-ce")
	// methods of the dynamic type
	K(colK, "method-hex", "$X.Hex()")
	K(strgK, "method-string", "$X.String()")
	K(errK, "method-error", "$X.Error()")
	K(durK, "method-double", "$X.Double()")
	K("ntemp float int ndur nil f32", "method-kelvin", "$X.Kelvin()")
	K("nflag true false nil int", "method-word", "$X.Word()")
	K(colK, "method-value", "f = $X.Hex\nf()")
	// a map key keeps its type: typed lookup afterwards
	T("map-key-type", "m = {}\nm[$X] = 1\nr = []\nfor k, z in m { r += [typeOf(k)] }\nr")
	K(colK, "index-key-tmap-color", "mc = map[Color]int64{\"red\": 5}\nmc[$X]")
	T("index-key-tmap-str", "mc = map[string]int64{\"red\": 5, \"abc\": 6}\nmc[$X]")

	// `in` and switch without a bool among the candidates (a bool candidate equals every truthy operand)
	T("in-lhs-nobool", `$X in [1, 5, "abc", 2.5]`)
	T("switch-subject-nobool", "r = \"none\"\nswitch ($X) {\ncase 1:\nr = \"one\"\ncase 5:\nr = \"five\"\ncase \"red\":\nr = \"red\"\ndefault:\nr = \"dflt\"\n}\nr")
	T("switch-case-nobool", "r = \"none\"\nswitch 1 {\ncase $X:\nr = \"hit\"\ndefault:\nr = \"miss\"\n}\nr")

	// an operand is a VALUE: once read it does not follow a later store into the place it was read from
	// (the hole is read, then written by a call evaluated later in the same expression / after the body)
	const bump = "func(){ $X += $X; return 0 }()"
	add(c20Tmpl{id: "live-binary-lhs", src: "[$X + " + bump + ", $X]", needAssignable: true})
	add(c20Tmpl{id: "live-list-lit", src: "[$X, " + bump + ", $X]", needAssignable: true})
	add(c20Tmpl{id: "live-go-arg", src: "g2($X, " + bump + ")", needAssignable: true})
	add(c20Tmpl{id: "live-script-arg", pre: "f2 = func(a, b){ return [a, b] }", src: "f2($X, " + bump + ")", needAssignable: true})
	add(c20Tmpl{id: "live-return", src: "func(){\ndefer func(){ $X += $X }()\nreturn $X\n}()", needAssignable: true})
	add(c20Tmpl{id: "live-implicit-result", src: "func(){\ndefer func(){ $X += $X }()\n$X\n}()", needAssignable: true})

	// `&name`: the place is a variable in the reference and in the variant alike (the documented
	// exclusion of &$X concerns holes that designate DIFFERENT kinds of storage)
	add(c20Tmpl{id: "addr-of-name", src: "p = &$X\n*p = $X + $X\n[$X, *p]", nameOnly: true})
	add(c20Tmpl{id: "addr-writeback", src: "gset(&$X)\n$X", nameOnly: true})

	// an argument is a VALUE: what a script callee does to a field / element of its PARAMETER (a struct
	// or array is copied when it is passed, a pointer / map / slice is shared) shows in the caller's
	// operand in the same way whatever expression the argument is - a plain name, the name in
	// parentheses, an element, a call result - and whatever the call path (1..4 parameters, 5 and more,
	// a variadic function, a spread list, a function value given by an expression, defer, go).
	// Whether the callee's store SUCCEEDS depends on the addressability of its parameter's cell
	// (Go's own distinction, see the exclusions above): it is caught inside the callee and not compared;
	// compared is the operand read again by the caller after the call.
	const mutAll = "try { p.A = 9 } catch e { }\ntry { p[0] = 9 } catch e { }\ntry { p.Inc() } catch e { }"
	// every operand kind for the one-parameter form; the other call paths with the kinds that are
	// copied when passed (struct, array), kinds that are shared, and a few controls
	paramKinds := skip(strings.Fields("struct array stringer pstruct list elist map tslice tmap ptrint errp int str nil ncolor verval faultval bigarray")...)
	P := func(id, pre, src string) {
		t := c20Tmpl{id: id, pre: pre, src: src, twice: true}
		if id != "param-mut-1" {
			t.kinds = paramKinds
		}
		add(t)
	}
	for _, b := range []struct{ id, body string }{
		{"param-mut", mutAll},
		{"param-store-field", "try { p.A = 9 } catch e { }"},
		{"param-store-elem", "try { p[0] = 9 } catch e { }"},
		{"param-store-ifield", "try { p.I = \"i\" } catch e { }"},
		{"param-opassign-field", "try { p.A += 4 } catch e { }"},
		{"param-inc-elem", "try { p[0]++ } catch e { }"},
		{"param-method-ptr-recv", "try { p.Inc() } catch e { }"},
	} {
		P(b.id+"-1", "fm = func(p){\n"+b.body+"\nreturn 0\n}", "fm($X)\n$X")
	}
	P("param-mut-1of2", "fm = func(p, n){\n"+mutAll+"\nreturn n\n}", "fm($X, 0)\n$X")
	P("param-mut-2of2", "fm = func(n, p){\n"+mutAll+"\nreturn n\n}", "fm(0, $X)\n$X")
	P("param-mut-2of2-names", "fm = func(n, p){\n"+mutAll+"\nreturn n\n}", "n0 = 0\nfm(n0, $X)\n$X")
	P("param-mut-3of3", "fm = func(a, b, p){\n"+mutAll+"\nreturn a\n}", "fm(0, 0, $X)\n$X")
	P("param-mut-4of4", "fm = func(a, b, c, p){\n"+mutAll+"\nreturn a\n}", "fm(0, 0, 0, $X)\n$X")
	P("param-mut-5of5", "fm = func(a, b, c, d, p){\n"+mutAll+"\nreturn a\n}", "fm(0, 0, 0, 0, $X)\n$X")
	P("param-mut-both", "fm = func(p, q){\n"+mutAll+"\nreturn 0\n}", "fm($X, $X)\n$X")
	P("param-mut-variadic-fn", "fm = func(p, rest...){\n"+mutAll+"\nreturn 0\n}", "fm($X, 0)\n$X")
	P("param-mut-variadic-rest", "fm = func(rest...){\np = rest[0]\n"+mutAll+"\ntry { rest[0].A = 9 } catch e { }\nreturn 0\n}", "fm($X)\n$X")
	P("param-mut-spread", "fm = func(p){\n"+mutAll+"\nreturn 0\n}", "fm([$X]...)\n$X")
	P("param-mut-anon-elem", "fl = [func(p){\n"+mutAll+"\nreturn 0\n}]", "fl[0]($X)\n$X")
	P("param-mut-anon-member", "fo = {\"f\": func(p){\n"+mutAll+"\nreturn 0\n}}", "fo.f($X)\n$X")
	P("param-mut-anon-literal", "", "func(p){\n"+mutAll+"\nreturn 0\n}($X)\n$X")
	P("param-mut-module", "module MF { func fm(p){\n"+mutAll+"\nreturn 0\n} }", "MF.fm($X)\n$X")
	P("param-mut-named-func", "func fm(p){\n"+mutAll+"\nreturn 0\n}", "fm($X)\n$X")
	P("param-mut-nested", "fm = func(p){\n"+mutAll+"\nreturn 0\n}\nfo = func(q){ return fm(q) }", "fo($X)\n$X")
	P("param-mut-defer", "fm = func(p){\n"+mutAll+"\nreturn 0\n}", "func(){\ndefer fm($X)\n}()\n$X")
	P("param-mut-go", "dn = make(chan interface, 1)\nfm = func(p){\n"+mutAll+"\ndn <- 1\n}", "go fm($X)\n<-dn\n$X")
	P("param-mut-host-callback", "fm = func(p){\n"+mutAll+"\nreturn 0\n}", "gcb1(fm, $X)\n$X")

	// the subject of for-in and the callee of defer are operands like any other: read once, as VALUES
	// (the loop / the deferred call does not follow a store the body makes into the place afterwards)
	add(c20Tmpl{id: "live-forin-grow", src: "n = 0\nfor x in $X {\nn++\nif n < 5 { $X += $X }\n}\nn", needAssignable: true, skip: skip("chan")})
	add(c20Tmpl{id: "live-forin-rotate", src: "acc = []\nfor x in $X {\nacc += [x]\n$X = $X[1:] + $X[:1]\n}\nacc", needAssignable: true, skip: skip("chan")})
	add(c20Tmpl{id: "latebind-defer-callee", src: "func(){\ndefer $X(3)\n$X = $Y\n}()", ykind: "same", needAssignable: true,
		kinds: skip("sfunc", "sfuncv", "gofunc", "gofuncv", "int", "nil", "list")})
	// ... and so is the callee of a call: read before the arguments are evaluated
	add(c20Tmpl{id: "latebind-call-callee", src: "$X(func(){\n$X = $Y\nreturn 3\n}())", ykind: "same", needAssignable: true,
		kinds: skip("sfunc", "sfuncv", "gofunc", "gofuncv", "int", "nil", "list")})
	// what a script callback returns is an operand of the conversion to the Go results
	T("return-callback-1", "gcbr1(func(){ return $X })")
	T("return-callback-3", "gcbr3(func(){ return $X })")
	T("return-callback-i2", "gcbri2(func(){ return $X })")
	// the VALUE of `place op= e` / `place++` used as an expression: the value that was stored, whatever
	// kind of place it is (variable, element, map entry, member, field, module member)
	add(c20Tmpl{id: "add-assign-value", src: "y = ($X += 2)\ny", needAssignable: true, valueOfStore: true})
	add(c20Tmpl{id: "inc-value", src: "y = $X++\ny", needAssignable: true, valueOfStore: true})
	add(c20Tmpl{id: "add-assign-str-value", src: "y = ($X += \"s\")\ny", needAssignable: true, valueOfStore: true})

	// round 6 (c20_r6.go): operands of different provenances in ==, !=, in, switch; string concatenation
	// positions; field / element stores and pointer-receiver methods through a bound name
	c20R6Tmpls(add)

	// the classes awaiting a repair of /repo (see the c20PendingFix constants)
	pending := map[string]bool{}
	pendingKind := func(kind string, ids ...string) {
		for i := range ts {
			for _, id := range ids {
				if ts[i].id == id || (strings.HasSuffix(id, "*") && strings.HasPrefix(ts[i].id, strings.TrimSuffix(id, "*"))) {
					m := map[string]bool{kind: true}
					for k := range ts[i].skip {
						m[k] = true
					}
					ts[i].skip = m
				}
			}
		}
	}
	if c20PendingFix_addressableBinding {
		pending["addr-of-name"] = true
	}
	if c20PendingFix_liveOperand {
		pending["live-binary-lhs"], pending["live-go-arg"] = true, true
	}
	if c20PendingFix_implicitResult {
		pending["live-implicit-result"] = true
	}
	if c20PendingFix_addrWriteback {
		pending["addr-writeback"] = true
	}
	if c20PendingFix_liveForInSubject {
		pending["live-forin-grow"], pending["live-forin-rotate"] = true, true
	}
	if c20PendingFix_liveDeferCallee {
		pending["latebind-defer-callee"], pending["latebind-call-callee"] = true, true
	}
	if c20PendingFix_callbackResultBox {
		pending["return-callback-3"], pending["return-callback-i2"] = true, true
	}
	if c20PendingFix_storeExprValue {
		pending["add-assign-value"], pending["inc-value"], pending["add-assign-str-value"] = true, true, true
	}
	if c20PendingFix_arraySlice {
		pendingKind("array", "slice-of-*", "slice-store")
	}
	if c20PendingFix_boxedPointerEqual {
		pendingKind("ptrint", "in-lhs-nobool", "switch-subject-nobool", "switch-case-nobool")
	}
	kept := ts[:0]
	for _, t := range ts {
		if !pending[t.id] {
			kept = append(kept, t)
		}
	}
	ts = kept

	// phase typed: the positions that show the value, its dynamic type, its method set or its identity
	for _, id := range []string{"read", "core-typeOf", "arg-go-iface", "arg-go-show", "arg-sfixed", "lit-list", "store-key-map", "map-key-type",
		"add-both", "eq-both", "len", "index-of-0", "forin-1", "call-0", "call-1", "call-spread", "go-callee", "defer-callee", "deref-read", "member-read-A", "method-value-recv", "method-ptr-recv",
		"throw", "chan-send-val", "switch-subject-nobool", "arg-go-int", "arg-go-str", "arg-go-error", "arg-go-stringer", "arg-go-reader",
		"arg-go-color", "arg-go-dur", "arg-go-temp", "arg-go-flag", "method-hex", "method-string", "method-error", "method-double",
		"method-kelvin", "method-word", "method-value", "index-key-tmap-color", "lit-tslice-color", "store-val-colorfield"} {
		for i := range ts {
			if ts[i].id == id {
				ts[i].typeSens = true
			}
		}
	}
	// ... and the parameter-mutation templates: a name bound from a typed addressable location
	// holds a struct / array in a cell of its own, which is where a missing copy shows
	for i := range ts {
		if strings.HasPrefix(ts[i].id, "param-") {
			ts[i].typeSens = true
		}
	}
	return ts
}

// ---------------------------------------------------------------------------
// running one instantiation

type c20Out struct {
	class   string // ok | error | panic | timeout | parse
	val     string
	typ     string
	errText string
	follow  string
	reread  string
	goside  string
	src     string
	noAsync bool
}

var c20Hex = regexp.MustCompile(`0x[0-9a-fA-F]+`)

// printed addresses are never compared: every instantiation has fresh objects
func c20NoAddr(s string) string { return c20Hex.ReplaceAllString(s, "0xADDR") }

// operand kinds whose element store re-binds the container instead of mutating it
var c20Rebinds = map[string]bool{"str": true, "strnum": true, "elist": true, "nilmap": true, "nilslice": true, "ncolor": true} // a store makes a new container and re-binds it

var c20TypedAddressable = map[string]bool{"tyelem": true, "tyfield": true, "tyderef": true, "tyelemvar": true}

// atoms that bind the operand (to a name, a parameter, a function result, a module member):
// a struct / array is copied into an addressable cell of its own there
var c20BindsInOwnCell = map[string]bool{"letvar": true, "varvar": true, "mletvar": true, "forinvar": true, "scall": true, "sparam": true,
	"sparam5": true, "retname": true, "closure": true, "modvar": true}

func c20MutatesInPlace(id string) bool {
	// addr-of-name: `&x` of a struct / array value is a pointer to the value's own cell exactly
	// when the value sits in addressable storage (the same Go distinction)
	return id == "method-ptr-recv" || id == "slice-store" || id == "addr-of-name" || strings.HasPrefix(id, "elem-store-") ||
		strings.HasPrefix(id, "method-ptr-") || strings.HasPrefix(id, "member-store-")
}

// operand kinds that are Go struct / array VALUES: a name bound by the script holds one in an
// addressable cell of its own, a host variable (env.Define) does not
var c20ValueCellKinds = map[string]bool{"struct": true, "array": true, "stringer": true, "verval": true, "faultval": true, "bigarray": true}

var c20PtrKinds = map[string]bool{"ptrint": true, "pstruct": true, "errp": true, "reader": true}
var c20IntKinds = map[string]bool{"int": true, "zero": true, "big": true}
var c20IntKeeping = map[string]bool{"inc": true, "dec": true, "add-assign": true, "sub-assign": true, "mul-assign": true, "or-assign": true, "and-assign": true, "assign": true, "add-assign-value": true, "inc-value": true}

// operand kinds for which `x += x` yields a value of x's own type
var c20SelfAddKeepsType = map[string]bool{"int": true, "zero": true, "big": true, "float": true, "str": true, "strnum": true, "list": true, "elist": true, "tslice": true, "tstrs": true}

// c20Render renders a result with its dynamic types; reference-like results are
// additionally compared by identity with the operand objects.
func (st *c20State) render(val interface{}) string {
	s := ank.Render(val)
	rv := reflect.ValueOf(val)
	if !rv.IsValid() {
		return s
	}
	if id := st.identity(rv); id != "" {
		s = id + s
	}
	if rv.Kind() == reflect.Chan && !rv.IsNil() {
		s += fmt.Sprintf(" cap=%d len=%d", rv.Cap(), rv.Len())
	}
	if l, ok := val.([]interface{}); ok {
		var ids []string
		for i, x := range l {
			xv := reflect.ValueOf(x)
			if xv.IsValid() {
				if id := st.identity(xv); id != "" {
					ids = append(ids, fmt.Sprintf("[%d]%s", i, id))
				}
			}
		}
		if len(ids) > 0 {
			s += " " + strings.Join(ids, " ")
		}
	}
	return s
}

func (st *c20State) identity(rv reflect.Value) string {
	switch rv.Kind() {
	case reflect.Ptr, reflect.Chan, reflect.Func, reflect.Map, reflect.Slice:
	default:
		return ""
	}
	if rv.IsNil() {
		return ""
	}
	for _, n := range []string{"v", "w"} {
		b, ok := st.base[n]
		if !ok || b == nil {
			continue
		}
		bv := reflect.ValueOf(b)
		if bv.Kind() != rv.Kind() || bv.Type() != rv.Type() || bv.IsNil() {
			continue
		}
		if bv.Pointer() == rv.Pointer() && (rv.Kind() != reflect.Slice || (bv.Len() == rv.Len() && bv.Len() > 0)) {
			return "same(" + n + "):"
		}
	}
	return "other:"
}

// observeBase inspects an operand object from Go after the run.
func c20ObserveBase(b interface{}) string {
	rv := reflect.ValueOf(b)
	if rv.IsValid() && rv.Kind() == reflect.Chan && !rv.IsNil() {
		var items []string
		closed := false
		for i := 0; i < 16; i++ {
			x, ok := rv.TryRecv()
			if !ok {
				if x.IsValid() { // zero value of a closed channel
					closed = true
				}
				break
			}
			items = append(items, ank.RenderValue(x))
		}
		return fmt.Sprintf("chan[%s closed=%v]", strings.Join(items, " "), closed)
	}
	return ank.Render(b)
}

func c20Class(o ank.Out) string {
	switch {
	case o.Panicked:
		return "panic"
	case o.Err == nil:
		return "ok"
	case errors.Is(o.Err, vm.ErrInterrupt) || errors.Is(o.Err, context.DeadlineExceeded) || strings.Contains(o.Err.Error(), vm.ErrInterrupt.Error()):
		return "timeout"
	}
	return "error"
}

// c20Subst fills the holes of a template text.
func c20Subst(s string, hx, hy *c20Hole) string {
	s = strings.ReplaceAll(s, "$X", hx.expr)
	if hy != nil {
		s = strings.ReplaceAll(s, "$Y", hy.expr)
	}
	return s
}

// c20Chain applies the atoms to the base variable.
func c20Chain(base, tag string, atoms []c20Atom, chain []int) c20Hole {
	h := c20Hole{expr: base, assignable: true}
	for i, ai := range chain {
		h = atoms[ai].apply(h, fmt.Sprintf("%s%d", tag, i+1))
	}
	return h
}

func c20Instantiate(c *wk.Case, t *c20Tmpl, val, yval *c20Val, hx c20Hole, hy *c20Hole) c20Out {
	st := c20NewState()
	val.mk(st, "v")
	if yval != nil {
		yval.mk(st, "w")
	}
	var parts []string
	if t.pre != "" {
		parts = append(parts, t.pre)
	}
	parts = append(parts, hx.pre...)
	if hy != nil {
		parts = append(parts, hy.pre...)
	}
	wrapped := hx.open != "" || (hy != nil && hy.open != "")
	if wrapped {
		// phase bindpos: the operation runs inside the construct(s) binding the holes' names; its value is
		// kept in wr, the hole read again (still inside) in wq
		parts = append(parts, "wr = nil", "wq = nil")
		if hx.open != "" {
			parts = append(parts, hx.open)
			parts = append(parts, hx.inner...)
		}
		if hy != nil && hy.open != "" {
			parts = append(parts, hy.open)
			parts = append(parts, hy.inner...)
		}
		parts = append(parts, "wr = func(){\n"+c20Subst(t.src, &hx, hy)+"\n}()")
		if hx.assignable {
			parts = append(parts, "wq = "+hx.expr)
		}
		if hy != nil && hy.open != "" {
			parts = append(parts, hy.close)
		}
		if hx.open != "" {
			parts = append(parts, hx.close)
		}
	} else {
		parts = append(parts, c20Subst(t.src, &hx, hy))
	}
	src := strings.Join(parts, "\n")
	out := c20Out{src: src}
	if _, err, _ := ank.Parse(src); err != nil {
		out.class = "parse"
		out.errText = err.Error()
		return out
	}
	c.Begin(map[string]string{"template": t.id, "value": val.kind, "src": src})
	ctx, cancel := context.WithTimeout(context.Background(), 20*time.Second)
	o := ank.ExecCtx(ctx, st.env, src)
	out.class = c20Class(o)
	switch out.class {
	case "ok":
		if wrapped {
			o.Val, _ = st.env.Get("wr")
		}
		out.val = c20NoAddr(st.render(o.Val))
		out.typ = fmt.Sprint(reflect.TypeOf(o.Val))
	case "panic":
		out.errText = o.PanicVal
	default:
		out.errText = ank.ErrText(o.Err)
	}
	if t.async && out.class == "ok" {
		// the effect of `go f(x)` arrives from another goroutine: wait for it (bounded);
		// its absence after the bound is inconclusive, never a verdict
		for i := 0; i < 20000 && st.logLen() == 0; i++ {
			time.Sleep(100 * time.Microsecond)
		}
		out.noAsync = st.logLen() == 0
	}
	if t.follow != "" {
		f := ank.ExecCtx(ctx, st.env, t.follow)
		out.follow = c20Class(f) + ":" + c20NoAddr(st.render(f.Val))
	}
	if wrapped {
		// the name is gone with its scope: what was read inside stands for the follow-up read
		if hx.assignable && out.class == "ok" {
			q, _ := st.env.Get("wq")
			out.reread = "ok:" + c20NoAddr(st.render(q))
		}
	} else if hx.assignable {
		f := ank.ExecCtx(ctx, st.env, hx.expr)
		out.reread = c20Class(f)
		if f.Err == nil && !f.Panicked {
			out.reread += ":" + c20NoAddr(st.render(f.Val))
		}
	}
	cancel()
	out.goside = "v=" + c20ObserveBase(st.base["v"])
	if yval != nil {
		out.goside += " w=" + c20ObserveBase(st.base["w"])
	}
	out.goside += " log=[" + st.logString() + "]"
	out.goside = c20NoAddr(out.goside)
	return out
}

// c20Diff names the first observation in which the variant differs from the
// reference ("" when they agree).
func c20Diff(t *c20Tmpl, val *c20Val, ref, got *c20Out) string {
	if ref.class != got.class {
		return got.class + "-vs-" + ref.class
	}
	if ref.class == "ok" && !t.effectOnly {
		if ref.typ != got.typ {
			return "type"
		}
		if ref.val != got.val {
			return "value"
		}
	}
	if t.errMsg && ref.class == "error" {
		if c20NoAddr(ref.errText) != c20NoAddr(got.errText) {
			return "thrown-text"
		}
	}
	if ref.follow != got.follow {
		return "effect-follow"
	}
	if ref.reread != "" && got.reread != "" && ref.reread != got.reread {
		return "effect-reread"
	}
	if ref.goside != got.goside {
		return "effect-objects"
	}
	return ""
}

func (o *c20Out) String() string {
	s := "class=" + o.class
	if o.class == "ok" {
		s += " value=" + o.val + " type=" + o.typ
	} else {
		s += " error=" + fmt.Sprintf("%q", o.errText)
	}
	if o.follow != "" {
		s += " follow=" + o.follow
	}
	if o.reread != "" {
		s += " reread=" + o.reread
	}
	return s + " objects{" + o.goside + "}"
}

// ---------------------------------------------------------------------------
// the engine

type c20Fixed struct {
	tmpl, kind string
	chain      []string
}

// deterministic cases for the difference classes seen on the pinned tree (some
// have been repaired in /repo since; they stay as regression cases)
var c20FixedCases = []c20Fixed{
	{"in-rhs", "list", []string{"elem"}},
	{"deref-read", "ptrint", []string{"elem"}},
	{"chan-close", "chan", []string{"elem"}},
	{"spread-sfixed", "list", []string{"elem"}},
	{"spread-go-fixed", "list", []string{"elem"}},
	{"index-idx-list", "ptrint", []string{"elem"}},
	{"slice-lo", "ptrint", []string{"elem"}},
	{"slice-hi", "ptrint", []string{"elem"}},
	{"neg", "int", []string{"elem"}},
	{"neg", "int", []string{"gocall"}},
	{"in-rhs", "list", []string{"gocall"}},
	{"deref-read", "ptrint", []string{"gocall"}},
	{"chan-close", "chan", []string{"field"}},
	{"deref-write", "ptrint", []string{"elem"}},
	{"make-type", "int", []string{"elem"}},
	{"cond-if", "ptrint", []string{"elem"}},
	{"make-len", "ptrint", []string{"gocall"}},
	{"chan-close", "chan", []string{"gocall"}},
	{"in-rhs", "tslice", []string{"pfield"}},
	// a struct / array held in a NAME (bound from a typed slot) passed to a callee that stores into its parameter
	{"param-store-field-1", "struct", []string{"tyelem", "letvar"}},
	{"param-store-elem-1", "array", []string{"tyelem", "letvar"}},
	{"param-mut-2of2", "struct", []string{"tyfield", "varvar"}},
	{"param-mut-4of4", "array", []string{"tyderef", "letvar"}},
	{"param-mut-5of5", "struct", []string{"tyelem", "letvar"}},
	{"param-mut-anon-elem", "struct", []string{"tyelem", "letvar"}},
	{"param-mut-defer", "array", []string{"tyelem", "letvar"}},
	{"param-mut-go", "struct", []string{"tyelem", "letvar"}},
	{"param-mut-1", "struct", []string{"tyelem", "letvar", "paren"}},
	{"param-mut-1", "struct", []string{"tyelemvar"}},
}

type c20Engine struct {
	vals  []c20Val
	atoms []c20Atom
	tmpls []c20Tmpl
}

func (g *c20Engine) valByKind(k string) *c20Val {
	for i := range g.vals {
		if g.vals[i].kind == k {
			return &g.vals[i]
		}
	}
	return nil
}

func (g *c20Engine) chainOK(t *c20Tmpl, val *c20Val, chain []int) (bool, string) {
	last := g.atoms[chain[len(chain)-1]]
	if !c20PendingFix_parenTarget {
		// a parenthesised place is the place: what decides is the atom inside the parentheses
		i := len(chain) - 1
		for i >= 0 && g.atoms[chain[i]].name == "paren" {
			i--
		}
		if i < 0 {
			last = c20Atom{name: "var", assignable: true, isName: true}
		} else {
			last = g.atoms[chain[i]]
		}
	}
	inPosition, nWrap := false, 0
	for _, ai := range chain {
		if g.atoms[ai].wrap {
			inPosition = true
			nWrap++
		}
	}
	if nWrap > 1 {
		return false, "nested-binding-constructs"
	}
	for _, ai := range chain {
		a := g.atoms[ai]
		if a.nonNilOnly && val.isNil {
			return false, "coalesce-of-nil"
		}
		if a.noChan && (val.kind == "chan" || val.kind == "chanc") {
			return false, "channel-forwarding"
		}
		if a.only != nil && (!a.only[val.kind] || (t.ykind != "" && t.ykind != "same" && !a.only[t.ykind])) {
			return false, "typed-container-of-other-type"
		}
	}
	if t.twice {
		for _, ai := range chain {
			if g.atoms[ai].name == "chanrecv" {
				// the template reads the hole again after the operation; a second receive would block
				return false, "hole-read-twice-consumes-channel-item"
			}
		}
	}
	for _, ai := range chain {
		if g.atoms[ai].noPtr && c20PtrKinds[val.kind] {
			return false, "for-in-variable-of-pointer"
		}
	}
	if (t.needAssignable || (t.strNeedsAssignable && c20Rebinds[val.kind])) && !last.assignable {
		return false, "store-needs-assignable-hole"
	}
	if t.nameOnly {
		i := len(chain) - 1
		for i >= 0 && g.atoms[chain[i]].name == "paren" {
			i--
		}
		if i >= 0 && !g.atoms[chain[i]].isName {
			// &$X of anything but a (parenthesised) name: the address depends on the kind of storage by definition
			return false, "address-of-non-name"
		}
	}
	if inPosition {
		// phase bindpos: the reference is the SAME chain with the binding made by `=` (a script-bound
		// name on both sides), so the storage of the hole is of the same kind in both programs
	} else if (c20ValueCellKinds[val.kind] || (val.kind == "ncolor" && t.id != "method-ptr-recv" && t.id != "addr-of-name")) && c20MutatesInPlace(t.id) {
		for i, ai := range chain {
			if c20BindsInOwnCell[g.atoms[ai].name] && c20ValueCellKinds[val.kind] {
				// since /repo 24b1b84 EVERY binding of a struct / array (name, parameter, function
				// result, module member) is a copy in an addressable cell of its own, whereas the
				// reference operand handed in by the host (env.Define) is not addressable: the same
				// distinction as for names bound from typed slots below, not compared
				return false, "in-place-mutation-of-value-in-addressable-storage"
			}
			if !c20TypedAddressable[g.atoms[ai].name] {
				continue
			}
			if i == len(chain)-1 {
				// a struct / array VALUE is mutated in place exactly when its storage is addressable (Go itself):
				// like field stores into struct values, not a matter of provenance (a named string is
				// rebuilt and converted back by the typed place, see below)
				return false, "in-place-mutation-of-value-in-addressable-storage"
			}
			if c20ValueCellKinds[val.kind] {
				// a struct / array bound to a name from a typed slot is a copy in a cell of its own
				// (like the value of make(struct) or *p): a pointer-receiver method or an element store
				// through that name changes the name's copy, whereas a struct value handed in by the
				// host is not addressable at all. Whether a struct VALUE is addressable storage is Go's
				// own distinction, not fixed by the statement: not compared.
				return false, "in-place-mutation-of-value-in-addressable-storage"
			}
		}
	}
	if last.typedPlace && val.kind == "ncolor" && (t.strNeedsAssignable || t.needAssignable) {
		// the store rebuilds a plain string and re-binds it: the typed place converts it back to the named type
		return false, "non-type-keeping-store-into-typed-place"
	}
	if last.typedPlace && last.only == nil {
		// the hole is a typed place: a store converts to the place's type (the typed container's
		// rule, C10), so only stores that keep the operand's type are comparable with a variable
		if (t.effectOnly || t.valueOfStore) && !(c20IntKinds[val.kind] && c20IntKeeping[t.id]) && !((t.id == "add-assign-str" || t.id == "add-assign-str-value") && (val.kind == "str" || val.kind == "strnum")) {
			return false, "non-type-keeping-store-into-typed-place"
		}
		if strings.HasPrefix(t.id, "live-") && !c20SelfAddKeepsType[val.kind] {
			return false, "non-type-keeping-store-into-typed-place"
		}
	}
	if last.only != nil && last.assignable {
		// the hole is a typed string place: what a store of a non-string does there is the
		// typed container's conversion rule (C10), not a matter of the operand's provenance
		if (t.effectOnly || t.valueOfStore) && t.id != "add-assign-str" && t.id != "add-assign-str-value" {
			return false, "non-string-store-into-typed-place"
		}
	}
	return true, ""
}

// runCase compares every chain with the reference for one (template, value).
func (g *c20Engine) runCase(c *wk.Case, t *c20Tmpl, val *c20Val, chains [][]int) {
	if val.kind == "huge" && !c20HugeOK(t.id) {
		// a 2^53+1 operand is meant for comparisons and arithmetic only: as a size,
		// count or range bound it would ask for an astronomically large allocation
		c.Excluded("huge-operand-outside-arithmetic")
		return
	}
	if t.skip[val.kind] {
		c.Excluded("template-kind:" + t.id + ":" + val.kind)
		return
	}
	if t.kinds != nil && !t.kinds[val.kind] {
		c.Excluded("position-about-other-kinds")
		return
	}
	var yval *c20Val
	if t.ykind == "same" {
		yval = val
	} else if t.ykind != "" {
		yval = g.valByKind(t.ykind)
	}
	refX := c20Chain("v", "x", g.atoms, nil)
	var refY *c20Hole
	if yval != nil {
		h := c20Chain("w", "y", g.atoms, nil)
		refY = &h
	}
	ref := c20Instantiate(c, t, val, yval, refX, refY)
	c.Tag("tmpl:"+t.id, "val:"+val.kind, "ref:"+ref.class)
	if ref.class == "parse" {
		c.Inconclusive("template-does-not-parse:"+t.id, ref.errText, ref.src)
		return
	}
	if ref.class == "timeout" {
		c.Inconclusive("reference-timeout:"+t.id+":"+val.kind, ref.errText, ref.src)
		return
	}
	type agg struct {
		n      int
		detail string
		input  interface{}
	}
	viols := map[string]*agg{}
	for _, chain := range chains {
		if ok, why := g.chainOK(t, val, chain); !ok {
			c.Excluded(why)
			continue
		}
		hx := c20Chain("v", "x", g.atoms, chain)
		if t.noItemSyntax && hx.itemSyntax {
			c.Excluded("comma-ok-statement")
			continue
		}
		var hy *c20Hole
		if yval != nil {
			h := c20Chain("w", "y", g.atoms, chain)
			if t.yPlain {
				h = c20Chain("w", "y", g.atoms, nil)
			}
			hy = &h
		}
		got := c20Instantiate(c, t, val, yval, hx, hy)
		names := make([]string, len(chain))
		for i, ai := range chain {
			names[i] = g.atoms[ai].name
		}
		class := "plain"
		if hx.boxed {
			class = "boxed"
		}
		c.Eval(t.id+"|"+val.kind+"|"+got.src, ref.class == "ok" || got.class == "ok")
		c.Events(1)
		c.Tag("atom:"+names[len(names)-1], fmt.Sprintf("chainlen:%d", len(chain)), "class:"+class, "outcome:"+got.class)
		if c.W.Verbose {
			fmt.Printf("%s %s %v\n  src: %q\n  got: %s\n  ref: %s\n", t.id, val.kind, names, got.src, got.String(), ref.String())
		}
		input := map[string]interface{}{"template": t.id, "value": val.kind, "chain": names, "src": got.src, "reference_src": ref.src}
		switch {
		case got.class == "parse":
			c.Inconclusive("instantiation-does-not-parse:"+t.id+":"+names[len(names)-1], got.errText, input)
			continue
		case got.class == "timeout":
			c.Inconclusive("timeout:"+t.id+":"+val.kind, got.errText, input)
			continue
		}
		d := c20Diff(t, val, &ref, &got)
		if d == "" {
			if c.WantSample() && len(chain) > 0 && c.Rng.Intn(8) == 0 {
				c.Sample(map[string]interface{}{"template": t.id, "value": val.kind, "chain": names, "src": got.src, "observed": got.String(), "reference": ref.String()})
			}
			continue
		}
		if d == "effect-objects" && (got.noAsync || ref.noAsync) {
			c.Inconclusive("async-effect-not-observed:"+t.id, got.String()+" // "+ref.String(), input)
			continue
		}
		sig := t.id + ":" + val.kind + ":" + class + ":" + d
		a := viols[sig]
		if a == nil {
			a = &agg{detail: fmt.Sprintf("chain %v: %s  BUT reference (plain variable): %s", names, got.String(), ref.String()), input: input}
			viols[sig] = a
		}
		a.n++
	}
	sigs := make([]string, 0, len(viols))
	for s := range viols {
		sigs = append(sigs, s)
	}
	sort.Strings(sigs)
	for _, s := range sigs {
		a := viols[s]
		c.Violation(s, fmt.Sprintf("%s (%d chain(s) of this case differ the same way)", a.detail, a.n), a.input)
	}
}

func init() {
	g := &c20Engine{vals: c20MakeVals(), atoms: c20MakeAtoms(), tmpls: c20MakeTmpls()}
	nT, nV, nA := len(g.tmpls), len(g.vals), len(g.atoms)
	atomIdx := map[string]int{}
	var assignable, general []int
	for i, a := range g.atoms {
		atomIdx[a.name] = i
		if a.typedOnly || a.wrap {
			continue
		}
		general = append(general, i)
		if a.assignable {
			assignable = append(assignable, i)
		}
	}
	nA = len(general)
	// phase typed: every typed addressable location x every binding hop (x an optional third hop)
	var sensT []int
	for i, t := range g.tmpls {
		if t.typeSens {
			sensT = append(sensT, i)
		}
	}
	var typedChains [][]int
	for _, src := range []string{"tyelem", "tyfield", "tyderef"} {
		for _, hop := range []string{"letvar", "varvar", "mletvar", "sparam", "sparam5", "scall", "retname", "closure", "forinvar"} {
			typedChains = append(typedChains, []int{atomIdx[src], atomIdx[hop]})
		}
	}
	for _, hop := range []string{"mletvar", "sparam5", "retname", "closure", "forinvar"} {
		typedChains = append(typedChains, []int{atomIdx[hop]})
	}
	// an interface{}-boxed, NON-addressable source (Go result, interface{} field of a struct value)
	// bound to a name without passing through `=`
	for _, src := range []string{"gocall", "field"} {
		for _, hop := range []string{"varvar", "sparam", "sparam5", "closure"} {
			typedChains = append(typedChains, []int{atomIdx[src], atomIdx[hop]})
		}
	}
	tmplIdx := map[string]int{}
	for i, t := range g.tmpls {
		tmplIdx[t.id] = i
	}
	// phase bindpos: quick = the templates that show value / type / identity or store through the hole, thorough = all
	var bindWraps []string
	for _, a := range g.atoms {
		if a.wrap && a.name != c20BindRef {
			bindWraps = append(bindWraps, a.name)
		}
	}
	bindT := map[string][]int{}
	for i := range g.tmpls {
		bindT["thorough"] = append(bindT["thorough"], i)
		if c20BindSens(&g.tmpls[i]) {
			bindT["quick"] = append(bindT["quick"], i)
		}
	}
	bindTier := func(tier string) []int {
		if tier == "thorough" {
			return bindT["thorough"]
		}
		return bindT["quick"]
	}
	wk.Register(&wk.Engine{
		ID: "C20",
		Plan: func(tier string) fw.Plan {
			return fw.Plan{
				Level: "exploration",
				Rule: fmt.Sprintf("metamorphic: %d operation templates x %d operand values x provenance chains over %d atoms (+%d binding hops used by phase typed only, +%d binding constructs used by phase bindpos only); reference = plain variable. "+
					"operand kinds include named basic types with methods, error / Stringer / io.Reader implementations, a Go array, struct VALUES whose pointer type is a Stringer / an error (String, Error and a mutator with pointer receivers) and a 512-byte Go array [64]int64; templates with two operands of DIFFERENT provenances (the hole against a plain host variable holding an equal value) for ==, !=, in, switch, and string concatenation in every position (s + x, x + s, s += x, s + x + s); atoms include typed addressable Go locations built around ANY operand ([]T element, *struct{F T} field, *T target, map[string]T entry); templates include Go parameters, typed literals and typed places of non-empty interface types and of named types, method calls, typed map lookups, and read-then-store-in-one-expression (live-*) cases; type-specific positions are instantiated with the kinds they are about plus controls. "+
					"phase fixed: the difference classes seen on the pinned tree; phase typed: the type-/identity-revealing templates x every value x (typed location x binding hop: =, var, multi-assignment, parameter, 5th parameter, return, returned name, closure, for-in variable; Go result / interface{} field x var, parameter, 5th parameter, closure) (complete); phase pairs: arguments bound by spreading a list (f(l...), f(0, l...), under defer and go, into fixed-arity script functions) against the same arguments written out (f(l[0], l[1])), with callees that overwrite the list, keep a closure, assign their parameter or apply kind-sensitive operators (complete list); phase len1: EVERY template x value x atom (complete); "+
					"templates param-*: a script callee stores into a field / element of its parameter (1..4 parameters, 5 parameters, variadic function, spread, function value given by an expression, module function, nested call, defer, go, host callback) and the caller reads the argument expression again; "+
					"phases concur / concur-race: one call site whose callee is given by an expression (list element, map entry, member, struct field, typed slice element, pointer target, call result, Go result, parentheses, ternary, ??, two hops, module member) evaluated N times by each of 3-5 overlapping evaluations (goroutines started by `go` in one script; one parsed tree run on several VMs) whose callees are different closures obtained through different provenances - every call must return its own callee's result, as the call by name does (concur-race: same programs, fewer rounds, -race build); "+
					"phase live (c20_r5live.go): %d sites (binary operators, in, index, slice, call arguments of script / Go / variadic / deferred calls, callee, list and map literals incl. the key, send value and channel, delete, switch subject, make sizes, multi-value return / assignment, the right side of element / key / member / field stores, switch case lists, Go parameters typed T / ...T, for-in subjects in the one- and two-variable form, the key of a typed map literal, the index operand of the container of a nested assignment target, the target operands of the comma-ok statement, in-place stores made through the result of a function whose body reads the place, and the bindings: =, var, multi-assignment, module member, comma-ok into a name / a module member, member, element, field, parameters, closure, explicit and implicit results (also with a deferred store), for-in variable, literals, Go argument, send, deferred argument) x %d operand kinds (scalars, named types, Go arrays [3]int64 / [2]string / [2]float64 / [2][2]int64, structs (one holding an array), typed slice, typed map, pointers, open / closed channel, Go function) x 12 places holding the operand (name, module member, []T element, field typed T, *T target, element of an array / slice field, untyped list element, map entry / member, map[string]T entry, interface{} field) x {the place is REPLACED by a sibling value, the value held there is MUTATED in place} while the operation is under way or right after the binding; reference in position: the same program with the operand id(place) and func(){ return place }(); variants place, (place), (true ? place : nil) (quick: place and one of the other two) (complete); plus the special families forin-var (the loop variable against a let-bound copy, pointer elements, 8 containers) and addr-hop; "+
					"phase bindpos (c20_r6.go): a name is a name however it was bound - the operation runs INSIDE the construct binding the hole's name (for-in over an untyped list / a variadic tail / a list returned by Go / a []T / a [1]T / a chan T / the values of an untyped and of a typed map, a parameter of a callee called by the script or by a Go function, var), reference in position = the same program with the name bound by `=` in a block; compared incl. field / element stores and pointer-receiver methods through the name and the name read again afterwards; thorough = every template x value x 5 source hops x 11 binding constructs, quick = the value- / type- / identity-revealing and storing templates x struct and array values (from a host value and from a typed slot) plus %d core templates x every value (complete); "+
					"phase deep: quick = 8 PRNG chains of length 2..3 per (template,value), thorough = every chain of length 2 plus 80 PRNG chains of length 3. "+
					"Each instantiation runs in a fresh environment with fresh operand objects. An evaluation is non-trivial when the reference or the variant succeeded; distinct = distinct (template, value, source)."+c20R8Rule+c20R9Rule, nT, nV, nA, len(g.atoms)-nA-len(bindWraps)-1, len(bindWraps), len(c20Live().sites), len(c20Live().kinds), len(c20BindCore)),
				Assumptions: []string{
					"error texts are not compared (statement: same error-or-success), except for throw",
					"pointers/channels/functions are compared by identity with the operand object and by their effects, never by printed address",
					"excluded: `a, b = <index expr>` (also parenthesised), &$X of anything but a name, the value of $X++ / $X op= e, string/appending stores and struct-value field stores through non-assignable holes, in-place mutation of struct/array values held in addressable typed locations, non-type-keeping stores into typed places, the for-in loop variable of a pointer operand",
					"whether a store into a field / element of a struct / array PARAMETER succeeds inside the callee depends on the addressability of the parameter's cell (not compared: caught inside the callee); compared is the caller's operand after the call",
					"phases concur / concur-race decide nothing on timing: a wrong callee, an error or a race report is a fact of the run; overlapping evaluations that happen not to collide are silent",
					"phase bindpos takes the value of the operation through `wr = func(){ ... }()` inside the binding construct, in the reference and in the variant alike (the closure reads the name from the enclosing scope in both); the follow-up read of the hole is made inside the construct too, and only when the operation succeeded; two binding constructs are not nested except for the second hole of a two-operand template",
					"phase live assumes no evaluation order: the reference operand id(place) is evaluated at the same point of the same operation as the direct operand; not generated there: in-place stores into a map while it is iterated (Go leaves open whether the entry is visited), slicing a Go array (the result aliases an addressable array and copies another one: Go's distinction), arrays / structs as the container of an assignment target (addressability), compound assignments to the place",
					"round-5 classes not generated while their c20PendingFix_* constant (c20_r5live.go) is true: container of an assignment target read from a slot (liveTargetContainer), write-back of &x given through a hop (addrHopWriteback), a Go array as the container of an index expression (liveArrayContainer), the receiver of a method call with arguments (liveMethodReceiver)",
					"round-4 classes not generated while their c20PendingFix_* constant is true: live for-in subject, live defer / call callee read from a typed func slot, boxed result list of a multi-result callback, value of `place op= e` / `place++` for map / member places, parenthesised assignment targets",
					"classes known to violate the statement on the unchanged tree are not generated while their c20PendingFix_* constant is true: addressable binding (&name, in-place mutation of a name bound from a typed location), live left operand / Go-call argument, implicit function result, slicing a non-addressable array, switch/in with a boxed pointer, values boxed in non-empty interface types, syntactic &name write-back",
					c20R8Assumptions[0], c20R8Assumptions[1], c20R8Assumptions[2], c20R9Assumptions[0],
				},
				Phases: append([]fw.Phase{
					{Name: "fixed", Cases: len(c20FixedCases), Chunk: len(c20FixedCases), Exhaust: true, TimeoutS: 300},
					{Name: "len1", Cases: nT * nV, Chunk: 160, Exhaust: true, TimeoutS: 900},
					{Name: "typed", Cases: len(sensT) * nV, Chunk: 160, Exhaust: true, TimeoutS: 900},
					{Name: "pairs", Cases: len(c20Pairs()), Chunk: 64, Exhaust: true, TimeoutS: 600},
					{Name: "bindpos", Cases: len(bindTier(tier)) * nV, Chunk: 160, Exhaust: true, TimeoutS: 900},
					{Name: "deep", Cases: nT * nV, Chunk: map[string]int{"quick": 160, "thorough": 40}[tier], TimeoutS: 1800},
					{Name: "live", Cases: c20LiveCases(), Chunk: 160, Jobs: 4, MemMB: 3072, Exhaust: true, TimeoutS: 900},
					{Name: "concur", Cases: c20ConcurCases(), Chunk: 2, TimeoutS: 900},
					{Name: "concur-race", Race: true, Cases: c20ConcurCases(), Chunk: c20ConcurCases(), TimeoutS: 900},
				}, append(c20R8Phases(tier), c20R9Phases(tier)...)...), // hot, stream, sizes: c20_r8.go; overlap: c20_r9.go
			}
		},
		Run: func(c *wk.Case) {
			if c20R8Run(c) {
				return
			}
			if c.Phase == "overlap" {
				c20R9Overlap(c)
				return
			}
			switch c.Phase {
			case "concur":
				c20RunConcur(c, map[string]int{"quick": 30000, "thorough": 300000}[c.Tier])
			case "concur-race":
				c20RunConcur(c, map[string]int{"quick": 300, "thorough": 3000}[c.Tier])
			case "live":
				c20RunLive(c)
			case "pairs":
				c20RunPair(c, c20Pairs()[c.Index])
			case "fixed":
				f := c20FixedCases[c.Index]
				chain := make([]int, len(f.chain))
				for i, n := range f.chain {
					chain[i] = atomIdx[n]
				}
				g.runCase(c, &g.tmpls[tmplIdx[f.tmpl]], g.valByKind(f.kind), [][]int{chain})
			case "len1":
				t, v := &g.tmpls[c.Index/nV], &g.vals[c.Index%nV]
				chains := make([][]int, nA)
				for i := range chains {
					chains[i] = []int{general[i]}
				}
				g.runCase(c, t, v, chains)
			case "bindpos":
				g.runBindPos(c, &g.tmpls[bindTier(c.Tier)[c.Index/nV]], &g.vals[c.Index%nV], atomIdx, bindWraps)
			case "typed":
				g.runCase(c, &g.tmpls[sensT[c.Index/nV]], &g.vals[c.Index%nV], typedChains)
			case "deep":
				t, v := &g.tmpls[c.Index/nV], &g.vals[c.Index%nV]
				var chains [][]int
				pick := func(last bool) int {
					if last && (t.needAssignable || (t.strNeedsAssignable && c20Rebinds[v.kind])) {
						return assignable[c.Rng.Intn(len(assignable))]
					}
					return general[c.Rng.Intn(nA)]
				}
				nRand := 8
				if c.Tier == "thorough" {
					nRand = 80
					for i := 0; i < nA; i++ {
						for j := 0; j < nA; j++ {
							chains = append(chains, []int{general[i], general[j]})
						}
					}
				}
				for k := 0; k < nRand; k++ {
					n := 3
					if c.Tier != "thorough" {
						n = 2 + c.Rng.Intn(2)
					}
					ch := make([]int, n)
					for i := range ch {
						ch[i] = pick(i == n-1)
					}
					chains = append(chains, ch)
				}
				g.runCase(c, t, v, chains)
			}
		},
	})
}

// ---------------------------------------------------------------------------
// pairs: an argument obtained by spreading a list is the same value as the
// argument written out

type c20Pair struct{ id, a, b string }

var c20PairList []c20Pair

func c20Pairs() []c20Pair {
	if c20PairList != nil {
		return c20PairList
	}
	lists := []struct{ name, src string }{
		{"ints", "[1, 2]"}, {"mixed", "[\"x\", [1, 2]]"}, {"nils", "[nil, nil]"}, {"typednil", "[make([]map[string]int64, 1)[0], make([][]int64, 1)[0]]"},
		{"structs", "[ps, pi]"}, {"big", "[5000, 2.5]"}, {"fromgo", "id([1, \"s\"])"},
	}
	callees := []struct{ name, def, after string }{
		{"read", "func(a, b){ return [a, b] }", ""},
		{"overwrite-then-read", "func(a, b){ sl[0] = 99; sl[1] = 98; return [a, b] }", ""},
		{"closure-read-later", "func(a, b){ return func(){ return [a, b] } }", "sl[0] = 99\nsl[1] = 98\nr = r()"},
		{"assign-param", "func(a, b){ a = 5; b = 6; return sl }", ""},
		{"coalesce", "func(a, b){ return [a ?? \"d\", b ?? \"d\", typeOf(a), kindOf(b)] }", ""},
		{"compare", "func(a, b){ return [a == nil, b == nil, a == b, !a] }", ""},
		{"opassign-param", "func(a, b){ a += 1; return [a, sl] }", ""},
	}
	for _, l := range lists {
		for _, ce := range callees {
			mk := func(call string) string {
				src := "sl = " + l.src + "\nF = " + ce.def + "\nF3 = func(z, a, b){ return F(a, b) }\nr = " + call
				if ce.after != "" {
					src += "\n" + ce.after
				}
				return src + "\n[r, sl]"
			}
			id := l.name + ":" + ce.name
			c20PairList = append(c20PairList,
				c20Pair{id + ":call", mk("F(sl...)"), mk("F(sl[0], sl[1])")},
				c20Pair{id + ":call-lead", mk("func(z, a, b){ sl[0] = 97; return [z, a, b] }(0, sl...)"), mk("func(z, a, b){ sl[0] = 97; return [z, a, b] }(0, sl[0], sl[1])")},
				c20Pair{id + ":call-var", mk("F(id(sl)...)"), mk("F(id(sl)[0], id(sl)[1])")})
		}
		// deferred and go calls: the arguments are the values at the statement
		dmk := func(call string) string {
			return "sl = " + l.src + "\nG = func(a, b){ glog(\"G\", a, b) }\nfunc(){\n defer " + call + "\n sl[0] = 99\n sl[1] = 98\n}()\nsl"
		}
		gmk := func(call string) string {
			return "sl = " + l.src + "\ndn = make(chan interface, 1)\nhold = make(chan interface)\nG = func(a, b){ <-hold; glog(\"G\", a, b); dn <- 1 }\ngo " + call + "\nsl[0] = 99\nsl[1] = 98\nhold <- 1\n<-dn\nsl"
		}
		c20PairList = append(c20PairList,
			c20Pair{l.name + ":defer", dmk("G(sl...)"), dmk("G(sl[0], sl[1])")},
			c20Pair{l.name + ":go", gmk("G(sl...)"), gmk("G(sl[0], sl[1])")})
	}
	return c20PairList
}

func c20RunPair(c *wk.Case, p c20Pair) {
	run := func(src string) c20Out {
		st := c20NewState()
		c.Begin(map[string]string{"pair": p.id, "src": src})
		ctx, cancel := context.WithTimeout(context.Background(), 20*time.Second)
		defer cancel()
		o := ank.ExecCtx(ctx, st.env, src)
		out := c20Out{src: src, class: c20Class(o)}
		if out.class == "ok" {
			out.val = c20NoAddr(st.render(o.Val))
		}
		out.goside = c20NoAddr("log=[" + st.logString() + "]")
		return out
	}
	a, b := run(p.a), run(p.b)
	c.Eval("pair|"+p.id, a.class == "ok" || b.class == "ok")
	c.Events(2)
	c.Tag("pair:"+p.id[strings.Index(p.id, ":")+1:], "outcome:"+a.class)
	if a.class == "timeout" || b.class == "timeout" {
		c.Inconclusive("timeout:pair:"+p.id, "", map[string]string{"spread": p.a, "written_out": p.b})
		return
	}
	if a.class != b.class || a.val != b.val || a.goside != b.goside {
		c.Violation("pair:spread-vs-written-out:"+p.id[strings.Index(p.id, ":")+1:],
			fmt.Sprintf("arguments bound by spreading: %s %s %s  BUT the same arguments written out: %s %s %s", a.class, a.val, a.goside, b.class, b.val, b.goside),
			map[string]string{"pair": p.id, "spread": p.a, "written_out": p.b})
	}
}
